import AL.Lemmas.LexerFwd
/-
  Completeness of `Next` in explicit form: blanks, then a correctly spelled token, then a character
  that cannot extend it; and when no scanner error is recorded on the way.
-/
namespace AL.Lex
open AL AL.Spec

/-- a character `text/scanner` does not complain about -/
def Clean (d : Sym) : Prop := d.bad = false ∧ d.r ≠ 0

theorem next_err_clean {st : LexState} (he : st.err = none)
    (hc : ∀ d, st.next.scan.ch = some d → Clean d) : st.next.err = none := by
  cases hch : st.scan.ch with
  | none => rw [next_none hch]; exact he
  | some c =>
    rw [next_some hch] at hc ⊢
    simp only [LexState.scanErrs_scan] at hc
    unfold Scanner.read at hc ⊢
    cases hr : st.scan.rest with
    | nil => simpa [LexState.scanErrs] using he
    | cons d r =>
      simp only [hr] at hc ⊢
      have hd := hc d (by simp)
      unfold Scanner.advance
      simp only [hd.1, Bool.false_eq_true, if_false, hd.2]
      split <;> simpa [LexState.scanErrs] using he

theorem Steps.err_clean {a b : LexState} {x : List Sym} (h : Steps a x b) (he : a.err = none)
    (hc : ∀ d ∈ (x ++ b.scan.unread.head?.toList).tail, Clean d) : b.err = none := by
  induction h with
  | refl => exact he
  | @next st c x st' hch hs ih =>
    have hu := hs.unread
    apply ih
    · apply next_err_clean he
      intro d hd
      apply hc
      have : st.next.scan.unread.head? = some d := by rw [unread_of_some hd]; rfl
      rw [hu] at this
      simp only [List.cons_append, List.tail_cons]
      cases x with
      | nil => simpa using this
      | cons e x => simp at this; simp [this]
    · intro d hd
      apply hc
      simp only [List.cons_append, List.tail_cons]
      exact List.mem_of_mem_tail hd

theorem skipWhite_cons {st : LexState} {c : Sym} {u : List Sym} (h : st.scan.unread = c :: u)
    (hw : isWhitespace c.r = true) :
    skipWhite st = skipWhite { st.next with start := st.next.scan.pos, buf := [] } := by
  rw [skipWhite]
  have hc := ch_of_unread h
  split
  · rename_i hn; rw [hc] at hn; cases hn
  · rename_i c' hc'
    have : c' = c := by rw [hc] at hc'; cases hc'; rfl
    subst this
    simp [hw]

theorem skipWhite_exact : ∀ (gap : List Sym) (st : LexState) (w : List Sym), st.scan.unread = gap ++ w →
    (∀ s ∈ gap, isWhitespace s.r = true) → (∀ r, nxt w = some r → isWhitespace r = false) →
    (skipWhite st).scan.unread = w ∧ (st.buf = [] → (skipWhite st).buf = []) ∧
    (st.err = none → (∀ d ∈ (gap ++ w.head?.toList).tail, Clean d) → (skipWhite st).err = none)
  | [], st, w, h, _, hw => by
    have : skipWhite st = st := skipWhite_id (fun r hr => hw r (by rw [peek_unread, h] at hr; exact hr))
    rw [this]; exact ⟨h, id, fun he _ => he⟩
  | c :: gap, st, w, h, hg, hw => by
    rw [skipWhite_cons h (hg c (by simp))]
    have h1 : st.next.scan.unread = gap ++ w := next_unread_cons h
    obtain ⟨i1, i2, i3⟩ := skipWhite_exact gap { st.next with start := st.next.scan.pos, buf := [] } w h1
      (fun s hs => hg s (by simp [hs])) hw
    refine ⟨i1, fun _ => i2 rfl, fun he hc => i3 ?_ ?_⟩
    · apply next_err_clean he
      intro d hd
      apply hc
      have : st.next.scan.unread.head? = some d := by rw [unread_of_some hd]; rfl
      rw [h1] at this
      simp only [List.cons_append, List.tail_cons]
      cases gap with
      | nil => simpa using this
      | cons e x => simp at this; simp [this]
    · intro d hd
      apply hc
      simp only [List.cons_append, List.tail_cons]
      exact List.mem_of_mem_tail hd

/-- no token starts with a blank -/
theorem spelling_head {k : TokKind} {val : List Sym} (hs : Spelling k val) (hne : val ≠ []) :
    ∃ c cs, val = c :: cs ∧ isWhitespace c.r = false := by
  have key : ∀ r rs, runes val = r :: rs → isWhitespace r = false →
      ∃ c cs, val = c :: cs ∧ isWhitespace c.r = false := by
    intro r rs h hr
    obtain ⟨c, cs, rfl, hc, -⟩ := runes_eq_cons h
    exact ⟨c, cs, rfl, by rw [hc]; exact hr⟩
  have numHead : ∀ r, (isNum r = true ∨ r = 45) → isWhitespace r = false := by
    intro r hr; rcases hr with hr | rfl
    · simp [isNum, isWhitespace] at hr ⊢; omega
    · rfl
  have decHead : ∀ l, DecInt l → ∃ r rs, l = r :: rs ∧ isNum r = true := by
    intro l hl
    rcases hl with rfl | ⟨d, ds, rfl, h1, h2, -⟩
    · exact ⟨48, [], rfl, rfl⟩
    · exact ⟨d, ds, rfl, by simp [isNum]; omega⟩
  have optHead : ∀ (P : List Nat → Prop) l, optMinus P l → (∀ l, P l → ∃ r rs, l = r :: rs ∧ isNum r = true) →
      ∃ r rs, l = r :: rs ∧ (isNum r = true ∨ r = 45) := by
    intro P l hl hP
    rcases hl with h | ⟨t, rfl, -⟩
    · obtain ⟨r, rs, rfl, hr⟩ := hP l h; exact ⟨r, rs, rfl, .inl hr⟩
    · exact ⟨45, t, rfl, .inr rfl⟩
  cases k with
  | unknown => exact absurd hs id
  | «end» =>
    rcases hs with hs | hs
    · exact key _ _ hs rfl
    · exact absurd (runes_eq_nil hs) hne
  | ident =>
    obtain ⟨r, rs, hl, hr, -⟩ := hs
    refine key _ _ hl ?_
    rcases hr with hr | rfl
    · simp [isAlpha, isWhitespace] at hr ⊢; omega
    · rfl
  | string =>
    obtain ⟨body, hl, -⟩ := hs
    exact key _ _ hl rfl
  | int =>
    rcases hs with hs | hs
    · obtain ⟨r, rs, hl, hr⟩ := optHead _ _ hs decHead
      exact key _ _ hl (numHead r hr)
    · obtain ⟨r, rs, hl, hr⟩ := optHead _ _ hs (by
        rintro l ⟨body, rfl, -⟩; exact ⟨48, _, rfl, rfl⟩)
      exact key _ _ hl (numHead r hr)
  | float =>
    obtain ⟨ip, frac, exp, hip, -, -, -, hl⟩ := hs
    obtain ⟨r, rs, rfl, hr⟩ := optHead _ _ hip decHead
    exact key r (rs ++ frac ++ exp) (by simpa using hl) (numHead r hr)
  | lparen => exact key _ _ hs rfl
  | rparen => exact key _ _ hs rfl
  | lbracket => exact key _ _ hs rfl
  | rbracket => exact key _ _ hs rfl
  | dot => exact key _ _ hs rfl
  | star => exact key _ _ hs rfl
  | comma => exact key _ _ hs rfl
  | not => exact key _ _ hs rfl
  | less => exact key _ _ hs rfl
  | lessEq => exact key _ _ hs rfl
  | greater => exact key _ _ hs rfl
  | greaterEq => exact key _ _ hs rfl
  | eq => exact key _ _ hs rfl
  | notEq => exact key _ _ hs rfl
  | and => exact key _ _ hs rfl
  | or => exact key _ _ hs rfl

/-- (m), explicit form -/
theorem lexNext_complete' {st : LexState} {k : TokKind} {gap val rest : List Sym}
    (hs : Spelling k val) (hne : val ≠ []) (hb : st.buf = [])
    (hu : st.scan.unread = gap ++ val ++ rest) (hg : ∀ s ∈ gap, isWhitespace s.r = true)
    (hext : extendsTok k (nxt rest) = false) :
    (lexNext st).1.kind = k ∧ (lexNext st).1.val = val ∧
    (lexNext st).2.scan.unread = rest ∧ (lexNext st).2.buf = [] ∧
    (st.err = none → (∀ d ∈ (gap ++ val ++ rest.head?.toList).tail, Clean d) → (lexNext st).2.err = none) := by
  obtain ⟨c, cs, rfl, hc⟩ := spelling_head hs hne
  obtain ⟨i1, i2, i3⟩ := skipWhite_exact gap st (c :: cs ++ rest) (by simpa [List.append_assoc] using hu) hg
    (by intro r hr; simp at hr; subst hr; exact hc)
  rw [lexNext_complete hs hne i1 hext]
  obtain ⟨hsteps, hun⟩ := adv_spec (c :: cs) (skipWhite st) rest i1
  refine ⟨rfl, ?_, hun, rfl, ?_⟩
  · show (adv (skipWhite st) (c :: cs).length).buf = _
    rw [hsteps.buf, i2 hb]; rfl
  · intro he hcl
    show (adv (skipWhite st) (c :: cs).length).err = none
    apply hsteps.err_clean
    · apply i3 he
      intro d hd; apply hcl
      have : (gap ++ (c :: cs ++ rest).head?.toList).tail = (gap ++ [c]).tail := by simp
      rw [this] at hd
      cases gap with
      | nil => simp at hd
      | cons g gap =>
        simp only [List.cons_append, List.tail_cons] at hd ⊢
        simp at hd ⊢
        rcases hd with hd | hd
        · exact .inl hd
        · exact .inr (.inl hd)
    · intro d hd
      rw [hun] at hd
      apply hcl
      cases gap with
      | nil => simpa using hd
      | cons g gap =>
        simp only [List.cons_append, List.tail_cons] at hd ⊢
        simp at hd ⊢
        exact .inr (.inr hd)

end AL.Lex
