import AL.Lemmas.C07SBase
/-
  C07Sites, parser side, part 1: scalars, `parseMapping`, the two loops.
  For every function of parse.go: what it returns is made of nodes below the node it was given (`ROk`).
-/
namespace AL.C07S
open AL.Yaml AL.Ast AL.PW

variable {S : List Node}

/-! ### scalars -/

theorem strOf_newString_scalar (n : Node) (h : n.kind = .scalar) : StrOf n (newString n) :=
  ⟨rfl, Or.inl rfl, Or.inl rfl, Or.inl h⟩

theorem strOf_newString_expr (n : Node) (h : isExprAssigned n.value = true) : StrOf n (newString n) :=
  ⟨rfl, Or.inl rfl, Or.inl rfl, Or.inr (Or.inr h)⟩

theorem strOf_placeholder (n : Node) : StrOf n ⟨"", false, n.pos⟩ :=
  ⟨rfl, Or.inr rfl, Or.inr rfl, Or.inr (Or.inl rfl)⟩

theorem POk_of_mem {n : Node} (h : n ∈ S) : POk S n.pos := ⟨n, h, rfl⟩

theorem EOk_errAt {n : Node} (h : n ∈ S) (code : String) (args : List String) : EOk S [errAt n code args] := by
  simp only [EOk_cons, EOk_nil, and_true]
  exact ⟨n, h, rfl⟩

theorem errAt_ok {n : Node} (h : n ∈ S) (code : String) (args : List String) : ∃ v ∈ S, (errAt n code args).pos = v.pos :=
  ⟨n, h, rfl⟩

/-- **`parseString`**: the string it returns sits at the node — the node's text when it is a scalar, the empty placeholder
otherwise — and so does its diagnostic -/
theorem parseString_strOf (n : Node) (ae : Bool) : StrOf n (parseString n ae).1 := by
  simp only [parseString, checkString]
  by_cases hk : n.kind = .scalar
  · by_cases he : (!ae && n.value = "") = true
    · simp [hk, he]; exact strOf_placeholder n
    · simp only [Bool.not_eq_true] at he
      simp [hk, he]; exact strOf_newString_scalar n hk
  · simp [hk]; exact strOf_placeholder n

theorem checkString_ok {n : Node} (h : n ∈ S) (ae : Bool) : EOk S (checkString n ae).2 := by
  simp only [checkString]
  split
  · exact EOk_errAt h _ _
  · split
    · exact EOk_errAt h _ _
    · exact EOk_nil

theorem parseString_ok {n : Node} (h : n ∈ S) (ae : Bool) : ROk S (parseString n ae) := by
  refine ⟨IOk_str.2 ⟨n, h, parseString_strOf n ae⟩, ?_⟩
  simp only [parseString]
  split <;> exact checkString_ok h ae

theorem parseString_pos (n : Node) (ae : Bool) : (parseString n ae).1.pos = n.pos := (parseString_strOf n ae).pos

theorem parseStrings_ok (ae : Bool) : ∀ (cs : List Node), (∀ c ∈ cs, c ∈ S) → ROk S (parseStrings ae cs)
  | [], _ => by simp [parseStrings]
  | c :: cs, h => by
    have h1 := parseString_ok (h c (List.mem_cons_self ..)) ae
    have h2 := parseStrings_ok ae cs (fun x hx => h x (List.mem_cons_of_mem _ hx))
    simp only [parseStrings, ROk_mk, IOk_cons, EOk_append]
    exact ⟨⟨h1.1, h2.1⟩, h1.2, h2.2⟩

theorem checkNotEmpty_ok {n : Node} (h : n ∈ S) (sec : String) (len : Nat) : EOk S (checkNotEmpty sec len n).2 := by
  simp only [checkNotEmpty]
  split
  · exact EOk_errAt h _ _
  · exact EOk_nil

theorem checkSequence_ok {n : Node} (h : n ∈ S) (sec : String) (ae : Bool) : EOk S (checkSequence sec n ae).2 := by
  simp only [checkSequence]
  split
  · exact EOk_errAt h _ _
  · split
    · exact EOk_nil
    · exact checkNotEmpty_ok h _ _

/-- the children of a node all of whose descendants are in `S` -/
theorem content_sub {n : Node} (h : ∀ x ∈ allNodes n, x ∈ S) : ∀ c ∈ n.content, ∀ x ∈ allNodes c, x ∈ S :=
  fun _ hc x hx => h x (allNodes_child hc hx)

theorem content_mem {n : Node} (h : ∀ x ∈ allNodes n, x ∈ S) : ∀ c ∈ n.content, c ∈ S :=
  fun c hc => content_sub h c hc c (mem_allNodes_self c)

theorem self_mem {n : Node} (h : ∀ x ∈ allNodes n, x ∈ S) : n ∈ S := h n (mem_allNodes_self n)

theorem parseStringSequence_ok {n : Node} (h : ∀ x ∈ allNodes n, x ∈ S) (sec : String) (ae aee : Bool) :
    ROk S (parseStringSequence sec n ae aee) := by
  have hc := checkSequence_ok (self_mem h) sec ae
  have hs := parseStrings_ok aee n.content (content_mem h)
  simp only [parseStringSequence]
  split
  · simp [hc]
  · simp [hc, hs.1, hs.2]

theorem parseStringOrStringSequence_ok {n : Node} (h : ∀ x ∈ allNodes n, x ∈ S) (sec : String) (ae aee : Bool) :
    ROk S (parseStringOrStringSequence sec n ae aee) := by
  simp only [parseStringOrStringSequence]
  split
  · split
    · simp
    · have := parseString_ok (self_mem h) aee
      simp [this.1, this.2]
  · exact parseStringSequence_ok h sec ae aee

theorem parseExpression_ok {n : Node} (h : n ∈ S) (e : String) : ROk S (parseExpression n e) := by
  simp only [parseExpression]
  split
  · simp [EOk_errAt h]
  · rename_i hx
    simp only [Bool.not_eq_true] at hx
    simp only [ROk_mk, IOk_some, IOk_str, EOk_nil, and_true]
    exact ⟨n, h, strOf_newString_expr n (by simpa using hx)⟩

theorem mayParseExpression_ok {n : Node} (h : n ∈ S) : IOk S (mayParseExpression n) := by
  simp only [mayParseExpression]
  split
  · simp
  · split
    · simp
    · rename_i hx
      simp only [IOk_some, IOk_str]
      exact ⟨n, h, strOf_newString_expr n (by simpa using hx)⟩

theorem parseBool_ok {n : Node} (h : n ∈ S) : ROk S (parseBool n) := by
  have he := fun e => parseExpression_ok h e
  simp only [parseBool]
  split
  · simp [EOk_errAt h]
  · split
    · simp [(he _).1, (he _).2, POk_of_mem h]
    · simp [POk_of_mem h]

theorem parseInt_ok (cfg : Cfg) {n : Node} (h : n ∈ S) : ROk S (parseInt cfg n) := by
  have he := fun e => parseExpression_ok h e
  simp only [parseInt]
  split
  · simp [EOk_errAt h]
  · split
    · split
      · simp [(he _).2]
      · rename_i s hs
        have := (he "integer literal").1
        rw [hs] at this
        simp [(he _).2, POk_of_mem h]
        simpa using this
    · split
      · simp [EOk_errAt h]
      · simp [POk_of_mem h]

theorem parseFloat_ok (cfg : Cfg) {n : Node} (h : n ∈ S) : ROk S (PW.parseFloat cfg n) := by
  have he := fun e => parseExpression_ok h e
  simp only [PW.parseFloat]
  split
  · simp [EOk_errAt h]
  · split
    · split
      · simp [(he _).2]
      · rename_i s hs
        have := (he "float number literal").1
        rw [hs] at this
        simp [(he _).2, POk_of_mem h]
        simpa using this
    · split
      · simp [EOk_errAt h]
      · simp [EOk_errAt h]
      · simp [POk_of_mem h]

/-! ### `parseMapping` -/

/-- an entry of a parsed mapping: its key string comes from a node of `S`, everything below its value is in `S` -/
def KVOk (S : List Node) (kv : KV) : Prop := (∃ v ∈ S, StrOf v kv.key) ∧ ∀ x ∈ allNodes kv.val, x ∈ S

theorem KVOk.keyPos {kv : KV} (h : KVOk S kv) : POk S kv.key.pos := by
  obtain ⟨v, hv, hs⟩ := h.1
  exact ⟨v, hv, hs.pos⟩

theorem KVOk.valMem {kv : KV} (h : KVOk S kv) : kv.val ∈ S := h.2 _ (mem_allNodes_self _)

theorem mappingLoop_ok (cfg : Cfg) (what : String) (cs : Bool) :
    ∀ (l : List (Node × Node)) (seen : List (String × Pos)),
      (∀ p ∈ l, p.1 ∈ S ∧ ∀ x ∈ allNodes p.2, x ∈ S) →
      (∀ kv ∈ (mappingLoop cfg what cs l seen).1, KVOk S kv) ∧ EOk S (mappingLoop cfg what cs l seen).2
  | [], _, _ => by simp [mappingLoop]
  | (kn, vn) :: rest, seen, h => by
    have hk := h (kn, vn) (List.mem_cons_self ..)
    have hrest : ∀ p ∈ rest, p.1 ∈ S ∧ ∀ x ∈ allNodes p.2, x ∈ S := fun p hp => h p (List.mem_cons_of_mem _ hp)
    have hs := parseString_ok hk.1 false
    rw [mappingLoop_cons]
    split
    · have ih := mappingLoop_ok cfg what cs rest seen hrest
      refine ⟨ih.1, ?_⟩
      simp only [EOk_append, EOk_cons, EOk_nil, and_true]
      exact ⟨⟨hs.2, ⟨kn, hk.1, parseString_pos kn false⟩⟩, ih.2⟩
    · have ih := mappingLoop_ok cfg what cs rest (seen ++ [(keyId cfg cs kn, (parseString kn false).1.pos)]) hrest
      refine ⟨?_, ?_⟩
      · intro kv hkv
        rcases List.mem_cons.1 hkv with rfl | hkv
        · exact ⟨⟨kn, hk.1, parseString_strOf kn false⟩, hk.2⟩
        · exact ih.1 kv hkv
      · simp only [EOk_append]
        exact ⟨hs.2, ih.2⟩

theorem parseMapping_ok (cfg : Cfg) (what : String) {n : Node} (h : ∀ x ∈ allNodes n, x ∈ S) (ae cs : Bool) :
    (∀ kv ∈ (parseMapping cfg what n ae cs).1, KVOk S kv) ∧ EOk S (parseMapping cfg what n ae cs).2 := by
  have hn := self_mem h
  simp only [parseMapping]
  split
  · simp [EOk_errAt hn]
  · split
    · simp [EOk_errAt hn]
    · have := mappingLoop_ok (S := S) cfg what cs (pairs n.content) [] (by
        intro p hp
        have := pairs_mem n.content p hp
        exact ⟨content_mem h _ this.1, content_sub h _ this.2⟩)
      refine ⟨this.1, ?_⟩
      simp only [EOk_append]
      exact ⟨this.2, EOk_ite (EOk_errAt hn _ _) EOk_nil⟩

theorem parseSectionMapping_ok (cfg : Cfg) (sec : String) {n : Node} (h : ∀ x ∈ allNodes n, x ∈ S) (ae cs : Bool) :
    (∀ kv ∈ (parseSectionMapping cfg sec n ae cs).1, KVOk S kv) ∧ EOk S (parseSectionMapping cfg sec n ae cs).2 :=
  parseMapping_ok cfg _ h ae cs

theorem unexpectedKey_ok {kv : KV} (h : KVOk S kv) (sec : String) (exp : List String) :
    ∃ v ∈ S, (unexpectedKey kv.key sec exp).pos = v.pos := by
  have : (unexpectedKey kv.key sec exp).pos = kv.key.pos := by
    simp only [unexpectedKey]
    split <;> rfl
  rw [this]
  exact h.keyPos

/-! ### the two loops -/

/-- a `for … range kvs` loop: when every iteration keeps "the state is made of nodes of `S`" and reports at nodes of `S`,
so does the loop -/
theorem loop_ok {σ : Type} [HasItems σ] (step : σ → KV → σ × List PErr) :
    ∀ (kvs : List KV) (init : σ), (∀ kv ∈ kvs, KVOk S kv) → (∀ st kv, KVOk S kv → IOk S st → ROk S (step st kv)) →
      IOk S init → ROk S (loop step init kvs)
  | [], init, _, _, h0 => by simp [h0]
  | kv :: rest, init, hk, hstep, h0 => by
    rw [loop_cons]
    have h1 := hstep init kv (hk kv (List.mem_cons_self ..)) h0
    have h2 := loop_ok step rest (step init kv).1 (fun x hx => hk x (List.mem_cons_of_mem _ hx)) hstep h1.1
    simp only [ROk_mk, EOk_append]
    exact ⟨h2.1, h1.2, h2.2⟩

theorem mapKVs_ok {β : Type} [HasItems β] (f : KV → R β) :
    ∀ (kvs : List KV), (∀ kv ∈ kvs, KVOk S kv) → (∀ kv, KVOk S kv → ROk S (f kv)) → ROk S (mapKVs f kvs)
  | [], _, _ => by simp [mapKVs]
  | kv :: rest, hk, hf => by
    have h1 := hf kv (hk kv (List.mem_cons_self ..))
    have h2 := mapKVs_ok f rest (fun x hx => hk x (List.mem_cons_of_mem _ hx)) hf
    simp only [mapKVs, ROk_mk, IOk_cons, IOk_entry, EOk_append]
    exact ⟨⟨h1.1, h2.1⟩, h1.2, h2.2⟩

end AL.C07S
