import AL.Lemmas.InsecureBasic
/-
  C11, the main invariant: running the machine on `(check Γ e).evs` from any state `st` (outside safe
  calls)
    * first finishes `st` (emitting its pending report),
    * then emits the reports of `e` except the one of its outermost pending chain,
    * and ends with the cursor set `followAll …` of that outermost chain
  (`Eff`).  A safe call is the special case "finish, nothing pending".  `Sem` is the observational
  corollary "after a final `end()` the reports are those of the spec", which is compositional.
-/
namespace AL.Insecure
open AL AL.Sema AL.Spec

/-! ### spec-side facts -/

theorem followAll_nil (f : Bool) (segs : List Seg) : followAll [] f segs = [] := by
  induction segs generalizing f with
  | nil => rfl
  | cons s rest ih =>
    cases s with
    | prop n => simp [followAll, follow, ih]
    | idx => cases f <;> simp [followAll, follow, ih]
    | star => simp [followAll, follow, ih]

section spec
variable (roots : List Trie) (lower : String → String) (defined : String → Bool)

theorem chainReport_eq (n : String) (segs : List Seg) :
    chainReport roots n segs =
      rep (followAll (match roots.find? (·.name = n) with | none => [] | some r => [⟨[r.name], r⟩]) false segs) := by
  unfold chainReport
  cases roots.find? (·.name = n) with
  | none => simp [followAll_nil]
  | some r => rfl

/-- `i` is not a string literal -/
def nonLit : E → Bool
  | .str _ => false
  | _ => true

theorem chain_index_lit (r : E) (v : String) (s : List Seg) :
    chain roots lower defined (.index r (.str v)) s = chain roots lower defined r (.prop (lower v) :: s) := by
  rw [chain]
theorem chain_index_nonlit (r i : E) (s : List Seg) (h : nonLit i = true) :
    chain roots lower defined (.index r i) s =
      reports roots lower defined i ++ chain roots lower defined r (.idx :: s) := by
  cases i <;> first | (simp [nonLit] at h; done) | (rw [chain]; all_goals (intro v hv; cases hv))
theorem leaveOf_index_nonlit (r i : E) (h : nonLit i = true) : leaveOf lower (.index r i) = .index := by
  cases i <;> first | (simp [nonLit] at h; done) | rfl
theorem chain_nil (e : E) : chain roots lower defined e [] = reports roots lower defined e := by
  cases e with
  | index r i => cases i <;> simp [chain, reports]
  | _ => simp [chain, reports]

theorem chain_call (c : String) (args : List E) (s : List Seg) :
    chain roots lower defined (.call c args) s = reports roots lower defined (.call c args) := by
  rw [chain]
  all_goals intros; simp_all

theorem chain_safe (e : E) (h : isSafeE lower e = true) (s : List Seg) : chain roots lower defined e s = [] := by
  cases e with
  | call c args => rw [chain_call, reports]; simp_all [isSafeE]
  | _ => simp [isSafeE] at h

theorem reports_safe (e : E) (h : isSafeE lower e = true) : reports roots lower defined e = [] := by
  rw [← chain_nil]; exact chain_safe roots lower defined e h []
end spec

/-! ### the two semantic judgements -/

/-- observational semantics of an event list: after a final `end()`, the reports are those of the
entry state (finished) followed by `rs` -/
def Sem (roots : List Trie) (evs : List Ev) (rs : List (List String)) : Prop :=
  ∀ st : State, st.safeCalls = 0 →
    (exec roots st evs).safeCalls = 0 ∧ (exec roots st evs).finish.reports = st.finish.reports ++ rs

/-- exact semantics: the entry state is finished, `pre` is emitted, and the cursor set `pc` with
filter flag `pf` is pending -/
def Eff (roots : List Trie) (evs : List Ev) (pre : List (List String)) (pc : List Cur) (pf : Bool) : Prop :=
  ∀ st : State, st.safeCalls = 0 →
    exec roots st evs = { cur := pc, filteringObject := pf, safeCalls := 0, reports := st.reports ++ rep st.cur ++ pre }

theorem Sem.nil (roots : List Trie) : Sem roots [] [] := by
  intro st h; simp [h]

theorem Sem.append {roots : List Trie} {a b : List Ev} {ra rb : List (List String)}
    (ha : Sem roots a ra) (hb : Sem roots b rb) : Sem roots (a ++ b) (ra ++ rb) := by
  intro st h
  obtain ⟨h1, h2⟩ := ha st h
  obtain ⟨h3, h4⟩ := hb _ h1
  rw [exec_append]
  exact ⟨h3, by rw [h4, h2, List.append_assoc]⟩

theorem Eff.toSem {roots : List Trie} {evs : List Ev} {pre : List (List String)} {pc : List Cur} {pf : Bool}
    (h : Eff roots evs pre pc pf) : Sem roots evs (pre ++ rep pc) := by
  intro st hs
  rw [h st hs]
  simp [finish_eq]

theorem Sem.thenEff {roots : List Trie} {a b : List Ev} {ra pre : List (List String)} {pc : List Cur} {pf : Bool}
    (ha : Sem roots a ra) (hb : Eff roots b pre pc pf) : Eff roots (a ++ b) (ra ++ pre) pc pf := by
  intro st h
  obtain ⟨h1, h2⟩ := ha st h
  rw [exec_append, hb _ h1]
  simp only [finish_eq] at h2
  rw [h2]; simp

theorem step_other (roots : List Trie) (st : State) (h : st.safeCalls = 0) :
    st.step roots (.leave .other) = st.finish := by
  simp [State.step, h]

theorem Sem.thenFinish {roots : List Trie} {a : List Ev} {ra : List (List String)}
    (ha : Sem roots a ra) : Eff roots (a ++ [.leave .other]) ra [] false := by
  intro st h
  obtain ⟨h1, h2⟩ := ha st h
  rw [exec_append, exec_cons, exec_nil, step_other _ _ h1]
  have h3 := finish_eq (exec roots st a)
  rw [h3] at h2 ⊢
  simp only [finish_eq] at h2
  simp only [h1, h2]

theorem Eff.lit (roots : List Trie) : Eff roots [.leave .other] [] [] false := by
  simpa using (Sem.nil roots).thenFinish

/-- extend a pending chain by one leave event that only transforms cursor set and flag -/
theorem Eff.thenSeg {roots : List Trie} {a : List Ev} {pre : List (List String)} {pc : List Cur} {pf : Bool}
    (ha : Eff roots a pre pc pf) (k : LeaveKind) (pc' : List Cur) (pf' : Bool)
    (hk : ∀ rs, State.step roots { cur := pc, filteringObject := pf, safeCalls := 0, reports := rs } (.leave k) =
      { cur := pc', filteringObject := pf', safeCalls := 0, reports := rs }) :
    Eff roots (a ++ [.leave k]) pre pc' pf' := by
  intro st h
  rw [exec_append, ha st h, exec_cons, exec_nil, hk]

/-! ### the invariant -/

/-- which function names are defined (arguments of undefined functions are not visited) -/
def dfnOf (env : Env) : String → Bool := fun c => (lookupFuncs c env.funcs).isSome

theorem step_var (roots : List Trie) (st : State) (n : String) (h : st.safeCalls = 0) :
    st.step roots (.leave (.var n)) = (st.finish).onVar roots n := by
  simp [State.step, h]

section inv
variable (roots : List Trie) (env : Env)

local notation "dfn" => dfnOf env

/-- what the invariant says about `check env e` -/
def Inv (e : E) : Prop :=
  ∃ pre pc pf, Eff roots (check env e).evs pre pc pf ∧
    (∀ suffix, chain roots env.lower dfn e suffix = pre ++ rep (followAll pc pf suffix))

theorem Inv.sem {e : E} (ih : Inv roots env e) :
    Sem roots (check env e).evs (reports roots env.lower dfn e) := by
  obtain ⟨pre, pc, pf, h1, h2⟩ := ih
  have := h2 []
  rw [chain_nil] at this
  rw [this]; exact h1.toSem

/-- a non-chain node: children have observational semantics `rs`, then the node's own leave calls `end()` -/
theorem Inv.of_finish {e : E} {body : List Ev}
    (hevs : (check env e).evs = body ++ [.leave .other])
    (hchain : ∀ s, chain roots env.lower dfn e s = reports roots env.lower dfn e)
    (hbody : Sem roots body (reports roots env.lower dfn e)) : Inv roots env e := by
  refine ⟨reports roots env.lower dfn e, [], false, ?_, ?_⟩
  · rw [hevs]; exact hbody.thenFinish
  · intro s; simp [hchain, followAll_nil]

theorem inv_all (e : E) : Inv roots env e := by
  apply check.induct env
    (motive1 := fun e => Inv roots env e)
    (motive2 := fun e x => Sem roots (narrow env e x).evs (reports roots env.lower dfn e))
    (motive3 := fun args => Sem roots (checkArgs env args).2.2 (reportsList roots env.lower dfn args))
  case case1 =>
    exact Inv.of_finish roots env (body := []) (evs_null env) (fun s => by simp [chain, reports])
      (by simpa [reports] using Sem.nil roots)
  case case2 =>
    exact Inv.of_finish roots env (body := []) (evs_bool env) (fun s => by simp [chain, reports])
      (by simpa [reports] using Sem.nil roots)
  case case3 =>
    exact Inv.of_finish roots env (body := []) (evs_num env) (fun s => by simp [chain, reports])
      (by simpa [reports] using Sem.nil roots)
  case case4 =>
    intro v
    exact Inv.of_finish roots env (body := []) (evs_str env v) (fun s => by simp [chain, reports])
      (by simpa [reports] using Sem.nil roots)
  case case5 =>
    intro n
    refine ⟨[], (match roots.find? (·.name = n) with | none => [] | some r => [⟨[r.name], r⟩]), false, ?_, ?_⟩
    · intro st h
      rw [evs_var, exec_cons, exec_nil, step_var _ _ _ h, finish_eq]
      simp only [State.onVar]
      cases roots.find? (·.name = n) <;> simp [h]
    · intro s; rw [chain, chainReport_eq]; simp
  case case6 =>
    intro r p _ _ _ _ _ ih
    obtain ⟨pre, pc, pf, h1, h2⟩ := ih
    refine ⟨pre, pc.filterMap (·.child p), pf, ?_, ?_⟩
    · rw [evs_objDeref]
      exact h1.thenSeg _ _ _ (fun rs => by simp [State.step, State.onPropAccess])
    · intro s; rw [chain, h2]; simp [followAll, follow]
  case case7 =>
    intro r _ _ _ _ ih
    obtain ⟨pre, pc, pf, h1, h2⟩ := ih
    refine ⟨pre, (follow pc pf .star).1, true, ?_, ?_⟩
    · rw [evs_arrDeref]
      exact h1.thenSeg _ _ _ (fun rs => rfl)
    · intro s; rw [chain, h2]; simp [followAll, follow]
  case case8 =>
    intro r i _ _ _ _ _ ihi ihr
    obtain ⟨pre, pc, pf, h1, h2⟩ := ihr
    cases hl : nonLit i
    · -- string-literal index: the literal's own leave finishes the state, then a property access
      obtain ⟨v, rfl⟩ : ∃ v, i = .str v := by
        cases i <;> simp [nonLit] at hl
        exact ⟨_, rfl⟩
      unfold Inv
      rw [evs_index, evs_str]
      refine ⟨pre, pc.filterMap (·.child (env.lower v)), pf, ?_, ?_⟩
      · have := ((Eff.lit roots).toSem.thenEff h1).thenSeg (.indexLit (env.lower v))
          (pc.filterMap (·.child (env.lower v))) pf
          (fun rs => by simp [State.step, State.onPropAccess])
        simpa [leaveOf] using this
      · intro s; rw [chain_index_lit, h2]; simp [followAll, follow]
    · -- the operand's leftmost leaf (variable, literal, call — safe or not) finishes the index's pending chain
      unfold Inv
      rw [evs_index, leaveOf_index_nonlit _ _ _ hl]
      have hi := Inv.sem roots env ihi
      refine ⟨reports roots env.lower dfn i ++ pre, (follow pc pf .idx).1, false, ?_, ?_⟩
      · exact (hi.thenEff h1).thenSeg .index _ _
          (fun rs => by cases pf <;> simp [State.step, State.onIndexAccess, follow])
      · intro s; rw [chain_index_nonlit _ _ _ _ _ _ hl, h2]
        cases pf <;> simp [followAll, follow]
  case case9 =>
    intro c args ih
    cases hs : isSafeE env.lower (.call c args)
    · have hs' : isSafeCall env.lower c = false := by simpa [isSafeE] using hs
      refine Inv.of_finish roots env (e := .call c args) (body := match lookupFuncs (env.lower c) env.funcs with
          | none => []
          | some _ => (checkArgs env args).2.2) ?_ (chain_call _ _ _ c args) ?_
      · rw [evs_call]; simp only [enterOf, leaveOf, hs']
        cases lookupFuncs (env.lower c) env.funcs <;> simp
      · rw [reports]
        simp only [hs', Bool.false_eq_true, if_false]
        split
        · next hnone => simpa [dfnOf, hnone] using Sem.nil roots
        · next sigs hsome =>
          simp only [dfnOf, hsome, Option.isSome_some, Bool.not_true, Bool.false_eq_true, if_false]
          exact ih
    · -- a safe call is `end()`: nothing of it is seen, the chain pending before it is finished
      refine ⟨[], [], false, ?_, ?_⟩
      · intro st h
        rw [safe_finish roots env _ hs st h, finish_eq]
        simp [h]
      · intro s; rw [chain_safe _ _ _ _ hs]; simp [followAll_nil]
  case case10 =>
    intro e ih
    refine Inv.of_finish roots env (evs_not env e) (fun s => by simp [chain]) ?_
    rw [reports]
    exact Inv.sem roots env ih
  case case11 =>
    intro op l r ihl ihr
    refine Inv.of_finish roots env (evs_cmp env op l r) (fun s => by simp [chain]) ?_
    rw [reports]
    exact (Inv.sem roots env ihl).append (Inv.sem roots env ihr)
  case case12 =>
    intro op l r ihl ihr
    refine Inv.of_finish roots env (evs_logical env op l r) (fun s => by simp [chain]) ?_
    rw [reports]
    have ihl' : Sem roots (narrow env l (dirOf op)).evs (reports roots env.lower dfn l) := by
      cases op <;> exact ihl
    exact ihl'.append (Inv.sem roots env ihr)
  case case13 =>
    intro l r ihl ihr
    rw [evs_narrow_and, reports]
    exact (Inv.sem roots env ihl).append (Inv.sem roots env ihr)
  case case14 =>
    intro l r ihl ihr
    rw [evs_narrow_or, reports]
    exact (Inv.sem roots env ihl).append (Inv.sem roots env ihr)
  case case15 =>
    intro op l r x h1 h2 ihl ihr
    rw [evs_narrow_logical env op l r x h1 h2, reports]
    have ihl' : Sem roots (narrow env l (dirOf op)).evs (reports roots env.lower dfn l) := by
      cases op <;> exact ihl
    exact ihl'.append (Inv.sem roots env ihr)
  case case16 =>
    intro e t ih
    rw [evs_narrow_not, reports]
    exact ih
  case case17 =>
    intro e x _ _ h3 h4 ih
    rw [narrow_other env e x h3 h4]
    exact Inv.sem roots env ih
  case case18 =>
    rw [evs_args_nil, reportsList]
    exact Sem.nil roots
  case case19 =>
    intro a rest iha ihr
    rw [evs_args_cons, reportsList]
    exact (Inv.sem roots env iha).append ihr

/-- the machine, run on the events of `e` and finished, reports what the chain specification says -/
theorem run_eq_reports (e : E) :
    run roots (check env e).evs = reports roots env.lower dfn e := by
  have h := (Inv.sem roots env (inv_all roots env e)) {} rfl
  rw [run_eq, h.2]
  simp [finish_eq]

end inv

end AL.Insecure
