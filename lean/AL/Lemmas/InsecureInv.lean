import AL.Lemmas.InsecureBasic
/-
  C11, the main invariant: for an expression `e` satisfying the side condition `ok`, running the
  machine on `(check Γ e).evs` from any state `st` (outside safe calls)
    * first finishes `st` (emitting its pending report),
    * then emits the reports of `e` except the one of its outermost pending chain,
    * and ends with the cursor set `followAll …` of that outermost chain
  (`Eff`), unless `e` is a safe call, which is transparent.  `Sem` is the observational corollary
  "after a final `end()` the reports are those of the spec", which is compositional.
-/
namespace AL.Insecure
open AL AL.Sema AL.Spec

/-! ### spec-side facts -/

theorem followAll_nil (f : Bool) (segs : List Seg) : followAll [] f segs = [] := by
  induction segs generalizing f with
  | nil => rfl
  | cons s rest ih =>
    cases s with
    | prop n => simp [followAll, follow, ih]
    | idx => cases f <;> simp [followAll, follow, ih]
    | star => simp [followAll, follow, ih]

section spec
variable (roots : List Trie) (lower : String → String) (defined : String → Bool)

theorem chainReport_eq (n : String) (segs : List Seg) :
    chainReport roots n segs =
      rep (followAll (match roots.find? (·.name = n) with | none => [] | some r => [⟨[r.name], r⟩]) false segs) := by
  unfold chainReport
  cases roots.find? (·.name = n) with
  | none => simp [followAll_nil]
  | some r => rfl

/-- `i` is not a string literal -/
def nonLit : E → Bool
  | .str _ => false
  | _ => true

theorem chain_index_lit (r : E) (v : String) (s : List Seg) :
    chain roots lower defined (.index r (.str v)) s = chain roots lower defined r (.prop (lower v) :: s) := by
  rw [chain]
theorem chain_index_nonlit (r i : E) (s : List Seg) (h : nonLit i = true) :
    chain roots lower defined (.index r i) s =
      reports roots lower defined i ++ chain roots lower defined r (.idx :: s) := by
  cases i <;> first | (simp [nonLit] at h; done) | (rw [chain]; all_goals (intro v hv; cases hv))
theorem leaveOf_index_nonlit (r i : E) (h : nonLit i = true) : leaveOf lower (.index r i) = .index := by
  cases i <;> first | (simp [nonLit] at h; done) | rfl
theorem ok_index_nonlit (r i : E) (h : nonLit i = true) :
    ok lower defined (.index r i) =
      (ok lower defined i && ok lower defined r && (!isSafeE lower r || clean lower i)) := by
  cases i <;> first | (simp [nonLit] at h; done) | (simp only [ok])

theorem chain_nil (e : E) : chain roots lower defined e [] = reports roots lower defined e := by
  cases e with
  | index r i => cases i <;> simp [chain, reports]
  | _ => simp [chain, reports]

theorem chain_call (c : String) (args : List E) (s : List Seg) :
    chain roots lower defined (.call c args) s = reports roots lower defined (.call c args) := by
  rw [chain]
  all_goals intros; simp_all

theorem chain_safe (e : E) (h : isSafeE lower e = true) (s : List Seg) : chain roots lower defined e s = [] := by
  cases e with
  | call c args => rw [chain_call, reports]; simp_all [isSafeE]
  | _ => simp [isSafeE] at h

theorem reports_safe (e : E) (h : isSafeE lower e = true) : reports roots lower defined e = [] := by
  rw [← chain_nil]; exact chain_safe roots lower defined e h []
end spec

/-! ### the two semantic judgements -/

/-- observational semantics of an event list: after a final `end()`, the reports are those of the
entry state (finished) followed by `rs` -/
def Sem (roots : List Trie) (evs : List Ev) (rs : List (List String)) : Prop :=
  ∀ st : State, st.safeCalls = 0 →
    (exec roots st evs).safeCalls = 0 ∧ (exec roots st evs).finish.reports = st.finish.reports ++ rs

/-- exact semantics: the entry state is finished, `pre` is emitted, and the cursor set `pc` with
filter flag `pf` is pending -/
def Eff (roots : List Trie) (evs : List Ev) (pre : List (List String)) (pc : List Cur) (pf : Bool) : Prop :=
  ∀ st : State, st.safeCalls = 0 →
    exec roots st evs = { cur := pc, filteringObject := pf, safeCalls := 0, reports := st.reports ++ rep st.cur ++ pre }

theorem Sem.nil (roots : List Trie) : Sem roots [] [] := by
  intro st h; simp [h]

theorem Sem.append {roots : List Trie} {a b : List Ev} {ra rb : List (List String)}
    (ha : Sem roots a ra) (hb : Sem roots b rb) : Sem roots (a ++ b) (ra ++ rb) := by
  intro st h
  obtain ⟨h1, h2⟩ := ha st h
  obtain ⟨h3, h4⟩ := hb _ h1
  rw [exec_append]
  exact ⟨h3, by rw [h4, h2, List.append_assoc]⟩

theorem Sem.of_transp {roots : List Trie} {evs : List Ev} (h : ∀ st : State, exec roots st evs = st) :
    Sem roots evs [] := by
  intro st hs; rw [h st]; simp [hs]

theorem Eff.toSem {roots : List Trie} {evs : List Ev} {pre : List (List String)} {pc : List Cur} {pf : Bool}
    (h : Eff roots evs pre pc pf) : Sem roots evs (pre ++ rep pc) := by
  intro st hs
  rw [h st hs]
  simp [finish_eq]

theorem Sem.thenEff {roots : List Trie} {a b : List Ev} {ra pre : List (List String)} {pc : List Cur} {pf : Bool}
    (ha : Sem roots a ra) (hb : Eff roots b pre pc pf) : Eff roots (a ++ b) (ra ++ pre) pc pf := by
  intro st h
  obtain ⟨h1, h2⟩ := ha st h
  rw [exec_append, hb _ h1]
  simp only [finish_eq] at h2
  rw [h2]; simp

theorem step_other (roots : List Trie) (st : State) (h : st.safeCalls = 0) :
    st.step roots (.leave .other) = st.finish := by
  simp [State.step, h]

theorem Sem.thenFinish {roots : List Trie} {a : List Ev} {ra : List (List String)}
    (ha : Sem roots a ra) : Eff roots (a ++ [.leave .other]) ra [] false := by
  intro st h
  obtain ⟨h1, h2⟩ := ha st h
  rw [exec_append, exec_cons, exec_nil, step_other _ _ h1]
  have h3 := finish_eq (exec roots st a)
  rw [h3] at h2 ⊢
  simp only [finish_eq] at h2
  simp only [h1, h2]

theorem Eff.lit (roots : List Trie) : Eff roots [.leave .other] [] [] false := by
  simpa using (Sem.nil roots).thenFinish

/-- extend a pending chain by one leave event that only transforms cursor set and flag -/
theorem Eff.thenSeg {roots : List Trie} {a : List Ev} {pre : List (List String)} {pc : List Cur} {pf : Bool}
    (ha : Eff roots a pre pc pf) (k : LeaveKind) (pc' : List Cur) (pf' : Bool)
    (hk : ∀ rs, State.step roots { cur := pc, filteringObject := pf, safeCalls := 0, reports := rs } (.leave k) =
      { cur := pc', filteringObject := pf', safeCalls := 0, reports := rs }) :
    Eff roots (a ++ [.leave k]) pre pc' pf' := by
  intro st h
  rw [exec_append, ha st h, exec_cons, exec_nil, hk]

/-! ### the invariant -/

/-- which function names are defined (arguments of undefined functions are not visited) -/
def dfnOf (env : Env) : String → Bool := fun c => (lookupFuncs c env.funcs).isSome

theorem step_var (roots : List Trie) (st : State) (n : String) (h : st.safeCalls = 0) :
    st.step roots (.leave (.var n)) = (st.finish).onVar roots n := by
  simp [State.step, h]

section inv
variable (roots : List Trie) (env : Env)

local notation "dfn" => dfnOf env

/-- what the invariant says about `check env e` -/
def Inv (e : E) : Prop :=
  ok env.lower dfn e = true → isSafeE env.lower e = false →
    ∃ pre pc pf, Eff roots (check env e).evs pre pc pf ∧
      (∀ suffix, chain roots env.lower dfn e suffix = pre ++ rep (followAll pc pf suffix)) ∧
      (clean env.lower e = true → pc = [])

theorem Inv.sem {e : E} (ih : Inv roots env e) (hok : ok env.lower dfn e = true) :
    Sem roots (check env e).evs (reports roots env.lower dfn e) := by
  cases hs : isSafeE env.lower e
  · obtain ⟨pre, pc, pf, h1, h2, _⟩ := ih hok hs
    have := h2 []
    rw [chain_nil] at this
    rw [this]; exact h1.toSem
  · rw [reports_safe _ _ _ _ hs]
    exact Sem.of_transp (transp_safe roots env e hs)

/-- a non-chain node: children have observational semantics `rs`, then the node's own leave calls `end()` -/
theorem Inv.of_finish {e : E} {body : List Ev}
    (hevs : (check env e).evs = body ++ [.leave .other])
    (hchain : ∀ s, chain roots env.lower dfn e s = reports roots env.lower dfn e)
    (hbody : ok env.lower dfn e = true → Sem roots body (reports roots env.lower dfn e)) : Inv roots env e := by
  intro hok _
  refine ⟨reports roots env.lower dfn e, [], false, ?_, ?_, fun _ => rfl⟩
  · rw [hevs]; exact (hbody hok).thenFinish
  · intro s; simp [hchain, followAll_nil]

theorem inv_all (e : E) : Inv roots env e := by
  apply check.induct env
    (motive1 := fun e => Inv roots env e)
    (motive2 := fun e x => ok env.lower dfn e = true → Sem roots (narrow env e x).evs (reports roots env.lower dfn e))
    (motive3 := fun args => okList env.lower dfn args = true →
      Sem roots (checkArgs env args).2.2 (reportsList roots env.lower dfn args))
  case case1 =>
    exact Inv.of_finish roots env (body := []) (evs_null env) (fun s => by simp [chain, reports])
      (fun _ => by simpa [reports] using Sem.nil roots)
  case case2 =>
    exact Inv.of_finish roots env (body := []) (evs_bool env) (fun s => by simp [chain, reports])
      (fun _ => by simpa [reports] using Sem.nil roots)
  case case3 =>
    exact Inv.of_finish roots env (body := []) (evs_num env) (fun s => by simp [chain, reports])
      (fun _ => by simpa [reports] using Sem.nil roots)
  case case4 =>
    intro v
    exact Inv.of_finish roots env (body := []) (evs_str env v) (fun s => by simp [chain, reports])
      (fun _ => by simpa [reports] using Sem.nil roots)
  case case5 =>
    intro n _ _
    refine ⟨[], (match roots.find? (·.name = n) with | none => [] | some r => [⟨[r.name], r⟩]), false, ?_, ?_, ?_⟩
    · intro st h
      rw [evs_var, exec_cons, exec_nil, step_var _ _ _ h, finish_eq]
      simp only [State.onVar]
      cases roots.find? (·.name = n) <;> simp [h]
    · intro s; rw [chain, chainReport_eq]; simp
    · simp [clean]
  case case6 =>
    intro r p _ _ _ _ _ ih hok _
    rw [ok] at hok
    simp only [Bool.and_eq_true, Bool.not_eq_true'] at hok
    obtain ⟨pre, pc, pf, h1, h2, h3⟩ := ih hok.2 hok.1
    refine ⟨pre, pc.filterMap (·.child p), pf, ?_, ?_, ?_⟩
    · rw [evs_objDeref]
      exact h1.thenSeg _ _ _ (fun rs => by simp [State.step, State.onPropAccess])
    · intro s; rw [chain, h2]; simp [followAll, follow]
    · intro hc; rw [clean] at hc; simp [h3 hc]
  case case7 =>
    intro r _ _ _ _ ih hok _
    rw [ok] at hok
    simp only [Bool.and_eq_true, Bool.not_eq_true'] at hok
    obtain ⟨pre, pc, pf, h1, h2, h3⟩ := ih hok.2 hok.1
    refine ⟨pre, (follow pc pf .star).1, true, ?_, ?_, ?_⟩
    · rw [evs_arrDeref]
      exact h1.thenSeg _ _ _ (fun rs => rfl)
    · intro s; rw [chain, h2]; simp [followAll, follow]
    · intro hc; rw [clean] at hc; simp [h3 hc, follow]
  case case8 =>
    intro r i _ _ _ _ _ ihi ihr hok _
    cases hl : nonLit i
    · -- string-literal index: the literal's own leave finishes the state, then a property access
      obtain ⟨v, rfl⟩ : ∃ v, i = .str v := by
        cases i <;> simp [nonLit] at hl
        exact ⟨_, rfl⟩
      rw [ok] at hok
      rw [evs_index, evs_str]
      cases hs : isSafeE env.lower r
      · obtain ⟨pre, pc, pf, h1, h2, h3⟩ := ihr hok hs
        refine ⟨pre, pc.filterMap (·.child (env.lower v)), pf, ?_, ?_, ?_⟩
        · have := ((Eff.lit roots).toSem.thenEff h1).thenSeg (.indexLit (env.lower v))
            (pc.filterMap (·.child (env.lower v))) pf
            (fun rs => by simp [State.step, State.onPropAccess])
          simpa [leaveOf] using this
        · intro s; rw [chain_index_lit, h2]; simp [followAll, follow]
        · intro hc; rw [clean] at hc; simp [h3 hc]
      · refine ⟨[], [], false, ?_, ?_, fun _ => rfl⟩
        · intro st h
          simp only [exec_append, exec_cons, exec_nil]
          rw [step_other _ _ h, transp_safe roots env r hs]
          simp [State.step, finish_eq, h, leaveOf, State.onPropAccess]
        · intro s; rw [chain_index_lit, chain_safe _ _ _ _ hs]; simp [followAll_nil]
    · rw [ok_index_nonlit _ _ _ _ hl] at hok
      simp only [Bool.and_eq_true, Bool.or_eq_true, Bool.not_eq_true'] at hok
      obtain ⟨⟨hoki, hokr⟩, hsc⟩ := hok
      rw [evs_index, leaveOf_index_nonlit _ _ _ hl]
      cases hs : isSafeE env.lower r
      · -- ordinary case: the operand's leftmost leaf finishes the index's pending chain
        obtain ⟨pre, pc, pf, h1, h2, h3⟩ := ihr hokr hs
        have hi := Inv.sem roots env ihi hoki
        refine ⟨reports roots env.lower dfn i ++ pre, (follow pc pf .idx).1, false, ?_, ?_, ?_⟩
        · exact (hi.thenEff h1).thenSeg .index _ _
            (fun rs => by cases pf <;> simp [State.step, State.onIndexAccess, follow])
        · intro s; rw [chain_index_nonlit _ _ _ _ _ _ hl, h2]
          cases pf <;> simp [followAll, follow]
        · intro hc; rw [clean] at hc; cases pf <;> simp [h3 hc, follow]
      · -- safe call indexed by a `clean` expression: nothing is pending when the index access fires
        have hci : clean env.lower i = true := by simpa [hs] using hsc
        have hsi : isSafeE env.lower i = false := by
          cases i <;> simp_all [isSafeE, clean]
        obtain ⟨pre, pc, pf, h1, h2, h3⟩ := ihi hoki hsi
        have hpc := h3 hci
        subst hpc
        refine ⟨pre, [], false, ?_, ?_, fun _ => rfl⟩
        · intro st h
          rw [exec_append, exec_append, h1 st h, transp_safe roots env r hs, exec_cons, exec_nil]
          cases pf <;> simp [State.step, State.onIndexAccess]
        · intro s
          have := h2 []
          rw [chain_nil] at this
          rw [chain_index_nonlit _ _ _ _ _ _ hl, chain_safe _ _ _ _ hs, this]
          simp [followAll_nil, followAll]
  case case9 =>
    intro c args ih hok hs
    have hs' : isSafeCall env.lower c = false := by simpa [isSafeE] using hs
    refine Inv.of_finish roots env (e := .call c args) (body := match lookupFuncs (env.lower c) env.funcs with
        | none => []
        | some _ => (checkArgs env args).2.2) ?_ (chain_call _ _ _ c args) ?_ hok hs
    · rw [evs_call]; simp only [enterOf, leaveOf, hs']
      cases lookupFuncs (env.lower c) env.funcs <;> simp
    · intro hok
      rw [ok] at hok
      rw [reports]
      simp only [hs', Bool.false_eq_true, if_false] at hok ⊢
      split
      · next hnone => simpa [dfnOf, hnone] using Sem.nil roots
      · next sigs hsome =>
        simp only [dfnOf, hsome, Option.isSome_some, Bool.not_true, Bool.false_eq_true, if_false] at hok ⊢
        exact ih hok
  case case10 =>
    intro e ih
    refine Inv.of_finish roots env (evs_not env e) (fun s => by simp [chain]) ?_
    intro hok
    rw [ok] at hok
    rw [reports]
    exact Inv.sem roots env ih hok
  case case11 =>
    intro op l r ihl ihr
    refine Inv.of_finish roots env (evs_cmp env op l r) (fun s => by simp [chain]) ?_
    intro hok
    rw [ok] at hok
    simp only [Bool.and_eq_true] at hok
    rw [reports]
    exact (Inv.sem roots env ihl hok.1).append (Inv.sem roots env ihr hok.2)
  case case12 =>
    intro op l r ihl ihr
    refine Inv.of_finish roots env (evs_logical env op l r) (fun s => by simp [chain]) ?_
    intro hok
    rw [ok] at hok
    simp only [Bool.and_eq_true] at hok
    rw [reports]
    have ihl' : Sem roots (narrow env l (dirOf op)).evs (reports roots env.lower dfn l) := by
      cases op <;> exact ihl hok.1
    exact ihl'.append (Inv.sem roots env ihr hok.2)
  case case13 =>
    intro l r ihl ihr hok
    rw [ok] at hok
    simp only [Bool.and_eq_true] at hok
    rw [evs_narrow_and, reports]
    exact (Inv.sem roots env ihl hok.1).append (Inv.sem roots env ihr hok.2)
  case case14 =>
    intro l r ihl ihr hok
    rw [ok] at hok
    simp only [Bool.and_eq_true] at hok
    rw [evs_narrow_or, reports]
    exact (Inv.sem roots env ihl hok.1).append (Inv.sem roots env ihr hok.2)
  case case15 =>
    intro op l r x h1 h2 ihl ihr hok
    rw [ok] at hok
    simp only [Bool.and_eq_true] at hok
    rw [evs_narrow_logical env op l r x h1 h2, reports]
    have ihl' : Sem roots (narrow env l (dirOf op)).evs (reports roots env.lower dfn l) := by
      cases op <;> exact ihl hok.1
    exact ihl'.append (Inv.sem roots env ihr hok.2)
  case case16 =>
    intro e t ih hok
    rw [ok] at hok
    rw [evs_narrow_not, reports]
    exact ih hok
  case case17 =>
    intro e x _ _ h3 h4 ih hok
    rw [narrow_other env e x h3 h4]
    exact Inv.sem roots env ih hok
  case case18 =>
    intro _
    rw [evs_args_nil, reportsList]
    exact Sem.nil roots
  case case19 =>
    intro a rest iha ihr hok
    rw [okList] at hok
    simp only [Bool.and_eq_true] at hok
    rw [evs_args_cons, reportsList]
    exact (Inv.sem roots env iha hok.1).append (ihr hok.2)

/-- the machine, run on the events of `e` and finished, reports what the chain specification says -/
theorem run_eq_reports (e : E) (hok : ok env.lower dfn e = true) :
    run roots (check env e).evs = reports roots env.lower dfn e := by
  have h := (Inv.sem roots env (inv_all roots env e) hok) {} rfl
  rw [run_eq, h.2]
  simp [finish_eq]

end inv

end AL.Insecure
