import AL.Lemmas.C03PBase
/-
  Infrastructure for AL.Props.C05Doc ("scope of steps / needs / matrix references, from the DOCUMENT"):

  * readers of the yaml.Node tree written without the parser: `mpair` / `mget` (the value under a key of a mapping),
    `docRoot`, `docJobs`, `docSteps`, `docStepId`, `docNeeds`;
  * EXACT "clean" lemmas: what `parseMapping` returns when it appends no diagnostic (`parseMapping_clean_eq`: one entry
    per pair, in order, `kvOf`), what a field of the loop state is after the key loop when only the iteration of one id
    writes it (`loop_field`, `sect_field`), that a clean loop had every iteration clean (`loop_clean_mem`,
    `sect_clean_at`).
-/
namespace AL.C05D
open AL.PW AL.Yaml AL.Ast AL.C03P

/-! ### the document side: readers of the node tree -/

/-- the pair of a mapping node whose key is written `k` (the first one, were there several) -/
def mpair (n : Node) (k : String) : Option (Node × Node) := (pairs n.content).find? (fun p => p.1.value = k)

/-- the value node under the key written `k` of a mapping node -/
def mget (n : Node) (k : String) : Option Node := (mpair n k).map (·.2)

/-- the root mapping of a document node -/
def docRoot (doc : Node) : Option Node := doc.content.head?

/-- the key / value pairs of `jobs:` -/
def docJobs (doc : Node) : List (Node × Node) :=
  match (docRoot doc).bind (mget · "jobs") with
  | some j => pairs j.content
  | none => []

/-- the job ids as written: the keys of `jobs:` -/
def docJobIds (doc : Node) : List String := (docJobs doc).map (·.1.value)

/-- the elements of `steps:` of a job node -/
def docSteps (job : Node) : List Node :=
  match mget job "steps" with
  | some s => s.content
  | none => []

/-- the `id:` scalar of a step node -/
def docStepIdNode (step : Node) : Option Node := mget step "id"

/-- the text of the `id:` of a step node -/
def docStepId (step : Node) : Option String := (mget step "id").map (·.value)

/-- the texts of the `id:` scalars of the elements of `steps:`, in order -/
def docStepIds (job : Node) : List String := (docSteps job).filterMap docStepId

/-- what is written under `needs:` of a job node: one scalar, or a sequence of scalars -/
def docNeeds (job : Node) : List String :=
  match mget job "needs" with
  | some v => if v.kind = .scalar then [v.value] else v.content.map (·.value)
  | none => []

/-! ### `parseMapping`, clean, exactly -/

/-- the entry `parseMapping` builds from a key / value pair when it reports nothing -/
def kvOf (cfg : Cfg) (cs : Bool) (p : Node × Node) : KV := ⟨keyOf cfg cs p.1, newString p.1, p.2⟩

theorem mappingLoop_clean_eq (cfg : Cfg) (what : String) (cs : Bool) :
    ∀ (l : List (Node × Node)) (seen : List (String × Yaml.Pos)),
    (mappingLoop cfg what cs l seen).2 = [] → (mappingLoop cfg what cs l seen).1 = l.map (kvOf cfg cs)
  | [], _, _ => by simp [mappingLoop]
  | (kn, vn) :: rest, seen, h => by
    rw [mappingLoop_cons] at h ⊢
    cases hl : lookupSeen (keyId cfg cs kn) seen with
    | some pos => simp [hl] at h
    | none =>
      simp only [hl, append_nil_iff] at h ⊢
      rw [mappingLoop_clean_eq cfg what cs rest _ h.2]
      simp only [List.map_cons, kvOf, keyId_clean cfg cs kn h.1, (parseString_clean kn false h.1).2]

/-- **`parseMapping`, clean: one entry per pair of the node, in order** — the id is the key's text (lower-cased in a
case-insensitive mapping), the key the key scalar, the value the value node -/
theorem parseMapping_clean_eq (cfg : Cfg) (what : String) (n : Node) (ae cs : Bool)
    (h : (parseMapping cfg what n ae cs).2 = []) :
    (parseMapping cfg what n ae cs).1 = (pairs n.content).map (kvOf cfg cs) := by
  simp only [parseMapping] at h ⊢
  split at h
  · simp at h
  · rename_i h1
    split at h
    · simp at h
    · rename_i h2
      simp only [h1, h2]
      simp only [append_nil_iff] at h
      exact mappingLoop_clean_eq cfg what cs _ [] h.1

theorem mapKVs_fst {β : Type} (f : KV → R β) : ∀ (kvs : List KV), (mapKVs f kvs).1 = kvs.map fun kv => (kv.id, (f kv).1)
  | [] => rfl
  | kv :: rest => by simp [mapKVs, mapKVs_fst f rest]

/-! ### the key loop -/

variable {σ τ : Type}

/-- a clean loop: every iteration was clean (in the state it ran in) -/
theorem loop_clean_mem (step : σ → KV → σ × List PErr) : ∀ (kvs : List KV) (init : σ), (loop step init kvs).2 = [] →
    ∀ kv ∈ kvs, ∃ st, (step st kv).2 = []
  | [], _, _, kv, hk => by cases hk
  | x :: rest, init, hc, kv, hk => by
    rw [loop_clean_cons] at hc
    rcases List.mem_cons.1 hk with rfl | hk
    · exact ⟨init, hc.1⟩
    · exact loop_clean_mem step rest _ hc.2 kv hk

theorem find?_none_of_ids (k : String) : ∀ (kvs : List KV), k ∉ kvs.map (·.id) → kvs.find? (fun kv => kv.id = k) = none
  | [], _ => rfl
  | x :: rest, h => by
    simp only [List.map_cons, List.mem_cons, not_or] at h
    have hx : ¬ x.id = k := fun e => h.1 e.symm
    simp only [List.find?_cons, hx, decide_false]
    exact find?_none_of_ids k rest h.2

/-- **a field of the loop state that only the iteration of the id `k` writes** (to a value `f kv` that does not depend on
the state): after the loop over pairwise distinct ids it is `f` of the entry with that id, or what it was -/
theorem loop_field (step : σ → KV → σ × List PErr) (π : σ → τ) (k : String) (f : KV → τ)
    (hne : ∀ st kv, kv.id ≠ k → π (step st kv).1 = π st)
    (heq : ∀ st kv, kv.id = k → π (step st kv).1 = f kv) :
    ∀ (kvs : List KV) (init : σ), (kvs.map (·.id)).Nodup →
      π (loop step init kvs).1 = match kvs.find? (fun kv => kv.id = k) with | some kv => f kv | none => π init
  | [], _, _ => rfl
  | x :: rest, init, hnd => by
    simp only [List.map_cons, List.nodup_cons] at hnd
    rw [loop_cons_fst, loop_field step π k f hne heq rest _ hnd.2]
    by_cases hx : x.id = k
    · have : rest.find? (fun kv => kv.id = k) = none := find?_none_of_ids k rest (by rw [← hx]; exact hnd.1)
      simp only [List.find?_cons, hx, decide_true, this, heq _ _ hx]
    · simp only [List.find?_cons, hx, decide_false, hne _ _ hx]

theorem find?_kvOf (cfg : Cfg) (k : String) : ∀ (l : List (Node × Node)),
    (l.map (kvOf cfg true)).find? (fun kv => kv.id = k) = (l.find? (fun p => p.1.value = k)).map (kvOf cfg true)
  | [] => rfl
  | p :: rest => by
    have e : (kvOf cfg true p).id = p.1.value := by simp [kvOf, keyOf]
    simp only [List.map_cons, List.find?_cons, e]
    by_cases hp : p.1.value = k
    · simp [hp]
    · simp only [hp, decide_false]
      exact find?_kvOf cfg k rest

/-- **a section of fixed keys** (`parseMapping`, case-sensitive, then the key loop), clean: a field only the key `k` writes
is `f` of the pair written `k`, or what it was -/
theorem sect_field (cfg : Cfg) (what : String) (n : Node) (ae : Bool) (step : σ → KV → σ × List PErr) (init : σ)
    (π : σ → τ) (k : String) (f : KV → τ)
    (hne : ∀ st kv, kv.id ≠ k → π (step st kv).1 = π st)
    (heq : ∀ st kv, kv.id = k → π (step st kv).1 = f kv)
    (hm : (parseMapping cfg what n ae true).2 = []) :
    π (loop step init (parseMapping cfg what n ae true).1).1 =
      match mpair n k with | some p => f (kvOf cfg true p) | none => π init := by
  rw [loop_field step π k f hne heq _ init (parseMapping_nodup cfg what n ae true), parseMapping_clean_eq cfg what n ae true hm,
    find?_kvOf, mpair]
  cases (pairs n.content).find? (fun p => p.1.value = k) <;> rfl

/-- `loop_field` where the writing iteration writes `f kv` only when it is clean (e.g. `run:` of a step, refused after
`uses:`): for a clean loop -/
theorem loop_field_clean (step : σ → KV → σ × List PErr) (π : σ → τ) (k : String) (f : KV → τ)
    (hne : ∀ st kv, kv.id ≠ k → π (step st kv).1 = π st)
    (heq : ∀ st kv, kv.id = k → (step st kv).2 = [] → π (step st kv).1 = f kv) :
    ∀ (kvs : List KV) (init : σ), (kvs.map (·.id)).Nodup → (loop step init kvs).2 = [] →
      π (loop step init kvs).1 = match kvs.find? (fun kv => kv.id = k) with | some kv => f kv | none => π init
  | [], _, _, _ => rfl
  | x :: rest, init, hnd, hc => by
    simp only [List.map_cons, List.nodup_cons] at hnd
    rw [loop_clean_cons] at hc
    rw [loop_cons_fst, loop_field_clean step π k f hne heq rest _ hnd.2 hc.2]
    by_cases hx : x.id = k
    · have : rest.find? (fun kv => kv.id = k) = none := find?_none_of_ids k rest (by rw [← hx]; exact hnd.1)
      simp only [List.find?_cons, hx, decide_true, this, heq _ _ hx hc.1]
    · simp only [List.find?_cons, hx, decide_false, hne _ _ hx]

theorem sect_field_clean (cfg : Cfg) (what : String) (n : Node) (ae : Bool) (step : σ → KV → σ × List PErr) (init : σ)
    (π : σ → τ) (k : String) (f : KV → τ)
    (hne : ∀ st kv, kv.id ≠ k → π (step st kv).1 = π st)
    (heq : ∀ st kv, kv.id = k → (step st kv).2 = [] → π (step st kv).1 = f kv)
    (hm : (parseMapping cfg what n ae true).2 = []) (hr : (loop step init (parseMapping cfg what n ae true).1).2 = []) :
    π (loop step init (parseMapping cfg what n ae true).1).1 =
      match mpair n k with | some p => f (kvOf cfg true p) | none => π init := by
  rw [loop_field_clean step π k f hne heq _ init (parseMapping_nodup cfg what n ae true) hr,
    parseMapping_clean_eq cfg what n ae true hm, find?_kvOf, mpair]
  cases (pairs n.content).find? (fun p => p.1.value = k) <;> rfl

/-- … and the iteration of that pair was clean -/
theorem sect_clean_at (cfg : Cfg) (what : String) (n : Node) (ae cs : Bool) (step : σ → KV → σ × List PErr) (init : σ)
    (hm : (parseMapping cfg what n ae cs).2 = []) (hr : (loop step init (parseMapping cfg what n ae cs).1).2 = [])
    (p : Node × Node) (hp : p ∈ pairs n.content) : ∃ st, (step st (kvOf cfg cs p)).2 = [] := by
  rw [parseMapping_clean_eq cfg what n ae cs hm] at hr
  exact loop_clean_mem step _ init hr _ (List.mem_map.2 ⟨p, hp, rfl⟩)

theorem mpair_mem {n : Node} {k : String} {p : Node × Node} (h : mpair n k = some p) : p ∈ pairs n.content ∧ p.1.value = k := by
  unfold mpair at h
  exact ⟨List.mem_of_find?_eq_some h, by simpa using List.find?_some h⟩

theorem kvOf_true (cfg : Cfg) (p : Node × Node) : kvOf cfg true p = ⟨p.1.value, newString p.1, p.2⟩ := by simp [kvOf, keyOf]
theorem kvOf_false (cfg : Cfg) (p : Node × Node) : kvOf cfg false p = ⟨cfg.lower p.1.value, newString p.1, p.2⟩ := by simp [kvOf, keyOf]

theorem fixDocPos_content (doc : Node) : (fixDocPos doc).content = doc.content := by
  cases doc; rfl

end AL.C05D
