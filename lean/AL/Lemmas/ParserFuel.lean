import AL.Lemmas.ParserSound
/-
  The fuel of the parser model: on a stream ending in END, `6 * length + rank` units suffice for the
  function of that rank, hence the `8 * (length + 1)` of `parseToks` is never exhausted.
-/
namespace AL.Parse
open AL AL.Lex AL.Spec

theorem der_ne_nil : ∀ {L ts e}, Der L ts e → ts ≠ []
  | _, _, _, .orUp h => der_ne_nil h
  | _, _, _, .orBin _ _ _ => by simp
  | _, _, _, .andUp h => der_ne_nil h
  | _, _, _, .andBin _ _ _ => by simp
  | _, _, _, .cmpUp h => der_ne_nil h
  | _, _, _, .cmpBin _ _ _ => by simp
  | _, _, _, .unaryUp h => der_ne_nil h
  | _, _, _, .unaryNot _ _ => by simp
  | _, _, _, .postUp h => der_ne_nil h
  | _, _, _, .postProp _ _ _ => by simp
  | _, _, _, .postStar _ _ _ => by simp
  | _, _, _, .postIndex _ _ _ _ => by simp
  | _, _, _, .primInt _ _ => by simp
  | _, _, _, .primFloat _ _ => by simp
  | _, _, _, .primStr _ => by simp
  | _, _, _, .primIdent _ => by simp
  | _, _, _, .primCall0 _ _ _ => by simp
  | _, _, _, .primCall _ _ _ _ => by simp
  | _, _, _, .primParen _ _ _ => by simp

/-! ### progress: every successful call consumes at least one token -/

theorem prog_level {p : Nat → Toks → PRes} {L f} (hS : SLevel p L f) {ts e rest}
    (hE : endsEnd ts = true) (h : p f ts = .ok (e, rest)) : endsEnd rest = true ∧ rest.length < ts.length := by
  obtain ⟨hE1, pre, rfl, hd⟩ := hS _ _ _ hE h
  refine ⟨hE1, ?_⟩
  have : pre ≠ [] := by
    intro h0; subst h0; exact der_ne_nil hd rfl
  have : 0 < pre.length := List.length_pos_iff.mpr this
  simp; omega

theorem prog_loop {f ret ts e rest} (hE : endsEnd ts = true) (h : postfixLoop f ret ts = .ok (e, rest)) :
    endsEnd rest = true ∧ rest.length ≤ ts.length := by
  obtain ⟨hE1, pre, rfl, _⟩ := (sound_all f).2.2.2.2.2.2.1 _ _ _ _ hE h
  exact ⟨hE1, by simp⟩

theorem prog_args {f acc ts es rest} (hE : endsEnd ts = true) (h : argsLoop f acc ts = .ok (es, rest)) :
    endsEnd rest = true ∧ rest.length < ts.length := by
  obtain ⟨hE1, pre, rp, es', rfl, _⟩ := (sound_all f).2.2.2.2.2.2.2 _ _ _ _ hE h
  exact ⟨hE1, by simp; omega⟩

theorem prog_or {f ts e rest} (hE : endsEnd ts = true) (h : parseLogicalOr f ts = .ok (e, rest)) :
    endsEnd rest = true ∧ rest.length < ts.length := prog_level (sound_all f).1 hE h
theorem prog_and {f ts e rest} (hE : endsEnd ts = true) (h : parseLogicalAnd f ts = .ok (e, rest)) :
    endsEnd rest = true ∧ rest.length < ts.length := prog_level (sound_all f).2.1 hE h
theorem prog_cmp {f ts e rest} (hE : endsEnd ts = true) (h : parseCompare f ts = .ok (e, rest)) :
    endsEnd rest = true ∧ rest.length < ts.length := prog_level (sound_all f).2.2.1 hE h
theorem prog_prefix {f ts e rest} (hE : endsEnd ts = true) (h : parsePrefix f ts = .ok (e, rest)) :
    endsEnd rest = true ∧ rest.length < ts.length := prog_level (sound_all f).2.2.2.1 hE h
theorem prog_postfix {f ts e rest} (hE : endsEnd ts = true) (h : parsePostfix f ts = .ok (e, rest)) :
    endsEnd rest = true ∧ rest.length < ts.length := prog_level (sound_all f).2.2.2.2.1 hE h
theorem prog_primary {f ts e rest} (hE : endsEnd ts = true) (h : parsePrimary f ts = .ok (e, rest)) :
    endsEnd rest = true ∧ rest.length < ts.length := prog_level (sound_all f).2.2.2.2.2.1 hE h

/-! ### fuel -/

/-- the result is not the "out of fuel" error -/
def NoFuel {α : Type} (r : Except ParseErr α) : Prop := ∀ e, r = .error e → e.msg ≠ .fuel

theorem noFuel_ok {α : Type} (a : α) : NoFuel (Except.ok a : Except ParseErr α) := by
  intro e h; cases h

theorem noFuel_errAt {α : Type} (ts : Toks) (m : ParseMsg) (hm : m ≠ .fuel) :
    NoFuel (Except.error (errAt ts m) : Except ParseErr α) := by
  intro e h; cases h; simpa [errAt] using hm

def FLevel (p : Nat → Toks → PRes) (c : Nat) (f : Nat) : Prop :=
  ∀ ts, endsEnd ts = true → 6 * ts.length + c ≤ f → NoFuel (p f ts)

def FLoop (f : Nat) : Prop :=
  ∀ ret ts, endsEnd ts = true → 6 * ts.length + 1 ≤ f → NoFuel (postfixLoop f ret ts)

def FArgs (f : Nat) : Prop :=
  ∀ acc ts, endsEnd ts = true → 6 * ts.length + 7 ≤ f → NoFuel (argsLoop f acc ts)

def FAll (f : Nat) : Prop :=
  FLevel parseLogicalOr 6 f ∧ FLevel parseLogicalAnd 5 f ∧ FLevel parseCompare 4 f ∧
  FLevel parsePrefix 3 f ∧ FLevel parsePostfix 2 f ∧ FLevel parsePrimary 1 f ∧ FLoop f ∧ FArgs f

theorem fuel_or {f} (hAnd : FLevel parseLogicalAnd 5 f) (hOr : FLevel parseLogicalOr 6 f) :
    FLevel parseLogicalOr 6 (f + 1) := by
  intro ts hE hf
  rw [parseLogicalOr]
  have hA := hAnd ts hE (by omega)
  split
  · rename_i e1 h1; intro e he; cases he; exact hA _ h1
  · rename_i l ts1 h1
    obtain ⟨hE1, hl⟩ := prog_and hE h1
    split
    · exact noFuel_ok _
    · rename_i hk
      have hk : (cur ts1).tok.kind = .or := by simpa using hk
      obtain ⟨t, r1, rfl, hadv, hE2, _⟩ := step_kind hE1 hk (by decide)
      rw [hadv]
      have hO := hOr r1 hE2 (by simp at hl; omega)
      split
      · rename_i e2 h2; intro e he; cases he; exact hO _ h2
      · exact noFuel_ok _

theorem fuel_and {f} (hCmp : FLevel parseCompare 4 f) (hAnd : FLevel parseLogicalAnd 5 f) :
    FLevel parseLogicalAnd 5 (f + 1) := by
  intro ts hE hf
  rw [parseLogicalAnd]
  have hA := hCmp ts hE (by omega)
  split
  · rename_i e1 h1; intro e he; cases he; exact hA _ h1
  · rename_i l ts1 h1
    obtain ⟨hE1, hl⟩ := prog_cmp hE h1
    split
    · exact noFuel_ok _
    · rename_i hk
      have hk : (cur ts1).tok.kind = .and := by simpa using hk
      obtain ⟨t, r1, rfl, hadv, hE2, _⟩ := step_kind hE1 hk (by decide)
      rw [hadv]
      have hO := hAnd r1 hE2 (by simp at hl; omega)
      split
      · rename_i e2 h2; intro e he; cases he; exact hO _ h2
      · exact noFuel_ok _

theorem fuel_cmp {f} (hPre : FLevel parsePrefix 3 f) (hCmp : FLevel parseCompare 4 f) :
    FLevel parseCompare 4 (f + 1) := by
  intro ts hE hf
  rw [parseCompare]
  have hA := hPre ts hE (by omega)
  split
  · rename_i e1 h1; intro e he; cases he; exact hA _ h1
  · rename_i l ts1 h1
    obtain ⟨hE1, hl⟩ := prog_prefix hE h1
    simp only
    split
    · exact noFuel_ok _
    · rename_i k hk
      obtain ⟨t, r1, rfl, hadv, hE2, _⟩ := step_kind hE1 rfl (cmpOf_ne_end hk)
      rw [hadv]
      have hO := hCmp r1 hE2 (by simp at hl; omega)
      split
      · rename_i e2 h2; intro e he; cases he; exact hO _ h2
      · exact noFuel_ok _

theorem fuel_prefix {f} (hPost : FLevel parsePostfix 2 f) (hPre : FLevel parsePrefix 3 f) :
    FLevel parsePrefix 3 (f + 1) := by
  intro ts hE hf
  rw [parsePrefix]
  split
  · exact hPost ts hE (by omega)
  · rename_i hk
    have hk : (cur ts).tok.kind = .not := by simpa using hk
    obtain ⟨t, r1, rfl, hadv, hE2, _⟩ := step_kind hE hk (by decide)
    rw [hadv]
    have hO := hPre r1 hE2 (by simp at hf; omega)
    split
    · rename_i e2 h2; intro e he; cases he; exact hO _ h2
    · exact noFuel_ok _

theorem fuel_postfix {f} (hPrim : FLevel parsePrimary 1 f) (hLoop : FLoop f) :
    FLevel parsePostfix 2 (f + 1) := by
  intro ts hE hf
  rw [parsePostfix]
  have hA := hPrim ts hE (by omega)
  split
  · rename_i e1 h1; intro e he; cases he; exact hA _ h1
  · rename_i e0 ts1 h1
    obtain ⟨hE1, hl⟩ := prog_primary hE h1
    exact hLoop _ ts1 hE1 (by omega)

theorem fuel_loop {f} (hOr : FLevel parseLogicalOr 6 f) (hLoop : FLoop f) : FLoop (f + 1) := by
  intro ret ts hE hf
  rw [postfixLoop]
  split
  · rename_i hk
    obtain ⟨d, r1, rfl, hadv, hE1, _⟩ := step_kind hE hk (by decide)
    simp only [hadv]
    split
    · rename_i hk2
      obtain ⟨s, r2, rfl, hadv2, hE2, _⟩ := step_kind hE1 hk2 (by decide)
      rw [hadv2]; exact hLoop _ r2 hE2 (by simp at hf; omega)
    · rename_i hk2
      obtain ⟨s, r2, rfl, hadv2, hE2, _⟩ := step_kind hE1 hk2 (by decide)
      rw [hadv2]; exact hLoop _ r2 hE2 (by simp at hf; omega)
    · exact noFuel_errAt _ _ (by simp)
  · rename_i hk
    obtain ⟨lb, r1, rfl, hadv, hE1, _⟩ := step_kind hE hk (by decide)
    rw [hadv]
    have hO := hOr r1 hE1 (by simp at hf; omega)
    split
    · rename_i e2 h2; intro e he; cases he; exact hO _ h2
    · rename_i idx ts1 h1
      obtain ⟨hE2, hl⟩ := prog_or hE1 h1
      split
      · exact noFuel_errAt _ _ (by simp)
      · rename_i hk2
        have hk2 : (cur ts1).tok.kind = .rbracket := by simpa using hk2
        obtain ⟨rb, r2, rfl, hadv2, hE3, _⟩ := step_kind hE2 hk2 (by decide)
        rw [hadv2]; exact hLoop _ r2 hE3 (by simp at hf hl; omega)
  · exact noFuel_ok _

theorem fuel_primary {f} (hOr : FLevel parseLogicalOr 6 f) (hArgs : FArgs f) :
    FLevel parsePrimary 1 (f + 1) := by
  intro ts hE hf
  rw [parsePrimary]
  simp only
  split
  · rename_i hk
    obtain ⟨t, r1, rfl, hadv, hE1, _⟩ := step_kind hE hk (by decide)
    simp only [hadv, cur_cons]
    split
    · rename_i hk2
      obtain ⟨lp, r2, rfl, hadv2, hE2, _⟩ := step_kind hE1 hk2 (by decide)
      simp only [hadv2]
      split
      · exact noFuel_ok _
      · have hA := hArgs [] r2 hE2 (by simp at hf; omega)
        split
        · rename_i e2 h2; intro e he; cases he; exact hA _ h2
        · exact noFuel_ok _
    · rw [keyword_eq]; exact noFuel_ok _
  · rename_i hk
    obtain ⟨lp, r1, rfl, hadv, hE1, _⟩ := step_kind hE hk (by decide)
    rw [hadv]
    have hO := hOr r1 hE1 (by simp at hf; omega)
    split
    · rename_i e2 h2; intro e he; cases he; exact hO _ h2
    · split
      · exact noFuel_ok _
      · exact noFuel_errAt _ _ (by simp)
  · split
    · exact noFuel_ok _
    · exact noFuel_errAt _ _ (by simp)
  · split
    · exact noFuel_errAt _ _ (by simp)
    · exact noFuel_ok _
  · exact noFuel_ok _
  · exact noFuel_errAt _ _ (by simp)

theorem fuel_args {f} (hOr : FLevel parseLogicalOr 6 f) (hArgs : FArgs f) : FArgs (f + 1) := by
  intro acc ts hE hf
  rw [argsLoop]
  have hO := hOr ts hE (by omega)
  split
  · rename_i e2 h2; intro e he; cases he; exact hO _ h2
  · rename_i arg ts1 h1
    obtain ⟨hE1, hl⟩ := prog_or hE h1
    split
    · rename_i hk
      obtain ⟨c, r1, rfl, hadv, hE2, _⟩ := step_kind hE1 hk (by decide)
      rw [hadv]; exact hArgs _ r1 hE2 (by simp at hl; omega)
    · exact noFuel_ok _
    · exact noFuel_errAt _ _ (by simp)

theorem fuel_all : ∀ f, FAll f := by
  intro f
  induction f with
  | zero =>
    refine ⟨?_, ?_, ?_, ?_, ?_, ?_, ?_, ?_⟩ <;> intro _ <;> intros <;> omega
  | succ f ih =>
    obtain ⟨hOr, hAnd, hCmp, hPre, hPost, hPrim, hLoop, hArgs⟩ := ih
    exact ⟨fuel_or hAnd hOr, fuel_and hCmp hAnd, fuel_cmp hPre hCmp, fuel_prefix hPost hPre,
      fuel_postfix hPrim hLoop, fuel_primary hOr hArgs, fuel_loop hOr hLoop, fuel_args hOr hArgs⟩

/-- the fuel handed in by `parseToks` suffices on every stream that ends with END -/
theorem fuel_enough_of_endsEnd {ts : Toks} (hE : endsEnd ts = true) {f : Nat} (hf : 6 * ts.length + 6 ≤ f) :
    NoFuel (parseLogicalOr f ts) := (fuel_all f).1 ts hE hf

end AL.Parse
