import AL.Lemmas.ProcInv
/-
  Extra for C20 (k): progress with a decreasing measure, hence every reachable state (with at least one
  permit) can be driven to `returned = true` without submitting anything new — the protocol has neither a
  deadlock nor an unavoidable livelock.
-/
namespace AL.Proc

/-- remaining protocol steps of one invocation -/
def rank : PC → Nat
  | .idle => 0
  | .added => 3
  | .running => 2
  | .released => 1
  | .done => 0

def rankSum : List PC → Nat
  | [] => 0
  | p :: ps => rank p + rankSum ps

theorem rankSum_set (pcs : List PC) (i : Nat) (r q : PC) (h : pcs[i]? = some r) :
    rankSum (setPc pcs i q) + rank r = rankSum pcs + rank q := by
  induction pcs generalizing i with
  | nil => simp at h
  | cons c cs ih =>
    cases i with
    | zero =>
      simp at h; subst h
      simp only [setPc, List.set_cons_zero, rankSum]; omega
    | succ i =>
      simp at h
      have := ih i h
      simp only [setPc, List.set_cons_succ, rankSum] at this ⊢
      omega

/-- number of non-`submit` actions still to be taken before `LintFiles` has returned -/
def mu (s : State) : Nat :=
  rankSum s.pcs + (if s.visiting then 1 else 0) + (if s.egWaited then 0 else 1) +
    (if s.procWaited then 0 else 1) + (if s.returned then 0 else 1)

theorem inv_progress_dec (s : State) (hi : Inv' s) (hpar : 1 ≤ s.par) (hr : s.returned = false) :
    ∃ a s', step s a = some s' ∧ mu s' < mu s := by
  by_cases hpw : s.procWaited = true
  · exact ⟨.ret, { s with returned := true }, by simp [step, hpw, hr], by simp [mu, hr]⟩
  by_cases heg : s.egWaited = true
  · have hv := hi.order1 heg
    have hall := hi.afterVisit hv
    have hw : s.wg = 0 := by
      rw [hi.wgCount, count_eq_zero _ .added, count_eq_zero _ .running, count_eq_zero _ .released]
      all_goals
        intro x hx
        cases hall x hx <;> simp_all
    exact ⟨.procWait, { s with procWaited := true }, by simp [step, heg, hw, hpw], by
      simp [mu, hpw]⟩
  by_cases hv' : s.visiting = false
  · exact ⟨.egWait, { s with egWaited := true }, by simp [step, hv', heg], by simp [mu, heg]⟩
  have hv : s.visiting = true := by simpa using hv'
  cases hall : s.pcs.all (fun p => p = .idle || p = .done) with
  | true =>
    exact ⟨.visitDone, { s with visiting := false }, by simp only [step, hv, hall]; rfl, by
      simp [mu, hv]⟩
  | false =>
    obtain ⟨p, hp, hne⟩ := List.all_eq_false.mp hall
    simp only [Bool.or_eq_true, decide_eq_true_eq, not_or] at hne
    obtain ⟨i, hpi⟩ := List.getElem?_of_mem hp
    have finishRunning : ∀ k : Nat, s.pcs[k]? = some PC.running →
        ∃ a s', step s a = some s' ∧ mu s' < mu s := fun k hk =>
      ⟨.finish k, { s with pcs := setPc s.pcs k .released, sema := s.sema + 1 }, by simp [step, hk], by
        have := rankSum_set s.pcs k _ .released hk
        simp only [rank] at this
        simp only [mu]; omega⟩
    cases p with
    | idle => simp at hne
    | done => simp at hne
    | running => exact finishRunning i hpi
    | released =>
      exact ⟨.callback i, { s with pcs := setPc s.pcs i .done, wg := s.wg - 1 }, by simp [step, hpi], by
        have := rankSum_set s.pcs i _ .done hpi
        simp only [rank] at this
        simp only [mu]; omega⟩
    | added =>
      by_cases hs : 0 < s.sema
      · exact ⟨.acquire i, { s with pcs := setPc s.pcs i .running, sema := s.sema - 1 }, by
          simp [step, hpi, hs], by
          have := rankSum_set s.pcs i _ .running hpi
          simp only [rank] at this
          simp only [mu]; omega⟩
      · have := hi.permits
        obtain ⟨k, hk⟩ := exists_of_count_pos s.pcs .running (by omega)
        exact finishRunning k hk

/-- from every state satisfying the invariant (with ≥ 1 permit) some schedule makes `LintFiles` return -/
theorem inv_can_return (m : Nat) (s : State) (hm : mu s ≤ m) (hi : Inv' s) (hpar : 1 ≤ s.par) :
    ∃ sched s', exec s sched = some s' ∧ s'.returned = true := by
  induction m generalizing s with
  | zero =>
    cases hr : s.returned with
    | true => exact ⟨[], s, rfl, hr⟩
    | false => simp [mu, hr] at hm
  | succ m ih =>
    cases hr : s.returned with
    | true => exact ⟨[], s, rfl, hr⟩
    | false =>
      obtain ⟨a, s1, hstep, hlt⟩ := inv_progress_dec s hi hpar hr
      have hp := (step_par _ _ _ hstep).1
      obtain ⟨sched, s', hex, hret⟩ := ih s1 (by omega) (step_inv _ _ _ hi hstep) (by omega)
      exact ⟨a :: sched, s', by simp [exec, hstep, hex], hret⟩

theorem exec_append (s : State) (a b : List Act) :
    exec s (a ++ b) = (exec s a).bind (fun s1 => exec s1 b) := by
  induction a generalizing s with
  | nil => rfl
  | cons x xs ih =>
    simp only [List.cons_append, exec]
    cases step s x with
    | none => rfl
    | some s1 => exact ih s1

end AL.Proc
