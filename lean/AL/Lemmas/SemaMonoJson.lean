import AL.Model.Json
import AL.Lemmas.SemaMonoBasic
/-
  C06: the hypothesis `WfEnv.fromJson` of (e') holds for the model of `typeOfJSONValue` that the driver
  uses (`AL.Json.fromJson`): every type it produces has key-sorted property lists.
-/
namespace AL.Sema
open AL AL.Ty AL.Json

theorem foldl_setProp_sorted (l : List (String × String × Ty)) :
    ∀ init, sortedKeys init = true →
      sortedKeys (l.foldl (fun ps e => Ty.setProp e.2.1 e.2.2 ps) init) = true := by
  induction l with
  | nil => intro init h; exact h
  | cons e rest ih => intro init h; exact ih _ (setProp_sorted init h)

theorem foldl_setProp_wfProps (l : List (String × String × Ty)) (hl : ∀ e ∈ l, wf e.2.2 = true) :
    ∀ init, wfProps init = true →
      wfProps (l.foldl (fun ps e => Ty.setProp e.2.1 e.2.2 ps) init) = true := by
  induction l with
  | nil => intro init h; exact h
  | cons e rest ih =>
    intro init h
    exact ih (fun x hx => hl x (List.mem_cons_of_mem _ hx)) _
      (setProp_wfProps (hl e (List.mem_cons_self ..)) init h)

/-- the collision-resolving fold of `memberTys` only ever keeps bindings of its input -/
theorem folded_all (P : String × String × Ty → Prop) (acc : List (String × String × Ty)) (hacc : ∀ e ∈ acc, P e) :
    ∀ init, (∀ e ∈ init, P e) →
      ∀ e ∈ acc.foldl (fun (m : List (String × String × Ty)) (e : String × String × Ty) =>
        match m.find? (fun x => x.2.1 = e.2.1) with
        | some old => if old.1 ≤ e.1 then m.map (fun x => if x.2.1 = e.2.1 then e else x) else m
        | none => m ++ [e]) init, P e := by
  induction acc with
  | nil => intro init h; exact h
  | cons a rest ih =>
    intro init h
    apply ih (fun x hx => hacc x (List.mem_cons_of_mem _ hx))
    have ha := hacc a (List.mem_cons_self ..)
    intro e he
    simp only [] at he
    split at he
    · split at he
      · rcases List.mem_map.mp he with ⟨x, hx, rfl⟩
        split
        · exact ha
        · exact h x hx
      · exact h e he
    · rcases List.mem_append.mp he with he | he
      · exact h e he
      · simp only [List.mem_singleton] at he; subst he; exact ha

mutual
theorem typeOf_wf (lower : String → String) : (v : JVal) → wf (typeOf lower v) = true
  | .null => by simp [typeOf, wf]
  | .bool => by simp [typeOf, wf]
  | .num => by simp [typeOf, wf]
  | .str => by simp [typeOf, wf]
  | .arr es => by
    simp only [typeOf, wf]
    exact elemTy_wf lower es none rfl
  | .obj ms => by
    simp only [typeOf]
    rw [wf_obj]
    have := memberTys_wf lower ms [] (by simp)
    simp [this.1, this.2, wfOpt]
theorem elemTy_wf (lower : String → String) : (es : List JVal) → ∀ acc, wfOpt acc = true →
    wf (elemTy lower es acc) = true
  | [], none, _ => by simp [elemTy, wf]
  | [], some t, h => by simpa [elemTy, wfOpt] using h
  | e :: es, none, _ => by
    simp only [elemTy]
    exact elemTy_wf lower es _ (by simpa [wfOpt] using typeOf_wf lower e)
  | e :: es, some t, h => by
    simp only [elemTy]
    exact elemTy_wf lower es _ (by simpa [wfOpt] using merge_wf _ _ (by simpa [wfOpt] using h) (typeOf_wf lower e))
theorem memberTys_wf (lower : String → String) : (ms : List (String × JVal)) → ∀ acc,
    (∀ e ∈ acc, wf e.2.2 = true) →
    sortedKeys (memberTys lower ms acc) = true ∧ wfProps (memberTys lower ms acc) = true
  | [], acc, h => by
    simp only [memberTys]
    exact ⟨foldl_setProp_sorted _ _ rfl,
      foldl_setProp_wfProps _ (folded_all (fun e => wf e.2.2 = true) acc h [] (by simp)) _ rfl⟩
  | (k, v) :: rest, acc, h => by
    simp only [memberTys]
    apply memberTys_wf lower rest
    intro e he
    rcases List.mem_append.mp he with he | he
    · exact h e he
    · simp only [List.mem_singleton] at he; subst he; exact typeOf_wf lower v
end

theorem fromJson_wf (lower : String → String) (s : String) (t : Ty) (h : AL.Json.fromJson lower s = .ok t) :
    wf t = true := by
  unfold AL.Json.fromJson at h
  split at h
  · cases h; exact typeOf_wf lower _
  · cases h

/-- the object types the driver builds (folding `setProp` over the given bindings) are key-sorted -/
theorem foldl_setProp_pairs_sorted (l : List (String × Ty)) :
    ∀ init, sortedKeys init = true → sortedKeys (l.foldl (fun acc kv => Ty.setProp kv.1 kv.2 acc) init) = true := by
  induction l with
  | nil => intro init h; exact h
  | cons e rest ih => intro init h; exact ih _ (setProp_sorted init h)

theorem foldl_setProp_pairs_wfProps (l : List (String × Ty)) (hl : ∀ e ∈ l, wf e.2 = true) :
    ∀ init, wfProps init = true → wfProps (l.foldl (fun acc kv => Ty.setProp kv.1 kv.2 acc) init) = true := by
  induction l with
  | nil => intro init h; exact h
  | cons e rest ih =>
    intro init h
    exact ih (fun x hx => hl x (List.mem_cons_of_mem _ hx)) _
      (setProp_wfProps (hl e (List.mem_cons_self ..)) init h)

end AL.Sema
