import AL.Spec.ScriptScalars
import AL.Lemmas.C05DJob
/-
  Infrastructure for AL.Props.C11Doc ("untrusted-input reports, from the DOCUMENT"):

  * `parseString` and the TEXT of a node (`AL.C11D.text`): whatever the node, whatever `allowEmpty`, the `*String`
    `parseString` returns has the node's text and the node's position; it has a non-empty text only for a scalar node,
    and then it is `newString` of it;
  * `parseMapping`, UNCONDITIONALLY (no "clean" hypothesis): the entry filed under an id is the one built from the FIRST
    pair whose key has that id (`mappingLoop_find`, `parseMapping_find`); every entry comes from a pair
    (`parseMapping_mem`);
  * the key loop, unconditionally: a field only the iteration of the id `k` writes — and that iteration either writes
    `f kv` or leaves it (`loop_field_opt`);
  * "clean" bridges from the readers of AL/Spec/ScriptScalars.lean (`entries`, `lookup`: by kind and text) to the readers
    of AL/Lemmas/C05DBase.lean (`pairs`, `mget`: by value) — they agree on a node `parseMapping` accepts silently.
-/
namespace AL.C11D
open AL.PW AL.Yaml AL.Ast AL.C03P AL.C05D

/-! ### `parseString` and the text of a node -/

theorem text_scalar {n : Node} (h : n.kind = .scalar) : text n = n.value := by simp [text, h]

theorem text_not_scalar {n : Node} (h : n.kind ≠ .scalar) : text n = "" := by simp [text, h]

theorem text_ne_empty {n : Node} (h : text n ≠ "") : n.kind = .scalar ∧ text n = n.value := by
  by_cases hk : n.kind = .scalar
  · exact ⟨hk, text_scalar hk⟩
  · exact absurd (text_not_scalar hk) h

/-- **the `*String` `parseString` returns has the TEXT of the node** — the value of a scalar, nothing for a collection
(the placeholder) — whatever `allowEmpty` -/
theorem parseString_value (n : Node) (ae : Bool) : (parseString n ae).1.value = text n := by
  by_cases hk : n.kind = .scalar <;> by_cases he : n.value = "" <;> cases ae <;>
    simp [parseString, checkString, text, hk, he, newString]

theorem parseString_pos (n : Node) (ae : Bool) : (parseString n ae).1.pos = n.pos := by
  by_cases hk : n.kind = .scalar <;> by_cases he : n.value = "" <;> cases ae <;>
    simp [parseString, checkString, hk, he, newString]

/-- a `*String` with a text comes from a scalar node and is `newString` of it: text, quoting, position -/
theorem parseString_of_value_ne (n : Node) (ae : Bool) (h : (parseString n ae).1.value ≠ "") :
    n.kind = .scalar ∧ (parseString n ae).1 = newString n := by
  by_cases hk : n.kind = .scalar <;> by_cases he : n.value = "" <;> cases ae <;>
    simp_all [parseString, checkString, newString]

theorem newString_value (n : Node) : (newString n).value = n.value := rfl
theorem newString_pos (n : Node) : (newString n).pos = n.pos := rfl

/-- the id `parseMapping` files a key node under, by the node's text -/
theorem keyId_text (cfg : Cfg) (cs : Bool) (kn : Node) :
    keyId cfg cs kn = if cs then text kn else cfg.lower (text kn) := by
  simp only [keyId, parseString_value]

/-- the entry `parseMapping` builds from a pair, whatever the key node -/
def kvAt (cfg : Cfg) (cs : Bool) (p : Node × Node) : KV := ⟨keyId cfg cs p.1, (parseString p.1 false).1, p.2⟩

/-! ### `parseMapping`, unconditionally -/

/-- **the entry with the id `k` is the one built from the FIRST pair whose key has the id `k`** (later ones are reported
and dropped) -/
theorem mappingLoop_find (cfg : Cfg) (what : String) (cs : Bool) (k : String) :
    ∀ (l : List (Node × Node)) (seen : List (String × Yaml.Pos)), lookupSeen k seen = none →
      (mappingLoop cfg what cs l seen).1.find? (fun kv => kv.id = k) =
        (l.find? fun p => keyId cfg cs p.1 = k).map (kvAt cfg cs)
  | [], _, _ => by simp [mappingLoop]
  | (kn, vn) :: rest, seen, hs => by
    rw [mappingLoop_cons]
    by_cases hk : keyId cfg cs kn = k
    · rw [hk, hs]
      simp only [List.find?_cons, hk, decide_true, Option.map_some, kvAt]
    · cases hl : lookupSeen (keyId cfg cs kn) seen with
      | some pos =>
        simp only [List.find?_cons, hk, decide_false]
        exact mappingLoop_find cfg what cs k rest seen hs
      | none =>
        simp only [List.find?_cons, hk, decide_false]
        exact mappingLoop_find cfg what cs k rest _ (by rw [lookupSeen_snoc_ne _ _ hk]; exact hs)

theorem mappingLoop_mem (cfg : Cfg) (what : String) (cs : Bool) :
    ∀ (l : List (Node × Node)) (seen : List (String × Yaml.Pos)),
      ∀ kv ∈ (mappingLoop cfg what cs l seen).1, ∃ p ∈ l, kv = kvAt cfg cs p
  | [], _, kv, h => by simp [mappingLoop] at h
  | (kn, vn) :: rest, seen, kv, h => by
    rw [mappingLoop_cons] at h
    cases hl : lookupSeen (keyId cfg cs kn) seen with
    | some pos =>
      simp only [hl] at h
      obtain ⟨p, hp, e⟩ := mappingLoop_mem cfg what cs rest seen kv h
      exact ⟨p, List.mem_cons_of_mem _ hp, e⟩
    | none =>
      simp only [hl, List.mem_cons] at h
      rcases h with rfl | h
      · exact ⟨(kn, vn), List.mem_cons_self .., rfl⟩
      · obtain ⟨p, hp, e⟩ := mappingLoop_mem cfg what cs rest _ kv h
        exact ⟨p, List.mem_cons_of_mem _ hp, e⟩

/-- what `parseMapping` hands out where the mapping must not be empty: the loop over the pairs of a mapping node, nothing
for any other node -/
theorem parseMapping_fst (cfg : Cfg) (what : String) (n : Node) (cs : Bool) :
    (parseMapping cfg what n false cs).1 = (mappingLoop cfg what cs (entries n) []).1 := by
  by_cases hk : n.kind = .mapping
  · have hn : n.isNull = false := by simp [Node.isNull, hk]
    simp [parseMapping, entries, hk, hn]
  · simp only [parseMapping, entries, hk, ↓reduceIte]
    cases hn : n.isNull <;> simp [hk, mappingLoop]

/-- **`parseMapping`, unconditionally: the entry with the id `k` comes from the first pair of the node whose key has that
id** -/
theorem parseMapping_find (cfg : Cfg) (what : String) (n : Node) (cs : Bool) (k : String) :
    (parseMapping cfg what n false cs).1.find? (fun kv => kv.id = k) =
      ((entries n).find? fun p => keyId cfg cs p.1 = k).map (kvAt cfg cs) := by
  rw [parseMapping_fst]
  exact mappingLoop_find cfg what cs k _ [] rfl

/-- every entry comes from a pair of the node -/
theorem parseMapping_mem (cfg : Cfg) (what : String) (n : Node) (cs : Bool) :
    ∀ kv ∈ (parseMapping cfg what n false cs).1, ∃ p ∈ entries n, kv = kvAt cfg cs p := by
  rw [parseMapping_fst]
  exact mappingLoop_mem cfg what cs _ []

/-- the value `parseMapping` files under the id `k` of a case-sensitive mapping is `lookup n k` -/
theorem parseMapping_find_cs (cfg : Cfg) (what : String) (n : Node) (k : String) :
    ((parseMapping cfg what n false true).1.find? (fun kv => kv.id = k)).map (·.val) = lookup n k := by
  rw [parseMapping_find]
  simp only [lookup, keyId_text, ↓reduceIte, Option.map_map]
  rfl

/-- … of a case-insensitive mapping `lookupFolded cfg.lower n k` -/
theorem parseMapping_find_ci (cfg : Cfg) (what : String) (n : Node) (k : String) :
    ((parseMapping cfg what n false false).1.find? (fun kv => kv.id = k)).map (·.val) = lookupFolded cfg.lower n k := by
  rw [parseMapping_find]
  simp only [lookupFolded, keyId_text, Bool.false_eq_true, ↓reduceIte, Option.map_map]
  rfl

/-! ### lists with pairwise distinct ids -/

theorem find?_of_mem_nodup {α : Type} (id : α → String) (k : String) : ∀ (l : List α), (l.map id).Nodup →
    ∀ a ∈ l, id a = k → l.find? (fun x => id x = k) = some a
  | [], _, a, h, _ => by cases h
  | x :: rest, hnd, a, h, hk => by
    simp only [List.map_cons, List.nodup_cons, List.mem_map, not_exists, not_and] at hnd
    rcases List.mem_cons.1 h with rfl | h
    · simp [hk]
    · have hx : ¬ id x = k := fun e => hnd.1 a h (by rw [hk, e])
      simp only [List.find?_cons, hx, decide_false]
      exact find?_of_mem_nodup id k rest hnd.2 a h hk

/-- among pairwise distinct ids, the entries with the id `k` are the entry `find?` finds -/
theorem filter_eq_find?_toList {α : Type} (id : α → String) (k : String) : ∀ (l : List α), (l.map id).Nodup →
    l.filter (fun x => id x = k) = (l.find? (fun x => id x = k)).toList
  | [], _ => rfl
  | x :: rest, hnd => by
    simp only [List.map_cons, List.nodup_cons, List.mem_map, not_exists, not_and] at hnd
    by_cases hx : id x = k
    · have : rest.filter (fun y => id y = k) = [] := by
        apply List.filter_eq_nil_iff.2
        intro y hy
        simp only [decide_eq_true_eq]
        intro e
        exact hnd.1 y hy (by rw [e, hx])
      simp [hx, this]
    · simp only [List.filter_cons, hx, decide_false, Bool.false_eq_true, ↓reduceIte, List.find?_cons]
      exact filter_eq_find?_toList id k rest hnd.2

/-! ### the key loop, unconditionally -/

variable {σ τ : Type}

/-- **a field of the loop state that only the iteration of the id `k` touches — and that iteration writes `f kv` or leaves
it** (e.g. `run:` of a step: refused after `uses:`): after the loop it is what it was, or `f` of an entry with that id -/
theorem loop_field_opt (step : σ → KV → σ × List PErr) (π : σ → τ) (k : String) (f : KV → τ)
    (hne : ∀ st kv, kv.id ≠ k → π (step st kv).1 = π st)
    (heq : ∀ st kv, kv.id = k → π (step st kv).1 = f kv ∨ π (step st kv).1 = π st) :
    ∀ (kvs : List KV) (init : σ),
      π (loop step init kvs).1 = π init ∨ ∃ kv ∈ kvs, kv.id = k ∧ π (loop step init kvs).1 = f kv
  | [], _ => Or.inl rfl
  | x :: rest, init => by
    rw [loop_cons_fst]
    rcases loop_field_opt step π k f hne heq rest (step init x).1 with h | ⟨kv, hm, hk, e⟩
    · by_cases hx : x.id = k
      · rcases heq init x hx with h' | h'
        · exact Or.inr ⟨x, List.mem_cons_self .., hx, by rw [h, h']⟩
        · exact Or.inl (by rw [h, h'])
      · exact Or.inl (by rw [h, hne init x hx])
    · exact Or.inr ⟨kv, List.mem_cons_of_mem _ hm, hk, e⟩

/-- the same after `parseMapping`: the entry is the one `find?` finds -/
theorem sect_field_opt (cfg : Cfg) (what : String) (n : Node) (cs : Bool) (step : σ → KV → σ × List PErr) (init : σ)
    (π : σ → τ) (k : String) (f : KV → τ)
    (hne : ∀ st kv, kv.id ≠ k → π (step st kv).1 = π st)
    (heq : ∀ st kv, kv.id = k → π (step st kv).1 = f kv ∨ π (step st kv).1 = π st) :
    π (loop step init (parseMapping cfg what n false cs).1).1 = π init ∨
    ∃ kv, (parseMapping cfg what n false cs).1.find? (fun kv => kv.id = k) = some kv ∧
      π (loop step init (parseMapping cfg what n false cs).1).1 = f kv := by
  rcases loop_field_opt step π k f hne heq (parseMapping cfg what n false cs).1 init with h | ⟨kv, hm, hk, e⟩
  · exact Or.inl h
  · exact Or.inr ⟨kv, find?_of_mem_nodup (·.id) k _ (parseMapping_nodup cfg what n false cs) kv hm hk, e⟩

/-- a field EVERY iteration of the id `k` writes, after `parseMapping` (unconditional form of `AL.C05D.sect_field`) -/
theorem sect_field_find (cfg : Cfg) (what : String) (n : Node) (cs : Bool) (step : σ → KV → σ × List PErr) (init : σ)
    (π : σ → τ) (k : String) (f : KV → τ)
    (hne : ∀ st kv, kv.id ≠ k → π (step st kv).1 = π st)
    (heq : ∀ st kv, kv.id = k → π (step st kv).1 = f kv) :
    π (loop step init (parseMapping cfg what n false cs).1).1 =
      match (parseMapping cfg what n false cs).1.find? (fun kv => kv.id = k) with
      | some kv => f kv
      | none => π init :=
  loop_field step π k f hne heq _ init (parseMapping_nodup cfg what n false cs)

/-! ### clean bridges: the two families of readers agree on what `parseMapping` accepts -/

theorem mappingLoop_clean_keys (cfg : Cfg) (what : String) (cs : Bool) :
    ∀ (l : List (Node × Node)) (seen : List (String × Yaml.Pos)), (mappingLoop cfg what cs l seen).2 = [] →
      ∀ p ∈ l, p.1.kind = .scalar
  | [], _, _, p, hp => by cases hp
  | (kn, vn) :: rest, seen, h, p, hp => by
    rw [mappingLoop_cons] at h
    cases hl : lookupSeen (keyId cfg cs kn) seen with
    | some pos => simp [hl] at h
    | none =>
      simp only [hl, append_nil_iff] at h
      rcases List.mem_cons.1 hp with rfl | hp
      · exact (parseString_clean kn false h.1).1
      · exact mappingLoop_clean_keys cfg what cs rest _ h.2 p hp

/-- a node `parseMapping` accepts silently where the mapping must not be empty: a mapping whose keys are scalars -/
theorem parseMapping_clean_keys (cfg : Cfg) (what : String) (n : Node) (cs : Bool)
    (h : (parseMapping cfg what n false cs).2 = []) :
    n.kind = .mapping ∧ entries n = pairs n.content ∧ ∀ p ∈ pairs n.content, p.1.kind = .scalar := by
  have hk := parseMapping_clean_notnull cfg what n cs h
  refine ⟨hk, by simp [entries, hk], ?_⟩
  have hn : n.isNull = false := by simp [Node.isNull, hk]
  simp only [parseMapping, hn, hk] at h
  simp only [Bool.not_false, ne_eq, not_true_eq_false, decide_false, Bool.and_false, Bool.false_eq_true, ↓reduceIte,
    append_nil_iff] at h
  exact mappingLoop_clean_keys cfg what cs _ [] h.1

theorem find?_congr_mem {α : Type} {p q : α → Bool} : ∀ {l : List α}, (∀ a ∈ l, p a = q a) → l.find? p = l.find? q
  | [], _ => rfl
  | x :: rest, h => by
    simp only [List.find?_cons, h x (List.mem_cons_self ..)]
    cases q x
    · exact find?_congr_mem fun a ha => h a (List.mem_cons_of_mem _ ha)
    · rfl

/-- on such a node `lookup` (by kind and text) is `mget` (by value) -/
theorem lookup_eq_mget (cfg : Cfg) (what : String) (n : Node) (cs : Bool) (h : (parseMapping cfg what n false cs).2 = [])
    (k : String) : lookup n k = mget n k := by
  obtain ⟨_, he, hs⟩ := parseMapping_clean_keys cfg what n cs h
  simp only [lookup, mget, mpair, he]
  congr 1
  exact find?_congr_mem fun p hp => by rw [text_scalar (hs p hp)]

/-- on such a node the keys are pairwise distinct (as ids), so EVERY pair is the one `find?` finds under its id -/
theorem find?_of_mem_clean (cfg : Cfg) (what : String) (n : Node) (cs : Bool) (h : (parseMapping cfg what n false cs).2 = [])
    (idf : Node → String) (hid : ∀ p ∈ pairs n.content, idf p.1 = keyOf cfg cs p.1) (p : Node × Node) (hp : p ∈ entries n) :
    (entries n).find? (fun q => idf q.1 = idf p.1) = some p := by
  obtain ⟨_, he, _⟩ := parseMapping_clean_keys cfg what n cs h
  have hnd := parseMapping_nodup cfg what n false cs
  rw [parseMapping_clean_eq cfg what n false cs h, List.map_map] at hnd
  rw [he] at hp ⊢
  refine find?_of_mem_nodup (fun q : Node × Node => idf q.1) (idf p.1) _ ?_ p hp rfl
  have : (pairs n.content).map (fun q => idf q.1) = (pairs n.content).map ((fun kv : KV => kv.id) ∘ kvOf cfg cs) :=
    List.map_congr_left fun q hq => by simp [kvOf, hid q hq]
  rw [this]
  exact hnd

/-- in a mapping of fixed keys `parseMapping` accepts, the value of EVERY pair is what `lookup` finds under its key -/
theorem lookup_of_mem_clean (cfg : Cfg) (what : String) (n : Node) (h : (parseMapping cfg what n false true).2 = [])
    (p : Node × Node) (hp : p ∈ entries n) : lookup n (text p.1) = some p.2 := by
  obtain ⟨_, _, hs⟩ := parseMapping_clean_keys cfg what n true h
  have := find?_of_mem_clean cfg what n true h text (fun q hq => by simp [keyOf, text_scalar (hs q hq)]) p hp
  simp only [lookup, this, Option.map_some]

/-- … in a case-insensitive mapping, what `lookupFolded` finds under its folded key -/
theorem lookupFolded_of_mem_clean (cfg : Cfg) (what : String) (n : Node) (h : (parseMapping cfg what n false false).2 = [])
    (p : Node × Node) (hp : p ∈ entries n) : lookupFolded cfg.lower n (cfg.lower (text p.1)) = some p.2 := by
  obtain ⟨_, _, hs⟩ := parseMapping_clean_keys cfg what n false h
  have := find?_of_mem_clean cfg what n false h (fun kn => cfg.lower (text kn))
    (fun q hq => by simp [keyOf, text_scalar (hs q hq)]) p hp
  simp only [lookupFolded, this, Option.map_some]

end AL.C11D
