import AL.Lemmas.SemaMonoBasic
import AL.Model.Json
/-
  C08: `check` does not depend on the spelling of callee names and of index literals.
  `SpellEq lower e e'`: the two checker trees are equal except that a callee may be spelled differently
  (equal after `lower`) and a string literal used as an index may be spelled differently (equal after
  `lower`). `check` then yields the same type, the same events and the same diagnostic codes (the arguments
  of the diagnostics echo the spelling).
-/
namespace AL.Sema
open AL

mutual
inductive SpellEq (lower : String → String) : E → E → Prop
  | null : SpellEq lower .null .null
  | bool : SpellEq lower .bool .bool
  | num : SpellEq lower .num .num
  | str (v : String) : SpellEq lower (.str v) (.str v)
  | var (n : String) : SpellEq lower (.var n) (.var n)
  | call (c c' : String) (as as' : List E) : lower c = lower c' → SpellEqList lower as as' →
      SpellEq lower (.call c as) (.call c' as')
  | objDeref (r r' : E) (p : String) : SpellEq lower r r' → SpellEq lower (.objDeref r p) (.objDeref r' p)
  | arrDeref (r r' : E) : SpellEq lower r r' → SpellEq lower (.arrDeref r) (.arrDeref r')
  | index (r r' i i' : E) : SpellEq lower r r' → SpellEq lower i i' → SpellEq lower (.index r i) (.index r' i')
  | indexLit (r r' : E) (v v' : String) : SpellEq lower r r' → lower v = lower v' →
      SpellEq lower (.index r (.str v)) (.index r' (.str v'))
  | not (e e' : E) : SpellEq lower e e' → SpellEq lower (.not e) (.not e')
  | cmp (op : CmpOp) (l l' r r' : E) : SpellEq lower l l' → SpellEq lower r r' →
      SpellEq lower (.cmp op l r) (.cmp op l' r')
  | logical (op : LogOp) (l l' r r' : E) : SpellEq lower l l' → SpellEq lower r r' →
      SpellEq lower (.logical op l r) (.logical op l' r')
inductive SpellEqList (lower : String → String) : List E → List E → Prop
  | nil : SpellEqList lower [] []
  | cons (e e' : E) (es es' : List E) : SpellEq lower e e' → SpellEqList lower es es' →
      SpellEqList lower (e :: es) (e' :: es')
end

/-- same diagnostic codes, same type, same events -/
def Same (r r' : R) : Prop :=
  r.errs.map (·.code) = r'.errs.map (·.code) ∧ r.ty = r'.ty ∧ r.evs = r'.evs

variable {lower : String → String}

theorem strLit?_spell {a b : E} (h : SpellEq lower a b) : strLit? a = strLit? b := by
  cases h <;> rfl

theorem isVarsVar_spell {a b : E} (h : SpellEq lower a b) : isVarsVar a = isVarsVar b := by
  cases h <;> rfl

theorem isSafeCall_spell {c c' : String} (h : lower c = lower c') : isSafeCall lower c = isSafeCall lower c' := by
  simp only [isSafeCall, h]

theorem leaveOf_spell {a b : E} (h : SpellEq lower a b) : leaveOf lower a = leaveOf lower b := by
  cases h with
  | call c c' as as' hc _ => simp only [leaveOf, isSafeCall_spell hc]
  | index r r' i i' _ hi => cases hi <;> rfl
  | indexLit r r' v v' _ hv => simp only [leaveOf, hv]
  | _ => rfl

theorem enterOf_spell {a b : E} (h : SpellEq lower a b) : enterOf lower a = enterOf lower b := by
  cases h with
  | call c c' as as' hc _ => simp only [enterOf, isSafeCall_spell hc]
  | _ => rfl

theorem head_lit_spell {as as' : List E} (h : SpellEqList lower as as') :
    as.head?.bind strLit? = as'.head?.bind strLit? := by
  cases h with
  | nil => rfl
  | cons e e' es es' he _ => simp only [List.head?_cons, Option.bind_some, strLit?_spell he]

theorem Same.wrap {a b : E} (h : SpellEq lower a b) {r r' : R} (hs : Same r r') :
    Same (wrap lower a r) (wrap lower b r') := by
  obtain ⟨h1, h2, h3⟩ := hs
  refine ⟨h1, h2, ?_⟩
  simp only [wrap_evs, leaveOf_spell h, enterOf_spell h, h3]

/-! ### the non-recursive parts -/

section
variable (Γ : Env) {c c' : String} (h : Γ.lower c = Γ.lower c')
include h

theorem specialFuncErrs_spell :
    (specialFuncErrs Γ c).map (·.code) = (specialFuncErrs Γ c').map (·.code) := by
  simp only [specialFuncErrs, h]
  split
  · rfl
  · split <;> rfl

theorem builtinCall_spell (s : Sig) (fl : Option String) (n : Nat) :
    (builtinCall Γ c s fl n).1 = (builtinCall Γ c' s fl n).1 ∧
    (builtinCall Γ c s fl n).2.map (·.code) = (builtinCall Γ c' s fl n).2.map (·.code) := by
  have hsp := specialFuncErrs_spell Γ h
  simp only [builtinCall, h]
  split
  · cases fl <;> simp [hsp, List.map_append]
  · split
    · cases fl with
      | none => simp [hsp]
      | some lit => simp only []; split <;> simp [hsp, List.map_append]
    · simp [hsp]

theorem resolveCall_go_spell (fl : Option String) (tys : List Ty) :
    ∀ (sigs : List Sig) (errs : List SemaErr),
      (resolveCall.go Γ c fl tys sigs errs).1 = (resolveCall.go Γ c' fl tys sigs errs).1 ∧
      (resolveCall.go Γ c fl tys sigs errs).2.map (·.code) = (resolveCall.go Γ c' fl tys sigs errs).2.map (·.code) := by
  intro sigs
  induction sigs with
  | nil => intro errs; simp [resolveCall.go]
  | cons s rest ih =>
    intro errs
    simp only [resolveCall.go]
    cases checkSig s tys with
    | none => exact builtinCall_spell Γ h s fl tys.length
    | some e => exact ih (errs ++ [e])

theorem resolveCall_spell (sigs : List Sig) (fl : Option String) (tys : List Ty) :
    (resolveCall Γ c sigs fl tys).1 = (resolveCall Γ c' sigs fl tys).1 ∧
    (resolveCall Γ c sigs fl tys).2.map (·.code) = (resolveCall Γ c' sigs fl tys).2.map (·.code) :=
  resolveCall_go_spell Γ h fl tys sigs []

end

theorem indexTy_lit_spell (Γ : Env) {v v' : String} (h : Γ.lower v = Γ.lower v') (i t : Ty) :
    (indexTy Γ (some v) i t).1 = (indexTy Γ (some v') i t).1 ∧
    (indexTy Γ (some v) i t).2.map (·.code) = (indexTy Γ (some v') i t).2.map (·.code) := by
  unfold indexTy
  simp only [h]
  repeat' split
  all_goals first
    | exact ⟨rfl, rfl⟩
    | simp_all

/-! ### the induction -/

theorem check_spell_all (Γ : Env) :
    (∀ e e', SpellEq Γ.lower e e' → Same (check Γ e) (check Γ e')) ∧
    (∀ e b e', SpellEq Γ.lower e e' → Same (narrow Γ e b) (narrow Γ e' b)) ∧
    (∀ es es', SpellEqList Γ.lower es es' →
      (checkArgs Γ es).1 = (checkArgs Γ es').1 ∧
      (checkArgs Γ es).2.1.map (·.code) = (checkArgs Γ es').2.1.map (·.code) ∧
      (checkArgs Γ es).2.2 = (checkArgs Γ es').2.2) := by
  have key := check.mutual_induct Γ
    (motive1 := fun e => ∀ e', SpellEq Γ.lower e e' → Same (check Γ e) (check Γ e'))
    (motive2 := fun e b => ∀ e', SpellEq Γ.lower e e' → Same (narrow Γ e b) (narrow Γ e' b))
    (motive3 := fun es => ∀ es', SpellEqList Γ.lower es es' →
      (checkArgs Γ es).1 = (checkArgs Γ es').1 ∧
      (checkArgs Γ es).2.1.map (·.code) = (checkArgs Γ es').2.1.map (·.code) ∧
      (checkArgs Γ es).2.2 = (checkArgs Γ es').2.2)
  refine (fun ⟨a, b, c⟩ => ⟨a, fun e b' e' => b e b' e', c⟩) (key ?_ ?_ ?_ ?_ ?_ ?_ ?_ ?_ ?_ ?_ ?_ ?_ ?_ ?_ ?_ ?_ ?_ ?_ ?_)
  case refine_1 => intro e' h; cases h; exact ⟨rfl, rfl, rfl⟩
  case refine_2 => intro e' h; cases h; exact ⟨rfl, rfl, rfl⟩
  case refine_3 => intro e' h; cases h; exact ⟨rfl, rfl, rfl⟩
  case refine_4 => intro v e' h; cases h; exact ⟨rfl, rfl, rfl⟩
  case refine_5 => intro n e' h; cases h; exact ⟨rfl, rfl, rfl⟩
  case refine_6 =>
    intro recv prop r isVars t es _ ih e' h
    have hw : ∀ {r r' : R}, Same r r' → Same (wrap Γ.lower _ r) (wrap Γ.lower e' r') := fun hs => Same.wrap h hs
    cases h with
    | objDeref _ r' _ hr =>
      obtain ⟨h1, h2, h3⟩ := ih r' hr
      rw [check_objDeref, check_objDeref]
      apply hw
      refine ⟨?_, ?_, h3⟩
      · simp only [List.map_append, h1, h2, isVarsVar_spell hr]
      · simp only [h2, isVarsVar_spell hr]
  case refine_7 =>
    intro recv r t es _ ih e' h
    have hw : ∀ {r r' : R}, Same r r' → Same (wrap Γ.lower _ r) (wrap Γ.lower e' r') := fun hs => Same.wrap h hs
    cases h with
    | arrDeref _ r' hr =>
      obtain ⟨h1, h2, h3⟩ := ih r' hr
      rw [check_arrDeref, check_arrDeref]
      apply hw
      refine ⟨?_, ?_, h3⟩
      · simp only [List.map_append, h1, h2]
      · simp only [h2]
  case refine_8 =>
    intro operand idx ri ro t es _ ihi iho e' h
    have hw : ∀ {r r' : R}, Same r r' → Same (wrap Γ.lower _ r) (wrap Γ.lower e' r') := fun hs => Same.wrap h hs
    cases h with
    | index _ r' _ i' hr hi =>
      obtain ⟨o1, o2, o3⟩ := iho r' hr
      obtain ⟨i1, i2, i3⟩ := ihi i' hi
      rw [check_index, check_index]
      apply hw
      refine ⟨?_, ?_, ?_⟩
      · simp only [List.map_append, o1, o2, i1, i2, strLit?_spell hi]
      · simp only [o2, i2, strLit?_spell hi]
      · simp only [o3, i3]
    | indexLit _ r' v v' hr hv =>
      obtain ⟨o1, o2, o3⟩ := iho r' hr
      obtain ⟨l1, l2⟩ := indexTy_lit_spell Γ hv (check Γ (.str v')).ty (check Γ r').ty
      have e1 : (check Γ (.str v)).ty = (check Γ (.str v')).ty := by rw [check_str, check_str]; rfl
      have e2 : (check Γ (.str v)).errs = (check Γ (.str v')).errs := by rw [check_str, check_str]; rfl
      have e3 : (check Γ (.str v)).evs = (check Γ (.str v')).evs := by rw [check_str, check_str]; rfl
      rw [check_index, check_index]
      apply hw
      refine ⟨?_, ?_, ?_⟩
      · simp only [List.map_append, o1, o2, e1, e2, strLit?, l2]
      · simp only [o2, e1, strLit?, l1]
      · simp only [o3, e3]
  case refine_9 =>
    intro callee args ih e' h
    have hw : ∀ {r r' : R}, Same r r' → Same (wrap Γ.lower _ r) (wrap Γ.lower e' r') := fun hs => Same.wrap h hs
    cases h with
    | call _ c' _ as' hc has =>
      obtain ⟨a1, a2, a3⟩ := ih as' has
      rw [check_call, check_call]
      apply hw
      rw [← hc]
      cases lookupFuncs (Γ.lower callee) Γ.funcs with
      | none => exact ⟨rfl, rfl, rfl⟩
      | some sigs =>
        obtain ⟨r1, r2⟩ := resolveCall_spell Γ hc sigs (as'.head?.bind strLit?) (checkArgs Γ as').1
        refine ⟨?_, ?_, a3⟩
        · simp only [List.map_append, a1, a2, head_lit_spell has, r2]
        · simp only [a1, head_lit_spell has, r1]
  case refine_10 =>
    intro operand ih e' h
    have hw : ∀ {r r' : R}, Same r r' → Same (wrap Γ.lower _ r) (wrap Γ.lower e' r') := fun hs => Same.wrap h hs
    cases h with
    | not _ o' ho =>
      obtain ⟨h1, h2, h3⟩ := ih o' ho
      rw [check_not, check_not]
      apply hw
      refine ⟨?_, rfl, h3⟩
      simp only [List.map_append, h1, h2]
  case refine_11 =>
    intro op l r ihl ihr e' h
    have hw : ∀ {r r' : R}, Same r r' → Same (wrap Γ.lower _ r) (wrap Γ.lower e' r') := fun hs => Same.wrap h hs
    cases h with
    | cmp _ _ l' _ r' hl hr =>
      obtain ⟨l1, l2, l3⟩ := ihl l' hl
      obtain ⟨r1, r2, r3⟩ := ihr r' hr
      rw [check_cmp, check_cmp]
      apply hw
      refine ⟨?_, rfl, ?_⟩
      · simp only [List.map_append, l1, l2, r1, r2]
      · simp only [l3, r3]
  case refine_12 =>
    intro op l r ihl ihr e' h
    have hw : ∀ {r r' : R}, Same r r' → Same (wrap Γ.lower _ r) (wrap Γ.lower e' r') := fun hs => Same.wrap h hs
    cases h with
    | logical _ _ l' _ r' hl hr =>
      have ihl' : Same (narrow Γ l (opTruthy op)) (narrow Γ l' (opTruthy op)) := by
        cases op <;> exact ihl l' hl
      obtain ⟨l1, l2, l3⟩ := ihl'
      obtain ⟨r1, r2, r3⟩ := ihr r' hr
      rw [check_logical, check_logical]
      apply hw
      refine ⟨?_, ?_, ?_⟩
      · simp only [List.map_append, l1, r1]
      · simp only [l2, r2]
      · simp only [l3, r3]
  case refine_13 =>
    intro l r ihl ihr e' h
    cases h with
    | logical _ _ l' _ r' hl hr =>
      obtain ⟨l1, l2, l3⟩ := ihl l' hl
      obtain ⟨r1, r2, r3⟩ := ihr r' hr
      rw [narrow_and_true, narrow_and_true]
      refine ⟨?_, r2, ?_⟩
      · simp only [List.map_append, l1, r1]
      · simp only [l3, r3]
  case refine_14 =>
    intro l r ihl ihr e' h
    cases h with
    | logical _ _ l' _ r' hl hr =>
      obtain ⟨l1, l2, l3⟩ := ihl l' hl
      obtain ⟨r1, r2, r3⟩ := ihr r' hr
      rw [narrow_or_false, narrow_or_false]
      refine ⟨?_, r2, ?_⟩
      · simp only [List.map_append, l1, r1]
      · simp only [l3, r3]
  case refine_15 =>
    intro op l r x h1 h2 ihl ihr e' h
    cases h with
    | logical _ _ l' _ r' hl hr =>
      obtain ⟨r1, r2, r3⟩ := ihr r' hr
      cases op <;> cases x
      · obtain ⟨l1, l2, l3⟩ := ihl l' hl
        rw [narrow_and_false, narrow_and_false]
        exact ⟨by simp only [List.map_append, l1, r1], by simp only [l2, r2], by simp only [l3, r3]⟩
      · exact (h1 rfl rfl).elim
      · exact (h2 rfl rfl).elim
      · obtain ⟨l1, l2, l3⟩ := ihl l' hl
        rw [narrow_or_true, narrow_or_true]
        exact ⟨by simp only [List.map_append, l1, r1], by simp only [l2, r2], by simp only [l3, r3]⟩
  case refine_16 =>
    intro operand t ih e' h
    cases h with
    | not _ o' ho => rw [narrow_not, narrow_not]; exact ih o' ho
  case refine_17 =>
    intro e x _ _ h3 h4 ih e' h
    have h3' : ∀ op l r, e' = .logical op l r → False := by
      intro op l r he; subst he; cases h; exact h3 _ _ _ rfl
    have h4' : ∀ o, e' = .not o → False := by
      intro o he; subst he; cases h; exact h4 _ rfl
    rw [narrow_other Γ e x h3 h4, narrow_other Γ e' x h3' h4']
    exact ih e' h
  case refine_18 =>
    intro es' h
    cases h
    exact ⟨rfl, rfl, rfl⟩
  case refine_19 =>
    intro a rest iha ihr es' h
    cases h with
    | cons _ a' _ rest' ha hrest =>
      obtain ⟨a1, a2, a3⟩ := iha a' ha
      obtain ⟨r1, r2, r3⟩ := ihr rest' hrest
      rw [checkArgs_cons, checkArgs_cons]
      exact ⟨by simp only [a2, r1], by simp only [List.map_append, a1, r2], by simp only [a3, r3]⟩

theorem check_spell {Γ : Env} {e e' : E} (h : SpellEq Γ.lower e e') : Same (check Γ e) (check Γ e') :=
  (check_spell_all Γ).1 e e' h

end AL.Sema

/-! ### keys of the type derived from a JSON object literal -/

namespace AL.Json
open AL

theorem foldl_inv {α β : Type} (P : β → Prop) (Q : α → Prop) (f : β → α → β)
    (hf : ∀ b a, P b → Q a → P (f b a)) : ∀ (l : List α) (b : β), P b → (∀ a ∈ l, Q a) → P (l.foldl f b)
  | [], _, hb, _ => hb
  | a :: l, b, hb, hl =>
    foldl_inv P Q f hf l (f b a) (hf b a hb (hl a (by simp))) (fun x hx => hl x (by simp [hx]))

theorem mem_setProp {k k' : String} {t v : Ty} : ∀ {ps : List (String × Ty)},
    (k, t) ∈ Ty.setProp k' v ps → k = k' ∨ (k, t) ∈ ps
  | [], h => by
    simp only [Ty.setProp, List.mem_singleton, Prod.mk.injEq] at h
    exact Or.inl h.1
  | (k'', v'') :: rest, h => by
    simp only [Ty.setProp] at h
    split at h
    · rcases List.mem_cons.1 h with h | h
      · exact Or.inl (Prod.mk.inj h).1
      · exact Or.inr (List.mem_cons_of_mem _ h)
    · split at h
      · rcases List.mem_cons.1 h with h | h
        · exact Or.inl (Prod.mk.inj h).1
        · exact Or.inr h
      · rcases List.mem_cons.1 h with h | h
        · exact Or.inr (by rw [h]; exact List.mem_cons_self)
        · rcases mem_setProp h with h | h
          · exact Or.inl h
          · exact Or.inr (List.mem_cons_of_mem _ h)

/-- every key of `memberTys` is a folded key of the accumulator or `lower` of a member name: fixed by an
idempotent `lower` -/
theorem memberTys_keys (lower : String → String) (hl : ∀ s, lower (lower s) = lower s) :
    ∀ (ms : List (String × JVal)) (acc : List (String × String × Ty)),
      (∀ x ∈ acc, lower x.2.1 = x.2.1) → ∀ k t, (k, t) ∈ memberTys lower ms acc → lower k = k
  | [], acc, hacc => by
    intro k t h
    rw [memberTys] at h
    revert k t
    apply foldl_inv (fun ps : List (String × Ty) => ∀ k t, (k, t) ∈ ps → lower k = k)
      (fun e : String × String × Ty => lower e.2.1 = e.2.1)
    · intro ps e hps he k t h
      rcases mem_setProp h with h | h
      · rw [h]; exact he
      · exact hps k t h
    · intro k t h; cases h
    · apply foldl_inv (fun m : List (String × String × Ty) => ∀ x ∈ m, lower x.2.1 = x.2.1)
        (fun e : String × String × Ty => lower e.2.1 = e.2.1)
      · intro m e hm he
        split
        · split
          · intro x hx
            obtain ⟨y, hy, rfl⟩ := List.mem_map.1 hx
            split
            · exact he
            · exact hm y hy
          · exact hm
        · intro x hx
          rcases List.mem_append.1 hx with hx | hx
          · exact hm x hx
          · rw [List.mem_singleton.1 hx]; exact he
      · intro x hx; cases hx
      · exact hacc
  | (k', v) :: rest, acc, hacc => by
    intro k t h
    rw [memberTys] at h
    refine memberTys_keys lower hl rest _ ?_ k t h
    intro x hx
    rcases List.mem_append.1 hx with hx | hx
    · exact hacc x hx
    · rw [List.mem_singleton.1 hx]; exact hl k'

end AL.Json
