import AL.Lemmas.C11DBase
import AL.Props.C11Rule
/-
  AL.Props.C11Doc, one step: the three fields of a parsed step the untrusted-input check depends on — the script of
  `run:` (`runOf`), the action name of `uses:` (`usesOf`), the inputs of `with:` (`inputsOf`) — in terms of what is
  WRITTEN in the step node (the readers of AL/Spec/ScriptScalars.lean).

    * unconditionally (`parseStep_run_opt`, `parseStep_uses_opt`, `parseStep_inputs_opt`): each field is empty, or made
      from the node `lookup` finds — `parseStep` stores nothing else there;
    * for a step `parseStep` accepts silently (`parseStep_run_clean`, `parseStep_uses_clean`, `parseStep_inputs_clean`):
      each field IS `newString` of that node, which is a scalar;
    * hence `execScriptKStrs_from_nodes` (every script string of the parsed step, with its key, comes from a node of
      `stepScriptKNodes`) and `execScriptKStrs_clean` (for an accepted step the two lists are equal, in order).
-/
namespace AL.C11D
open AL.PW AL.Yaml AL.Ast AL.C03P AL.C05D AL.C11R
open AL.C12R (tag mem_tag)

/-! ### the three fields -/

/-- the action name of a step -/
def usesOf (s : Step) : Option Str := match s.exec with | .action a => a.uses | _ => none

/-- the inputs of a step (`with:` without `entrypoint` and `args`) -/
def inputsOf (s : Step) : List (String × Input) := match s.exec with | .action a => a.inputs.getD [] | _ => []

/-- the `script` inputs among a list of inputs -/
def scriptInputs (l : List (String × Input)) : List Str := (l.filter fun kv => kv.1 = "script").map (·.2.value)

/-- the script strings of a step, by the three fields -/
theorem execScriptKStrs_fields (lower : String → String) (s : Step) :
    execScriptKStrs lower s.exec =
      tag "jobs.<job_id>.steps.run" (runOf s).toList ++
      if isGithubScript lower (usesOf s) then tag "jobs.<job_id>.steps.with" (scriptInputs (inputsOf s)) else [] := by
  cases h : s.exec with
  | none => simp [execScriptKStrs, runOf, usesOf, h, isGithubScript, tag]
  | run r => simp [execScriptKStrs, runOf, usesOf, h, isGithubScript]
  | action a => simp [execScriptKStrs, runOf, usesOf, inputsOf, scriptInputs, h, tag]

/-! ### the loop over `with:` -/

/-- the inputs the loop over the entries of `with:` stores -/
def withInputs (kvs : List KV) : List (String × Input) :=
  kvs.filterMap fun kv =>
    if kv.id = "entrypoint" ∨ kv.id = "args" then none else some (kv.id, ⟨kv.key, (parseString kv.val true).1⟩)

theorem withKey_uses (st : ExecAction) (kv : KV) : (withKey st kv).1.uses = st.uses := by
  simp only [withKey]
  split <;> rfl

theorem withLoop_uses : ∀ (kvs : List KV) (init : ExecAction), (loop withKey init kvs).1.uses = init.uses
  | [], _ => rfl
  | kv :: rest, init => by rw [loop_cons_fst, withLoop_uses rest, withKey_uses]

theorem withKey_inputs (st : ExecAction) (kv : KV) :
    (withKey st kv).1.inputs.getD [] = st.inputs.getD [] ++ withInputs [kv] := by
  simp only [withKey, withInputs]
  split
  · rename_i h; simp [h]
  · rename_i h; simp [h]
  · rename_i h1 h2
    have : ¬ (kv.id = "entrypoint" ∨ kv.id = "args") := fun h => h.elim h1 h2
    simp [this]

theorem withInputs_cons (kv : KV) (rest : List KV) : withInputs (kv :: rest) = withInputs [kv] ++ withInputs rest := by
  simp only [withInputs, List.filterMap_cons]
  split <;> simp

theorem withLoop_inputs : ∀ (kvs : List KV) (init : ExecAction),
    (loop withKey init kvs).1.inputs.getD [] = init.inputs.getD [] ++ withInputs kvs
  | [], _ => by simp [withInputs]
  | kv :: rest, init => by
    rw [loop_cons_fst, withLoop_inputs rest, withKey_inputs, withInputs_cons kv rest, List.append_assoc]

/-- the `script` inputs the loop stores are the entries with the id `script` -/
theorem scriptInputs_withInputs : ∀ (kvs : List KV),
    scriptInputs (withInputs kvs) = (kvs.filter fun kv => kv.id = "script").map fun kv => (parseString kv.val true).1
  | [] => rfl
  | kv :: rest => by
    have ih := scriptInputs_withInputs rest
    simp only [scriptInputs] at ih ⊢
    rw [withInputs_cons, List.filter_append, List.map_append, ih]
    by_cases hs : kv.id = "script"
    · simp [withInputs, hs]
    · by_cases he : kv.id = "entrypoint" ∨ kv.id = "args"
      · simp [withInputs, he, hs]
      · simp [withInputs, he, hs]

/-- **the `script` input of a parsed `with:` node is made from the node under the key that folds to `script`** — the first
one; unconditionally -/
theorem scriptInputs_with (cfg : Cfg) (w : Node) :
    scriptInputs (withInputs (parseSectionMapping cfg "with" w false false).1) =
      ((lookupFolded cfg.lower w "script").map fun x => (parseString x true).1).toList := by
  have hf := filter_eq_find?_toList (fun kv : KV => kv.id) "script" _ (parseMapping_nodup cfg (sectionWhat "with") w false false)
  rw [scriptInputs_withInputs, parseSectionMapping, hf, ← parseMapping_find_ci cfg _ w "script"]
  cases (parseMapping cfg (sectionWhat "with") w false false).1.find? (fun kv => kv.id = "script") <;> rfl

/-! ### `stepKey`: who writes the three fields -/

theorem stepKey_run_opt (cfg : Cfg) (st : StepSt) (kv : KV) (h : kv.id = "run") :
    runOf (stepKey cfg st kv).1.step = some (parseString kv.val false).1 ∨ runOf (stepKey cfg st kv).1.step = runOf st.step := by
  simp only [stepKey]
  split
  case h_9 => split <;> simp_all [runOf]
  all_goals (exfalso; simp_all)

theorem stepKey_uses_ne (cfg : Cfg) (st : StepSt) (kv : KV) (h : kv.id ≠ "uses") :
    usesOf (stepKey cfg st kv).1.step = usesOf st.step := by
  simp only [stepKey]
  split
  case h_7 => exact absurd ‹_› h
  case h_8 => split <;> simp_all [usesOf, withLoop_uses]
  all_goals first | rfl | (split <;> simp_all [usesOf])

theorem stepKey_uses_opt (cfg : Cfg) (st : StepSt) (kv : KV) (h : kv.id = "uses") :
    usesOf (stepKey cfg st kv).1.step = some (parseString kv.val false).1 ∨ usesOf (stepKey cfg st kv).1.step = usesOf st.step := by
  simp only [stepKey]
  split
  case h_7 => split <;> simp_all [usesOf]
  all_goals (exfalso; simp_all)

theorem stepKey_uses_eq (cfg : Cfg) (st : StepSt) (kv : KV) (h : kv.id = "uses") (hc : (stepKey cfg st kv).2 = []) :
    usesOf (stepKey cfg st kv).1.step = some (parseString kv.val false).1 ∧ (parseString kv.val false).2 = [] := by
  revert hc
  simp only [stepKey]
  split
  case h_7 => split <;> simp_all [usesOf]
  all_goals (intro _; exfalso; simp_all)

theorem stepKey_inputs_ne (cfg : Cfg) (st : StepSt) (kv : KV) (h : kv.id ≠ "with") :
    inputsOf (stepKey cfg st kv).1.step = inputsOf st.step := by
  simp only [stepKey]
  split
  case h_8 => exact absurd ‹_› h
  all_goals first | rfl | (split <;> simp_all [inputsOf])

theorem stepKey_inputs_opt (cfg : Cfg) (st : StepSt) (kv : KV) (h : kv.id = "with") :
    inputsOf (stepKey cfg st kv).1.step = withInputs (parseSectionMapping cfg "with" kv.val false false).1 ∨
    inputsOf (stepKey cfg st kv).1.step = inputsOf st.step := by
  simp only [stepKey]
  split
  case h_8 => split <;> simp_all [inputsOf, withLoop_inputs]
  all_goals (exfalso; simp_all)

theorem stepKey_inputs_eq (cfg : Cfg) (st : StepSt) (kv : KV) (h : kv.id = "with") (hc : (stepKey cfg st kv).2 = []) :
    inputsOf (stepKey cfg st kv).1.step = withInputs (parseSectionMapping cfg "with" kv.val false false).1 ∧
    (parseSectionMapping cfg "with" kv.val false false).2 = [] ∧
    ∃ init, (loop withKey init (parseSectionMapping cfg "with" kv.val false false).1).2 = [] := by
  revert hc
  simp only [stepKey]
  split
  case h_8 =>
    split
    · simp
    · intro hc
      simp only [append_nil_iff] at hc
      exact ⟨by simp [inputsOf, withLoop_inputs], hc.1, _, hc.2⟩
    · intro hc
      simp only [append_nil_iff] at hc
      exact ⟨by simp [inputsOf, withLoop_inputs], hc.1, _, hc.2⟩
  all_goals (intro _; exfalso; simp_all)

/-! ### a parsed step, unconditionally -/

theorem parseStep_step (cfg : Cfg) (n : Node) :
    (parseStep cfg n).1 =
      (loop (stepKey cfg) { step := { pos := n.pos } } (parseMapping cfg "element of \"steps\" section" n false true).1).1.step := rfl

/-- **the script of a parsed step is empty, or made from the node written under `run:`** — whatever else the step node
holds, whatever `parseStep` reports -/
theorem parseStep_run_opt (cfg : Cfg) (n : Node) :
    runOf (parseStep cfg n).1 = none ∨
    ∃ x, lookup n "run" = some x ∧ runOf (parseStep cfg n).1 = some (parseString x false).1 := by
  rcases sect_field_opt cfg "element of \"steps\" section" n true (stepKey cfg) { step := { pos := n.pos } }
    (fun st => runOf st.step) "run" (fun kv => some (parseString kv.val false).1)
    (fun st kv hne => stepKey_run_ne cfg st kv hne) (fun st kv he => stepKey_run_opt cfg st kv he) with h | ⟨kv, hf, h⟩
  · exact Or.inl h
  · refine Or.inr ⟨kv.val, ?_, h⟩
    rw [← parseMapping_find_cs cfg "element of \"steps\" section" n "run", hf]
    rfl

/-- the action name of a parsed step is empty, or made from the node written under `uses:` -/
theorem parseStep_uses_opt (cfg : Cfg) (n : Node) :
    usesOf (parseStep cfg n).1 = none ∨
    ∃ x, lookup n "uses" = some x ∧ usesOf (parseStep cfg n).1 = some (parseString x false).1 := by
  rcases sect_field_opt cfg "element of \"steps\" section" n true (stepKey cfg) { step := { pos := n.pos } }
    (fun st => usesOf st.step) "uses" (fun kv => some (parseString kv.val false).1)
    (fun st kv hne => stepKey_uses_ne cfg st kv hne) (fun st kv he => stepKey_uses_opt cfg st kv he) with h | ⟨kv, hf, h⟩
  · exact Or.inl h
  · refine Or.inr ⟨kv.val, ?_, h⟩
    rw [← parseMapping_find_cs cfg "element of \"steps\" section" n "uses", hf]
    rfl

/-- the inputs of a parsed step are none, or those of the node written under `with:` -/
theorem parseStep_inputs_opt (cfg : Cfg) (n : Node) :
    inputsOf (parseStep cfg n).1 = [] ∨
    ∃ w, lookup n "with" = some w ∧
      inputsOf (parseStep cfg n).1 = withInputs (parseSectionMapping cfg "with" w false false).1 := by
  rcases sect_field_opt cfg "element of \"steps\" section" n true (stepKey cfg) { step := { pos := n.pos } }
    (fun st => inputsOf st.step) "with" (fun kv => withInputs (parseSectionMapping cfg "with" kv.val false false).1)
    (fun st kv hne => stepKey_inputs_ne cfg st kv hne) (fun st kv he => stepKey_inputs_opt cfg st kv he) with h | ⟨kv, hf, h⟩
  · exact Or.inl h
  · refine Or.inr ⟨kv.val, ?_, h⟩
    rw [← parseMapping_find_cs cfg "element of \"steps\" section" n "with", hf]
    rfl

/-- `isGithubScript` on the string `parseString` makes of a node is the document's test on the node's text -/
theorem isGithubScript_parseString (lower : String → String) (x : Node) (ae : Bool) :
    isGithubScript lower (some (parseString x ae).1) = (lower (text x)).startsWith "actions/github-script@" := by
  simp only [isGithubScript, parseString_value]

/-- **every script string of a parsed step, with its key, is made from a node at a script position of the step node** —
unconditionally: `parseStep` stores nothing else in `run` / the `script` input of an `actions/github-script` step -/
theorem execScriptKStrs_from_nodes (cfg : Cfg) (n : Node) :
    ∀ p ∈ execScriptKStrs cfg.lower (parseStep cfg n).1.exec,
      ∃ q ∈ stepScriptKNodes cfg.lower n, p.2 = q.2 ∧ ∃ ae, p.1 = (parseString q.1 ae).1 := by
  intro p hp
  rw [execScriptKStrs_fields, List.mem_append] at hp
  obtain ⟨s, key⟩ := p
  rcases hp with hp | hp
  · obtain ⟨hs, rfl⟩ := mem_tag.1 hp
    have hr := AL.C03R.mem_toList hs
    rcases parseStep_run_opt cfg n with h | ⟨x, hx, h⟩
    · rw [h] at hr; cases hr
    · rw [h] at hr
      cases hr
      refine ⟨(x, "jobs.<job_id>.steps.run"), ?_, rfl, false, rfl⟩
      simp [stepScriptKNodes, stepRunNodes, hx]
  · split at hp
    · rename_i hg
      obtain ⟨hs, rfl⟩ := mem_tag.1 hp
      have hgs : isGithubScriptStep cfg.lower n = true := by
        rcases parseStep_uses_opt cfg n with h | ⟨x, hx, h⟩
        · rw [h] at hg; cases hg
        · rw [h, isGithubScript_parseString] at hg
          simp [isGithubScriptStep, hx, hg]
      rcases parseStep_inputs_opt cfg n with h | ⟨w, hw, h⟩
      · rw [h] at hs; cases hs
      · rw [h, scriptInputs_with] at hs
        have hl := AL.C03R.mem_toList hs
        cases hx : lookupFolded cfg.lower w "script" with
        | none => rw [hx] at hl; cases hl
        | some x =>
          rw [hx] at hl
          cases hl
          refine ⟨(x, "jobs.<job_id>.steps.with"), ?_, rfl, true, rfl⟩
          simp [stepScriptKNodes, stepScriptInputNodes, hgs, hw, hx]
    · cases hp

/-! ### a step `parseStep` accepts silently -/

/-- **the script of an accepted step is the scalar written under `run:`** -/
theorem parseStep_run_clean (cfg : Cfg) (n : Node) (h : (parseStep cfg n).2 = []) :
    runOf (parseStep cfg n).1 = (lookup n "run").map newString ∧ ∀ x, lookup n "run" = some x → x.kind = .scalar := by
  obtain ⟨hm, hr⟩ := parseStep_clean cfg n h
  rw [lookup_eq_mget cfg _ n true hm, parseStep_run cfg n h]
  refine ⟨rfl, ?_⟩
  intro x hx
  simp only [mget] at hx
  cases hp : mpair n "run" with
  | none => rw [hp] at hx; cases hx
  | some p =>
    rw [hp] at hx
    cases hx
    obtain ⟨hmem, hk⟩ := mpair_mem hp
    obtain ⟨st, hc⟩ := sect_clean_at cfg _ n false true (stepKey cfg) _ hm hr p hmem
    have := (stepKey_run_eq cfg st _ (by rw [kvOf_true]; exact hk) hc).2
    simp only [kvOf_true] at this
    exact (parseString_clean p.2 false this).1

/-- the action name of an accepted step is the scalar written under `uses:` -/
theorem parseStep_uses_clean (cfg : Cfg) (n : Node) (h : (parseStep cfg n).2 = []) :
    usesOf (parseStep cfg n).1 = (lookup n "uses").map newString ∧ ∀ x, lookup n "uses" = some x → x.kind = .scalar := by
  obtain ⟨hm, hr⟩ := parseStep_clean cfg n h
  have hf := sect_field_clean cfg "element of \"steps\" section" n false (stepKey cfg) { step := { pos := n.pos } }
    (fun st => usesOf st.step) "uses" (fun kv => some (parseString kv.val false).1)
    (fun st kv hne => stepKey_uses_ne cfg st kv hne) (fun st kv he hc => (stepKey_uses_eq cfg st kv he hc).1) hm hr
  rw [lookup_eq_mget cfg _ n true hm, parseStep_step, hf]
  simp only [mget]
  cases hp : mpair n "uses" with
  | none => exact ⟨rfl, fun x hx => by cases hx⟩
  | some p =>
    obtain ⟨hmem, hk⟩ := mpair_mem hp
    obtain ⟨st, hc⟩ := sect_clean_at cfg _ n false true (stepKey cfg) _ hm hr p hmem
    have := (stepKey_uses_eq cfg st _ (by rw [kvOf_true]; exact hk) hc).2
    simp only [kvOf_true] at this ⊢
    obtain ⟨hsc, he⟩ := parseString_clean p.2 false this
    refine ⟨by simp only [he, Option.map_some], ?_⟩
    intro x hx
    cases hx
    exact hsc

/-- the inputs of an accepted step are those of the node written under `with:`, which was accepted silently too -/
theorem parseStep_inputs_clean (cfg : Cfg) (n : Node) (h : (parseStep cfg n).2 = []) :
    match lookup n "with" with
    | some w =>
      inputsOf (parseStep cfg n).1 = withInputs (parseSectionMapping cfg "with" w false false).1 ∧
      (parseSectionMapping cfg "with" w false false).2 = [] ∧
      ∃ init, (loop withKey init (parseSectionMapping cfg "with" w false false).1).2 = []
    | none => inputsOf (parseStep cfg n).1 = [] := by
  obtain ⟨hm, hr⟩ := parseStep_clean cfg n h
  have hf := sect_field_clean cfg "element of \"steps\" section" n false (stepKey cfg) { step := { pos := n.pos } }
    (fun st => inputsOf st.step) "with" (fun kv => withInputs (parseSectionMapping cfg "with" kv.val false false).1)
    (fun st kv hne => stepKey_inputs_ne cfg st kv hne) (fun st kv he hc => (stepKey_inputs_eq cfg st kv he hc).1) hm hr
  rw [lookup_eq_mget cfg _ n true hm, parseStep_step, hf]
  simp only [mget]
  cases hp : mpair n "with" with
  | none => rfl
  | some p =>
    obtain ⟨hmem, hk⟩ := mpair_mem hp
    obtain ⟨st, hc⟩ := sect_clean_at cfg _ n false true (stepKey cfg) _ hm hr p hmem
    have := (stepKey_inputs_eq cfg st _ (by rw [kvOf_true]; exact hk) hc).2
    simp only [kvOf_true] at this ⊢
    exact ⟨rfl, this⟩

/-- the `script` input of an accepted `with:` node is a scalar -/
theorem with_script_scalar (cfg : Cfg) (w : Node) (init : ExecAction)
    (hr : (loop withKey init (parseSectionMapping cfg "with" w false false).1).2 = []) :
    ∀ x, lookupFolded cfg.lower w "script" = some x → x.kind = .scalar := by
  intro x hx
  rw [← parseMapping_find_ci cfg (sectionWhat "with") w "script"] at hx
  cases hf : (parseMapping cfg (sectionWhat "with") w false false).1.find? (fun kv => kv.id = "script") with
  | none => rw [hf] at hx; cases hx
  | some kv =>
    rw [hf] at hx
    cases hx
    have hmem : kv ∈ (parseSectionMapping cfg "with" w false false).1 := List.mem_of_find?_eq_some hf
    have hid : kv.id = "script" := by simpa using List.find?_some hf
    obtain ⟨st, hc⟩ := loop_clean_mem withKey _ init hr kv hmem
    have : (parseString kv.val true).2 = [] := by
      revert hc
      simp only [withKey]
      split
      · rename_i he; rw [hid] at he; simp at he
      · rename_i he; rw [hid] at he; simp at he
      · exact id
    exact (parseString_clean kv.val true this).1

/-- **the script strings of an accepted step ARE the nodes at the script positions of the step node** — in order, each
with its key, each a scalar, each turned into a `*String` by `newString` (text, quoting, position) -/
theorem execScriptKStrs_clean (cfg : Cfg) (n : Node) (h : (parseStep cfg n).2 = []) :
    execScriptKStrs cfg.lower (parseStep cfg n).1.exec = (stepScriptKNodes cfg.lower n).map (fun q => (newString q.1, q.2)) ∧
    ∀ q ∈ stepScriptKNodes cfg.lower n, q.1.kind = .scalar := by
  obtain ⟨hrun, hrs⟩ := parseStep_run_clean cfg n h
  obtain ⟨huses, hus⟩ := parseStep_uses_clean cfg n h
  have hin := parseStep_inputs_clean cfg n h
  have hg : isGithubScript cfg.lower (usesOf (parseStep cfg n).1) = isGithubScriptStep cfg.lower n := by
    rw [huses]
    simp only [isGithubScriptStep]
    cases hu : lookup n "uses" with
    | none => rfl
    | some u => simp only [Option.map_some, isGithubScript, newString_value, text_scalar (hus u hu)]
  rw [execScriptKStrs_fields, hrun, hg]
  simp only [stepScriptKNodes, stepRunNodes, stepScriptInputNodes, List.map_append]
  cases hgs : isGithubScriptStep cfg.lower n with
  | false =>
    simp only [Bool.false_eq_true, ↓reduceIte, List.map_nil, List.append_nil, List.mem_map]
    refine ⟨?_, ?_⟩
    · cases lookup n "run" <;> rfl
    · rintro q ⟨x, hx, rfl⟩
      exact hrs x (AL.C03R.mem_toList hx)
  | true =>
    simp only [↓reduceIte]
    cases hw : lookup n "with" with
    | none =>
      rw [hw] at hin
      simp only [hin, scriptInputs, List.filter_nil, List.map_nil, tag, Option.bind_none, Option.toList_none, List.append_nil,
        List.mem_map]
      refine ⟨?_, ?_⟩
      · cases lookup n "run" <;> rfl
      · rintro q ⟨x, hx, rfl⟩
        exact hrs x (AL.C03R.mem_toList hx)
    | some w =>
      rw [hw] at hin
      obtain ⟨hi, _, init, hl⟩ := hin
      have hsc := with_script_scalar cfg w init hl
      rw [hi, scriptInputs_with]
      simp only [Option.bind_some]
      refine ⟨?_, ?_⟩
      · congr 1
        · cases lookup n "run" <;> rfl
        · cases hx : lookupFolded cfg.lower w "script" with
          | none => rfl
          | some x =>
            simp only [Option.map_some, Option.toList_some, tag, List.map_cons, List.map_nil,
              (parseString_scalar_allowEmpty x (hsc x hx))]
      · intro q hq
        simp only [List.mem_append, List.mem_map] at hq
        rcases hq with ⟨x, hx, rfl⟩ | ⟨x, hx, rfl⟩
        · exact hrs x (AL.C03R.mem_toList hx)
        · exact hsc x (AL.C03R.mem_toList hx)

end AL.C11D
