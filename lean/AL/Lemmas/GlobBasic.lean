import AL.Model.Glob
/-
  Basic facts about the glob model: the list of characters still deliverable by `Next`
  (`pending`), and "errors only grow".
-/
namespace AL.Glob
open AL

/-- Characters the scanner can still deliver through `Next` (look-ahead first). -/
def pending (s : Scanner) : List Sym :=
  match s.ch with
  | some c => c :: s.rest
  | none => []

theorem pending_eq_nil (s : Scanner) : pending s = [] ↔ s.ch = none := by
  unfold pending; cases s.ch <;> simp

theorem Scanner.next_fst (s : Scanner) : s.next.1 = (pending s).head? := by
  unfold Scanner.next pending; cases s.ch <;> simp

theorem Scanner.next_fst_ch (s : Scanner) : s.next.1 = s.ch := by
  unfold Scanner.next; cases s.ch <;> simp

theorem Scanner.pending_next (s : Scanner) : pending s.next.2.1 = (pending s).tail := by
  unfold Scanner.next
  cases hc : s.ch with
  | none => simp [pending, hc]
  | some c =>
    simp only [pending, hc, List.tail_cons, Scanner.read]
    cases hr : s.rest with
    | nil => simp
    | cons d r => simp

theorem Scanner.peek_eq (s : Scanner) : s.peek = (pending s).head?.map (·.r) := by
  unfold Scanner.peek pending; cases s.ch <;> simp

/-- Pending characters of a validator state. -/
abbrev gp (st : GState) : List Sym := pending st.scan

theorem GState.next_fst (st : GState) : st.next.1 = (gp st).head? := Scanner.next_fst st.scan
theorem GState.gp_next (st : GState) : gp st.next.2 = (gp st).tail := Scanner.pending_next st.scan
theorem GState.peek_eq (st : GState) : st.peek = (gp st).head?.map (·.r) := Scanner.peek_eq st.scan
@[simp] theorem GState.gp_error (st : GState) (m : GMsg) : gp (st.error m) = gp st := rfl
@[simp] theorem GState.next_prec (st : GState) : st.next.2.prec = st.prec := rfl
@[simp] theorem GState.error_prec (st : GState) (m : GMsg) : (st.error m).prec = st.prec := rfl
theorem GState.next_errs (st : GState) : st.next.2.errs = st.errs ++ scanErrs st.scan.next.2.2 := rfl
theorem GState.error_errs (st : GState) (m : GMsg) : (st.error m).errs = st.errs ++ [⟨errCol st.scan, m⟩] := rfl

theorem symRune_eq (o : Option Sym) : symRune o = o.map (·.r) := by cases o <;> rfl

theorem GState.peek_eq_next (st : GState) : st.peek = symRune st.next.1 := by
  rw [GState.peek_eq, GState.next_fst, symRune_eq]

/-! ### Errors only grow -/

theorem GState.next_prefix (st : GState) : st.errs <+: st.next.2.errs := by
  rw [GState.next_errs]; exact List.prefix_append _ _

theorem GState.error_prefix (st : GState) (m : GMsg) : st.errs <+: (st.error m).errs := by
  rw [GState.error_errs]; exact List.prefix_append _ _

theorem GState.error_errs_ne_nil (st : GState) (m : GMsg) : (st.error m).errs ≠ [] := by
  simp [GState.error_errs]

theorem nil_of_prefix_nil {α} {a b : List α} (h : a <+: b) (hb : b = []) : a = [] := by
  subst hb; simpa using h

theorem classLoop_prefix (st : GState) (n : Nat) : st.errs <+: (classLoop st n).2.2.errs := by
  fun_induction classLoop st n
  all_goals (try simp +zetaDelta only [] at *)
  all_goals grind [GState.next_prefix, GState.error_prefix, List.IsPrefix.trans, List.prefix_refl]

end AL.Glob
