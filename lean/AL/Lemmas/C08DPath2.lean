import AL.Lemmas.C08DPath
/-
  More edges: job → `strategy:` → `matrix:` (the names of the rows), document → `on:` → `workflow_call:` /
  `workflow_dispatch:` → `inputs:` / `secrets:` / `outputs:` (the declared names).
-/
namespace AL.C08D
open AL.PW AL.Yaml AL.Ast AL.C13P AL.C13D AL.C13D3

variable (F : Folds) (cfg : Cfg)

/-! ### `strategy:` → `matrix:` -/

theorem strategyKey_frame (s s' : Strategy) (kv : KV) (h : nStrategy F s = nStrategy F s') :
    Sim (nStrategy F) (strategyKey cfg s kv) (strategyKey cfg s' kv) := by
  obtain ⟨m, ff, mp, p⟩ := s
  obtain ⟨m', ff', mp', p'⟩ := s'
  simp only [nStrategy, Strategy.mk.injEq] at h
  obtain ⟨hm, rfl, rfl, rfl⟩ := h
  simp only [strategyKey]
  split <;> exact ⟨by simp only [nStrategy, hm], rfl⟩

theorem c_job_strategy (jid : Str) (m : MapCtx) (hk : m.Keyed cfg "strategy") :
    Cong (parseJob cfg jid) m.at (nJob F) (SimRel (parseStrategy cfg (parseString m.key false).1.pos) (nStrategy F)) :=
  c_job F cfg jid m "strategy" hk _ (fun s v v' h => by
    obtain ⟨h1, h2⟩ := h
    refine ⟨?_, by simpa only [jobKey] using h2⟩
    simp only [jobKey, nJobSt, nJob, Option.map_some]
    rw [h1])

/-- **the names of the rows of `matrix:`** -/
theorem c_strategy_matrix (pos : Yaml.Pos) (m : MapCtx) (hk : m.Keyed cfg "matrix") (hf : ∀ a b, F.matrix a = F.matrix b → cfg.lower a = cfg.lower b) :
    Cong (parseStrategy cfg pos) m.at (nStrategy F) (KeyRecased F.matrix) := by
  have key := Sect.cong (plain (strategyKey cfg) { pos := pos }) cfg (sectionWhat "strategy") false true m (nStrategy F) (nStrategy F)
    (KeyRecased F.matrix) hk.first' (fun s s' kv h => strategyKey_frame F cfg s s' kv h) (fun s s' h => ⟨h, rfl⟩)
    (fun s v v' h => by
      rw [hk.id]
      obtain ⟨j1, j2⟩ := parseMatrix_recase (cfg := cfg) hf (parseString m.key false).1.pos h
      simp only [plain, strategyKey]
      exact ⟨by simp only [nStrategy, Option.map_some]; rw [j1], j2⟩)
  intro v v' h
  have := key v v' h
  simpa only [parseStrategy_eq_run] using this

/-! ### `on:` → an event → its sections -/

theorem c_wf_on (m : MapCtx) (hk : m.Keyed cfg "on") :
    Cong (wfRun cfg) m.at (nWf F) (SimRel (parseEvents cfg (parseString m.key false).1.pos) (Option.map (List.map (nEvent F.event)))) :=
  c_wf F cfg m "on" hk _ (fun w v v' h => by
    obtain ⟨h1, h2⟩ := h
    refine ⟨?_, by simpa only [workflowKey] using h2⟩
    simp only [workflowKey, nWf]
    rw [h1])

theorem eventOfKey_frame (f : String → String) (s s' : List Event) (kv : KV) (h : s.map (nEvent f) = s'.map (nEvent f)) :
    Sim (List.map (nEvent f)) (eventOfKey cfg s kv) (eventOfKey cfg s' kv) := by
  simp only [eventOfKey]
  split
  · refine ⟨?_, rfl⟩
    cases (parseScheduleEvent cfg kv.key.pos kv.val).1 <;> simp only [List.map_append, h]
  all_goals exact ⟨by simp only [List.map_append, h], rfl⟩

/-- `on:` (a mapping) → the value of one event; `name` is the event's name as `eventOfKey` dispatches on it -/
theorem c_on_event (pos : Yaml.Pos) (m : MapCtx) (name : String) (hk : m.Keyed cfg name) (Rel : Node → Node → Prop)
    (hstep : ∀ s v v', Rel v v' → Sim (List.map (nEvent F.event)) (eventOfKey cfg s ⟨name, (parseString m.key false).1, v⟩)
        (eventOfKey cfg s ⟨name, (parseString m.key false).1, v'⟩)) :
    Cong (parseEvents cfg pos) m.at (Option.map (List.map (nEvent F.event))) Rel := by
  have key := Sect.cong (plain (eventOfKey cfg) []) cfg (sectionWhat "on") false true m (List.map (nEvent F.event)) (List.map (nEvent F.event))
    Rel hk.first' (fun s s' kv h => eventOfKey_frame cfg F.event s s' kv h) (fun s s' h => ⟨h, rfl⟩)
    (by intro s v v' hr; rw [hk.id]; exact hstep s v v' hr)
  intro v v' h
  obtain ⟨k1, k2⟩ := key v v' h
  simp only [MapCtx.at, parseEvents_mapNode] at k1 k2 ⊢
  exact ⟨by simp only [Option.map_some, k1], k2⟩

theorem c_on_call (pos : Yaml.Pos) (m : MapCtx) (hk : m.Keyed cfg "workflow_call") :
    Cong (parseEvents cfg pos) m.at (Option.map (List.map (nEvent F.event)))
      (SimRel (parseWorkflowCallEvent cfg (parseString m.key false).1.pos) (nEvent F.event)) :=
  c_on_event F cfg pos m "workflow_call" hk _ (fun s v v' h => by
    obtain ⟨h1, h2⟩ := h
    simp only [eventOfKey]
    exact ⟨by simp only [List.map_append, List.map_cons, List.map_nil, h1], h2⟩)

theorem c_on_dispatch (pos : Yaml.Pos) (m : MapCtx) (hk : m.Keyed cfg "workflow_dispatch") :
    Cong (parseEvents cfg pos) m.at (Option.map (List.map (nEvent F.event)))
      (SimRel (parseWorkflowDispatchEvent cfg (parseString m.key false).1.pos) (nEvent F.event)) :=
  c_on_event F cfg pos m "workflow_dispatch" hk _ (fun s v v' h => by
    obtain ⟨h1, h2⟩ := h
    simp only [eventOfKey]
    exact ⟨by simp only [List.map_append, List.map_cons, List.map_nil, h1], h2⟩)

theorem callEventKey_frame (f : String → String) (s s' : CallEventSt) (kv : KV) (h : nCallEventSt f s = nCallEventSt f s') :
    Sim (nCallEventSt f) (callEventKey cfg s kv) (callEventKey cfg s' kv) := by
  obtain ⟨i, sc, o⟩ := s
  obtain ⟨i', sc', o'⟩ := s'
  simp only [nCallEventSt, CallEventSt.mk.injEq] at h
  obtain ⟨hi, hs, ho⟩ := h
  simp only [callEventKey]
  split <;> exact ⟨by simp only [nCallEventSt, hi, hs, ho], rfl⟩

/-- **the declared names of `workflow_call`**: the keys of `inputs:` / `secrets:` / `outputs:` (`name` is one of the three) -/
theorem c_call_section (f : String → String) (hf : ∀ a b, f a = f b → cfg.lower a = cfg.lower b) (pos : Yaml.Pos) (m : MapCtx) (name : String)
    (hk : m.Keyed cfg name) : Cong (parseWorkflowCallEvent cfg pos) m.at (nEvent f) (KeyRecased f) := by
  have key := Sect.cong (plain (callEventKey cfg) {}) cfg (sectionWhat "workflow_call") true true m (nCallEventSt f) (nCallEventSt f)
    (KeyRecased f) hk.first' (fun s s' kv h => callEventKey_frame cfg f s s' kv h) (fun s s' h => ⟨h, rfl⟩)
    (fun s v v' h => callEventKey_recase hf s _ _ h)
  intro v v' h
  obtain ⟨k1, k2⟩ := key v v' h
  simp only [parseWorkflowCallEvent_eq_run]
  refine ⟨?_, k2⟩
  simp only [nCallEventSt, CallEventSt.mk.injEq] at k1
  simp only [nEvent, k1.1, k1.2.1, k1.2.2]

/-- **the declared names of `workflow_dispatch`**: the keys of `inputs:` -/
theorem c_dispatch_inputs (f : String → String) (hf : ∀ a b, f a = f b → cfg.lower a = cfg.lower b) (pos : Yaml.Pos) (m : MapCtx)
    (hk : m.Keyed cfg "inputs") : Cong (parseWorkflowDispatchEvent cfg pos) m.at (nEvent f) (KeyRecased f) := by
  have key := Sect.cong (plain (dispatchStep cfg) none) cfg (sectionWhat "workflow_dispatch") true true m
    (Option.map (nAssoc (nDispatchInput f))) (Option.map (nAssoc (nDispatchInput f)))
    (KeyRecased f) hk.first'
    (fun s s' kv h => by
      show Sim _ (dispatchStep cfg s kv) (dispatchStep cfg s' kv)
      simp only [dispatchStep]
      split
      · exact ⟨h, rfl⟩
      · exact ⟨rfl, rfl⟩)
    (fun s s' h => ⟨h, rfl⟩)
    (fun s v v' h => by rw [hk.id]; exact dispatchInputs_recase hf s _ h)
  intro v v' h
  obtain ⟨k1, k2⟩ := key v v' h
  simp only [parseWorkflowDispatchEvent_eq_run]
  exact ⟨by simp only [nEvent, k1], k2⟩

end AL.C08D
