import AL.Lemmas.C12PSect
/-
  C12Parse, level 3: `parseJob` keeps the key. The workflow key of the scalars below a job key (`jobKeyOf`; the sections
  `steps`, `container`, `services`, `environment` have finer keys and are walked by their own theorems), the keyed strings
  the loop state holds under a job key (`jobKK`), `jobKeyKK_store`, `jobKK_pres`.
-/
namespace AL.C12P
open AL.PW AL.Yaml AL.Ast AL.C03P AL.C03R AL.C12R

/-- the workflow key of the scalars below the key `k` of a job (for the keys whose scalars all lie under one key) -/
def jobKeyOf (k : String) : String :=
  match k with
  | "name" => "jobs.<job_id>.name"
  | "if" => "jobs.<job_id>.if"
  | "runs-on" => "jobs.<job_id>.runs-on"
  | "env" => "jobs.<job_id>.env"
  | "concurrency" => "jobs.<job_id>.concurrency"
  | "outputs" => "jobs.<job_id>.outputs.<output_id>"
  | "continue-on-error" => "jobs.<job_id>.continue-on-error"
  | "timeout-minutes" => "jobs.<job_id>.timeout-minutes"
  | "defaults" => "jobs.<job_id>.defaults.run"
  | "strategy" => "jobs.<job_id>.strategy"
  | "with" => "jobs.<job_id>.with.<with_id>"
  | "secrets" => "jobs.<job_id>.secrets.<secrets_id>"
  | _ => ""

/-- the job keys below which the walk descends further -/
def JobPlain (k : String) : Prop := k ≠ "steps" ∧ k ≠ "container" ∧ k ≠ "services" ∧ k ≠ "environment"

theorem jobKeyKeyed_eq (k : String) (x : Node) (hk : JobPlain k) :
    jobKeyKeyed k x = under (jobKeyOf k) (jobKeyScalars k x) := by
  obtain ⟨h1, h2, h3, h4⟩ := hk
  simp only [jobKeyKeyed]
  split
  all_goals first
    | (exfalso; first | exact h1 rfl | exact h2 rfl | exact h3 rfl | exact h4 rfl)
    | (simp [jobKeyOf, jobKeyScalars]; done)
    | (simp only [jobKeyOf, jobKeyScalars]; split <;> simp)


/-- the keyed strings the loop of `parseJob` holds under the key `k` -/
def jobKK (k : String) (st : JobSt) : List (Str × String) :=
  match k with
  | "steps" => (st.job.steps.getD []).flatMap stepKStrs
  | "container" =>
    containerKStrs st.job.container "jobs.<job_id>.container" "jobs.<job_id>.container.credentials"
      "jobs.<job_id>.container.env.<env_id>" "jobs.<job_id>.container"
  | "services" => servicesKStrs st.job.services
  | "environment" => (match st.job.environment with | some e => environmentKStrs e | none => [])
  | _ => tag (jobKeyOf k) (jobK k st)

theorem jobKK_plain (k : String) (st : JobSt) (hk : JobPlain k) : jobKK k st = tag (jobKeyOf k) (jobK k st) := by
  obtain ⟨h1, h2, h3, h4⟩ := hk
  simp only [jobKK]

theorem jobKey_steps (cfg : Cfg) (st : JobSt) (kv : KV) (hne : kv.id ≠ "steps") : (jobKey cfg st kv).1.job.steps = st.job.steps := by
  simp only [jobKey]
  split
  all_goals first | rfl | exact absurd ‹kv.id = _› hne | (split <;> first | rfl | (split <;> rfl))

theorem jobKey_container (cfg : Cfg) (st : JobSt) (kv : KV) (hne : kv.id ≠ "container") :
    (jobKey cfg st kv).1.job.container = st.job.container := by
  simp only [jobKey]
  split
  all_goals first | rfl | exact absurd ‹kv.id = _› hne | (split <;> first | rfl | (split <;> rfl))

theorem jobKey_services (cfg : Cfg) (st : JobSt) (kv : KV) (hne : kv.id ≠ "services") :
    (jobKey cfg st kv).1.job.services = st.job.services := by
  simp only [jobKey]
  split
  all_goals first | rfl | exact absurd ‹kv.id = _› hne | (split <;> first | rfl | (split <;> rfl))

theorem jobKey_environment (cfg : Cfg) (st : JobSt) (kv : KV) (hne : kv.id ≠ "environment") :
    (jobKey cfg st kv).1.job.environment = st.job.environment := by
  simp only [jobKey]
  split
  all_goals first | rfl | exact absurd ‹kv.id = _› hne | (split <;> first | rfl | (split <;> rfl))

theorem jobKK_pres (cfg : Cfg) (k : String) (st : JobSt) (kv : KV) (hne : kv.id ≠ k) :
    ∀ p ∈ jobKK k st, p ∈ jobKK k (jobKey cfg st kv).1 := by
  intro p hp
  by_cases h1 : k = "steps"
  · subst h1; simp only [jobKK] at hp ⊢; rw [jobKey_steps cfg st kv hne]; exact hp
  by_cases h2 : k = "container"
  · subst h2; simp only [jobKK] at hp ⊢; rw [jobKey_container cfg st kv hne]; exact hp
  by_cases h3 : k = "services"
  · subst h3; simp only [jobKK] at hp ⊢; rw [jobKey_services cfg st kv hne]; exact hp
  by_cases h4 : k = "environment"
  · subst h4; simp only [jobKK] at hp ⊢; rw [jobKey_environment cfg st kv hne]; exact hp
  rw [jobKK_plain k _ ⟨h1, h2, h3, h4⟩] at hp ⊢
  exact tag_mono (jobK_pres cfg k st kv hne) p hp

theorem jobKeyKK_store (cfg : Cfg) (st : JobSt) (kv : KV) (v : Node) (key : String)
    (hv : (v, key) ∈ jobKeyKeyed kv.id kv.val) (hc : (jobKey cfg st kv).2 = []) :
    RepK v key (jobKK kv.id (jobKey cfg st kv).1) := by
  by_cases h1 : kv.id = "steps"
  · simp only [h1, jobKeyKeyed] at hv
    simp only [jobKey, h1] at hc ⊢
    simp only [jobKK]
    exact parseSteps_leafK cfg _ v key hv hc
  by_cases h2 : kv.id = "container"
  · simp only [h2, jobKeyKeyed] at hv
    simp only [jobKey, h2] at hc ⊢
    simp only [jobKK]
    exact parseContainer_leafK cfg _ _ _ _ _ _ v key hv hc
  by_cases h3 : kv.id = "services"
  · simp only [h3, jobKeyKeyed] at hv
    simp only [jobKey, h3] at hc ⊢
    simp only [jobKK]
    exact parseServices_leafK cfg _ v key hv hc
  by_cases h4 : kv.id = "environment"
  · simp only [h4, jobKeyKeyed] at hv
    simp only [jobKey, h4] at hc ⊢
    simp only [jobKK]
    exact parseEnvironment_leafK cfg _ _ v key hv hc
  rw [jobKeyKeyed_eq _ _ ⟨h1, h2, h3, h4⟩] at hv
  rw [jobKK_plain _ _ ⟨h1, h2, h3, h4⟩]
  exact RepK.of_under hv (fun hvk => jobKey_store cfg st kv v hvk hc)

end AL.C12P
