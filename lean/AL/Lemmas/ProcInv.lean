import AL.Model.Proc
/-
  Lemmas for C20 (g)–(k): the inductive invariant of the concurrency protocol and progress.
-/
namespace AL.Proc

/-! ### counting -/

theorem count_nil (p : PC) : count [] p = 0 := rfl

theorem count_cons (p q : PC) (l : List PC) :
    count (q :: l) p = (if q = p then 1 else 0) + count l p := by
  simp only [count, List.filter_cons]
  by_cases h : q = p
  · simp only [h, decide_true, if_true, List.length_cons]; omega
  · simp [h]

theorem count_set (pcs : List PC) (i : Nat) (r q : PC) (h : pcs[i]? = some r) (p : PC) :
    count (setPc pcs i q) p + (if p = r then 1 else 0) = count pcs p + (if p = q then 1 else 0) := by
  induction pcs generalizing i with
  | nil => simp at h
  | cons c cs ih =>
    cases i with
    | zero =>
      simp at h; subst h
      simp only [setPc, List.set_cons_zero, count_cons]
      simp only [eq_comm (a := p)]
      by_cases h1 : c = p <;> by_cases h2 : q = p <;> simp only [h1, h2, if_true, if_false] <;> omega
    | succ i =>
      simp at h
      have := ih i h
      simp only [setPc, List.set_cons_succ, count_cons] at this ⊢
      omega

theorem count_eq_zero (l : List PC) (p : PC) (h : ∀ x ∈ l, x ≠ p) : count l p = 0 := by
  induction l with
  | nil => rfl
  | cons c cs ih =>
    rw [count_cons, ih (fun x hx => h x (List.mem_cons_of_mem _ hx))]
    have := h c (List.mem_cons_self)
    simp [this]

theorem count_replicate_ne (n : Nat) (p q : PC) (h : q ≠ p) : count (List.replicate n q) p = 0 :=
  count_eq_zero _ _ (fun x hx => by rw [List.eq_of_mem_replicate hx]; exact h)

theorem exists_of_count_pos (l : List PC) (p : PC) (h : 0 < count l p) : ∃ i : Nat, l[i]? = some p := by
  induction l with
  | nil => simp [count] at h
  | cons c cs ih =>
    rw [count_cons] at h
    by_cases hc : c = p
    · exact ⟨0, by simp [hc]⟩
    · simp [hc] at h
      obtain ⟨i, hi⟩ := ih h
      exact ⟨i + 1, by rw [List.getElem?_cons_succ]; exact hi⟩

/-! ### the invariant -/

/-- same fields as `AL.C20.Inv` (which lives in the statement file); it is inductive as it stands -/
structure Inv' (s : State) : Prop where
  permits : s.sema + count s.pcs .running = s.par
  wgCount : s.wg = count s.pcs .added + count s.pcs .running + count s.pcs .released
  afterVisit : s.visiting = false → ∀ p ∈ s.pcs, p = .idle ∨ p = .done
  order1 : s.egWaited = true → s.visiting = false
  order2 : s.procWaited = true → s.egWaited = true ∧ s.wg = 0
  order3 : s.returned = true → s.procWaited = true

theorem init_inv (par n : Nat) : Inv' (init par n) where
  permits := by simp [init, count_replicate_ne]
  wgCount := by simp [init, count_replicate_ne]
  afterVisit := by simp [init]
  order1 := by simp [init]
  order2 := by simp [init]
  order3 := by simp [init]

/-- a state whose `pcs[i]` is not idle/done is still visiting -/
theorem visiting_of_busy (s : State) (hi : Inv' s) (i : Nat) (p : PC) (h : s.pcs[i]? = some p)
    (h1 : p ≠ .idle) (h2 : p ≠ .done) : s.visiting = true := by
  cases hv : s.visiting with
  | true => rfl
  | false =>
    have := hi.afterVisit hv p (List.mem_of_getElem? h)
    cases this <;> contradiction

theorem step_inv (s s' : State) (a : Act) (hi : Inv' s) (h : step s a = some s') : Inv' s' := by
  cases a with
  | submit i =>
    simp only [step, Bool.and_eq_true, decide_eq_true_eq, Option.ite_none_right_eq_some,
      Option.some.injEq] at h
    obtain ⟨⟨hv, hpc⟩, rfl⟩ := h
    have c1 := count_set _ i _ .added hpc .added
    have c2 := count_set _ i _ .added hpc .running
    have c3 := count_set _ i _ .added hpc .released
    simp at c1 c2 c3
    have := hi.permits; have := hi.wgCount
    refine ⟨by simp only; omega, by simp only; omega, ?_, ?_, ?_, hi.order3⟩
    · simp [hv]
    · intro h; have := hi.order1 h; simp [hv] at this
    · intro h; have := hi.order1 (hi.order2 h).1; simp [hv] at this
  | acquire i =>
    simp only [step, Bool.and_eq_true, decide_eq_true_eq, Option.ite_none_right_eq_some,
      Option.some.injEq] at h
    obtain ⟨⟨hpc, hsem⟩, rfl⟩ := h
    have hv := visiting_of_busy s hi i _ hpc (by decide) (by decide)
    have c1 := count_set _ i _ .running hpc .added
    have c2 := count_set _ i _ .running hpc .running
    have c3 := count_set _ i _ .running hpc .released
    simp at c1 c2 c3
    have := hi.permits; have := hi.wgCount
    refine ⟨by simp only; omega, by simp only; omega, ?_, hi.order1, hi.order2, hi.order3⟩
    simp [hv]
  | finish i =>
    simp only [step, Option.ite_none_right_eq_some, Option.some.injEq] at h
    obtain ⟨hpc, rfl⟩ := h
    have hv := visiting_of_busy s hi i _ hpc (by decide) (by decide)
    have c1 := count_set _ i _ .released hpc .added
    have c2 := count_set _ i _ .released hpc .running
    have c3 := count_set _ i _ .released hpc .released
    simp at c1 c2 c3
    have := hi.permits; have := hi.wgCount
    refine ⟨by simp only; omega, by simp only; omega, ?_, hi.order1, hi.order2, hi.order3⟩
    simp [hv]
  | callback i =>
    simp only [step, Option.ite_none_right_eq_some, Option.some.injEq] at h
    obtain ⟨hpc, rfl⟩ := h
    have hv := visiting_of_busy s hi i _ hpc (by decide) (by decide)
    have c1 := count_set _ i _ .done hpc .added
    have c2 := count_set _ i _ .done hpc .running
    have c3 := count_set _ i _ .done hpc .released
    simp at c1 c2 c3
    have := hi.permits; have := hi.wgCount
    refine ⟨by simp only; omega, by simp only; omega, ?_, hi.order1, ?_, hi.order3⟩
    · simp [hv]
    · intro h; have := hi.order1 (hi.order2 h).1; simp [hv] at this
  | visitDone =>
    simp only [step, Bool.and_eq_true, Option.ite_none_right_eq_some, Option.some.injEq] at h
    obtain ⟨⟨hv, hall⟩, rfl⟩ := h
    refine ⟨hi.permits, hi.wgCount, ?_, ?_, hi.order2, hi.order3⟩
    · intro _ p hp
      have := List.all_eq_true.mp hall p hp
      simpa using this
    · intro _; rfl
  | egWait =>
    simp only [step, Bool.and_eq_true, Bool.not_eq_eq_eq_not, Bool.not_true,
      Option.ite_none_right_eq_some, Option.some.injEq] at h
    obtain ⟨⟨hv, he⟩, rfl⟩ := h
    exact ⟨hi.permits, hi.wgCount, hi.afterVisit, fun _ => hv,
      fun h => ⟨rfl, (hi.order2 h).2⟩, hi.order3⟩
  | procWait =>
    simp only [step, Bool.and_eq_true, decide_eq_true_eq, Bool.not_eq_eq_eq_not, Bool.not_true,
      Option.ite_none_right_eq_some, Option.some.injEq] at h
    obtain ⟨⟨⟨he, hw⟩, hp⟩, rfl⟩ := h
    exact ⟨hi.permits, hi.wgCount, hi.afterVisit, hi.order1, fun _ => ⟨he, hw⟩, fun h => by
      have := hi.order3 h; simp [hp] at this⟩
  | ret =>
    simp only [step, Bool.and_eq_true, Bool.not_eq_eq_eq_not, Bool.not_true,
      Option.ite_none_right_eq_some, Option.some.injEq] at h
    obtain ⟨⟨hp, hr⟩, rfl⟩ := h
    exact ⟨hi.permits, hi.wgCount, hi.afterVisit, hi.order1, hi.order2, fun _ => hp⟩

theorem exec_inv (s s' : State) (sched : List Act) (hi : Inv' s) (h : exec s sched = some s') :
    Inv' s' := by
  induction sched generalizing s with
  | nil => simp [exec] at h; subst h; exact hi
  | cons a as ih =>
    simp only [exec] at h
    cases hs : step s a with
    | none => simp [hs] at h
    | some s1 =>
      rw [hs] at h
      exact ih s1 (step_inv s s1 a hi hs) h

theorem reachable_inv (par n : Nat) (sched : List Act) (s : State)
    (h : exec (init par n) sched = some s) : Inv' s :=
  exec_inv _ _ _ (init_inv par n) h

/-! ### `par` and the number of invocations never change -/

theorem step_par (s s' : State) (a : Act) (h : step s a = some s') :
    s'.par = s.par ∧ s'.pcs.length = s.pcs.length := by
  cases a <;> simp only [step, Option.ite_none_right_eq_some, Option.some.injEq] at h <;>
    obtain ⟨_, rfl⟩ := h <;> simp [setPc]

theorem exec_par (s s' : State) (sched : List Act) (h : exec s sched = some s') :
    s'.par = s.par ∧ s'.pcs.length = s.pcs.length := by
  induction sched generalizing s with
  | nil => simp [exec] at h; subst h; simp
  | cons a as ih =>
    simp only [exec] at h
    cases hs : step s a with
    | none => simp [hs] at h
    | some s1 =>
      rw [hs] at h
      have h1 := step_par _ _ _ hs
      have h2 := ih s1 h
      omega

/-! ### consequences -/

theorem inv_bounded (s : State) (hi : Inv' s) : count s.pcs .running ≤ s.par := by
  have := hi.permits; omega

theorem inv_sema_le (s : State) (hi : Inv' s) : s.sema ≤ s.par := by
  have := hi.permits; omega

theorem inv_collected (s : State) (hi : Inv' s) (hr : s.returned = true) :
    ∀ p ∈ s.pcs, p = .idle ∨ p = .done :=
  hi.afterVisit (hi.order1 (hi.order2 (hi.order3 hr)).1)

theorem inv_no_add (s : State) (hi : Inv' s) (hp : s.procWaited = true) (i : Nat) :
    step s (.submit i) = none := by
  have := hi.order1 (hi.order2 hp).1
  simp [step, this]

/-- progress from any state satisfying the invariant -/
theorem inv_progress (s : State) (hi : Inv' s) (hpar : 1 ≤ s.par) (hr : s.returned = false) :
    ∃ a, (step s a).isSome = true := by
  by_cases hpw : s.procWaited = true
  · exact ⟨.ret, by simp [step, hpw, hr]⟩
  by_cases heg : s.egWaited = true
  · have hv := hi.order1 heg
    have hall := hi.afterVisit hv
    have hw : s.wg = 0 := by
      rw [hi.wgCount, count_eq_zero _ .added, count_eq_zero _ .running, count_eq_zero _ .released]
      all_goals
        intro x hx
        cases hall x hx <;> simp_all
    exact ⟨.procWait, by simp [step, heg, hw, hpw]⟩
  by_cases hv' : s.visiting = false
  · exact ⟨.egWait, by simp [step, hv', heg]⟩
  have hv : s.visiting = true := by simpa using hv'
  cases hall : s.pcs.all (fun p => p = .idle || p = .done) with
  | true => exact ⟨.visitDone, by simp only [step, hv, hall]; rfl⟩
  | false =>
    obtain ⟨p, hp, hne⟩ := List.all_eq_false.mp hall
    simp only [Bool.or_eq_true, decide_eq_true_eq, not_or] at hne
    obtain ⟨i, hpi⟩ := List.getElem?_of_mem hp
    have finishRunning : ∀ k : Nat, s.pcs[k]? = some PC.running → ∃ a, (step s a).isSome = true :=
      fun k hk => ⟨.finish k, by simp [step, hk]⟩
    cases p with
    | idle => simp at hne
    | done => simp at hne
    | running => exact finishRunning i hpi
    | released => exact ⟨.callback i, by simp [step, hpi]⟩
    | added =>
      by_cases hs : 0 < s.sema
      · exact ⟨.acquire i, by simp [step, hpi, hs]⟩
      · have := hi.permits
        obtain ⟨k, hk⟩ := exists_of_count_pos s.pcs .running (by omega)
        exact finishRunning k hk

end AL.Proc
