import AL.Model.Matrix
import AL.Spec.RawYaml
/-
  Basic facts for C19: an induction principle for the nested inductive `Raw`, membership
  characterisations of the well-formedness predicates, `lookup` on association lists with distinct
  keys, a pigeonhole lemma, and non-mutual characterisations of `equalsList` / `equalsProps` /
  `subsetList` / `subsetProps`.
-/
namespace AL.Matrix
open AL.Spec

/-! ### Induction principle -/

/-- Structural induction on `Raw` with membership-style induction hypotheses. -/
theorem Raw.ind {motive : Raw → Prop}
    (str : ∀ v p, motive (.str v p))
    (arr : ∀ es p, (∀ e ∈ es, motive e) → motive (.arr es p))
    (obj : ∀ ps p, (∀ kv ∈ ps, motive kv.2) → motive (.obj ps p)) :
    ∀ a, motive a := by
  intro a
  refine Raw.rec (motive_1 := motive) (motive_2 := fun es => ∀ e ∈ es, motive e)
    (motive_3 := fun ps => ∀ kv ∈ ps, motive kv.2) (motive_4 := fun kv => motive kv.2)
    str arr obj ?_ ?_ ?_ ?_ ?_ a
  · intro e he; cases he
  · intro h t ih1 ih2 e he
    rcases List.mem_cons.1 he with rfl | he
    · exact ih1
    · exact ih2 e he
  · intro e he; cases he
  · intro h t ih1 ih2 e he
    rcases List.mem_cons.1 he with rfl | he
    · exact ih1
    · exact ih2 e he
  · intro k v ih; exact ih

/-! ### Well-formedness -/

theorem rawWFList_iff (es : List Raw) : RawWFList es ↔ ∀ e ∈ es, RawWF e := by
  induction es with
  | nil => simp [RawWFList]
  | cons e es ih => simp [RawWFList, ih]

theorem rawWFProps_iff (ps : List (String × Raw)) : RawWFProps ps ↔ ∀ kv ∈ ps, RawWF kv.2 := by
  induction ps with
  | nil => simp [RawWFProps]
  | cons kv ps ih =>
    obtain ⟨k, v⟩ := kv
    simp only [RawWFProps, ih, List.mem_cons, forall_eq_or_imp]

theorem rawWF_arr (es : List Raw) (p : P) : RawWF (.arr es p) ↔ ∀ e ∈ es, RawWF e := by
  rw [RawWF, rawWFList_iff]

theorem rawWF_obj (ps : List (String × Raw)) (p : P) :
    RawWF (.obj ps p) ↔ (ps.map (·.1)).Nodup ∧ ∀ kv ∈ ps, RawWF kv.2 := by
  rw [RawWF, rawWFProps_iff]

/-! ### `lookup` -/

theorem lookup_some_mem {k : String} {ps : List (String × Raw)} {v : Raw}
    (h : lookup k ps = some v) : (k, v) ∈ ps := by
  induction ps with
  | nil => simp [lookup] at h
  | cons kv ps ih =>
    obtain ⟨k', v'⟩ := kv
    simp only [lookup] at h
    split at h
    · next hk => cases h; subst hk; simp
    · exact List.mem_cons_of_mem _ (ih h)

theorem lookup_eq_none_iff {k : String} {ps : List (String × Raw)} :
    lookup k ps = none ↔ k ∉ ps.map (·.1) := by
  induction ps with
  | nil => simp [lookup]
  | cons kv ps ih =>
    obtain ⟨k', v'⟩ := kv
    simp only [lookup, List.map_cons, List.mem_cons, not_or]
    split
    · next hk => subst hk; simp
    · next hk => rw [ih]; constructor
                 · intro h; exact ⟨fun e => hk e.symm, h⟩
                 · intro h; exact h.2

theorem lookup_isSome_iff {k : String} {ps : List (String × Raw)} :
    (∃ v, lookup k ps = some v) ↔ k ∈ ps.map (·.1) := by
  cases h : lookup k ps with
  | none => have := lookup_eq_none_iff.1 h; simp [this]
  | some v =>
    have : k ∈ ps.map (·.1) := List.mem_map.2 ⟨(k, v), lookup_some_mem h, rfl⟩
    simp [this]

/-- Key lemma for objects: with distinct keys, `lookup` finds exactly the members. -/
theorem mem_lookup {k : String} {ps : List (String × Raw)} {v : Raw}
    (nd : (ps.map (·.1)).Nodup) (h : (k, v) ∈ ps) : lookup k ps = some v := by
  induction ps with
  | nil => cases h
  | cons kv ps ih =>
    obtain ⟨k', v'⟩ := kv
    simp only [List.map_cons, List.nodup_cons] at nd
    simp only [lookup]
    rcases List.mem_cons.1 h with heq | h
    · cases heq; simp
    · have hk : k ∈ ps.map (·.1) := List.mem_map.2 ⟨(k, v), h, rfl⟩
      have : k' ≠ k := by intro e; subst e; exact nd.1 hk
      simp [this, ih nd.2 h]

theorem lookup_eq_some_iff {k : String} {ps : List (String × Raw)} {v : Raw}
    (nd : (ps.map (·.1)).Nodup) : lookup k ps = some v ↔ (k, v) ∈ ps :=
  ⟨lookup_some_mem, mem_lookup nd⟩

/-- `lookup` does not depend on the order of members when keys are distinct. -/
theorem lookup_perm {ps qs : List (String × Raw)} (nd : (ps.map (·.1)).Nodup) (h : ps.Perm qs)
    (k : String) : lookup k ps = lookup k qs := by
  have nd' : (qs.map (·.1)).Nodup := (h.map (·.1)).nodup_iff.1 nd
  cases hq : lookup k qs with
  | none =>
    rw [lookup_eq_none_iff] at hq ⊢
    intro hm; exact hq ((h.map (·.1)).mem_iff.1 hm)
  | some v =>
    exact mem_lookup nd (h.mem_iff.2 (lookup_some_mem hq))

/-! ### Pigeonhole -/

/-- A duplicate-free list included in a list that is not longer covers it. -/
theorem subset_of_nodup_of_length_le {α : Type} [DecidableEq α] :
    ∀ (l₁ l₂ : List α), l₁.Nodup → (∀ x ∈ l₁, x ∈ l₂) → l₂.length ≤ l₁.length →
      ∀ x ∈ l₂, x ∈ l₁
  | [], l₂, _, _, hlen, x, hx => by
    cases l₂ with
    | nil => cases hx
    | cons _ _ => simp at hlen
  | a :: t, l₂, nd, hsub, hlen, x, hx => by
    have nd' := List.nodup_cons.1 nd
    have ha : a ∈ l₂ := hsub a (by simp)
    have hsub' : ∀ y ∈ t, y ∈ l₂.erase a := by
      intro y hy
      have : y ≠ a := by intro e; subst e; exact nd'.1 hy
      exact (List.mem_erase_of_ne this).2 (hsub y (List.mem_cons_of_mem _ hy))
    have hlen' : (l₂.erase a).length ≤ t.length := by
      rw [List.length_erase_of_mem ha]; simp at hlen; omega
    by_cases hxa : x = a
    · subst hxa; simp
    · exact List.mem_cons_of_mem _
        (subset_of_nodup_of_length_le t (l₂.erase a) nd'.2 hsub' hlen' x
          ((List.mem_erase_of_ne hxa).2 hx))

/-- If every key of `ps` (distinct keys) is a key of `qs` and `qs` is not longer, every key of `qs`
is a key of `ps`. -/
theorem keys_covered {ps qs : List (String × Raw)} (nd : (ps.map (·.1)).Nodup)
    (hsub : ∀ kv ∈ ps, kv.1 ∈ qs.map (·.1)) (hlen : ps.length = qs.length) :
    ∀ kv ∈ qs, kv.1 ∈ ps.map (·.1) := by
  intro kv hkv
  refine subset_of_nodup_of_length_le (ps.map (·.1)) (qs.map (·.1)) nd ?_ (by simp [hlen]) kv.1
    (List.mem_map.2 ⟨kv, hkv, rfl⟩)
  intro x hx
  obtain ⟨kv', h1, rfl⟩ := List.mem_map.1 hx
  exact hsub kv' h1

/-! ### Non-mutual characterisations of the list helpers -/

theorem equalsList_iff (es fs : List Raw) :
    equalsList es fs = true ↔
      es.length = fs.length ∧ ∀ i (h1 : i < es.length) (h2 : i < fs.length), equals es[i] fs[i] = true := by
  induction es generalizing fs with
  | nil => cases fs <;> simp [equalsList]
  | cons e es ih =>
    cases fs with
    | nil => simp [equalsList]
    | cons f fs =>
      simp only [equalsList, Bool.and_eq_true, ih, List.length_cons, Nat.add_right_cancel_iff]
      constructor
      · rintro ⟨h0, hl, h⟩
        refine ⟨hl, ?_⟩
        intro i h1 h2
        cases i with
        | zero => simpa using h0
        | succ i => simpa using h i (by simpa using h1) (by simpa using h2)
      · rintro ⟨hl, h⟩
        refine ⟨by simpa using h 0 (by simp) (by simp), hl, ?_⟩
        intro i h1 h2
        have := h (i + 1) (by simpa using h1) (by simpa using h2)
        simpa only [List.getElem_cons_succ] using this

theorem equalsProps_iff (ps qs : List (String × Raw)) :
    equalsProps ps qs = true ↔
      ∀ kv ∈ ps, ∃ w, lookup kv.1 qs = some w ∧ equals kv.2 w = true := by
  induction ps with
  | nil => simp [equalsProps]
  | cons kv ps ih =>
    obtain ⟨k, v⟩ := kv
    simp only [equalsProps, Bool.and_eq_true, ih, List.mem_cons, forall_eq_or_imp]
    refine and_congr ?_ Iff.rfl
    cases lookup k qs <;> simp

theorem subsetList_iff (es fs : List Raw) :
    subsetList es fs = true ↔
      es.length = fs.length ∧ ∀ i (h1 : i < es.length) (h2 : i < fs.length), subset es[i] fs[i] = true := by
  induction es generalizing fs with
  | nil => cases fs <;> simp [subsetList]
  | cons e es ih =>
    cases fs with
    | nil => simp [subsetList]
    | cons f fs =>
      simp only [subsetList, Bool.and_eq_true, ih, List.length_cons, Nat.add_right_cancel_iff]
      constructor
      · rintro ⟨h0, hl, h⟩
        refine ⟨hl, ?_⟩
        intro i h1 h2
        cases i with
        | zero => simpa using h0
        | succ i => simpa using h i (by simpa using h1) (by simpa using h2)
      · rintro ⟨hl, h⟩
        refine ⟨by simpa using h 0 (by simp) (by simp), hl, ?_⟩
        intro i h1 h2
        have := h (i + 1) (by simpa using h1) (by simpa using h2)
        simpa only [List.getElem_cons_succ] using this

theorem subsetProps_iff (vps sps : List (String × Raw)) :
    subsetProps vps sps = true ↔
      ∀ kv ∈ sps, ∃ p, lookup kv.1 vps = some p ∧ subset p kv.2 = true := by
  induction sps with
  | nil => simp [subsetProps]
  | cons kv sps ih =>
    obtain ⟨k, v⟩ := kv
    simp only [subsetProps, Bool.and_eq_true, ih, List.mem_cons, forall_eq_or_imp]
    refine and_congr ?_ Iff.rfl
    cases lookup k vps <;> simp

/-- `equals` on two objects, without the mutual helpers. -/
theorem equals_obj_iff (ps qs : List (String × Raw)) (p q : P) :
    equals (.obj ps p) (.obj qs q) = true ↔
      ps.length = qs.length ∧ ∀ kv ∈ ps, ∃ w, lookup kv.1 qs = some w ∧ equals kv.2 w = true := by
  simp [equals, equalsProps_iff]

theorem equals_arr_iff (es fs : List Raw) (p q : P) :
    equals (.arr es p) (.arr fs q) = true ↔
      es.length = fs.length ∧ ∀ i (h1 : i < es.length) (h2 : i < fs.length), equals es[i] fs[i] = true := by
  simp [equals, equalsList_iff]

end AL.Matrix
