import AL.Lemmas.C03PJob
/-
  C03Parse, level 3, second half: the checks after the loop of `parseJob` (`jobK_final`), the theorem for `parseJob` and
  for the `jobs:` section.
-/
namespace AL.C03P
open AL.PW AL.Yaml AL.Ast AL.C03R

theorem strat_mem (j : Job) (s : Str) (hs : s ∈ match j.strategy with | some sg => strategyAllStrs sg | none => []) :
    (s ∈ match j.strategy with
      | some s => (match s.matrix with | some m => matrixStrs m | none => [])
      | none => []) ∨ s ∈ strategyStrs j.strategy := by
  cases hst : j.strategy with
  | none => simp [hst] at hs
  | some sg =>
    simp only [hst, strategyAllStrs, strategyStrs, List.mem_append] at hs ⊢
    rcases hs with (hs | hs) | hs
    · exact Or.inl hs
    · exact Or.inr (Or.inl hs)
    · exact Or.inr (Or.inr hs)

theorem env_mem (j : Job) (s : Str) (hs : s ∈ match j.environment with | some e => environmentStrs e | none => []) :
    s ∈ match j.environment with | some e => e.name.toList ++ e.url.toList | none => [] := by
  cases he : j.environment with
  | none => simp [he] at hs
  | some e => simpa [he, environmentStrs] using hs

theorem jobK_final (id : Str) (k : String) (st : JobSt) (hc : (jobFinish id st).2 = []) :
    ∀ s ∈ jobK k st, s ∈ jobStrs (jobFinish id st).1 := by
  intro s hs
  simp only [jobFinish] at hc ⊢
  split at hc
  · rename_i hu
    split at hc
    · simp at hc
    · rename_i hso
      simp only [hu, ↓reduceIte]
      simp only [jobStrs, jobPreStrs, jobPostStrs, matrixOfStrs, callStrs, List.mem_append]
      simp only [jobK] at hs
      obtain ⟨u, hu'⟩ := Option.isSome_iff_exists.1 hu
      split at hs
      case h_4 => exact Or.inr (Or.inl (env_mem st.job s hs))
      case h_12 =>
        rcases strat_mem st.job s hs with h2 | h2
        · exact Or.inl (Or.inl (Or.inl h2))
        · exact Or.inl (Or.inl (Or.inr (Or.inl (Or.inl (Or.inl (Or.inl (Or.inl (Or.inr h2))))))))
      all_goals first
        | (simp only [hs, true_or, or_true]; done)
        | (split at hs <;> simp_all; done)
        | (simp_all; done)
  · rename_i hu
    simp only [hu]
    simp only [Bool.not_eq_true, Option.isSome_eq_false_iff, Option.isNone_iff_eq_none] at hu
    simp only [append_nil_iff] at hc
    simp only [jobStrs, jobPreStrs, jobPostStrs, matrixOfStrs, callStrs, List.mem_append]
    simp only [jobK] at hs
    split at hs
    case h_4 => exact Or.inr (Or.inl (env_mem st.job s hs))
    case h_12 =>
      rcases strat_mem st.job s hs with h2 | h2
      · exact Or.inl (Or.inl (Or.inl h2))
      · exact Or.inl (Or.inl (Or.inr (Or.inl (Or.inl (Or.inl (Or.inl (Or.inl (Or.inr h2))))))))
    case h_17 =>
      exfalso
      cases hk : st.callOnlyKey with
      | none => simp [hk] at hs
      | some k => simp [hk] at hc
    case h_18 =>
      exfalso
      cases hk : st.callOnlyKey with
      | none => simp [hk] at hs
      | some k => simp [hk] at hc
    all_goals first
      | (simp only [hs, true_or, or_true]; done)
      | (split at hs <;> simp_all; done)
      | (simp_all; done)

/-- **level 3, clean form.** When `parseJob` appends no diagnostic, every value scalar of the job node is one of the value
strings of the job. -/
theorem parseJob_leaf (cfg : Cfg) (id : Str) (n : Node) (v : Node) (hv : v ∈ jobScalars n) (hc : (parseJob cfg id n).2 = []) :
    Rep v (jobStrs (parseJob cfg id n).1) := by
  simp only [parseJob, append_nil_iff] at hc ⊢
  obtain ⟨⟨hm, hr⟩, hf⟩ := hc
  obtain ⟨k, hk⟩ := sect_K cfg _ n false true (jobKey cfg) _ jobKeyScalars v hv jobK hm hr
    (by
      intro kv k st hid hvk hc
      have := hid rfl
      subst this
      exact jobKey_store cfg st kv v hvk hc)
    (jobK_pres cfg)
  exact hk.mono (jobK_final id k _ hf)

theorem parseJobs_leaf (cfg : Cfg) (n : Node) (v : Node) (hv : v ∈ jobsScalars n) (h : (parseJobs cfg n).2 = []) :
    Rep v ((parseJobs cfg n).1.flatMap fun kv => jobStrs kv.2) := by
  simp only [parseJobs, parseSectionMapping, append_nil_iff] at h ⊢
  obtain ⟨kv, hkv, k, _, hvk⟩ := mapScalars_clean cfg _ n false false _ v hv h.1
  obtain ⟨h1, h2⟩ := mapKVs_clean _ _ h.2 kv hkv
  exact Rep.flatMap h2 (parseJob_leaf cfg kv.key kv.val v hvk h1)

end AL.C03P
