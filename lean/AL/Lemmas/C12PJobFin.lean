import AL.Lemmas.C12PJob
/-
  C12Parse, level 3, second half: the field ↔ key table of a job (`jobK_keyed`, `jobKK_final`: what the loop of `parseJob`
  holds under a job key is listed by `AL.C12R.jobKStrs` of the finished job under the workflow key of that job key), the
  theorem for `parseJob` and for the `jobs:` section.
-/
namespace AL.C12P
open AL.PW AL.Yaml AL.Ast AL.C03P AL.C03R AL.C12R

theorem jobFinish_cases (id : Str) (st : JobSt) :
    (jobFinish id st).1 = st.job ∨ (jobFinish id st).1 = { st.job with workflowCall := some st.call } := by
  simp only [jobFinish]
  split
  · split
    · exact Or.inl rfl
    · exact Or.inr rfl
  · exact Or.inl rfl

theorem strat_memK (j : Job) (s : Str) (hs : s ∈ match j.strategy with | some sg => strategyAllStrs sg | none => []) :
    (s, "jobs.<job_id>.strategy") ∈ tag "jobs.<job_id>.strategy" (matrixOfStrs j) ∨
      (s, "jobs.<job_id>.strategy") ∈ tag "jobs.<job_id>.strategy" (strategyStrs j.strategy) := by
  rcases strat_mem j s hs with h | h
  · exact Or.inl (mem_tag.2 ⟨by unfold matrixOfStrs; exact h, rfl⟩)
  · exact Or.inr (mem_tag.2 ⟨h, rfl⟩)

/-- **the field ↔ key table of a job** (the keys whose scalars lie under one workflow key) -/
theorem jobK_keyed (id : Str) (k : String) (st : JobSt) (hk : JobPlain k) (hc : (jobFinish id st).2 = []) :
    ∀ s ∈ jobK k st, (s, jobKeyOf k) ∈ jobKStrs (jobFinish id st).1 := by
  obtain ⟨h1, h2, h3, h4⟩ := hk
  intro s hs
  simp only [jobFinish] at hc ⊢
  split at hc
  · rename_i hu
    split at hc
    · simp at hc
    · rename_i hso
      simp only [hu, ↓reduceIte]
      simp only [jobKStrs, jobPreKStrs, jobPostKStrs, callKStrs, List.mem_append]
      simp only [jobK] at hs
      obtain ⟨u, hu'⟩ := Option.isSome_iff_exists.1 hu
      split at hs
      case h_4 => exact absurd rfl h4
      case h_10 => exact absurd rfl h1
      case h_14 => exact absurd rfl h2
      case h_15 => exact absurd rfl h3
      case h_12 =>
        have hj : jobKeyOf "strategy" = "jobs.<job_id>.strategy" := rfl
        rw [hj]
        rcases strat_memK st.job s hs with h | h
        · exact Or.inl (Or.inl (Or.inl h))
        · simp only [h, true_or, or_true]
      all_goals (simp_all [jobKeyOf, mem_tag]; done)
  · rename_i hu
    simp only [hu, Bool.false_eq_true, ↓reduceIte]
    simp only [Bool.not_eq_true, Option.isSome_eq_false_iff, Option.isNone_iff_eq_none] at hu
    simp only [append_nil_iff] at hc
    simp only [jobKStrs, jobPreKStrs, jobPostKStrs, callKStrs, List.mem_append]
    simp only [jobK] at hs
    split at hs
    case h_4 => exact absurd rfl h4
    case h_10 => exact absurd rfl h1
    case h_14 => exact absurd rfl h2
    case h_15 => exact absurd rfl h3
    case h_12 =>
      have hj : jobKeyOf "strategy" = "jobs.<job_id>.strategy" := rfl
      rw [hj]
      rcases strat_memK st.job s hs with h | h
      · exact Or.inl (Or.inl (Or.inl h))
      · simp only [h, true_or, or_true]
    case h_17 =>
      exfalso
      cases hk : st.callOnlyKey with
      | none => simp [hk] at hs
      | some k => simp [hk] at hc
    case h_18 =>
      exfalso
      cases hk : st.callOnlyKey with
      | none => simp [hk] at hs
      | some k => simp [hk] at hc
    all_goals (simp_all [jobKeyOf, mem_tag]; done)

/-- what the loop of `parseJob` holds under a job key is listed by `jobKStrs` of the finished job — with the same keys -/
theorem jobKK_final (id : Str) (k : String) (st : JobSt) (hc : (jobFinish id st).2 = []) :
    ∀ p ∈ jobKK k st, p ∈ jobKStrs (jobFinish id st).1 := by
  intro p hp
  have hsteps : (jobFinish id st).1.steps = st.job.steps := by
    rcases jobFinish_cases id st with h | h <;> rw [h]
  have hcont : (jobFinish id st).1.container = st.job.container := by
    rcases jobFinish_cases id st with h | h <;> rw [h]
  have hserv : (jobFinish id st).1.services = st.job.services := by
    rcases jobFinish_cases id st with h | h <;> rw [h]
  have henv : (jobFinish id st).1.environment = st.job.environment := by
    rcases jobFinish_cases id st with h | h <;> rw [h]
  by_cases h1 : k = "steps"
  · subst h1
    simp only [jobKK] at hp
    simp only [jobKStrs, List.mem_append, hsteps]
    exact Or.inl (Or.inr hp)
  by_cases h2 : k = "container"
  · subst h2
    simp only [jobKK] at hp
    simp only [jobKStrs, jobPreKStrs, List.mem_append, hcont]
    simp only [hp, true_or, or_true]
  by_cases h3 : k = "services"
  · subst h3
    simp only [jobKK] at hp
    simp only [jobKStrs, jobPreKStrs, List.mem_append, hserv]
    simp only [hp, true_or, or_true]
  by_cases h4 : k = "environment"
  · subst h4
    simp only [jobKK] at hp
    simp only [jobKStrs, jobPostKStrs, List.mem_append, henv]
    cases he : st.job.environment with
    | none => simp [he] at hp
    | some e =>
      simp only [he, environmentKStrs, List.mem_append] at hp ⊢
      simp only [hp, true_or, or_true]
  rw [jobKK_plain k _ ⟨h1, h2, h3, h4⟩] at hp
  obtain ⟨s, k'⟩ := p
  obtain ⟨hs, rfl⟩ := mem_tag.1 hp
  exact jobK_keyed id k st ⟨h1, h2, h3, h4⟩ hc s hs

/-- **level 3, clean form, with the key.** When `parseJob` appends no diagnostic, every value scalar of the job node is
one of the value strings of the job, listed there under the workflow key of the scalar's position in the document. -/
theorem parseJob_leafK (cfg : Cfg) (id : Str) (n : Node) (v : Node) (key : String) (hv : (v, key) ∈ jobKeyed n)
    (hc : (parseJob cfg id n).2 = []) : RepK v key (jobKStrs (parseJob cfg id n).1) := by
  simp only [parseJob, append_nil_iff] at hc ⊢
  obtain ⟨⟨hm, hr⟩, hf⟩ := hc
  obtain ⟨k, hk⟩ := sect_KK cfg _ n false true (jobKey cfg) _ "" jobKeyKeyed v key hv jobKK hm hr
    (by
      intro kv k st hid hvk hc
      have := hid rfl
      subst this
      exact jobKeyKK_store cfg st kv v key hvk hc)
    (jobKK_pres cfg)
  exact hk.mono (jobKK_final id k _ hf)

theorem parseJobs_leafK (cfg : Cfg) (n : Node) (v : Node) (key : String) (hv : (v, key) ∈ jobsKeyed n)
    (h : (parseJobs cfg n).2 = []) : RepK v key ((parseJobs cfg n).1.flatMap fun kv => jobKStrs kv.2) := by
  simp only [parseJobs, parseSectionMapping, append_nil_iff] at h ⊢
  obtain ⟨kv, hkv, k, _, hvk⟩ := mapKeyed_clean cfg _ n false false _ _ v key hv h.1
  obtain ⟨h1, h2⟩ := mapKVs_clean _ _ h.2 kv hkv
  exact RepK.flatMap h2 (parseJob_leafK cfg kv.key kv.val v key hvk h1)

end AL.C12P
