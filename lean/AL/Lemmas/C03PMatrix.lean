import AL.Lemmas.C03PSect
/-
  C03Parse: `strategy:` — `parseRawYAMLValue` keeps every scalar below a matrix value at any nesting depth
  (`rawValue_leaf`, by recursion over the node), rows / `include` / `exclude` (`parseMatrix_leaf`), `fail-fast`,
  `max-parallel` (`parseStrategy_leaf`).
-/
namespace AL.C03P
open AL.PW AL.Yaml AL.Ast AL.C03R

/-! ### raw YAML values -/

mutual
/-- **matrix values, any depth**: every scalar below the node is a string of the raw value, or `parseRawYAMLValue`
reports -/
theorem rawValue_leaf (cfg : Cfg) (v : Node) : ∀ (n : Node), v ∈ leaves n → (rawValue cfg n).2 = [] →
    ∃ r, (rawValue cfg n).1 = some r ∧ Rep v (rawStrs r)
  | .mk .scalar t val q l c cs, hv, _ => by
    simp only [leaves, List.mem_singleton] at hv
    subst hv
    refine ⟨.str val ⟨l, c⟩, by simp [rawValue], ?_⟩
    rw [rawStrs]
    exact ⟨_, List.mem_singleton.2 rfl, rfl, rfl⟩
  | .mk .sequence t val q l c cs, hv, h => by
    simp only [leaves] at hv
    simp only [rawValue] at h ⊢
    refine ⟨_, rfl, ?_⟩
    rw [rawStrs]
    exact rawSeq_leaf cfg v cs hv h
  | .mk .mapping t val q l c cs, hv, h => by
    simp only [leaves] at hv
    simp only [rawValue, append_nil_iff] at h ⊢
    refine ⟨_, rfl, ?_⟩
    rw [rawStrs]
    exact rawProps_leaf cfg v cs [] hv h.1 h.2
  | .mk .document _ _ _ _ _ _, hv, _ => by simp [leaves] at hv
  | .mk .alias _ _ _ _ _ _, hv, _ => by simp [leaves] at hv
theorem rawSeq_leaf (cfg : Cfg) (v : Node) : ∀ (cs : List Node), v ∈ leavesSeq cs → (rawSeq cfg cs).2 = [] →
    Rep v (rawStrsL (rawSeq cfg cs).1)
  | [], hv, _ => by simp [leavesSeq] at hv
  | c :: cs, hv, h => by
    simp only [leavesSeq, List.mem_append] at hv
    simp only [rawSeq, append_nil_iff] at h ⊢
    rcases hv with hv | hv
    · obtain ⟨r, hr, hrep⟩ := rawValue_leaf cfg v c hv h.1
      simp only [hr, rawStrsL]
      exact hrep.left
    · have := rawSeq_leaf cfg v cs hv h.2
      cases (rawValue cfg c).1 with
      | none => exact this
      | some x => simp only [rawStrsL]; exact this.right
theorem rawProps_leaf (cfg : Cfg) (v : Node) : ∀ (cs : List Node) (seen : List (String × Yaml.Pos)), v ∈ leavesMap cs →
    (rawProps cfg cs seen).2.1 = [] → (rawProps cfg cs seen).2.2 = [] → Rep v (rawStrsP (rawProps cfg cs seen).1)
  | [], _, hv, _, _ => by simp [leavesMap] at hv
  | [_], _, hv, _, _ => by simp [leavesMap] at hv
  | kn :: vn :: rest, seen, hv, h1, h2 => by
    simp only [leavesMap, List.mem_append] at hv
    rw [rawProps] at h1 h2 ⊢
    cases hl : lookupSeen (cfg.lower (parseString kn false).1.value) seen with
    | some pos => simp [hl] at h1
    | none =>
      simp only [hl, append_nil_iff] at h1 h2 ⊢
      rcases hv with hv | hv
      · obtain ⟨r, hr, hrep⟩ := rawValue_leaf cfg v vn hv h2.1
        simp only [hr, rawStrsP]
        exact hrep.left
      · have := rawProps_leaf cfg v rest _ hv h1.2 h2.2
        cases (rawValue cfg vn).1 with
        | none => exact this
        | some x => simp only [rawStrsP]; exact this.right
end

/-! ### `include:` / `exclude:` -/

theorem matrixAssigns_leaf (cfg : Cfg) (v : Node) : ∀ (kvs : List KV) (kv : KV), kv ∈ kvs → v ∈ leaves kv.val →
    (matrixAssigns cfg kvs).2 = [] → Rep v ((matrixAssigns cfg kvs).1.flatMap fun p => rawStrs p.2.value)
  | [], _, hk, _, _ => by cases hk
  | x :: rest, kv, hk, hv, h => by
    simp only [matrixAssigns, append_nil_iff] at h ⊢
    rcases List.mem_cons.1 hk with rfl | hk
    · obtain ⟨r, hr, hrep⟩ := rawValue_leaf cfg v kv.val hv h.1
      simp only [hr, List.flatMap_cons]
      exact hrep.left
    · have := matrixAssigns_leaf cfg v rest kv hk hv h.2
      cases (rawValue cfg x.val).1 with
      | none => exact this
      | some y => simp only [List.flatMap_cons]; exact this.right

theorem matrixCombos_leaf (cfg : Cfg) (sec : String) (v : Node) : ∀ (cs : List Node), v ∈ cs.flatMap leaves →
    (matrixCombos cfg sec cs).2 = [] → Rep v ((matrixCombos cfg sec cs).1.flatMap comboStrs)
  | [], hv, _ => by simp at hv
  | c :: cs, hv, h => by
    simp only [List.flatMap_cons, List.mem_append] at hv
    simp only [matrixCombos] at h ⊢
    split at h
    · rename_i hk
      simp only [hk, ↓reduceIte]
      simp only [append_nil_iff] at h
      have he := parseExpression_clean _ _ h.1
      simp only [he, List.flatMap_cons]
      rcases hv with hv | hv
      · rw [leaves_scalar c hk, List.mem_singleton] at hv
        subst hv
        exact Rep.left (by simp only [comboStrs]; exact Rep.newString _)
      · exact (matrixCombos_leaf cfg sec v cs hv h.2).right
    · rename_i hk
      simp only [hk, ↓reduceIte, List.flatMap_cons]
      simp only [append_nil_iff] at h
      rcases hv with hv | hv
      · refine Rep.left ?_
        simp only [comboStrs, Option.getD_some]
        obtain ⟨kv, hkv, k, _, hvk⟩ := mapScalars_clean cfg _ c false false _ v (leaves_mapScalars cfg _ c false v hv h.1.1) h.1.1
        exact matrixAssigns_leaf cfg v _ kv hkv hvk h.1.2
      · exact (matrixCombos_leaf cfg sec v cs hv h.2).right

theorem parseMatrixCombinations_leaf (cfg : Cfg) (sec : String) (n : Node) (v : Node) (hv : v ∈ leaves n)
    (h : (parseMatrixCombinations cfg sec n).2 = []) : Rep v (combosStrs (parseMatrixCombinations cfg sec n).1) := by
  simp only [parseMatrixCombinations] at h ⊢
  split at h
  · rename_i hk
    simp only [hk, ↓reduceIte]
    rw [leaves_scalar n hk, List.mem_singleton] at hv
    subst hv
    simp only [combosStrs, parseExpression_clean _ _ h]
    exact Rep.newString _
  · rename_i hk
    simp only [hk, ↓reduceIte]
    split at h
    · rename_i hc
      have := checkSequence_clean sec n false h
      simp [this.2] at hc
    · rename_i hc
      simp only [hc]
      simp only [append_nil_iff] at h
      have hs := (checkSequence_clean sec n false h.1).1
      rw [leaves_sequence n hs] at hv
      simp only [Bool.false_eq_true, ↓reduceIte, combosStrs, Option.getD_some]
      exact matrixCombos_leaf cfg sec v _ hv h.2

/-! ### the rows -/

theorem mem_setAssoc_self {β : Type} (k : String) (x : β) : ∀ (l : List (String × β)), (k, x) ∈ setAssoc k x l
  | [] => by simp [setAssoc]
  | (k', x') :: rest => by
    simp only [setAssoc]
    split
    · exact List.mem_cons_self ..
    · exact List.mem_cons_of_mem _ (mem_setAssoc_self k x rest)

theorem mem_setAssoc_of_ne {β : Type} (k k' : String) (x y : β) (hne : k' ≠ k) : ∀ (l : List (String × β)),
    (k, y) ∈ l → (k, y) ∈ setAssoc k' x l
  | [], h => by cases h
  | (k'', x'') :: rest, h => by
    simp only [setAssoc]
    rcases List.mem_cons.1 h with e | h
    · cases e
      rw [if_neg (fun e => hne e.symm)]
      exact List.mem_cons_self ..
    · split
      · exact List.mem_cons_of_mem _ h
      · exact List.mem_cons_of_mem _ (mem_setAssoc_of_ne k k' x y hne rest h)

/-- the strings the `matrix` loop holds under a (lower-cased) key -/
def matrixK (k : String) (st : Matrix) : List Str :=
  match k with
  | "include" => combosStrs st.incl
  | "exclude" => combosStrs st.excl
  | _ => ((st.rows.getD []).filter fun p => p.1 = k).flatMap fun p => rowStrs p.2

theorem rows_pres (k k' : String) (r : MatrixRow) (l : List (String × MatrixRow)) (hne : k' ≠ k) (s : Str)
    (hs : s ∈ (l.filter fun p => p.1 = k).flatMap fun p => rowStrs p.2) :
    s ∈ ((setAssoc k' r l).filter fun p => p.1 = k).flatMap fun p => rowStrs p.2 := by
  simp only [List.mem_flatMap, List.mem_filter, decide_eq_true_eq] at hs ⊢
  obtain ⟨p, ⟨hp, hk⟩, hs⟩ := hs
  obtain ⟨pk, pr⟩ := p
  simp only at hk
  subst hk
  exact ⟨(pk, pr), ⟨mem_setAssoc_of_ne _ _ _ _ hne _ hp, rfl⟩, hs⟩

theorem matrixK_pres (cfg : Cfg) (k : String) (st : Matrix) (kv : KV) (hne : kv.id ≠ k) :
    ∀ s ∈ matrixK k st, s ∈ matrixK k (matrixKey cfg st kv).1 := by
  intro s hs
  simp only [matrixKey]
  split
  all_goals (simp only [matrixK] at hs ⊢; split at hs)
  all_goals first | exact hs | exact absurd ‹kv.id = _› hne | skip
  · split
    · exact hs
    · split <;> exact hs
  · split
    · exact hs
    · split <;> exact hs
  · split
    · exact rows_pres _ _ _ _ hne s hs
    · split
      · exact hs
      · exact rows_pres _ _ _ _ hne s hs

theorem matrixKey_expr (cfg : Cfg) (st : Matrix) (kv : KV) : (matrixKey cfg st kv).1.expr = st.expr := by
  simp only [matrixKey]
  split
  · rfl
  · rfl
  · split
    · rfl
    · split <;> rfl

theorem matrixK_sub (k : String) (st : Matrix) (he : st.expr = none) : ∀ s ∈ matrixK k st, s ∈ matrixStrs st := by
  intro s hs
  simp only [matrixK] at hs
  simp only [matrixStrs, he, List.mem_append]
  split at hs
  · exact Or.inr hs
  · exact Or.inl (Or.inl hs)
  · refine Or.inl (Or.inr ?_)
    simp only [List.mem_flatMap, List.mem_filter] at hs ⊢
    obtain ⟨p, ⟨hp, _⟩, hs⟩ := hs
    exact ⟨p, hp, hs⟩

theorem matrixKey_store (cfg : Cfg) (st : Matrix) (kv : KV) (v : Node) (hv : v ∈ leaves kv.val)
    (hc : (matrixKey cfg st kv).2 = []) : Rep v (matrixK kv.id (matrixKey cfg st kv).1) := by
  revert hc
  simp only [matrixKey]
  split
  next h => intro hc; simp only [h, matrixK]; exact parseMatrixCombinations_leaf cfg _ _ v hv hc
  next h => intro hc; simp only [h, matrixK]; exact parseMatrixCombinations_leaf cfg _ _ v hv hc
  next h1 h2 =>
    have hK : ∀ st, matrixK kv.id st = ((st.rows.getD []).filter fun p => p.1 = kv.id).flatMap fun p => rowStrs p.2 := by
      intro st
      simp only [matrixK]
      try (split <;> first | exact absurd ‹kv.id = _› h1 | exact absurd ‹kv.id = _› h2 | rfl)
    rw [hK]
    split
    · rename_i hk
      intro hc
      rw [leaves_scalar _ hk, List.mem_singleton] at hv
      subst hv
      refine Rep.flatMap (a := (kv.id, _)) (List.mem_filter.2 ⟨mem_setAssoc_self _ _ _, by simp⟩) ?_
      simp only [rowStrs, parseExpression_clean _ _ hc]
      exact Rep.newString _
    · rename_i hk
      split
      · rename_i hcs
        intro hc
        have := checkSequence_clean "matrix values" kv.val false hc
        simp [this.2] at hcs
      · intro hc
        simp only [append_nil_iff] at hc
        have hs := (checkSequence_clean "matrix values" kv.val false hc.1).1
        rw [leaves_sequence _ hs, ← leavesSeq_eq] at hv
        refine Rep.flatMap (a := (kv.id, _)) (List.mem_filter.2 ⟨mem_setAssoc_self _ _ _, by simp⟩) ?_
        simp only [rowStrs, Option.getD_some]
        exact rawSeq_leaf cfg v _ hv hc.2

theorem parseMatrix_leaf (cfg : Cfg) (pos : Yaml.Pos) (n : Node) (v : Node) (hv : v ∈ leaves n)
    (h : (parseMatrix cfg pos n).2 = []) : Rep v (matrixStrs (parseMatrix cfg pos n).1) := by
  simp only [parseMatrix, parseSectionMapping] at h ⊢
  split at h
  · rename_i hk
    simp only [hk, ↓reduceIte]
    rw [leaves_scalar n hk, List.mem_singleton] at hv
    subst hv
    simp only [matrixStrs, parseExpression_clean _ _ h]
    exact Rep.newString _
  · rename_i hk
    simp only [hk, ↓reduceIte]
    simp only [append_nil_iff] at h
    obtain ⟨k, hk⟩ := sect_leaves cfg _ n false (matrixKey cfg) _ v hv matrixK h.1 h.2
      (fun kv st hvk hc => matrixKey_store cfg st kv v hvk hc) (matrixK_pres cfg)
    refine hk.mono (matrixK_sub k _ ?_)
    exact loop_inv (matrixKey cfg) (fun st => st.expr = none) (fun st kv h => by rw [matrixKey_expr]; exact h) _ _ rfl

/-! ### `strategy:` -/

/-- every value string below `strategy:` — `matrixOfStrs` and `strategyStrs` of the job together -/
def strategyAllStrs (s : Strategy) : List Str :=
  (match s.matrix with | some m => matrixStrs m | none => []) ++ boolStrs s.failFast ++ intStrs s.maxParallel

def strategyK (k : String) (st : Strategy) : List Str :=
  match k with
  | "matrix" => (match st.matrix with | some m => matrixStrs m | none => [])
  | "fail-fast" => boolStrs st.failFast
  | "max-parallel" => intStrs st.maxParallel
  | _ => []

theorem strategyK_pres (cfg : Cfg) (k : String) (st : Strategy) (kv : KV) (hne : kv.id ≠ k) :
    ∀ s ∈ strategyK k st, s ∈ strategyK k (strategyKey cfg st kv).1 := by
  intro s hs
  simp only [strategyKey]
  split
  all_goals (simp only [strategyK] at hs ⊢; split at hs)
  all_goals first | exact hs | exact absurd ‹kv.id = _› hne

theorem strategyK_sub (k : String) (st : Strategy) : ∀ s ∈ strategyK k st, s ∈ strategyAllStrs st := by
  intro s hs
  simp only [strategyK] at hs
  simp only [strategyAllStrs, List.mem_append]
  split at hs
  · exact Or.inl (Or.inl hs)
  · exact Or.inl (Or.inr hs)
  · exact Or.inr hs
  · cases hs

theorem strategyKey_store (cfg : Cfg) (st : Strategy) (kv : KV) (v : Node) (hv : v ∈ strategyKeyScalars kv.id kv.val)
    (hc : (strategyKey cfg st kv).2 = []) : Rep v (strategyK kv.id (strategyKey cfg st kv).1) := by
  revert hc
  simp only [strategyKey]
  split
  next h => intro hc; simp only [h, strategyKeyScalars] at hv; simp only [h, strategyK]; exact parseMatrix_leaf cfg _ _ v hv hc
  next h => intro hc; simp only [h, strategyKeyScalars] at hv; simp only [h, strategyK]; exact parseBool_leaf _ v hv hc
  next h => intro hc; simp only [h, strategyKeyScalars] at hv; simp only [h, strategyK]; exact parseMaxParallel_leaf cfg _ v hv hc
  next => intro hc; simp at hc

theorem parseStrategy_leaf (cfg : Cfg) (pos : Yaml.Pos) (n : Node) (v : Node) (hv : v ∈ strategyScalars n)
    (h : (parseStrategy cfg pos n).2 = []) : Rep v (strategyAllStrs (parseStrategy cfg pos n).1) := by
  simp only [parseStrategy, parseSectionMapping, append_nil_iff] at h ⊢
  obtain ⟨k, hk⟩ := sect_K cfg _ n false true (strategyKey cfg) _ strategyKeyScalars v hv strategyK h.1 h.2
    (by
      intro kv k st hid hvk hc
      have := hid rfl
      subst this
      exact strategyKey_store cfg st kv v hvk hc)
    (strategyK_pres cfg)
  exact hk.mono (strategyK_sub k _)

end AL.C03P
