import AL.Model.Rules
import AL.Props.C17
import AL.Props.C09Cron
/-
  AL.Props.C17Doc, the AST side: `AL.Rules.ruleGlob` as ONE equation over the filter patterns of the workflow
  (`patternsOf`), the validator's verdict per pattern (`reports`), the language a pattern is judged by (`InLang` /
  `InLangLoose`: `AL.Spec.ValidGlob` / `ValidGlobLoose` + the blank rule of path filters), the characters of a Lean string as
  the validator sees them (`symsOf`: every character at least one byte wide).
-/
namespace AL.C17D
open AL AL.Rules AL.Yaml AL.Ast AL.Glob AL.Spec

/-- the two syntaxes: `branches` / `branches-ignore` / `tags` / `tags-ignore` are Git ref patterns, `paths` /
`paths-ignore` file path patterns -/
inductive Kind where | ref | path
deriving DecidableEq, Repr

/-- the validator of a kind: `ValidateRefGlob` / `ValidatePathGlob` -/
def validateK : Kind → List Sym → List GErr
  | .ref => validateRef
  | .path => validatePath

/-- the six filters of a webhook event with their kinds, in the order rule_glob.go checks them -/
def filtersOf (h : WebhookEvent) : List (Option Filter × Kind) :=
  [(h.branches, .ref), (h.branchesIgnore, .ref), (h.tags, .ref), (h.tagsIgnore, .ref), (h.paths, .path), (h.pathsIgnore, .path)]

/-- the pattern strings of a filter (none when the key is absent or its value was refused by the parser) -/
def filterStrs (f : Option Filter) : List Str :=
  match f with
  | some f => f.values.getD []
  | none => []

/-- the pattern strings of an event with their kinds: only webhook events have any -/
def eventPatterns : Event → List (Str × Kind)
  | .webhook h => (filtersOf h).flatMap fun fk => (filterStrs fk.1).map fun s => (s, fk.2)
  | _ => []

/-- **all filter patterns of a workflow**, in the order of `on:` -/
def patternsOf (w : Workflow) : List (Str × Kind) := (w.on.getD []).flatMap eventPatterns

/-- the diagnostic for one message of the validator about the pattern `s`: on the line of `s`, at the column of `s` + 1 for
an opening quote + (the validator's column - 1) — truncated subtraction: the validator's column 0 (used after a line break, and
by the leading-blank report) counts like column 1 -/
def diagAt (s : Str) (e : GErr) : Diag :=
  ⟨⟨s.pos.line, s.pos.col + (if s.quoted then 1 else 0) + (e.col - 1)⟩, "glob", "glob", [globCode e.msg]⟩

/-- **what rule glob says about one pattern**: nothing about the empty string (the parser has reported it:
`string-empty`), otherwise one diagnostic per message of the validator. Nothing else is skipped: a pattern with a
`${{ }}` placeholder is validated like any other text. -/
def reports (k : Kind) (s : Str) : List Diag :=
  if s.value = "" then [] else (validateK k (symsOf s.value)).map (diagAt s)

theorem globErrors_eq (errs : List GErr) (v : Str) : globErrors errs v = errs.map (diagAt v) := by
  unfold globErrors
  apply List.map_congr_left
  intro e _
  simp only [diagAt]
  by_cases h : e.col = 0
  · simp [h]
  · simp [h]

theorem checkGlobs_ref (f : Option Filter) : checkGlobs true f = (filterStrs f).flatMap (reports .ref) := by
  unfold checkGlobs filterStrs
  cases f with
  | none => rfl
  | some f =>
    simp only [globErrors_eq]
    rfl

theorem checkGlobs_path (f : Option Filter) : checkGlobs false f = (filterStrs f).flatMap (reports .path) := by
  unfold checkGlobs filterStrs
  cases f with
  | none => rfl
  | some f =>
    simp only [globErrors_eq]
    rfl

theorem flatMap_map_pair {α β γ : Type} (l : List α) (b : β) (g : α × β → List γ) :
    (l.map fun a => (a, b)).flatMap g = l.flatMap fun a => g (a, b) := by
  induction l with
  | nil => rfl
  | cons x rest ih => simp [List.flatMap_cons, ih]

theorem event_diags (e : Event) :
    (match e with
      | .webhook h =>
        checkGlobs true h.branches ++ checkGlobs true h.branchesIgnore ++ checkGlobs true h.tags ++ checkGlobs true h.tagsIgnore ++
        checkGlobs false h.paths ++ checkGlobs false h.pathsIgnore
      | _ => []) = (eventPatterns e).flatMap fun p => reports p.2 p.1 := by
  cases e with
  | webhook h =>
    simp only [eventPatterns, filtersOf, List.flatMap_cons, List.flatMap_nil, List.append_nil, List.flatMap_append,
      flatMap_map_pair, checkGlobs_ref, checkGlobs_path, List.append_assoc]
  | _ => rfl

theorem flatMap_flatMap' {α β γ : Type} (l : List α) (f : α → List β) (g : β → List γ) :
    (l.flatMap f).flatMap g = l.flatMap fun a => (f a).flatMap g := by
  induction l with
  | nil => rfl
  | cons x rest ih => simp [List.flatMap_cons, List.flatMap_append, ih]

/-- **rule glob, exactly**: the diagnostics are, pattern by pattern in the order of `on:`, what `reports` says -/
theorem ruleGlob_eq (w : Workflow) : ruleGlob w = (patternsOf w).flatMap fun p => reports p.2 p.1 := by
  unfold ruleGlob patternsOf
  rw [flatMap_flatMap']
  apply AL.C09C.flatMap_congr'
  intro e _
  exact event_diags e

/-! ### the characters of a string -/

theorem decodeOne_w {bs : List Nat} {s : Sym} {rest : List Nat} (h : decodeOne bs = some (s, rest)) : 0 < s.w := by
  unfold decodeOne at h
  split at h
  · simp at h
  · simp only at h
    repeat' split at h
    all_goals (simp only [Option.some.injEq, Prod.mk.injEq] at h; obtain ⟨rfl, _⟩ := h; simp)

theorem decodeUtf8_nil : decodeUtf8 [] = [] := by
  rw [decodeUtf8]; simp [decodeOne]

theorem decodeUtf8_step {bs : List Nat} {s : Sym} {rest : List Nat} (h : decodeOne bs = some (s, rest)) :
    decodeUtf8 bs = s :: decodeUtf8 rest := by
  rw [decodeUtf8]
  split
  · rename_i h'; rw [h] at h'; cases h'
  · rename_i s' rest' h'
    rw [h] at h'
    simp only [Option.some.injEq, Prod.mk.injEq] at h'
    obtain ⟨rfl, rfl⟩ := h'
    rfl

theorem decodeUtf8_w : ∀ (n : Nat) (bs : List Nat), bs.length ≤ n → ∀ c ∈ decodeUtf8 bs, 0 < c.w
  | 0, bs, hn, c, hc => by
    have : bs = [] := List.length_eq_zero_iff.mp (by omega)
    subst this
    rw [decodeUtf8_nil] at hc
    cases hc
  | n + 1, bs, hn, c, hc => by
    cases hd : decodeOne bs with
    | none =>
      have : decodeUtf8 bs = [] := by
        rw [decodeUtf8]; split
        · rfl
        · rename_i h'; rw [hd] at h'; cases h'
      rw [this] at hc
      cases hc
    | some p =>
      obtain ⟨s, rest⟩ := p
      rw [decodeUtf8_step hd] at hc
      rcases List.mem_cons.1 hc with rfl | hc
      · exact decodeOne_w hd
      · have := decodeOne_shorter hd
        exact decodeUtf8_w n rest (by omega) c hc

/-- every character of a string, as the validator reads it, occupies at least one byte -/
theorem symsOf_posW (s : String) : PosW (symsOf s) := fun c hc => decodeUtf8_w _ _ (Nat.le_refl _) c hc

theorem symsOf_empty : symsOf "" = [] := by
  unfold symsOf
  have : "".toUTF8.toList = [] := by simp
  rw [this]
  exact decodeUtf8_nil

/-! ### the language -/

/-- **the documented language of a kind**: `AL.Spec.ValidGlob` (filter-pattern cheat sheet + `git check-ref-format`), for a
path filter also no blank at either end -/
def InLang : Kind → List Sym → Prop
  | .ref, src => ValidGlob true src
  | .path, src => src.head?.map (·.r) ≠ some 32 ∧ src.getLast?.map (·.r) ≠ some 32 ∧ ValidGlob false src

/-- the same with unchecked members of `[...]` (`AL.Spec.ValidGlobLoose`): what the validator decides (`AL.C17`) -/
def InLangLoose : Kind → List Sym → Prop
  | .ref, src => ValidGlobLoose true src
  | .path, src => src.head?.map (·.r) ≠ some 32 ∧ src.getLast?.map (·.r) ≠ some 32 ∧ ValidGlobLoose false src

theorem inLang_loosen {k : Kind} {src : List Sym} (h : InLang k src) : InLangLoose k src := by
  cases k with
  | ref => exact validGlob_loosen h
  | path => exact ⟨h.1, h.2.1, validGlob_loosen h.2.2⟩

theorem validateK_nil_iff (k : Kind) (src : List Sym) (hb : NoBOM src) : validateK k src = [] ↔ InLangLoose k src := by
  cases k with
  | ref => exact AL.C17.validateRef_iff_partial src hb
  | path => exact AL.C17.validatePath_iff_partial src hb

/-- the empty string is in neither language -/
theorem empty_not_inLangLoose (k : Kind) : ¬ InLangLoose k [] := by
  cases k with
  | ref => intro h; exact h.2.1 rfl
  | path => intro h; exact h.2.2.2.1 rfl

end AL.C17D
