import AL.Props.C09Cron
/-
  Lemmas for AL.Props.C14Doc, part 8: every diagnostic of rule `events` has the kind "events" (the other rules: AL.C09C.kind_*),
  hence: a "workflow-call" diagnostic of the project linter's output comes from rule_workflow_call.go, an "action" diagnostic
  from rule_action.go.
-/
namespace AL.C14D
open AL.Rules AL.Yaml AL.Ast AL.C09C

/-- close a goal `d.kind = "events"` from `h : d ∈ [⟨…⟩]` or `h : d ∈ []` -/
macro "kd " h:ident : tactic =>
  `(tactic| first | (simp at $h:ident; done) | (simp at $h:ident; subst $h:ident; rfl) | (simp at $h:ident; rcases $h:ident with rfl | rfl <;> rfl))

theorem kind_exclusive (f i : Option Filter) (hook : String) (av : List String) : KindIs "events" (exclusiveFilters f i hook av) := by
  intro d hd
  unfold exclusiveFilters at hd
  split at hd
  · split at hd
    · split at hd
      · kd hd
      · kd hd
    · kd hd
  · rcases List.mem_append.1 hd with h | h
    · split at h
      · split at h
        · kd h
        · kd h
      · kd h
    · split at h
      · split at h
        · kd h
        · kd h
      · kd h

theorem kind_webhook (e : WebhookEvent) : KindIs "events" (checkWebhookEvent e) := by
  unfold checkWebhookEvent
  simp only []
  split
  · intro d hd; kd hd
  · refine kindIs_append (kindIs_append (kindIs_append (kindIs_append ?_ ?_) (kind_exclusive _ _ _ _)) (kind_exclusive _ _ _ _)) (kind_exclusive _ _ _ _)
    · intro d hd
      split at hd
      · kd hd
      · obtain ⟨ty, -, hd⟩ := List.mem_flatMap.1 hd
        split at hd
        · kd hd
        · kd hd
    · intro d hd
      split at hd
      · split at hd
        · kd hd
        · kd hd
      · split at hd
        · kd hd
        · kd hd

theorem kind_callEvent (lower : String → String) (isNum : String → Bool) (inputs : List CallInput) :
    KindIs "events" (checkCallEvent lower isNum inputs) := by
  unfold checkCallEvent
  apply kindIs_flatMap
  intro i _ d hd
  split at hd
  · kd hd
  · rcases List.mem_append.1 hd with h | h
    · split at h
      · split at h
        · split at h
          · kd h
          · kd h
        · split at h
          · kd h
          · kd h
        · kd h
      · kd h
    · have := mem_ite h
      subst this
      rfl

theorem kind_dupOptions : ∀ (opts : List Str) (seen : List String), ∀ d ∈ (dupOptions opts seen).1, d.kind = "events"
  | [], _ => by intro d hd; simp [dupOptions] at hd
  | o :: rest, seen => by
    intro d hd
    unfold dupOptions at hd
    split at hd
    · simp only [List.mem_cons] at hd
      rcases hd with rfl | hd
      · rfl
      · exact kind_dupOptions rest seen d hd
    · exact kind_dupOptions rest _ d hd

theorem kind_dispatch (lower : String → String) (isNum : String → Bool) (inputs : List (String × DispatchInput)) (pos : AL.Rules.Pos) :
    KindIs "events" (checkDispatchEvent lower isNum inputs pos) := by
  unfold checkDispatchEvent
  refine kindIs_append (kindIs_flatMap ?_) ?_
  · intro kv _ d hd
    simp only [] at hd
    split at hd
    · split at hd
      · kd hd
      · rcases List.mem_append.1 hd with h | h
        · obtain ⟨x, hx, rfl⟩ := List.mem_map.1 h
          exact kind_dupOptions _ _ x hx
        · split at h
          · split at h
            · kd h
            · kd h
          · kd h
    · rcases List.mem_append.1 hd with h | h
      · have := mem_ite h
        subst this
        rfl
      · split at h
        · split at h
          · split at h
            · kd h
            · kd h
          · split at h
            · kd h
            · kd h
          · kd h
        · kd h
  · intro d hd
    have := mem_ite hd
    subst this
    rfl

theorem kind_cronEntry (zk : List Char → Bool) (s : Str) : KindIs "events" (cronEntry zk s) := by
  intro d hd
  unfold cronEntry at hd
  split at hd
  · obtain ⟨x, _, rfl⟩ := List.mem_map.1 hd
    cases x <;> rfl
  · cases hd

theorem kind_events (lower : String → String) (isNum : String → Bool) (w : Workflow) (lc : LabelCfg) :
    KindIs "events" (ruleEvents lower isNum w lc) := by
  unfold ruleEvents
  apply kindIs_flatMap
  intro e _
  split
  · exact kind_webhook _
  · unfold checkScheduleEvent
    exact kindIs_flatMap fun s _ => kind_cronEntry _ s
  · exact kind_dispatch _ _ _ _
  · exact kind_callEvent _ _ _
  · exact kindIs_nil

/-- **a diagnostic of the kind "workflow-call" among all rules' is rule workflow-call's** -/
theorem rules_workflowCall (lower : String → String) (isNum urlOk : String → Bool) (w : Workflow) (lc : LabelCfg) (d : Diag)
    (hd : d ∈ rules lower isNum urlOk w lc) (hk : d.kind = "workflow-call") : d ∈ ruleWorkflowCall w := by
  unfold rules at hd
  simp only [List.mem_append] at hd
  have no : ∀ {k : String} {l : List Diag}, KindIs k l → k ≠ "workflow-call" → d ∈ l → False :=
    fun h hne hm => hne ((h d hm).symm.trans hk)
  rcases hd with ((((((((((((h | h) | h) | h) | h) | h) | h) | h) | h) | h) | h) | h) | h) | h
  · exact (no (kind_matrix w) (by decide) h).elim
  · exact (no (kind_credentials w) (by decide) h).elim
  · exact (no (kind_shellName lower w) (by decide) h).elim
  · exact (no (kind_runnerLabel lower w lc) (by decide) h).elim
  · exact (no (kind_events lower isNum w lc) (by decide) h).elim
  · exact (no (kind_jobNeeds lower w) (by decide) h).elim
  · exact (no (kind_action urlOk w) (by decide) h).elim
  · exact (no (kind_envVar w) (by decide) h).elim
  · exact (no (kind_id lower w) (by decide) h).elim
  · exact (no (kind_glob w) (by decide) h).elim
  · exact (no (kind_permissions w) (by decide) h).elim
  · exact h
  · exact (no (kind_deprecated w) (by decide) h).elim
  · exact (no (kind_ifCond w) (by decide) h).elim

/-- **… of the kind "action": rule action's** -/
theorem rules_action (lower : String → String) (isNum urlOk : String → Bool) (w : Workflow) (lc : LabelCfg) (d : Diag)
    (hd : d ∈ rules lower isNum urlOk w lc) (hk : d.kind = "action") : d ∈ ruleAction urlOk w := by
  unfold rules at hd
  simp only [List.mem_append] at hd
  have no : ∀ {k : String} {l : List Diag}, KindIs k l → k ≠ "action" → d ∈ l → False :=
    fun h hne hm => hne ((h d hm).symm.trans hk)
  rcases hd with ((((((((((((h | h) | h) | h) | h) | h) | h) | h) | h) | h) | h) | h) | h) | h
  · exact (no (kind_matrix w) (by decide) h).elim
  · exact (no (kind_credentials w) (by decide) h).elim
  · exact (no (kind_shellName lower w) (by decide) h).elim
  · exact (no (kind_runnerLabel lower w lc) (by decide) h).elim
  · exact (no (kind_events lower isNum w lc) (by decide) h).elim
  · exact (no (kind_jobNeeds lower w) (by decide) h).elim
  · exact h
  · exact (no (kind_envVar w) (by decide) h).elim
  · exact (no (kind_id lower w) (by decide) h).elim
  · exact (no (kind_glob w) (by decide) h).elim
  · exact (no (kind_permissions w) (by decide) h).elim
  · exact (no (kind_workflowCall w) (by decide) h).elim
  · exact (no (kind_deprecated w) (by decide) h).elim
  · exact (no (kind_ifCond w) (by decide) h).elim

/-- the only diagnostic rule workflow-call gives without a project is the format one -/
theorem workflowCall_code (w : Workflow) : ∀ d ∈ ruleWorkflowCall w, d.code = "call-format" := by
  intro d hd
  unfold ruleWorkflowCall at hd
  obtain ⟨j, _, hd⟩ := List.mem_flatMap.1 hd
  unfold workflowCallJob at hd
  split at hd
  · cases hd
  · split at hd
    · cases hd
    · split at hd
      · cases hd
      · split at hd
        · cases hd
        · split at hd
          · cases hd
          · simp only [List.mem_singleton] at hd; subst hd; rfl

/-- **the output of the project linter**, member by member -/
theorem mem_projLint (cfg : AL.PW.Cfg) (isNum urlOk : String → Bool) (env : AL.ProjLint.Env) (doc : Node) (d : Diag) :
    d ∈ AL.ProjLint.lint cfg isNum urlOk env doc ↔
      d ∈ (AL.PW.parse cfg doc).2.map ofPErr ∨ d ∈ rules cfg.lower isNum urlOk (AL.PW.parse cfg doc).1 env.labels ∨
      d ∈ AL.ProjCall.wcRule env.calls cfg.lower (AL.PW.parse cfg doc).1 ∨
      d ∈ (AL.ProjAction.simulate env.actions (AL.PW.parse cfg doc).1).action := by
  unfold AL.ProjLint.lint
  simp only [(AL.C09R.stableSort_perm _).mem_iff, List.mem_append, or_assoc]

/-- a "workflow-call" diagnostic of the output other than the format one comes from the project part of the rule -/
theorem projLint_workflowCall (cfg : AL.PW.Cfg) (isNum urlOk : String → Bool) (env : AL.ProjLint.Env) (doc : Node) (d : Diag)
    (hd : d ∈ AL.ProjLint.lint cfg isNum urlOk env doc) (hk : d.kind = "workflow-call") (hc : d.code ≠ "call-format") :
    d ∈ AL.ProjCall.wcRule env.calls cfg.lower (AL.PW.parse cfg doc).1 := by
  rcases (mem_projLint cfg isNum urlOk env doc d).1 hd with h | h | h | h
  · obtain ⟨e, _, rfl⟩ := List.mem_map.1 h
    simp [ofPErr] at hk
  · exact absurd (workflowCall_code _ d (rules_workflowCall _ _ _ _ _ d h hk)) hc
  · exact h
  · have := kind_projAction env.actions (AL.PW.parse cfg doc).1 d h
    rw [this] at hk
    exact absurd hk (by decide)

/-- an "action" diagnostic of the output comes from rule action: its project-independent part or the local-action part -/
theorem projLint_action (cfg : AL.PW.Cfg) (isNum urlOk : String → Bool) (env : AL.ProjLint.Env) (doc : Node) (d : Diag)
    (hd : d ∈ AL.ProjLint.lint cfg isNum urlOk env doc) (hk : d.kind = "action") :
    d ∈ ruleAction urlOk (AL.PW.parse cfg doc).1 ∨ d ∈ (AL.ProjAction.simulate env.actions (AL.PW.parse cfg doc).1).action := by
  rcases (mem_projLint cfg isNum urlOk env doc d).1 hd with h | h | h | h
  · obtain ⟨e, _, rfl⟩ := List.mem_map.1 h
    simp [ofPErr] at hk
  · exact Or.inl (rules_action _ _ _ _ _ d h hk)
  · have := kind_wcRule env.calls cfg.lower (AL.PW.parse cfg doc).1 d h
    rw [this] at hk
    exact absurd hk (by decide)
  · exact Or.inr h

/-! ### rule action without a project never uses the codes of the local-action check -/

def NotLocal (l : List Diag) : Prop := ∀ d ∈ l, d.code ≠ "local-input-undefined" ∧ d.code ≠ "local-input-missing"

theorem notLocal_nil : NotLocal [] := by intro d hd; cases hd
theorem notLocal_append {a b : List Diag} (ha : NotLocal a) (hb : NotLocal b) : NotLocal (a ++ b) := by
  intro d hd
  rcases List.mem_append.1 hd with h | h
  · exact ha d h
  · exact hb d h
theorem notLocal_flatMap {α} {l : List α} {f : α → List Diag} (h : ∀ x ∈ l, NotLocal (f x)) : NotLocal (l.flatMap f) := by
  intro d hd
  obtain ⟨x, hx, hd⟩ := List.mem_flatMap.1 hd
  exact h x hx d hd
theorem notLocal_mk (p : AL.Rules.Pos) (k c : String) (a : List String) (h1 : c ≠ "local-input-undefined") (h2 : c ≠ "local-input-missing") :
    NotLocal [⟨p, k, c, a⟩] := by
  intro x hx; simp only [List.mem_singleton] at hx; subst hx; exact ⟨h1, h2⟩
theorem notLocal_ite {c : Prop} [Decidable c] {a b : List Diag} (ha : NotLocal a) (hb : NotLocal b) : NotLocal (if c then a else b) := by
  split <;> assumption

theorem notLocal_actionInputs (spec : String) (declared : List (String × String × Bool)) (e : ExecAction) (usesPos : AL.Rules.Pos) :
    NotLocal (checkActionInputs spec declared e usesPos) := by
  unfold checkActionInputs
  simp only []
  apply notLocal_append
  · exact notLocal_flatMap fun kv _ => notLocal_ite notLocal_nil (notLocal_mk _ _ _ _ (by decide) (by decide))
  · apply notLocal_flatMap
    intro id _
    split
    · exact notLocal_ite notLocal_nil (notLocal_mk _ _ _ _ (by decide) (by decide))
    · exact notLocal_nil

theorem notLocal_repoAction (spec : String) (e : ExecAction) (usesPos : AL.Rules.Pos) : NotLocal (checkRepoAction spec e usesPos) := by
  unfold checkRepoAction
  simp only []
  split
  · exact notLocal_mk _ _ _ _ (by decide) (by decide)
  · split
    · exact notLocal_mk _ _ _ _ (by decide) (by decide)
    · apply notLocal_append
      · exact notLocal_ite (notLocal_mk _ _ _ _ (by decide) (by decide)) notLocal_nil
      · split
        · exact notLocal_ite (notLocal_mk _ _ _ _ (by decide) (by decide)) notLocal_nil
        · exact notLocal_ite notLocal_nil (notLocal_actionInputs _ _ _ _)

theorem notLocal_dockerAction (urlOk : String → Bool) (uri : String) (usesPos : AL.Rules.Pos) : NotLocal (checkDockerAction urlOk uri usesPos) := by
  unfold checkDockerAction
  simp only []
  split <;> exact notLocal_append (notLocal_ite notLocal_nil (notLocal_mk _ _ _ _ (by decide) (by decide)))
    (notLocal_ite (notLocal_mk _ _ _ _ (by decide) (by decide)) notLocal_nil)

theorem notLocal_action (urlOk : String → Bool) (w : Workflow) : NotLocal (ruleAction urlOk w) := by
  unfold ruleAction
  apply notLocal_flatMap
  intro j _
  apply notLocal_flatMap
  intro st _
  unfold actionStep
  split
  · split
    · exact notLocal_nil
    · exact notLocal_ite notLocal_nil (notLocal_ite notLocal_nil (notLocal_ite (notLocal_dockerAction _ _ _) (notLocal_repoAction _ _ _)))
  · exact notLocal_nil

/-- a diagnostic of the local-action input check in the output comes from the local-action part of rule action -/
theorem projLint_localInput (cfg : AL.PW.Cfg) (isNum urlOk : String → Bool) (env : AL.ProjLint.Env) (doc : Node) (d : Diag)
    (hd : d ∈ AL.ProjLint.lint cfg isNum urlOk env doc) (hk : d.kind = "action")
    (hc : d.code = "local-input-undefined" ∨ d.code = "local-input-missing") :
    d ∈ (AL.ProjAction.simulate env.actions (AL.PW.parse cfg doc).1).action := by
  rcases projLint_action cfg isNum urlOk env doc d hd hk with h | h
  · have := notLocal_action urlOk _ d h
    rcases hc with hc | hc
    · exact absurd hc this.1
    · exact absurd hc this.2
  · exact h

/-! ### the metadata checks of a local action never use the codes of the input check -/

section Meta
open AL.ProjAction

local macro "nl1" : term => `(notLocal_mk _ _ _ _ (by decide) (by decide))

theorem notLocal_runsFile (env : AL.ProjAction.Env) (file dir prop name : String) (pos : AL.Rules.Pos) :
    NotLocal (runsFile env file dir prop name pos) := by
  unfold runsFile
  exact notLocal_ite notLocal_nil (notLocal_ite notLocal_nil nl1)

theorem notLocal_invalidProps (r : Runs) (ty name dir : String) (props : List String) (pos : AL.Rules.Pos) :
    NotLocal (invalidProps r ty name dir props pos) := by
  unfold invalidProps
  exact notLocal_flatMap fun p _ => notLocal_ite nl1 notLocal_nil

theorem notLocal_jsRuns (env : AL.ProjAction.Env) (r : Runs) (dir name : String) (pos : AL.Rules.Pos) : NotLocal (jsRuns env r dir name pos) := by
  unfold jsRuns
  exact notLocal_append (notLocal_append (notLocal_append (notLocal_append (notLocal_append
    (notLocal_ite nl1 (notLocal_runsFile _ _ _ _ _ _)) (notLocal_runsFile _ _ _ _ _ _)) (notLocal_ite nl1 notLocal_nil)) (notLocal_runsFile _ _ _ _ _ _))
    (notLocal_ite nl1 notLocal_nil)) (notLocal_invalidProps _ _ _ _ _ _)

theorem notLocal_runsDiags (env : AL.ProjAction.Env) (m : ActionMeta) (pos : AL.Rules.Pos) : NotLocal (runsDiags env m pos) := by
  unfold runsDiags
  simp only []
  refine notLocal_ite nl1 ?_
  apply notLocal_ite
  · unfold dockerRuns
    refine notLocal_append (notLocal_append (notLocal_append (notLocal_append ?_ (notLocal_runsFile _ _ _ _ _ _)) (notLocal_runsFile _ _ _ _ _ _))
      (notLocal_runsFile _ _ _ _ _ _)) (notLocal_invalidProps _ _ _ _ _ _)
    exact notLocal_ite nl1 (notLocal_ite (notLocal_append (notLocal_runsFile _ _ _ _ _ _) (notLocal_ite nl1 notLocal_nil)) notLocal_nil)
  · apply notLocal_ite
    · unfold compositeRuns
      exact notLocal_append (notLocal_ite nl1 notLocal_nil) (notLocal_invalidProps _ _ _ _ _ _)
    · exact notLocal_ite (notLocal_jsRuns _ _ _ _ _) (notLocal_append nl1 (notLocal_ite (notLocal_jsRuns _ _ _ _ _) notLocal_nil))

theorem notLocal_metadataDiags (env : AL.ProjAction.Env) (m : ActionMeta) (pos : AL.Rules.Pos) : NotLocal (metadataDiags env m pos) := by
  unfold metadataDiags
  exact notLocal_append (notLocal_append (notLocal_append (notLocal_append (notLocal_ite nl1 notLocal_nil)
    (notLocal_ite nl1 notLocal_nil)) (notLocal_ite nl1 notLocal_nil)) (notLocal_ite nl1 notLocal_nil))
    (notLocal_runsDiags _ _ _)

end Meta

end AL.C14D
