import AL.Props.C16
