import AL.Props.C16
#print axioms AL.C16.roundtrip
#print axioms AL.C16.faithful_of_roundtrip
#print axioms AL.C16.roundtrip_iff
#print axioms AL.C16.fileOk_iff
#print axioms AL.C16.roundtrip'
#print axioms AL.C16.roundtrip_file_counterexample
#print axioms AL.C16.roundtrip_conv'
#print axioms AL.C16.roundtrip_conv_counterexample
#print axioms AL.C16.nondot_rejected
#print axioms AL.C16.linebreak_rejected
#print axioms AL.C16.linebreak_breaks
#print axioms AL.C16.snippet
#print axioms AL.C16.split_lines
