import AL.Props.C19
#print axioms AL.C19.equals_iff
#print axioms AL.C19.equals_iff_same_all
#print axioms AL.C19.equals_symm
#print axioms AL.C19.equals_refl
#print axioms AL.C19.equals_trans
#print axioms AL.C19.equals_trans_all
#print axioms AL.C19.dup_exact
#print axioms AL.C19.dup_exact'
#print axioms AL.C19.dup_count_perm
#print axioms AL.C19.equals_member_perm
#print axioms AL.C19.equals_congr_same
#print axioms AL.C19.subset_member_perm
#print axioms AL.C19.expr_never
#print axioms AL.C19.equals_subset
#print axioms AL.C19.expr_value_matches
#print axioms AL.C19.expr_row_ignored
