import AL.Props.C19
