import AL.Props.C08
#print axioms AL.C08.check_case_insensitive
#print axioms AL.C08.keywords_case_sensitive
#print axioms AL.C08.json_keys_folded
