import AL.Props.C08
