import AL.Props.C06
#print axioms AL.C06.any_assignable
#print axioms AL.C06.assignable_mono_right
#print axioms AL.C06.merge_mono_counterexample
#print axioms AL.C06.merge_mono'
#print axioms AL.C06.merge_mono_needs_wf
#print axioms AL.C06.compare_mono
#print axioms AL.C06.builtin_same_ret
#print axioms AL.C06.builtin_rets_wf
#print axioms AL.C06.builtin_vars_wf
#print axioms AL.C06.cex_accepted
#print axioms AL.C06.cex_rejected
#print axioms AL.C06.mono_counterexample
#print axioms AL.C06.mono'
#print axioms AL.C06.mono_arrSafe
#print axioms AL.C06.mono_needs_wf
#print axioms AL.C06.driver_env_wf
#print axioms AL.C06.events_independent
