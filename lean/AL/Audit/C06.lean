import AL.Props.C06
