import AL.Props.C02
#print axioms AL.C02.ledger_complete
#print axioms AL.C02.classes_known
#print axioms AL.C02.order_independent
#print axioms AL.C02.order_independent_needs_positions
#print axioms AL.C02.files_in_argument_order
