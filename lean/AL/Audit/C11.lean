import AL.Props.C11
#print axioms AL.C11.machine_eq_spec
#print axioms AL.C11.exMiss_fixed
#print axioms AL.C11.exMiss_spec
#print axioms AL.C11.exGhost_fixed
#print axioms AL.C11.exGhost_spec
#print axioms AL.C11.exGhostStar_fixed
#print axioms AL.C11.exGhostStar_spec
#print axioms AL.C11.exGhostIdx_fixed
#print axioms AL.C11.exGhostIdx_spec
#print axioms AL.C11.witnesses_agree
#print axioms AL.C11.no_root_no_report
#print axioms AL.C11.safe_call_silent
#print axioms AL.C11.documented_path_reported'
#print axioms AL.C11.documented_path_reported_counterexample
#print axioms AL.C11.builtin_roots_distinct
#print axioms AL.C11.builtin_leaves_reported
