import AL.Props.C11
