import AL.Props.C07Proj
#print axioms AL.C07P.checkLocal_pos
#print axioms AL.C07P.wcFound_pos
#print axioms AL.C07P.typedInput_pos
#print axioms AL.C07P.metadataDiags_pos
#print axioms AL.C07P.localStep_pos
