import AL.Props.C14Type
#print axioms AL.Props.C14Type.reported_iff
#print axioms AL.Props.C14Type.template_is_string
#print axioms AL.Props.C14Type.bool_never_reported
#print axioms AL.Props.C14Type.any_never_reported
#print axioms AL.Props.C14Type.number_reported_iff
#print axioms AL.Props.C14Type.string_reported_iff
