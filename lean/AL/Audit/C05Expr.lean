import AL.Props.C05Expr
#print axioms AL.C05E.visitStep_scope
#print axioms AL.C05E.visitSteps_prefix
#print axioms AL.C05E.visitSteps_scope
