import AL.Props.C01
#print axioms AL.C01.switches_exhaustive
#print axioms AL.C01.panics_in_ledger
#print axioms AL.C17.step_consumes
#print axioms AL.C04.lex_well_ended
#print axioms AL.C04.fuel_enough'
#print axioms AL.C18.fuel_irrelevant
#print axioms AL.C18.printed_is_cycle
#print axioms AL.C20.sanitize_length
#print axioms AL.C20.progress
