import AL.Props.C02Rules
#print axioms AL.C09R.stableSort_perm
#print axioms AL.C02R.sort_sorted
#print axioms AL.C02R.lint_deterministic
