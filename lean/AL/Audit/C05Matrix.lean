import AL.Props.C05Matrix
#print axioms AL.Props.C05Matrix.literal_matrix_strict
#print axioms AL.Props.C05Matrix.literal_matrix_keys
#print axioms AL.Props.C05Matrix.rows_only_keys
#print axioms AL.Props.C05Matrix.include_expression_open
#print axioms AL.Props.C05Matrix.matrix_expression_open
#print axioms AL.Props.C05Matrix.include_element_any_opens
