import AL.Props.C05Visit
#print axioms AL.Props.C05Visit.steps_scope
#print axioms AL.Props.C05Visit.steps_ids
#print axioms AL.Props.C05Visit.steps_strict
#print axioms AL.Props.C05Visit.needs_exact
#print axioms AL.Props.C05Visit.needs_entry
