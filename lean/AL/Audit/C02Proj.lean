import AL.Props.C02Proj
#print axioms AL.C02P.projLint_sorted
#print axioms AL.C02P.projLint_perm
#print axioms AL.C02P.no_project_adds_nothing_wc
