import AL.Props.C09Visit
#print axioms AL.Props.C09Visit.job_resets
#print axioms AL.Props.C09Visit.jobs_independent
#print axioms AL.Props.C09Visit.job_depends_on_needed_only
#print axioms AL.Props.C09Visit.steps_scope
#print axioms AL.Props.C09Visit.steps_ids
#print axioms AL.Props.C09Visit.steps_strict
#print axioms AL.Props.C09Visit.needs_exact
#print axioms AL.Props.C09Visit.needs_entry
