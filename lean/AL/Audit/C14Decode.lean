import AL.Props.C14Decode
#print axioms AL.C14D.structLoop_inSt
#print axioms AL.C14D.action_input_required_iff
#print axioms AL.C14D.decInputsLoop_spec
#print axioms AL.C14D.action_inputs_end_to_end
#print axioms AL.C14D.call_input_required_iff
