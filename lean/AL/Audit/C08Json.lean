import AL.Props.C08Json
#print axioms AL.Props.C08Json.json_keywords_case_sensitive
#print axioms AL.Props.C08Json.json_string_values_kept
