import AL.Props.C04
