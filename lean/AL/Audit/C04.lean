import AL.Props.C04
#print axioms AL.C04.parse_sound
#print axioms AL.C04.parse_complete
#print axioms AL.C04.parse_iff
#print axioms AL.C04.fuel_enough_counterexample
#print axioms AL.C04.fuel_enough'
#print axioms AL.C04.der_unambiguous
#print axioms AL.C04.precedence
#print axioms AL.C04.exPre_der
