import AL.Props.C08Parse
#print axioms AL.C08P.parseMapping_ids
#print axioms AL.C08P.parseMapping_ids_folded
#print axioms AL.C08P.jobs_keys_folded
#print axioms AL.C08P.env_keys_folded
#print axioms AL.C08P.outputs_keys_folded
#print axioms AL.C08P.callArgs_keys
#print axioms AL.C08P.services_keys_folded
#print axioms AL.C08P.permissions_keys_folded
#print axioms AL.C08P.dispatchInputs_keys_folded
#print axioms AL.C08P.callInputs_ids_folded
#print axioms AL.C08P.rawProps_keys
#print axioms AL.C08P.matrix_rows_keys
