import AL.Props.C15
#print axioms AL.C15.stable_sort_spec
#print axioms AL.C15.stable_sort_key
#print axioms AL.C15.less_tie_iff_key
#print axioms AL.C15.filter_exact
#print axioms AL.C15.filter_exact_needs_file_irrelevance
#print axioms AL.C15.exit_status
#print axioms AL.C15.rel_join
#print axioms AL.C15.matched_path_eq
#print axioms AL.C15.cwd_independent
#print axioms AL.C15.root_relative
#print axioms AL.C15.knows_components
