import AL.Props.C07Rules
#print axioms AL.C09R.validateConvention_pos
#print axioms AL.C09R.idSteps_pos
#print axioms AL.C09R.checkEnv_pos
#print axioms AL.C09R.checkPermissions_pos
#print axioms AL.C09R.checkIfCond_pos
#print axioms AL.C09R.checkCredContainer_pos
#print axioms AL.C09R.globErrors_pos
#print axioms AL.C13P.unexpectedAt_pos
#print axioms AL.C07R.duplicate_at_repetition
#print axioms AL.C07M.checkShellName_pos
#print axioms AL.C07M.verifyRunnerLabel_pos
#print axioms AL.C07M.conflictDiag_pos
#print axioms AL.C07M.checkActionInputs_pos
#print axioms AL.C07M.workflowCallJob_pos
#print axioms AL.C07M.deprecated_pos
