import AL.Props.C12
#print axioms AL.C12.code_eq_docs
#print axioms AL.C12.unknown_key_allows_nothing
#print axioms AL.C12.special_transpose
#print axioms AL.C12.table_names
#print axioms AL.C12.not_allowed_iff
#print axioms AL.C12.special_not_allowed_sound
