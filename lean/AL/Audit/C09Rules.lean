import AL.Props.C09Rules
#print axioms AL.C09R.six_rules_per_job
#print axioms AL.C09R.reorder_jobs
#print axioms AL.C09R.add_job
#print axioms AL.C09R.step_ids_per_job
