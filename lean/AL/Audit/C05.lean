import AL.Props.C05
#print axioms AL.C05.strict_scope_exact
#print axioms AL.C05.open_scope_silent
#print axioms AL.C05.index_same_as_deref
#print axioms AL.C05.nested_scope_exact
