import AL.Props.C04Lex
