import AL.Props.C04Lex
#print axioms AL.C04.lex_spelling_counterexample
#print axioms AL.C04.lex_spelling'
#print axioms AL.C04.lexExpression_spelling
#print axioms AL.C04.lex_well_ended
#print axioms AL.C04.lex_tiles
#print axioms AL.C04.lex_positions
#print axioms AL.C04.lex_offsets
#print axioms AL.C04.lex_complete
#print axioms AL.C04.json_gap
#print axioms AL.C04.json_gap_rejected
#print axioms AL.C04.json_gap_accepted
