import AL.Props.C18
