import AL.Props.C18
#print axioms AL.C18.acyclic_none
#print axioms AL.C18.cyclic_some
#print axioms AL.C18.printed_is_cycle
#print axioms AL.C18.fuel_irrelevant
#print axioms AL.C18.undefined_exact
#print axioms AL.C18.at_most_one
