import AL.Props.C20Shell
#print axioms AL.Props.C20Shell.sc_exact
#print axioms AL.Props.C20Shell.sc_resets
#print axioms AL.Props.C20Shell.py_exact
#print axioms AL.Props.C20Shell.py_resets
#print axioms AL.Props.C20Shell.sc_order_independent
