import AL.Props.C17
#print axioms AL.C17.loop_guard_faithful
#print axioms AL.C17.step_consumes
