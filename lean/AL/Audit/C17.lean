import AL.Props.C17
#print axioms AL.C17.loop_guard_faithful
#print axioms AL.C17.step_consumes
#print axioms AL.C17.ref_implies_path
#print axioms AL.C17.column_le
#print axioms AL.C17.column_le_ref
#print axioms AL.C17.column_le_path
#print axioms AL.C17.trailing_space_col_counterexample
#print axioms AL.C17.named_char
#print axioms AL.C17.named_char_unexpected
#print axioms AL.C17.named_char_invalidRef
#print axioms AL.C17.scan_col_counterexample
