import AL.Props.C14
#print axioms AL.C14.ids_folded
#print axioms AL.C14.live_not_outdated
