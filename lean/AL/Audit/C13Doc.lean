import AL.Props.C13Doc
#print axioms AL.C13D.mappingLoop_value
#print axioms AL.C13D.loop_ext
#print axioms AL.C13D.Sect.value_ext
#print axioms AL.C13D.parseSteps_ext
#print axioms AL.C13D.parseJob_steps_ext
#print axioms AL.C13D.parseJobs_ext
#print axioms AL.C13D.parse_jobs_ext
#print axioms AL.C13D.step_unknown_in_document
#print axioms AL.C13D.job_unknown_in_document
#print axioms AL.C13D.step_duplicate_in_document
