import AL.Props.C20
#print axioms AL.C20.sanitize_length
#print axioms AL.C20.sanitize_pointwise
#print axioms AL.C20.sanitize_first
#print axioms AL.C20.sanitize_idempotent
#print axioms AL.C20.sanitize_unchanged
#print axioms AL.C20.shell_precedence
#print axioms AL.C20.no_silent_drop
#print axioms AL.C20.inv_init
#print axioms AL.C20.inv_step
#print axioms AL.C20.inv_reachable
#print axioms AL.C20.bounded
#print axioms AL.C20.collected
#print axioms AL.C20.no_add_after_wait
#print axioms AL.C20.progress
#print axioms AL.C20.progress_needs_permit
#print axioms AL.C20.can_return
#print axioms AL.C20.shape_reachable
