import AL.Props.C20
