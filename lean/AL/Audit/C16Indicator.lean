import AL.Props.C16Indicator
#print axioms AL.C16I.caret_position
#print axioms AL.C16I.one_caret
#print axioms AL.C16I.underline_stops_at_space
