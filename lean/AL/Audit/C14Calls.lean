import AL.Props.C14Calls
#print axioms AL.C14.undefined_exact
#print axioms AL.C14.missing_exact
#print axioms AL.C14.missing_exact_needs_distinct
#print axioms AL.C14.nothing_else
#print axioms AL.C14.decl_order_irrelevant
#print axioms AL.C14.inherit
#print axioms AL.C14.required
