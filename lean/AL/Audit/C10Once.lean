import AL.Props.C10Once
#print axioms AL.C10O.find_spec
#print axioms AL.C10O.wcJob_T
#print axioms AL.C10O.needsLookups_T
#print axioms AL.C10O.callLookup_T
#print axioms AL.C10O.simulateJobs_T
#print axioms AL.C10O.callee_defect_at_most_once
#print axioms AL.C10O.find_same
#print axioms AL.C10O.simulateJobs_same
#print axioms AL.C10O.prefilled_cache_same_diagnostics
#print axioms AL.C10A.lookup_T
#print axioms AL.C10A.metadata_checked_at_most_once
