import AL.Props.C02Pos
#print axioms AL.Props.C02Pos.irrefl
#print axioms AL.Props.C02Pos.asymm
#print axioms AL.Props.C02Pos.trans
#print axioms AL.Props.C02Pos.total
#print axioms AL.Props.C02Pos.select_order_independent
#print axioms AL.Props.C02Pos.select_is_min
#print axioms AL.Props.C02Pos.sort_order_independent
