import AL.Props.C13
#print axioms AL.C13.key_sets
#print axioms AL.C13.defaults_report
#print axioms AL.C13.case_insensitive_sections
#print axioms AL.C13.unknown_key
#print axioms AL.C13.duplicate_key
