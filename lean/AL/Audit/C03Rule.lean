import AL.Props.C03Rule
#print axioms AL.C03R.every_placeholder_checked
#print axioms AL.C03R.visitJob_bad
#print axioms AL.C03R.visitSteps_bad
#print axioms AL.C03R.checkMatrix_bad
#print axioms AL.C03R.rawTy_bad
#print axioms AL.C03R.visitEvents_bad
#print axioms AL.C03R.checkContainer_bad
#print axioms AL.C03R.checkIfCondition_bad
#print axioms AL.C03R.malformed_open
