import AL.Props.C09Proj
#print axioms AL.C09P.remember_same
#print axioms AL.C09P.wcJob_keeps
#print axioms AL.C09P.jobs_independent
