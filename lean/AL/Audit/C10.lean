import AL.Props.C10
#print axioms AL.C10.sorts_private
#print axioms AL.C10.attribution_by_components
