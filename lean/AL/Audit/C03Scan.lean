import AL.Props.C03Scan
#print axioms AL.Props.C03Scan.first_found
#print axioms AL.Props.C03Scan.none_found
#print axioms AL.Props.C03Scan.fuel_irrelevant
#print axioms AL.Props.C03Scan.resumes
#print axioms AL.Props.C03Scan.stops_at_error
#print axioms AL.Props.C03Scan.single_placeholder
