import AL.Props.C14Proj
#print axioms AL.C14P.undefined_input_iff
#print axioms AL.C14P.required_input_iff
#print axioms AL.C14P.inherit_checks_no_secret
#print axioms AL.C14P.required_secret_iff
#print axioms AL.C14P.typed_input_reported_iff
#print axioms AL.C14P.local_action_undefined_input_iff
#print axioms AL.C14P.local_action_missing_input_iff
#print axioms AL.C14P.wellformed_callee_on_disk
#print axioms AL.C14P.first_call_checks_declared_interface
