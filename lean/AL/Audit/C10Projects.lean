import AL.Props.C10Projects
#print axioms AL.Props.C10Projects.found_is_root_above
#print axioms AL.Props.C10Projects.found_is_innermost
#print axioms AL.Props.C10Projects.none_iff
#print axioms AL.Props.C10Projects.at_history_independent
#print axioms AL.Props.C10Projects.atAll_pointwise
#print axioms AL.Props.C10Projects.cache_nodup
