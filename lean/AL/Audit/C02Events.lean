import AL.Props.C02Events
#print axioms AL.Props.C02Events.dispatch_order_diags
#print axioms AL.Props.C02Events.dispatch_order_type
#print axioms AL.Props.C02Events.dispatch_strings_see_old_header
#print axioms AL.Props.C02Events.call_default_scope
