import AL.Props.C09Expr
#print axioms AL.C09E.needsTy_congr
#print axioms AL.C09E.job_depends_on_needed_only
#print axioms AL.C09E.job_without_needs_alone
#print axioms AL.C09E.rule_is_per_job
