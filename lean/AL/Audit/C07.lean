import AL.Props.C07
#print axioms AL.C07.offsets_after_marker
#print axioms AL.C07.offsets_increasing
#print axioms AL.C07.exact_column
#print axioms AL.C07.shift
#print axioms AL.C07.prefix_shift
#print axioms AL.C07.glob_column
