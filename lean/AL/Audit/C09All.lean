import AL.Props.C09All
#print axioms AL.C09A.count_per_job
#print axioms AL.C09A.rules_per_job
#print axioms AL.C09A.reorder_jobs
