import AL.Props.C10Meta
#print axioms AL.C10M.struct_sync
#print axioms AL.C10M.input_entry
#print axioms AL.C10M.secret_entry
#print axioms AL.C10M.interface_agrees
#print axioms AL.C10M.placeholder_counterexample
#print axioms AL.C10M.saneB_sound
#print axioms AL.C10M.noPlaceholderB_sound
#print axioms AL.C10M.interface_agrees_checked
#print axioms AL.C10M.events_sync
#print axioms AL.C10M.on_interface_agrees
#print axioms AL.C10M.on_interface_agrees'
#print axioms AL.C10M.document_interface_agrees
#print axioms AL.C10M.document_interface_agrees_checked
