import AL.Props.C12Visit
#print axioms AL.Props.C12Visit.probe_env_row
#print axioms AL.Props.C12Visit.no_key_allows_nothing
#print axioms AL.Props.C12Visit.unknown_key_allows_nothing
#print axioms AL.Props.C12Visit.known_key_row
