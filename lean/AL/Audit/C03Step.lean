import AL.Props.C03Step
#print axioms AL.Props.C03Step.script_step_complete
#print axioms AL.Props.C03Step.action_step_complete
#print axioms AL.Props.C03Step.script_step_order_irrelevant
#print axioms AL.Props.C03Step.unknown_key_reported
