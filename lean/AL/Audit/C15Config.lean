import AL.Props.C15Config
#print axioms AL.C15C.accepted_config_has_valid_globs
#print axioms AL.C15C.strSlice_nil_iff
