import AL.Props.C05Proj
#print axioms AL.C05P.lookup_setProp
#print axioms AL.C05P.call_outputs_exact
#print axioms AL.C05P.action_outputs_exact
