import AL.Props.C14Rules
#print axioms AL.C14R.undefined_reported
#print axioms AL.C14R.undefined_only
#print axioms AL.C14R.missing_only
