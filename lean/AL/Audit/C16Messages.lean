import AL.Props.C16Messages
#print axioms AL.C16M.every_message_escaped
#print axioms AL.C16M.no_other_message_write
#print axioms AL.C16M.escaper_is_model
#print axioms AL.C16M.escape_cons
#print axioms AL.C16M.escape_no_linebreak
#print axioms AL.C16M.escape_clean
#print axioms AL.C16M.escape_idem
#print axioms AL.C16M.natChars_no_linebreak
#print axioms AL.C16M.header_one_line
