import AL.Props.C09
#print axioms AL.C09.job_state_reset
#print axioms AL.C09.workflow_state_reset
#print axioms AL.C09.exemptions_live
#print axioms AL.C09.later_expression_unaffected
