import AL.Props.C03
#print axioms AL.C03.coverage
#print axioms AL.C03.exemptions_exact
#print axioms AL.C03.routing
