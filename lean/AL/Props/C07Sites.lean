import AL.Lemmas.C07SWf
import AL.Lemmas.C07SRule
import AL.Lemmas.C07SRules
import AL.Lemmas.C07SValue
import AL.Props.C03Parse
import AL.Model.Positions
/-
  C07 — **every diagnostic sits at a node of the document.**

  The other C07 files say WHERE INSIDE a string a diagnostic points (AL.C07: column arithmetic) and that a rule's
  diagnostic carries the position of the id / key / value it is about (AL.C07R, AL.C07M, AL.C07P). This file closes the
  chain from the diagnostic back to the yaml.Node tree the parser was given:

    1. `expr_diag_at_ast_string` — the expression rule (all of rule_expression.go, with or without a project) makes no
       diagnostic out of nowhere: every diagnostic sits at one of the `*String`s of the AST (`allStrs w`: every string
       of the AST, enumerated field by field from ast.go — names, keys, values, raw matrix scalars);
    2. `ast_string_from_node`, `ast_position_from_node` — the parser invents no position: every string of the parsed AST
       was made from a node of the document (`StrOf`: same position; the node's text, or the empty placeholder
       `parseString` returns when its check fails); every `Pos` field of the AST is the position of a node.
       `ast_string_from_scalar`: a string with a text comes from a SCALAR node, same text, same position.
       The statement "every AST string is a scalar node of the document" is FALSE of the model and of actionlint:
       `placeholder_not_a_scalar`;
    3. `expr_diag_at_node`, `expr_diag_in_file` — composition: every diagnostic of the expression rule on a parsed document
       sits at a node of the document, hence has 1 ≤ line ≤ N, 1 ≤ column when the tree comes from a file of N lines
       (`InFile`). FINDING `finding_expr_diag_at_collection`: the node need not be a scalar — `if: [a]` gets, besides the
       parser's "expected scalar node", an expression diagnostic "unexpected end of input" at the sequence.
       FINDING `finding_matrix_scalar_quote_lost`: a QUOTED scalar inside a matrix reaches the rule without its quoting
       flag (`StrOf.quoted`: the node's flag OR false), so expression diagnostics inside it are one column to the left;
    4. `syntax_diag_at_node`, `syntax_diag_in_file` — every syntax diagnostic of the parser sits at a node of the document
       (any kind), or at the document node after `fixDocPos` (line 0 → 1, column 0 → 1: the empty file);
    5. `rules_diag_at_ast_position`, `rules_diag_at_node`, `rules_diag_in_file` — the fourteen AST-only rules (AL.Rules):
       every diagnostic sits at a position that occurs in the AST (`allPositions w`: the cycle / undefined-dependency
       diagnostics of job-needs at a job id, a repeated job at the job, matrix diagnostics at a raw value or an assignment
       key, runner labels also at the matrix scalar a `${{ matrix.x }}` label stands for, …) with the one exception stated
       exactly in `RuleSite`: a glob diagnostic (line of the pattern, column of the pattern + 1 for a quote + offset).
       `lint_diag_in_file`: the first sentence of C07 for the whole of `AL.Rules.lint` (parser + fourteen rules, sorted).
  `allStrs_covers_valueStrs` ties `allStrs` to the value strings of AL.C03R.

  Proof architecture: `items` (class `HasItems`, AL/Lemmas/C07SBase.lean) enumerates the strings and positions of every AST
  type; `AllI P x` says every item of `x` satisfies `P` and decomposes along the fields of a structure (generated simp
  lemmas). Parser side: `P := ItemOk S` ("made from a node of `S`"), one lemma `ROk S (parseX … n)` per function of
  parse.go, bottom-up (C07SParse, C07SEvents, C07SJob, C07SWf). Rule side: `P := NotAt d` ("is not where `d` sits"), one
  lemma `NS d x → d ∉ checkX … x` per function of rule_expression.go (C07SRule).
-/
namespace AL.C07S
open AL AL.Yaml AL.Ast AL.PW AL.RuleExpr

/-! ## 1. the expression rule: no diagnostic out of nowhere -/

/-- **every diagnostic of the expression rule sits at a string of the AST** — for every workflow AST, every lower-casing
function, every number test and every project view. -/
theorem expr_diag_at_ast_string (lower : String → String) (isNum : IsNumber) (w : Workflow) (proj : ProjView) :
    ∀ d ∈ rule lower isNum w proj, ∃ s ∈ allStrs w, d.site = s.pos := by
  intro d hd
  by_cases h : ∃ s ∈ allStrs w, d.site = s.pos
  · exact h
  · exfalso
    refine rule_not lower isNum w proj ?_ hd
    intro it hit
    cases it with
    | pos p => trivial
    | str s => exact fun he => h ⟨s, mem_allStrs.2 hit, he⟩

/-- the same, as positions -/
theorem expr_diag_at_ast_position (lower : String → String) (isNum : IsNumber) (w : Workflow) (proj : ProjView) :
    ∀ d ∈ rule lower isNum w proj, d.site ∈ allPositions w := by
  intro d hd
  obtain ⟨s, hs, he⟩ := expr_diag_at_ast_string lower isNum w proj d hd
  rw [he]
  exact allStrs_pos_sub hs

/-- `allStrs` covers the value strings of AL.C03R (`every_placeholder_checked`: each of those with a malformed placeholder
gets a diagnostic AT the string — the converse direction of the theorem above) -/
theorem allStrs_covers_valueStrs (w : Workflow) : ∀ s ∈ AL.C03R.valueStrs w, s ∈ allStrs w :=
  valueStrs_sub_allStrs w

/-! ## 2. the parser invents no position -/

theorem allNodesL_sub_allNodes (doc : Node) : ∀ v ∈ allNodesL doc.content, v ∈ allNodes doc := by
  intro v hv
  rw [allNodes_eq]
  exact List.mem_cons_of_mem _ hv

/-- strong form: the node lies below the root (it is not the document node) -/
theorem ast_item_from_node (cfg : Cfg) (doc : Node) : ∀ it ∈ items (parse cfg doc).1, ItemOk (allNodesL doc.content) it :=
  (parse_ok cfg doc).1

/-- **every string of the parsed AST was made from a node of the document**: it sits at the node; its text is the node's
text, or empty (the placeholder `parseString` returns for a node that is not a scalar / an empty scalar where a text is
required); the node is a scalar unless the string is that placeholder (or the node is a collection node carrying a
`${{ }}` text, which yaml.v3 never produces). -/
theorem ast_string_from_node (cfg : Cfg) (doc : Node) :
    ∀ s ∈ allStrs (parse cfg doc).1, ∃ v ∈ allNodes doc, StrOf v s := by
  intro s hs
  obtain ⟨v, hv, h⟩ := ast_item_from_node cfg doc _ (mem_allStrs.1 hs)
  exact ⟨v, allNodesL_sub_allNodes doc v hv, h⟩

/-- **every position of the parsed AST (of a string, a key, a job, a step, an event, a section …) is the position of a
node of the document** -/
theorem ast_position_from_node (cfg : Cfg) (doc : Node) :
    ∀ p ∈ allPositions (parse cfg doc).1, ∃ v ∈ allNodes doc, p = v.pos := by
  intro p hp
  obtain ⟨it, hit, rfl⟩ := List.mem_map.1 hp
  obtain ⟨v, hv, h⟩ := (ast_item_from_node cfg doc it hit).at
  exact ⟨v, allNodesL_sub_allNodes doc v hv, h⟩

/-- what yaml.v3 guarantees and the `Node` type does not: only a scalar node has a text -/
def TextOnScalarsOnly (doc : Node) : Prop := ∀ v ∈ allNodes doc, v.kind ≠ .scalar → v.value = ""

theorem isExprAssigned_empty : isExprAssigned "" = false := by decide

/-- **a string of the AST that has a text is a scalar node of the document: same text, same position** (the statement of
the task, restricted to where it is true) -/
theorem ast_string_from_scalar (cfg : Cfg) (doc : Node) (hdoc : TextOnScalarsOnly doc) :
    ∀ s ∈ allStrs (parse cfg doc).1, s.value ≠ "" →
      ∃ v ∈ allScalars doc, v.kind = .scalar ∧ s.pos = v.pos ∧ s.value = v.value := by
  intro s hs hne
  obtain ⟨v, hv, h⟩ := ast_string_from_node cfg doc s hs
  have hval : s.value = v.value := h.value.resolve_right hne
  have hk : v.kind = .scalar := by
    rcases h.kind with hk | hk | hk
    · exact hk
    · exact absurd hk hne
    · by_cases hk' : v.kind = .scalar
      · exact hk'
      · rw [hdoc v hv hk', isExprAssigned_empty] at hk
        cases hk
  exact ⟨v, mem_allScalars.2 ⟨hv, hk⟩, hk, h.pos, hval⟩

/-! ## 3. composition: the expression rule on a parsed document -/

theorem expr_diag_below_root (cfg : Cfg) (lower : String → String) (isNum : IsNumber) (proj : ProjView) (doc : Node) :
    ∀ d ∈ rule lower isNum (parse cfg doc).1 proj, ∃ v ∈ allNodesL doc.content, d.site = v.pos := by
  intro d hd
  obtain ⟨s, hs, he⟩ := expr_diag_at_ast_string lower isNum _ proj d hd
  obtain ⟨v, hv, h⟩ := ast_item_from_node cfg doc _ (mem_allStrs.1 hs)
  exact ⟨v, hv, he.trans h.pos⟩

/-- **every diagnostic of the expression rule on a parsed document sits at a node of the document** -/
theorem expr_diag_at_node (cfg : Cfg) (lower : String → String) (isNum : IsNumber) (proj : ProjView) (doc : Node) :
    ∀ d ∈ rule lower isNum (parse cfg doc).1 proj, ∃ v ∈ allNodes doc, d.site = v.pos := by
  intro d hd
  obtain ⟨v, hv, h⟩ := expr_diag_below_root cfg lower isNum proj doc d hd
  exact ⟨v, allNodesL_sub_allNodes doc v hv, h⟩

/-- … at a SCALAR node, unless it sits at one of the empty placeholder strings of the AST -/
theorem expr_diag_at_scalar_or_placeholder (cfg : Cfg) (lower : String → String) (isNum : IsNumber) (proj : ProjView)
    (doc : Node) (hdoc : TextOnScalarsOnly doc) :
    ∀ d ∈ rule lower isNum (parse cfg doc).1 proj,
      (∃ v ∈ allScalars doc, d.site = v.pos) ∨ (∃ s ∈ allStrs (parse cfg doc).1, s.value = "" ∧ d.site = s.pos) := by
  intro d hd
  obtain ⟨s, hs, he⟩ := expr_diag_at_ast_string lower isNum _ proj d hd
  by_cases hv : s.value = ""
  · exact Or.inr ⟨s, hs, hv, he⟩
  · obtain ⟨v, hv', _, hp, _⟩ := ast_string_from_scalar cfg doc hdoc s hs hv
    exact Or.inl ⟨v, hv', he.trans hp⟩

/-- the node tree comes from a file of `N` lines: every node below the document node has a line between 1 and `N` and a
column ≥ 1. The document node itself may be at line 0 / column 0 (yaml.v3 on an empty file; `fixDocPos` repairs it). -/
def InFile (N : Nat) (doc : Node) : Prop :=
  1 ≤ N ∧ doc.line ≤ N ∧ ∀ v ∈ allNodesL doc.content, 1 ≤ v.line ∧ v.line ≤ N ∧ 1 ≤ v.col

/-- **C07, first sentence, for the expression rule**: line between 1 and the number of lines, column at least 1 -/
theorem expr_diag_in_file (cfg : Cfg) (lower : String → String) (isNum : IsNumber) (proj : ProjView) (doc : Node) (N : Nat)
    (h : InFile N doc) :
    ∀ d ∈ rule lower isNum (parse cfg doc).1 proj, 1 ≤ d.site.line ∧ d.site.line ≤ N ∧ 1 ≤ d.site.col := by
  intro d hd
  obtain ⟨v, hv, he⟩ := expr_diag_below_root cfg lower isNum proj doc d hd
  rw [he]
  exact h.2.2 v hv

/-! ## 4. the syntax diagnostics of the parser -/

/-- **every syntax diagnostic sits at a node of the document** (of any kind) — or at the document node after `fixDocPos` -/
theorem syntax_diag_at_node (cfg : Cfg) (doc : Node) :
    ∀ e ∈ (parse cfg doc).2, e.pos = (fixDocPos doc).pos ∨ ∃ v ∈ allNodesL doc.content, e.pos = v.pos :=
  (parse_ok cfg doc).2

theorem fixDocPos_pos (doc : Node) (hl : doc.line ≠ 0) (hc : doc.col ≠ 0) : (fixDocPos doc).pos = doc.pos := by
  obtain ⟨k, t, v, q, l, c, cs⟩ := doc
  simp only [Node.line, Node.col] at hl hc
  simp [fixDocPos, Node.pos, Node.line, Node.col, hl, hc]

/-- when the document node has a position (yaml.v3 on a non-empty file), at a node of the document -/
theorem syntax_diag_at_node' (cfg : Cfg) (doc : Node) (hl : doc.line ≠ 0) (hc : doc.col ≠ 0) :
    ∀ e ∈ (parse cfg doc).2, ∃ v ∈ allNodes doc, e.pos = v.pos := by
  intro e he
  rcases syntax_diag_at_node cfg doc e he with h | ⟨v, hv, h⟩
  · exact ⟨doc, mem_allNodes_self doc, by rw [h, fixDocPos_pos doc hl hc]⟩
  · exact ⟨v, allNodesL_sub_allNodes doc v hv, h⟩

theorem fixDocPos_in_file (doc : Node) (N : Nat) (h : InFile N doc) :
    1 ≤ (fixDocPos doc).pos.line ∧ (fixDocPos doc).pos.line ≤ N ∧ 1 ≤ (fixDocPos doc).pos.col := by
  obtain ⟨k, t, v, q, l, c, cs⟩ := doc
  obtain ⟨h1, h2, _⟩ := h
  simp only [Node.line] at h2
  simp only [fixDocPos, Node.pos, Node.line, Node.col]
  refine ⟨?_, ?_, ?_⟩
  · split <;> omega
  · split <;> omega
  · split <;> omega

/-- **C07, first sentence, for the syntax diagnostics** -/
theorem syntax_diag_in_file (cfg : Cfg) (doc : Node) (N : Nat) (h : InFile N doc) :
    ∀ e ∈ (parse cfg doc).2, 1 ≤ e.pos.line ∧ e.pos.line ≤ N ∧ 1 ≤ e.pos.col := by
  intro e he
  rcases syntax_diag_at_node cfg doc e he with h' | ⟨v, hv, h'⟩
  · rw [h']; exact fixDocPos_in_file doc N h
  · rw [h']; exact h.2.2 v hv

/-! ## 5. the AST-only rules -/

/-- where a diagnostic of the fourteen AST-only rules sits: at a position that occurs in the AST — or, for rule glob, on
the line of one of the patterns, at the pattern's column (+ 1 for an opening quote) + the offset of the offending
character (`AL.C07.glob_column`, `AL.C09R.globErrors_pos`: the exact offset) -/
def RuleSite (w : Workflow) (d : AL.Rules.Diag) : Prop :=
  d.pos ∈ allPositions w ∨ (d ∈ AL.Rules.ruleGlob w ∧ ∃ s ∈ allStrs w, AR.GlobAt s d.pos)

/-- **every diagnostic of the AST-only rules sits at a position of the AST** (matrix, credentials, shell-name,
runner-label, events incl. the CRON check, job-needs, action, env-var, id, permissions, workflow-call, deprecated-commands, if-cond), rule glob
at a computed column inside one of the strings of the AST -/
theorem rules_diag_at_ast_position (lower : String → String) (isNum urlOk : String → Bool) (w : Workflow) (lc : AL.Rules.LabelCfg) :
    ∀ d ∈ AL.Rules.rules lower isNum urlOk w lc, RuleSite w d := by
  intro d hd
  by_cases hp : d.pos ∈ allPositions w
  · exact Or.inl hp
  · have h : AR.NP d.pos w := by
      intro it hit he
      exact hp (List.mem_map.2 ⟨it, hit, he⟩)
    simp only [AL.Rules.rules, List.mem_append] at hd
    rcases hd with ((((((((((((hd | hd) | hd) | hd) | hd) | hd) | hd) | hd) | hd) | hd) | hd) | hd) | hd) | hd
    · exact absurd hd (AR.ruleMatrix_not h)
    · exact absurd hd (AR.ruleCredentials_not h)
    · exact absurd hd (AR.ruleShellName_not lower h)
    · exact absurd hd (AR.ruleRunnerLabel_not lower lc h)
    · exact absurd hd (AR.ruleEvents_not lower isNum lc h)
    · exact absurd hd (AR.ruleJobNeeds_not lower h)
    · exact absurd hd (AR.ruleAction_not urlOk h)
    · exact absurd hd (AR.ruleEnvVar_not h)
    · exact absurd hd (AR.ruleId_not lower h)
    · obtain ⟨s, hs, hg⟩ := AR.ruleGlob_at w d hd
      exact Or.inr ⟨hd, s, mem_allStrs.2 hs, hg⟩
    · exact absurd hd (AR.rulePermissions_not h)
    · exact absurd hd (AR.ruleWorkflowCall_not h)
    · exact absurd hd (AR.ruleDeprecatedCommands_not h)
    · exact absurd hd (AR.ruleIfCond_not h)

/-- every rule but glob: exactly at a position of the AST -/
theorem rules_diag_not_glob (lower : String → String) (isNum urlOk : String → Bool) (w : Workflow) (lc : AL.Rules.LabelCfg) :
    ∀ d ∈ AL.Rules.rules lower isNum urlOk w lc, d ∉ AL.Rules.ruleGlob w → d.pos ∈ allPositions w := by
  intro d hd hg
  rcases rules_diag_at_ast_position lower isNum urlOk w lc d hd with h | h
  · exact h
  · exact absurd h.1 hg

/-- **on a parsed document: at a node of the document** — rule glob: on the line of a node, at or after its column (the
exact column is in `RuleSite` / `AR.GlobAt`: the string's column + 1 for an opening quote + the validator's offset) -/
theorem rules_diag_at_node (cfg : Cfg) (lower : String → String) (isNum urlOk : String → Bool) (lc : AL.Rules.LabelCfg) (doc : Node) :
    ∀ d ∈ AL.Rules.rules lower isNum urlOk (parse cfg doc).1 lc,
      ∃ v ∈ allNodesL doc.content, d.pos = v.pos ∨
        (d ∈ AL.Rules.ruleGlob (parse cfg doc).1 ∧ d.pos.line = v.line ∧ ∃ k, d.pos.col = v.col + k) := by
  intro d hd
  rcases rules_diag_at_ast_position lower isNum urlOk _ lc d hd with h | ⟨hg, s, hs, hl, k, hk⟩
  · obtain ⟨it, hit, he⟩ := List.mem_map.1 h
    obtain ⟨v, hv, h'⟩ := (ast_item_from_node cfg doc it hit).at
    exact ⟨v, hv, Or.inl (he.symm.trans h')⟩
  · obtain ⟨v, hv, hso⟩ := ast_item_from_node cfg doc _ (mem_allStrs.1 hs)
    refine ⟨v, hv, Or.inr ⟨hg, ?_, ?_⟩⟩
    · rw [hl, hso.pos]; rfl
    · refine ⟨(if s.quoted then 1 else 0) + k, ?_⟩
      rw [hk, hso.pos, Nat.add_assoc]
      rfl

/-- **C07, first sentence, for the AST-only rules** -/
theorem rules_diag_in_file (cfg : Cfg) (lower : String → String) (isNum urlOk : String → Bool) (lc : AL.Rules.LabelCfg)
    (doc : Node) (N : Nat) (h : InFile N doc) :
    ∀ d ∈ AL.Rules.rules lower isNum urlOk (parse cfg doc).1 lc, 1 ≤ d.pos.line ∧ d.pos.line ≤ N ∧ 1 ≤ d.pos.col := by
  intro d hd
  obtain ⟨v, hv, hd'⟩ := rules_diag_at_node cfg lower isNum urlOk lc doc d hd
  have hb := h.2.2 v hv
  rcases hd' with he | ⟨_, hl, k, hk⟩
  · rw [he]; exact hb
  · rw [hl, hk]
    exact ⟨hb.1, hb.2.1, by omega⟩

/-- **C07, first sentence, for `Linter.check` restricted to the parser and the fourteen modelled rules**: every
diagnostic of the sorted output has a line between 1 and the number of lines of the file and a column of at least 1 -/
theorem lint_diag_in_file (cfg : Cfg) (isNum urlOk : String → Bool) (doc : Node) (lc : AL.Rules.LabelCfg) (N : Nat)
    (h : InFile N doc) :
    ∀ d ∈ AL.Rules.lint cfg isNum urlOk doc lc, 1 ≤ d.pos.line ∧ d.pos.line ≤ N ∧ 1 ≤ d.pos.col := by
  intro d hd
  simp only [AL.Rules.lint] at hd
  have := (AL.C09R.stableSort_perm _).mem_iff.1 hd
  simp only [List.mem_append, List.mem_map] at this
  rcases this with ⟨e, he, rfl⟩ | hr
  · exact syntax_diag_in_file cfg doc N h e he
  · exact rules_diag_in_file cfg cfg.lower isNum urlOk lc doc N h d hr

/-! ## Examples, witnesses, findings -/

section examples
open AL.C03P (sc mp sq key exCfg exDoc)

/-- the running example of AL.C03P (`run-name: ${{`, a `workflow_call` output, a job with a matrix, 7 lines) is a tree
from a file of 7 lines in which only scalars have a text -/
theorem exDoc_inFile : InFile 7 exDoc := by unfold InFile; decide +kernel
theorem exDoc_text : TextOnScalarsOnly exDoc := by unfold TextOnScalarsOnly; decide +kernel

/-- 1: the expression diagnostic about `run-name: ${{` sits at the AST string made from that scalar -/
example (lower : String → String) (isNum : IsNumber) :
    ∃ d ∈ rule lower isNum (parse exCfg exDoc).1, d.site = ⟨1, 11⟩ ∧
      (⟨"${{", false, ⟨1, 11⟩⟩ : Str) ∈ allStrs (parse exCfg exDoc).1 := by
  have hs : AL.C03P.valueScalars exDoc = [sc "!!str" "${{" 1 11, sc "!!str" "v" 5 20, sc "!!str" "ubuntu-latest" 2 14,
    sc "!!str" "linux" 5 14, sc "!!str" "x64" 5 29, sc "!!str" "${{" 5 34, sc "!!str" "make" 7 14] := rfl
  obtain ⟨d, hd, he⟩ := (AL.C03P.placeholder_in_document_reported exCfg lower isNum exDoc (sc "!!str" "${{" 1 11)
    (by rw [hs]; simp) AL.C03R.malformed_open).resolve_left (fun h => h AL.C03P.exDoc_clean)
  exact ⟨d, hd, he, by decide +kernel⟩

/-- 2: the strings of the AST of `exDoc` (all of them have a text) are scalar nodes of `exDoc` -/
example : ∀ s ∈ allStrs (parse exCfg exDoc).1, ∃ v ∈ allScalars exDoc, v.kind = .scalar ∧ s.pos = v.pos ∧ s.value = v.value :=
  fun s hs => ast_string_from_scalar exCfg exDoc exDoc_text s hs (by revert s; decide +kernel)

example : allStrs (parse exCfg exDoc).1 =
    [⟨"${{", false, ⟨1, 11⟩⟩, ⟨"out", false, ⟨5, 7⟩⟩, ⟨"v", false, ⟨5, 20⟩⟩, ⟨"build", false, ⟨7, 3⟩⟩,
     ⟨"ubuntu-latest", false, ⟨2, 14⟩⟩, ⟨"make", false, ⟨7, 14⟩⟩, ⟨"os", false, ⟨5, 9⟩⟩, ⟨"linux", false, ⟨5, 14⟩⟩,
     ⟨"x64", false, ⟨5, 29⟩⟩, ⟨"${{", false, ⟨5, 34⟩⟩] := by decide +kernel

/-- 3: both expression diagnostics of `exDoc` are inside the file -/
example (lower : String → String) (isNum : IsNumber) :
    ∀ d ∈ rule lower isNum (parse exCfg exDoc).1, 1 ≤ d.site.line ∧ d.site.line ≤ 7 ∧ 1 ≤ d.site.col :=
  expr_diag_in_file exCfg lower isNum {} exDoc 7 exDoc_inFile

/--
```
on: push
jobs:
  build:
    runs-on: ubuntu-latest
    if: [a]
    steps:
      - run: make
```
-/
def docIfSeq : Node :=
  .mk .document "" "" false 1 1 [mp 1 1 [key "on" 1 1, sc "!!str" "push" 1 5,
    key "jobs" 2 1, mp 3 3 [key "build" 3 3, mp 4 5 [key "runs-on" 4 5, sc "!!str" "ubuntu-latest" 4 14,
      key "if" 5 5, sq 5 9 [sc "!!str" "a" 5 10],
      key "steps" 6 5, sq 7 7 [mp 7 9 [key "run" 7 9, sc "!!str" "make" 7 14]]]]]]

theorem docIfSeq_inFile : InFile 7 docIfSeq := by unfold InFile; decide +kernel
theorem docIfSeq_text : TextOnScalarsOnly docIfSeq := by unfold TextOnScalarsOnly; decide +kernel

/-- **the statement "every string of the AST is a scalar node of the document" is FALSE**: for `if: [a]` the AST holds the
empty placeholder string at the position of the SEQUENCE node (`parseString` returns `&String{"", false, posAt(n)}` when
`checkString` fails), and no scalar node is there -/
theorem placeholder_not_a_scalar :
    ∃ s ∈ allStrs (parse exCfg docIfSeq).1, s = ⟨"", false, ⟨5, 9⟩⟩ ∧ ¬ ∃ v ∈ allScalars docIfSeq, s.pos = v.pos :=
  ⟨⟨"", false, ⟨5, 9⟩⟩, by decide +kernel, rfl, by decide +kernel⟩

/-- **FINDING (harmless double report; reproduced with actionlint itself)**: the diagnostics of the expression rule need not
sit at a SCALAR. For `if: [a]` the parser reports "expected scalar node for string value but found sequence node" at 5:9
and keeps the empty placeholder as the condition; rule expression then checks the empty condition and reports "unexpected
end of input while parsing …" at the same 5:9 — the position of the sequence node, where no scalar is. (Same double report
for `if:` with nothing after it: "string should not be empty" + the expression diagnostic, both at the null scalar.) -/
theorem finding_expr_diag_at_collection :
    rule asciiLower (fun _ => false) (parse exCfg docIfSeq).1 = [⟨⟨5, 9⟩, "syntax-error", []⟩] ∧
    (parse exCfg docIfSeq).2 = [⟨⟨5, 9⟩, "not-scalar-string", ["sequence", "!!seq"]⟩] ∧
    (¬ ∃ v ∈ allScalars docIfSeq, v.pos = ⟨5, 9⟩) ∧
    (∃ v ∈ allNodes docIfSeq, v.kind = .sequence ∧ v.pos = ⟨5, 9⟩) := by
  refine ⟨by decide +kernel, by decide +kernel, by decide +kernel, by decide +kernel⟩

/-- … and it is one of the two cases `expr_diag_at_scalar_or_placeholder` leaves: at an empty placeholder string -/
example : ∀ d ∈ rule asciiLower (fun _ => false) (parse exCfg docIfSeq).1,
    (∃ v ∈ allScalars docIfSeq, d.site = v.pos) ∨ (∃ s ∈ allStrs (parse exCfg docIfSeq).1, s.value = "" ∧ d.site = s.pos) :=
  expr_diag_at_scalar_or_placeholder exCfg asciiLower (fun _ => false) {} docIfSeq docIfSeq_text

/-- 4: the parser's diagnostic for `if: [a]` sits at the sequence node, inside the file -/
example : (parse exCfg docIfSeq).2 = [⟨⟨5, 9⟩, "not-scalar-string", ["sequence", "!!seq"]⟩] := by decide +kernel
example : ∀ e ∈ (parse exCfg docIfSeq).2, 1 ≤ e.pos.line ∧ e.pos.line ≤ 7 ∧ 1 ≤ e.pos.col :=
  syntax_diag_in_file exCfg docIfSeq 7 docIfSeq_inFile
example : ∀ e ∈ (parse exCfg docIfSeq).2, ∃ v ∈ allNodes docIfSeq, e.pos = v.pos :=
  syntax_diag_at_node' exCfg docIfSeq (by decide) (by decide)

/-- the empty file: yaml.v3 gives the document node line 0, column 0; the one diagnostic is moved to 1:1, which is the
position of no node (and line 1 of a file of 0 lines) -/
def docEmpty : Node := .mk .document "" "" false 0 0 []

theorem empty_document_diag :
    (parse exCfg docEmpty).2 = [⟨⟨1, 1⟩, "workflow-empty", []⟩] ∧ ¬ ∃ v ∈ allNodes docEmpty, v.pos = ⟨1, 1⟩ := by
  decide +kernel

/--
```
on: push
jobs:
  a:
    strategy:
      matrix:
        os: ["${{ foo }}"]
    runs-on: ubuntu-latest
    steps:
      - run: echo
```
-/
def docQuotedMatrix : Node :=
  .mk .document "" "" false 1 1 [mp 1 1 [key "on" 1 1, sc "!!str" "push" 1 5,
    key "jobs" 2 1, mp 3 3 [key "a" 3 3, mp 4 5 [
      key "strategy" 4 5, mp 5 7 [key "matrix" 5 7, mp 6 9 [key "os" 6 9, sq 6 13 [.mk .scalar "!!str" "${{ foo }}" true 6 14 []]]],
      key "runs-on" 7 5, sc "!!str" "ubuntu-latest" 7 14,
      key "steps" 8 5, sq 9 7 [mp 9 9 [key "run" 9 9, sc "!!str" "echo" 9 14]]]]]]

/-- **FINDING (C07, second sentence; reproduced with actionlint itself: it reports 6:18, `foo` is at 6:19)**: a QUOTED
scalar inside a matrix (row value, `include` / `exclude` value) loses its quoting flag — `RawYAMLString` has no `Quoted`
field and `checkRawYAMLString` calls `checkExprsIn(…, quoted = false, …)` — so every expression diagnostic inside it is
reported one column to the left of the offending token. The string the rule is given sits at the scalar (6:14, as
`ast_string_from_node` says: `StrOf.quoted` is "the node's flag or false") but is unquoted, the node is quoted; with the
column arithmetic of AL.C07 (`reported`) the token `foo` (expression offset 3, column 2 of the expression) is reported at
column 18 instead of 19. -/
theorem finding_matrix_scalar_quote_lost :
    (∃ v ∈ allScalars docQuotedMatrix, v.pos = ⟨6, 14⟩ ∧ v.value = "${{ foo }}" ∧ v.quoted = true) ∧
    (⟨"${{ foo }}", false, ⟨6, 14⟩⟩ : Str) ∈ allStrs (parse exCfg docQuotedMatrix).1 ∧
    (⟨"${{ foo }}", true, ⟨6, 14⟩⟩ : Str) ∉ allStrs (parse exCfg docQuotedMatrix).1 ∧
    (parse exCfg docQuotedMatrix).2 = [] ∧
    AL.Positions.reported 6 14 false 3 1 2 = ⟨6, 18⟩ ∧ AL.Positions.reported 6 14 true 3 1 2 = ⟨6, 19⟩ := by
  refine ⟨by decide +kernel, by decide +kernel, by decide +kernel, by decide +kernel, by decide, by decide⟩

/--
```
on:
  push:
    branches: ["v1 x"]
jobs:
  b1:
    needs: zz
    runs-on: ubuntu-latest
    steps:
      - run: make
        id: 1x
```
-/
def docRules : Node :=
  .mk .document "" "" false 1 1 [mp 1 1 [
    key "on" 1 1, mp 2 3 [key "push" 2 3, mp 3 5 [key "branches" 3 5, sq 3 15 [.mk .scalar "!!str" "v1 x" true 3 16 []]]],
    key "jobs" 4 1, mp 5 3 [key "b1" 5 3, mp 6 5 [
      key "needs" 6 5, sc "!!str" "zz" 6 12,
      key "runs-on" 7 5, sc "!!str" "ubuntu-latest" 7 14,
      key "steps" 8 5, sq 9 7 [mp 9 9 [key "run" 9 9, sc "!!str" "make" 9 14, key "id" 10 9, sc "!!str" "1x" 10 13]]]]]]

theorem docRules_inFile : InFile 10 docRules := by unfold InFile; decide +kernel

/-- 5: an undefined dependency (at the job id `b1`, 5:3), a step id against the convention (at the id, 10:13), a space in a branch filter
(on the line of the pattern `"v1 x"` at 3:16: column 16 + 1 for the quote + 2) -/
example : AL.Rules.rules asciiLower (fun _ => false) (fun _ => true) (parse exCfg docRules).1 =
    [⟨⟨5, 3⟩, "job-needs", "needs-undefined", ["b1", "zz"]⟩, ⟨⟨10, 13⟩, "id", "id-convention", ["step", "1x"]⟩,
     ⟨⟨3, 19⟩, "glob", "glob", ["ref,32,chars"]⟩] := by decide +kernel

example : ∀ d ∈ AL.Rules.rules asciiLower (fun _ => false) (fun _ => true) (parse exCfg docRules).1,
    RuleSite (parse exCfg docRules).1 d :=
  rules_diag_at_ast_position asciiLower _ _ _ {}

example : (⟨5, 3⟩ : Pos) ∈ allPositions (parse exCfg docRules).1 ∧ (⟨10, 13⟩ : Pos) ∈ allPositions (parse exCfg docRules).1 ∧
    (⟨3, 19⟩ : Pos) ∉ allPositions (parse exCfg docRules).1 ∧
    AR.GlobAt ⟨"v1 x", true, ⟨3, 16⟩⟩ ⟨3, 19⟩ ∧ (⟨"v1 x", true, ⟨3, 16⟩⟩ : Str) ∈ allStrs (parse exCfg docRules).1 := by
  refine ⟨by decide +kernel, by decide +kernel, by decide +kernel, ⟨rfl, 2, rfl⟩, by decide +kernel⟩

example : ∀ d ∈ AL.Rules.rules asciiLower (fun _ => false) (fun _ => true) (parse exCfg docRules).1,
    1 ≤ d.pos.line ∧ d.pos.line ≤ 10 ∧ 1 ≤ d.pos.col :=
  rules_diag_in_file exCfg asciiLower _ _ {} docRules 10 docRules_inFile

/-- the two diagnostics that are not rule glob's: exactly at a position of the AST -/
example : ∀ d ∈ AL.Rules.rules asciiLower (fun _ => false) (fun _ => true) (parse exCfg docRules).1,
    d ∉ AL.Rules.ruleGlob (parse exCfg docRules).1 → d.pos ∈ allPositions (parse exCfg docRules).1 :=
  rules_diag_not_glob asciiLower _ _ _ {}

example : AL.Rules.ruleGlob (parse exCfg docRules).1 = [⟨⟨3, 19⟩, "glob", "glob", ["ref,32,chars"]⟩] := by decide +kernel

example : (fixDocPos docRules).pos = docRules.pos := fixDocPos_pos docRules (by decide) (by decide)
example : (fixDocPos docEmpty).pos = ⟨1, 1⟩ ∧ ¬ InFile 0 docEmpty ∧ InFile 1 docEmpty := by
  refine ⟨rfl, by unfold InFile; decide +kernel, by unfold InFile; decide +kernel⟩
example : 1 ≤ (fixDocPos docEmpty).pos.line ∧ (fixDocPos docEmpty).pos.line ≤ 1 ∧ 1 ≤ (fixDocPos docEmpty).pos.col :=
  fixDocPos_in_file docEmpty 1 (by unfold InFile; decide +kernel)

example : ∀ d ∈ AL.Rules.lint exCfg (fun _ => false) (fun _ => true) docRules, 1 ≤ d.pos.line ∧ d.pos.line ≤ 10 ∧ 1 ≤ d.pos.col :=
  lint_diag_in_file exCfg _ _ docRules {} 10 docRules_inFile

/--
```
on:
  schedule:
    - cron: "* * * * *"
jobs:
  a:
    runs-on: ubuntu-latest
    steps:
      - run: make
```
-/
def docCron : Node :=
  .mk .document "" "" false 1 1 [mp 1 1 [
    key "on" 1 1, mp 2 3 [key "schedule" 2 3, sq 3 5 [mp 3 7 [key "cron" 3 7, .mk .scalar "!!str" "* * * * *" true 3 13 []]]],
    key "jobs" 4 1, mp 5 3 [key "a" 5 3, mp 6 5 [
      key "runs-on" 6 5, sc "!!str" "ubuntu-latest" 6 14,
      key "steps" 7 5, sq 8 7 [mp 8 9 [key "run" 8 9, sc "!!str" "make" 8 14]]]]]]

theorem docCron_inFile : InFile 8 docCron := by unfold InFile; decide +kernel

/-- the CRON check (part of rule events): "scheduled job runs too frequently" sits at the cron string (3:13), a position of
the AST and a scalar of the document — whatever the configuration `lc` -/
example : AL.Rules.ruleEvents asciiLower (fun _ => false) (parse exCfg docCron).1 =
    [⟨⟨3, 13⟩, "events", "cron-too-frequent", ["60"]⟩] ∧ (⟨3, 13⟩ : Pos) ∈ allPositions (parse exCfg docCron).1 := by
  refine ⟨by decide +kernel, by decide +kernel⟩

example (lc : AL.Rules.LabelCfg) : ∀ d ∈ AL.Rules.lint exCfg (fun _ => false) (fun _ => true) docCron lc,
    1 ≤ d.pos.line ∧ d.pos.line ≤ 8 ∧ 1 ≤ d.pos.col :=
  lint_diag_in_file exCfg _ _ docCron lc 8 docCron_inFile

end examples

end AL.C07S
