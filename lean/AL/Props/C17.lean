import AL.Model.Glob
import AL.Lemmas.GlobSpace
import AL.Lemmas.GlobGood
import AL.Lemmas.GlobSpecFacts
/-
  C17 — filter patterns are validated exactly by the documented glob syntax.
  Property theorems only; helper lemmas live in AL/Lemmas.
-/
namespace AL.C17
open AL AL.Glob AL.Spec

/-- Termination ("validation terminates for every string") is carried by the definitions themselves:
`classLoop` and `loop` are accepted by Lean's termination checker with the measure
`Scanner.remaining` (characters still deliverable by `Next`), using `validateNext_lt`. The one place
where the model's `loop` does not literally re-test the Go loop condition is a scanner already at
EOF; this theorem shows the Go condition is false there, so both stop. -/
theorem loop_guard_faithful (isRef : Bool) (st : GState) (h : st.scan.ch = none) :
    (validateNext isRef st).1 = false := by
  have hnext : st.next = (none, st) := by
    simp [GState.next, Scanner.next, h, scanErrs]
  unfold validateNext
  rw [hnext]
  simp [symRune, switchBody, finishNext, GState.peek, Scanner.peek, h]

/-- Every `validateNext` call on a scanner that still has a character strictly consumes input. -/
theorem step_consumes (isRef : Bool) (st : GState) (h : st.scan.ch ≠ none) :
    (validateNext isRef st).2.scan.remaining < st.scan.remaining :=
  validateNext_lt isRef st h

/-! ### Examples use ASCII patterns: one byte per character. -/

/-- ASCII pattern from code points. -/
def ascii (l : List Nat) : List Sym := l.map fun r => ⟨r, 1, false⟩

/-! ### 1. Every pattern accepted as a ref filter is accepted as a path filter -/

theorem ref_implies_path (src : List Sym) : validateRef src = [] → validatePath src = [] :=
  Glob.ref_implies_path src

/-- Non-vacuous: `v[0-9]+.*` is an accepted ref filter. -/
example : validateRef (ascii [118, 91, 48, 45, 57, 93, 43, 46, 42]) = [] := by decide +kernel
/-- The converse fails: `a b` is a fine path filter but not a ref filter. -/
example : validatePath (ascii [97, 32, 98]) = [] ∧ validateRef (ascii [97, 32, 98]) ≠ [] := by decide +kernel

/-! ### 2. Columns lie inside the pattern -/

/-- Columns count characters (a BOM included). Every report of `validate` — also those about an
unexpected EOF — has a column between 0 and the number of characters. (This is one less than the
bound `src.length + 1` one would expect for EOF reports: `Next` at EOF does not advance.) -/
theorem column_le (isRef : Bool) (src : List Sym) : ∀ e ∈ validate isRef src, e.col ≤ src.length :=
  fun e he => (validate_good isRef src e he).1

theorem column_le_ref (src : List Sym) : ∀ e ∈ validateRef src, e.col ≤ src.length :=
  column_le true src

/-- For path filters the only report outside the character range is the trailing-space report, whose
column is the *byte* length of the pattern. -/
theorem column_le_path (src : List Sym) :
    ∀ e ∈ validatePath src, e.col ≤ src.length ∨ e = ⟨(src.map (·.w)).sum, .trailingSpace⟩ := by
  intro e he
  unfold validatePath at he
  simp only [] at he
  split at he
  · left; simp only [List.mem_singleton] at he; subst he; exact Nat.zero_le _
  · split at he
    · right; simpa using he
    · left; exact column_le false src e he

/-- The trailing-space column is counted in bytes while every other column is counted in characters:
for `é ` (3 bytes, 2 characters) the reported column 3 is outside the 2-character pattern. -/
theorem trailing_space_col_counterexample :
    ∃ src : List Sym, ∃ e ∈ validatePath src, ¬ e.col ≤ src.length :=
  ⟨[⟨233, 2, false⟩, ⟨32, 1, false⟩], ⟨3, .trailingSpace⟩, by decide +kernel, by decide⟩

/-- Non-vacuous: `a[` is reported (missing `]`) at column 2 = number of characters. -/
example : validate false (ascii [97, 91]) = [⟨2, .unexpected none .classEnd .missing⟩] := by decide +kernel

/-! ### 3. The column is that of the character the message names -/

/-- Whenever a message names a character and the column is not the fallback 0 (used once a line
break has been read), the named character is the character at the reported (1-based) column.
`PosW src` says every character occupies at least one byte (true for every decoded string). This
covers all message kinds, including `invalidRef '\' esc` (reported before the escaped character is
consumed) and `invalidRef '/' startsWith`. -/
theorem named_char (isRef : Bool) (src : List Sym) (hw : PosW src) (e : GErr) (he : e ∈ validate isRef src)
    (ch : Nat) (hn : namedChar e.msg = some ch) (h0 : e.col ≠ 0) :
    (src[e.col - 1]?).map (·.r) = some ch :=
  (validate_good isRef src e he).2 ch hn hw h0

theorem named_char_unexpected (isRef : Bool) (src : List Sym) (hw : PosW src) (col ch : Nat) (w : What) (y : Why)
    (he : ⟨col, .unexpected (some ch) w y⟩ ∈ validate isRef src) (h0 : col ≠ 0) :
    (src[col - 1]?).map (·.r) = some ch :=
  named_char isRef src hw _ he ch rfl h0

theorem named_char_invalidRef (isRef : Bool) (src : List Sym) (hw : PosW src) (col ch : Nat) (y : RefWhy)
    (he : ⟨col, .invalidRef (some ch) y⟩ ∈ validate isRef src) (h0 : col ≠ 0) :
    (src[col - 1]?).map (·.r) = some ch :=
  named_char isRef src hw _ he ch rfl h0

/-- Non-vacuous: `[b-a]` names `a` at column 4; `a\x` as a ref names `\` at column 2. -/
example : validate true (ascii [91, 98, 45, 97, 93]) = [⟨4, .unexpected (some 97) .range (.badRange 98 97)⟩] ∧
    PosW (ascii [91, 98, 45, 97, 93]) := by
  refine ⟨by decide +kernel, ?_⟩
  intro c hc; simp [ascii] at hc; rcases hc with h | h | h | h | h <;> subst h <;> decide
example : validate true (ascii [97, 92, 120]) = [⟨2, .invalidRef (some 92) .esc⟩] := by decide +kernel

/-- Scanner reports (NUL, invalid UTF-8) name no character, and their column is that of the character
*before* the offending one (0 when it is the first): the error callback runs while the offending
character is being read as look-ahead. `a<NUL>` is reported at column 1. -/
theorem scan_col_counterexample :
    validate false (ascii [97, 0]) = [⟨1, .scan .nul⟩] ∧ validate false (ascii [0, 97]) = [⟨0, .scan .nul⟩] := by
  decide +kernel

/-! ### 4. A filter is reported iff it violates the documented syntax

`AL.Spec.ValidGlob` is the documented syntax; `AL.Spec.ValidGlobLoose` differs only in that the members
of a character class `[...]` are unrestricted. `NoBOM src`: the pattern does not start with U+FEFF
(which Go's scanner drops silently). -/

/-- The ideal statement. It is false, see `validate_iff_counterexample`. -/
def validate_iff_statement : Prop :=
  ∀ (isRef : Bool) (src : List Sym), validate isRef src = [] ↔ ValidGlob isRef src

/-- What is true: the validator accepts exactly the documented syntax *with unchecked class members*
(for patterns not starting with a BOM). Missing w.r.t. `validate_iff_statement`: line breaks and, for
refs, space TAB `~ ^ :` inside `[...]` are not reported; a leading BOM is ignored. -/
theorem validate_iff_partial (isRef : Bool) (src : List Sym) (hb : NoBOM src) :
    validate isRef src = [] ↔ ValidGlobLoose isRef src :=
  ⟨validate_sound isRef src hb, validate_complete isRef src hb⟩

theorem validateRef_iff_partial (src : List Sym) (hb : NoBOM src) :
    validateRef src = [] ↔ ValidGlobLoose true src :=
  validate_iff_partial true src hb

theorem validatePath_iff_partial (src : List Sym) (hb : NoBOM src) :
    validatePath src = [] ↔
      (src.head?.map (·.r) ≠ some 32 ∧ src.getLast?.map (·.r) ≠ some 32 ∧ ValidGlobLoose false src) := by
  unfold validatePath
  simp only []
  split
  · rename_i h; simp [h]
  · rename_i h
    split
    · rename_i h2; simp [h2]
    · rename_i h2
      rw [validate_iff_partial false src hb]
      exact ⟨fun hv => ⟨h, h2, hv⟩, fun hv => hv.2.2⟩

/-- One direction holds for the documented syntax itself: nothing valid is ever reported. -/
theorem validate_complete_strict (isRef : Bool) (src : List Sym) (hb : NoBOM src) (h : ValidGlob isRef src) :
    validate isRef src = [] :=
  validate_complete isRef src hb (validGlob_loosen h)

/-- The documented syntax has no line break anywhere and, for refs, none of space TAB `~ ^ :`. -/
theorem valid_no_linebreak (isRef : Bool) (src : List Sym) (h : ValidGlob isRef src) :
    ∀ c ∈ src, ¬ LineBreak c.r ∧ (isRef = true → ¬ RefInvalid c.r) :=
  validGlob_plain h

/-- Non-vacuous: `v[0-9]+.*` is valid (loose) as a ref and does not start with a BOM. -/
example : NoBOM (ascii [118, 91, 48, 45, 57, 93, 43, 46, 42]) ∧
    ValidGlobLoose true (ascii [118, 91, 48, 45, 57, 93, 43, 46, 42]) :=
  ⟨by decide, (validate_iff_partial true _ (by decide)).1 (by decide +kernel)⟩

/-- `[a<LF>b]` is accepted although it contains a line break. -/
theorem validate_iff_counterexample : ¬ validate_iff_statement := by
  intro h
  have hv : ValidGlob false (ascii [91, 97, 10, 98, 93]) := (h false _).1 (by decide +kernel)
  exact (valid_no_linebreak false _ hv ⟨10, 1, false⟩ (by decide)).1 (Or.inr rfl)

/-- `[a b]` is accepted as a ref filter although a ref name cannot contain a space. -/
theorem validate_iff_counterexample_ref :
    ∃ src, NoBOM src ∧ validateRef src = [] ∧ ¬ ValidGlob true src := by
  refine ⟨ascii [91, 97, 32, 98, 93], by decide, by decide +kernel, fun hv => ?_⟩
  exact (valid_no_linebreak true _ hv ⟨32, 1, false⟩ (by decide)).2 rfl (Or.inl rfl)

/-- The BOM hypothesis is needed: `<BOM>?` is valid by the documented syntax (a character followed by
`?`), but the scanner drops the BOM, so `?` is reported as having no predecessor. -/
theorem validate_iff_counterexample_bom :
    ∃ src, ValidGlobLoose false src ∧ validate false src ≠ [] := by
  refine ⟨[⟨0xFEFF, 3, false⟩, ⟨63, 1, false⟩], ⟨?_, ?_, ?_, by simp⟩, by decide +kernel⟩
  · intro c hc
    simp only [List.mem_cons, List.not_mem_nil, or_false] at hc
    rcases hc with hc | hc <;> subst hc <;> exact ⟨rfl, by decide⟩
  · simp [body]
  · have hb : body [⟨0xFEFF, 3, false⟩, ⟨63, 1, false⟩] = [⟨0xFEFF, 3, false⟩, ⟨63, 1, false⟩] := by simp [body]
    rw [hb]
    refine .ord _ _ _ ?_ (.opt _ _ (Or.inl rfl) (.nil _))
    unfold Ordinary LineBreak RefInvalid
    simp

/-- A pattern consisting of a BOM only is accepted without any report, although nothing is left of it. -/
theorem bom_only_accepted (isRef : Bool) : validate isRef [⟨0xFEFF, 3, false⟩] = [] := by
  cases isRef <;> decide +kernel

end AL.C17
