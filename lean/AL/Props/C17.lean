import AL.Model.Glob
/-
  C17 — filter patterns are validated exactly by the documented glob syntax.
  Property theorems only; helper lemmas live in AL/Lemmas.
-/
namespace AL.C17
open AL AL.Glob

/-- Termination ("validation terminates for every string") is carried by the definitions themselves:
`classLoop` and `loop` are accepted by Lean's termination checker with the measure
`Scanner.remaining` (characters still deliverable by `Next`), using `validateNext_lt`. The one place
where the model's `loop` does not literally re-test the Go loop condition is a scanner already at
EOF; this theorem shows the Go condition is false there, so both stop. -/
theorem loop_guard_faithful (isRef : Bool) (st : GState) (h : st.scan.ch = none) :
    (validateNext isRef st).1 = false := by
  have hnext : st.next = (none, st) := by
    simp [GState.next, Scanner.next, h, scanErrs]
  unfold validateNext
  rw [hnext]
  simp [symRune, switchBody, finishNext, GState.peek, Scanner.peek, h]

/-- Every `validateNext` call on a scanner that still has a character strictly consumes input. -/
theorem step_consumes (isRef : Bool) (st : GState) (h : st.scan.ch ≠ none) :
    (validateNext isRef st).2.scan.remaining < st.scan.remaining :=
  validateNext_lt isRef st h

end AL.C17
