import AL.Props.C13Parse
/-
  C08 on the model of the workflow parser (AL.PW, tied by `parsewf`): "the parser lower-cases the ids of case-insensitive
  mappings (jobs, inputs, secrets, outputs, with, env, matrix, services)". Every Go map of the AST whose names are
  case-insensitive is keyed by `strings.ToLower` of the name as written — for every node tree.
-/
namespace AL.C08P
open AL.PW AL.Yaml AL.Ast AL.C13P

/-- what `parseMapping` hands out: the id is the key folded (case-insensitive mapping) / the key itself (case-sensitive) -/
theorem parseMapping_ids (cfg : Cfg) (what : String) (n : Node) (ae cs : Bool) :
    ∀ kv ∈ (parseMapping cfg what n ae cs).1, kv.id = if cs then kv.key.value else cfg.lower kv.key.value := by
  intro kv h
  simp only [parseMapping] at h
  split at h
  · cases h
  · split at h
    · cases h
    · obtain ⟨q, _, h1, h2, _⟩ := mappingLoop_ids cfg what cs _ _ kv h
      rw [h1, h2, keyId]

theorem parseMapping_ids_folded (cfg : Cfg) (what : String) (n : Node) (ae : Bool) :
    ∀ kv ∈ (parseMapping cfg what n ae false).1, kv.id = cfg.lower kv.key.value := by
  intro kv h; simpa using parseMapping_ids cfg what n ae false kv h

theorem mapKVs_mem {β : Type} (f : KV → R β) (kvs : List KV) :
    ∀ p ∈ (mapKVs f kvs).1, ∃ kv ∈ kvs, p.1 = kv.id ∧ p.2 = (f kv).1 := by
  induction kvs with
  | nil => intro p h; cases h
  | cons kv rest ih =>
    intro p h
    simp only [mapKVs] at h
    rcases List.mem_cons.1 h with rfl | h
    · exact ⟨kv, by simp, rfl, rfl⟩
    · obtain ⟨kv', hm, e⟩ := ih p h
      exact ⟨kv', by simp [hm], e⟩

/-- the job node keeps the id it was parsed under -/
theorem parseJob_id (cfg : Cfg) (id : Str) (n : Node) : (parseJob cfg id n).1.id = id := by
  have h : (loop (jobKey cfg) { job := { id := id, pos := id.pos } } (parseMapping cfg (jobWhat id.value) n false true).1).1.job.id = id := by
    apply loop_inv (jobKey cfg) (fun st => st.job.id = id)
    · intro s kv _ hs
      simp only [jobKey]
      split <;> (try split) <;> (try split) <;> simp_all
    · rfl
  simp only [parseJob, jobFinish]
  split
  · split <;> simp [h]
  · simp [h]

/-- `Workflow.Jobs` is keyed by the lower-cased job id -/
theorem jobs_keys_folded (cfg : Cfg) (n : Node) : ∀ p ∈ (parseJobs cfg n).1, p.1 = cfg.lower p.2.id.value := by
  intro p h
  obtain ⟨kv, hm, h1, h2⟩ := mapKVs_mem _ _ p h
  rw [h1, h2, parseJob_id]
  exact parseMapping_ids_folded cfg _ n false kv hm

/-- `Env.Vars` is keyed by the lower-cased variable name -/
theorem env_keys_folded (cfg : Cfg) (n : Node) (vars : List (String × EnvVar)) (h : (parseEnv cfg n).1.vars = some vars) :
    ∀ p ∈ vars, p.1 = cfg.lower p.2.name.value := by
  intro p hp
  simp only [parseEnv] at h
  split at h
  · cases h
  · simp only [Option.some.injEq] at h
    subst h
    obtain ⟨kv, hm, h1, h2⟩ := mapKVs_mem _ _ p hp
    rw [h1, h2]
    exact parseMapping_ids_folded cfg _ n false kv hm

/-- `Job.Outputs` -/
theorem outputs_keys_folded (cfg : Cfg) (n : Node) : ∀ p ∈ (parseOutputs cfg n).1, p.1 = cfg.lower p.2.name.value := by
  intro p hp
  obtain ⟨kv, hm, h1, h2⟩ := mapKVs_mem _ _ p hp
  rw [h1, h2]
  exact parseMapping_ids_folded cfg _ n false kv hm

/-- `with:` / `secrets:` of a job that calls a reusable workflow -/
theorem callArgs_keys (kvs : List KV) : ∀ p ∈ (callArgs kvs).1, ∃ kv ∈ kvs, p.1 = kv.id ∧ p.2.name = kv.key := by
  intro p hp
  obtain ⟨kv, hm, h1, h2⟩ := mapKVs_mem _ _ p hp
  exact ⟨kv, hm, h1, by rw [h2]⟩

/-- `Services.Value` -/
theorem services_keys_folded (cfg : Cfg) (n : Node) (m : List (String × Service)) (h : (parseServices cfg n).1.value = some m) :
    ∀ p ∈ m, p.1 = cfg.lower p.2.name.value := by
  intro p hp
  simp only [parseServices] at h
  split at h
  · cases h
  · simp only [Option.some.injEq] at h
    subst h
    obtain ⟨kv, hm, h1, h2⟩ := mapKVs_mem _ _ p hp
    rw [h1, h2]
    exact parseMapping_ids_folded cfg _ n false kv hm

/-- `Permissions.Scopes` (the parser folds them; the rule then compares the names as written) -/
theorem permissions_keys_folded (cfg : Cfg) (pos : Pos) (n : Node) (m : List (String × PermissionScope))
    (h : (parsePermissions cfg pos n).1.scopes = some m) : ∀ p ∈ m, p.1 = cfg.lower p.2.name.value := by
  intro p hp
  simp only [parsePermissions] at h
  split at h
  · cases h
  · simp only [Option.some.injEq] at h
    subst h
    obtain ⟨kv, hm, h1, h2⟩ := mapKVs_mem _ _ p hp
    rw [h1, h2]
    exact parseMapping_ids_folded cfg _ n true kv hm

/-- the inputs of `workflow_dispatch` -/
theorem dispatchInputs_keys_folded (cfg : Cfg) (kvs : List KV) (hk : ∀ kv ∈ kvs, kv.id = cfg.lower kv.key.value) :
    ∀ p ∈ (mapKVs (dispatchInput cfg) kvs).1, p.1 = cfg.lower p.2.name.value := by
  intro p hp
  obtain ⟨kv, hm, h1, h2⟩ := mapKVs_mem _ _ p hp
  rw [h1, h2, hk kv hm]
  simp [dispatchInput]

/-- the inputs of `workflow_call`: `ID` is the lower-cased name -/
theorem callInput_id (cfg : Cfg) (kv : KV) : (callInput cfg kv).1.id = kv.id ∧ (callInput cfg kv).1.name = kv.key := by
  have h : let st := (loop callInputAttr ({ name := kv.key, id := kv.id }, false) (parseMapping cfg "input of workflow_call event" kv.val true true).1).1
      st.1.id = kv.id ∧ st.1.name = kv.key := by
    apply loop_inv callInputAttr (fun st => st.1.id = kv.id ∧ st.1.name = kv.key)
    · intro s a _ hs
      simp only [callInputAttr]
      split <;> (try split) <;> simp_all
    · exact ⟨rfl, rfl⟩
  simpa [callInput] using h

theorem callInputs_ids_folded (cfg : Cfg) (kvs : List KV) (hk : ∀ kv ∈ kvs, kv.id = cfg.lower kv.key.value) :
    ∀ i ∈ (callInputs cfg kvs).1, i.id = cfg.lower i.name.value := by
  induction kvs with
  | nil => intro i h; cases h
  | cons kv rest ih =>
    intro i h
    simp only [callInputs] at h
    rcases List.mem_cons.1 h with rfl | h
    · rw [(callInput_id cfg kv).1, (callInput_id cfg kv).2]; exact hk kv (by simp)
    · exact ih (fun kv' hm => hk kv' (by simp [hm])) i h

/-- nested mappings inside matrix values: `RawYAMLObject.Props` is keyed by the lower-cased key at every depth -/
theorem rawProps_keys (cfg : Cfg) : ∀ (cs : List Node) (seen : List (String × Pos)),
    ∀ p ∈ (rawProps cfg cs seen).1, ∃ kn ∈ cs, p.1 = cfg.lower (parseString kn false).1.value
  | [], _ => by intro p h; simp [rawProps] at h
  | [_], _ => by intro p h; simp [rawProps] at h
  | kn :: vn :: rest, seen => by
    intro p h
    rw [rawProps] at h
    simp only at h
    split at h
    · obtain ⟨k, hk, e⟩ := rawProps_keys cfg rest seen p h
      exact ⟨k, by simp [hk], e⟩
    · split at h
      · rcases List.mem_cons.1 h with rfl | h
        · exact ⟨kn, by simp, rfl⟩
        · obtain ⟨k, hk, e⟩ := rawProps_keys cfg rest _ p h
          exact ⟨k, by simp [hk], e⟩
      · obtain ⟨k, hk, e⟩ := rawProps_keys cfg rest _ p h
        exact ⟨k, by simp [hk], e⟩

/-- the keys of matrix rows -/
theorem matrix_rows_keys (cfg : Cfg) (kvs : List KV) :
    ∀ (st : Matrix), (∀ rows, st.rows = some rows → ∀ p ∈ rows, ∃ kv ∈ kvs, p.1 = kv.id) →
      ∀ rows, (loop (matrixKey cfg) st kvs).1.rows = some rows → ∀ p ∈ rows, ∃ kv ∈ kvs, p.1 = kv.id := by
  intro st h0
  apply loop_inv (matrixKey cfg) (fun st => ∀ rows, st.rows = some rows → ∀ p ∈ rows, ∃ kv ∈ kvs, p.1 = kv.id) kvs _ st h0
  intro s kv hm hs
  simp only [matrixKey]
  have hset : ∀ (row : MatrixRow) rows, some (setAssoc kv.id row (s.rows.getD [])) = some rows → ∀ p ∈ rows, ∃ kv ∈ kvs, p.1 = kv.id := by
    intro row rows e p hp
    simp only [Option.some.injEq] at e
    subst e
    have : ∀ (l : List (String × MatrixRow)), (∀ p ∈ l, ∃ kv ∈ kvs, p.1 = kv.id) → ∀ p ∈ setAssoc kv.id row l, ∃ kv ∈ kvs, p.1 = kv.id := by
      intro l hl
      induction l with
      | nil => intro p hp; simp only [setAssoc, List.mem_singleton] at hp; subst hp; exact ⟨kv, hm, rfl⟩
      | cons x rest ih =>
        intro p hp
        simp only [setAssoc] at hp
        split at hp
        · rcases List.mem_cons.1 hp with rfl | hp
          · exact ⟨kv, hm, rfl⟩
          · exact hl p (by simp [hp])
        · rcases List.mem_cons.1 hp with rfl | hp
          · exact hl _ (by simp)
          · exact ih (fun q hq => hl q (by simp [hq])) p hp
    apply this _ _ p hp
    cases hr : s.rows with
    | none => intro p hp; simp at hp
    | some rows => intro p hp; simpa using hs rows hr p (by simpa using hp)
  split
  · exact hs
  · exact hs
  · split
    · exact hset _
    · split
      · exact hs
      · exact hset _

end AL.C08P
