import AL.Props.C18Parse
import AL.Props.C05Doc
/-
  C18 from the DOCUMENT: the needs graph of what is WRITTEN under `jobs:` (keys) and under each `needs:` (entries), and the
  two reports of rule job-needs in terms of it. For a document the parser accepts without a diagnostic
  (`(parse cfg doc).2 = []`):

    jobsOf_written        the jobs of the AST are the pairs of `jobs:`, in order
    doc_undefined_exact   "needs undefined" at job `p` for `dep` iff `dep` (non-empty) is the folded text of an entry written
                          under `needs:` of `p` and no key of `jobs:` folds to `dep`
    docGraph              the needs graph on the node tree alone: vertices = the pairs of `jobs:` (with a non-empty folded
                          key), in order; `w ∈ succ v` iff an entry of `needs:` of `v` folds to the folded key of `w`
    docGraph_is_rule_graph   same length, same ids, same positions, same edges as the graph the rule builds
    docGraph_cyclic_iff / docGraph_isCycle_iff   hence the same cycles
    doc_no_undefined_iff  no "needs undefined" iff every (non-empty) entry of every `needs:` names a key of `jobs:`
    doc_cyclic_iff, doc_acyclic_none, doc_cyclic_some, doc_printed_is_cycle
-/
namespace AL.C18D
open AL AL.PW AL.Ast AL.Spec AL.C18 AL.C18P AL.C05D

/-! ## 1. the jobs of the AST, the dangling references -/

/-- the jobs the rule walks over are the jobs built from the pairs of `jobs:`, in order -/
theorem jobsOf_written (cfg : Cfg) (doc : Yaml.Node) (h : (parse cfg doc).2 = []) :
    Rules.jobsOf (parse cfg doc).1 = (docJobs doc).map (docJob cfg) := by
  have := jobs_written cfg doc h
  unfold docJobsAst at this
  simp only [Rules.jobsOf, this, List.map_map]
  rfl

theorem docJob_id_value (cfg : Cfg) (p : Yaml.Node × Yaml.Node) : (docJob cfg p).id.value = p.1.value := by
  rw [job_id_written]; rfl

theorem docJob_id_pos (cfg : Cfg) (p : Yaml.Node × Yaml.Node) : (docJob cfg p).id.pos = p.1.pos := by
  rw [job_id_written]; rfl

/-- the folded texts of the entries of a job's `needs` are the folded texts written under `needs:` -/
theorem needs_folded_written (cfg : Cfg) (doc : Yaml.Node) (h : (parse cfg doc).2 = []) (p : Yaml.Node × Yaml.Node)
    (hp : p ∈ docJobs doc) (dep : String) :
    (∃ n ∈ (docJob cfg p).needs.getD [], cfg.lower n.value = dep) ↔ ∃ s ∈ docNeeds p.2, cfg.lower s = dep := by
  rw [← (needs_written cfg doc h p hp).2]
  simp only [List.mem_map]
  constructor
  · rintro ⟨n, hn, e⟩; exact ⟨n.value, ⟨n, hn, rfl⟩, e⟩
  · rintro ⟨s, ⟨n, hn, rfl⟩, e⟩; exact ⟨n, hn, e⟩

/-- **C18 (e) on the document**: rule job-needs reports "needs undefined" at the key `p` of `jobs:` for the name `dep` iff
`dep` is the non-empty folded text of an entry WRITTEN under `needs:` of `p` and no key of `jobs:` folds to `dep`. -/
theorem doc_undefined_exact (cfg : Cfg) (doc : Yaml.Node) (h : (parse cfg doc).2 = []) (pos : Rules.Pos) (i dep : String) :
    (⟨pos, "job-needs", "needs-undefined", [i, dep]⟩ : Rules.Diag) ∈ Rules.ruleJobNeeds cfg.lower (parse cfg doc).1 ↔
      (∃ p ∈ docJobs doc, p.1.pos = pos ∧ cfg.lower p.1.value = i ∧ i ≠ "" ∧ dep ≠ "" ∧
        ∃ s ∈ docNeeds p.2, cfg.lower s = dep) ∧
      ∀ k ∈ docJobIds doc, cfg.lower k ≠ dep := by
  rw [parsed_undefined_exact, jobsOf_written cfg doc h]
  simp only [List.mem_map, docJobIds]
  constructor
  · rintro ⟨j, ⟨p, hp, rfl⟩, h1, h2, h3, h4, h5, h6⟩
    rw [docJob_id_value] at h1 h3
    rw [docJob_id_pos] at h2
    refine ⟨⟨p, hp, h2, h3, h3 ▸ h1, h4, (needs_folded_written cfg doc h p hp dep).1 h5⟩, ?_⟩
    rintro k ⟨q, hq, rfl⟩
    have := h6 _ ⟨q, hq, rfl⟩
    rwa [docJob_id_value] at this
  · rintro ⟨⟨p, hp, h2, h3, h1, h4, h5⟩, h6⟩
    refine ⟨_, ⟨p, hp, rfl⟩, ?_, ?_, ?_, h4, (needs_folded_written cfg doc h p hp dep).2 h5, ?_⟩
    · rw [docJob_id_value, h3]; exact h1
    · rw [docJob_id_pos]; exact h2
    · rw [docJob_id_value]; exact h3
    · rintro j' ⟨q, hq, rfl⟩
      rw [docJob_id_value]
      exact h6 _ ⟨q, hq, rfl⟩

/-! ## 2. the needs graph of the document -/

/-- the vertices: the pairs of `jobs:` whose folded key is not empty, in the order written -/
def docVerts (lower : String → String) (doc : Yaml.Node) : List (Yaml.Node × Yaml.Node) :=
  (docJobs doc).filter fun p => lower p.1.value ≠ ""

/-- the folded keys of the vertices -/
def docVertIds (lower : String → String) (doc : Yaml.Node) : List String := (docVerts lower doc).map fun p => lower p.1.value

/-- the index of the first vertex whose folded key is `d` -/
def docIndex (ids : List String) (d : String) : Option Nat :=
  if ids.findIdx (· = d) < ids.length then some (ids.findIdx (· = d)) else none

/-- **the needs graph of the document**, on the node tree alone: one vertex per key of `jobs:`, an edge to the vertex whose
folded key is the folded text of an entry written under `needs:` -/
def docGraph (lower : String → String) (doc : Yaml.Node) : Needs.Graph :=
  (docVerts lower doc).map fun p =>
    { id := lower p.1.value, pos := ⟨p.1.line, p.1.col⟩,
      resolved := ((docNeeds p.2).map lower).filterMap (docIndex (docVertIds lower doc)) }

theorem docIndex_some (ids : List String) (d : String) (w : Nat) :
    docIndex ids d = some w ↔ ids[w]? = some d ∧ ∀ u, u < w → ids[u]? ≠ some d := by
  unfold docIndex
  constructor
  · intro hh
    split at hh
    · rename_i hlt
      simp only [Option.some.injEq] at hh
      subst hh
      refine ⟨?_, ?_⟩
      · have := List.findIdx_getElem (w := hlt)
        rw [List.getElem?_eq_getElem hlt]
        simpa using this
      · intro u hu e
        have hul : u < ids.length := Nat.lt_trans hu hlt
        have := List.not_of_lt_findIdx hu
        rw [List.getElem?_eq_getElem hul] at e
        simp only [Option.some.injEq] at e
        simp [e] at this
    · cases hh
  · rintro ⟨h1, h2⟩
    obtain ⟨hw, e⟩ := List.getElem?_eq_some_iff.1 h1
    have hfi : ids.findIdx (· = d) = w := by
      apply (List.findIdx_eq hw).2
      refine ⟨by simp [e], ?_⟩
      intro j hj
      have := h2 j hj
      rw [List.getElem?_eq_getElem (Nat.lt_trans hj hw)] at this
      simpa using this
    simp [hfi, hw]

/-- the edges of `docGraph`, read off the document: `w ∈ succ v` iff an entry written under `needs:` of the `v`-th key of
`jobs:` folds to the folded `w`-th key (and `w` is the first such key) -/
theorem docGraph_succ (lower : String → String) (doc : Yaml.Node) (v w : Nat) :
    w ∈ (docGraph lower doc).succ v ↔
      ∃ p, (docVerts lower doc)[v]? = some p ∧ ∃ s ∈ docNeeds p.2,
        (docVertIds lower doc)[w]? = some (lower s) ∧ ∀ u, u < w → (docVertIds lower doc)[u]? ≠ some (lower s) := by
  simp only [Needs.Graph.succ, docGraph, List.getElem?_map]
  cases hv : (docVerts lower doc)[v]? with
  | none => simp
  | some p =>
    simp only [Option.map_some, Option.getD_some, List.mem_filterMap, List.mem_map, Option.some.injEq, exists_eq_left']
    constructor
    · rintro ⟨d, ⟨s, hs, rfl⟩, hd⟩
      exact ⟨s, hs, (docIndex_some _ _ _).1 hd⟩
    · rintro ⟨s, hs, hd⟩
      exact ⟨_, ⟨s, hs, rfl⟩, (docIndex_some _ _ _).2 hd⟩

theorem indexOf?_eq_docIndex (nodes : List Needs.RawNode) (d : String) :
    Needs.indexOf? nodes d = docIndex (nodes.map (·.id)) d := by
  have : nodes.findIdx (fun n => decide (n.id = d)) = (nodes.map (·.id)).findIdx (fun s => decide (s = d)) := by
    induction nodes with
    | nil => rfl
    | cons n rest ih => simp only [List.map_cons, List.findIdx_cons, ih]
  simp only [Needs.indexOf?, docIndex, this, List.length_map]

/-- the nodes the rule collects are built from the vertices of the document -/
theorem nodes_written (cfg : Cfg) (doc : Yaml.Node) (h : (parse cfg doc).2 = []) :
    nodesOf cfg.lower (jobsIn (parse cfg doc).1) =
      (docVerts cfg.lower doc).map fun p => mkNode cfg.lower (Rules.needsJobIn (docJob cfg p)) := by
  rw [parsed_nodes, jobsIn, jobsOf_written cfg doc h, List.map_map, List.filter_map, List.map_map, docVerts]
  congr 1
  apply List.filter_congr
  intro p _
  simp only [Function.comp, Rules.needsJobIn, docJob_id_value]

theorem nodes_ids_written (cfg : Cfg) (doc : Yaml.Node) (h : (parse cfg doc).2 = []) :
    (nodesOf cfg.lower (jobsIn (parse cfg doc).1)).map (·.id) = docVertIds cfg.lower doc := by
  rw [nodes_written cfg doc h, List.map_map, docVertIds]
  apply List.map_congr_left
  intro p _
  simp only [Function.comp, mkNode, Rules.needsJobIn, docJob_id_value]

/-- **`docGraph` is the graph the rule builds**: vertex by vertex the same id and position, and the same edges (the
rule's `resolved` list drops repeated entries, `docGraph` keeps them: the same set of successors). -/
theorem docGraph_is_rule_graph (cfg : Cfg) (doc : Yaml.Node) (h : (parse cfg doc).2 = []) :
    (graphOf cfg.lower (jobsIn (parse cfg doc).1)).length = (docGraph cfg.lower doc).length ∧
    (graphOf cfg.lower (jobsIn (parse cfg doc).1)).map (·.id) = (docGraph cfg.lower doc).map (·.id) ∧
    (graphOf cfg.lower (jobsIn (parse cfg doc).1)).map (·.pos) = (docGraph cfg.lower doc).map (·.pos) ∧
    ∀ v w, w ∈ (graphOf cfg.lower (jobsIn (parse cfg doc).1)).succ v ↔ w ∈ (docGraph cfg.lower doc).succ v := by
  have hn := nodes_written cfg doc h
  have hi := nodes_ids_written cfg doc h
  refine ⟨?_, ?_, ?_, ?_⟩
  · simp only [graphOf, Needs.resolve, hn, docGraph, List.length_map]
  · simp only [graphOf, Needs.resolve, hn, docGraph, List.map_map]
    apply List.map_congr_left
    intro p _
    simp only [Function.comp, mkNode, Rules.needsJobIn, docJob_id_value]
  · simp only [graphOf, Needs.resolve, hn, docGraph, List.map_map]
    apply List.map_congr_left
    intro p _
    simp only [Function.comp, mkNode, Rules.needsJobIn, docJob_id_pos, Rules.toNP]
    rfl
  · intro v w
    simp only [graphOf, Needs.resolve, Needs.Graph.succ, List.getElem?_map, docGraph]
    rw [hn, List.getElem?_map]
    cases hv : (docVerts cfg.lower doc)[v]? with
    | none => simp
    | some p =>
      have hp : p ∈ docJobs doc := (List.mem_filter.1 (List.mem_of_getElem? hv)).1
      simp only [Option.map_some, Option.getD_some, List.mem_filterMap, List.mem_map]
      rw [← hn]
      simp only [indexOf?_eq_docIndex, hi, mkNode, normNeeds_mem, List.not_mem_nil, false_or]
      constructor
      · rintro ⟨d, ⟨_, n, hnn, hd⟩, hw⟩
        simp only [Rules.needsJobIn, List.mem_map] at hnn
        obtain ⟨s, hs, rfl⟩ := hnn
        obtain ⟨s', hs', e⟩ := (needs_folded_written cfg doc h p hp d).1 ⟨s, hs, hd⟩
        exact ⟨d, ⟨s', hs', e⟩, hw⟩
      · rintro ⟨d, ⟨s', hs', e⟩, hw⟩
        obtain ⟨s, hs, hd⟩ := (needs_folded_written cfg doc h p hp d).2 ⟨s', hs', e⟩
        refine ⟨d, ⟨?_, ⟨s.value, Rules.toNP s.pos⟩, ?_, hd⟩, hw⟩
        · rintro rfl
          obtain ⟨h1, _⟩ := (docIndex_some _ _ _).1 hw
          have hm := List.mem_of_getElem? h1
          simp only [docVertIds, docVerts, List.mem_map, List.mem_filter] at hm
          obtain ⟨q, ⟨_, hq⟩, e'⟩ := hm
          simp [e'] at hq
        · simp only [Rules.needsJobIn, List.mem_map]
          exact ⟨s, hs, rfl⟩

/-! ### graphs with the same vertices and edges have the same walks -/

theorem walk_congr (g g' : Needs.Graph) (hl : g.length = g'.length) (hs : ∀ v w, w ∈ g.succ v ↔ w ∈ g'.succ v) :
    ∀ vs, Walk g vs → Walk g' vs := by
  intro vs hw
  induction hw with
  | single v hv => exact .single v (hl ▸ hv)
  | cons v w rest hv he _ ih => exact .cons v w rest (hl ▸ hv) ((hs v w).1 he) ih

theorem isCycle_congr (g g' : Needs.Graph) (hl : g.length = g'.length) (hs : ∀ v w, w ∈ g.succ v ↔ w ∈ g'.succ v)
    (vs : List Nat) : IsCycle g vs ↔ IsCycle g' vs :=
  ⟨fun ⟨a, b, c⟩ => ⟨walk_congr g g' hl hs vs a, b, c⟩,
   fun ⟨a, b, c⟩ => ⟨walk_congr g' g hl.symm (fun v w => (hs v w).symm) vs a, b, c⟩⟩

/-- the cycles of the rule's graph are the cycles of the document's graph -/
theorem docGraph_isCycle_iff (cfg : Cfg) (doc : Yaml.Node) (h : (parse cfg doc).2 = []) (vs : List Nat) :
    IsCycle (graphOf cfg.lower (jobsIn (parse cfg doc).1)) vs ↔ IsCycle (docGraph cfg.lower doc) vs :=
  have hh := docGraph_is_rule_graph cfg doc h
  isCycle_congr _ _ hh.1 hh.2.2.2 vs

theorem docGraph_cyclic_iff (cfg : Cfg) (doc : Yaml.Node) (h : (parse cfg doc).2 = []) :
    Cyclic (graphOf cfg.lower (jobsIn (parse cfg doc).1)) ↔ Cyclic (docGraph cfg.lower doc) :=
  ⟨fun ⟨vs, hv⟩ => ⟨vs, (docGraph_isCycle_iff cfg doc h vs).1 hv⟩,
   fun ⟨vs, hv⟩ => ⟨vs, (docGraph_isCycle_iff cfg doc h vs).2 hv⟩⟩

theorem docGraph_idOf (cfg : Cfg) (doc : Yaml.Node) (h : (parse cfg doc).2 = []) (v : Nat) :
    Needs.idOf (graphOf cfg.lower (jobsIn (parse cfg doc).1)) v = Needs.idOf (docGraph cfg.lower doc) v := by
  have := congrArg (fun l => (l[v]?).getD "") (docGraph_is_rule_graph cfg doc h).2.1
  simpa [Needs.idOf, List.getElem?_map] using this

theorem docGraph_posOf (cfg : Cfg) (doc : Yaml.Node) (h : (parse cfg doc).2 = []) (v : Nat) :
    Needs.posOf (graphOf cfg.lower (jobsIn (parse cfg doc).1)) v = Needs.posOf (docGraph cfg.lower doc) v := by
  have := congrArg (fun l => (l[v]?).getD ⟨0, 0⟩) (docGraph_is_rule_graph cfg doc h).2.2.1
  simpa [Needs.posOf, List.getElem?_map] using this

/-! ## 3. the cyclic-dependency report, on the document -/

/-- every non-empty folded entry written under a `needs:` (of a job with a non-empty folded key) names a key of `jobs:` -/
def DocNeedsDefined (lower : String → String) (doc : Yaml.Node) : Prop :=
  ∀ p ∈ docJobs doc, lower p.1.value ≠ "" → ∀ s ∈ docNeeds p.2, lower s ≠ "" → ∃ k ∈ docJobIds doc, lower k = lower s

/-- no "needs undefined" report iff every entry of every `needs:` names a key of `jobs:` -/
theorem doc_no_undefined_iff (cfg : Cfg) (doc : Yaml.Node) (h : (parse cfg doc).2 = []) :
    (∀ d ∈ Rules.ruleJobNeeds cfg.lower (parse cfg doc).1, d.code ≠ "needs-undefined") ↔ DocNeedsDefined cfg.lower doc := by
  constructor
  · intro hu p hp hne s hs hsne
    apply Classical.byContradiction
    intro hno
    have hmem := (doc_undefined_exact cfg doc h p.1.pos (cfg.lower p.1.value) (cfg.lower s)).2
      ⟨⟨p, hp, rfl, rfl, hne, hsne, s, hs, rfl⟩, fun k hk e => hno ⟨k, hk, e⟩⟩
    exact hu _ hmem rfl
  · intro hdef d hd hc
    rw [ruleJobNeeds_eq] at hd
    obtain ⟨x, hx, rfl⟩ := List.mem_map.1 hd
    obtain ⟨np, i, dep, rfl⟩ := (needsDiag_code x).2.1.1 hc
    have hmem : (⟨Rules.ofNP np, "job-needs", "needs-undefined", [i, dep]⟩ : Rules.Diag) ∈
        Rules.ruleJobNeeds cfg.lower (parse cfg doc).1 := by
      rw [ruleJobNeeds_eq]; exact List.mem_map.2 ⟨_, hx, rfl⟩
    obtain ⟨⟨p, hp, _, h3, h1, h4, s, hs, e⟩, h6⟩ := (doc_undefined_exact cfg doc h _ i dep).1 hmem
    obtain ⟨k, hk, ek⟩ := hdef p hp (h3 ▸ h1) s hs (e ▸ h4)
    exact h6 k hk (ek.trans e)

/-- **C18 (a)+(b) on the document**: a cyclic-dependency diagnostic is reported iff every entry of every `needs:` names a
key of `jobs:` and the needs graph of the document has a cycle. -/
theorem doc_cyclic_iff (cfg : Cfg) (doc : Yaml.Node) (h : (parse cfg doc).2 = []) :
    (∃ d ∈ Rules.ruleJobNeeds cfg.lower (parse cfg doc).1, d.code = "needs-cyclic") ↔
      DocNeedsDefined cfg.lower doc ∧ Cyclic (docGraph cfg.lower doc) := by
  rw [parsed_cyclic_iff, doc_no_undefined_iff cfg doc h, docGraph_cyclic_iff cfg doc h]

/-- (a) alone: an acyclic document gets no cyclic-dependency report -/
theorem doc_acyclic_none (cfg : Cfg) (doc : Yaml.Node) (h : (parse cfg doc).2 = []) (ha : ¬ Cyclic (docGraph cfg.lower doc)) :
    ∀ d ∈ Rules.ruleJobNeeds cfg.lower (parse cfg doc).1, d.code ≠ "needs-cyclic" :=
  fun d hd hc => ha ((doc_cyclic_iff cfg doc h).1 ⟨d, hd, hc⟩).2

/-- (b) alone -/
theorem doc_cyclic_some (cfg : Cfg) (doc : Yaml.Node) (h : (parse cfg doc).2 = [])
    (hdef : DocNeedsDefined cfg.lower doc) (hc : Cyclic (docGraph cfg.lower doc)) :
    ∃ d ∈ Rules.ruleJobNeeds cfg.lower (parse cfg doc).1, d.code = "needs-cyclic" :=
  (doc_cyclic_iff cfg doc h).2 ⟨hdef, hc⟩

/-- **C18 (c) on the document**: the message of a cyclic-dependency report spells a cycle of the document's needs graph
(folded keys of `jobs:`), and the report is at the earliest key on it. -/
theorem doc_printed_is_cycle (cfg : Cfg) (doc : Yaml.Node) (h : (parse cfg doc).2 = []) (d : Rules.Diag)
    (hd : d ∈ Rules.ruleJobNeeds cfg.lower (parse cfg doc).1) (hc : d.code = "needs-cyclic") :
    ∃ vs, IsCycle (docGraph cfg.lower doc) vs ∧
      d.args = [",".intercalate (vs.map (Needs.idOf (docGraph cfg.lower doc)))] ∧
      d.pos = Rules.ofNP (Needs.posOf (docGraph cfg.lower doc) (vs.headD 0)) ∧
      ∀ v ∈ vs, ¬ (Needs.posOf (docGraph cfg.lower doc) v).isBefore (Needs.posOf (docGraph cfg.lower doc) (vs.headD 0)) := by
  obtain ⟨vs, h1, h2, h3, h4⟩ := parsed_printed_is_cycle cfg doc d hd hc
  refine ⟨vs, (docGraph_isCycle_iff cfg doc h vs).1 h1, ?_, ?_, ?_⟩
  · rw [h2]
    congr 2
    exact List.map_congr_left fun v _ => docGraph_idOf cfg doc h v
  · rw [h3, docGraph_posOf cfg doc h]
  · intro v hv
    rw [← docGraph_posOf cfg doc h, ← docGraph_posOf cfg doc h]
    exact h4 v hv

/-! ## 4. three concrete three-job documents: a cycle, a dangling reference, a DAG -/

section Examples

abbrev xCfg : Cfg := C18P.exCfg
/-- `{ runs-on: u, steps: [ {run: x} ] }` on line `l`: a job without `needs:` -/
def jobNode0 (l : Nat) : Yaml.Node :=
  mp l 3 [sc "runs-on" l 3, sc "u" l 12, sc "steps" l 30, sq l 37 [mp l 38 [sc "run" l 38, sc "x" l 43]]]

/-- `A: needs [c]`, `b: needs [a]`, `c: needs [B]` — the cycle a → c → b → a, through two foldings -/
def dCyc : Yaml.Node := docOf [sc "A" 3 1, jobNode 3 ["c"], sc "b" 4 1, jobNode 4 ["a"], sc "c" 5 1, jobNode 5 ["B"]]
/-- `A: needs [B, ZZ]`, `b`, `c: needs [a]` — `ZZ` names no job -/
def dDang : Yaml.Node := docOf [sc "A" 3 1, jobNode 3 ["B", "ZZ"], sc "b" 4 1, jobNode0 4, sc "c" 5 1, jobNode 5 ["a"]]
/-- `A`, `b: needs [a]`, `c: needs [A, b, a]` — acyclic; the third entry of `c` repeats the first (folded) -/
def dDag : Yaml.Node := docOf [sc "A" 3 1, jobNode0 3, sc "b" 4 1, jobNode 4 ["a"], sc "c" 5 1, jobNode 5 ["A", "b", "a"]]

theorem dCyc_clean : (parse xCfg dCyc).2 = [] := by decide +kernel
theorem dDang_clean : (parse xCfg dDang).2 = [] := by decide +kernel
theorem dDag_clean : (parse xCfg dDag).2 = [] := by decide +kernel

/-- what is written -/
theorem dCyc_written : (docJobs dCyc).map (fun p => (p.1.value, docNeeds p.2)) = [("A", ["c"]), ("b", ["a"]), ("c", ["B"])] := by rfl
theorem dDang_written : (docJobs dDang).map (fun p => (p.1.value, docNeeds p.2)) = [("A", ["B", "ZZ"]), ("b", []), ("c", ["a"])] := by rfl
theorem dDag_written : (docJobs dDag).map (fun p => (p.1.value, docNeeds p.2)) = [("A", []), ("b", ["a"]), ("c", ["A", "b", "a"])] := by rfl

/-- the graphs of the documents -/
theorem docGraph_dCyc : docGraph xCfg.lower dCyc = [⟨"a", ⟨3, 1⟩, [2]⟩, ⟨"b", ⟨4, 1⟩, [0]⟩, ⟨"c", ⟨5, 1⟩, [1]⟩] := by rfl
theorem docGraph_dDang : docGraph xCfg.lower dDang = [⟨"a", ⟨3, 1⟩, [1]⟩, ⟨"b", ⟨4, 1⟩, []⟩, ⟨"c", ⟨5, 1⟩, [0]⟩] := by rfl
/-- `docGraph` keeps the repeated entry of `c` (edge to `a` twice); the rule's graph has it once — same successors -/
theorem docGraph_dDag : docGraph xCfg.lower dDag = [⟨"a", ⟨3, 1⟩, []⟩, ⟨"b", ⟨4, 1⟩, [0]⟩, ⟨"c", ⟨5, 1⟩, [0, 1, 0]⟩] := by rfl
theorem ruleGraph_dDag : graphOf xCfg.lower (jobsIn (parse xCfg dDag).1) =
    [⟨"a", ⟨3, 1⟩, []⟩, ⟨"b", ⟨4, 1⟩, [0]⟩, ⟨"c", ⟨5, 1⟩, [0, 1]⟩] := by rfl

theorem isCycle_dCyc : IsCycle (docGraph xCfg.lower dCyc) [0, 2, 1, 0] := by
  rw [docGraph_dCyc]
  exact ⟨.cons 0 2 [1, 0] (by decide) (by simp [Needs.Graph.succ])
    (.cons 2 1 [0] (by decide) (by simp [Needs.Graph.succ]) (.cons 1 0 [] (by decide) (by simp [Needs.Graph.succ]) (.single 0 (by decide)))),
    by decide, rfl⟩

theorem defined_dCyc : DocNeedsDefined xCfg.lower dCyc := by unfold DocNeedsDefined; decide +kernel
theorem defined_dDag : DocNeedsDefined xCfg.lower dDag := by unfold DocNeedsDefined; decide +kernel
theorem not_defined_dDang : ¬ DocNeedsDefined xCfg.lower dDang := by unfold DocNeedsDefined; decide +kernel

/-- what the rule reports on the three documents (evaluated) -/
theorem rule_dCyc : Rules.ruleJobNeeds xCfg.lower (parse xCfg dCyc).1 = [⟨⟨3, 1⟩, "job-needs", "needs-cyclic", ["a,c,b,a"]⟩] := by
  rw [ruleJobNeeds_eq, check_eq]
  have h1 : (Needs.resolve (nodesOf xCfg.lower (jobsIn (parse xCfg dCyc).1))).2 = [] := by rfl
  have h2 : (Needs.visitJobs xCfg.lower (jobsIn (parse xCfg dCyc).1) []).2 = [] := by rfl
  have h3 : List.range (jobsIn (parse xCfg dCyc).1).length = [0, 1, 2] := by rfl
  have h4 : graphOf xCfg.lower (jobsIn (parse xCfg dCyc).1) = [⟨"a", ⟨3, 1⟩, [2]⟩, ⟨"b", ⟨4, 1⟩, [0]⟩, ⟨"c", ⟨5, 1⟩, [1]⟩] := by rfl
  have h5 : Needs.cycleDiag [⟨"a", ⟨3, 1⟩, [2]⟩, ⟨"b", ⟨4, 1⟩, [0]⟩, ⟨"c", ⟨5, 1⟩, [1]⟩] [0, 1, 2] =
      some ⟨⟨3, 1⟩, ["a", "c", "b", "a"]⟩ := by cycle_eval
  rw [h1, h2, h3, h4, h5]
  decide
theorem rule_dDang : Rules.ruleJobNeeds xCfg.lower (parse xCfg dDang).1 = [⟨⟨3, 1⟩, "job-needs", "needs-undefined", ["a", "zz"]⟩] := by
  rw [ruleJobNeeds_eq, check_eq]
  have h1 : (Needs.resolve (nodesOf xCfg.lower (jobsIn (parse xCfg dDang).1))).2 = [.undefined ⟨3, 1⟩ "a" "zz"] := by rfl
  have h2 : (Needs.visitJobs xCfg.lower (jobsIn (parse xCfg dDang).1) []).2 = [] := by rfl
  rw [h1, h2]
  decide
theorem rule_dDag : Rules.ruleJobNeeds xCfg.lower (parse xCfg dDag).1 = [⟨⟨5, 23⟩, "job-needs", "needs-duplicate", ["a"]⟩] := by
  rw [ruleJobNeeds_eq, check_eq]
  have h1 : (Needs.resolve (nodesOf xCfg.lower (jobsIn (parse xCfg dDag).1))).2 = [] := by rfl
  have h2 : (Needs.visitJobs xCfg.lower (jobsIn (parse xCfg dDag).1) []).2 = [.dupNeeds ⟨5, 23⟩ "a"] := by rfl
  have h3 : List.range (jobsIn (parse xCfg dDag).1).length = [0, 1, 2] := by rfl
  have h5 : Needs.cycleDiag [⟨"a", ⟨3, 1⟩, []⟩, ⟨"b", ⟨4, 1⟩, [0]⟩, ⟨"c", ⟨5, 1⟩, [0, 1]⟩] [0, 1, 2] = none := by cycle_eval
  rw [h1, h2, h3, ruleGraph_dDag, h5]
  decide

/-- **the cycle document**: everything written under `needs:` names a job, the document's graph has the cycle
a → c → b → a, so (by `doc_cyclic_some`, without evaluating the rule) a cyclic-dependency diagnostic is reported -/
theorem example_cycle : ∃ d ∈ Rules.ruleJobNeeds xCfg.lower (parse xCfg dCyc).1, d.code = "needs-cyclic" :=
  doc_cyclic_some xCfg dCyc dCyc_clean defined_dCyc ⟨_, isCycle_dCyc⟩

/-- **the dangling document**: `ZZ` under `needs:` of `A` folds to `zz`, no key of `jobs:` does: reported at `A` (3:1),
by `doc_undefined_exact` from what is written; and no cyclic-dependency report -/
theorem example_dangling :
    (⟨⟨3, 1⟩, "job-needs", "needs-undefined", ["a", "zz"]⟩ : Rules.Diag) ∈ Rules.ruleJobNeeds xCfg.lower (parse xCfg dDang).1 ∧
    ¬ ∃ d ∈ Rules.ruleJobNeeds xCfg.lower (parse xCfg dDang).1, d.code = "needs-cyclic" := by
  refine ⟨(doc_undefined_exact xCfg dDang dDang_clean ⟨3, 1⟩ "a" "zz").2 ?_, ?_⟩
  · refine ⟨⟨(sc "A" 3 1, jobNode 3 ["B", "ZZ"]), ?_, rfl, by decide +kernel, by decide, by decide, "ZZ", ?_, by decide +kernel⟩, ?_⟩
    · rw [show docJobs dDang = [(sc "A" 3 1, jobNode 3 ["B", "ZZ"]), (sc "b" 4 1, jobNode0 4), (sc "c" 5 1, jobNode 5 ["a"])] from rfl]
      exact List.mem_cons_self
    · rw [show docNeeds (sc "A" 3 1, jobNode 3 ["B", "ZZ"]).2 = ["B", "ZZ"] from rfl]; simp
    · rw [show docJobIds dDang = ["A", "b", "c"] from rfl]; decide +kernel
  · intro hc
    exact not_defined_dDang ((doc_cyclic_iff xCfg dDang dDang_clean).1 hc).1

/-- **the DAG document**: no cycle in the document's graph -/
theorem acyclic_dDag : ¬ Cyclic (docGraph xCfg.lower dDag) := by
  intro hc
  obtain ⟨d, hd, hcode⟩ := doc_cyclic_some xCfg dDag dDag_clean defined_dDag hc
  rw [rule_dDag] at hd
  simp only [List.mem_cons, List.not_mem_nil, or_false] at hd
  subst hd
  simp at hcode
theorem example_dag : ∀ d ∈ Rules.ruleJobNeeds xCfg.lower (parse xCfg dDag).1, d.code ≠ "needs-cyclic" :=
  doc_acyclic_none xCfg dDag dDag_clean acyclic_dDag

/-! ### every theorem with hypotheses, on the three documents -/

example : Rules.jobsOf (parse xCfg dCyc).1 = (docJobs dCyc).map (docJob xCfg) := jobsOf_written _ _ dCyc_clean
example : (docJob xCfg (sc "A" 3 1, jobNode 3 ["c"])).id.value = "A" := docJob_id_value _ _
example : (docJob xCfg (sc "A" 3 1, jobNode 3 ["c"])).id.pos = ⟨3, 1⟩ := docJob_id_pos _ _
theorem pA_mem : (sc "A" 3 1, jobNode 3 ["B", "ZZ"]) ∈ docJobs dDang := by
  rw [show docJobs dDang = [(sc "A" 3 1, jobNode 3 ["B", "ZZ"]), (sc "b" 4 1, jobNode0 4), (sc "c" 5 1, jobNode 5 ["a"])] from rfl]
  exact List.mem_cons_self
example : (∃ n ∈ (docJob xCfg (sc "A" 3 1, jobNode 3 ["B", "ZZ"])).needs.getD [], xCfg.lower n.value = "zz") ↔
    ∃ s ∈ docNeeds (sc "A" 3 1, jobNode 3 ["B", "ZZ"]).2, xCfg.lower s = "zz" :=
  needs_folded_written xCfg dDang dDang_clean _ pA_mem "zz"
/-- the other direction of `doc_undefined_exact`: from the report to what is written -/
example : (∃ p ∈ docJobs dDang, p.1.pos = ⟨3, 1⟩ ∧ xCfg.lower p.1.value = "a" ∧ "a" ≠ "" ∧ "zz" ≠ "" ∧
      ∃ s ∈ docNeeds p.2, xCfg.lower s = "zz") ∧ ∀ k ∈ docJobIds dDang, xCfg.lower k ≠ "zz" :=
  (doc_undefined_exact xCfg dDang dDang_clean ⟨3, 1⟩ "a" "zz").1 (by rw [rule_dDang]; simp)
/-- `B` under `needs:` of `A` folds to the key `b`: not reported -/
example : (⟨⟨3, 1⟩, "job-needs", "needs-undefined", ["a", "b"]⟩ : Rules.Diag) ∉ Rules.ruleJobNeeds xCfg.lower (parse xCfg dDang).1 := by
  intro hm
  have := ((doc_undefined_exact xCfg dDang dDang_clean ⟨3, 1⟩ "a" "b").1 hm).2 "b" (by rw [show docJobIds dDang = ["A", "b", "c"] from rfl]; simp)
  exact this (by decide +kernel)
example : docIndex ["a", "b", "c"] "b" = some 1 := by
  refine (docIndex_some _ _ _).2 ⟨rfl, ?_⟩
  intro u hu
  have hu0 : u = 0 := by omega
  subst hu0
  decide
example : docIndex ["a", "b", "a"] "a" = some 0 ∧ docIndex ["a", "b"] "zz" = none := by decide
example : 2 ∈ (docGraph xCfg.lower dCyc).succ 0 :=
  (docGraph_succ xCfg.lower dCyc 0 2).2 ⟨(sc "A" 3 1, jobNode 3 ["c"]), by rfl, "c", by rw [show docNeeds (sc "A" 3 1, jobNode 3 ["c"]).2 = ["c"] from rfl]; simp,
    by decide +kernel, by decide +kernel⟩
example : Needs.indexOf? [⟨"a", ⟨1, 1⟩, []⟩, ⟨"b", ⟨2, 1⟩, []⟩] "b" = docIndex ["a", "b"] "b" := indexOf?_eq_docIndex _ _
example : nodesOf xCfg.lower (jobsIn (parse xCfg dDag).1) =
    (docVerts xCfg.lower dDag).map fun p => mkNode xCfg.lower (Rules.needsJobIn (docJob xCfg p)) := nodes_written _ _ dDag_clean
example : (nodesOf xCfg.lower (jobsIn (parse xCfg dDag).1)).map (·.id) = docVertIds xCfg.lower dDag := nodes_ids_written _ _ dDag_clean
example : docVertIds xCfg.lower dDag = ["a", "b", "c"] := by decide +kernel
/-- on `dDag` the two graphs differ as lists (`[0, 1]` vs `[0, 1, 0]` at `c`) and agree as graphs -/
example : (graphOf xCfg.lower (jobsIn (parse xCfg dDag).1)).length = (docGraph xCfg.lower dDag).length ∧
    (graphOf xCfg.lower (jobsIn (parse xCfg dDag).1)).map (·.id) = (docGraph xCfg.lower dDag).map (·.id) ∧
    (graphOf xCfg.lower (jobsIn (parse xCfg dDag).1)).map (·.pos) = (docGraph xCfg.lower dDag).map (·.pos) ∧
    ∀ v w, w ∈ (graphOf xCfg.lower (jobsIn (parse xCfg dDag).1)).succ v ↔ w ∈ (docGraph xCfg.lower dDag).succ v :=
  docGraph_is_rule_graph _ _ dDag_clean
example : Walk (graphOf xCfg.lower (jobsIn (parse xCfg dCyc).1)) [0, 2, 1, 0] :=
  walk_congr _ _ (docGraph_is_rule_graph xCfg dCyc dCyc_clean).1.symm
    (fun v w => ((docGraph_is_rule_graph xCfg dCyc dCyc_clean).2.2.2 v w).symm) _ isCycle_dCyc.1
example : IsCycle (graphOf xCfg.lower (jobsIn (parse xCfg dCyc).1)) [0, 2, 1, 0] ↔ IsCycle (docGraph xCfg.lower dCyc) [0, 2, 1, 0] :=
  isCycle_congr _ _ (docGraph_is_rule_graph xCfg dCyc dCyc_clean).1 (docGraph_is_rule_graph xCfg dCyc dCyc_clean).2.2.2 _
example : IsCycle (graphOf xCfg.lower (jobsIn (parse xCfg dCyc).1)) [0, 2, 1, 0] :=
  (docGraph_isCycle_iff xCfg dCyc dCyc_clean _).2 isCycle_dCyc
example : Cyclic (graphOf xCfg.lower (jobsIn (parse xCfg dCyc).1)) :=
  (docGraph_cyclic_iff xCfg dCyc dCyc_clean).2 ⟨_, isCycle_dCyc⟩
example : Needs.idOf (graphOf xCfg.lower (jobsIn (parse xCfg dCyc).1)) 2 = Needs.idOf (docGraph xCfg.lower dCyc) 2 :=
  docGraph_idOf _ _ dCyc_clean 2
example : Needs.posOf (graphOf xCfg.lower (jobsIn (parse xCfg dCyc).1)) 2 = Needs.posOf (docGraph xCfg.lower dCyc) 2 :=
  docGraph_posOf _ _ dCyc_clean 2
example : ∀ d ∈ Rules.ruleJobNeeds xCfg.lower (parse xCfg dCyc).1, d.code ≠ "needs-undefined" :=
  (doc_no_undefined_iff xCfg dCyc dCyc_clean).2 defined_dCyc
example : ¬ ∀ d ∈ Rules.ruleJobNeeds xCfg.lower (parse xCfg dDang).1, d.code ≠ "needs-undefined" :=
  fun hh => not_defined_dDang ((doc_no_undefined_iff xCfg dDang dDang_clean).1 hh)
example : DocNeedsDefined xCfg.lower dCyc ∧ Cyclic (docGraph xCfg.lower dCyc) :=
  (doc_cyclic_iff xCfg dCyc dCyc_clean).1 ⟨_, by rw [rule_dCyc]; exact List.mem_cons_self, rfl⟩
/-- the printed cycle `a,c,b,a` is a cycle of the document's graph, reported at the earliest key on it -/
example : ∃ vs, IsCycle (docGraph xCfg.lower dCyc) vs ∧
    ["a,c,b,a"] = [",".intercalate (vs.map (Needs.idOf (docGraph xCfg.lower dCyc)))] ∧
    (⟨3, 1⟩ : Rules.Pos) = Rules.ofNP (Needs.posOf (docGraph xCfg.lower dCyc) (vs.headD 0)) ∧
    ∀ v ∈ vs, ¬ (Needs.posOf (docGraph xCfg.lower dCyc) v).isBefore (Needs.posOf (docGraph xCfg.lower dCyc) (vs.headD 0)) :=
  doc_printed_is_cycle xCfg dCyc dCyc_clean ⟨⟨3, 1⟩, "job-needs", "needs-cyclic", ["a,c,b,a"]⟩
    (by rw [rule_dCyc]; exact List.mem_cons_self) rfl

end Examples

end AL.C18D
