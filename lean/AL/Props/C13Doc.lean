import AL.Props.C13Parse
/-
  C13 at the level of the whole document, for the spine workflow → jobs → job → steps → step: an unknown key inserted
  into ANY step of ANY job of a workflow leaves the whole AST unchanged and adds exactly its own diagnostic to the
  diagnostics of the whole file. The section-level theorem (`step_unknown`) is carried through the enclosing parsers by
  congruence lemmas: a value node may be replaced by one on which the sub-parser gives the same result and the same
  diagnostics plus `es` (`Ext`).
-/
namespace AL.C13D
open AL.PW AL.Yaml AL.Ast AL.C13P

/-- `n'` parses like `n` under `P`, with the extra diagnostics `es` -/
def Ext {α : Type} (P : Node → R α) (n n' : Node) (es : List PErr) : Prop :=
  (P n').1 = (P n).1 ∧ (P n').2.Perm (es ++ (P n).2)

/-! ### generic congruences -/

/-- the key loop of `parseMapping` does not look at the values: replacing the value of a key that is the first with its id
changes nothing but the `val` of that entry -/
theorem mappingLoop_value (cfg : Cfg) (what : String) (cs : Bool) (kn vn vn' : Node) (post : List (Node × Node)) :
    ∀ (pre : List (Node × Node)) (seen : List (String × Pos)),
      lookupSeen (keyId cfg cs kn) seen = none → (∀ q ∈ pre, keyId cfg cs q.1 ≠ keyId cfg cs kn) →
      ∃ kvs₁ kvs₂ es, mappingLoop cfg what cs (pre ++ (kn, vn) :: post) seen =
          (kvs₁ ++ ⟨keyId cfg cs kn, (parseString kn false).1, vn⟩ :: kvs₂, es) ∧
        mappingLoop cfg what cs (pre ++ (kn, vn') :: post) seen =
          (kvs₁ ++ ⟨keyId cfg cs kn, (parseString kn false).1, vn'⟩ :: kvs₂, es) := by
  intro pre
  induction pre with
  | nil =>
    intro seen hs _
    simp only [List.nil_append, mappingLoop_cons, hs]
    exact ⟨[], _, _, rfl, rfl⟩
  | cons q rest ih =>
    intro seen hs hne
    obtain ⟨kn', vn''⟩ := q
    have hk : keyId cfg cs kn' ≠ keyId cfg cs kn := hne (kn', vn'') (by simp)
    have hne' : ∀ q ∈ rest, keyId cfg cs q.1 ≠ keyId cfg cs kn := fun q hq => hne q (by simp [hq])
    simp only [List.cons_append, mappingLoop_cons]
    cases lookupSeen (keyId cfg cs kn') seen with
    | some pos =>
      obtain ⟨k1, k2, es, e1, e2⟩ := ih seen hs hne'
      exact ⟨k1, k2, _, by rw [e1], by rw [e2]⟩
    | none =>
      have hs' : lookupSeen (keyId cfg cs kn) (seen ++ [(keyId cfg cs kn', (parseString kn' false).1.pos)]) = none := by
        rw [lookupSeen_snoc_ne _ _ hk]; exact hs
      obtain ⟨k1, k2, es, e1, e2⟩ := ih _ hs' hne'
      exact ⟨⟨keyId cfg cs kn', (parseString kn' false).1, vn''⟩ :: k1, k2, _, by rw [e1]; rfl, by rw [e2]; rfl⟩

/-- one iteration that differs by `es` (same state afterwards) makes the loop differ by `es` -/
theorem loop_ext {σ : Type} (step : σ → KV → σ × List PErr) (kv kv' : KV) (es : List PErr)
    (h : ∀ s, (step s kv').1 = (step s kv).1 ∧ (step s kv').2.Perm (es ++ (step s kv).2))
    (init : σ) (pre post : List KV) :
    (loop step init (pre ++ kv' :: post)).1 = (loop step init (pre ++ kv :: post)).1 ∧
    (loop step init (pre ++ kv' :: post)).2.Perm (es ++ (loop step init (pre ++ kv :: post)).2) := by
  rw [loop_append, loop_append, loop_cons, loop_cons]
  obtain ⟨h1, h2⟩ := h (loop step init pre).1
  simp only [h1]
  refine ⟨trivial, ?_⟩
  rw [List.perm_iff_count]
  intro a
  have := (List.perm_iff_count.1 h2) a
  simp only [List.count_append] at this ⊢
  omega

/-- a section parser of the shape `Sect.run` on a mapping node: the value of one pair may be replaced by an `Ext` value as
long as the loop body passes that on -/
theorem Sect.value_ext {σ ρ : Type} (S : Sect σ ρ) (cfg : Cfg) (what tag : String) (l c : Nat) (ae cs : Bool)
    (pre post : List (Node × Node)) (kn vn vn' : Node) (es : List PErr)
    (h : ∀ s, (S.step s ⟨keyId cfg cs kn, (parseString kn false).1, vn'⟩).1 = (S.step s ⟨keyId cfg cs kn, (parseString kn false).1, vn⟩).1 ∧
      (S.step s ⟨keyId cfg cs kn, (parseString kn false).1, vn'⟩).2.Perm (es ++ (S.step s ⟨keyId cfg cs kn, (parseString kn false).1, vn⟩).2))
    (hfirst : ∀ q ∈ pre, keyId cfg cs q.1 ≠ keyId cfg cs kn) :
    Ext (fun n => S.run cfg what n ae cs) (mapNode tag l c (pre ++ (kn, vn) :: post)) (mapNode tag l c (pre ++ (kn, vn') :: post)) es := by
  simp only [Ext, Sect.run, parseMapping_mapNode]
  obtain ⟨k1, k2, es', e1, e2⟩ := mappingLoop_value cfg what cs kn vn vn' post pre [] rfl hfirst
  · simp only [e1, e2]
    obtain ⟨h1, h2⟩ := loop_ext S.step _ _ es h S.init k1 k2
    have hemp : (k1 ++ ⟨keyId cfg cs kn, (parseString kn false).1, vn'⟩ :: k2).isEmpty = (k1 ++ ⟨keyId cfg cs kn, (parseString kn false).1, vn⟩ :: k2).isEmpty := by
      cases k1 <;> rfl
    simp only [h1, hemp]
    refine ⟨trivial, ?_⟩
    rw [List.perm_iff_count]
    intro a
    have := (List.perm_iff_count.1 h2) a
    simp only [List.count_append] at this ⊢
    omega

/-! ### the spine workflow → jobs → job → steps → step -/

theorem Ext.of_ins {ρ : Type} {f : Node → R ρ} {tag : String} {l c : Nat} {pre post : List (Node × Node)} {kn vn : Node} {e : PErr}
    (h : Ins f tag l c pre post kn vn e) :
    Ext f (mapNode tag l c (pre ++ post)) (mapNode tag l c (pre ++ (kn, vn) :: post)) [e] := h

/-- a sequence node -/
def seqNode (tag : String) (l c : Nat) (cs : List Node) : Node := .mk .sequence tag "" false l c cs

theorem stepsOf_ext (cfg : Cfg) (n n' : Node) (es : List PErr) (h : Ext (parseStep cfg) n n' es) (b : List Node) :
    ∀ a : List Node, (stepsOf cfg (a ++ n' :: b)).1 = (stepsOf cfg (a ++ n :: b)).1 ∧
      (stepsOf cfg (a ++ n' :: b)).2.Perm (es ++ (stepsOf cfg (a ++ n :: b)).2) := by
  intro a
  induction a with
  | nil =>
    simp only [List.nil_append, stepsOf, h.1]
    refine ⟨trivial, ?_⟩
    have := h.2
    rw [List.perm_iff_count] at this ⊢
    intro x; have := this x
    simp only [List.count_append] at this ⊢
    omega
  | cons c rest ih =>
    simp only [List.cons_append, stepsOf, ih.1]
    refine ⟨trivial, ?_⟩
    have := ih.2
    rw [List.perm_iff_count] at this ⊢
    intro x; have := this x
    simp only [List.count_append] at this ⊢
    omega

/-- `steps:` — one element replaced -/
theorem parseSteps_ext (cfg : Cfg) (tag : String) (l c : Nat) (a b : List Node) (n n' : Node) (es : List PErr)
    (h : Ext (parseStep cfg) n n' es) :
    Ext (parseSteps cfg) (seqNode tag l c (a ++ n :: b)) (seqNode tag l c (a ++ n' :: b)) es := by
  obtain ⟨h1, h2⟩ := stepsOf_ext cfg n n' es h b a
  have hc : ∀ x : Node, checkSequence "steps" (seqNode tag l c (a ++ x :: b)) false = (true, []) := by
    intro x
    simp [checkSequence, seqNode, Node.kind, Node.content, checkNotEmpty]
  have hcont : ∀ x : Node, (seqNode tag l c (a ++ x :: b)).content = a ++ x :: b := fun _ => rfl
  simp only [Ext, parseSteps, hc, hcont, Bool.not_true, Bool.false_eq_true, ↓reduceIte, List.nil_append]
  exact ⟨by rw [h1], h2⟩

/-- a job — the value of its `steps:` key replaced -/
theorem parseJob_steps_ext (cfg : Cfg) (id : Str) (tag : String) (l c : Nat) (pre post : List (Node × Node)) (kn v v' : Node)
    (es : List PErr) (hk : GoodKey kn) (hv : kn.value = "steps") (hfirst : ∀ q ∈ pre, keyId cfg true q.1 ≠ "steps")
    (h : Ext (parseSteps cfg) v v' es) :
    Ext (parseJob cfg id) (mapNode tag l c (pre ++ (kn, v) :: post)) (mapNode tag l c (pre ++ (kn, v') :: post)) es := by
  have hid : keyId cfg true kn = "steps" := by rw [keyId_cs cfg kn hk, hv]
  have := Sect.value_ext (jobSect cfg id) cfg (jobWhat id.value) tag l c false true pre post kn v v' es
    (by
      intro s
      simp only [hid, jobSect, jobKey, h.1]
      exact ⟨trivial, h.2⟩)
    (by intro q hq; rw [hid]; exact hfirst q hq)
  exact this

/-- `jobs:` — one job's value replaced -/
theorem parseJobs_ext (cfg : Cfg) (tag : String) (l c : Nat) (pre post : List (Node × Node)) (kn v v' : Node) (es : List PErr)
    (hfirst : ∀ q ∈ pre, keyId cfg false q.1 ≠ keyId cfg false kn)
    (h : Ext (parseJob cfg (parseString kn false).1) v v' es) :
    Ext (parseJobs cfg) (mapNode tag l c (pre ++ (kn, v) :: post)) (mapNode tag l c (pre ++ (kn, v') :: post)) es := by
  have := Sect.value_ext (mapSect fun kv => parseJob cfg kv.key kv.val) cfg (sectionWhat "jobs") tag l c false false pre post kn v v' es
    (by
      intro s
      simp only [mapSect, plain, h.1]
      exact ⟨trivial, h.2⟩)
    hfirst
  simp only [Ext, mapSect_run] at this
  simpa only [Ext, parseJobs, parseSectionMapping] using this

/-- the workflow — the value of its `jobs:` key replaced -/
theorem parse_jobs_ext (cfg : Cfg) (doc : Node) (tag : String) (l c : Nat) (pre post : List (Node × Node)) (kn v v' : Node)
    (es : List PErr) (hk : GoodKey kn) (hv : kn.value = "jobs") (hfirst : ∀ q ∈ pre, keyId cfg true q.1 ≠ "jobs")
    (h : Ext (parseJobs cfg) v v' es) :
    Ext (fun root => (workflowSect cfg doc).run cfg "workflow" root false true)
      (mapNode tag l c (pre ++ (kn, v) :: post)) (mapNode tag l c (pre ++ (kn, v') :: post)) es := by
  have hid : keyId cfg true kn = "jobs" := by rw [keyId_cs cfg kn hk, hv]
  exact Sect.value_ext (workflowSect cfg doc) cfg "workflow" tag l c false true pre post kn v v' es
    (by
      intro s
      simp only [hid, workflowSect, workflowKey, h.1]
      exact ⟨trivial, h.2⟩)
    (by intro q hq; rw [hid]; exact hfirst q hq)

/-- a document whose root is the given node -/
def docNode (root : Node) : Node := .mk .document "" "" false 1 1 [root]

/-- **C13 for a step, at the level of the whole file.** A workflow file whose `jobs:` mapping has a job whose `steps:`
sequence has a step (a mapping with at least one pair): inserting into that step, at any place, a pair whose key is a
non-empty scalar outside the step's key set and not already present leaves the WHOLE AST unchanged and adds exactly the
`unexpected key` diagnostic at that key to the diagnostics of the WHOLE file — whatever the rest of the workflow is. -/
theorem step_unknown_in_document (cfg : Cfg)
    (tW tJ tK tS tP : String) (lW cW lJ cJ lK cK lS cS lP cP : Nat)
    (preW postW preJ postJ preK postK : List (Node × Node)) (a b : List Node) (pre post : List (Node × Node))
    (kJobs kJob kSteps kn vn : Node)
    (hJobs : GoodKey kJobs) (hJobsV : kJobs.value = "jobs") (hJobsFirst : ∀ q ∈ preW, keyId cfg true q.1 ≠ "jobs")
    (hJobFirst : ∀ q ∈ preJ, keyId cfg false q.1 ≠ keyId cfg false kJob)
    (hSteps : GoodKey kSteps) (hStepsV : kSteps.value = "steps") (hStepsFirst : ∀ q ∈ preK, keyId cfg true q.1 ≠ "steps")
    (hF : Foreign cfg stepKeys pre post kn) :
    let doc (step : Node) : Node :=
      docNode (mapNode tW lW cW (preW ++ (kJobs, mapNode tJ lJ cJ (preJ ++ (kJob,
        mapNode tK lK cK (preK ++ (kSteps, seqNode tS lS cS (a ++ step :: b)) :: postK)) :: postJ)) :: postW))
    (parse cfg (doc (mapNode tP lP cP (pre ++ (kn, vn) :: post)))).1 = (parse cfg (doc (mapNode tP lP cP (pre ++ post)))).1 ∧
    (parse cfg (doc (mapNode tP lP cP (pre ++ (kn, vn) :: post)))).2.Perm
      (unexpectedAt kn "step" stepKeys :: (parse cfg (doc (mapNode tP lP cP (pre ++ post)))).2) := by
  intro doc
  have e0 : Ext (parseStep cfg) (mapNode tP lP cP (pre ++ post)) (mapNode tP lP cP (pre ++ (kn, vn) :: post)) [unexpectedAt kn "step" stepKeys] :=
    step_unknown cfg tP lP cP pre post kn vn hF
  have e1 := parseSteps_ext cfg tS lS cS a b _ _ _ e0
  have e2 := parseJob_steps_ext cfg (parseString kJob false).1 tK lK cK preK postK kSteps _ _ _ hSteps hStepsV hStepsFirst e1
  have e3 := parseJobs_ext cfg tJ lJ cJ preJ postJ kJob _ _ _ hJobFirst e2
  have hdoc : ∀ root, parse cfg (docNode root) = (workflowSect cfg (docNode root)).run cfg "workflow" root false true := by
    intro root
    exact parse_eq_run cfg (docNode root) root [] rfl
  have e4 := parse_jobs_ext cfg (docNode (mapNode tW lW cW [])) tW lW cW preW postW kJobs _ _ _ hJobs hJobsV hJobsFirst e3
  -- the final checks of `parse` are positioned at the document node: the same position for both documents
  have hsame : ∀ r1 r2 root, (workflowSect cfg (docNode r1)).run cfg "workflow" root false true =
      (workflowSect cfg (docNode r2)).run cfg "workflow" root false true := by
    intro r1 r2 root; rfl
  simp only [doc, hdoc]
  rw [hsame _ (mapNode tW lW cW []), hsame _ (mapNode tW lW cW [])]
  exact e4

/-! ### the hypotheses are satisfiable -/

/-- `on: push` / `jobs: {build: {runs-on: …, steps: [{run: echo}]}}` with `bogus: x` added to the step -/
example :
    let stepPre : List (Node × Node) := [(sc "run" 6 9, sc "echo" 6 14)]
    let doc (step : Node) : Node :=
      docNode (mapNode "!!map" 1 1 ([(sc "on" 1 1, sc "push" 1 5)] ++ (sc "jobs" 2 1, mapNode "!!map" 3 3 ([] ++ (sc "build" 3 3,
        mapNode "!!map" 4 5 ([(sc "runs-on" 4 5, sc "ubuntu-latest" 4 14)] ++ (sc "steps" 5 5, seqNode "!!seq" 6 7 ([] ++ step :: [])) :: [])) :: [])) :: []))
    (parse exCfg (doc (mapNode "!!map" 6 9 (stepPre ++ (sc "bogus" 7 9, sc "x" 7 16) :: [])))).1 =
      (parse exCfg (doc (mapNode "!!map" 6 9 (stepPre ++ [])))).1 ∧
    (parse exCfg (doc (mapNode "!!map" 6 9 (stepPre ++ (sc "bogus" 7 9, sc "x" 7 16) :: [])))).2.Perm
      (unexpectedAt (sc "bogus" 7 9) "step" stepKeys :: (parse exCfg (doc (mapNode "!!map" 6 9 (stepPre ++ [])))).2) := by
  intro stepPre doc
  exact step_unknown_in_document exCfg "!!map" "!!map" "!!map" "!!seq" "!!map" 1 1 3 3 4 5 6 7 6 9
    [(sc "on" 1 1, sc "push" 1 5)] [] [] [] [(sc "runs-on" 4 5, sc "ubuntu-latest" 4 14)] [] [] [] stepPre []
    (sc "jobs" 2 1) (sc "build" 3 3) (sc "steps" 5 5) (sc "bogus" 7 9) (sc "x" 7 16)
    (goodKey_of_scalar _ rfl (by decide)) rfl (by decide) (by decide)
    (goodKey_of_scalar _ rfl (by decide)) rfl (by decide)
    ⟨goodKey_of_scalar _ rfl (by decide), by decide, by decide, by decide⟩

/-- **C13 for a job, at the level of the whole file**: an unknown key inserted anywhere into any job -/
theorem job_unknown_in_document (cfg : Cfg)
    (tW tJ tK : String) (lW cW lJ cJ lK cK : Nat)
    (preW postW preJ postJ pre post : List (Node × Node)) (kJobs kJob kn vn : Node)
    (hJobs : GoodKey kJobs) (hJobsV : kJobs.value = "jobs") (hJobsFirst : ∀ q ∈ preW, keyId cfg true q.1 ≠ "jobs")
    (hJobFirst : ∀ q ∈ preJ, keyId cfg false q.1 ≠ keyId cfg false kJob)
    (hF : Foreign cfg jobKeys pre post kn) :
    let doc (job : Node) : Node :=
      docNode (mapNode tW lW cW (preW ++ (kJobs, mapNode tJ lJ cJ (preJ ++ (kJob, job) :: postJ)) :: postW))
    (parse cfg (doc (mapNode tK lK cK (pre ++ (kn, vn) :: post)))).1 = (parse cfg (doc (mapNode tK lK cK (pre ++ post)))).1 ∧
    (parse cfg (doc (mapNode tK lK cK (pre ++ (kn, vn) :: post)))).2.Perm
      (unexpectedAt kn "job" jobKeys :: (parse cfg (doc (mapNode tK lK cK (pre ++ post)))).2) := by
  intro doc
  have e2 : Ext (parseJob cfg (parseString kJob false).1) (mapNode tK lK cK (pre ++ post)) (mapNode tK lK cK (pre ++ (kn, vn) :: post))
      [unexpectedAt kn "job" jobKeys] := job_unknown cfg tK lK cK pre post kn vn _ hF
  have e3 := parseJobs_ext cfg tJ lJ cJ preJ postJ kJob _ _ _ hJobFirst e2
  have hdoc : ∀ root, parse cfg (docNode root) = (workflowSect cfg (docNode root)).run cfg "workflow" root false true :=
    fun root => parse_eq_run cfg (docNode root) root [] rfl
  have e4 := parse_jobs_ext cfg (docNode (mapNode tW lW cW [])) tW lW cW preW postW kJobs _ _ _ hJobs hJobsV hJobsFirst e3
  have hsame : ∀ r1 r2 root, (workflowSect cfg (docNode r1)).run cfg "workflow" root false true =
      (workflowSect cfg (docNode r2)).run cfg "workflow" root false true := fun _ _ _ => rfl
  simp only [doc, hdoc]
  rw [hsame _ (mapNode tW lW cW []), hsame _ (mapNode tW lW cW [])]
  exact e4

/-- **a repeated key in a step, at the level of the whole file**: exactly one `key-duplicated` diagnostic more, at the
repetition; the whole AST unchanged -/
theorem step_duplicate_in_document (cfg : Cfg)
    (tW tJ tK tS tP : String) (lW cW lJ cJ lK cK lS cS lP cP : Nat)
    (preW postW preJ postJ preK postK : List (Node × Node)) (a b : List Node) (pre post : List (Node × Node))
    (kJobs kJob kSteps kn vn : Node)
    (hJobs : GoodKey kJobs) (hJobsV : kJobs.value = "jobs") (hJobsFirst : ∀ q ∈ preW, keyId cfg true q.1 ≠ "jobs")
    (hJobFirst : ∀ q ∈ preJ, keyId cfg false q.1 ≠ keyId cfg false kJob)
    (hSteps : GoodKey kSteps) (hStepsV : kSteps.value = "steps") (hStepsFirst : ∀ q ∈ preK, keyId cfg true q.1 ≠ "steps")
    (hR : Repeated cfg true pre kn) :
    let doc (step : Node) : Node :=
      docNode (mapNode tW lW cW (preW ++ (kJobs, mapNode tJ lJ cJ (preJ ++ (kJob,
        mapNode tK lK cK (preK ++ (kSteps, seqNode tS lS cS (a ++ step :: b)) :: postK)) :: postJ)) :: postW))
    ∃ pos, firstPos cfg true (keyId cfg true kn) pre = some pos ∧
    (parse cfg (doc (mapNode tP lP cP (pre ++ (kn, vn) :: post)))).1 = (parse cfg (doc (mapNode tP lP cP (pre ++ post)))).1 ∧
    (parse cfg (doc (mapNode tP lP cP (pre ++ (kn, vn) :: post)))).2.Perm
      (dupAt kn "element of \"steps\" section" pos true :: (parse cfg (doc (mapNode tP lP cP (pre ++ post)))).2) := by
  intro doc
  obtain ⟨pos, hp, hins⟩ := step_duplicate cfg tP lP cP pre post kn vn hR
  refine ⟨pos, hp, ?_⟩
  have e0 : Ext (parseStep cfg) (mapNode tP lP cP (pre ++ post)) (mapNode tP lP cP (pre ++ (kn, vn) :: post))
      [dupAt kn "element of \"steps\" section" pos true] := hins
  have e1 := parseSteps_ext cfg tS lS cS a b _ _ _ e0
  have e2 := parseJob_steps_ext cfg (parseString kJob false).1 tK lK cK preK postK kSteps _ _ _ hSteps hStepsV hStepsFirst e1
  have e3 := parseJobs_ext cfg tJ lJ cJ preJ postJ kJob _ _ _ hJobFirst e2
  have hdoc : ∀ root, parse cfg (docNode root) = (workflowSect cfg (docNode root)).run cfg "workflow" root false true :=
    fun root => parse_eq_run cfg (docNode root) root [] rfl
  have e4 := parse_jobs_ext cfg (docNode (mapNode tW lW cW [])) tW lW cW preW postW kJobs _ _ _ hJobs hJobsV hJobsFirst e3
  have hsame : ∀ r1 r2 root, (workflowSect cfg (docNode r1)).run cfg "workflow" root false true =
      (workflowSect cfg (docNode r2)).run cfg "workflow" root false true := fun _ _ _ => rfl
  simp only [doc, hdoc]
  rw [hsame _ (mapNode tW lW cW []), hsame _ (mapNode tW lW cW [])]
  exact e4

/-! ### whatever happens inside one job, at the level of the whole file -/

/-- the shape of a workflow file with one distinguished job -/
def docWithJob (tW tJ : String) (lW cW lJ cJ : Nat) (preW postW preJ postJ : List (Node × Node)) (kJobs kJob : Node)
    (job : Node) : Node :=
  docNode (mapNode tW lW cW (preW ++ (kJobs, mapNode tJ lJ cJ (preJ ++ (kJob, job) :: postJ)) :: postW))

theorem job_ext_in_document (cfg : Cfg) (tW tJ : String) (lW cW lJ cJ : Nat)
    (preW postW preJ postJ : List (Node × Node)) (kJobs kJob job job' : Node) (es : List PErr)
    (hJobs : GoodKey kJobs) (hJobsV : kJobs.value = "jobs") (hJobsFirst : ∀ q ∈ preW, keyId cfg true q.1 ≠ "jobs")
    (hJobFirst : ∀ q ∈ preJ, keyId cfg false q.1 ≠ keyId cfg false kJob)
    (h : Ext (parseJob cfg (parseString kJob false).1) job job' es) :
    (parse cfg (docWithJob tW tJ lW cW lJ cJ preW postW preJ postJ kJobs kJob job')).1 =
      (parse cfg (docWithJob tW tJ lW cW lJ cJ preW postW preJ postJ kJobs kJob job)).1 ∧
    (parse cfg (docWithJob tW tJ lW cW lJ cJ preW postW preJ postJ kJobs kJob job')).2.Perm
      (es ++ (parse cfg (docWithJob tW tJ lW cW lJ cJ preW postW preJ postJ kJobs kJob job)).2) := by
  have e3 := parseJobs_ext cfg tJ lJ cJ preJ postJ kJob _ _ _ hJobFirst h
  have hdoc : ∀ root, parse cfg (docNode root) = (workflowSect cfg (docNode root)).run cfg "workflow" root false true :=
    fun root => parse_eq_run cfg (docNode root) root [] rfl
  have e4 := parse_jobs_ext cfg (docNode (mapNode tW lW cW [])) tW lW cW preW postW kJobs _ _ _ hJobs hJobsV hJobsFirst e3
  have hsame : ∀ r1 r2 root, (workflowSect cfg (docNode r1)).run cfg "workflow" root false true =
      (workflowSect cfg (docNode r2)).run cfg "workflow" root false true := fun _ _ _ => rfl
  simp only [docWithJob, hdoc]
  rw [hsame _ (mapNode tW lW cW []), hsame _ (mapNode tW lW cW [])]
  exact e4

/-- a job — the value of one of its keys replaced by an `Ext` value, as long as `jobKey` passes that on -/
theorem parseJob_value_ext (cfg : Cfg) (id : Str) (tag : String) (l c : Nat) (pre post : List (Node × Node)) (kn v v' : Node)
    (es : List PErr) (hk : GoodKey kn) (hfirst : ∀ q ∈ pre, keyId cfg true q.1 ≠ kn.value)
    (h : ∀ s, (jobKey cfg s ⟨kn.value, (parseString kn false).1, v'⟩).1 = (jobKey cfg s ⟨kn.value, (parseString kn false).1, v⟩).1 ∧
      (jobKey cfg s ⟨kn.value, (parseString kn false).1, v'⟩).2.Perm (es ++ (jobKey cfg s ⟨kn.value, (parseString kn false).1, v⟩).2)) :
    Ext (parseJob cfg id) (mapNode tag l c (pre ++ (kn, v) :: post)) (mapNode tag l c (pre ++ (kn, v') :: post)) es := by
  have hid : keyId cfg true kn = kn.value := keyId_cs cfg kn hk
  exact Sect.value_ext (jobSect cfg id) cfg (jobWhat id.value) tag l c false true pre post kn v v' es
    (by intro s; simp only [hid, jobSect]; exact h s)
    (by intro q hq; rw [hid]; exact hfirst q hq)

/-- the hypotheses that place a sub-section under a key of a job -/
structure AtJobKey (cfg : Cfg) (name : String) (pre : List (Node × Node)) (kn : Node) : Prop where
  good : GoodKey kn
  value : kn.value = name
  first : ∀ q ∈ pre, keyId cfg true q.1 ≠ name

theorem parseJob_container_ext (cfg : Cfg) (id : Str) (tag : String) (l c : Nat) (pre post : List (Node × Node)) (kn v v' : Node)
    (es : List PErr) (hk : AtJobKey cfg "container" pre kn)
    (h : Ext (parseContainer cfg "container" (parseString kn false).1.pos) v v' es) :
    Ext (parseJob cfg id) (mapNode tag l c (pre ++ (kn, v) :: post)) (mapNode tag l c (pre ++ (kn, v') :: post)) es :=
  parseJob_value_ext cfg id tag l c pre post kn v v' es hk.good (by rw [hk.value]; exact hk.first)
    (by intro s; simp only [jobKey, hk.value, h.1]; exact ⟨trivial, h.2⟩)

theorem parseJob_strategy_ext (cfg : Cfg) (id : Str) (tag : String) (l c : Nat) (pre post : List (Node × Node)) (kn v v' : Node)
    (es : List PErr) (hk : AtJobKey cfg "strategy" pre kn)
    (h : Ext (parseStrategy cfg (parseString kn false).1.pos) v v' es) :
    Ext (parseJob cfg id) (mapNode tag l c (pre ++ (kn, v) :: post)) (mapNode tag l c (pre ++ (kn, v') :: post)) es :=
  parseJob_value_ext cfg id tag l c pre post kn v v' es hk.good (by rw [hk.value]; exact hk.first)
    (by intro s; simp only [jobKey, hk.value, h.1]; exact ⟨trivial, h.2⟩)

theorem parseJob_concurrency_ext (cfg : Cfg) (id : Str) (tag : String) (l c : Nat) (pre post : List (Node × Node)) (kn v v' : Node)
    (es : List PErr) (hk : AtJobKey cfg "concurrency" pre kn)
    (h : Ext (parseConcurrency cfg (parseString kn false).1.pos) v v' es) :
    Ext (parseJob cfg id) (mapNode tag l c (pre ++ (kn, v) :: post)) (mapNode tag l c (pre ++ (kn, v') :: post)) es :=
  parseJob_value_ext cfg id tag l c pre post kn v v' es hk.good (by rw [hk.value]; exact hk.first)
    (by intro s; simp only [jobKey, hk.value, h.1]; exact ⟨trivial, h.2⟩)

theorem parseJob_environment_ext (cfg : Cfg) (id : Str) (tag : String) (l c : Nat) (pre post : List (Node × Node)) (kn v v' : Node)
    (es : List PErr) (hk : AtJobKey cfg "environment" pre kn)
    (h : Ext (parseEnvironment cfg (parseString kn false).1.pos) v v' es) :
    Ext (parseJob cfg id) (mapNode tag l c (pre ++ (kn, v) :: post)) (mapNode tag l c (pre ++ (kn, v') :: post)) es :=
  parseJob_value_ext cfg id tag l c pre post kn v v' es hk.good (by rw [hk.value]; exact hk.first)
    (by intro s; simp only [jobKey, hk.value, h.1]; exact ⟨trivial, h.2⟩)

theorem parseJob_runsOn_ext (cfg : Cfg) (id : Str) (tag : String) (l c : Nat) (pre post : List (Node × Node)) (kn v v' : Node)
    (es : List PErr) (hk : AtJobKey cfg "runs-on" pre kn)
    (h : Ext (parseRunsOn cfg) v v' es) :
    Ext (parseJob cfg id) (mapNode tag l c (pre ++ (kn, v) :: post)) (mapNode tag l c (pre ++ (kn, v') :: post)) es :=
  parseJob_value_ext cfg id tag l c pre post kn v v' es hk.good (by rw [hk.value]; exact hk.first)
    (by intro s; simp only [jobKey, hk.value, h.1]; exact ⟨trivial, h.2⟩)

theorem parseJob_defaults_ext (cfg : Cfg) (id : Str) (tag : String) (l c : Nat) (pre post : List (Node × Node)) (kn v v' : Node)
    (es : List PErr) (hk : AtJobKey cfg "defaults" pre kn)
    (h : Ext (parseDefaults cfg (parseString kn false).1.pos) v v' es) :
    Ext (parseJob cfg id) (mapNode tag l c (pre ++ (kn, v) :: post)) (mapNode tag l c (pre ++ (kn, v') :: post)) es :=
  parseJob_value_ext cfg id tag l c pre post kn v v' es hk.good (by rw [hk.value]; exact hk.first)
    (by intro s; simp only [jobKey, hk.value, h.1]; exact ⟨trivial, h.2⟩)

/-- `defaults:` — the value of its `run:` key replaced. The final check of `parseDefaults` ("no run") is positioned at the
`defaults` node itself, whose line and column are the same for both mappings -/
theorem parseDefaults_run_ext (cfg : Cfg) (pos : Pos) (tag : String) (l c : Nat) (pre post : List (Node × Node)) (kn v v' : Node)
    (es : List PErr) (hk : AtJobKey cfg "run" pre kn)
    (h : Ext (fun n => (plain defaultsRunKey { pos := (parseString kn false).1.pos }).run cfg (sectionWhat "run") n false true) v v' es) :
    Ext (parseDefaults cfg pos) (mapNode tag l c (pre ++ (kn, v) :: post)) (mapNode tag l c (pre ++ (kn, v') :: post)) es := by
  have hid : keyId cfg true kn = "run" := by rw [keyId_cs cfg kn hk.good, hk.value]
  have := Sect.value_ext (defaultsSect cfg pos (mapNode tag l c [])) cfg (sectionWhat "defaults") tag l c false true pre post kn v v' es
    (by
      intro s
      have h1 := h.1
      have h2 := h.2
      simp only [plain_run] at h1 h2
      simp only [hid, defaultsSect, defaultsStep, parseSectionMapping, ne_eq, not_true_eq_false, if_false]
      exact ⟨by rw [h1], h2⟩)
    (by intro q hq; rw [hid]; exact hk.first q hq)
  have e : ∀ ps, parseDefaults cfg pos (mapNode tag l c ps) =
      (defaultsSect cfg pos (mapNode tag l c [])).run cfg (sectionWhat "defaults") (mapNode tag l c ps) false true := fun _ => rfl
  simp only [Ext, e]
  exact this

/-! ### the same for the keys of the workflow itself -/

/-- the shape of a workflow file with one distinguished top-level key -/
def docWithKey (tW : String) (lW cW : Nat) (preW postW : List (Node × Node)) (kn v : Node) : Node :=
  docNode (mapNode tW lW cW (preW ++ (kn, v) :: postW))

theorem workflow_value_ext_in_document (cfg : Cfg) (tW : String) (lW cW : Nat) (preW postW : List (Node × Node)) (kn v v' : Node)
    (es : List PErr) (hk : GoodKey kn) (hfirst : ∀ q ∈ preW, keyId cfg true q.1 ≠ kn.value)
    (h : ∀ s, (workflowKey cfg s ⟨kn.value, (parseString kn false).1, v'⟩).1 = (workflowKey cfg s ⟨kn.value, (parseString kn false).1, v⟩).1 ∧
      (workflowKey cfg s ⟨kn.value, (parseString kn false).1, v'⟩).2.Perm (es ++ (workflowKey cfg s ⟨kn.value, (parseString kn false).1, v⟩).2)) :
    (parse cfg (docWithKey tW lW cW preW postW kn v')).1 = (parse cfg (docWithKey tW lW cW preW postW kn v)).1 ∧
    (parse cfg (docWithKey tW lW cW preW postW kn v')).2.Perm (es ++ (parse cfg (docWithKey tW lW cW preW postW kn v)).2) := by
  have hid : keyId cfg true kn = kn.value := keyId_cs cfg kn hk
  have e4 := Sect.value_ext (workflowSect cfg (docNode (mapNode tW lW cW []))) cfg "workflow" tW lW cW false true preW postW kn v v' es
    (by intro s; simp only [hid, workflowSect]; exact h s)
    (by intro q hq; rw [hid]; exact hfirst q hq)
  have hdoc : ∀ root, parse cfg (docNode root) = (workflowSect cfg (docNode root)).run cfg "workflow" root false true :=
    fun root => parse_eq_run cfg (docNode root) root [] rfl
  have hsame : ∀ r1 r2 root, (workflowSect cfg (docNode r1)).run cfg "workflow" root false true =
      (workflowSect cfg (docNode r2)).run cfg "workflow" root false true := fun _ _ _ => rfl
  simp only [docWithKey, hdoc]
  rw [hsame _ (mapNode tW lW cW []), hsame _ (mapNode tW lW cW [])]
  exact e4

/-! ### unknown keys in the sub-sections of a job and of the workflow, at the level of the whole file -/

/-- `doc'` parses to the same AST as `doc` with exactly the one diagnostic `e` more -/
def AddsExactly (cfg : Cfg) (doc doc' : Node) (e : PErr) : Prop :=
  (parse cfg doc').1 = (parse cfg doc).1 ∧ (parse cfg doc').2.Perm (e :: (parse cfg doc).2)

section
variable (cfg : Cfg) (tW tJ tK tP tR : String) (lW cW lJ cJ lK cK lP cP lR cR : Nat)
  (preW postW preJ postJ preK postK preR postR pre post : List (Node × Node)) (kJobs kJob kSec kRun kn vn : Node)

/-- the file: workflow → jobs → job → `kSec:` → a node -/
def docWithJobSection (sec : Node) : Node :=
  docWithJob tW tJ lW cW lJ cJ preW postW preJ postJ kJobs kJob (mapNode tK lK cK (preK ++ (kSec, sec) :: postK))

/-- the hypotheses that fix the path workflow → `jobs:` → one job -/
structure JobPath : Prop where
  jobs : GoodKey kJobs
  jobsV : kJobs.value = "jobs"
  jobsFirst : ∀ q ∈ preW, keyId cfg true q.1 ≠ "jobs"
  jobFirst : ∀ q ∈ preJ, keyId cfg false q.1 ≠ keyId cfg false kJob

/-- **C13 for `container:` of a job, whole file**: an unknown key inserted anywhere into the container mapping of any job
leaves the whole AST unchanged and adds exactly its own diagnostic to those of the whole file -/
theorem container_unknown_in_document (hp : JobPath cfg preW preJ kJobs kJob)
    (hSec : AtJobKey cfg "container" preK kSec) (hF : Foreign cfg containerKeys pre post kn) :
    AddsExactly cfg
      (docWithJobSection tW tJ tK lW cW lJ cJ lK cK preW postW preJ postJ preK postK kJobs kJob kSec (mapNode tP lP cP (pre ++ post)))
      (docWithJobSection tW tJ tK lW cW lJ cJ lK cK preW postW preJ postJ preK postK kJobs kJob kSec (mapNode tP lP cP (pre ++ (kn, vn) :: post)))
      (unexpectedAt kn "container" containerKeys) := by
  have e0 : Ext (parseContainer cfg "container" (parseString kSec false).1.pos) (mapNode tP lP cP (pre ++ post))
      (mapNode tP lP cP (pre ++ (kn, vn) :: post)) [unexpectedAt kn "container" containerKeys] :=
    container_unknown cfg tP lP cP pre post kn vn "container" _ hF
  have e1 := parseJob_container_ext cfg (parseString kJob false).1 tK lK cK preK postK kSec _ _ _ hSec e0
  exact job_ext_in_document cfg tW tJ lW cW lJ cJ preW postW preJ postJ kJobs kJob _ _ _ hp.jobs hp.jobsV hp.jobsFirst hp.jobFirst e1

theorem strategy_unknown_in_document (hp : JobPath cfg preW preJ kJobs kJob)
    (hSec : AtJobKey cfg "strategy" preK kSec) (hF : Foreign cfg ["matrix", "fail-fast", "max-parallel"] pre post kn) :
    AddsExactly cfg
      (docWithJobSection tW tJ tK lW cW lJ cJ lK cK preW postW preJ postJ preK postK kJobs kJob kSec (mapNode tP lP cP (pre ++ post)))
      (docWithJobSection tW tJ tK lW cW lJ cJ lK cK preW postW preJ postJ preK postK kJobs kJob kSec (mapNode tP lP cP (pre ++ (kn, vn) :: post)))
      (unexpectedAt kn "strategy" ["matrix", "fail-fast", "max-parallel"]) := by
  have e0 : Ext (parseStrategy cfg (parseString kSec false).1.pos) (mapNode tP lP cP (pre ++ post))
      (mapNode tP lP cP (pre ++ (kn, vn) :: post)) [_] := strategy_unknown cfg tP lP cP pre post kn vn _ hF
  have e1 := parseJob_strategy_ext cfg (parseString kJob false).1 tK lK cK preK postK kSec _ _ _ hSec e0
  exact job_ext_in_document cfg tW tJ lW cW lJ cJ preW postW preJ postJ kJobs kJob _ _ _ hp.jobs hp.jobsV hp.jobsFirst hp.jobFirst e1

theorem job_concurrency_unknown_in_document (hp : JobPath cfg preW preJ kJobs kJob)
    (hSec : AtJobKey cfg "concurrency" preK kSec) (hF : Foreign cfg ["group", "cancel-in-progress"] pre post kn) :
    AddsExactly cfg
      (docWithJobSection tW tJ tK lW cW lJ cJ lK cK preW postW preJ postJ preK postK kJobs kJob kSec (mapNode tP lP cP (pre ++ post)))
      (docWithJobSection tW tJ tK lW cW lJ cJ lK cK preW postW preJ postJ preK postK kJobs kJob kSec (mapNode tP lP cP (pre ++ (kn, vn) :: post)))
      (unexpectedAt kn "concurrency" ["group", "cancel-in-progress"]) := by
  have e0 : Ext (parseConcurrency cfg (parseString kSec false).1.pos) (mapNode tP lP cP (pre ++ post))
      (mapNode tP lP cP (pre ++ (kn, vn) :: post)) [_] := concurrency_unknown cfg tP lP cP pre post kn vn _ hF
  have e1 := parseJob_concurrency_ext cfg (parseString kJob false).1 tK lK cK preK postK kSec _ _ _ hSec e0
  exact job_ext_in_document cfg tW tJ lW cW lJ cJ preW postW preJ postJ kJobs kJob _ _ _ hp.jobs hp.jobsV hp.jobsFirst hp.jobFirst e1

theorem environment_unknown_in_document (hp : JobPath cfg preW preJ kJobs kJob)
    (hSec : AtJobKey cfg "environment" preK kSec) (hF : Foreign cfg ["name", "url"] pre post kn) :
    AddsExactly cfg
      (docWithJobSection tW tJ tK lW cW lJ cJ lK cK preW postW preJ postJ preK postK kJobs kJob kSec (mapNode tP lP cP (pre ++ post)))
      (docWithJobSection tW tJ tK lW cW lJ cJ lK cK preW postW preJ postJ preK postK kJobs kJob kSec (mapNode tP lP cP (pre ++ (kn, vn) :: post)))
      (unexpectedAt kn "environment" ["name", "url"]) := by
  have e0 : Ext (parseEnvironment cfg (parseString kSec false).1.pos) (mapNode tP lP cP (pre ++ post))
      (mapNode tP lP cP (pre ++ (kn, vn) :: post)) [_] := environment_unknown cfg tP lP cP pre post kn vn _ hF
  have e1 := parseJob_environment_ext cfg (parseString kJob false).1 tK lK cK preK postK kSec _ _ _ hSec e0
  exact job_ext_in_document cfg tW tJ lW cW lJ cJ preW postW preJ postJ kJobs kJob _ _ _ hp.jobs hp.jobsV hp.jobsFirst hp.jobFirst e1

theorem runsOn_unknown_in_document (hp : JobPath cfg preW preJ kJobs kJob)
    (hSec : AtJobKey cfg "runs-on" preK kSec) (hF : Foreign cfg ["labels", "group"] pre post kn) :
    AddsExactly cfg
      (docWithJobSection tW tJ tK lW cW lJ cJ lK cK preW postW preJ postJ preK postK kJobs kJob kSec (mapNode "!!map" lP cP (pre ++ post)))
      (docWithJobSection tW tJ tK lW cW lJ cJ lK cK preW postW preJ postJ preK postK kJobs kJob kSec (mapNode "!!map" lP cP (pre ++ (kn, vn) :: post)))
      (unexpectedAt kn "runs-on" ["labels", "group"]) := by
  have e0 : Ext (parseRunsOn cfg) (mapNode "!!map" lP cP (pre ++ post))
      (mapNode "!!map" lP cP (pre ++ (kn, vn) :: post)) [_] := runsOn_unknown cfg lP cP pre post kn vn hF
  have e1 := parseJob_runsOn_ext cfg (parseString kJob false).1 tK lK cK preK postK kSec _ _ _ hSec e0
  exact job_ext_in_document cfg tW tJ lW cW lJ cJ preW postW preJ postJ kJobs kJob _ _ _ hp.jobs hp.jobsV hp.jobsFirst hp.jobFirst e1

/-- `jobs.<id>.defaults.run`: four levels below the root -/
theorem job_defaults_run_unknown_in_document (hp : JobPath cfg preW preJ kJobs kJob)
    (hSec : AtJobKey cfg "defaults" preK kSec) (hRun : AtJobKey cfg "run" preR kRun)
    (hF : Foreign cfg ["shell", "working-directory"] pre post kn) :
    AddsExactly cfg
      (docWithJobSection tW tJ tK lW cW lJ cJ lK cK preW postW preJ postJ preK postK kJobs kJob kSec
        (mapNode tR lR cR (preR ++ (kRun, mapNode tP lP cP (pre ++ post)) :: postR)))
      (docWithJobSection tW tJ tK lW cW lJ cJ lK cK preW postW preJ postJ preK postK kJobs kJob kSec
        (mapNode tR lR cR (preR ++ (kRun, mapNode tP lP cP (pre ++ (kn, vn) :: post)) :: postR)))
      (unexpectedAt kn "run" ["shell", "working-directory"]) := by
  have e0 : Ext (fun n => (plain defaultsRunKey { pos := (parseString kRun false).1.pos }).run cfg (sectionWhat "run") n false true)
      (mapNode tP lP cP (pre ++ post)) (mapNode tP lP cP (pre ++ (kn, vn) :: post)) [_] :=
    defaultsRun_unknown cfg tP lP cP pre post kn vn _ hF
  have e1 := parseDefaults_run_ext cfg (parseString kSec false).1.pos tR lR cR preR postR kRun _ _ _ hRun e0
  have e2 := parseJob_defaults_ext cfg (parseString kJob false).1 tK lK cK preK postK kSec _ _ _ hSec e1
  exact job_ext_in_document cfg tW tJ lW cW lJ cJ preW postW preJ postJ kJobs kJob _ _ _ hp.jobs hp.jobsV hp.jobsFirst hp.jobFirst e2

/-- the workflow's own `concurrency:` -/
theorem workflow_concurrency_unknown_in_document (hk : AtJobKey cfg "concurrency" preW kSec)
    (hF : Foreign cfg ["group", "cancel-in-progress"] pre post kn) :
    AddsExactly cfg (docWithKey tW lW cW preW postW kSec (mapNode tP lP cP (pre ++ post)))
      (docWithKey tW lW cW preW postW kSec (mapNode tP lP cP (pre ++ (kn, vn) :: post)))
      (unexpectedAt kn "concurrency" ["group", "cancel-in-progress"]) := by
  have e0 : Ext (parseConcurrency cfg (parseString kSec false).1.pos) (mapNode tP lP cP (pre ++ post))
      (mapNode tP lP cP (pre ++ (kn, vn) :: post)) [_] := concurrency_unknown cfg tP lP cP pre post kn vn _ hF
  exact workflow_value_ext_in_document cfg tW lW cW preW postW kSec (mapNode tP lP cP (pre ++ post))
    (mapNode tP lP cP (pre ++ (kn, vn) :: post)) [_] hk.good (by rw [hk.value]; exact hk.first)
    (by intro s; simp only [workflowKey, hk.value, e0.1]; exact ⟨trivial, e0.2⟩)

/-- the workflow's own `defaults.run` -/
theorem workflow_defaults_run_unknown_in_document (hk : AtJobKey cfg "defaults" preW kSec) (hRun : AtJobKey cfg "run" preR kRun)
    (hF : Foreign cfg ["shell", "working-directory"] pre post kn) :
    AddsExactly cfg
      (docWithKey tW lW cW preW postW kSec (mapNode tR lR cR (preR ++ (kRun, mapNode tP lP cP (pre ++ post)) :: postR)))
      (docWithKey tW lW cW preW postW kSec (mapNode tR lR cR (preR ++ (kRun, mapNode tP lP cP (pre ++ (kn, vn) :: post)) :: postR)))
      (unexpectedAt kn "run" ["shell", "working-directory"]) := by
  have e0 : Ext (fun n => (plain defaultsRunKey { pos := (parseString kRun false).1.pos }).run cfg (sectionWhat "run") n false true)
      (mapNode tP lP cP (pre ++ post)) (mapNode tP lP cP (pre ++ (kn, vn) :: post)) [_] :=
    defaultsRun_unknown cfg tP lP cP pre post kn vn _ hF
  have e1 := parseDefaults_run_ext cfg (parseString kSec false).1.pos tR lR cR preR postR kRun _ _ _ hRun e0
  exact workflow_value_ext_in_document cfg tW lW cW preW postW kSec
    (mapNode tR lR cR (preR ++ (kRun, mapNode tP lP cP (pre ++ post)) :: postR))
    (mapNode tR lR cR (preR ++ (kRun, mapNode tP lP cP (pre ++ (kn, vn) :: post)) :: postR)) [_]
    hk.good (by rw [hk.value]; exact hk.first)
    (by intro s; simp only [workflowKey, hk.value, e1.1]; exact ⟨trivial, e1.2⟩)

end
/-! ### `on:` → one event -/

theorem parseEvents_mapNode (cfg : Cfg) (pos : Pos) (tag : String) (l c : Nat) (ps : List (Node × Node)) :
    parseEvents cfg pos (mapNode tag l c ps) =
      (some ((plain (eventOfKey cfg) []).run cfg (sectionWhat "on") (mapNode tag l c ps) false true).1,
       ((plain (eventOfKey cfg) []).run cfg (sectionWhat "on") (mapNode tag l c ps) false true).2) := by
  simp [parseEvents, mapNode, Node.kind, plain_run, parseSectionMapping]

/-- `on:` (a mapping) — the value of one event replaced -/
theorem parseEvents_value_ext (cfg : Cfg) (pos : Pos) (tag : String) (l c : Nat) (pre post : List (Node × Node)) (kn v v' : Node)
    (es : List PErr) (hk : GoodKey kn) (hfirst : ∀ q ∈ pre, keyId cfg true q.1 ≠ kn.value)
    (h : ∀ s, (eventOfKey cfg s ⟨kn.value, (parseString kn false).1, v'⟩).1 = (eventOfKey cfg s ⟨kn.value, (parseString kn false).1, v⟩).1 ∧
      (eventOfKey cfg s ⟨kn.value, (parseString kn false).1, v'⟩).2.Perm (es ++ (eventOfKey cfg s ⟨kn.value, (parseString kn false).1, v⟩).2)) :
    Ext (parseEvents cfg pos) (mapNode tag l c (pre ++ (kn, v) :: post)) (mapNode tag l c (pre ++ (kn, v') :: post)) es := by
  have hid : keyId cfg true kn = kn.value := keyId_cs cfg kn hk
  have := Sect.value_ext (plain (eventOfKey cfg) []) cfg (sectionWhat "on") tag l c false true pre post kn v v' es
    (by intro s; simp only [hid, plain]; exact h s)
    (by intro q hq; rw [hid]; exact hfirst q hq)
  simp only [Ext, parseEvents_mapNode]
  exact ⟨by rw [this.1], this.2⟩

section
variable (cfg : Cfg) (tW tO tP : String) (lW cW lO cO lP cP : Nat)
  (preW postW preO postO pre post : List (Node × Node)) (kOn kEv kn vn : Node)

/-- the file: workflow → `on:` → `kEv:` → a node -/
def docWithEvent (ev : Node) : Node :=
  docWithKey tW lW cW preW postW kOn (mapNode tO lO cO (preO ++ (kEv, ev) :: postO))

theorem event_ext_in_document (hOn : AtJobKey cfg "on" preW kOn) (hEv : GoodKey kEv)
    (hEvFirst : ∀ q ∈ preO, keyId cfg true q.1 ≠ kEv.value) (ev ev' : Node) (es : List PErr)
    (h : ∀ s, (eventOfKey cfg s ⟨kEv.value, (parseString kEv false).1, ev'⟩).1 = (eventOfKey cfg s ⟨kEv.value, (parseString kEv false).1, ev⟩).1 ∧
      (eventOfKey cfg s ⟨kEv.value, (parseString kEv false).1, ev'⟩).2.Perm (es ++ (eventOfKey cfg s ⟨kEv.value, (parseString kEv false).1, ev⟩).2)) :
    (parse cfg (docWithEvent tW tO lW cW lO cO preW postW preO postO kOn kEv ev')).1 =
      (parse cfg (docWithEvent tW tO lW cW lO cO preW postW preO postO kOn kEv ev)).1 ∧
    (parse cfg (docWithEvent tW tO lW cW lO cO preW postW preO postO kOn kEv ev')).2.Perm
      (es ++ (parse cfg (docWithEvent tW tO lW cW lO cO preW postW preO postO kOn kEv ev)).2) := by
  have e1 := parseEvents_value_ext cfg (parseString kOn false).1.pos tO lO cO preO postO kEv ev ev' es hEv hEvFirst h
  exact workflow_value_ext_in_document cfg tW lW cW preW postW kOn
    (mapNode tO lO cO (preO ++ (kEv, ev) :: postO)) (mapNode tO lO cO (preO ++ (kEv, ev') :: postO)) es
    hOn.good (by rw [hOn.value]; exact hOn.first)
    (by intro s; simp only [workflowKey, hOn.value, e1.1]; exact ⟨trivial, e1.2⟩)

/-- **a webhook event (`push:`, `pull_request:`, …), whole file**: an unknown key inserted anywhere into the event's mapping
leaves the whole AST unchanged and adds exactly its own diagnostic -/
theorem webhook_unknown_in_document (hOn : AtJobKey cfg "on" preW kOn) (hEv : GoodKey kEv)
    (hEvFirst : ∀ q ∈ preO, keyId cfg true q.1 ≠ kEv.value)
    (hWeb : kEv.value ∉ ["schedule", "workflow_dispatch", "repository_dispatch", "workflow_call"])
    (hF : Foreign cfg webhookKeys pre post kn) :
    AddsExactly cfg (docWithEvent tW tO lW cW lO cO preW postW preO postO kOn kEv (mapNode tP lP cP (pre ++ post)))
      (docWithEvent tW tO lW cW lO cO preW postW preO postO kOn kEv (mapNode tP lP cP (pre ++ (kn, vn) :: post)))
      (unexpectedAt kn kEv.value webhookKeys) := by
  have e0 : Ext (parseWebhookEvent cfg (parseString kEv false).1) (mapNode tP lP cP (pre ++ post))
      (mapNode tP lP cP (pre ++ (kn, vn) :: post)) [unexpectedAt kn (parseString kEv false).1.value webhookKeys] :=
    webhook_unknown cfg tP lP cP pre post kn vn _ hF
  have hval : (parseString kEv false).1.value = kEv.value := by
    have := keyId_cs cfg kEv hEv
    simpa [keyId] using this
  rw [hval] at e0
  simp only [List.mem_cons, List.not_mem_nil, or_false, not_or] at hWeb
  obtain ⟨w1, w2, w3, w4⟩ := hWeb
  exact event_ext_in_document cfg tW tO lW cW lO cO preW postW preO postO kOn kEv hOn hEv hEvFirst
    (mapNode tP lP cP (pre ++ post)) (mapNode tP lP cP (pre ++ (kn, vn) :: post)) [_]
    (by intro s; simp only [eventOfKey, w1, w2, w3, w4, e0.1]; exact ⟨trivial, e0.2⟩)

/-- `workflow_dispatch:` -/
theorem dispatch_unknown_in_document (hOn : AtJobKey cfg "on" preW kOn) (hEv : AtJobKey cfg "workflow_dispatch" preO kEv)
    (hF : Foreign cfg ["inputs"] pre post kn) :
    AddsExactly cfg (docWithEvent tW tO lW cW lO cO preW postW preO postO kOn kEv (mapNode tP lP cP (pre ++ post)))
      (docWithEvent tW tO lW cW lO cO preW postW preO postO kOn kEv (mapNode tP lP cP (pre ++ (kn, vn) :: post)))
      (unexpectedAt kn "workflow_dispatch" ["inputs"]) := by
  have e0 : Ext (parseWorkflowDispatchEvent cfg (parseString kEv false).1.pos) (mapNode tP lP cP (pre ++ post))
      (mapNode tP lP cP (pre ++ (kn, vn) :: post)) [_] := dispatch_unknown cfg tP lP cP pre post kn vn _ hF
  exact event_ext_in_document cfg tW tO lW cW lO cO preW postW preO postO kOn kEv hOn hEv.good
    (by rw [hEv.value]; exact hEv.first) (mapNode tP lP cP (pre ++ post)) (mapNode tP lP cP (pre ++ (kn, vn) :: post)) [_]
    (by intro s; simp only [eventOfKey, hEv.value, e0.1]; exact ⟨trivial, e0.2⟩)

/-- `workflow_call:` -/
theorem callEvent_unknown_in_document (hOn : AtJobKey cfg "on" preW kOn) (hEv : AtJobKey cfg "workflow_call" preO kEv)
    (hF : Foreign cfg ["inputs", "secrets", "outputs"] pre post kn) :
    AddsExactly cfg (docWithEvent tW tO lW cW lO cO preW postW preO postO kOn kEv (mapNode tP lP cP (pre ++ post)))
      (docWithEvent tW tO lW cW lO cO preW postW preO postO kOn kEv (mapNode tP lP cP (pre ++ (kn, vn) :: post)))
      (unexpectedAt kn "workflow_call" ["inputs", "secrets", "outputs"]) := by
  have e0 : Ext (parseWorkflowCallEvent cfg (parseString kEv false).1.pos) (mapNode tP lP cP (pre ++ post))
      (mapNode tP lP cP (pre ++ (kn, vn) :: post)) [_] := callEvent_unknown cfg tP lP cP pre post kn vn _ hF
  exact event_ext_in_document cfg tW tO lW cW lO cO preW postW preO postO kOn kEv hOn hEv.good
    (by rw [hEv.value]; exact hEv.first) (mapNode tP lP cP (pre ++ post)) (mapNode tP lP cP (pre ++ (kn, vn) :: post)) [_]
    (by intro s; simp only [eventOfKey, hEv.value, e0.1]; exact ⟨trivial, e0.2⟩)

/-- `repository_dispatch:` -/
theorem repoDispatch_unknown_in_document (hOn : AtJobKey cfg "on" preW kOn) (hEv : AtJobKey cfg "repository_dispatch" preO kEv)
    (hF : Foreign cfg ["types"] pre post kn) :
    AddsExactly cfg (docWithEvent tW tO lW cW lO cO preW postW preO postO kOn kEv (mapNode tP lP cP (pre ++ post)))
      (docWithEvent tW tO lW cW lO cO preW postW preO postO kOn kEv (mapNode tP lP cP (pre ++ (kn, vn) :: post)))
      (unexpectedAt kn "repository_dispatch" ["types"]) := by
  have e0 : Ext (parseRepositoryDispatchEvent cfg (parseString kEv false).1.pos) (mapNode tP lP cP (pre ++ post))
      (mapNode tP lP cP (pre ++ (kn, vn) :: post)) [_] := repoDispatch_unknown cfg tP lP cP pre post kn vn _ hF
  exact event_ext_in_document cfg tW tO lW cW lO cO preW postW preO postO kOn kEv hOn hEv.good
    (by rw [hEv.value]; exact hEv.first) (mapNode tP lP cP (pre ++ post)) (mapNode tP lP cP (pre ++ (kn, vn) :: post)) [_]
    (by intro s; simp only [eventOfKey, hEv.value, e0.1]; exact ⟨trivial, e0.2⟩)

end
/-! ### repeated keys, at the level of the whole file -/

section
variable (cfg : Cfg) (tW tJ tP : String) (lW cW lJ cJ lP cP : Nat)
  (preW postW preJ postJ pre post : List (Node × Node)) (kJobs kJob kn vn : Node)

/-- a key of a job written twice: exactly one `key-duplicated` diagnostic more, at the repetition, naming where the first
one is; the whole AST unchanged -/
theorem job_duplicate_in_document (hp : JobPath cfg preW preJ kJobs kJob) (hR : Repeated cfg true pre kn) :
    ∃ pos, firstPos cfg true (keyId cfg true kn) pre = some pos ∧
    AddsExactly cfg
      (docWithJob tW tJ lW cW lJ cJ preW postW preJ postJ kJobs kJob (mapNode tP lP cP (pre ++ post)))
      (docWithJob tW tJ lW cW lJ cJ preW postW preJ postJ kJobs kJob (mapNode tP lP cP (pre ++ (kn, vn) :: post)))
      (dupAt kn (jobWhat (parseString kJob false).1.value) pos true) := by
  obtain ⟨pos, hpos, hins⟩ := job_duplicate cfg tP lP cP pre post kn vn (parseString kJob false).1 hR
  refine ⟨pos, hpos, ?_⟩
  have e0 : Ext (parseJob cfg (parseString kJob false).1) (mapNode tP lP cP (pre ++ post))
      (mapNode tP lP cP (pre ++ (kn, vn) :: post)) [dupAt kn (jobWhat (parseString kJob false).1.value) pos true] := hins
  exact job_ext_in_document cfg tW tJ lW cW lJ cJ preW postW preJ postJ kJobs kJob _ _ _ hp.jobs hp.jobsV hp.jobsFirst hp.jobFirst e0

/-- a job id written twice (up to letter case) under `jobs:`: the second job is reported and dropped, nothing else changes -/
theorem jobs_duplicate_in_document (hJobs : AtJobKey cfg "jobs" preW kJobs) (hR : Repeated cfg false pre kn) :
    ∃ pos, firstPos cfg false (keyId cfg false kn) pre = some pos ∧
    AddsExactly cfg (docWithKey tW lW cW preW postW kJobs (mapNode tP lP cP (pre ++ post)))
      (docWithKey tW lW cW preW postW kJobs (mapNode tP lP cP (pre ++ (kn, vn) :: post)))
      (dupAt kn (sectionWhat "jobs") pos false) := by
  obtain ⟨pos, hpos, hins⟩ := jobs_duplicate cfg tP lP cP pre post kn vn hR
  refine ⟨pos, hpos, ?_⟩
  have e0 : Ext (parseJobs cfg) (mapNode tP lP cP (pre ++ post)) (mapNode tP lP cP (pre ++ (kn, vn) :: post))
      [dupAt kn (sectionWhat "jobs") pos false] := hins
  exact workflow_value_ext_in_document cfg tW lW cW preW postW kJobs (mapNode tP lP cP (pre ++ post))
    (mapNode tP lP cP (pre ++ (kn, vn) :: post)) [_] hJobs.good (by rw [hJobs.value]; exact hJobs.first)
    (by intro s; simp only [workflowKey, hJobs.value, e0.1]; exact ⟨trivial, e0.2⟩)

/-- a top-level key written twice -/
theorem workflow_duplicate_in_document (hR : Repeated cfg true pre kn) :
    ∃ pos, firstPos cfg true (keyId cfg true kn) pre = some pos ∧
    AddsExactly cfg (docNode (mapNode tW lW cW (pre ++ post))) (docNode (mapNode tW lW cW (pre ++ (kn, vn) :: post)))
      (dupAt kn "workflow" pos true) := by
  obtain ⟨pos, hpos, hins⟩ := workflow_duplicate cfg tW lW cW pre post kn vn (docNode (mapNode tW lW cW [])) hR
  refine ⟨pos, hpos, ?_⟩
  have hdoc : ∀ root, parse cfg (docNode root) = (workflowSect cfg (docNode root)).run cfg "workflow" root false true :=
    fun root => parse_eq_run cfg (docNode root) root [] rfl
  have hsame : ∀ r1 r2 root, (workflowSect cfg (docNode r1)).run cfg "workflow" root false true =
      (workflowSect cfg (docNode r2)).run cfg "workflow" root false true := fun _ _ _ => rfl
  simp only [AddsExactly, hdoc]
  rw [hsame _ (mapNode tW lW cW []), hsame _ (mapNode tW lW cW [])]
  exact hins

/-- an unknown top-level key -/
theorem workflow_unknown_in_document (hF : Foreign cfg workflowKeys pre post kn) :
    AddsExactly cfg (docNode (mapNode tW lW cW (pre ++ post))) (docNode (mapNode tW lW cW (pre ++ (kn, vn) :: post)))
      (unexpectedAt kn "workflow" workflowKeys) := by
  have hins := workflow_unknown cfg tW lW cW pre post kn vn (docNode (mapNode tW lW cW [])) hF
  have hdoc : ∀ root, parse cfg (docNode root) = (workflowSect cfg (docNode root)).run cfg "workflow" root false true :=
    fun root => parse_eq_run cfg (docNode root) root [] rfl
  have hsame : ∀ r1 r2 root, (workflowSect cfg (docNode r1)).run cfg "workflow" root false true =
      (workflowSect cfg (docNode r2)).run cfg "workflow" root false true := fun _ _ _ => rfl
  simp only [AddsExactly, hdoc]
  rw [hsame _ (mapNode tW lW cW []), hsame _ (mapNode tW lW cW [])]
  exact hins

end
/-! ### `services.<id>` and `container.credentials` -/

theorem isExprAssigned_empty : AL.Yaml.isExprAssigned "" = false := by decide

theorem mayParseExpression_mapNode (tag : String) (l c : Nat) (ps : List (Node × Node)) :
    mayParseExpression (mapNode tag l c ps) = none := by
  simp only [mayParseExpression, mapNode, Node.tag, Node.value, isExprAssigned_empty]
  by_cases h : tag ≠ "!!str" <;> simp [h]

/-- `services:` — the value of one service replaced -/
theorem parseServices_ext (cfg : Cfg) (tag : String) (l c : Nat) (pre post : List (Node × Node)) (kn v v' : Node) (es : List PErr)
    (hfirst : ∀ q ∈ pre, keyId cfg false q.1 ≠ keyId cfg false kn)
    (h : Ext (parseContainer cfg "services" (parseString kn false).1.pos) v v' es) :
    Ext (parseServices cfg) (mapNode tag l c (pre ++ (kn, v) :: post)) (mapNode tag l c (pre ++ (kn, v') :: post)) es := by
  have := Sect.value_ext (mapSect fun s => let c := parseContainer cfg "services" s.key.pos s.val; ((⟨s.key, c.1⟩ : Service), c.2))
    cfg (sectionWhat "services") tag l c false false pre post kn v v' es
    (by
      intro s
      simp only [mapSect, plain, h.1]
      exact ⟨trivial, h.2⟩)
    hfirst
  simp only [Ext, mapSect_run] at this
  simp only [Ext, parseServices, mayParseExpression_mapNode, parseSectionMapping]
  have hpos : ∀ ps, (mapNode tag l c ps).pos = ⟨l, c⟩ := fun _ => rfl
  simp only [hpos]
  exact ⟨by rw [this.1], this.2⟩

theorem parseJob_services_ext (cfg : Cfg) (id : Str) (tag : String) (l c : Nat) (pre post : List (Node × Node)) (kn v v' : Node)
    (es : List PErr) (hk : AtJobKey cfg "services" pre kn) (h : Ext (parseServices cfg) v v' es) :
    Ext (parseJob cfg id) (mapNode tag l c (pre ++ (kn, v) :: post)) (mapNode tag l c (pre ++ (kn, v') :: post)) es :=
  parseJob_value_ext cfg id tag l c pre post kn v v' es hk.good (by rw [hk.value]; exact hk.first)
    (by intro s; simp only [jobKey, hk.value, h.1]; exact ⟨trivial, h.2⟩)

section
variable (cfg : Cfg) (tW tJ tK tP tS : String) (lW cW lJ cJ lK cK lP cP lS cS : Nat)
  (preW postW preJ postJ preK postK preS postS pre post : List (Node × Node)) (kJobs kJob kSec kSvc kn vn : Node)

/-- **an unknown key in a service's container, whole file** (`jobs.<id>.services.<svc>.<key>`) -/
theorem service_unknown_in_document (hp : JobPath cfg preW preJ kJobs kJob)
    (hSec : AtJobKey cfg "services" preK kSec)
    (hSvcFirst : ∀ q ∈ preS, keyId cfg false q.1 ≠ keyId cfg false kSvc)
    (hF : Foreign cfg containerKeys pre post kn) :
    AddsExactly cfg
      (docWithJobSection tW tJ tK lW cW lJ cJ lK cK preW postW preJ postJ preK postK kJobs kJob kSec
        (mapNode tS lS cS (preS ++ (kSvc, mapNode tP lP cP (pre ++ post)) :: postS)))
      (docWithJobSection tW tJ tK lW cW lJ cJ lK cK preW postW preJ postJ preK postK kJobs kJob kSec
        (mapNode tS lS cS (preS ++ (kSvc, mapNode tP lP cP (pre ++ (kn, vn) :: post)) :: postS)))
      (unexpectedAt kn "services" containerKeys) := by
  have e0 : Ext (parseContainer cfg "services" (parseString kSvc false).1.pos) (mapNode tP lP cP (pre ++ post))
      (mapNode tP lP cP (pre ++ (kn, vn) :: post)) [unexpectedAt kn "services" containerKeys] :=
    container_unknown cfg tP lP cP pre post kn vn "services" _ hF
  have e1 := parseServices_ext cfg tS lS cS preS postS kSvc _ _ _ hSvcFirst e0
  have e2 := parseJob_services_ext cfg (parseString kJob false).1 tK lK cK preK postK kSec _ _ _ hSec e1
  exact job_ext_in_document cfg tW tJ lW cW lJ cJ preW postW preJ postJ kJobs kJob _ _ _ hp.jobs hp.jobsV hp.jobsFirst hp.jobFirst e2

end

/-- a container — the value of its `credentials:` key replaced (the "both username and password" check looks at the parsed
credentials only, which are the same) -/
theorem parseContainer_credentials_ext (cfg : Cfg) (sec : String) (pos : Pos) (tag : String) (l c : Nat)
    (pre post : List (Node × Node)) (kn v v' : Node) (es : List PErr) (hk : AtJobKey cfg "credentials" pre kn)
    (h : Ext (fun n => (plain credentialsKey { pos := (parseString kn false).1.pos }).run cfg (sectionWhat "credentials") n false true) v v' es) :
    Ext (parseContainer cfg sec pos) (mapNode tag l c (pre ++ (kn, v) :: post)) (mapNode tag l c (pre ++ (kn, v') :: post)) es := by
  have hid : keyId cfg true kn = "credentials" := by rw [keyId_cs cfg kn hk.good, hk.value]
  have := Sect.value_ext (plain (containerKey cfg sec) { pos := pos }) cfg (sectionWhat sec) tag l c false true pre post kn v v' es
    (by
      intro s
      have h1 := h.1
      have h2 := h.2
      simp only [plain_run] at h1 h2
      simp only [hid, plain, containerKey, parseSectionMapping, h1]
      by_cases hc : ((loop credentialsKey { pos := (parseString kn false).1.pos }
          (parseMapping cfg (sectionWhat "credentials") v false true).1).1.username.isNone ||
          (loop credentialsKey { pos := (parseString kn false).1.pos }
          (parseMapping cfg (sectionWhat "credentials") v false true).1).1.password.isNone) = true
      · simp only [hc, if_true]
        refine ⟨trivial, ?_⟩
        rw [List.perm_iff_count]
        intro a
        have := (List.perm_iff_count.1 h2) a
        simp only [List.count_append] at this ⊢
        omega
      · simp only [hc, Bool.false_eq_true, if_false]
        exact ⟨trivial, h2⟩)
    (by intro q hq; rw [hid]; exact hk.first q hq)
  simp only [Ext, parseContainer_eq_run]
  exact this

theorem parseJob_container_value_ext (cfg : Cfg) (id : Str) (tag : String) (l c : Nat) (pre post : List (Node × Node)) (kn v v' : Node)
    (es : List PErr) (hk : AtJobKey cfg "container" pre kn)
    (h : Ext (parseContainer cfg "container" (parseString kn false).1.pos) v v' es) :
    Ext (parseJob cfg id) (mapNode tag l c (pre ++ (kn, v) :: post)) (mapNode tag l c (pre ++ (kn, v') :: post)) es :=
  parseJob_container_ext cfg id tag l c pre post kn v v' es hk h

section
variable (cfg : Cfg) (tW tJ tK tP tC : String) (lW cW lJ cJ lK cK lP cP lC cC : Nat)
  (preW postW preJ postJ preK postK preC postC pre post : List (Node × Node)) (kJobs kJob kSec kCred kn vn : Node)

/-- **an unknown key in `container.credentials`, whole file** (four levels below the root) -/
theorem credentials_unknown_in_document (hp : JobPath cfg preW preJ kJobs kJob)
    (hSec : AtJobKey cfg "container" preK kSec) (hCred : AtJobKey cfg "credentials" preC kCred)
    (hF : Foreign cfg ["username", "password"] pre post kn) :
    AddsExactly cfg
      (docWithJobSection tW tJ tK lW cW lJ cJ lK cK preW postW preJ postJ preK postK kJobs kJob kSec
        (mapNode tC lC cC (preC ++ (kCred, mapNode tP lP cP (pre ++ post)) :: postC)))
      (docWithJobSection tW tJ tK lW cW lJ cJ lK cK preW postW preJ postJ preK postK kJobs kJob kSec
        (mapNode tC lC cC (preC ++ (kCred, mapNode tP lP cP (pre ++ (kn, vn) :: post)) :: postC)))
      (unexpectedAt kn "credentials" ["username", "password"]) := by
  have e0 : Ext (fun n => (plain credentialsKey { pos := (parseString kCred false).1.pos }).run cfg (sectionWhat "credentials") n false true)
      (mapNode tP lP cP (pre ++ post)) (mapNode tP lP cP (pre ++ (kn, vn) :: post)) [_] :=
    credentials_unknown cfg tP lP cP pre post kn vn _ hF
  have e1 := parseContainer_credentials_ext cfg "container" (parseString kSec false).1.pos tC lC cC preC postC kCred _ _ _ hCred e0
  have e2 := parseJob_container_ext cfg (parseString kJob false).1 tK lK cK preK postK kSec _ _ _ hSec e1
  exact job_ext_in_document cfg tW tJ lW cW lJ cJ preW postW preJ postJ kJobs kJob _ _ _ hp.jobs hp.jobsV hp.jobsFirst hp.jobFirst e2

end

/-! ### `on.workflow_dispatch.inputs.<id>` -/

/-- the `inputs:` mapping of `workflow_dispatch` — the value of one input replaced -/
theorem dispatchInputs_ext (cfg : Cfg) (tag : String) (l c : Nat) (pre post : List (Node × Node)) (kn v v' : Node) (es : List PErr)
    (hfirst : ∀ q ∈ pre, keyId cfg false q.1 ≠ keyId cfg false kn)
    (h : Ext (fun n => dispatchInput cfg ⟨keyId cfg false kn, (parseString kn false).1, n⟩) v v' es) :
    Ext (fun n => (mapSect (dispatchInput cfg)).run cfg (sectionWhat "inputs") n true false)
      (mapNode tag l c (pre ++ (kn, v) :: post)) (mapNode tag l c (pre ++ (kn, v') :: post)) es :=
  Sect.value_ext (mapSect (dispatchInput cfg)) cfg (sectionWhat "inputs") tag l c true false pre post kn v v' es
    (by
      intro s
      simp only [mapSect, plain, h.1]
      exact ⟨trivial, h.2⟩)
    hfirst

/-- `workflow_dispatch:` — the value of its `inputs:` key replaced -/
theorem parseDispatch_inputs_ext (cfg : Cfg) (pos : Pos) (tag : String) (l c : Nat) (pre post : List (Node × Node)) (kn v v' : Node)
    (es : List PErr) (hk : AtJobKey cfg "inputs" pre kn)
    (h : Ext (fun n => (mapSect (dispatchInput cfg)).run cfg (sectionWhat "inputs") n true false) v v' es) :
    Ext (parseWorkflowDispatchEvent cfg pos) (mapNode tag l c (pre ++ (kn, v) :: post)) (mapNode tag l c (pre ++ (kn, v') :: post)) es := by
  have hid : keyId cfg true kn = "inputs" := by rw [keyId_cs cfg kn hk.good, hk.value]
  have := Sect.value_ext (plain (dispatchStep cfg) none) cfg (sectionWhat "workflow_dispatch") tag l c true true pre post kn v v' es
    (by
      intro s
      have h1 := h.1
      have h2 := h.2
      simp only [mapSect_run] at h1 h2
      simp only [hid, plain, dispatchStep, parseSectionMapping, ne_eq, not_true_eq_false, if_false, h1]
      exact ⟨trivial, h2⟩)
    (by intro q hq; rw [hid]; exact hk.first q hq)
  simp only [Ext, parseWorkflowDispatchEvent_eq_run]
  exact ⟨by rw [this.1], this.2⟩

section
variable (cfg : Cfg) (tW tO tE tI tP : String) (lW cW lO cO lE cE lI cI lP cP : Nat)
  (preW postW preO postO preE postE preI postI pre post : List (Node × Node)) (kOn kEv kInputs kIn kn vn : Node)

/-- **an unknown key in an input of `workflow_dispatch`, whole file** (`on.workflow_dispatch.inputs.<id>.<key>`, five levels
below the root) -/
theorem dispatchInput_unknown_in_document (hOn : AtJobKey cfg "on" preW kOn) (hEv : AtJobKey cfg "workflow_dispatch" preO kEv)
    (hInputs : AtJobKey cfg "inputs" preE kInputs)
    (hInFirst : ∀ q ∈ preI, keyId cfg false q.1 ≠ keyId cfg false kIn)
    (hF : Foreign cfg dispatchAttrKeys pre post kn) :
    AddsExactly cfg
      (docWithEvent tW tO lW cW lO cO preW postW preO postO kOn kEv
        (mapNode tE lE cE (preE ++ (kInputs, mapNode tI lI cI (preI ++ (kIn, mapNode tP lP cP (pre ++ post)) :: postI)) :: postE)))
      (docWithEvent tW tO lW cW lO cO preW postW preO postO kOn kEv
        (mapNode tE lE cE (preE ++ (kInputs, mapNode tI lI cI (preI ++ (kIn, mapNode tP lP cP (pre ++ (kn, vn) :: post)) :: postI)) :: postE)))
      (unexpectedAt kn "inputs" ["description", "required", "default"]) := by
  have e0 : Ext (fun n => dispatchInput cfg ⟨keyId cfg false kIn, (parseString kIn false).1, n⟩) (mapNode tP lP cP (pre ++ post))
      (mapNode tP lP cP (pre ++ (kn, vn) :: post)) [_] := dispatchInput_unknown cfg tP lP cP pre post kn vn _ _ hF
  have e1 := dispatchInputs_ext cfg tI lI cI preI postI kIn _ _ _ hInFirst e0
  have e2 := parseDispatch_inputs_ext cfg (parseString kEv false).1.pos tE lE cE preE postE kInputs _ _ _ hInputs e1
  exact event_ext_in_document cfg tW tO lW cW lO cO preW postW preO postO kOn kEv hOn hEv.good
    (by rw [hEv.value]; exact hEv.first)
    (mapNode tE lE cE (preE ++ (kInputs, mapNode tI lI cI (preI ++ (kIn, mapNode tP lP cP (pre ++ post)) :: postI)) :: postE))
    (mapNode tE lE cE (preE ++ (kInputs, mapNode tI lI cI (preI ++ (kIn, mapNode tP lP cP (pre ++ (kn, vn) :: post)) :: postI)) :: postE)) [_]
    (by intro s; simp only [eventOfKey, hEv.value, e2.1]; exact ⟨trivial, e2.2⟩)

end

/-! ### `on.workflow_call.inputs.<id>` -/

/-- `callInputs` is the loop that appends one parsed input per key -/
theorem callInputs_eq_loop (cfg : Cfg) (kvs : List KV) : ∀ acc : List CallInput,
    loop (fun st kv => (st ++ [(callInput cfg kv).1], (callInput cfg kv).2)) acc kvs =
      (acc ++ (callInputs cfg kvs).1, (callInputs cfg kvs).2) := by
  induction kvs with
  | nil => intro acc; simp [callInputs]
  | cons kv rest ih => intro acc; rw [loop_cons, ih]; simp [callInputs]

/-- the `inputs:` mapping of `workflow_call` — the value of one input replaced -/
theorem callInputs_ext (cfg : Cfg) (tag : String) (l c : Nat) (pre post : List (Node × Node)) (kn v v' : Node) (es : List PErr)
    (hfirst : ∀ q ∈ pre, keyId cfg false q.1 ≠ keyId cfg false kn)
    (h : Ext (fun n => callInput cfg ⟨keyId cfg false kn, (parseString kn false).1, n⟩) v v' es) :
    Ext (fun n => (plain (fun (st : List CallInput) kv => (st ++ [(callInput cfg kv).1], (callInput cfg kv).2)) []).run cfg
        (sectionWhat "inputs") n true false)
      (mapNode tag l c (pre ++ (kn, v) :: post)) (mapNode tag l c (pre ++ (kn, v') :: post)) es :=
  Sect.value_ext (plain (fun (st : List CallInput) kv => (st ++ [(callInput cfg kv).1], (callInput cfg kv).2)) []) cfg
    (sectionWhat "inputs") tag l c true false pre post kn v v' es
    (by
      intro s
      simp only [plain, h.1]
      exact ⟨trivial, h.2⟩)
    hfirst

/-- `workflow_call:` — the value of its `inputs:` key replaced -/
theorem parseCall_inputs_ext (cfg : Cfg) (pos : Pos) (tag : String) (l c : Nat) (pre post : List (Node × Node)) (kn v v' : Node)
    (es : List PErr) (hk : AtJobKey cfg "inputs" pre kn)
    (h : Ext (fun n => (plain (fun (st : List CallInput) kv => (st ++ [(callInput cfg kv).1], (callInput cfg kv).2)) []).run cfg
        (sectionWhat "inputs") n true false) v v' es) :
    Ext (parseWorkflowCallEvent cfg pos) (mapNode tag l c (pre ++ (kn, v) :: post)) (mapNode tag l c (pre ++ (kn, v') :: post)) es := by
  have hid : keyId cfg true kn = "inputs" := by rw [keyId_cs cfg kn hk.good, hk.value]
  have := Sect.value_ext (plain (callEventKey cfg) {}) cfg (sectionWhat "workflow_call") tag l c true true pre post kn v v' es
    (by
      intro s
      have h1 := h.1
      have h2 := h.2
      simp only [plain_run, callInputs_eq_loop, List.nil_append] at h1 h2
      simp only [hid, plain, callEventKey, parseSectionMapping, h1]
      exact ⟨trivial, h2⟩)
    (by intro q hq; rw [hid]; exact hk.first q hq)
  simp only [Ext, parseWorkflowCallEvent_eq_run]
  exact ⟨by rw [this.1], this.2⟩

section
variable (cfg : Cfg) (tW tO tE tI tP : String) (lW cW lO cO lE cE lI cI lP cP : Nat)
  (preW postW preO postO preE postE preI postI pre post : List (Node × Node)) (kOn kEv kInputs kIn kn vn : Node)

/-- **an unknown key in an input of `workflow_call`, whole file** (`on.workflow_call.inputs.<id>.<key>`) -/
theorem callInput_unknown_in_document (hOn : AtJobKey cfg "on" preW kOn) (hEv : AtJobKey cfg "workflow_call" preO kEv)
    (hInputs : AtJobKey cfg "inputs" preE kInputs)
    (hInFirst : ∀ q ∈ preI, keyId cfg false q.1 ≠ keyId cfg false kIn)
    (hF : Foreign cfg ["description", "required", "default", "type"] pre post kn) :
    AddsExactly cfg
      (docWithEvent tW tO lW cW lO cO preW postW preO postO kOn kEv
        (mapNode tE lE cE (preE ++ (kInputs, mapNode tI lI cI (preI ++ (kIn, mapNode tP lP cP (pre ++ post)) :: postI)) :: postE)))
      (docWithEvent tW tO lW cW lO cO preW postW preO postO kOn kEv
        (mapNode tE lE cE (preE ++ (kInputs, mapNode tI lI cI (preI ++ (kIn, mapNode tP lP cP (pre ++ (kn, vn) :: post)) :: postI)) :: postE)))
      (unexpectedAt kn "inputs at workflow_call event" ["description", "required", "default", "type"]) := by
  have e0 : Ext (fun n => callInput cfg ⟨keyId cfg false kIn, (parseString kIn false).1, n⟩) (mapNode tP lP cP (pre ++ post))
      (mapNode tP lP cP (pre ++ (kn, vn) :: post)) [_] := callInput_unknown cfg tP lP cP pre post kn vn _ _ hF
  have e1 := callInputs_ext cfg tI lI cI preI postI kIn _ _ _ hInFirst e0
  have e2 := parseCall_inputs_ext cfg (parseString kEv false).1.pos tE lE cE preE postE kInputs _ _ _ hInputs e1
  exact event_ext_in_document cfg tW tO lW cW lO cO preW postW preO postO kOn kEv hOn hEv.good
    (by rw [hEv.value]; exact hEv.first)
    (mapNode tE lE cE (preE ++ (kInputs, mapNode tI lI cI (preI ++ (kIn, mapNode tP lP cP (pre ++ post)) :: postI)) :: postE))
    (mapNode tE lE cE (preE ++ (kInputs, mapNode tI lI cI (preI ++ (kIn, mapNode tP lP cP (pre ++ (kn, vn) :: post)) :: postI)) :: postE)) [_]
    (by intro s; simp only [eventOfKey, hEv.value, e2.1]; exact ⟨trivial, e2.2⟩)

end

end AL.C13D
