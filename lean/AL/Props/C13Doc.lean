import AL.Props.C13Parse
/-
  C13 at the level of the whole document, for the spine workflow → jobs → job → steps → step: an unknown key inserted
  into ANY step of ANY job of a workflow leaves the whole AST unchanged and adds exactly its own diagnostic to the
  diagnostics of the whole file. The section-level theorem (`step_unknown`) is carried through the enclosing parsers by
  congruence lemmas: a value node may be replaced by one on which the sub-parser gives the same result and the same
  diagnostics plus `es` (`Ext`).
-/
namespace AL.C13D
open AL.PW AL.Yaml AL.Ast AL.C13P

/-- `n'` parses like `n` under `P`, with the extra diagnostics `es` -/
def Ext {α : Type} (P : Node → R α) (n n' : Node) (es : List PErr) : Prop :=
  (P n').1 = (P n).1 ∧ (P n').2.Perm (es ++ (P n).2)

/-! ### generic congruences -/

/-- the key loop of `parseMapping` does not look at the values: replacing the value of a key that is the first with its id
changes nothing but the `val` of that entry -/
theorem mappingLoop_value (cfg : Cfg) (what : String) (cs : Bool) (kn vn vn' : Node) (post : List (Node × Node)) :
    ∀ (pre : List (Node × Node)) (seen : List (String × Pos)),
      lookupSeen (keyId cfg cs kn) seen = none → (∀ q ∈ pre, keyId cfg cs q.1 ≠ keyId cfg cs kn) →
      ∃ kvs₁ kvs₂ es, mappingLoop cfg what cs (pre ++ (kn, vn) :: post) seen =
          (kvs₁ ++ ⟨keyId cfg cs kn, (parseString kn false).1, vn⟩ :: kvs₂, es) ∧
        mappingLoop cfg what cs (pre ++ (kn, vn') :: post) seen =
          (kvs₁ ++ ⟨keyId cfg cs kn, (parseString kn false).1, vn'⟩ :: kvs₂, es) := by
  intro pre
  induction pre with
  | nil =>
    intro seen hs _
    simp only [List.nil_append, mappingLoop_cons, hs]
    exact ⟨[], _, _, rfl, rfl⟩
  | cons q rest ih =>
    intro seen hs hne
    obtain ⟨kn', vn''⟩ := q
    have hk : keyId cfg cs kn' ≠ keyId cfg cs kn := hne (kn', vn'') (by simp)
    have hne' : ∀ q ∈ rest, keyId cfg cs q.1 ≠ keyId cfg cs kn := fun q hq => hne q (by simp [hq])
    simp only [List.cons_append, mappingLoop_cons]
    cases lookupSeen (keyId cfg cs kn') seen with
    | some pos =>
      obtain ⟨k1, k2, es, e1, e2⟩ := ih seen hs hne'
      exact ⟨k1, k2, _, by rw [e1], by rw [e2]⟩
    | none =>
      have hs' : lookupSeen (keyId cfg cs kn) (seen ++ [(keyId cfg cs kn', (parseString kn' false).1.pos)]) = none := by
        rw [lookupSeen_snoc_ne _ _ hk]; exact hs
      obtain ⟨k1, k2, es, e1, e2⟩ := ih _ hs' hne'
      exact ⟨⟨keyId cfg cs kn', (parseString kn' false).1, vn''⟩ :: k1, k2, _, by rw [e1]; rfl, by rw [e2]; rfl⟩

/-- one iteration that differs by `es` (same state afterwards) makes the loop differ by `es` -/
theorem loop_ext {σ : Type} (step : σ → KV → σ × List PErr) (kv kv' : KV) (es : List PErr)
    (h : ∀ s, (step s kv').1 = (step s kv).1 ∧ (step s kv').2.Perm (es ++ (step s kv).2))
    (init : σ) (pre post : List KV) :
    (loop step init (pre ++ kv' :: post)).1 = (loop step init (pre ++ kv :: post)).1 ∧
    (loop step init (pre ++ kv' :: post)).2.Perm (es ++ (loop step init (pre ++ kv :: post)).2) := by
  rw [loop_append, loop_append, loop_cons, loop_cons]
  obtain ⟨h1, h2⟩ := h (loop step init pre).1
  simp only [h1]
  refine ⟨trivial, ?_⟩
  rw [List.perm_iff_count]
  intro a
  have := (List.perm_iff_count.1 h2) a
  simp only [List.count_append] at this ⊢
  omega

/-- a section parser of the shape `Sect.run` on a mapping node: the value of one pair may be replaced by an `Ext` value as
long as the loop body passes that on -/
theorem Sect.value_ext {σ ρ : Type} (S : Sect σ ρ) (cfg : Cfg) (what tag : String) (l c : Nat) (ae cs : Bool)
    (pre post : List (Node × Node)) (kn vn vn' : Node) (es : List PErr)
    (h : ∀ s, (S.step s ⟨keyId cfg cs kn, (parseString kn false).1, vn'⟩).1 = (S.step s ⟨keyId cfg cs kn, (parseString kn false).1, vn⟩).1 ∧
      (S.step s ⟨keyId cfg cs kn, (parseString kn false).1, vn'⟩).2.Perm (es ++ (S.step s ⟨keyId cfg cs kn, (parseString kn false).1, vn⟩).2))
    (hfirst : ∀ q ∈ pre, keyId cfg cs q.1 ≠ keyId cfg cs kn) :
    Ext (fun n => S.run cfg what n ae cs) (mapNode tag l c (pre ++ (kn, vn) :: post)) (mapNode tag l c (pre ++ (kn, vn') :: post)) es := by
  simp only [Ext, Sect.run, parseMapping_mapNode]
  obtain ⟨k1, k2, es', e1, e2⟩ := mappingLoop_value cfg what cs kn vn vn' post pre [] rfl hfirst
  · simp only [e1, e2]
    obtain ⟨h1, h2⟩ := loop_ext S.step _ _ es h S.init k1 k2
    have hemp : (k1 ++ ⟨keyId cfg cs kn, (parseString kn false).1, vn'⟩ :: k2).isEmpty = (k1 ++ ⟨keyId cfg cs kn, (parseString kn false).1, vn⟩ :: k2).isEmpty := by
      cases k1 <;> rfl
    simp only [h1, hemp]
    refine ⟨trivial, ?_⟩
    rw [List.perm_iff_count]
    intro a
    have := (List.perm_iff_count.1 h2) a
    simp only [List.count_append] at this ⊢
    omega

/-! ### the spine workflow → jobs → job → steps → step -/

theorem Ext.of_ins {ρ : Type} {f : Node → R ρ} {tag : String} {l c : Nat} {pre post : List (Node × Node)} {kn vn : Node} {e : PErr}
    (h : Ins f tag l c pre post kn vn e) :
    Ext f (mapNode tag l c (pre ++ post)) (mapNode tag l c (pre ++ (kn, vn) :: post)) [e] := h

/-- a sequence node -/
def seqNode (tag : String) (l c : Nat) (cs : List Node) : Node := .mk .sequence tag "" false l c cs

theorem stepsOf_ext (cfg : Cfg) (n n' : Node) (es : List PErr) (h : Ext (parseStep cfg) n n' es) (b : List Node) :
    ∀ a : List Node, (stepsOf cfg (a ++ n' :: b)).1 = (stepsOf cfg (a ++ n :: b)).1 ∧
      (stepsOf cfg (a ++ n' :: b)).2.Perm (es ++ (stepsOf cfg (a ++ n :: b)).2) := by
  intro a
  induction a with
  | nil =>
    simp only [List.nil_append, stepsOf, h.1]
    refine ⟨trivial, ?_⟩
    have := h.2
    rw [List.perm_iff_count] at this ⊢
    intro x; have := this x
    simp only [List.count_append] at this ⊢
    omega
  | cons c rest ih =>
    simp only [List.cons_append, stepsOf, ih.1]
    refine ⟨trivial, ?_⟩
    have := ih.2
    rw [List.perm_iff_count] at this ⊢
    intro x; have := this x
    simp only [List.count_append] at this ⊢
    omega

/-- `steps:` — one element replaced -/
theorem parseSteps_ext (cfg : Cfg) (tag : String) (l c : Nat) (a b : List Node) (n n' : Node) (es : List PErr)
    (h : Ext (parseStep cfg) n n' es) :
    Ext (parseSteps cfg) (seqNode tag l c (a ++ n :: b)) (seqNode tag l c (a ++ n' :: b)) es := by
  obtain ⟨h1, h2⟩ := stepsOf_ext cfg n n' es h b a
  have hc : ∀ x : Node, checkSequence "steps" (seqNode tag l c (a ++ x :: b)) false = (true, []) := by
    intro x
    simp [checkSequence, seqNode, Node.kind, Node.content, checkNotEmpty]
  have hcont : ∀ x : Node, (seqNode tag l c (a ++ x :: b)).content = a ++ x :: b := fun _ => rfl
  simp only [Ext, parseSteps, hc, hcont, Bool.not_true, Bool.false_eq_true, ↓reduceIte, List.nil_append]
  exact ⟨by rw [h1], h2⟩

/-- a job — the value of its `steps:` key replaced -/
theorem parseJob_steps_ext (cfg : Cfg) (id : Str) (tag : String) (l c : Nat) (pre post : List (Node × Node)) (kn v v' : Node)
    (es : List PErr) (hk : GoodKey kn) (hv : kn.value = "steps") (hfirst : ∀ q ∈ pre, keyId cfg true q.1 ≠ "steps")
    (h : Ext (parseSteps cfg) v v' es) :
    Ext (parseJob cfg id) (mapNode tag l c (pre ++ (kn, v) :: post)) (mapNode tag l c (pre ++ (kn, v') :: post)) es := by
  have hid : keyId cfg true kn = "steps" := by rw [keyId_cs cfg kn hk, hv]
  have := Sect.value_ext (jobSect cfg id) cfg (jobWhat id.value) tag l c false true pre post kn v v' es
    (by
      intro s
      simp only [hid, jobSect, jobKey, h.1]
      exact ⟨trivial, h.2⟩)
    (by intro q hq; rw [hid]; exact hfirst q hq)
  exact this

/-- `jobs:` — one job's value replaced -/
theorem parseJobs_ext (cfg : Cfg) (tag : String) (l c : Nat) (pre post : List (Node × Node)) (kn v v' : Node) (es : List PErr)
    (hfirst : ∀ q ∈ pre, keyId cfg false q.1 ≠ keyId cfg false kn)
    (h : Ext (parseJob cfg (parseString kn false).1) v v' es) :
    Ext (parseJobs cfg) (mapNode tag l c (pre ++ (kn, v) :: post)) (mapNode tag l c (pre ++ (kn, v') :: post)) es := by
  have := Sect.value_ext (mapSect fun kv => parseJob cfg kv.key kv.val) cfg (sectionWhat "jobs") tag l c false false pre post kn v v' es
    (by
      intro s
      simp only [mapSect, plain, h.1]
      exact ⟨trivial, h.2⟩)
    hfirst
  simp only [Ext, mapSect_run] at this
  simpa only [Ext, parseJobs, parseSectionMapping] using this

/-- the workflow — the value of its `jobs:` key replaced -/
theorem parse_jobs_ext (cfg : Cfg) (doc : Node) (tag : String) (l c : Nat) (pre post : List (Node × Node)) (kn v v' : Node)
    (es : List PErr) (hk : GoodKey kn) (hv : kn.value = "jobs") (hfirst : ∀ q ∈ pre, keyId cfg true q.1 ≠ "jobs")
    (h : Ext (parseJobs cfg) v v' es) :
    Ext (fun root => (workflowSect cfg doc).run cfg "workflow" root false true)
      (mapNode tag l c (pre ++ (kn, v) :: post)) (mapNode tag l c (pre ++ (kn, v') :: post)) es := by
  have hid : keyId cfg true kn = "jobs" := by rw [keyId_cs cfg kn hk, hv]
  exact Sect.value_ext (workflowSect cfg doc) cfg "workflow" tag l c false true pre post kn v v' es
    (by
      intro s
      simp only [hid, workflowSect, workflowKey, h.1]
      exact ⟨trivial, h.2⟩)
    (by intro q hq; rw [hid]; exact hfirst q hq)

/-- a document whose root is the given node -/
def docNode (root : Node) : Node := .mk .document "" "" false 1 1 [root]

/-- **C13 for a step, at the level of the whole file.** A workflow file whose `jobs:` mapping has a job whose `steps:`
sequence has a step (a mapping with at least one pair): inserting into that step, at any place, a pair whose key is a
non-empty scalar outside the step's key set and not already present leaves the WHOLE AST unchanged and adds exactly the
`unexpected key` diagnostic at that key to the diagnostics of the WHOLE file — whatever the rest of the workflow is. -/
theorem step_unknown_in_document (cfg : Cfg)
    (tW tJ tK tS tP : String) (lW cW lJ cJ lK cK lS cS lP cP : Nat)
    (preW postW preJ postJ preK postK : List (Node × Node)) (a b : List Node) (pre post : List (Node × Node))
    (kJobs kJob kSteps kn vn : Node)
    (hJobs : GoodKey kJobs) (hJobsV : kJobs.value = "jobs") (hJobsFirst : ∀ q ∈ preW, keyId cfg true q.1 ≠ "jobs")
    (hJobFirst : ∀ q ∈ preJ, keyId cfg false q.1 ≠ keyId cfg false kJob)
    (hSteps : GoodKey kSteps) (hStepsV : kSteps.value = "steps") (hStepsFirst : ∀ q ∈ preK, keyId cfg true q.1 ≠ "steps")
    (hF : Foreign cfg stepKeys pre post kn) :
    let doc (step : Node) : Node :=
      docNode (mapNode tW lW cW (preW ++ (kJobs, mapNode tJ lJ cJ (preJ ++ (kJob,
        mapNode tK lK cK (preK ++ (kSteps, seqNode tS lS cS (a ++ step :: b)) :: postK)) :: postJ)) :: postW))
    (parse cfg (doc (mapNode tP lP cP (pre ++ (kn, vn) :: post)))).1 = (parse cfg (doc (mapNode tP lP cP (pre ++ post)))).1 ∧
    (parse cfg (doc (mapNode tP lP cP (pre ++ (kn, vn) :: post)))).2.Perm
      (unexpectedAt kn "step" stepKeys :: (parse cfg (doc (mapNode tP lP cP (pre ++ post)))).2) := by
  intro doc
  have e0 : Ext (parseStep cfg) (mapNode tP lP cP (pre ++ post)) (mapNode tP lP cP (pre ++ (kn, vn) :: post)) [unexpectedAt kn "step" stepKeys] :=
    step_unknown cfg tP lP cP pre post kn vn hF
  have e1 := parseSteps_ext cfg tS lS cS a b _ _ _ e0
  have e2 := parseJob_steps_ext cfg (parseString kJob false).1 tK lK cK preK postK kSteps _ _ _ hSteps hStepsV hStepsFirst e1
  have e3 := parseJobs_ext cfg tJ lJ cJ preJ postJ kJob _ _ _ hJobFirst e2
  have hdoc : ∀ root, parse cfg (docNode root) = (workflowSect cfg (docNode root)).run cfg "workflow" root false true := by
    intro root
    exact parse_eq_run cfg (docNode root) root [] rfl
  have e4 := parse_jobs_ext cfg (docNode (mapNode tW lW cW [])) tW lW cW preW postW kJobs _ _ _ hJobs hJobsV hJobsFirst e3
  -- the final checks of `parse` are positioned at the document node: the same position for both documents
  have hsame : ∀ r1 r2 root, (workflowSect cfg (docNode r1)).run cfg "workflow" root false true =
      (workflowSect cfg (docNode r2)).run cfg "workflow" root false true := by
    intro r1 r2 root; rfl
  simp only [doc, hdoc]
  rw [hsame _ (mapNode tW lW cW []), hsame _ (mapNode tW lW cW [])]
  exact e4

/-! ### the hypotheses are satisfiable -/

/-- `on: push` / `jobs: {build: {runs-on: …, steps: [{run: echo}]}}` with `bogus: x` added to the step -/
example :
    let stepPre : List (Node × Node) := [(sc "run" 6 9, sc "echo" 6 14)]
    let doc (step : Node) : Node :=
      docNode (mapNode "!!map" 1 1 ([(sc "on" 1 1, sc "push" 1 5)] ++ (sc "jobs" 2 1, mapNode "!!map" 3 3 ([] ++ (sc "build" 3 3,
        mapNode "!!map" 4 5 ([(sc "runs-on" 4 5, sc "ubuntu-latest" 4 14)] ++ (sc "steps" 5 5, seqNode "!!seq" 6 7 ([] ++ step :: [])) :: [])) :: [])) :: []))
    (parse exCfg (doc (mapNode "!!map" 6 9 (stepPre ++ (sc "bogus" 7 9, sc "x" 7 16) :: [])))).1 =
      (parse exCfg (doc (mapNode "!!map" 6 9 (stepPre ++ [])))).1 ∧
    (parse exCfg (doc (mapNode "!!map" 6 9 (stepPre ++ (sc "bogus" 7 9, sc "x" 7 16) :: [])))).2.Perm
      (unexpectedAt (sc "bogus" 7 9) "step" stepKeys :: (parse exCfg (doc (mapNode "!!map" 6 9 (stepPre ++ [])))).2) := by
  intro stepPre doc
  exact step_unknown_in_document exCfg "!!map" "!!map" "!!map" "!!seq" "!!map" 1 1 3 3 4 5 6 7 6 9
    [(sc "on" 1 1, sc "push" 1 5)] [] [] [] [(sc "runs-on" 4 5, sc "ubuntu-latest" 4 14)] [] [] [] stepPre []
    (sc "jobs" 2 1) (sc "build" 3 3) (sc "steps" 5 5) (sc "bogus" 7 9) (sc "x" 7 16)
    (goodKey_of_scalar _ rfl (by decide)) rfl (by decide) (by decide)
    (goodKey_of_scalar _ rfl (by decide)) rfl (by decide)
    ⟨goodKey_of_scalar _ rfl (by decide), by decide, by decide, by decide⟩

/-- **C13 for a job, at the level of the whole file**: an unknown key inserted anywhere into any job -/
theorem job_unknown_in_document (cfg : Cfg)
    (tW tJ tK : String) (lW cW lJ cJ lK cK : Nat)
    (preW postW preJ postJ pre post : List (Node × Node)) (kJobs kJob kn vn : Node)
    (hJobs : GoodKey kJobs) (hJobsV : kJobs.value = "jobs") (hJobsFirst : ∀ q ∈ preW, keyId cfg true q.1 ≠ "jobs")
    (hJobFirst : ∀ q ∈ preJ, keyId cfg false q.1 ≠ keyId cfg false kJob)
    (hF : Foreign cfg jobKeys pre post kn) :
    let doc (job : Node) : Node :=
      docNode (mapNode tW lW cW (preW ++ (kJobs, mapNode tJ lJ cJ (preJ ++ (kJob, job) :: postJ)) :: postW))
    (parse cfg (doc (mapNode tK lK cK (pre ++ (kn, vn) :: post)))).1 = (parse cfg (doc (mapNode tK lK cK (pre ++ post)))).1 ∧
    (parse cfg (doc (mapNode tK lK cK (pre ++ (kn, vn) :: post)))).2.Perm
      (unexpectedAt kn "job" jobKeys :: (parse cfg (doc (mapNode tK lK cK (pre ++ post)))).2) := by
  intro doc
  have e2 : Ext (parseJob cfg (parseString kJob false).1) (mapNode tK lK cK (pre ++ post)) (mapNode tK lK cK (pre ++ (kn, vn) :: post))
      [unexpectedAt kn "job" jobKeys] := job_unknown cfg tK lK cK pre post kn vn _ hF
  have e3 := parseJobs_ext cfg tJ lJ cJ preJ postJ kJob _ _ _ hJobFirst e2
  have hdoc : ∀ root, parse cfg (docNode root) = (workflowSect cfg (docNode root)).run cfg "workflow" root false true :=
    fun root => parse_eq_run cfg (docNode root) root [] rfl
  have e4 := parse_jobs_ext cfg (docNode (mapNode tW lW cW [])) tW lW cW preW postW kJobs _ _ _ hJobs hJobsV hJobsFirst e3
  have hsame : ∀ r1 r2 root, (workflowSect cfg (docNode r1)).run cfg "workflow" root false true =
      (workflowSect cfg (docNode r2)).run cfg "workflow" root false true := fun _ _ _ => rfl
  simp only [doc, hdoc]
  rw [hsame _ (mapNode tW lW cW []), hsame _ (mapNode tW lW cW [])]
  exact e4

/-- **a repeated key in a step, at the level of the whole file**: exactly one `key-duplicated` diagnostic more, at the
repetition; the whole AST unchanged -/
theorem step_duplicate_in_document (cfg : Cfg)
    (tW tJ tK tS tP : String) (lW cW lJ cJ lK cK lS cS lP cP : Nat)
    (preW postW preJ postJ preK postK : List (Node × Node)) (a b : List Node) (pre post : List (Node × Node))
    (kJobs kJob kSteps kn vn : Node)
    (hJobs : GoodKey kJobs) (hJobsV : kJobs.value = "jobs") (hJobsFirst : ∀ q ∈ preW, keyId cfg true q.1 ≠ "jobs")
    (hJobFirst : ∀ q ∈ preJ, keyId cfg false q.1 ≠ keyId cfg false kJob)
    (hSteps : GoodKey kSteps) (hStepsV : kSteps.value = "steps") (hStepsFirst : ∀ q ∈ preK, keyId cfg true q.1 ≠ "steps")
    (hR : Repeated cfg true pre kn) :
    let doc (step : Node) : Node :=
      docNode (mapNode tW lW cW (preW ++ (kJobs, mapNode tJ lJ cJ (preJ ++ (kJob,
        mapNode tK lK cK (preK ++ (kSteps, seqNode tS lS cS (a ++ step :: b)) :: postK)) :: postJ)) :: postW))
    ∃ pos, firstPos cfg true (keyId cfg true kn) pre = some pos ∧
    (parse cfg (doc (mapNode tP lP cP (pre ++ (kn, vn) :: post)))).1 = (parse cfg (doc (mapNode tP lP cP (pre ++ post)))).1 ∧
    (parse cfg (doc (mapNode tP lP cP (pre ++ (kn, vn) :: post)))).2.Perm
      (dupAt kn "element of \"steps\" section" pos true :: (parse cfg (doc (mapNode tP lP cP (pre ++ post)))).2) := by
  intro doc
  obtain ⟨pos, hp, hins⟩ := step_duplicate cfg tP lP cP pre post kn vn hR
  refine ⟨pos, hp, ?_⟩
  have e0 : Ext (parseStep cfg) (mapNode tP lP cP (pre ++ post)) (mapNode tP lP cP (pre ++ (kn, vn) :: post))
      [dupAt kn "element of \"steps\" section" pos true] := hins
  have e1 := parseSteps_ext cfg tS lS cS a b _ _ _ e0
  have e2 := parseJob_steps_ext cfg (parseString kJob false).1 tK lK cK preK postK kSteps _ _ _ hSteps hStepsV hStepsFirst e1
  have e3 := parseJobs_ext cfg tJ lJ cJ preJ postJ kJob _ _ _ hJobFirst e2
  have hdoc : ∀ root, parse cfg (docNode root) = (workflowSect cfg (docNode root)).run cfg "workflow" root false true :=
    fun root => parse_eq_run cfg (docNode root) root [] rfl
  have e4 := parse_jobs_ext cfg (docNode (mapNode tW lW cW [])) tW lW cW preW postW kJobs _ _ _ hJobs hJobsV hJobsFirst e3
  have hsame : ∀ r1 r2 root, (workflowSect cfg (docNode r1)).run cfg "workflow" root false true =
      (workflowSect cfg (docNode r2)).run cfg "workflow" root false true := fun _ _ _ => rfl
  simp only [doc, hdoc]
  rw [hsame _ (mapNode tW lW cW []), hsame _ (mapNode tW lW cW [])]
  exact e4

end AL.C13D
