import AL.Model.Rules
/-
  C09 / C07 on the model of the AST-only rules (AL.Rules, tied by `lintwf`):

  * the diagnostics of matrix, credentials, env-var, id, permissions, if-cond are, up to order, the workflow-level part
    plus the concatenation over the jobs of a function of THAT JOB ALONE (`perJob`): adding, removing or reordering jobs
    changes nothing about the diagnostics of the other jobs; `RuleID.seen` does not survive a job;
  * every diagnostic of these rules sits exactly at the position of the id / name / value it is about.
-/
namespace AL.C09R
open AL.Rules AL.Yaml AL.Ast

theorem flatMap_append_perm {α β : Type} (l : List α) (f g : α → List β) :
    (l.flatMap f ++ l.flatMap g).Perm (l.flatMap fun x => f x ++ g x) := by
  induction l with
  | nil => simp
  | cons x rest ih =>
    simp only [List.flatMap_cons]
    have : (f x ++ rest.flatMap f ++ (g x ++ rest.flatMap g)).Perm (f x ++ g x ++ (rest.flatMap f ++ rest.flatMap g)) := by
      simp only [List.append_assoc]
      apply List.Perm.append_left
      rw [← List.append_assoc, ← List.append_assoc]
      exact List.Perm.append_right _ List.perm_append_comm
    exact this.trans (List.Perm.append_left _ ih)

/-- everything the six per-job rules report about one job -/
def perJob (lower : String → String) (j : Job) : List Diag :=
  matrixJob j ++ (credentialsJob j ++ (envVarJob j ++ (idJob lower j ++ (checkPermissions j.permissions ++
    (checkIfCond j.cond ++ (AL.Rules.stepsOf j).flatMap fun st => checkIfCond st.cond)))))

/-- the workflow-level part (`VisitWorkflowPre` of env-var and permissions) -/
def header (w : Workflow) : List Diag := checkEnv w.env ++ checkPermissions w.permissions

/-- the six rules, in linter.go's order -/
def sixRules (lower : String → String) (w : Workflow) : List Diag :=
  ruleMatrix w ++ ruleCredentials w ++ ruleEnvVar w ++ ruleId lower w ++ rulePermissions w ++ ruleIfCond w

/-- **jobs are checked independently**: up to order, the six rules report the header's diagnostics and, for each job, a
function of that job alone -/
theorem six_rules_per_job (lower : String → String) (w : Workflow) :
    (sixRules lower w).Perm (header w ++ (jobsOf w).flatMap (perJob lower)) := by
  simp only [sixRules, ruleMatrix, ruleCredentials, ruleEnvVar, ruleId, rulePermissions, ruleIfCond, header]
  generalize jobsOf w = js
  -- move the two header parts to the front, then merge the flatMaps
  have merge : (js.flatMap matrixJob ++ (js.flatMap credentialsJob ++ (js.flatMap envVarJob ++ (js.flatMap (idJob lower) ++
      (js.flatMap (fun j => checkPermissions j.permissions) ++
        js.flatMap fun j => checkIfCond j.cond ++ (AL.Rules.stepsOf j).flatMap fun st => checkIfCond st.cond))))).Perm
      (js.flatMap (perJob lower)) := by
    unfold perJob
    refine List.Perm.trans ?_ (flatMap_append_perm js _ _)
    apply List.Perm.append_left
    refine List.Perm.trans ?_ (flatMap_append_perm js _ _)
    apply List.Perm.append_left
    refine List.Perm.trans ?_ (flatMap_append_perm js _ _)
    apply List.Perm.append_left
    refine List.Perm.trans ?_ (flatMap_append_perm js _ _)
    apply List.Perm.append_left
    exact flatMap_append_perm js _ _
  have reorder : (js.flatMap matrixJob ++ js.flatMap credentialsJob ++ (checkEnv w.env ++ js.flatMap envVarJob) ++ js.flatMap (idJob lower) ++
      (checkPermissions w.permissions ++ js.flatMap fun j => checkPermissions j.permissions) ++
      js.flatMap fun j => checkIfCond j.cond ++ (AL.Rules.stepsOf j).flatMap fun st => checkIfCond st.cond).Perm
      (checkEnv w.env ++ checkPermissions w.permissions ++
        (js.flatMap matrixJob ++ (js.flatMap credentialsJob ++ (js.flatMap envVarJob ++ (js.flatMap (idJob lower) ++
          (js.flatMap (fun j => checkPermissions j.permissions) ++
            js.flatMap fun j => checkIfCond j.cond ++ (AL.Rules.stepsOf j).flatMap fun st => checkIfCond st.cond)))))) := by
    rw [List.perm_iff_count]
    intro a
    simp only [List.count_append]
    omega
  exact reorder.trans (List.Perm.append_left _ merge)

/-- reordering the jobs of a workflow (the order in which the visitor happens to meet them) only reorders the diagnostics -/
theorem reorder_jobs (lower : String → String) (w w' : Workflow)
    (hh : header w = header w') (hj : (jobsOf w).Perm (jobsOf w')) :
    (sixRules lower w).Perm (sixRules lower w') := by
  refine (six_rules_per_job lower w).trans (List.Perm.trans ?_ (six_rules_per_job lower w').symm)
  rw [hh]
  exact List.Perm.append_left _ (List.Perm.flatMap_right _ hj)

/-- a further job adds exactly its own diagnostics; those of the other jobs and of the header are untouched -/
theorem add_job (lower : String → String) (w w' : Workflow) (j : Job)
    (hh : header w = header w') (hj : (jobsOf w').Perm (j :: jobsOf w)) :
    (sixRules lower w').Perm (perJob lower j ++ sixRules lower w) := by
  refine (six_rules_per_job lower w').trans ?_
  have h1 : ((jobsOf w').flatMap (perJob lower)).Perm (perJob lower j ++ (jobsOf w).flatMap (perJob lower)) := by
    have := List.Perm.flatMap_right (perJob lower) hj
    simpa using this
  have h2 := (six_rules_per_job lower w).symm
  rw [← hh]
  refine (List.Perm.append_left _ h1).trans ?_
  refine List.Perm.trans ?_ (List.Perm.append_left _ h2)
  rw [List.perm_iff_count]
  intro a
  simp only [List.count_append]
  omega

/-- `RuleID.seen` does not leak: the step-id diagnostics of a job are a function of its own steps -/
theorem step_ids_per_job (lower : String → String) (j : Job) :
    idJob lower j = validateConvention (some j.id) "job" ++
      (j.needs.getD []).flatMap (fun n => validateConvention (some n) "job") ++ idSteps lower (AL.Rules.stepsOf j) [] := rfl

/-! ### positions (C07) -/

theorem validateConvention_pos (id : Option Str) (what : String) :
    ∀ d ∈ validateConvention id what, ∃ s, id = some s ∧ d.pos = s.pos := by
  intro d h
  simp only [validateConvention] at h
  split at h
  · cases h
  · rename_i s
    split at h
    · cases h
    · simp only [List.mem_singleton] at h
      subst h
      exact ⟨s, rfl, rfl⟩

/-- a diagnostic about step ids sits at the `id:` value of one of the steps -/
theorem idSteps_pos (lower : String → String) : ∀ (steps : List Step) (seen : List (String × AL.Rules.Pos)),
    ∀ d ∈ idSteps lower steps seen, ∃ st ∈ steps, ∃ s, st.id = some s ∧ d.pos = s.pos
  | [], _ => by intro d h; simp [idSteps] at h
  | st :: rest, seen => by
    intro d h
    rw [idSteps] at h
    split at h
    · obtain ⟨st', hm, e⟩ := idSteps_pos lower rest seen d h
      exact ⟨st', by simp [hm], e⟩
    · rename_i s hs
      simp only at h
      split at h
      · simp only [List.mem_append, List.mem_singleton] at h
        rcases h with (h | h) | h
        · obtain ⟨s', e1, e2⟩ := validateConvention_pos _ _ d h
          simp only [Option.some.injEq] at e1
          subst e1
          exact ⟨st, by simp, s, hs, e2⟩
        · subst h
          exact ⟨st, by simp, s, hs, rfl⟩
        · obtain ⟨st', hm, e⟩ := idSteps_pos lower rest seen d h
          exact ⟨st', by simp [hm], e⟩
      · simp only [List.mem_append] at h
        rcases h with h | h
        · obtain ⟨s', e1, e2⟩ := validateConvention_pos _ _ d h
          simp only [Option.some.injEq] at e1
          subst e1
          exact ⟨st, by simp, s, hs, e2⟩
        · obtain ⟨st', hm, e⟩ := idSteps_pos lower rest _ d h
          exact ⟨st', by simp [hm], e⟩

/-- env-var: at the name of one of the variables -/
theorem checkEnv_pos (env : Option Env) :
    ∀ d ∈ checkEnv env, ∃ e vars, env = some e ∧ e.vars = some vars ∧ ∃ kv ∈ vars, d.pos = kv.2.name.pos := by
  intro d h
  simp only [checkEnv] at h
  split at h
  · cases h
  · rename_i e
    split at h
    · cases h
    · cases hv : e.vars with
      | none => simp [hv] at h
      | some vars =>
        simp only [hv, Option.getD_some, List.mem_flatMap] at h
        obtain ⟨kv, hm, hd⟩ := h
        refine ⟨e, vars, rfl, hv, kv, hm, ?_⟩
        split at hd
        · cases hd
        · split at hd
          · simp only [List.mem_singleton] at hd; subst hd; rfl
          · cases hd

/-- permissions: at the scalar (`read-all` / `write-all` form), at the scope name, or at the scope's value -/
theorem checkPermissions_pos (p : Option Permissions) :
    ∀ d ∈ checkPermissions p, ∃ q, p = some q ∧
      ((∃ a, q.all = some a ∧ d.pos = a.pos) ∨
       (∃ scopes, q.scopes = some scopes ∧ ∃ kv ∈ scopes, d.pos = kv.2.name.pos ∨ d.pos = kv.2.value.pos)) := by
  intro d h
  simp only [checkPermissions] at h
  split at h
  · cases h
  · rename_i q
    refine ⟨q, rfl, ?_⟩
    split at h
    · rename_i a ha
      split at h
      · cases h
      · simp only [List.mem_singleton] at h; subst h
        exact Or.inl ⟨a, ha, rfl⟩
    · cases hs : q.scopes with
      | none => simp [hs] at h
      | some scopes =>
        simp only [hs, Option.getD_some, List.mem_flatMap, List.mem_append] at h
        obtain ⟨kv, hm, hd⟩ := h
        refine Or.inr ⟨scopes, rfl, kv, hm, ?_⟩
        rcases hd with hd | hd
        · split at hd
          · cases hd
          · simp only [List.mem_singleton] at hd; subst hd; exact Or.inl rfl
        · split at hd
          · cases hd
          · simp only [List.mem_singleton] at hd; subst hd; exact Or.inr rfl

/-- if-cond: at the `if:` value -/
theorem checkIfCond_pos (s : Option Str) : ∀ d ∈ checkIfCond s, ∃ n, s = some n ∧ d.pos = n.pos := by
  intro d h
  simp only [checkIfCond] at h
  split at h
  · cases h
  · rename_i n
    split at h
    · cases h
    · split at h
      · cases h
      · simp only [List.mem_singleton] at h; subst h; exact ⟨n, rfl, rfl⟩

/-- credentials: at the `password:` value -/
theorem checkCredContainer_pos (k a : String) (c : Container) :
    ∀ d ∈ checkCredContainer k a c, ∃ cr p, c.credentials = some cr ∧ cr.password = some p ∧ d.pos = p.pos := by
  intro d h
  simp only [checkCredContainer] at h
  split at h
  · cases h
  · rename_i cr hcr
    split at h
    · cases h
    · rename_i p hp
      split at h
      · cases h
      · simp only [List.mem_singleton] at h; subst h; exact ⟨cr, p, hcr, hp, rfl⟩

/-- glob: on the line of the pattern, at the pattern's column + 1 for an opening quote + the validator's column - 1 -/
theorem globErrors_pos (errs : List AL.Glob.GErr) (v : Str) :
    ∀ d ∈ globErrors errs v, ∃ e ∈ errs, d.pos.line = v.pos.line ∧
      d.pos.col = v.pos.col + (if v.quoted then 1 else 0) + (if e.col ≠ 0 then e.col - 1 else 0) := by
  intro d h
  simp only [globErrors, List.mem_map] at h
  obtain ⟨e, hm, rfl⟩ := h
  exact ⟨e, hm, rfl, rfl⟩

/-! ### the sort (C02): the output is a function of the input, sorted, and nothing is lost -/

theorem insertStable_perm (x : Diag) (l : List Diag) : (insertStable x l).Perm (x :: l) := by
  induction l with
  | nil => exact List.Perm.refl _
  | cons y ys ih =>
    simp only [insertStable]
    split
    · exact List.Perm.refl _
    · exact (List.Perm.cons y ih).trans (List.Perm.swap x y ys)

theorem foldl_insert_perm (l : List Diag) : ∀ acc : List Diag, (l.foldl (fun acc x => insertStable x acc) acc).Perm (acc ++ l) := by
  induction l with
  | nil => intro acc; simp
  | cons x rest ih =>
    intro acc
    simp only [List.foldl_cons]
    refine (ih _).trans ?_
    refine (List.Perm.append_right rest (insertStable_perm x acc)).trans ?_
    simp only [List.cons_append]
    exact List.perm_middle.symm

/-- sorting reports every diagnostic exactly once -/
theorem stableSort_perm (l : List Diag) : (stableSort l).Perm l := by
  simpa [stableSort] using foldl_insert_perm l []

end AL.C09R
