import AL.Model.Calls
import AL.Lemmas.Calls
/-
  C14 — calls are checked exactly against the callee's declared interface: statements (a)–(f) about the
  model `AL.Calls.checkAction` / `checkCall` and their proofs.
-/
namespace AL.C14
open AL.Calls

def Distinct (decls : List Decl) : Prop := (decls.map (·.id)).Nodup

/-- (a) an input is reported as undefined iff the callee does not declare it. -/
def undefined_exact_statement : Prop :=
  ∀ (decls : List Decl) (supplied : List String) (k : String),
    Diag.undefinedInput k ∈ checkAction decls supplied ↔ (k ∈ supplied ∧ ∀ d ∈ decls, d.id ≠ k)

/-- (b) a required input is reported as missing iff it is not supplied. -/
def missing_exact_statement : Prop :=
  ∀ (decls : List Decl) (supplied : List String) (n : String), Distinct decls →
    (Diag.missingInput n ∈ checkAction decls supplied ↔ ∃ d ∈ decls, d.name = n ∧ d.required = true ∧ d.id ∉ supplied)

/-- (c) nothing else is ever reported, each thing once: the report list has no duplicates when the
supplied ids and the declared names are distinct. -/
def nothing_else_statement : Prop :=
  ∀ (decls : List Decl) (supplied : List String), Distinct decls → supplied.Nodup → (decls.map (·.name)).Nodup →
    (checkAction decls supplied).Nodup

/-- (d) the output does not depend on the order in which the declarations are stored (Go map): permuting
them gives the same report list. -/
def decl_order_irrelevant_statement : Prop :=
  ∀ (d₁ d₂ : List Decl) (supplied : List String), Distinct d₁ → d₁.Perm d₂ → checkAction d₁ supplied = checkAction d₂ supplied

/-- (e) reusable workflows: with `secrets: inherit` no secret is ever reported; otherwise secrets are
checked like inputs. -/
def inherit_statement : Prop :=
  ∀ (inputs secrets : List Decl) (w s : List String),
    (∀ x ∈ checkCall inputs secrets w s true, ∀ n, x ≠ .missingSecret n ∧ x ≠ .undefinedSecret n) ∧
    (∀ n, Distinct secrets → (Diag.missingSecret n ∈ checkCall inputs secrets w s false ↔ ∃ d ∈ secrets, d.name = n ∧ d.required = true ∧ d.id ∉ s)) ∧
    (∀ k, Diag.undefinedSecret k ∈ checkCall inputs secrets w s false ↔ (k ∈ s ∧ ∀ d ∈ secrets, d.id ≠ k))

/-- (f) "required" means declared required AND no default (the three derivations agree on this). -/
def required_statement : Prop :=
  effectiveRequired true false = true ∧ effectiveRequired true true = false ∧ ∀ h, effectiveRequired false h = false

/-! ## Proofs -/

/-! ### concrete data used in the examples -/

/-- an action with three inputs, stored in a non-sorted order; `token` and `path` are required -/
def exDecls : List Decl :=
  [⟨"token", "Token", true⟩, ⟨"depth", "Depth", false⟩, ⟨"path", "Path", true⟩]
/-- the same interface in another storage order -/
def exDecls' : List Decl :=
  [⟨"path", "Path", true⟩, ⟨"token", "Token", true⟩, ⟨"depth", "Depth", false⟩]
/-- `with:` supplies `depth`, an unknown `tokne`, and nothing else -/
def exWith : List String := ["tokne", "depth"]

theorem inj_undefinedInput : ∀ a b, Diag.undefinedInput a = Diag.undefinedInput b → a = b :=
  fun _ _ h => Diag.undefinedInput.inj h
theorem inj_missingInput : ∀ a b, Diag.missingInput a = Diag.missingInput b → a = b :=
  fun _ _ h => Diag.missingInput.inj h
theorem inj_undefinedSecret : ∀ a b, Diag.undefinedSecret a = Diag.undefinedSecret b → a = b :=
  fun _ _ h => Diag.undefinedSecret.inj h
theorem inj_missingSecret : ∀ a b, Diag.missingSecret a = Diag.missingSecret b → a = b :=
  fun _ _ h => Diag.missingSecret.inj h

/-! ### (a) -/

theorem undefined_exact : undefined_exact_statement := by
  intro decls supplied k
  rw [checkAction_eq, List.mem_append, mem_undefinedOf_iff inj_undefinedInput]
  constructor
  · rintro (h | h)
    · exact h
    · obtain ⟨d, _, he, _⟩ := mem_missingOf_elim h
      cases he
  · exact .inl

example : checkAction exDecls exWith =
    [.undefinedInput "tokne", .missingInput "Path", .missingInput "Token"] := by decide
example : Diag.undefinedInput "tokne" ∈ checkAction exDecls exWith := by decide
example : Diag.undefinedInput "depth" ∉ checkAction exDecls exWith := by decide

/-! ### (b) -/

theorem missing_exact : missing_exact_statement := by
  intro decls supplied n hd
  rw [checkAction_eq, List.mem_append, ← mem_missingOf_iff inj_missingInput hd]
  constructor
  · rintro (h | h)
    · obtain ⟨k, he⟩ := mem_undefinedOf_elim h
      cases he
    · exact h
  · exact .inr

example : Diag.missingInput "Token" ∈ checkAction exDecls exWith := by decide
example : Diag.missingInput "Depth" ∉ checkAction exDecls exWith := by decide
example : checkAction exDecls ["token", "path"] = [] := by decide

/-- `Distinct` is needed in (b): with two declarations of one id only the first is looked up, so the
required second one is never reported (cannot happen for a Go map). -/
theorem missing_exact_needs_distinct :
    ¬ ∀ (decls : List Decl) (supplied : List String) (n : String),
      (Diag.missingInput n ∈ checkAction decls supplied ↔
        ∃ d ∈ decls, d.name = n ∧ d.required = true ∧ d.id ∉ supplied) := by
  intro h
  have := (h [⟨"a", "A", false⟩, ⟨"a", "B", true⟩] [] "B").2 ⟨⟨"a", "B", true⟩, by decide, rfl, rfl, by decide⟩
  revert this
  decide

/-! ### (c) -/

theorem nothing_else : nothing_else_statement := by
  intro decls supplied hd hs hn
  rw [checkAction_eq, List.nodup_append]
  refine ⟨undefinedOf_nodup inj_undefinedInput hs, missingOf_nodup inj_missingInput hd hn, ?_⟩
  intro a ha b hb hab
  obtain ⟨k, rfl⟩ := mem_undefinedOf_elim ha
  obtain ⟨d, _, he, _⟩ := mem_missingOf_elim hb
  rw [he] at hab
  cases hab

example : (checkAction exDecls exWith).Nodup := by decide
-- a `with:` key given twice (impossible in YAML: duplicate keys are a parse error) would be reported twice
example : checkAction exDecls ["x", "x", "token", "path"] = [.undefinedInput "x", .undefinedInput "x"] := by
  decide

/-! ### (d) -/

theorem decl_order_irrelevant : decl_order_irrelevant_statement := by
  intro d₁ d₂ supplied hd hp
  rw [checkAction_eq, checkAction_eq, undefinedOf_perm supplied hp, missingOf_perm supplied hd hp]

example : exDecls.Perm exDecls' := by decide
example : checkAction exDecls exWith = checkAction exDecls' exWith := by decide
example : sortS ["token", "depth", "path"] = ["depth", "path", "token"] := by decide

/-! ### (e) -/

theorem inherit : inherit_statement := by
  intro inputs secrets w s
  refine ⟨?_, ?_, ?_⟩
  · intro x hx n
    rw [checkCall_eq] at hx
    simp only [if_true, List.append_nil, List.mem_append] at hx
    rcases hx with hx | hx
    · obtain ⟨d, _, rfl, _⟩ := mem_missingOf_elim hx
      exact ⟨fun h => (by cases h), fun h => (by cases h)⟩
    · obtain ⟨k, rfl⟩ := mem_undefinedOf_elim hx
      exact ⟨fun h => (by cases h), fun h => (by cases h)⟩
  · intro n hd
    rw [← mem_missingOf_iff inj_missingSecret hd, checkCall_eq]
    simp only [Bool.false_eq_true, if_false, List.mem_append]
    constructor
    · rintro ((h | h) | h | h)
      · obtain ⟨d, _, he, _⟩ := mem_missingOf_elim h; cases he
      · obtain ⟨k, he⟩ := mem_undefinedOf_elim h; cases he
      · exact h
      · obtain ⟨k, he⟩ := mem_undefinedOf_elim h; cases he
    · exact fun h => .inr (.inl h)
  · intro k
    rw [← mem_undefinedOf_iff inj_undefinedSecret, checkCall_eq]
    simp only [Bool.false_eq_true, if_false, List.mem_append]
    constructor
    · rintro ((h | h) | h | h)
      · obtain ⟨d, _, he, _⟩ := mem_missingOf_elim h; cases he
      · obtain ⟨k, he⟩ := mem_undefinedOf_elim h; cases he
      · obtain ⟨d, _, he, _⟩ := mem_missingOf_elim h; cases he
      · exact h
    · exact fun h => .inr (.inr h)

/-- a reusable workflow with one required input and two secrets (one required) -/
def exIns : List Decl := [⟨"env", "env", true⟩]
def exSecs : List Decl := [⟨"npm_token", "NPM_TOKEN", true⟩, ⟨"extra", "extra", false⟩]

example : checkCall exIns exSecs ["env"] ["bogus"] false =
    [.missingSecret "NPM_TOKEN", .undefinedSecret "bogus"] := by decide
example : checkCall exIns exSecs ["env"] ["bogus"] true = [] := by decide
example : checkCall exIns exSecs ["nev"] [] true = [.missingInput "env", .undefinedInput "nev"] := by decide

/-! ### (f) -/

theorem required : required_statement := by
  refine ⟨rfl, rfl, fun h => ?_⟩
  cases h <;> rfl

example : effectiveRequired true false = true := by decide
example : effectiveRequired true true = false := by decide

end AL.C14
