import AL.Props.C18
import AL.Props.C08Parse
import AL.Lemmas.C03PBase
import AL.Model.Rules
/-
  C18 on what the rule really runs on. The C18 theorems are stated for a graph `g` under `WF g` ("every resolved
  dependency is a node index") and for an iteration order under `Covers g order`. Here:

  * the graph `RuleJobNeeds` builds (`resolve` of the nodes `visitJobs` collects) is ALWAYS well-formed, and the order
    `ruleJobNeeds` uses (`List.range jobs.length`) ALWAYS covers it — for every job list, hence for every parsed workflow;
  * so `acyclic_none` / `cyclic_some` / `printed_is_cycle` / `undefined_exact` / `at_most_one` are restated for
    `AL.Needs.check` and for `AL.Rules.ruleJobNeeds` with NO hypothesis on the graph or on the order;
  * for a workflow that comes out of the parser (`parse cfg doc`), the folded job ids are pairwise distinct
    (`parseMapping` drops a repeated key, `jobs_keys_folded`): the nodes of the graph are exactly the jobs, in source
    order, and the rule's own `job-id-duplicate` report can never fire.
-/
namespace AL.C18P
open AL.Needs AL.Spec AL.C18

/-! ## the graph is well-formed, the order covers it — for every job list -/

/-- `resolve` only ever stores indices of nodes -/
theorem resolve_wf (nodes : List RawNode) : WF (resolve nodes).1 := by
  intro v w hw
  simp only [resolve, Graph.succ, List.getElem?_map, List.length_map] at hw ⊢
  cases hv : nodes[v]? with
  | none => simp [hv] at hw
  | some n =>
    simp only [hv, Option.map_some, Option.getD_some, List.mem_filterMap] at hw
    obtain ⟨d, _, hd⟩ := hw
    exact indexOf?_lt nodes d w hd

theorem resolve_length (nodes : List RawNode) : (resolve nodes).1.length = nodes.length := by
  simp [resolve]

/-- every job adds at most one node -/
theorem visitJobs_length_le (lower : String → String) (jobs : List JobIn) (nodes : List RawNode) :
    (visitJobs lower jobs nodes).1.length ≤ nodes.length + jobs.length := by
  induction jobs generalizing nodes with
  | nil => simp [visitJobs]
  | cons j rest ih =>
    simp only [visitJobs]
    split
    · have := ih nodes
      simp only [List.length_cons]
      omega
    · split
      · refine Nat.le_trans (ih _) ?_
        simp only [List.length_map, List.length_cons]
        omega
      · refine Nat.le_trans (ih _) ?_
        simp only [List.length_append, List.length_cons, List.length_nil]
        omega

/-- the nodes of a job list and its graph -/
def nodesOf (lower : String → String) (jobs : List JobIn) : List RawNode := (visitJobs lower jobs []).1
def graphOf (lower : String → String) (jobs : List JobIn) : Graph := (resolve (nodesOf lower jobs)).1

theorem graphOf_wf (lower : String → String) (jobs : List JobIn) : WF (graphOf lower jobs) := resolve_wf _

/-- the order `ruleJobNeeds` hands to the model visits every node -/
theorem covers_range (lower : String → String) (jobs : List JobIn) :
    Covers (graphOf lower jobs) (List.range jobs.length) := by
  intro v hv
  rw [graphOf, resolve_length] at hv
  have := visitJobs_length_le lower jobs []
  simp only [nodesOf] at hv
  simp only [List.length_nil, Nat.zero_add] at this
  exact List.mem_range.2 (by omega)

/-! ## `AL.Needs.check`, every job list, every order: no hypothesis left -/

theorem check_eq (lower : String → String) (jobs : List JobIn) (order : List Nat) :
    check lower jobs order =
      if !(resolve (nodesOf lower jobs)).2.isEmpty then (visitJobs lower jobs []).2 ++ (resolve (nodesOf lower jobs)).2
      else match cycleDiag (graphOf lower jobs) order with
        | some c => (visitJobs lower jobs []).2 ++ [.cyclic c]
        | none => (visitJobs lower jobs []).2 := by
  rfl

theorem normNeeds_no_undefined (lower : String → String) (ns : List NeedRef) (acc : List String) :
    ∀ d ∈ (normNeeds lower ns acc).2, ∃ p v, d = .dupNeeds p v := by
  induction ns generalizing acc with
  | nil => simp [normNeeds]
  | cons j rest ih =>
    intro d hd
    simp only [normNeeds] at hd
    split at hd
    · simp only [List.mem_cons] at hd
      rcases hd with rfl | hd
      · exact ⟨_, _, rfl⟩
      · exact ih _ d hd
    · split at hd
      · exact ih _ d hd
      · exact ih _ d hd

/-- `VisitJobPre` only reports repeated `needs:` entries and repeated job ids -/
theorem visitJobs_diags (lower : String → String) (jobs : List JobIn) (nodes : List RawNode) :
    ∀ d ∈ (visitJobs lower jobs nodes).2, (∃ p v, d = .dupNeeds p v) ∨ (∃ p v q, d = .dupJob p v q) := by
  induction jobs generalizing nodes with
  | nil => simp [visitJobs]
  | cons j rest ih =>
    intro d hd
    simp only [visitJobs] at hd
    split at hd
    · simp only [List.mem_append] at hd
      rcases hd with hd | hd
      · exact Or.inl (normNeeds_no_undefined _ _ _ d hd)
      · exact ih _ d hd
    · simp only [List.mem_append] at hd
      rcases hd with (hd | hd) | hd
      · exact Or.inl (normNeeds_no_undefined _ _ _ d hd)
      · split at hd
        · simp only [List.mem_cons, List.not_mem_nil, or_false] at hd
          subst hd; exact Or.inr ⟨_, _, _, rfl⟩
        · simp at hd
      · exact ih _ d hd

theorem resolve_diags (nodes : List RawNode) : ∀ d ∈ (resolve nodes).2, ∃ p i dep, d = .undefined p i dep := by
  intro d hd
  simp only [resolve, List.mem_flatMap, List.mem_map, List.mem_filter] at hd
  obtain ⟨n, _, dep, _, rfl⟩ := hd
  exact ⟨_, _, _, rfl⟩

/-- the cyclic-dependency report of `check`: present iff no reference dangles and `cycleDiag` finds one -/
theorem cyclic_mem_check (lower : String → String) (jobs : List JobIn) (order : List Nat) (c : CycleDiag) :
    Diag.cyclic c ∈ check lower jobs order ↔
      (resolve (nodesOf lower jobs)).2 = [] ∧ cycleDiag (graphOf lower jobs) order = some c := by
  have h0 : Diag.cyclic c ∉ (visitJobs lower jobs []).2 := fun h => by
    rcases visitJobs_diags lower jobs [] _ h with ⟨_, _, e⟩ | ⟨_, _, _, e⟩ <;> cases e
  have h1 : Diag.cyclic c ∉ (resolve (nodesOf lower jobs)).2 := fun h => by
    obtain ⟨_, _, _, e⟩ := resolve_diags _ _ h; cases e
  rw [check_eq]
  cases hd : (resolve (nodesOf lower jobs)).2 with
  | nil =>
    simp only [List.isEmpty_nil, Bool.not_true, Bool.false_eq_true, ↓reduceIte, true_and]
    cases hc : cycleDiag (graphOf lower jobs) order with
    | none => simp [h0]
    | some c' => simp [h0]; exact eq_comm
  | cons x xs =>
    rw [hd] at h1
    simp [h0, h1]

/-- the dangling-reference reports of `check` are those of the resolution loop -/
theorem undefined_mem_check (lower : String → String) (jobs : List JobIn) (order : List Nat) (p : P) (i dep : String) :
    Diag.undefined p i dep ∈ check lower jobs order ↔ Diag.undefined p i dep ∈ (resolve (nodesOf lower jobs)).2 := by
  have h0 : Diag.undefined p i dep ∉ (visitJobs lower jobs []).2 := fun h => by
    rcases visitJobs_diags lower jobs [] _ h with ⟨_, _, e⟩ | ⟨_, _, _, e⟩ <;> cases e
  rw [check_eq]
  cases hd : (resolve (nodesOf lower jobs)).2 with
  | nil =>
    simp only [List.isEmpty_nil, Bool.not_true, Bool.false_eq_true, ↓reduceIte]
    cases hc : cycleDiag (graphOf lower jobs) order <;> simp [h0]
  | cons x xs => simp [h0]

/-- the reports of `VisitJobPre` come first, whatever follows -/
theorem visitJobs_mem_check (lower : String → String) (jobs : List JobIn) (order : List Nat) (d : Diag)
    (hd : (∃ p v, d = .dupNeeds p v) ∨ (∃ p v q, d = .dupJob p v q)) :
    d ∈ check lower jobs order ↔ d ∈ (visitJobs lower jobs []).2 := by
  have h1 : d ∉ (resolve (nodesOf lower jobs)).2 := fun h => by
    obtain ⟨_, _, _, e⟩ := resolve_diags _ _ h
    rcases hd with ⟨_, _, e'⟩ | ⟨_, _, _, e'⟩ <;> (rw [e] at e'; cases e')
  have h2 : ∀ c, d ≠ .cyclic c := fun c e => by
    rcases hd with ⟨_, _, e'⟩ | ⟨_, _, _, e'⟩ <;> (rw [e] at e'; cases e')
  rw [check_eq]
  split
  · simp [h1]
  · split <;> simp [h2]

/-- **C18 (a)**, no hypothesis: an acyclic needs graph gets no cyclic-dependency report, whatever the map order. -/
theorem check_acyclic_none (lower : String → String) (jobs : List JobIn) (order : List Nat)
    (h : ¬ Cyclic (graphOf lower jobs)) : ∀ c, Diag.cyclic c ∉ check lower jobs order := by
  intro c hc
  have := ((cyclic_mem_check lower jobs order c).1 hc).2
  rw [acyclic_none _ order (graphOf_wf lower jobs) h] at this
  cases this

/-- **C18 (b)**, no hypothesis: a needs graph with a cycle (and no dangling reference, which pre-empts the cycle check)
gets a cyclic-dependency report under the order the rule uses — and under every order that visits all nodes. -/
theorem check_cyclic_some (lower : String → String) (jobs : List JobIn) (order : List Nat)
    (hcov : Covers (graphOf lower jobs) order)
    (hu : (resolve (nodesOf lower jobs)).2 = []) (h : Cyclic (graphOf lower jobs)) :
    ∃ c, Diag.cyclic c ∈ check lower jobs order := by
  obtain ⟨c, hc⟩ := Option.isSome_iff_exists.1 (cyclic_some _ order (graphOf_wf lower jobs) hcov h)
  exact ⟨c, (cyclic_mem_check lower jobs order c).2 ⟨hu, hc⟩⟩

theorem check_cyclic_some_range (lower : String → String) (jobs : List JobIn)
    (hu : (resolve (nodesOf lower jobs)).2 = []) (h : Cyclic (graphOf lower jobs)) :
    ∃ c, Diag.cyclic c ∈ check lower jobs (List.range jobs.length) :=
  check_cyclic_some lower jobs _ (covers_range lower jobs) hu h

/-- (a) and (b) together, for the order the rule uses: a cycle is reported iff nothing dangles and the graph has one. -/
theorem check_cyclic_iff (lower : String → String) (jobs : List JobIn) :
    (∃ c, Diag.cyclic c ∈ check lower jobs (List.range jobs.length)) ↔
      (resolve (nodesOf lower jobs)).2 = [] ∧ Cyclic (graphOf lower jobs) := by
  constructor
  · rintro ⟨c, hc⟩
    refine ⟨((cyclic_mem_check lower jobs _ c).1 hc).1, ?_⟩
    apply Classical.byContradiction
    intro hn
    exact check_acyclic_none lower jobs _ hn c hc
  · rintro ⟨hu, h⟩
    exact check_cyclic_some_range lower jobs hu h

/-- whether a cycle is reported does not depend on the map order (among the orders that visit every node) -/
theorem check_cyclic_order_irrelevant (lower : String → String) (jobs : List JobIn) (o₁ o₂ : List Nat)
    (h₁ : Covers (graphOf lower jobs) o₁) (h₂ : Covers (graphOf lower jobs) o₂) :
    (∃ c, Diag.cyclic c ∈ check lower jobs o₁) ↔ (∃ c, Diag.cyclic c ∈ check lower jobs o₂) := by
  have key : ∀ o, Covers (graphOf lower jobs) o →
      ((∃ c, Diag.cyclic c ∈ check lower jobs o) ↔ (resolve (nodesOf lower jobs)).2 = [] ∧ Cyclic (graphOf lower jobs)) := by
    intro o ho
    constructor
    · rintro ⟨c, hc⟩
      refine ⟨((cyclic_mem_check lower jobs _ c).1 hc).1, ?_⟩
      apply Classical.byContradiction
      intro hn
      exact check_acyclic_none lower jobs _ hn c hc
    · rintro ⟨hu, h⟩
      exact check_cyclic_some lower jobs o ho hu h
  rw [key o₁ h₁, key o₂ h₂]

/-- **C18 (c)**, no hypothesis: the printed cycle is a real cycle of the needs graph, reported at the position of its
first job. -/
theorem check_printed_is_cycle (lower : String → String) (jobs : List JobIn) (order : List Nat) (d : CycleDiag)
    (h : Diag.cyclic d ∈ check lower jobs order) :
    ∃ vs, IsCycle (graphOf lower jobs) vs ∧ d.path = vs.map (idOf (graphOf lower jobs)) ∧
      d.pos = posOf (graphOf lower jobs) (vs.headD 0) ∧
      ∀ v ∈ vs, ¬ (posOf (graphOf lower jobs) v).isBefore d.pos :=
  printed_is_cycle _ order d (graphOf_wf lower jobs) ((cyclic_mem_check lower jobs order d).1 h).2

/-- **C18 (e)** at the level of `check`: exactly the (job, dependency) pairs whose dependency is not a job id. -/
theorem check_undefined_exact (lower : String → String) (jobs : List JobIn) (order : List Nat) (p : P) (i d : String) :
    Diag.undefined p i d ∈ check lower jobs order ↔
      ∃ n ∈ nodesOf lower jobs, n.pos = p ∧ n.id = i ∧ d ∈ n.needs ∧ ∀ m ∈ nodesOf lower jobs, m.id ≠ d := by
  rw [undefined_mem_check]
  exact undefined_exact (nodesOf lower jobs) p i d

/-- **C18 (f)** -/
theorem check_at_most_one (lower : String → String) (jobs : List JobIn) (order : List Nat) :
    ((check lower jobs order).filter (fun d => match d with | .cyclic _ => true | _ => false)).length ≤ 1 :=
  at_most_one lower jobs order

/-- (f), second half: a dangling reference pre-empts the cycle check -/
theorem check_undefined_no_cyclic (lower : String → String) (jobs : List JobIn) (order : List Nat) (p : P) (i d : String)
    (h : Diag.undefined p i d ∈ check lower jobs order) : ∀ c, Diag.cyclic c ∉ check lower jobs order := by
  intro c hc
  have h1 := (undefined_mem_check lower jobs order p i d).1 h
  rw [((cyclic_mem_check lower jobs order c).1 hc).1] at h1
  cases h1

/-! ## `AL.Rules.ruleJobNeeds` on the AST, every workflow -/

open AL.Ast AL.Rules in
/-- the job list `ruleJobNeeds` hands to the model -/
def jobsIn (w : Workflow) : List JobIn := (Rules.jobsOf w).map Rules.needsJobIn

open AL.Ast in
theorem ruleJobNeeds_eq (lower : String → String) (w : Workflow) :
    Rules.ruleJobNeeds lower w = (check lower (jobsIn w) (List.range (jobsIn w).length)).map Rules.needsDiag := rfl

theorem needsDiag_code (x : Diag) :
    ((Rules.needsDiag x).code = "needs-cyclic" ↔ ∃ c, x = .cyclic c) ∧
    ((Rules.needsDiag x).code = "needs-undefined" ↔ ∃ p i d, x = .undefined p i d) ∧
    ((Rules.needsDiag x).code = "job-id-duplicate" ↔ ∃ p v q, x = .dupJob p v q) ∧
    ((Rules.needsDiag x).code = "needs-duplicate" ↔ ∃ p v, x = .dupNeeds p v) := by
  cases x <;> simp [Rules.needsDiag]

theorem ofNP_inj (p q : P) (h : Rules.ofNP p = Rules.ofNP q) : p = q := by
  cases p; cases q
  simp only [Rules.ofNP, AL.Matrix.P.mk.injEq] at h
  simp [h.1, h.2]

open AL.Ast in
/-- no `needs-undefined` report iff the resolution loop found nothing dangling -/
theorem no_undefined_iff (lower : String → String) (w : Workflow) :
    (∀ d ∈ Rules.ruleJobNeeds lower w, d.code ≠ "needs-undefined") ↔ (resolve (nodesOf lower (jobsIn w))).2 = [] := by
  rw [ruleJobNeeds_eq]
  constructor
  · intro h
    cases hd : (resolve (nodesOf lower (jobsIn w))).2 with
    | nil => rfl
    | cons x xs =>
      exfalso
      obtain ⟨p, i, dep, rfl⟩ := resolve_diags _ x (by rw [hd]; simp)
      have hx : Diag.undefined p i dep ∈ check lower (jobsIn w) (List.range (jobsIn w).length) :=
        (undefined_mem_check _ _ _ _ _ _).2 (by rw [hd]; simp)
      exact h _ (List.mem_map.2 ⟨_, hx, rfl⟩) rfl
  · intro h d hd hc
    obtain ⟨x, hx, rfl⟩ := List.mem_map.1 hd
    obtain ⟨p, i, dep, rfl⟩ := (needsDiag_code x).2.1.1 hc
    have := (undefined_mem_check _ _ _ _ _ _).1 hx
    rw [h] at this
    cases this

open AL.Ast in
/-- **C18 (a)+(b) for the rule**, every workflow, no hypothesis: `needs-cyclic` is reported iff no `needs-undefined` is and
the needs graph has a cycle. -/
theorem rule_cyclic_iff (lower : String → String) (w : Workflow) :
    (∃ d ∈ Rules.ruleJobNeeds lower w, d.code = "needs-cyclic") ↔
      (∀ d ∈ Rules.ruleJobNeeds lower w, d.code ≠ "needs-undefined") ∧ Cyclic (graphOf lower (jobsIn w)) := by
  rw [no_undefined_iff, ← check_cyclic_iff, ruleJobNeeds_eq]
  constructor
  · rintro ⟨d, hd, hc⟩
    obtain ⟨x, hx, rfl⟩ := List.mem_map.1 hd
    obtain ⟨c, rfl⟩ := (needsDiag_code x).1.1 hc
    exact ⟨c, hx⟩
  · rintro ⟨c, hc⟩
    exact ⟨_, List.mem_map.2 ⟨_, hc, rfl⟩, rfl⟩

open AL.Ast in
/-- (a) alone -/
theorem rule_acyclic_none (lower : String → String) (w : Workflow) (h : ¬ Cyclic (graphOf lower (jobsIn w))) :
    ∀ d ∈ Rules.ruleJobNeeds lower w, d.code ≠ "needs-cyclic" :=
  fun d hd hc => h ((rule_cyclic_iff lower w).1 ⟨d, hd, hc⟩).2

open AL.Ast in
/-- (b) alone -/
theorem rule_cyclic_some (lower : String → String) (w : Workflow)
    (hu : ∀ d ∈ Rules.ruleJobNeeds lower w, d.code ≠ "needs-undefined") (h : Cyclic (graphOf lower (jobsIn w))) :
    ∃ d ∈ Rules.ruleJobNeeds lower w, d.code = "needs-cyclic" :=
  (rule_cyclic_iff lower w).2 ⟨hu, h⟩

open AL.Ast in
/-- **C18 (c) for the rule**: the message of a `needs-cyclic` report spells a real cycle of the needs graph, and the report
is at the earliest job id on it. -/
theorem rule_printed_is_cycle (lower : String → String) (w : Workflow) (d : Rules.Diag)
    (hd : d ∈ Rules.ruleJobNeeds lower w) (hc : d.code = "needs-cyclic") :
    ∃ vs, IsCycle (graphOf lower (jobsIn w)) vs ∧
      d.args = [",".intercalate (vs.map (idOf (graphOf lower (jobsIn w))))] ∧
      d.pos = Rules.ofNP (posOf (graphOf lower (jobsIn w)) (vs.headD 0)) ∧
      ∀ v ∈ vs, ¬ (posOf (graphOf lower (jobsIn w)) v).isBefore (posOf (graphOf lower (jobsIn w)) (vs.headD 0)) := by
  rw [ruleJobNeeds_eq] at hd
  obtain ⟨x, hx, rfl⟩ := List.mem_map.1 hd
  obtain ⟨c, rfl⟩ := (needsDiag_code x).1.1 hc
  obtain ⟨vs, h1, h2, h3, h4⟩ := check_printed_is_cycle lower _ _ c hx
  refine ⟨vs, h1, ?_, ?_, ?_⟩
  · simp [Rules.needsDiag, h2]
  · simp [Rules.needsDiag, h3]
  · rw [← h3]; exact h4

open AL.Ast in
/-- **C18 (e) for the rule**: `needs-undefined` exactly for the (job, dependency) pairs whose dependency is no job id. -/
theorem rule_undefined_exact (lower : String → String) (w : Workflow) (pos : Rules.Pos) (i dep : String) :
    (⟨pos, "job-needs", "needs-undefined", [i, dep]⟩ : Rules.Diag) ∈ Rules.ruleJobNeeds lower w ↔
      ∃ n ∈ nodesOf lower (jobsIn w), Rules.ofNP n.pos = pos ∧ n.id = i ∧ dep ∈ n.needs ∧
        ∀ m ∈ nodesOf lower (jobsIn w), m.id ≠ dep := by
  rw [ruleJobNeeds_eq]
  constructor
  · intro h
    obtain ⟨x, hx, e⟩ := List.mem_map.1 h
    have hc : (Rules.needsDiag x).code = "needs-undefined" := by rw [e]
    obtain ⟨p, i', d', rfl⟩ := (needsDiag_code x).2.1.1 hc
    simp only [Rules.needsDiag, Rules.Diag.mk.injEq, List.cons.injEq, and_true, true_and] at e
    obtain ⟨hp, hi, hd⟩ := e
    subst hi hd
    obtain ⟨n, hn, h1, h2, h3, h4⟩ := (check_undefined_exact lower _ _ p i' d').1 hx
    exact ⟨n, hn, by rw [h1, hp], h2, h3, h4⟩
  · rintro ⟨n, hn, h1, h2, h3, h4⟩
    refine List.mem_map.2 ⟨.undefined n.pos i dep, (check_undefined_exact lower _ _ _ _ _).2 ⟨n, hn, rfl, h2, h3, h4⟩, ?_⟩
    simp [Rules.needsDiag, h1]

open AL.Ast in
/-- **C18 (f) for the rule**: at most one `needs-cyclic` report … -/
theorem rule_at_most_one (lower : String → String) (w : Workflow) :
    ((Rules.ruleJobNeeds lower w).filter (fun d => d.code = "needs-cyclic")).length ≤ 1 := by
  rw [ruleJobNeeds_eq, List.filter_map, List.length_map]
  have : ((fun d : Rules.Diag => decide (d.code = "needs-cyclic")) ∘ Rules.needsDiag) =
      (fun d => match d with | .cyclic _ => true | _ => false) := by
    funext x; cases x <;> simp [Rules.needsDiag]
  rw [this]
  exact check_at_most_one lower _ _

open AL.Ast in
/-- … and none next to a `needs-undefined` report -/
theorem rule_undefined_no_cyclic (lower : String → String) (w : Workflow) (d : Rules.Diag)
    (hd : d ∈ Rules.ruleJobNeeds lower w) (hc : d.code = "needs-undefined") :
    ∀ d' ∈ Rules.ruleJobNeeds lower w, d'.code ≠ "needs-cyclic" := by
  intro d' hd' hc'
  exact ((rule_cyclic_iff lower w).1 ⟨d', hd', hc'⟩).1 d hd hc

/-! ## workflows that come out of the parser: folded job ids are distinct, the nodes are the jobs -/

section Parsed
open AL.PW AL.Yaml AL.Ast

theorem mapKVs_keys {β : Type} (f : KV → R β) (kvs : List KV) : (mapKVs f kvs).1.map (·.1) = kvs.map (·.id) := by
  induction kvs with
  | nil => rfl
  | cons kv rest ih => simp [mapKVs, ih]

/-- the keys of `Workflow.Jobs` are pairwise distinct: `parseMapping` drops a repeated (folded) job id -/
theorem parseJobs_keys_nodup (cfg : Cfg) (n : Yaml.Node) : ((parseJobs cfg n).1.map (·.1)).Nodup := by
  simp only [parseJobs, mapKVs_keys]
  exact C03P.parseMapping_nodup cfg _ n false false

/-- `Workflow.Jobs` of a parsed workflow is a result of `parseJobs` -/
theorem parse_jobs (cfg : Cfg) (doc : Yaml.Node) :
    ∀ jobs, (parse cfg doc).1.jobs = some jobs → ∃ n, jobs = (parseJobs cfg n).1 := by
  simp only [parse]
  split
  · intro jobs e; cases e
  · apply C13P.loop_inv (workflowKey cfg) (fun w => ∀ jobs, w.jobs = some jobs → ∃ n, jobs = (parseJobs cfg n).1)
    · intro w kv _ hw
      simp only [workflowKey]
      split
      case h_7 =>
        intro jobs e
        simp only [Option.some.injEq] at e
        exact ⟨kv.val, e.symm⟩
      all_goals exact hw
    · intro jobs e; cases e

/-- **the folded job ids of a parsed workflow are pairwise distinct** -/
theorem parsed_job_ids_nodup (cfg : Cfg) (doc : Yaml.Node) :
    ((Rules.jobsOf (parse cfg doc).1).map fun j => cfg.lower j.id.value).Nodup := by
  simp only [Rules.jobsOf]
  cases hj : (parse cfg doc).1.jobs with
  | none => simp
  | some jobs =>
    obtain ⟨n, rfl⟩ := parse_jobs cfg doc jobs hj
    simp only [Option.getD_some, List.map_map]
    have : (parseJobs cfg n).1.map ((fun j : Job => cfg.lower j.id.value) ∘ fun x => x.2) = (parseJobs cfg n).1.map (·.1) :=
      List.map_congr_left fun p hp => (C08P.jobs_keys_folded cfg n p hp).symm
    rw [this]
    exact parseJobs_keys_nodup cfg n

end Parsed

/-- the node `VisitJobPre` stores for a job -/
def mkNode (lower : String → String) (j : JobIn) : RawNode :=
  { id := lower j.idValue, pos := j.idPos, needs := (normNeeds lower j.needs []).1 }

/-- when the folded ids are pairwise distinct (and new), `VisitJobPre` appends one node per job with a non-empty id, in
order, and never reports a repeated job id -/
theorem visitJobs_of_nodup (lower : String → String) : ∀ (jobs : List JobIn) (nodes : List RawNode),
    (nodes.map (·.id) ++ (jobs.map fun j => lower j.idValue).filter (· ≠ "")).Nodup →
    (visitJobs lower jobs nodes).1 = nodes ++ (jobs.filter fun j => lower j.idValue ≠ "").map (mkNode lower) ∧
    ∀ d ∈ (visitJobs lower jobs nodes).2, ∃ p v, d = .dupNeeds p v
  | [], nodes, _ => by simp [visitJobs]
  | j :: rest, nodes, h => by
    simp only [visitJobs]
    by_cases hid : lower j.idValue = ""
    · have h' : (nodes.map (·.id) ++ (rest.map fun j => lower j.idValue).filter (· ≠ "")).Nodup := by
        simpa [List.filter_cons, hid] using h
      obtain ⟨ih1, ih2⟩ := visitJobs_of_nodup lower rest nodes h'
      simp only [hid, ↓reduceIte]
      refine ⟨by simpa [List.filter_cons, hid] using ih1, ?_⟩
      intro d hd
      rcases List.mem_append.1 hd with hd | hd
      · exact normNeeds_no_undefined _ _ _ d hd
      · exact ih2 d hd
    · have hnew : ∀ n ∈ nodes, n.id ≠ lower j.idValue := by
        intro n hn e
        have h1 : (nodes.map (·.id) ++ (lower j.idValue :: (rest.map fun j => lower j.idValue).filter (· ≠ ""))).Nodup := by
          simpa [List.filter_cons, hid] using h
        rw [List.nodup_append] at h1
        exact h1.2.2 n.id (List.mem_map.2 ⟨n, hn, rfl⟩) (lower j.idValue) (by simp) e
      have hfind : nodes.find? (fun n => decide (n.id = lower j.idValue)) = none := by
        rw [List.find?_eq_none]; intro n hn; simpa using hnew n hn
      have hany : nodes.any (fun n => decide (n.id = lower j.idValue)) = false := by
        rw [List.any_eq_false]; intro n hn; simpa using hnew n hn
      have h' : ((nodes ++ [mkNode lower j]).map (·.id) ++ (rest.map fun j => lower j.idValue).filter (· ≠ "")).Nodup := by
        simpa [List.filter_cons, hid, mkNode] using h
      obtain ⟨ih1, ih2⟩ := visitJobs_of_nodup lower rest (nodes ++ [mkNode lower j]) h'
      simp only [hid, ↓reduceIte, hfind, hany, Bool.false_eq_true]
      refine ⟨by simpa [List.filter_cons, hid, mkNode] using ih1, ?_⟩
      intro d hd
      simp only [List.append_nil, List.mem_append] at hd
      rcases hd with hd | hd
      · exact normNeeds_no_undefined _ _ _ d hd
      · exact ih2 d hd

/-- what `VisitJobPre` keeps of a `needs:` list: the folded, non-empty names -/
theorem normNeeds_mem (lower : String → String) (dep : String) : ∀ (ns : List NeedRef) (acc : List String),
    dep ∈ (normNeeds lower ns acc).1 ↔ dep ∈ acc ∨ (dep ≠ "" ∧ ∃ n ∈ ns, lower n.value = dep)
  | [], acc => by simp [normNeeds]
  | j :: rest, acc => by
    simp only [normNeeds]
    split
    · rename_i hc
      have hc' : lower j.value ∈ acc := by simpa using hc
      have := normNeeds_mem lower dep rest acc
      simp only [this, List.mem_cons, exists_eq_or_imp]
      constructor
      · rintro (h | ⟨h1, h2⟩)
        · exact Or.inl h
        · exact Or.inr ⟨h1, Or.inr h2⟩
      · rintro (h | ⟨h1, h2 | h2⟩)
        · exact Or.inl h
        · exact Or.inl (h2 ▸ hc')
        · exact Or.inr ⟨h1, h2⟩
    · split
      · rename_i hne
        rw [normNeeds_mem lower dep rest (acc ++ [lower j.value])]
        simp only [List.mem_append, List.mem_cons, List.not_mem_nil, or_false, exists_eq_or_imp]
        constructor
        · rintro ((h | h) | ⟨h1, h2⟩)
          · exact Or.inl h
          · exact Or.inr ⟨by rw [h]; simpa using hne, Or.inl h.symm⟩
          · exact Or.inr ⟨h1, Or.inr h2⟩
        · rintro (h | ⟨h1, h2 | h2⟩)
          · exact Or.inl (Or.inl h)
          · exact Or.inl (Or.inr h2.symm)
          · exact Or.inr ⟨h1, h2⟩
      · rename_i hne
        have he : lower j.value = "" := by simpa using hne
        rw [normNeeds_mem lower dep rest acc]
        simp only [List.mem_cons, exists_eq_or_imp]
        constructor
        · rintro (h | ⟨h1, h2⟩)
          · exact Or.inl h
          · exact Or.inr ⟨h1, Or.inr h2⟩
        · rintro (h | ⟨h1, h2 | h2⟩)
          · exact Or.inl h
          · exact absurd (h2 ▸ he) h1
          · exact Or.inr ⟨h1, h2⟩

section Parsed
open AL.PW AL.Yaml AL.Ast

theorem parsed_jobsIn_nodup (cfg : Cfg) (doc : Yaml.Node) :
    ((jobsIn (parse cfg doc).1).map fun j => cfg.lower j.idValue).Nodup := by
  have := parsed_job_ids_nodup cfg doc
  simpa [jobsIn, Rules.needsJobIn, Function.comp_def] using this

theorem parsed_visit_hyp (cfg : Cfg) (doc : Yaml.Node) :
    (([] : List RawNode).map (·.id) ++ ((jobsIn (parse cfg doc).1).map fun j => cfg.lower j.idValue).filter (· ≠ "")).Nodup := by
  simp only [List.map_nil, List.nil_append]
  exact (parsed_jobsIn_nodup cfg doc).filter _

/-- **the nodes of the needs graph of a parsed workflow are its jobs** (those with a non-empty id), in source order -/
theorem parsed_nodes (cfg : Cfg) (doc : Yaml.Node) :
    nodesOf cfg.lower (jobsIn (parse cfg doc).1) =
      ((jobsIn (parse cfg doc).1).filter fun j => cfg.lower j.idValue ≠ "").map (mkNode cfg.lower) := by
  have h := (visitJobs_of_nodup cfg.lower (jobsIn (parse cfg doc).1) [] (parsed_visit_hyp cfg doc)).1
  simpa [nodesOf] using h

theorem parsed_nodes_ids_nodup (cfg : Cfg) (doc : Yaml.Node) :
    ((nodesOf cfg.lower (jobsIn (parse cfg doc).1)).map (·.id)).Nodup := by
  rw [parsed_nodes, List.map_map]
  have : ((fun n : RawNode => n.id) ∘ mkNode cfg.lower) = fun j => cfg.lower j.idValue := rfl
  rw [this]
  exact ((parsed_jobsIn_nodup cfg doc).sublist (List.filter_sublist.map _))

/-- **`job-id-duplicate` is never reported for a parsed workflow**: the parser has already reported the repeated key
(`key-duplicated`, C13) and dropped the job. -/
theorem parsed_no_dupJob (cfg : Cfg) (doc : Yaml.Node) :
    ∀ d ∈ Rules.ruleJobNeeds cfg.lower (parse cfg doc).1, d.code ≠ "job-id-duplicate" := by
  intro d hd hc
  rw [ruleJobNeeds_eq] at hd
  obtain ⟨x, hx, rfl⟩ := List.mem_map.1 hd
  obtain ⟨p, v, q, rfl⟩ := (needsDiag_code x).2.2.1.1 hc
  have hx' := (visitJobs_mem_check cfg.lower _ _ _ (Or.inr ⟨p, v, q, rfl⟩)).1 hx
  obtain ⟨_, _, e⟩ := (visitJobs_of_nodup cfg.lower (jobsIn (parse cfg doc).1) [] (parsed_visit_hyp cfg doc)).2 _ hx'
  cases e

/-- C18 (a)+(b) for every parsed workflow -/
theorem parsed_cyclic_iff (cfg : Cfg) (doc : Yaml.Node) :
    (∃ d ∈ Rules.ruleJobNeeds cfg.lower (parse cfg doc).1, d.code = "needs-cyclic") ↔
      (∀ d ∈ Rules.ruleJobNeeds cfg.lower (parse cfg doc).1, d.code ≠ "needs-undefined") ∧
      Cyclic (graphOf cfg.lower (jobsIn (parse cfg doc).1)) :=
  rule_cyclic_iff cfg.lower _

theorem parsed_acyclic_none (cfg : Cfg) (doc : Yaml.Node) (h : ¬ Cyclic (graphOf cfg.lower (jobsIn (parse cfg doc).1))) :
    ∀ d ∈ Rules.ruleJobNeeds cfg.lower (parse cfg doc).1, d.code ≠ "needs-cyclic" :=
  rule_acyclic_none cfg.lower _ h

theorem parsed_cyclic_some (cfg : Cfg) (doc : Yaml.Node)
    (hu : ∀ d ∈ Rules.ruleJobNeeds cfg.lower (parse cfg doc).1, d.code ≠ "needs-undefined")
    (h : Cyclic (graphOf cfg.lower (jobsIn (parse cfg doc).1))) :
    ∃ d ∈ Rules.ruleJobNeeds cfg.lower (parse cfg doc).1, d.code = "needs-cyclic" :=
  rule_cyclic_some cfg.lower _ hu h

/-- C18 (c) for every parsed workflow -/
theorem parsed_printed_is_cycle (cfg : Cfg) (doc : Yaml.Node) (d : Rules.Diag)
    (hd : d ∈ Rules.ruleJobNeeds cfg.lower (parse cfg doc).1) (hc : d.code = "needs-cyclic") :
    ∃ vs, IsCycle (graphOf cfg.lower (jobsIn (parse cfg doc).1)) vs ∧
      d.args = [",".intercalate (vs.map (idOf (graphOf cfg.lower (jobsIn (parse cfg doc).1))))] ∧
      d.pos = Rules.ofNP (posOf (graphOf cfg.lower (jobsIn (parse cfg doc).1)) (vs.headD 0)) ∧
      ∀ v ∈ vs, ¬ (posOf (graphOf cfg.lower (jobsIn (parse cfg doc).1)) v).isBefore
        (posOf (graphOf cfg.lower (jobsIn (parse cfg doc).1)) (vs.headD 0)) :=
  rule_printed_is_cycle cfg.lower _ d hd hc

theorem ofNP_toNP (p : Rules.Pos) : Rules.ofNP (Rules.toNP p) = p := by cases p; rfl

/-- **C18 (e) for every parsed workflow, in terms of the jobs of the AST**: `needs-undefined` is reported at job `j` for
the name `dep` iff `dep` is the (non-empty) folded form of an entry of `j.needs` and no job's folded id is `dep`. -/
theorem parsed_undefined_exact (cfg : Cfg) (doc : Yaml.Node) (pos : Rules.Pos) (i dep : String) :
    (⟨pos, "job-needs", "needs-undefined", [i, dep]⟩ : Rules.Diag) ∈ Rules.ruleJobNeeds cfg.lower (parse cfg doc).1 ↔
      ∃ j ∈ Rules.jobsOf (parse cfg doc).1, cfg.lower j.id.value ≠ "" ∧ j.id.pos = pos ∧ cfg.lower j.id.value = i ∧
        dep ≠ "" ∧ (∃ n ∈ j.needs.getD [], cfg.lower n.value = dep) ∧
        ∀ j' ∈ Rules.jobsOf (parse cfg doc).1, cfg.lower j'.id.value ≠ dep := by
  rw [rule_undefined_exact, parsed_nodes]
  simp only [List.mem_map, List.mem_filter, jobsIn, ne_eq, decide_not, Bool.not_eq_eq_eq_not,
    Bool.not_true, decide_eq_false_iff_not]
  constructor
  · rintro ⟨n, ⟨ji, ⟨⟨j, hj, rfl⟩, hne⟩, rfl⟩, h1, h2, h3, h4⟩
    simp only [mkNode, Rules.needsJobIn, normNeeds_mem, List.not_mem_nil, false_or, List.mem_map] at h1 h2 h3 hne
    obtain ⟨hd, nr, ⟨s, hs, rfl⟩, hl⟩ := h3
    refine ⟨j, hj, hne, by rw [← h1, ofNP_toNP], h2, hd, ⟨s, hs, hl⟩, ?_⟩
    intro j' hj' e
    have hne' : ¬ cfg.lower j'.id.value = "" := by rw [e]; exact hd
    exact h4 _ ⟨_, ⟨⟨j', hj', rfl⟩, by simpa [Rules.needsJobIn] using hne'⟩, rfl⟩ (by simpa [mkNode, Rules.needsJobIn] using e)
  · rintro ⟨j, hj, hne, h1, h2, hd, ⟨s, hs, hl⟩, h4⟩
    refine ⟨_, ⟨_, ⟨⟨j, hj, rfl⟩, by simpa [Rules.needsJobIn] using hne⟩, rfl⟩, ?_, ?_, ?_, ?_⟩
    · simp [mkNode, Rules.needsJobIn, ofNP_toNP, h1]
    · simpa [mkNode, Rules.needsJobIn] using h2
    · simp only [mkNode, Rules.needsJobIn, normNeeds_mem, List.not_mem_nil, false_or, List.mem_map]
      exact ⟨hd, _, ⟨s, hs, rfl⟩, hl⟩
    · rintro m ⟨ji, ⟨⟨j', hj', rfl⟩, _⟩, rfl⟩ e
      exact h4 j' hj' (by simpa [mkNode, Rules.needsJobIn] using e)

theorem parsed_at_most_one (cfg : Cfg) (doc : Yaml.Node) :
    ((Rules.ruleJobNeeds cfg.lower (parse cfg doc).1).filter (fun d => d.code = "needs-cyclic")).length ≤ 1 :=
  rule_at_most_one cfg.lower _

end Parsed

/-! ## examples: three small workflows through the parser and the rule -/

section Examples
open AL.PW AL.Yaml AL.Ast

def exCfg : Cfg := ⟨asciiLower, fun _ => none, fun _ => .err⟩
def sc (v : String) (l c : Nat) : Yaml.Node := .mk .scalar "!!str" v false l c []
def mp (l c : Nat) (cs : List Yaml.Node) : Yaml.Node := .mk .mapping "!!map" "" false l c cs
def sq (l c : Nat) (cs : List Yaml.Node) : Yaml.Node := .mk .sequence "!!seq" "" false l c cs
/-- `{ runs-on: u, needs: [...], steps: [ {run: x} ] }` on line `l` -/
def jobNode (l : Nat) (needs : List String) : Yaml.Node :=
  mp l 3 [sc "runs-on" l 3, sc "u" l 12, sc "needs" l 15, sq l 22 (needs.map fun n => sc n l 23),
          sc "steps" l 30, sq l 37 [mp l 38 [sc "run" l 38, sc "x" l 43]]]
def docOf (jobs : List Yaml.Node) : Yaml.Node :=
  .mk .document "" "" false 1 1 [mp 1 1 [sc "on" 1 1, sc "push" 1 5, sc "jobs" 2 1, mp 3 1 jobs]]
/-- `A needs B`, `b needs a`, `c needs [A, a]`: a cycle `a ⇄ b` and a repeated (folded) entry in `c.needs` -/
def exCyc : Yaml.Node := docOf [sc "A" 3 1, jobNode 3 ["B"], sc "b" 4 1, jobNode 4 ["a"], sc "c" 5 1, jobNode 5 ["A", "a"]]
/-- `A needs [B, ZZ]`, `b needs a`: a cycle and a dangling reference -/
def exDang : Yaml.Node := docOf [sc "A" 3 1, jobNode 3 ["B", "ZZ"], sc "b" 4 1, jobNode 4 ["a"]]
/-- jobs `A` and `a`: the parser reports the second one and drops it -/
def exDupId : Yaml.Node := docOf [sc "A" 3 1, jobNode 3 ["a"], sc "a" 4 1, jobNode 4 ["a"]]
/-- `A needs b`, `b`: acyclic -/
def exDag : Yaml.Node := docOf [sc "A" 3 1, jobNode 3 ["b"], sc "b" 4 1, jobNode 4 []]

def wCyc : Workflow := (parse exCfg exCyc).1
def gCyc : Graph := graphOf exCfg.lower (jobsIn wCyc)

theorem gCyc_eq : gCyc = [⟨"a", ⟨3, 1⟩, [1]⟩, ⟨"b", ⟨4, 1⟩, [0]⟩, ⟨"c", ⟨5, 1⟩, [0]⟩] := by rfl
theorem isCycle_gCyc : IsCycle gCyc [0, 1, 0] := by
  rw [gCyc_eq]
  exact ⟨.cons 0 1 [0] (by decide) (by simp [Graph.succ]) (.cons 1 0 [] (by decide) (by simp [Graph.succ]) (.single 0 (by decide))),
    by decide, rfl⟩

/-- evaluation of the (well-founded recursive) cycle search on a literal graph, by rewriting with its equations -/
macro "cycle_eval" : tactic =>
  `(tactic| simp [cycleDiag, detectFirstCycle, detectCyclicNode, visitList, collectCycle, collectList, Graph.succ,
      setStatus, Edges.put, Edges.get?, pickStart, posOf, idOf, P.isBefore, printLoop])

theorem cycleDiag_gCyc : cycleDiag gCyc [0, 1, 2] = some ⟨⟨3, 1⟩, ["a", "b", "a"]⟩ := by
  rw [gCyc_eq]; cycle_eval

theorem ruleCyc : Rules.ruleJobNeeds exCfg.lower wCyc =
    [⟨⟨5, 23⟩, "job-needs", "needs-duplicate", ["a"]⟩, ⟨⟨3, 1⟩, "job-needs", "needs-cyclic", ["a,b,a"]⟩] := by
  rw [ruleJobNeeds_eq, check_eq]
  have h1 : (resolve (nodesOf exCfg.lower (jobsIn wCyc))).2 = [] := by rfl
  have h2 : (visitJobs exCfg.lower (jobsIn wCyc) []).2 = [.dupNeeds ⟨5, 23⟩ "a"] := by rfl
  have h3 : List.range (jobsIn wCyc).length = [0, 1, 2] := by rfl
  have h4 : graphOf exCfg.lower (jobsIn wCyc) = gCyc := rfl
  rw [h1, h2, h3, h4, cycleDiag_gCyc]
  decide
theorem nodesDang : nodesOf exCfg.lower (jobsIn (parse exCfg exDang).1) =
    [⟨"a", ⟨3, 1⟩, ["b", "zz"]⟩, ⟨"b", ⟨4, 1⟩, ["a"]⟩] := by rfl
theorem ruleDang : Rules.ruleJobNeeds exCfg.lower (parse exCfg exDang).1 =
    [⟨⟨3, 1⟩, "job-needs", "needs-undefined", ["a", "zz"]⟩] := by
  rw [ruleJobNeeds_eq, check_eq]
  have h1 : (resolve (nodesOf exCfg.lower (jobsIn (parse exCfg exDang).1))).2 = [.undefined ⟨3, 1⟩ "a" "zz"] := by rfl
  have h2 : (visitJobs exCfg.lower (jobsIn (parse exCfg exDang).1) []).2 = [] := by rfl
  rw [h1, h2]
  decide
theorem ruleDupId : Rules.ruleJobNeeds exCfg.lower (parse exCfg exDupId).1 =
    [⟨⟨3, 1⟩, "job-needs", "needs-cyclic", ["a,a"]⟩] ∧
    (parse exCfg exDupId).2 = [⟨⟨4, 1⟩, "key-duplicated", ["a", "«jobs» section", "line:3,col:1", ". note that this key is case insensitive"]⟩] := by
  refine ⟨?_, by decide +kernel⟩
  rw [ruleJobNeeds_eq, check_eq]
  have h1 : (resolve (nodesOf exCfg.lower (jobsIn (parse exCfg exDupId).1))).2 = [] := by rfl
  have h2 : (visitJobs exCfg.lower (jobsIn (parse exCfg exDupId).1) []).2 = [] := by rfl
  have h3 : List.range (jobsIn (parse exCfg exDupId).1).length = [0] := by rfl
  have h4 : graphOf exCfg.lower (jobsIn (parse exCfg exDupId).1) = [⟨"a", ⟨3, 1⟩, [0]⟩] := by rfl
  have h5 : cycleDiag [⟨"a", ⟨3, 1⟩, [0]⟩] [0] = some ⟨⟨3, 1⟩, ["a", "a"]⟩ := by cycle_eval
  rw [h1, h2, h3, h4, h5]
  decide
theorem ruleDag : Rules.ruleJobNeeds exCfg.lower (parse exCfg exDag).1 = [] := by
  rw [ruleJobNeeds_eq, check_eq]
  have h1 : (resolve (nodesOf exCfg.lower (jobsIn (parse exCfg exDag).1))).2 = [] := by rfl
  have h2 : (visitJobs exCfg.lower (jobsIn (parse exCfg exDag).1) []).2 = [] := by rfl
  have h3 : List.range (jobsIn (parse exCfg exDag).1).length = [0, 1] := by rfl
  have h4 : graphOf exCfg.lower (jobsIn (parse exCfg exDag).1) = [⟨"a", ⟨3, 1⟩, [1]⟩, ⟨"b", ⟨4, 1⟩, []⟩] := by rfl
  have h5 : cycleDiag [⟨"a", ⟨3, 1⟩, [1]⟩, ⟨"b", ⟨4, 1⟩, []⟩] [0, 1] = none := by cycle_eval
  rw [h1, h2, h3, h4, h5]
  decide

/- the graph is well-formed, the order covers it -/
example : WF gCyc := graphOf_wf _ _
example : WF (resolve [⟨"a", ⟨1, 1⟩, ["b", "x"]⟩, ⟨"b", ⟨2, 1⟩, []⟩]).1 := resolve_wf _
example : (resolve [⟨"a", ⟨1, 1⟩, ["b", "x"]⟩, ⟨"b", ⟨2, 1⟩, []⟩]).1.length = 2 := resolve_length _
example : (visitJobs id [⟨"a", ⟨1, 1⟩, ⟨1, 1⟩, []⟩, ⟨"a", ⟨2, 1⟩, ⟨2, 1⟩, []⟩] []).1.length ≤ 0 + 2 := visitJobs_length_le _ _ _
example : Covers gCyc (List.range (jobsIn wCyc).length) := covers_range _ _
example : (jobsIn wCyc).length = 3 := by rfl

/- `check` -/
example : check id [⟨"a", ⟨1, 1⟩, ⟨1, 1⟩, []⟩] [0] =
    if !(resolve (nodesOf id [⟨"a", ⟨1, 1⟩, ⟨1, 1⟩, []⟩])).2.isEmpty then
      (visitJobs id [⟨"a", ⟨1, 1⟩, ⟨1, 1⟩, []⟩] []).2 ++ (resolve (nodesOf id [⟨"a", ⟨1, 1⟩, ⟨1, 1⟩, []⟩])).2
    else match cycleDiag (graphOf id [⟨"a", ⟨1, 1⟩, ⟨1, 1⟩, []⟩]) [0] with
      | some c => (visitJobs id [⟨"a", ⟨1, 1⟩, ⟨1, 1⟩, []⟩] []).2 ++ [.cyclic c]
      | none => (visitJobs id [⟨"a", ⟨1, 1⟩, ⟨1, 1⟩, []⟩] []).2 := check_eq _ _ _
example : ∀ d ∈ (normNeeds id [⟨"a", ⟨1, 1⟩⟩, ⟨"a", ⟨1, 3⟩⟩] []).2, ∃ p v, d = .dupNeeds p v := normNeeds_no_undefined _ _ _
example : ∀ d ∈ (visitJobs id [⟨"a", ⟨1, 1⟩, ⟨1, 1⟩, []⟩, ⟨"a", ⟨2, 1⟩, ⟨2, 1⟩, []⟩] []).2,
    (∃ p v, d = .dupNeeds p v) ∨ (∃ p v q, d = .dupJob p v q) := visitJobs_diags _ _ _
example : ∀ d ∈ (resolve [⟨"a", ⟨1, 1⟩, ["b", "x"]⟩]).2, ∃ p i dep, d = .undefined p i dep := resolve_diags _
example (c : CycleDiag) : Diag.cyclic c ∈ check exCfg.lower (jobsIn wCyc) [2, 1, 0] ↔
    (resolve (nodesOf exCfg.lower (jobsIn wCyc))).2 = [] ∧ cycleDiag gCyc [2, 1, 0] = some c := cyclic_mem_check _ _ _ _
example : Diag.undefined ⟨3, 1⟩ "a" "zz" ∈ check exCfg.lower (jobsIn (parse exCfg exDang).1) [0, 1] ↔
    Diag.undefined ⟨3, 1⟩ "a" "zz" ∈ (resolve (nodesOf exCfg.lower (jobsIn (parse exCfg exDang).1))).2 :=
  undefined_mem_check _ _ _ _ _ _
example : Diag.dupNeeds ⟨5, 23⟩ "a" ∈ check exCfg.lower (jobsIn wCyc) [0] ↔
    Diag.dupNeeds ⟨5, 23⟩ "a" ∈ (visitJobs exCfg.lower (jobsIn wCyc) []).2 :=
  visitJobs_mem_check _ _ _ _ (Or.inl ⟨_, _, rfl⟩)
/-- the cyclic workflow: reported under every covering order, e.g. the reverse one -/
example : ∃ c, Diag.cyclic c ∈ check exCfg.lower (jobsIn wCyc) [2, 1, 0] :=
  check_cyclic_some _ _ _ (by intro v hv; have : v < 3 := hv; have : v = 0 ∨ v = 1 ∨ v = 2 := by omega
                              rcases this with rfl | rfl | rfl <;> simp)
    (by rfl) ⟨_, isCycle_gCyc⟩
example : ∃ c, Diag.cyclic c ∈ check exCfg.lower (jobsIn wCyc) (List.range 3) :=
  check_cyclic_some_range _ _ (by rfl) ⟨_, isCycle_gCyc⟩
example : (∃ c, Diag.cyclic c ∈ check exCfg.lower (jobsIn wCyc) (List.range (jobsIn wCyc).length)) ↔
    (resolve (nodesOf exCfg.lower (jobsIn wCyc))).2 = [] ∧ Cyclic gCyc := check_cyclic_iff _ _
example : (∃ c, Diag.cyclic c ∈ check exCfg.lower (jobsIn wCyc) (List.range 3)) ↔
    (∃ c, Diag.cyclic c ∈ check exCfg.lower (jobsIn wCyc) (List.range 3).reverse) :=
  check_cyclic_order_irrelevant _ _ _ _ (covers_range _ _)
    (fun v hv => List.mem_reverse.2 (covers_range exCfg.lower (jobsIn wCyc) v hv))
/-- the acyclic workflow: nothing, whatever the order -/
example : ¬ Cyclic (graphOf exCfg.lower (jobsIn (parse exCfg exDag).1)) := by
  intro h
  obtain ⟨d, hd, _⟩ := rule_cyclic_some exCfg.lower (parse exCfg exDag).1 (by rw [ruleDag]; simp) h
  rw [ruleDag] at hd
  cases hd
example (h : ¬ Cyclic (graphOf exCfg.lower (jobsIn (parse exCfg exDag).1))) (order : List Nat) (c : CycleDiag) :
    Diag.cyclic c ∉ check exCfg.lower (jobsIn (parse exCfg exDag).1) order := check_acyclic_none _ _ _ h c
example (d : CycleDiag) (h : Diag.cyclic d ∈ check exCfg.lower (jobsIn wCyc) [1, 0, 2]) :
    ∃ vs, IsCycle gCyc vs ∧ d.path = vs.map (idOf gCyc) ∧ d.pos = posOf gCyc (vs.headD 0) ∧
      ∀ v ∈ vs, ¬ (posOf gCyc v).isBefore d.pos := check_printed_is_cycle _ _ _ d h
example : Diag.undefined ⟨3, 1⟩ "a" "zz" ∈ check exCfg.lower (jobsIn (parse exCfg exDang).1) [0, 1] :=
  (check_undefined_exact _ _ _ _ _ _).2 ⟨⟨"a", ⟨3, 1⟩, ["b", "zz"]⟩, by rw [nodesDang]; exact List.mem_cons_self, rfl, rfl,
    by simp, by rw [nodesDang]; simp⟩
example : ((check exCfg.lower (jobsIn wCyc) [0, 1, 2]).filter (fun d => match d with | .cyclic _ => true | _ => false)).length ≤ 1 :=
  check_at_most_one _ _ _
example (h : Diag.undefined ⟨3, 1⟩ "a" "zz" ∈ check exCfg.lower (jobsIn (parse exCfg exDang).1) [0, 1]) (c : CycleDiag) :
    Diag.cyclic c ∉ check exCfg.lower (jobsIn (parse exCfg exDang).1) [0, 1] := check_undefined_no_cyclic _ _ _ _ _ _ h c

/- the rule -/
example : Rules.ruleJobNeeds exCfg.lower wCyc =
    (check exCfg.lower (jobsIn wCyc) (List.range (jobsIn wCyc).length)).map Rules.needsDiag := ruleJobNeeds_eq _ _
example : (Rules.needsDiag (.undefined ⟨3, 1⟩ "a" "zz")).code = "needs-undefined" :=
  (needsDiag_code _).2.1.2 ⟨_, _, _, rfl⟩
example : Rules.ofNP ⟨3, 1⟩ = Rules.ofNP ⟨3, 1⟩ → (⟨3, 1⟩ : P) = ⟨3, 1⟩ := ofNP_inj _ _
example : Rules.ofNP (Rules.toNP ⟨3, 1⟩) = ⟨3, 1⟩ := ofNP_toNP _
example : (resolve (nodesOf exCfg.lower (jobsIn wCyc))).2 = [] :=
  (no_undefined_iff exCfg.lower wCyc).1 (by rw [ruleCyc]; simp)
example : Cyclic gCyc :=
  ((rule_cyclic_iff exCfg.lower wCyc).1 ⟨⟨⟨3, 1⟩, "job-needs", "needs-cyclic", ["a,b,a"]⟩, by rw [ruleCyc]; simp, rfl⟩).2
example : ∃ d ∈ Rules.ruleJobNeeds exCfg.lower wCyc, d.code = "needs-cyclic" :=
  rule_cyclic_some exCfg.lower wCyc (by rw [ruleCyc]; simp) ⟨_, isCycle_gCyc⟩
example (h : ¬ Cyclic (graphOf exCfg.lower (jobsIn (parse exCfg exDag).1))) :
    ∀ d ∈ Rules.ruleJobNeeds exCfg.lower (parse exCfg exDag).1, d.code ≠ "needs-cyclic" := rule_acyclic_none _ _ h
example : ∃ vs, IsCycle gCyc vs ∧ ["a,b,a"] = [",".intercalate (vs.map (idOf gCyc))] ∧
    (⟨3, 1⟩ : Rules.Pos) = Rules.ofNP (posOf gCyc (vs.headD 0)) ∧
    ∀ v ∈ vs, ¬ (posOf gCyc v).isBefore (posOf gCyc (vs.headD 0)) :=
  rule_printed_is_cycle exCfg.lower wCyc ⟨⟨3, 1⟩, "job-needs", "needs-cyclic", ["a,b,a"]⟩ (by rw [ruleCyc]; simp) rfl
example : ∃ n ∈ nodesOf exCfg.lower (jobsIn (parse exCfg exDang).1), Rules.ofNP n.pos = ⟨3, 1⟩ ∧ n.id = "a" ∧ "zz" ∈ n.needs ∧
    ∀ m ∈ nodesOf exCfg.lower (jobsIn (parse exCfg exDang).1), m.id ≠ "zz" :=
  (rule_undefined_exact exCfg.lower _ ⟨3, 1⟩ "a" "zz").1 (by rw [ruleDang]; simp)
example : ((Rules.ruleJobNeeds exCfg.lower wCyc).filter (fun d => d.code = "needs-cyclic")).length ≤ 1 := rule_at_most_one _ _
/-- the cycle `a ⇄ b` of `exDang` is not reported next to the dangling `zz` -/
example : ∀ d' ∈ Rules.ruleJobNeeds exCfg.lower (parse exCfg exDang).1, d'.code ≠ "needs-cyclic" :=
  rule_undefined_no_cyclic _ _ ⟨⟨3, 1⟩, "job-needs", "needs-undefined", ["a", "zz"]⟩ (by rw [ruleDang]; simp) rfl

/- parsed workflows -/
example : (mapKVs (fun kv => ((kv.val.value, []) : R String)) [⟨"a", ⟨"A", false, ⟨1, 1⟩⟩, sc "x" 1 3⟩]).1.map (·.1) = ["a"] :=
  mapKVs_keys _ _
example : ((parseJobs exCfg (mp 3 1 [sc "A" 3 1, jobNode 3 [], sc "a" 4 1, jobNode 4 []])).1.map (·.1)).Nodup :=
  parseJobs_keys_nodup _ _
example : (parseJobs exCfg (mp 3 1 [sc "A" 3 1, jobNode 3 [], sc "a" 4 1, jobNode 4 []])).1.map (·.1) = ["a"] := by
  decide +kernel
example : ∀ jobs, (parse exCfg exDupId).1.jobs = some jobs → ∃ n, jobs = (parseJobs exCfg n).1 := parse_jobs _ _
example : ((Rules.jobsOf (parse exCfg exDupId).1).map fun j => exCfg.lower j.id.value).Nodup := parsed_job_ids_nodup _ _
example : ((jobsIn (parse exCfg exDupId).1).map fun j => exCfg.lower j.idValue).Nodup := parsed_jobsIn_nodup _ _
example : (([] : List RawNode).map (·.id) ++ ((jobsIn wCyc).map fun j => exCfg.lower j.idValue).filter (· ≠ "")).Nodup :=
  parsed_visit_hyp exCfg exCyc
example : nodesOf exCfg.lower (jobsIn wCyc) = ((jobsIn wCyc).filter fun j => exCfg.lower j.idValue ≠ "").map (mkNode exCfg.lower) :=
  parsed_nodes exCfg exCyc
example : ((nodesOf exCfg.lower (jobsIn wCyc)).map (·.id)).Nodup := parsed_nodes_ids_nodup exCfg exCyc
example : (nodesOf exCfg.lower (jobsIn wCyc)).map (·.id) = ["a", "b", "c"] := by decide +kernel
/-- hand-made job lists CAN make the rule report a repeated id … -/
example : check id [⟨"a", ⟨1, 1⟩, ⟨1, 1⟩, []⟩, ⟨"a", ⟨2, 1⟩, ⟨2, 1⟩, []⟩] [0, 1] = [.dupJob ⟨2, 1⟩ "a" ⟨1, 1⟩] := by
  simp [check, visitJobs, normNeeds, resolve, indexOf?, cycleDiag, detectFirstCycle, detectCyclicNode, visitList,
    Graph.succ, setStatus]
/-- … the parser's output cannot: `exDupId` has the jobs `A` and `a`, the rule sees only `A` -/
example : ∀ d ∈ Rules.ruleJobNeeds exCfg.lower (parse exCfg exDupId).1, d.code ≠ "job-id-duplicate" := parsed_no_dupJob _ _
example : (visitJobs id [⟨"a", ⟨1, 1⟩, ⟨1, 1⟩, []⟩, ⟨"", ⟨2, 1⟩, ⟨2, 1⟩, []⟩, ⟨"b", ⟨3, 1⟩, ⟨3, 1⟩, []⟩] []).1 =
    [] ++ ([⟨"a", ⟨1, 1⟩, ⟨1, 1⟩, []⟩, ⟨"", ⟨2, 1⟩, ⟨2, 1⟩, []⟩, ⟨"b", ⟨3, 1⟩, ⟨3, 1⟩, []⟩].filter fun j => id j.idValue ≠ "").map (mkNode id) :=
  (visitJobs_of_nodup id _ [] (by decide)).1
example : "b" ∈ (normNeeds exCfg.lower [⟨"B", ⟨1, 1⟩⟩, ⟨"", ⟨1, 3⟩⟩, ⟨"b", ⟨1, 5⟩⟩] []).1 :=
  (normNeeds_mem _ _ _ _).2 (Or.inr ⟨by decide, ⟨"B", ⟨1, 1⟩⟩, by simp, by decide +kernel⟩)
example : (∃ d ∈ Rules.ruleJobNeeds exCfg.lower (parse exCfg exCyc).1, d.code = "needs-cyclic") ↔
    (∀ d ∈ Rules.ruleJobNeeds exCfg.lower (parse exCfg exCyc).1, d.code ≠ "needs-undefined") ∧
    Cyclic (graphOf exCfg.lower (jobsIn (parse exCfg exCyc).1)) := parsed_cyclic_iff _ _
example (h : ¬ Cyclic (graphOf exCfg.lower (jobsIn (parse exCfg exDag).1))) :
    ∀ d ∈ Rules.ruleJobNeeds exCfg.lower (parse exCfg exDag).1, d.code ≠ "needs-cyclic" := parsed_acyclic_none _ _ h
example : ∃ d ∈ Rules.ruleJobNeeds exCfg.lower (parse exCfg exCyc).1, d.code = "needs-cyclic" :=
  parsed_cyclic_some exCfg exCyc (by show ∀ d ∈ Rules.ruleJobNeeds exCfg.lower wCyc, _; rw [ruleCyc]; simp) ⟨_, isCycle_gCyc⟩
example : ∃ vs, IsCycle gCyc vs ∧ ["a,b,a"] = [",".intercalate (vs.map (idOf gCyc))] ∧
    (⟨3, 1⟩ : Rules.Pos) = Rules.ofNP (posOf gCyc (vs.headD 0)) ∧
    ∀ v ∈ vs, ¬ (posOf gCyc v).isBefore (posOf gCyc (vs.headD 0)) :=
  parsed_printed_is_cycle exCfg exCyc ⟨⟨3, 1⟩, "job-needs", "needs-cyclic", ["a,b,a"]⟩
    (by show _ ∈ Rules.ruleJobNeeds exCfg.lower wCyc; rw [ruleCyc]; simp) rfl
example : ∃ j ∈ Rules.jobsOf (parse exCfg exDang).1, exCfg.lower j.id.value ≠ "" ∧ j.id.pos = ⟨3, 1⟩ ∧ exCfg.lower j.id.value = "a" ∧
    "zz" ≠ "" ∧ (∃ n ∈ j.needs.getD [], exCfg.lower n.value = "zz") ∧
    ∀ j' ∈ Rules.jobsOf (parse exCfg exDang).1, exCfg.lower j'.id.value ≠ "zz" :=
  (parsed_undefined_exact exCfg exDang ⟨3, 1⟩ "a" "zz").1 (by rw [ruleDang]; simp)
example : ((Rules.ruleJobNeeds exCfg.lower (parse exCfg exCyc).1).filter (fun d => d.code = "needs-cyclic")).length ≤ 1 :=
  parsed_at_most_one _ _

end Examples

end AL.C18P
