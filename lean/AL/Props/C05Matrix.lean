import AL.Model.Visit
/-
  C05 — "matrix sees exactly the row keys plus include keys … Where the defining section is given by an expression
  instead of a literal, references into it are not reported": the type `checkMatrix` computes for the `matrix` context in
  the model AL.Visit.
  Statements; proved theorems are added below by name.
-/
namespace AL.Props.C05Matrix
open AL AL.Sema AL.Visit

def propsOf : Ty → List (String × Ty)
  | .obj ps _ => ps
  | _ => []

def mappedOf : Ty → Option Ty
  | .obj _ m => m
  | _ => none

/-- include entries that are all literal mappings -/
def allAssigns : List ComboM → Prop
  | [] => True
  | .assigns _ :: cs => allAssigns cs
  | .expr _ :: _ => False

def comboKeys : ComboM → List String
  | .assigns as => as.map (·.1)
  | .expr _ => []

/-- (a) literal rows and literal include entries: `matrix` is a strict object … -/
def literal_matrix_strict_statement : Prop :=
  ∀ (ev : Visit.Ev) (rows : List (String × RowM)) (cs : List ComboM), allAssigns cs →
    mappedOf (matrixLitTy ev rows (.combos cs)) = none ∧ ∃ ps, matrixLitTy ev rows (.combos cs) = .obj ps none

/-- (b) … whose keys are exactly the row keys plus the keys of the include entries -/
def literal_matrix_keys_statement : Prop :=
  ∀ (ev : Visit.Ev) (rows : List (String × RowM)) (cs : List ComboM) (x : String), allAssigns cs →
    ((Ty.lookup x (propsOf (matrixLitTy ev rows (.combos cs)))).isSome = true ↔
      (x ∈ rows.map (·.1) ∨ ∃ c ∈ cs, x ∈ comboKeys c))

/-- (c) without include the keys are exactly the row keys -/
def rows_only_keys_statement : Prop :=
  ∀ (ev : Visit.Ev) (rows : List (String × RowM)) (x : String),
    (Ty.lookup x (propsOf (matrixLitTy ev rows .none))).isSome = true ↔ x ∈ rows.map (·.1)

/-- (d) `include: ${{ … }}` whose type is not a known array: every reference into `matrix` is accepted -/
def include_expression_open_statement : Prop :=
  ∀ (ev : Visit.Ev) (rows : List (String × RowM)) (e : E),
    (∀ el d, ev e ≠ some (Ty.arr el d)) → matrixLitTy ev rows (.expr e) = emptyLoose

/-- (e) `matrix: ${{ … }}` whose type is not a known object: likewise -/
def matrix_expression_open_statement : Prop :=
  ∀ (ev : Visit.Ev) (e : E), (∀ ps m, ev e ≠ some (Ty.obj ps m)) → matrixExprTy ev e = emptyLoose

/-- (f) an include element that is an expression of unknown type opens the matrix object (its known keys stay) -/
def include_element_any_opens_statement : Prop :=
  ∀ (ev : Visit.Ev) (ps : List (String × Ty)) (e : E), ev e = some Ty.any →
    includeCombo ev (Ty.obj ps none) (.expr e) = Ty.obj ps (some Ty.any)

end AL.Props.C05Matrix
