import AL.Model.Visit
import AL.Lemmas.VisitMatrix
import AL.Lemmas.TyWf
/-
  C05 — "matrix sees exactly the row keys plus include keys … Where the defining section is given by an expression
  instead of a literal, references into it are not reported": the type `checkMatrix` computes for the `matrix` context in
  the model AL.Visit.
  Statements; proved theorems are added below by name.
-/
namespace AL.Props.C05Matrix
open AL AL.Sema AL.Visit

def propsOf : Ty → List (String × Ty)
  | .obj ps _ => ps
  | _ => []

def mappedOf : Ty → Option Ty
  | .obj _ m => m
  | _ => none

/-- include entries that are all literal mappings -/
def allAssigns : List ComboM → Prop
  | [] => True
  | .assigns _ :: cs => allAssigns cs
  | .expr _ :: _ => False

def comboKeys : ComboM → List String
  | .assigns as => as.map (·.1)
  | .expr _ => []

/-- (a) literal rows and literal include entries: `matrix` is a strict object … -/
def literal_matrix_strict_statement : Prop :=
  ∀ (ev : Visit.Ev) (rows : List (String × RowM)) (cs : List ComboM), allAssigns cs →
    mappedOf (matrixLitTy ev rows (.combos cs)) = none ∧ ∃ ps, matrixLitTy ev rows (.combos cs) = .obj ps none

/-- (b) … whose keys are exactly the row keys plus the keys of the include entries -/
def literal_matrix_keys_statement : Prop :=
  ∀ (ev : Visit.Ev) (rows : List (String × RowM)) (cs : List ComboM) (x : String), allAssigns cs →
    ((Ty.lookup x (propsOf (matrixLitTy ev rows (.combos cs)))).isSome = true ↔
      (x ∈ rows.map (·.1) ∨ ∃ c ∈ cs, x ∈ comboKeys c))

/-- (c) without include the keys are exactly the row keys -/
def rows_only_keys_statement : Prop :=
  ∀ (ev : Visit.Ev) (rows : List (String × RowM)) (x : String),
    (Ty.lookup x (propsOf (matrixLitTy ev rows .none))).isSome = true ↔ x ∈ rows.map (·.1)

/-- (d) `include: ${{ … }}` whose type is not a known array: every reference into `matrix` is accepted -/
def include_expression_open_statement : Prop :=
  ∀ (ev : Visit.Ev) (rows : List (String × RowM)) (e : E),
    (∀ el d, ev e ≠ some (Ty.arr el d)) → matrixLitTy ev rows (.expr e) = emptyLoose

/-- (e) `matrix: ${{ … }}` whose type is not a known object: likewise -/
def matrix_expression_open_statement : Prop :=
  ∀ (ev : Visit.Ev) (e : E), (∀ ps m, ev e ≠ some (Ty.obj ps m)) → matrixExprTy ev e = emptyLoose

/-- (f) an include element that is an expression of unknown type opens the matrix object (its known keys stay) -/
def include_element_any_opens_statement : Prop :=
  ∀ (ev : Visit.Ev) (ps : List (String × Ty)) (e : E), ev e = some Ty.any →
    includeCombo ev (Ty.obj ps none) (.expr e) = Ty.obj ps (some Ty.any)

/-! ### proofs -/

theorem allAssigns_forall : ∀ (cs : List ComboM), allAssigns cs → ∀ c ∈ cs, ∃ as, c = ComboM.assigns as
  | [], _, c, hc => by cases hc
  | .assigns as :: cs, h, c, hc => by
    rcases List.mem_cons.1 hc with rfl | hc
    · exact ⟨as, rfl⟩
    · exact allAssigns_forall cs h c hc
  | .expr _ :: _, h, _, _ => h.elim

theorem comboKeys_iff (cs : List ComboM) (x : String) :
    (∃ as, ComboM.assigns as ∈ cs ∧ x ∈ as.map (·.1)) ↔ ∃ c ∈ cs, x ∈ comboKeys c := by
  constructor
  · rintro ⟨as, hm, hx⟩
    exact ⟨_, hm, hx⟩
  · rintro ⟨c, hm, hx⟩
    cases c with
    | assigns as => exact ⟨as, hm, hx⟩
    | expr e => simp [comboKeys] at hx

/-- the literal matrix with literal include entries, as an object: strict, keys = row keys + include keys -/
theorem literal_matrix_shape (ev : Visit.Ev) (rows : List (String × RowM)) (cs : List ComboM) (h : allAssigns cs) :
    ∃ ps, matrixLitTy ev rows (.combos cs) = .obj ps none ∧
      ∀ x, (Ty.lookup x ps).isSome = true ↔ (x ∈ rows.map (·.1) ∨ ∃ c ∈ cs, x ∈ comboKeys c) := by
  obtain ⟨ps, e, k⟩ := foldl_includeCombo_assigns ev cs (allAssigns_forall cs h)
    (rows.foldl (fun ps kr => Ty.setProp kr.1 (rowTy ev kr.2) ps) []) none
  refine ⟨ps, by rw [matrixLitTy_combos, e], fun x => ?_⟩
  rw [k x, lookup_rowsFold_isSome, lookup_nil_isSome, comboKeys_iff]
  simp

theorem literal_matrix_strict : literal_matrix_strict_statement := by
  intro ev rows cs h
  obtain ⟨ps, e, _⟩ := literal_matrix_shape ev rows cs h
  exact ⟨by rw [e]; rfl, ps, e⟩

theorem literal_matrix_keys : literal_matrix_keys_statement := by
  intro ev rows cs x h
  obtain ⟨ps, e, k⟩ := literal_matrix_shape ev rows cs h
  rw [e]
  exact k x

theorem rows_only_keys : rows_only_keys_statement := by
  intro ev rows x
  rw [matrixLitTy_none]
  show (Ty.lookup x (rows.foldl (fun ps kr => Ty.setProp kr.1 (rowTy ev kr.2) ps) [])).isSome = true ↔ _
  rw [lookup_rowsFold_isSome, lookup_nil_isSome]
  simp

theorem include_expression_open : include_expression_open_statement :=
  fun ev rows e h => matrixLitTy_expr_open ev rows e h

theorem matrix_expression_open : matrix_expression_open_statement :=
  fun ev e h => matrixExprTy_open ev e h

/-- `Ty.merge (.obj ps none) .any = .any` is not an object, so `includeCombo` takes the `loosen` branch: the known keys
stay, `mapped` becomes `any`. True as stated. -/
theorem include_element_any_opens : include_element_any_opens_statement :=
  fun ev ps e h => includeCombo_expr_any ev ps none e h

/-! ### the statements on concrete data: rows `os`, `ver`; include entries assigning `os` and `extra` -/

def exRows : List (String × RowM) :=
  [("os", .values [.string, .string]), ("ver", .values [.number, .string])]
def exCombos : List ComboM :=
  [.assigns [("os", .string), ("extra", .bool)], .assigns [("extra", .expr (.str "x"))]]

/-- strict object with exactly the keys `extra`, `os`, `ver` (key-sorted) -/
example : matrixLitTy (fun _ => none) exRows (.combos exCombos) =
    .obj [("extra", .any), ("os", .string), ("ver", .string)] none := by
  simp [matrixLitTy, exRows, exCombos, includeCombo, rowTy, rawTy, rawTyFold, Ty.setProp, Ty.lookup]
  ty_eval

example : allAssigns exCombos ∧ (∃ c ∈ exCombos, "extra" ∈ comboKeys c) ∧ ¬ (∃ c ∈ exCombos, "nope" ∈ comboKeys c) := by
  simp [allAssigns, exCombos, comboKeys]

/-- an include element of type `any` after the literal ones: the three keys stay, the object is open -/
example : matrixLitTy (fun _ => some Ty.any) exRows (.combos (exCombos ++ [.expr (.str "y")])) =
    .obj [("extra", .any), ("os", .string), ("ver", .string)] (some .any) := by
  simp [matrixLitTy, exRows, exCombos, includeCombo, rowTy, rawTy, rawTyFold, Ty.setProp, Ty.lookup]
  ty_eval
  rfl

end AL.Props.C05Matrix
