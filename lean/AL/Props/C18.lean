import AL.Model.Needs
import AL.Spec.Digraph
import AL.Lemmas.NeedsBasic
/-
  C18 — job dependency checks are exact for every needs graph.
  Statements. Proved theorems are added below by name; statements that are not yet proved stay
  visible as `def …_statement : Prop`.
-/
namespace AL.C18
open AL.Needs AL.Spec

/-- Every iteration order that visits all nodes. -/
def Covers (g : Graph) (order : List Nat) : Prop := ∀ v, v < g.length → v ∈ order

/-- (a) acyclic graphs get no cyclic-dependency diagnostic, whatever the map order. -/
def acyclic_none_statement : Prop :=
  ∀ (g : Graph) (order : List Nat), WF g → ¬ Cyclic g → cycleDiag g order = none

/-- (b) a graph with a cycle (self loop included) gets one, whatever the map order. -/
def cyclic_some_statement : Prop :=
  ∀ (g : Graph) (order : List Nat), WF g → Covers g order → Cyclic g → (cycleDiag g order).isSome

/-- (c) the printed cycle is a real cycle of the graph, reported at the position of its first job. -/
def printed_is_cycle_statement : Prop :=
  ∀ (g : Graph) (order : List Nat) (d : CycleDiag), WF g → cycleDiag g order = some d →
    ∃ vs, IsCycle g vs ∧ d.path = vs.map (idOf g) ∧ d.pos = posOf g (vs.headD 0) ∧
      ∀ v ∈ vs, ¬ (posOf g v).isBefore d.pos

/-- (d) the DFS answer never depends on the fuel: with `g.length` units no activation runs dry. -/
def fuel_irrelevant_statement : Prop :=
  ∀ (g : Graph) (st : List Status) (v : Nat) (f : Nat), WF g → st.length = g.length → st[v]? = some .new →
    g.length ≤ f → detectCyclicNode g f st v = detectCyclicNode g g.length st v

/-- (e) dangling references: exactly the (job, dependency) pairs whose dependency is not a job id. -/
def undefined_exact_statement : Prop :=
  ∀ (nodes : List RawNode) (p : P) (i d : String),
    Diag.undefined p i d ∈ (resolve nodes).2 ↔ ∃ n ∈ nodes, n.pos = p ∧ n.id = i ∧ d ∈ n.needs ∧ ∀ m ∈ nodes, m.id ≠ d

/-- (f) at most one cyclic-dependency diagnostic, and none when a reference dangles. -/
def at_most_one_statement : Prop :=
  ∀ (lower : String → String) (jobs : List JobIn) (order : List Nat),
    ((check lower jobs order).filter (fun d => match d with | .cyclic _ => true | _ => false)).length ≤ 1

/-! ## Proofs -/

/-- (f) -/
theorem at_most_one : at_most_one_statement := by
  intro lower jobs order
  have hfun : (fun d : Diag => match d with | .cyclic _ => true | _ => false) = Diag.isCyclic := by
    funext d; cases d <;> rfl
  rw [hfun]
  unfold check
  have h0 := filter_isCyclic_eq_nil (visitJobs_no_cyclic lower jobs [])
  have h1 := filter_isCyclic_eq_nil (resolve_no_cyclic (visitJobs lower jobs []).1)
  simp only []
  split
  · simp [List.filter_append, h0, h1]
  · split
    · simp [List.filter_append, h0, List.filter_cons]
      split <;> simp
    · simp [h0]

/-- (e) -/
theorem undefined_exact : undefined_exact_statement := by
  intro nodes p i d
  simp only [resolve, List.mem_flatMap, List.mem_map, List.mem_filter]
  constructor
  · rintro ⟨n, hn, dep, ⟨hdep, hnone⟩, heq⟩
    cases heq
    exact ⟨n, hn, rfl, rfl, hdep, (indexOf?_isNone nodes _).1 hnone⟩
  · rintro ⟨n, hn, rfl, rfl, hd, hall⟩
    exact ⟨n, hn, d, ⟨hd, (indexOf?_isNone nodes d).2 hall⟩, rfl⟩

/-- (d) -/
theorem fuel_irrelevant : fuel_irrelevant_statement := by
  intro g st v f _ hlen _ hf
  unfold detectCyclicNode
  have : countNew (setStatus st v .active) ≤ g.length := by
    have := countNew_le_length (setStatus st v .active)
    simpa [setStatus, hlen] using this
  exact visitList_fuel_irrel g f g.length _ v _ (by omega) this

end AL.C18
