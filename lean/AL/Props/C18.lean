import AL.Model.Needs
import AL.Spec.Digraph
import AL.Lemmas.NeedsBasic
import AL.Lemmas.NeedsPrint
/-
  C18 — job dependency checks are exact for every needs graph.
  Statements. Proved theorems are added below by name; statements that are not yet proved stay
  visible as `def …_statement : Prop`.
-/
namespace AL.C18
open AL.Needs AL.Spec

/-- Every iteration order that visits all nodes. -/
def Covers (g : Graph) (order : List Nat) : Prop := ∀ v, v < g.length → v ∈ order

/-- (a) acyclic graphs get no cyclic-dependency diagnostic, whatever the map order. -/
def acyclic_none_statement : Prop :=
  ∀ (g : Graph) (order : List Nat), WF g → ¬ Cyclic g → cycleDiag g order = none

/-- (b) a graph with a cycle (self loop included) gets one, whatever the map order. -/
def cyclic_some_statement : Prop :=
  ∀ (g : Graph) (order : List Nat), WF g → Covers g order → Cyclic g → (cycleDiag g order).isSome

/-- (c) the printed cycle is a real cycle of the graph, reported at the position of its first job. -/
def printed_is_cycle_statement : Prop :=
  ∀ (g : Graph) (order : List Nat) (d : CycleDiag), WF g → cycleDiag g order = some d →
    ∃ vs, IsCycle g vs ∧ d.path = vs.map (idOf g) ∧ d.pos = posOf g (vs.headD 0) ∧
      ∀ v ∈ vs, ¬ (posOf g v).isBefore d.pos

/-- (d) the DFS answer never depends on the fuel: with `g.length` units no activation runs dry. -/
def fuel_irrelevant_statement : Prop :=
  ∀ (g : Graph) (st : List Status) (v : Nat) (f : Nat), WF g → st.length = g.length → st[v]? = some .new →
    g.length ≤ f → detectCyclicNode g f st v = detectCyclicNode g g.length st v

/-- (e) dangling references: exactly the (job, dependency) pairs whose dependency is not a job id. -/
def undefined_exact_statement : Prop :=
  ∀ (nodes : List RawNode) (p : P) (i d : String),
    Diag.undefined p i d ∈ (resolve nodes).2 ↔ ∃ n ∈ nodes, n.pos = p ∧ n.id = i ∧ d ∈ n.needs ∧ ∀ m ∈ nodes, m.id ≠ d

/-- (f) at most one cyclic-dependency diagnostic, and none when a reference dangles. -/
def at_most_one_statement : Prop :=
  ∀ (lower : String → String) (jobs : List JobIn) (order : List Nat),
    ((check lower jobs order).filter (fun d => match d with | .cyclic _ => true | _ => false)).length ≤ 1

/-! ## Concrete instances used in the `example`s

Three small graphs show that the hypotheses of the theorems are satisfiable and what the functions
return on them. -/

/-- `a → b`, `b → c`, `c → b`: a 2-cycle `b ⇄ c` with the tail `a` (which is declared last). -/
def gTail : Graph :=
  [ { id := "a", pos := ⟨3, 1⟩, resolved := [1] },
    { id := "b", pos := ⟨1, 1⟩, resolved := [2] },
    { id := "c", pos := ⟨2, 1⟩, resolved := [1] } ]

/-- `a → b`, `b → b`: a self loop behind a tail. -/
def gSelf : Graph :=
  [ { id := "a", pos := ⟨1, 1⟩, resolved := [1] },
    { id := "b", pos := ⟨2, 1⟩, resolved := [1] } ]

/-- `a → b, c`, `b → c`: a DAG with a shortcut edge. -/
def gDag : Graph :=
  [ { id := "a", pos := ⟨1, 1⟩, resolved := [1, 2] },
    { id := "b", pos := ⟨2, 1⟩, resolved := [2] },
    { id := "c", pos := ⟨3, 1⟩, resolved := [] } ]

theorem wf_gTail : WF gTail := wf_of_wfCheck (by decide)
theorem wf_gSelf : WF gSelf := wf_of_wfCheck (by decide)
theorem wf_gDag : WF gDag := wf_of_wfCheck (by decide)

theorem covers3 (g : Graph) (h : g.length = 3) (order : List Nat) (h0 : 0 ∈ order) (h1 : 1 ∈ order)
    (h2 : 2 ∈ order) : Covers g order := by
  intro v hv
  have : v = 0 ∨ v = 1 ∨ v = 2 := by omega
  rcases this with rfl | rfl | rfl <;> assumption

theorem isCycle_gTail : IsCycle gTail [1, 2, 1] :=
  ⟨.cons 1 2 [1] (by decide) (by simp [Graph.succ, gTail])
      (.cons 2 1 [] (by decide) (by simp [Graph.succ, gTail]) (.single 1 (by decide))), by decide, rfl⟩

theorem isCycle_gSelf : IsCycle gSelf [1, 1] :=
  ⟨.cons 1 1 [] (by decide) (by simp [Graph.succ, gSelf]) (.single 1 (by decide)), by decide, rfl⟩

/-- Evaluation of the model functions (defined by well-founded recursion, so `decide`/`rfl` do not
reduce them) on literals, by rewriting with their equations. -/
macro "needs_eval" : tactic =>
  `(tactic| simp [cycleDiag, gTail, gSelf, gDag, detectFirstCycle, detectCyclicNode, visitList, collectCycle,
      collectList, Graph.succ, setStatus, Edges.put, Edges.get?, pickStart, posOf, idOf, P.isBefore, printLoop])

/-! ## Proofs -/

/-- (f) -/
theorem at_most_one : at_most_one_statement := by
  intro lower jobs order
  have hfun : (fun d : Diag => match d with | .cyclic _ => true | _ => false) = Diag.isCyclic := by
    funext d; cases d <;> rfl
  rw [hfun]
  unfold check
  have h0 := filter_isCyclic_eq_nil (visitJobs_no_cyclic lower jobs [])
  have h1 := filter_isCyclic_eq_nil (resolve_no_cyclic (visitJobs lower jobs []).1)
  simp only []
  split
  · simp [List.filter_append, h0, h1]
  · split
    · simp [List.filter_append, h0, List.filter_cons]
      split <;> simp
    · simp [h0]

/-- (f) on a workflow `a needs b`, `b needs a`: exactly one cyclic diagnostic; and with an additional
dangling reference `b needs zz` no cyclic diagnostic at all. -/
example :
    check id [⟨"a", ⟨1, 1⟩, ⟨1, 1⟩, [⟨"b", ⟨2, 5⟩⟩]⟩, ⟨"b", ⟨3, 1⟩, ⟨3, 1⟩, [⟨"a", ⟨4, 5⟩⟩]⟩] [0, 1]
      = [.cyclic { pos := ⟨1, 1⟩, path := ["a", "b", "a"] }] ∧
    check id [⟨"a", ⟨1, 1⟩, ⟨1, 1⟩, [⟨"b", ⟨2, 5⟩⟩]⟩, ⟨"b", ⟨3, 1⟩, ⟨3, 1⟩, [⟨"a", ⟨4, 5⟩⟩, ⟨"zz", ⟨4, 8⟩⟩]⟩] [0, 1]
      = [.undefined ⟨3, 1⟩ "b" "zz"] := by
  constructor <;>
  simp [check, visitJobs, normNeeds, resolve, indexOf?, List.findIdx_cons, cycleDiag, detectFirstCycle,
    detectCyclicNode, visitList, collectCycle, collectList, Graph.succ, setStatus, Edges.put, Edges.get?,
    pickStart, posOf, idOf, P.isBefore, printLoop]

/-- (e) -/
theorem undefined_exact : undefined_exact_statement := by
  intro nodes p i d
  simp only [resolve, List.mem_flatMap, List.mem_map, List.mem_filter]
  constructor
  · rintro ⟨n, hn, dep, ⟨hdep, hnone⟩, heq⟩
    cases heq
    exact ⟨n, hn, rfl, rfl, hdep, (indexOf?_isNone nodes _).1 hnone⟩
  · rintro ⟨n, hn, rfl, rfl, hd, hall⟩
    exact ⟨n, hn, d, ⟨hd, (indexOf?_isNone nodes d).2 hall⟩, rfl⟩

/-- (e) on `a needs [b, x]`, `b needs []`: exactly `x` dangles. -/
example :
    (resolve [⟨"a", ⟨1, 1⟩, ["b", "x"]⟩, ⟨"b", ⟨2, 1⟩, []⟩]).2 = [.undefined ⟨1, 1⟩ "a" "x"] := by
  simp [resolve, indexOf?, List.findIdx_cons]

/-- (d) -/
theorem fuel_irrelevant : fuel_irrelevant_statement := by
  intro g st v f _ hlen _ hf
  unfold detectCyclicNode
  have : countNew (setStatus st v .active) ≤ g.length := by
    have := countNew_le_length (setStatus st v .active)
    simpa [setStatus, hlen] using this
  exact visitList_fuel_irrel g f g.length _ v _ (by omega) this

/-- (d) on the 2-cycle with tail, all nodes new, root `a`: hypotheses hold, and the DFS finds the back
edge `c → b` with all three nodes on the stack, for fuel 3 and for fuel 7. -/
example : WF gTail ∧ [Status.new, .new, .new].length = gTail.length ∧
    [Status.new, .new, .new][0]? = some .new ∧ gTail.length ≤ 7 ∧
    detectCyclicNode gTail 7 [.new, .new, .new] 0 = (some (2, 1), [.active, .active, .active]) ∧
    detectCyclicNode gTail gTail.length [.new, .new, .new] 0 = (some (2, 1), [.active, .active, .active]) := by
  refine ⟨wf_gTail, rfl, rfl, by decide, ?_, ?_⟩ <;>
  simp [detectCyclicNode, visitList, gTail, Graph.succ, setStatus]

/-- Common core of (a), (b), (c): what `cycleDiag` returns, by the result of the root loop. -/
theorem cycleDiag_cases (g : Graph) (order : List Nat) (hwf : WF g) :
    (cycleDiag g order = none ∧ ∃ st, detectFirstCycle g order (g.map fun _ => Status.new) = (none, st)) ∨
    ∃ vs, IsCycle g vs ∧
      cycleDiag g order = some { pos := posOf g (vs.headD 0), path := vs.map (idOf g) } ∧
      ∀ v ∈ vs, (posOf g v).isBefore (posOf g (vs.headD 0)) = false := by
  rcases hres : detectFirstCycle g order (g.map fun _ => Status.new) with ⟨r, st⟩
  cases r with
  | none => exact Or.inl ⟨cycleDiag_of_none hres, st, rfl⟩
  | some e =>
    obtain ⟨a, b⟩ := e
    exact Or.inr (cycleDiag_of_found hres (detectFirstCycle_some hwf order (topInv_init g) hres))

/-- (c) -/
theorem printed_is_cycle : printed_is_cycle_statement := by
  intro g order d hwf hd
  rcases cycleDiag_cases g order hwf with ⟨hnone, _⟩ | ⟨vs, hcyc, hsome, hmin⟩
  · rw [hnone] at hd; cases hd
  · rw [hsome] at hd
    cases hd
    exact ⟨vs, hcyc, rfl, rfl, fun v hv => by rw [hmin v hv]; exact Bool.false_ne_true⟩

/-- (c) on the 2-cycle with tail: the witness is `b → c → b`, reported at `b` (the earliest position
on the cycle; the tail `a` is not mentioned). -/
example : cycleDiag gTail [0, 1, 2] = some { pos := ⟨1, 1⟩, path := ["b", "c", "b"] } ∧
    IsCycle gTail [1, 2, 1] ∧ ["b", "c", "b"] = [1, 2, 1].map (idOf gTail) ∧
    (⟨1, 1⟩ : P) = posOf gTail ([1, 2, 1].headD 0) ∧
    ∀ v ∈ [1, 2, 1], ¬ (posOf gTail v).isBefore ⟨1, 1⟩ := by
  refine ⟨by needs_eval, isCycle_gTail, by simp [idOf, gTail], by simp [posOf, gTail], ?_⟩
  simp [posOf, gTail, P.isBefore]

/-- (c) on the self loop: the printed cycle is `b → b`. -/
example : cycleDiag gSelf [0, 1] = some { pos := ⟨2, 1⟩, path := ["b", "b"] } ∧ IsCycle gSelf [1, 1] :=
  ⟨by needs_eval, isCycle_gSelf⟩

/-- (a) -/
theorem acyclic_none : acyclic_none_statement := by
  intro g order hwf hac
  rcases cycleDiag_cases g order hwf with ⟨hnone, _⟩ | ⟨vs, hcyc, _, _⟩
  · exact hnone
  · exact absurd ⟨vs, hcyc⟩ hac

/-- (b) -/
theorem cyclic_some : cyclic_some_statement := by
  intro g order hwf hcov hcyc
  rcases cycleDiag_cases g order hwf with ⟨_, st, hnone⟩ | ⟨vs, _, hsome, _⟩
  · obtain ⟨a, b, st', hsome⟩ := detectFirstCycle_of_cyclic hwf hcov hcyc
    rw [hnone] at hsome
    cases hsome
  · rw [hsome]; rfl

/-- (b) on the 2-cycle with tail: two different map orders, same diagnostic. -/
example : WF gTail ∧ Covers gTail [0, 1, 2] ∧ Cyclic gTail ∧
    cycleDiag gTail [0, 1, 2] = some { pos := ⟨1, 1⟩, path := ["b", "c", "b"] } ∧
    cycleDiag gTail [2, 1, 0] = some { pos := ⟨1, 1⟩, path := ["b", "c", "b"] } :=
  ⟨wf_gTail, covers3 _ rfl _ (by simp) (by simp) (by simp), ⟨_, isCycle_gTail⟩, by needs_eval, by needs_eval⟩

/-- (b) on the self loop. -/
example : WF gSelf ∧ Covers gSelf [1, 0] ∧ Cyclic gSelf ∧
    cycleDiag gSelf [1, 0] = some { pos := ⟨2, 1⟩, path := ["b", "b"] } := by
  refine ⟨wf_gSelf, ?_, ⟨_, isCycle_gSelf⟩, by needs_eval⟩
  intro v hv
  have : v = 0 ∨ v = 1 := by simp [gSelf] at hv; omega
  rcases this with rfl | rfl <;> simp

/-- (b) really needs `Covers`: an order that misses the cycle reports nothing. -/
example : Cyclic gSelf ∧ cycleDiag gSelf [] = none := ⟨⟨_, isCycle_gSelf⟩, by needs_eval⟩

theorem cycleDiag_gDag : cycleDiag gDag [2, 0, 1] = none := by needs_eval

/-- The DAG is acyclic: by (b), a cycle would force a diagnostic. -/
theorem acyclic_gDag : ¬ Cyclic gDag := by
  intro h
  have := cyclic_some gDag [2, 0, 1] wf_gDag (covers3 _ rfl _ (by simp) (by simp) (by simp)) h
  rw [cycleDiag_gDag] at this
  cases this

/-- (a) on the DAG: the hypotheses hold and nothing is reported, also for a partial or repetitive
order. -/
example : WF gDag ∧ ¬ Cyclic gDag ∧ cycleDiag gDag [2, 0, 1] = none ∧ cycleDiag gDag [1, 1, 7] = none :=
  ⟨wf_gDag, acyclic_gDag, acyclic_none gDag _ wf_gDag acyclic_gDag, acyclic_none gDag _ wf_gDag acyclic_gDag⟩

end AL.C18
