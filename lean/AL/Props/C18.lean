import AL.Model.Needs
import AL.Spec.Digraph
/-
  C18 — job dependency checks are exact for every needs graph.
  Statements. Proved theorems are added below by name; statements that are not yet proved stay
  visible as `def …_statement : Prop`.
-/
namespace AL.C18
open AL.Needs AL.Spec

/-- Every iteration order that visits all nodes. -/
def Covers (g : Graph) (order : List Nat) : Prop := ∀ v, v < g.length → v ∈ order

/-- (a) acyclic graphs get no cyclic-dependency diagnostic, whatever the map order. -/
def acyclic_none_statement : Prop :=
  ∀ (g : Graph) (order : List Nat), WF g → ¬ Cyclic g → cycleDiag g order = none

/-- (b) a graph with a cycle (self loop included) gets one, whatever the map order. -/
def cyclic_some_statement : Prop :=
  ∀ (g : Graph) (order : List Nat), WF g → Covers g order → Cyclic g → (cycleDiag g order).isSome

/-- (c) the printed cycle is a real cycle of the graph, reported at the position of its first job. -/
def printed_is_cycle_statement : Prop :=
  ∀ (g : Graph) (order : List Nat) (d : CycleDiag), WF g → cycleDiag g order = some d →
    ∃ vs, IsCycle g vs ∧ d.path = vs.map (idOf g) ∧ d.pos = posOf g (vs.headD 0) ∧
      ∀ v ∈ vs, ¬ (posOf g v).isBefore d.pos

/-- (d) the DFS answer never depends on the fuel: with `g.length` units no activation runs dry. -/
def fuel_irrelevant_statement : Prop :=
  ∀ (g : Graph) (st : List Status) (v : Nat) (f : Nat), WF g → st.length = g.length → st[v]? = some .new →
    g.length ≤ f → detectCyclicNode g f st v = detectCyclicNode g g.length st v

/-- (e) dangling references: exactly the (job, dependency) pairs whose dependency is not a job id. -/
def undefined_exact_statement : Prop :=
  ∀ (nodes : List RawNode) (p : P) (i d : String),
    Diag.undefined p i d ∈ (resolve nodes).2 ↔ ∃ n ∈ nodes, n.pos = p ∧ n.id = i ∧ d ∈ n.needs ∧ ∀ m ∈ nodes, m.id ≠ d

/-- (f) at most one cyclic-dependency diagnostic, and none when a reference dangles. -/
def at_most_one_statement : Prop :=
  ∀ (lower : String → String) (jobs : List JobIn) (order : List Nat),
    ((check lower jobs order).filter (fun d => match d with | .cyclic _ => true | _ => false)).length ≤ 1

end AL.C18
