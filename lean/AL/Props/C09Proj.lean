import AL.Props.C10Once
/-
  C09 inside a project: when every local workflow a job calls or needs can be read (and no `./` spec is badly formatted), the
  cache of interfaces carries nothing from one job to the next that a look-up could notice — each job gets exactly the
  diagnostics and the view it gets as the only job visited. (When a callee cannot be read, its defect is reported once, at
  the first job that asks: AL.Props.C10Once — that is the one thing the cache is there to carry.)
-/
namespace AL.C09P
open AL AL.Ast AL.CallMeta AL.ProjCall AL.C10O

/-- every spec a look-up would actually read is readable -/
def AllReadable (env : ProjCall.Env) : Prop := ∀ spec, skipped env spec = false → ∃ m, env.disk spec = .ok m

theorem Same.trans {env : ProjCall.Env} {a b c : Cache} (h1 : Same env a b) (h2 : Same env b c) : Same env a c :=
  fun s => (h1 s).trans (h2 s)

theorem Same.symm {env : ProjCall.Env} {a b : Cache} (h : Same env a b) : Same env b a := fun s => (h s).symm

theorem Same.refl (env : ProjCall.Env) (a : Cache) : Same env a a := fun _ => rfl

/-- remembering a readable callee changes no answer -/
theorem remember_same (env : ProjCall.Env) (hok : AllReadable env) (c : Cache) (s : String) : Same env (remember env c s) c := by
  intro spec
  simp only [answer, cacheGet_remember]
  by_cases hg2 : skipped env spec = true
  · simp [hg2]
  · simp only [hg2, Bool.false_eq_true, if_false]
    by_cases hg : skipped env s = true
    · simp [hg]
    · simp only [hg, Bool.false_eq_true, if_false]
      by_cases e : spec = s
      · subst e
        simp only [if_true]
        cases hk : cacheGet c spec with
        | some v => rfl
        | none =>
          obtain ⟨m, hm⟩ := hok spec (by simpa using hg)
          simp [diskEntry, diskAnswer, hm]
      · simp [e]

/-- no job's `uses:` is a `./` spec in a bad format (the one case in which the rule writes a nil into the cache itself) -/
def NoBadLocalSpec (j : Job) : Prop :=
  ∀ call u, j.workflowCall = some call → call.uses = some u →
    (u.value = "" || AL.Rules.containsExpr u) = true ∨ AL.Rules.isLocalCallFormat u.value = true ∨
    AL.Rules.isRepoCallFormat u.value = true ∨ u.value.startsWith "./" = false

theorem wcJob_keeps (env : ProjCall.Env) (hok : AllReadable env) (c : Cache) (j : Job) (hj : NoBadLocalSpec j) :
    Same env (wcJob env c j).1 c := by
  simp only [wcJob]
  split
  · exact Same.refl env c
  · split
    · exact Same.refl env c
    · rename_i _ call hcall _ u hu
      simp only [wcUses]
      by_cases h1 : (u.value = "" || AL.Rules.containsExpr u) = true
      · simp only [h1, if_true]; exact Same.refl env c
      · simp only [h1, Bool.false_eq_true, if_false]
        by_cases h2 : AL.Rules.isLocalCallFormat u.value = true
        · simp only [h2, if_true, find]; exact remember_same env hok c u.value
        · simp only [h2, Bool.false_eq_true, if_false]
          by_cases h3 : AL.Rules.isRepoCallFormat u.value = true
          · simp only [h3, if_true]; exact Same.refl env c
          · simp only [h3, Bool.false_eq_true, if_false]
            rcases hj call u hcall hu with h | h | h | h
            · exact absurd h h1
            · exact absurd h h2
            · exact absurd h h3
            · simp only [h, Bool.false_eq_true, if_false]; exact Same.refl env c

theorem callLookup_keeps (env : ProjCall.Env) (hok : AllReadable env) (c : Cache) (j : Job) :
    Same env (callLookup env j c).cache c := by
  simp only [callLookup]
  split
  · exact Same.refl env c
  · split
    · exact Same.refl env c
    · simp only [find]; exact remember_same env hok c _

theorem needsStep_keeps (env : ProjCall.Env) (hok : AllReadable env) (lower : String → String) (jobs : List (String × Job)) (job : Job)
    (acc : NeedsOut × List String) (id : Str) :
    Same env (needsStep env lower jobs job acc id).1.cache acc.1.cache := by
  simp only [needsStep]
  split
  · exact Same.refl env _
  · split
    · exact Same.refl env _
    · split
      · exact Same.refl env _
      · split
        · exact Same.refl env _
        · split
          · exact Same.refl env _
          · simp only [find]; exact remember_same env hok _ _

theorem needsLookups_keeps (env : ProjCall.Env) (hok : AllReadable env) (lower : String → String) (jobs : List (String × Job)) (job : Job)
    (c : Cache) : Same env (needsLookups env lower jobs job c).cache c := by
  simp only [needsLookups]
  have : ∀ (ids : List Str) (acc : NeedsOut × List String),
      Same env (ids.foldl (needsStep env lower jobs job) acc).1.cache acc.1.cache := by
    intro ids
    induction ids with
    | nil => intro acc; exact Same.refl env _
    | cons id rest ih =>
      intro acc
      simp only [List.foldl_cons]
      exact Same.trans (ih _) (needsStep_keeps env hok lower jobs job acc id)
  exact this _ _

/-- what a job gets when it is the only job visited (the list `jobs` is still there to look the needed jobs up) -/
def alone (env : ProjCall.Env) (lower : String → String) (jobs : List (String × Job)) (j : Job) :
    String × List AL.Rules.Diag × List AL.RuleExpr.Diag × List (String × AL.Ty) × Option (List (String × (String × AL.Ty))) :=
  let e := simulateJobs env lower jobs [("", j)] []
  match e with
  | [x] => (x.1, x.2.wc, x.2.exprErrs, x.2.outs, x.2.inputs)
  | _ => ("", [], [], [], none)

/-- **no state leaks between jobs through the cache of interfaces** when every callee is readable -/
theorem jobs_independent (env : ProjCall.Env) (hok : AllReadable env) (lower : String → String) (jobs : List (String × Job)) :
    ∀ (l : List (String × Job)) (c : Cache), (∀ e ∈ l, NoBadLocalSpec e.2) → Same env c [] →
      (simulateJobs env lower jobs l c).map (fun e => (e.1, e.2.wc, e.2.exprErrs, e.2.outs, e.2.inputs)) =
      l.map (fun e => alone env lower jobs e.2) := by
  intro l
  induction l with
  | nil => intro c _ _; rfl
  | cons e rest ih =>
    intro c hl hc
    obtain ⟨k, j⟩ := e
    have hj : NoBadLocalSpec j := hl (k, j) (by simp)
    -- the head: the same as from the empty cache
    have hhead := simulateJobs_same env lower jobs [(k, j)] c [] hc
    -- the cache after the head answers like the empty one
    have hafter : Same env (callLookup env j (needsLookups env lower jobs j (wcJob env c j).1).cache).cache [] :=
      Same.trans (callLookup_keeps env hok _ j)
        (Same.trans (needsLookups_keeps env hok lower jobs j _) (Same.trans (wcJob_keeps env hok c j hj) hc))
    have hrest := ih _ (fun e he => hl e (List.mem_cons_of_mem _ he)) hafter
    simp only [simulateJobs, List.map_cons, List.map_nil] at hhead ⊢
    rw [hrest]
    simp only [alone, simulateJobs]
    simp only [List.cons.injEq, and_true] at hhead
    rw [hhead]

end AL.C09P
