import AL.Model.Positions
import AL.Lemmas.ExprScan
/-
  C03 (inside one string) — `checkExprsIn` (model: AL.Positions.exprOffsets) hands every placeholder of a string to the
  checker: the first `${{` is always reached, after a placeholder that checked cleanly the scan resumes right behind it,
  and a string with a single `${{` — the situation of the property: one scalar replaced by one malformed placeholder —
  always yields exactly that one expression, whatever the lexer consumes.
  `consume rest` = bytes the lexer consumed of the text after `${{` (0 = an error was reported, the loop stops).
  Statements; proved theorems are added below by name.
-/
namespace AL.Props.C03Scan
open AL.Positions AL.Proc

/-- (a) a string that contains `${{` has its first occurrence handed to the checker first -/
def first_found_statement : Prop :=
  ∀ (consume : List Nat → Nat) (s : List Nat) (off k : Nat), indexOf open3 s 0 = some k →
    (exprOffsets consume s.length s off).head? = some (off + k + 3)

/-- (b) a string without `${{` yields nothing -/
def none_found_statement : Prop :=
  ∀ (consume : List Nat → Nat) (s : List Nat) (off : Nat), indexOf open3 s 0 = none →
    exprOffsets consume s.length s off = []

/-- (c) the fuel `len(s)` handed in by the caller is never the reason the scan stops: more fuel changes nothing -/
def fuel_irrelevant_statement : Prop :=
  ∀ (consume : List Nat → Nat) (s : List Nat) (off fuel : Nat), s.length ≤ fuel →
    exprOffsets consume fuel s off = exprOffsets consume s.length s off

/-- (d) after a placeholder that was checked without error the scan resumes right behind what the lexer consumed -/
def resumes_statement : Prop :=
  ∀ (consume : List Nat → Nat) (s : List Nat) (off k : Nat), indexOf open3 s 0 = some k →
    consume (s.drop (k + 3)) ≠ 0 →
    exprOffsets consume s.length s off =
      (off + k + 3) :: exprOffsets consume ((s.drop (k + 3)).drop (consume (s.drop (k + 3)))).length
        ((s.drop (k + 3)).drop (consume (s.drop (k + 3)))) (off + k + 3 + consume (s.drop (k + 3)))

/-- (e) the lexer reported an error: the scan stops after that placeholder (the diagnostic exists) -/
def stops_at_error_statement : Prop :=
  ∀ (consume : List Nat → Nat) (s : List Nat) (off k : Nat), indexOf open3 s 0 = some k →
    consume (s.drop (k + 3)) = 0 →
    exprOffsets consume s.length s off = [off + k + 3]

/-- (f) the situation of the property: exactly one `${{` in the string. It is handed to the checker exactly once,
whatever the lexer does with it (well-formed, malformed, unterminated). -/
def single_placeholder_statement : Prop :=
  ∀ (consume : List Nat → Nat) (s : List Nat) (off k : Nat), indexOf open3 s 0 = some k →
    indexOf open3 (s.drop (k + 3)) 0 = none →
    exprOffsets consume s.length s off = [off + k + 3]

/-! ### Proofs (helper lemmas: AL/Lemmas/ExprScan.lean, AL/Lemmas/Positions.lean)

All six statements hold as stated, for every `consume`. The fuel edge cases are harmless: a hit of `${{` at `k`
gives `k + 3 ≤ s.length`, so the caller's fuel is positive and what is left after a placeholder is at least three
bytes shorter than `s` — also when `consume` returns more than what is left (`List.drop` then yields `[]`) —
while the fuel decreases by one per step. -/

theorem first_found : first_found_statement := by
  intro consume s off k h
  rw [exprOffsets_len_some consume s off k h]
  split <;> simp only [List.head?_cons, Option.some.injEq] <;> omega

theorem none_found : none_found_statement :=
  fun consume s off h => exprOffsets_none consume s.length s off h

theorem fuel_irrelevant : fuel_irrelevant_statement :=
  fun consume s off fuel h => exprOffsets_fuel consume fuel s.length s off h (Nat.le_refl _)

theorem resumes : resumes_statement := by
  intro consume s off k h hc
  rw [exprOffsets_len_some consume s off k h, if_neg hc]
  simp only [Nat.add_assoc]

theorem stops_at_error : stops_at_error_statement := by
  intro consume s off k h hc
  rw [exprOffsets_len_some consume s off k h, if_pos hc]
  simp only [Nat.add_assoc]

theorem single_placeholder : single_placeholder_statement := by
  intro consume s off k h hn
  rw [exprOffsets_len_some consume s off k h]
  split
  · simp only [Nat.add_assoc]
  · rw [exprOffsets_none _ _ _ _ (indexOf_none_drop open3 _ _ hn)]
    simp only [Nat.add_assoc]

/-! ### Non-vacuity on concrete bytes -/

/-- a `consume` that returns the distance to just after the first `}}` (0 when there is none) -/
def consumeToClose (s : List Nat) : Nat :=
  match indexOf close2 s 0 with
  | some k => k + 2
  | none => 0

/-- the bytes of `a ${{ x }} b ${{ y`: a closed placeholder followed by an unterminated one -/
def exTwo : List Nat := "a ${{ x }} b ${{ y".toList.map (·.toNat)

/-- the bytes of `run ${{ oops`: a single, unterminated placeholder -/
def exOne : List Nat := "run ${{ oops".toList.map (·.toNat)

/-- (a), (d), (e): first hit at byte 2, the lexer consumes 5 bytes, the scan resumes at byte 10, finds the second
`${{` (expression at byte 16) and stops there because the lexer reports an error -/
example : indexOf open3 exTwo 0 = some 2 ∧ consumeToClose (exTwo.drop (2 + 3)) = 5 ∧
    exprOffsets consumeToClose exTwo.length exTwo 0 = [5, 16] ∧
    indexOf open3 (exTwo.drop 10) 0 = some 3 ∧ consumeToClose ((exTwo.drop 10).drop (3 + 3)) = 0 ∧
    exprOffsets consumeToClose (exTwo.drop 10).length (exTwo.drop 10) 10 = [16] := by decide +kernel

/-- (f): exactly one `${{`; it is handed over once whatever the lexer consumes (0, 1, or more than what is left) -/
example : indexOf open3 exOne 0 = some 4 ∧ indexOf open3 (exOne.drop (4 + 3)) 0 = none ∧
    exprOffsets consumeToClose exOne.length exOne 0 = [7] ∧
    exprOffsets (fun _ => 1) exOne.length exOne 0 = [7] ∧
    exprOffsets (fun _ => 1000) exOne.length exOne 0 = [7] := by decide +kernel

/-- (b), (c): nothing without `${{`; surplus fuel changes nothing -/
example : indexOf open3 (exTwo.take 2) 0 = none ∧ exprOffsets consumeToClose 2 (exTwo.take 2) 0 = [] ∧
    exprOffsets consumeToClose 1000 exTwo 0 = exprOffsets consumeToClose exTwo.length exTwo 0 := by decide +kernel

end AL.Props.C03Scan
