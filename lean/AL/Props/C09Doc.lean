import AL.Lemmas.C09DRules
/-
  C09 at the level of the DOCUMENT (the `yaml.Node` tree), for all documents: "the diagnostics reported for a job depend
  only on that job, the workflow header and the jobs it needs; those for a step only on the step, the ids of earlier
  steps and its job; adding, removing or reordering unrelated jobs or steps never changes them; no error in one job hides
  diagnostics in another" — composed from the parser model (AL.PW), the AST-only rules (AL.Rules, `lint`) and the
  expression rule (AL.RuleExpr.rule).

  Tools (AL/Lemmas/C09DParse.lean, C09DNeeds.lean, C09DRules.lean):
    * `kept` / `seenAfter`: the key loop of `parseMapping` as a function of the pairs (the real key handling);
    * `Split P Q ctx put A B`: the enclosing parser `P` looks at the sub-node only through the sub-parser `Q` — where
      `C13Doc3.Path` carries an UNCHANGED result through the enclosing parsers, `Split` carries a CHANGED one
      (`Sect.split`: the generic edge for a section parser whose other iterations commute with the update);
    * `dupOf` / `undefOf` / `check_decomp`: job-needs, job by job.

  1. the parser is per job ............ `parseJobs_per_job`, `parseJobs_distinct`, `parseJobs_insert`, `parseJobs_swap`,
                                         `parse_jobs_split`, `document_add_job(_ast/_diags)`, `document_swap_jobs`
  2. the AST-only rules are per job ... `rules_add_job_modulo_needs`, `rules_add_job`; job-needs: `ruleJobNeeds_per_job`,
                                         `needs_add_job`, `needs_add_job_general`, `needs_add_job_quiet`,
                                         `rules_add_unneeded_job`, `rules_reorder`
  3. the expression rule is per job ... `visitJob_other`, `rule_add_job`, `rule_add_job'`, `expr_add_job_document`
  4. `lint` ........................... `lint_add_job`, `lint_swap_jobs`
  5. steps ............................ `stepsOf_eq_map`, `document_steps_split`, `document_append_step`,
                                         `visitJob_append_step`, `visitJob_steps_elsewhere`, `rule_append_step`,
                                         `expr_append_step_document`, `perJob_append_step`, `rules_append_step`,
                                         `lint_append_step` (no side condition at all)
  FALSE of the model, proved on witnesses (all in job-needs, whose subject is the relation between jobs):
    `undefined_need_hides_cycle`            an undefined `needs:` entry in ONE job suppresses the `needs-cyclic` report
                                            about OTHER jobs (an error in one job hides a diagnostic in another);
    `unrelated_job_changes_reported_cycle`  a job nobody needs, needing an existing job only, changes which of two cycles
                                            is reported (only the first cycle found is reported);
    `swap_changes_reported_cycle`           so does swapping two adjacent jobs.
  Everything else holds without exception; in particular a syntax error in one job never touches the parse or the
  diagnostics of another job (`document_add_job`), and a step never touches an earlier step (`lint_append_step`).
-/
namespace AL.C09D
open AL.PW AL.Yaml AL.Ast AL.C13P AL.C13D AL.C13D3

/-! ## 1. the parser is per job -/

/-- **`parseJobs` is per job** (every `jobs:` mapping, the real key handling): the jobs are those of the pairs
`parseMapping` keeps (`kept`: the first pair of every folded id), in order, each parsed on its own; the diagnostics are
those of the key loop (bad keys, repeated ids), the emptiness check, and the concatenation of the jobs' own. -/
theorem parseJobs_per_job (cfg : Cfg) (tag : String) (l c : Nat) (ps : List (Node × Node)) :
    parseJobs cfg (mapNode tag l c ps) =
      ((kept cfg false ps []).map (jobEntry cfg),
       (mappingLoop cfg (sectionWhat "jobs") false ps []).2 ++
         (if (kept cfg false ps []).isEmpty then [emptyErr l c] else []) ++
         (kept cfg false ps []).flatMap (fun p => (jobOfPair cfg p).2)) := by
  simp only [parseJobs, parseSectionMapping, parseMapping_mapNode, mapKVs_eq_map, mappingLoop_kept, List.map_map,
    List.flatMap_map, List.isEmpty_map, Bool.not_false, Bool.true_and, emptyErr]
  rfl

/-- the same when the folded ids of the keys are pairwise distinct: every pair is one job -/
theorem parseJobs_distinct (cfg : Cfg) (tag : String) (l c : Nat) (ps : List (Node × Node))
    (hn : (ps.map fun p => keyId cfg false p.1).Nodup) :
    parseJobs cfg (mapNode tag l c ps) =
      (ps.map (jobEntry cfg),
       ps.flatMap (fun p => (parseString p.1 false).2) ++ (if ps.isEmpty then [emptyErr l c] else []) ++
         ps.flatMap (fun p => (jobOfPair cfg p).2)) := by
  obtain ⟨h1, h2⟩ := mappingLoop_nodup_ids cfg (sectionWhat "jobs") false ps [] hn (fun _ _ => rfl)
  rw [parseJobs_per_job, h1, h2]

/-- **one more job.** A pair `(kn, vn)` whose folded id occurs nowhere else in the `jobs:` mapping, inserted anywhere:
the job list gets exactly that job at that place, the diagnostics get exactly the key's own (none for a sound key) and
`(parseJob cfg kn vn).2` at their places; the mapping without the pair additionally has the emptiness report when it is
empty. Read from right to left: removing the pair. -/
theorem parseJobs_insert (cfg : Cfg) (tag : String) (l c : Nat) (pre post : List (Node × Node)) (kn vn : Node)
    (hfresh : ∀ q ∈ pre ++ post, keyId cfg false q.1 ≠ keyId cfg false kn) :
    parseJobs cfg (mapNode tag l c (pre ++ (kn, vn) :: post)) =
      (jobsOfPairs cfg pre [] ++ jobEntry cfg (kn, vn) :: jobsOfPairs cfg post (seenAfter cfg false pre []),
       (keyDiags cfg pre [] ++ ((parseString kn false).2 ++ keyDiags cfg post (seenAfter cfg false pre []))) ++
       (jobDiags cfg pre [] ++ ((jobOfPair cfg (kn, vn)).2 ++ jobDiags cfg post (seenAfter cfg false pre [])))) ∧
    parseJobs cfg (mapNode tag l c (pre ++ post)) =
      (jobsOfPairs cfg pre [] ++ jobsOfPairs cfg post (seenAfter cfg false pre []),
       (keyDiags cfg pre [] ++ keyDiags cfg post (seenAfter cfg false pre [])) ++
       (if (pre ++ post).isEmpty then [emptyErr l c] else []) ++
       (jobDiags cfg pre [] ++ jobDiags cfg post (seenAfter cfg false pre []))) := by
  constructor
  · rw [parseJobs_per_job, kept_insert cfg false pre post kn vn [] rfl hfresh,
      mappingLoop_insert cfg _ false pre post kn vn [] rfl hfresh]
    simp [jobsOfPairs, keyDiags, jobDiags]
  · rw [parseJobs_per_job, kept_isEmpty, kept_append, mappingLoop_append]
    simp [jobsOfPairs, keyDiags, jobDiags]

/-- as a multiset: the bigger mapping's diagnostics are the smaller one's plus the new pair's -/
theorem parseJobs_insert_perm (cfg : Cfg) (tag : String) (l c : Nat) (pre post : List (Node × Node)) (kn vn : Node)
    (hfresh : ∀ q ∈ pre ++ post, keyId cfg false q.1 ≠ keyId cfg false kn) (hne : pre ++ post ≠ []) :
    (parseJobs cfg (mapNode tag l c (pre ++ (kn, vn) :: post))).2.Perm
      ((parseJobs cfg (mapNode tag l c (pre ++ post))).2 ++ ((parseString kn false).2 ++ (jobOfPair cfg (kn, vn)).2)) := by
  obtain ⟨h1, h2⟩ := parseJobs_insert cfg tag l c pre post kn vn hfresh
  have he : (pre ++ post).isEmpty = false := by cases h : pre ++ post with | nil => exact absurd h hne | cons _ _ => rfl
  rw [h1, h2, he]
  rw [List.perm_iff_count]
  intro a
  simp only [List.count_append, Bool.false_eq_true, ↓reduceIte, List.count_nil]
  omega

/-! ### lifted to the document: the `workflow → jobs` edge -/

/-- **the workflow parser looks at the `jobs:` node only through `parseJobs`**: whatever the value `v` of the (first)
`jobs:` key of the root mapping, the AST is one fixed workflow with `Jobs` set to `(parseJobs cfg v).1`, and the
diagnostics are those of `parseJobs cfg v` between two fixed lists. -/
theorem parse_jobs_split (cfg : Cfg) (mW : MapCtx) (hW : mW.Keyed cfg "jobs") :
    ∃ (W : Workflow) (A B : List PErr), ∀ v,
      parse cfg (docNode (mW.at v)) = (withJobs W (parseJobs cfg v).1, A ++ ((parseJobs cfg v).2 ++ B)) := by
  obtain ⟨W, A, B, h⟩ := Sect.split (workflowSect cfg (docNode (mapNode "" 0 0 []))) cfg "workflow" true mW id (parseJobs cfg)
    (fun b w => { w with jobs := some b }) id (fun b w => { w with jobs := some b })
    (fun w => (w, if w.on.isNone then [errAt (docNode (mapNode "" 0 0 [])) "workflow-no-on" []] else []))
    hW.first'
    (by intro s v; rw [hW.id]; rfl)
    (by
      intro b s kv hkv
      rw [hW.id] at hkv
      simp only [workflowSect, workflowKey]
      split <;> first | rfl | (rename_i h; exact absurd h hkv))
    (by intro b s; simp [workflowSect])
  refine ⟨W, A, B, fun v => ?_⟩
  rw [parse_docNode]
  exact h v

/-- a document whose root mapping has the `jobs:` mapping with the pairs `ps` under the key of `mW` -/
def jobsDoc (mW : MapCtx) (tag : String) (l c : Nat) (ps : List (Node × Node)) : Node :=
  docNode (mW.at (mapNode tag l c ps))

/-- **one more job, in the document: the AST.** Inserting a pair with a new folded id anywhere into the `jobs:` mapping of
a workflow file changes the AST by exactly that job, at that place of `Workflow.Jobs`; everything else — header and the
other jobs — is identical. -/
theorem document_add_job_ast (cfg : Cfg) (mW : MapCtx) (tag : String) (l c : Nat) (pre post : List (Node × Node)) (kn vn : Node)
    (hW : mW.Keyed cfg "jobs") (hfresh : ∀ q ∈ pre ++ post, keyId cfg false q.1 ≠ keyId cfg false kn) :
    ∃ W : Workflow,
      (parse cfg (jobsDoc mW tag l c (pre ++ post))).1 =
        withJobs W (jobsOfPairs cfg pre [] ++ jobsOfPairs cfg post (seenAfter cfg false pre [])) ∧
      (parse cfg (jobsDoc mW tag l c (pre ++ (kn, vn) :: post))).1 =
        withJobs W (jobsOfPairs cfg pre [] ++ jobEntry cfg (kn, vn) :: jobsOfPairs cfg post (seenAfter cfg false pre [])) := by
  obtain ⟨W, A, B, h⟩ := parse_jobs_split cfg mW hW
  obtain ⟨h1, h2⟩ := parseJobs_insert cfg tag l c pre post kn vn hfresh
  refine ⟨W, ?_, ?_⟩
  · simp only [jobsDoc, h, h2]
  · simp only [jobsDoc, h, h1]

/-- **one more job, in the document: the parser's diagnostics** are the old ones plus exactly the pair's own: the key's
and `(parseJob cfg kn vn).2` (the `jobs:` mapping was not empty — else its emptiness report goes away, `parseJobs_insert`).
Nothing a job contains — not even a syntax error — reaches the parse of another job. -/
theorem document_add_job_diags (cfg : Cfg) (mW : MapCtx) (tag : String) (l c : Nat) (pre post : List (Node × Node)) (kn vn : Node)
    (hW : mW.Keyed cfg "jobs") (hfresh : ∀ q ∈ pre ++ post, keyId cfg false q.1 ≠ keyId cfg false kn) (hne : pre ++ post ≠ []) :
    (parse cfg (jobsDoc mW tag l c (pre ++ (kn, vn) :: post))).2.Perm
      ((parse cfg (jobsDoc mW tag l c (pre ++ post))).2 ++ ((parseString kn false).2 ++ (jobOfPair cfg (kn, vn)).2)) := by
  obtain ⟨W, A, B, h⟩ := parse_jobs_split cfg mW hW
  have hp := parseJobs_insert_perm cfg tag l c pre post kn vn hfresh hne
  simp only [jobsDoc, h]
  rw [List.perm_iff_count] at hp ⊢
  intro a
  have := hp a
  simp only [List.count_append] at this ⊢
  omega

/-- both together -/
theorem document_add_job (cfg : Cfg) (mW : MapCtx) (tag : String) (l c : Nat) (pre post : List (Node × Node)) (kn vn : Node)
    (hW : mW.Keyed cfg "jobs") (hfresh : ∀ q ∈ pre ++ post, keyId cfg false q.1 ≠ keyId cfg false kn) (hne : pre ++ post ≠ []) :
    ∃ W : Workflow,
      (parse cfg (jobsDoc mW tag l c (pre ++ post))).1 =
        withJobs W (jobsOfPairs cfg pre [] ++ jobsOfPairs cfg post (seenAfter cfg false pre [])) ∧
      (parse cfg (jobsDoc mW tag l c (pre ++ (kn, vn) :: post))).1 =
        withJobs W (jobsOfPairs cfg pre [] ++ jobEntry cfg (kn, vn) :: jobsOfPairs cfg post (seenAfter cfg false pre [])) ∧
      (parse cfg (jobsDoc mW tag l c (pre ++ (kn, vn) :: post))).2.Perm
        ((parse cfg (jobsDoc mW tag l c (pre ++ post))).2 ++ ((parseString kn false).2 ++ (jobOfPair cfg (kn, vn)).2)) := by
  obtain ⟨W, e0, e1⟩ := document_add_job_ast cfg mW tag l c pre post kn vn hW hfresh
  exact ⟨W, e0, e1, document_add_job_diags cfg mW tag l c pre post kn vn hW hfresh hne⟩

/-! ### two adjacent jobs swapped -/

/-- **two adjacent pairs swapped** (both ids new in the mapping, and different): the two jobs swap places in the job list,
the two pairs' diagnostics swap places; everything else is identical -/
theorem parseJobs_swap (cfg : Cfg) (tag : String) (l c : Nat) (pre post : List (Node × Node)) (k₁ v₁ k₂ v₂ : Node)
    (h₁ : ∀ q ∈ pre ++ post, keyId cfg false q.1 ≠ keyId cfg false k₁)
    (h₂ : ∀ q ∈ pre ++ post, keyId cfg false q.1 ≠ keyId cfg false k₂)
    (h₁₂ : keyId cfg false k₁ ≠ keyId cfg false k₂) :
    parseJobs cfg (mapNode tag l c (pre ++ (k₁, v₁) :: (k₂, v₂) :: post)) =
      (jobsOfPairs cfg pre [] ++ jobEntry cfg (k₁, v₁) :: jobEntry cfg (k₂, v₂) :: jobsOfPairs cfg post (seenAfter cfg false pre []),
       (keyDiags cfg pre [] ++ ((parseString k₁ false).2 ++ ((parseString k₂ false).2 ++ keyDiags cfg post (seenAfter cfg false pre [])))) ++
       (jobDiags cfg pre [] ++ ((jobOfPair cfg (k₁, v₁)).2 ++ ((jobOfPair cfg (k₂, v₂)).2 ++ jobDiags cfg post (seenAfter cfg false pre []))))) ∧
    parseJobs cfg (mapNode tag l c (pre ++ (k₂, v₂) :: (k₁, v₁) :: post)) =
      (jobsOfPairs cfg pre [] ++ jobEntry cfg (k₂, v₂) :: jobEntry cfg (k₁, v₁) :: jobsOfPairs cfg post (seenAfter cfg false pre []),
       (keyDiags cfg pre [] ++ ((parseString k₂ false).2 ++ ((parseString k₁ false).2 ++ keyDiags cfg post (seenAfter cfg false pre [])))) ++
       (jobDiags cfg pre [] ++ ((jobOfPair cfg (k₂, v₂)).2 ++ ((jobOfPair cfg (k₁, v₁)).2 ++ jobDiags cfg post (seenAfter cfg false pre []))))) := by
  have hS₁ : lookupSeen (keyId cfg false k₁) (seenAfter cfg false pre []) = none :=
    (lookupSeen_seenAfter_none cfg false _ pre []).2 ⟨rfl, fun q hq => h₁ q (List.mem_append_left _ hq)⟩
  have hS₂ : lookupSeen (keyId cfg false k₂) (seenAfter cfg false pre []) = none :=
    (lookupSeen_seenAfter_none cfg false _ pre []).2 ⟨rfl, fun q hq => h₂ q (List.mem_append_left _ hq)⟩
  constructor
  · obtain ⟨a, b, d⟩ := pairs_cons_fresh cfg post k₂ v₂ _ hS₂ (fun q hq => h₂ q (List.mem_append_right _ hq))
    have := (parseJobs_insert cfg tag l c pre ((k₂, v₂) :: post) k₁ v₁ (by
      intro q hq
      rcases List.mem_append.1 hq with hq | hq
      · exact h₁ q (List.mem_append_left _ hq)
      · rcases List.mem_cons.1 hq with rfl | hq
        · exact h₁₂.symm
        · exact h₁ q (List.mem_append_right _ hq))).1
    rw [this, a, b, d]
  · obtain ⟨a, b, d⟩ := pairs_cons_fresh cfg post k₁ v₁ _ hS₁ (fun q hq => h₁ q (List.mem_append_right _ hq))
    have := (parseJobs_insert cfg tag l c pre ((k₁, v₁) :: post) k₂ v₂ (by
      intro q hq
      rcases List.mem_append.1 hq with hq | hq
      · exact h₂ q (List.mem_append_left _ hq)
      · rcases List.mem_cons.1 hq with rfl | hq
        · exact h₁₂
        · exact h₂ q (List.mem_append_right _ hq))).1
    rw [this, a, b, d]

/-- **two adjacent jobs swapped, in the document**: the AST differs by the order of the two entries of `Workflow.Jobs`
only, the parser's diagnostics are the same multiset -/
theorem document_swap_jobs (cfg : Cfg) (mW : MapCtx) (tag : String) (l c : Nat) (pre post : List (Node × Node)) (k₁ v₁ k₂ v₂ : Node)
    (hW : mW.Keyed cfg "jobs")
    (h₁ : ∀ q ∈ pre ++ post, keyId cfg false q.1 ≠ keyId cfg false k₁)
    (h₂ : ∀ q ∈ pre ++ post, keyId cfg false q.1 ≠ keyId cfg false k₂)
    (h₁₂ : keyId cfg false k₁ ≠ keyId cfg false k₂) :
    ∃ W : Workflow,
      (parse cfg (jobsDoc mW tag l c (pre ++ (k₁, v₁) :: (k₂, v₂) :: post))).1 =
        withJobs W (jobsOfPairs cfg pre [] ++ jobEntry cfg (k₁, v₁) :: jobEntry cfg (k₂, v₂) ::
            jobsOfPairs cfg post (seenAfter cfg false pre [])) ∧
      (parse cfg (jobsDoc mW tag l c (pre ++ (k₂, v₂) :: (k₁, v₁) :: post))).1 =
        withJobs W (jobsOfPairs cfg pre [] ++ jobEntry cfg (k₂, v₂) :: jobEntry cfg (k₁, v₁) ::
            jobsOfPairs cfg post (seenAfter cfg false pre [])) ∧
      (parse cfg (jobsDoc mW tag l c (pre ++ (k₂, v₂) :: (k₁, v₁) :: post))).2.Perm
        (parse cfg (jobsDoc mW tag l c (pre ++ (k₁, v₁) :: (k₂, v₂) :: post))).2 := by
  obtain ⟨W, A, B, h⟩ := parse_jobs_split cfg mW hW
  obtain ⟨e1, e2⟩ := parseJobs_swap cfg tag l c pre post k₁ v₁ k₂ v₂ h₁ h₂ h₁₂
  refine ⟨W, ?_, ?_, ?_⟩
  · simp only [jobsDoc, h, e1]
  · simp only [jobsDoc, h, e2]
  · simp only [jobsDoc, h, e1, e2]
    rw [List.perm_iff_count]
    intro a
    simp only [List.count_append]
    omega

/-! ## 2. the AST-only rules are per job, at the level of the document -/

section Rules
open AL.Rules AL.C09A AL.C18P

variable (lower : String → String) (isNum urlOk : String → Bool) (lc : LabelCfg)

/-- **all rules but job-needs: one more job adds exactly its own block.** Up to order, the diagnostics of `rules` on the
workflow with the extra job `j` are: job-needs on the bigger workflow, then everything the other rules report on the
smaller workflow (header and the other jobs' blocks, untouched), then `perJob` of `j`. -/
theorem rules_add_job_modulo_needs (W : Workflow) (J₁ J₂ : List (String × Job)) (i : String) (j : Job) :
    (rules lower isNum urlOk (withJobs W (J₁ ++ (i, j) :: J₂)) lc).Perm
      (ruleJobNeeds lower (withJobs W (J₁ ++ (i, j) :: J₂)) ++
        ((header lower isNum (withJobs W (J₁ ++ J₂)) lc ++ (jobsOf (withJobs W (J₁ ++ J₂))).flatMap (fun j => perJob lower urlOk j lc)) ++
          perJob lower urlOk j lc)) := by
  refine (rules_per_job lower isNum urlOk (withJobs W (J₁ ++ (i, j) :: J₂)) lc).trans ?_
  rw [header_withJobs lower isNum lc W (J₁ ++ (i, j) :: J₂) (J₁ ++ J₂)]
  simp only [jobsOf, Option.getD_some, List.map_append, List.map_cons, List.flatMap_append, List.flatMap_cons]
  rw [List.perm_iff_count]
  intro a
  simp only [List.count_append]
  omega

/-- hence: whenever job-needs reports on the bigger workflow what it reports on the smaller one plus `X`, ALL the rules
report on the bigger workflow what they report on the smaller one plus `X` plus the new job's own block -/
theorem rules_add_job (W : Workflow) (J₁ J₂ : List (String × Job)) (i : String) (j : Job) (X : List Diag)
    (hneeds : (ruleJobNeeds lower (withJobs W (J₁ ++ (i, j) :: J₂))).Perm (ruleJobNeeds lower (withJobs W (J₁ ++ J₂)) ++ X)) :
    (rules lower isNum urlOk (withJobs W (J₁ ++ (i, j) :: J₂)) lc).Perm
      (rules lower isNum urlOk (withJobs W (J₁ ++ J₂)) lc ++ (X ++ perJob lower urlOk j lc)) := by
  have h1 := rules_add_job_modulo_needs lower isNum urlOk lc W J₁ J₂ i j
  have h2 := rules_per_job lower isNum urlOk (withJobs W (J₁ ++ J₂)) lc
  rw [List.perm_iff_count] at h1 h2 hneeds ⊢
  intro a
  have := h1 a; have := h2 a; have := hneeds a
  simp only [List.count_append] at *
  omega

/-! ### what job-needs contributes -/

/-- **job-needs, job by job** (folded ids pairwise distinct — every parsed workflow — and no cycle reported): the jobs'
own `needs-duplicate`s, then the jobs' `needs-undefined`s -/
theorem ruleJobNeeds_per_job (W : Workflow) (js : List (String × Job)) (hnd : (idsOf lower js).Nodup)
    (hc : NoCyclicReport lower (withJobs W js)) :
    ruleJobNeeds lower (withJobs W js) =
      js.flatMap (fun p => needsDup lower p.2) ++ js.flatMap (fun p => needsUndef lower (idsOf lower js) p.2) := by
  rw [ruleJobNeeds_eq, check_no_cyclic lower _ _ (by rw [jobsIn_ids]; exact hnd.filter _) (noCyclic_check lower _ hc), jobsIn_ids,
    jobsIn_withJobs]
  simp only [List.map_append, List.flatMap_map, List.map_flatMap, needsDup, needsUndef]

/-- **one more job that nobody needs** (folded ids pairwise distinct, no cycle reported before or after): job-needs
reports on the bigger workflow exactly what it reports on the smaller one, plus the new job's own `needs-duplicate`s and
its own `needs-undefined`s. No report about another job appears, disappears or changes. -/
theorem needs_add_job (W : Workflow) (J₁ J₂ : List (String × Job)) (i : String) (j : Job)
    (hnd : (idsOf lower (J₁ ++ (i, j) :: J₂)).Nodup)
    (hun : Unneeded lower (lower j.id.value) (J₁ ++ J₂))
    (hc' : NoCyclicReport lower (withJobs W (J₁ ++ (i, j) :: J₂))) (hc : NoCyclicReport lower (withJobs W (J₁ ++ J₂))) :
    (ruleJobNeeds lower (withJobs W (J₁ ++ (i, j) :: J₂))).Perm
      (ruleJobNeeds lower (withJobs W (J₁ ++ J₂)) ++
        (needsDup lower j ++ needsUndef lower (idsOf lower (J₁ ++ (i, j) :: J₂)) j)) := by
  have hnd₀ : (idsOf lower (J₁ ++ J₂)).Nodup := by
    refine hnd.sublist ?_
    simp only [idsOf, List.map_append, List.map_cons]
    exact List.Sublist.append_left (List.sublist_cons_self _ _) _
  rw [ruleJobNeeds_per_job lower W _ hnd hc', ruleJobNeeds_per_job lower W _ hnd₀ hc]
  have hsame : ∀ p ∈ J₁ ++ J₂, needsUndef lower (idsOf lower (J₁ ++ (i, j) :: J₂)) p.2 = needsUndef lower (idsOf lower (J₁ ++ J₂)) p.2 := by
    intro p hp
    simp only [needsUndef, idsOf, List.map_append, List.map_cons]
    rw [undefOf_insert_unneeded lower _ _ _ _ (unneeded_normNeeds lower _ p.2 (hun p hp))]
  have h₁ : J₁.flatMap (fun p => needsUndef lower (idsOf lower (J₁ ++ (i, j) :: J₂)) p.2) =
      J₁.flatMap (fun p => needsUndef lower (idsOf lower (J₁ ++ J₂)) p.2) :=
    List.flatMap_congr fun p hp => hsame p (List.mem_append_left _ hp)
  have h₂ : J₂.flatMap (fun p => needsUndef lower (idsOf lower (J₁ ++ (i, j) :: J₂)) p.2) =
      J₂.flatMap (fun p => needsUndef lower (idsOf lower (J₁ ++ J₂)) p.2) :=
    List.flatMap_congr fun p hp => hsame p (List.mem_append_right _ hp)
  simp only [List.flatMap_append, List.flatMap_cons, h₁, h₂]
  rw [List.perm_iff_count]
  intro a
  simp only [List.count_append]
  omega

/-- a job-needs report that is not "`… needs job x which does not exist`" -/
def notNaming (x : String) (d : Diag) : Bool :=
  match d.code, d.args with
  | "needs-undefined", [_, dep] => decide (dep ≠ x)
  | _, _ => true

theorem notNaming_needsDiag (x : String) (d : Needs.Diag) :
    notNaming x (needsDiag d) = (match d with | .undefined _ _ dep => decide (dep ≠ x) | _ => true) := by
  cases d <;> simp [needsDiag, notNaming]

/-- **one more job, in general** (somebody may need it): the only reports about OTHER jobs that change are their
"`needs job x which does not exist`" for the new id `x`, which go away — as they must: the relation between jobs is the
subject of this rule. Everything else job-needs reported stays, and the new job's own reports are added. (Folded ids
distinct, no cycle reported before or after.) -/
theorem needs_add_job_general (W : Workflow) (J₁ J₂ : List (String × Job)) (i : String) (j : Job)
    (hnd : (idsOf lower (J₁ ++ (i, j) :: J₂)).Nodup)
    (hc' : NoCyclicReport lower (withJobs W (J₁ ++ (i, j) :: J₂))) (hc : NoCyclicReport lower (withJobs W (J₁ ++ J₂))) :
    (ruleJobNeeds lower (withJobs W (J₁ ++ (i, j) :: J₂))).Perm
      ((ruleJobNeeds lower (withJobs W (J₁ ++ J₂))).filter (notNaming (lower j.id.value)) ++
        (needsDup lower j ++ needsUndef lower (idsOf lower (J₁ ++ (i, j) :: J₂)) j)) := by
  have hnd₀ : (idsOf lower (J₁ ++ J₂)).Nodup := by
    refine hnd.sublist ?_
    simp only [idsOf, List.map_append, List.map_cons]
    exact List.Sublist.append_left (List.sublist_cons_self _ _) _
  rw [ruleJobNeeds_per_job lower W _ hnd hc', ruleJobNeeds_per_job lower W _ hnd₀ hc]
  have hU : ∀ p : String × Job, needsUndef lower (idsOf lower (J₁ ++ (i, j) :: J₂)) p.2 =
      (needsUndef lower (idsOf lower (J₁ ++ J₂)) p.2).filter (notNaming (lower j.id.value)) := by
    intro p
    simp only [needsUndef, idsOf, List.map_append, List.map_cons]
    rw [undefOf_insert, List.filter_map]
    congr 1
    apply List.filter_congr
    intro d _
    rw [Function.comp_apply, notNaming_needsDiag]
    cases d <;> simp
  have hD : ∀ p : String × Job, (needsDup lower p.2).filter (notNaming (lower j.id.value)) = needsDup lower p.2 := by
    intro p
    rw [List.filter_eq_self]
    intro d hd
    simp only [needsDup, List.mem_map] at hd
    obtain ⟨x, hx, rfl⟩ := hd
    obtain ⟨pp, v, rfl⟩ := normNeeds_no_undefined _ _ _ x hx
    simp [needsDiag, notNaming]
  have hfm : ∀ (l : List (String × Job)) (f : String × Job → List Diag),
      (l.flatMap f).filter (notNaming (lower j.id.value)) = l.flatMap fun p => (f p).filter (notNaming (lower j.id.value)) := by
    intro l f
    induction l with
    | nil => rfl
    | cons x rest ih => simp [List.filter_append, ih]
  simp only [List.filter_append, hfm, hD, ← hU, List.flatMap_append, List.flatMap_cons]
  rw [List.perm_iff_count]
  intro a
  simp only [List.count_append]
  omega

/-- **a new job that nobody needs and that needs existing jobs only adds nothing to job-needs** but its own
`needs-duplicate` reports (none when its `needs:` list has no repetition) -/
theorem needs_add_job_quiet (W : Workflow) (J₁ J₂ : List (String × Job)) (i : String) (j : Job)
    (hnd : (idsOf lower (J₁ ++ (i, j) :: J₂)).Nodup)
    (hun : Unneeded lower (lower j.id.value) (J₁ ++ J₂))
    (hex : ∀ n ∈ j.needs.getD [], lower n.value ∈ idsOf lower (J₁ ++ (i, j) :: J₂))
    (hc' : NoCyclicReport lower (withJobs W (J₁ ++ (i, j) :: J₂))) (hc : NoCyclicReport lower (withJobs W (J₁ ++ J₂))) :
    (ruleJobNeeds lower (withJobs W (J₁ ++ (i, j) :: J₂))).Perm
      (ruleJobNeeds lower (withJobs W (J₁ ++ J₂)) ++ needsDup lower j) := by
  have := needs_add_job lower W J₁ J₂ i j hnd hun hc' hc
  rwa [needsUndef_nil lower _ j hex, List.append_nil] at this

/-- acyclic needs graphs report no cycle (`C18P.rule_acyclic_none`) -/
theorem noCyclic_of_acyclic (w : Workflow) (h : ¬ AL.Spec.Cyclic (graphOf lower (jobsIn w))) : NoCyclicReport lower w :=
  rule_acyclic_none lower w h

/-- **an acyclic needs graph stays acyclic when a job is removed** (`cyclic_add_job`: the smaller graph embeds into the
bigger one), so one hypothesis — the needs graph of the BIGGER workflow has no cycle — gives `NoCyclicReport` for both -/
theorem noCyclic_of_acyclic_bigger (W : Workflow) (J₁ J₂ : List (String × Job)) (i : String) (j : Job)
    (hnd : (idsOf lower (J₁ ++ (i, j) :: J₂)).Nodup)
    (hac : ¬ AL.Spec.Cyclic (graphOf lower (jobsIn (withJobs W (J₁ ++ (i, j) :: J₂))))) :
    NoCyclicReport lower (withJobs W (J₁ ++ (i, j) :: J₂)) ∧ NoCyclicReport lower (withJobs W (J₁ ++ J₂)) := by
  refine ⟨noCyclic_of_acyclic lower _ hac, noCyclic_of_acyclic lower _ (fun hc => hac ?_)⟩
  rw [jobsIn_withJobs] at hc ⊢
  simp only [List.map_append, List.map_cons] at hc ⊢
  refine cyclic_add_job lower _ _ _ ?_ hc
  have e : ((J₁.map (fun p => needsJobIn p.2) ++ needsJobIn j :: J₂.map (fun p => needsJobIn p.2)).map fun j => lower j.idValue) =
      idsOf lower (J₁ ++ (i, j) :: J₂) := by
    simp only [idsOf, needsJobIn, List.map_append, List.map_cons, List.map_map]
    rfl
  rw [e]
  exact hnd.filter _

/-- **all the AST-only rules, one more job** (ids distinct, nobody needs the new job, no cycle reported): the multiset of
`rules` diagnostics of the workflow with the extra job is that of the workflow without it, plus the new job's own:
`perJob` and its own job-needs reports -/
theorem rules_add_unneeded_job (W : Workflow) (J₁ J₂ : List (String × Job)) (i : String) (j : Job)
    (hnd : (idsOf lower (J₁ ++ (i, j) :: J₂)).Nodup)
    (hun : Unneeded lower (lower j.id.value) (J₁ ++ J₂))
    (hc' : NoCyclicReport lower (withJobs W (J₁ ++ (i, j) :: J₂))) (hc : NoCyclicReport lower (withJobs W (J₁ ++ J₂))) :
    (rules lower isNum urlOk (withJobs W (J₁ ++ (i, j) :: J₂)) lc).Perm
      (rules lower isNum urlOk (withJobs W (J₁ ++ J₂)) lc ++
        ((needsDup lower j ++ needsUndef lower (idsOf lower (J₁ ++ (i, j) :: J₂)) j) ++ perJob lower urlOk j lc)) :=
  rules_add_job lower isNum urlOk lc W J₁ J₂ i j _ (needs_add_job lower W J₁ J₂ i j hnd hun hc' hc)

/-- **reordering the jobs permutes the diagnostics of all the AST-only rules** (ids distinct, no cycle reported) -/
theorem rules_reorder (W : Workflow) (js js' : List (String × Job)) (hp : js.Perm js') (hnd : (idsOf lower js).Nodup)
    (hc : NoCyclicReport lower (withJobs W js)) (hc' : NoCyclicReport lower (withJobs W js')) :
    (rules lower isNum urlOk (withJobs W js) lc).Perm (rules lower isNum urlOk (withJobs W js') lc) := by
  have hnd' : (idsOf lower js').Nodup := (hp.map _).nodup_iff.1 hnd
  have hids : ∀ x, x ∈ idsOf lower js ↔ x ∈ idsOf lower js' := fun x => (hp.map _).mem_iff
  refine (rules_per_job lower isNum urlOk (withJobs W js) lc).trans
    (List.Perm.trans ?_ (rules_per_job lower isNum urlOk (withJobs W js') lc).symm)
  rw [header_withJobs lower isNum lc W js js', ruleJobNeeds_per_job lower W js hnd hc, ruleJobNeeds_per_job lower W js' hnd' hc']
  have e : js.flatMap (fun p => needsUndef lower (idsOf lower js) p.2) = js.flatMap (fun p => needsUndef lower (idsOf lower js') p.2) :=
    List.flatMap_congr fun p _ => needsUndef_congr lower _ _ p.2 hids
  rw [e]
  have p1 := hp.flatMap_right (fun p => needsDup lower p.2)
  have p2 := hp.flatMap_right (fun p => needsUndef lower (idsOf lower js') p.2)
  have p3 : ((jobsOf (withJobs W js)).flatMap fun j => perJob lower urlOk j lc).Perm
      ((jobsOf (withJobs W js')).flatMap fun j => perJob lower urlOk j lc) := by
    simp only [jobsOf, Option.getD_some]
    exact (hp.map _).flatMap_right _
  exact (p1.append p2).append (List.Perm.append_left _ p3)

end Rules

/-! ## 3. the expression rule is per job, at the level of the document -/

section Expr
open AL.RuleExpr AL.C09E

/-- **the block of another job is the same with and without the extra job**, as long as that job does not name the new
job's key in `needs:` -/
theorem visitJob_other (cx : Cx) (isNum : IsNumber) (J₁ J₂ : List (String × Job)) (k : String) (x n : Job)
    (h : ∀ id ∈ n.needs.getD [], cx.lower id.value ≠ k) :
    visitJob cx isNum (J₁ ++ (k, x) :: J₂) n = visitJob cx isNum (J₁ ++ J₂) n :=
  job_depends_on_needed_only cx isNum _ _ n (fun id hid => by rw [lookupJob_insert _ k x J₂ (Ne.symm (h id hid))])

/-- **the expression rule, one more job.** None of the other jobs names the new job's key in `needs:`: the rule's
diagnostics on the bigger workflow are those on the smaller one with the new job's block inserted at the new job's place —
an exact list equation; the header's part and every other job's block are literally the same. Only the check of
`on.workflow_call.outputs` (whose `jobs` context lists all jobs) is redone — it is empty when the workflow declares no
such outputs (`rule_add_job'`). -/
theorem rule_add_job (lower : String → String) (isNum : IsNumber) (proj : ProjView) (W : Workflow)
    (J₁ J₂ : List (String × Job)) (k : String) (x : Job)
    (hun : ∀ p ∈ J₁ ++ J₂, ∀ id ∈ p.2.needs.getD [], lower id.value ≠ k) :
    rule lower isNum (withJobs W (J₁ ++ J₂)) proj =
        exprHeader lower W proj ++ (J₁.flatMap (fun kv => visitJob (headerCx lower W proj) isNum (J₁ ++ J₂) kv.2) ++
               J₂.flatMap (fun kv => visitJob (headerCx lower W proj) isNum (J₁ ++ J₂) kv.2)) ++
        exprOutputs lower W (J₁ ++ J₂) proj ∧
    rule lower isNum (withJobs W (J₁ ++ (k, x) :: J₂)) proj =
        exprHeader lower W proj ++ (J₁.flatMap (fun kv => visitJob (headerCx lower W proj) isNum (J₁ ++ J₂) kv.2) ++
               (visitJob (headerCx lower W proj) isNum (J₁ ++ (k, x) :: J₂) x ++
               J₂.flatMap (fun kv => visitJob (headerCx lower W proj) isNum (J₁ ++ J₂) kv.2))) ++
        exprOutputs lower W (J₁ ++ (k, x) :: J₂) proj := by
  have hl : (headerCx lower W proj).lower = lower := visitEvents_lower _ _
  have h₁ : J₁.flatMap (fun kv => visitJob (headerCx lower W proj) isNum (J₁ ++ (k, x) :: J₂) kv.2) =
      J₁.flatMap (fun kv => visitJob (headerCx lower W proj) isNum (J₁ ++ J₂) kv.2) :=
    List.flatMap_congr fun p hp => visitJob_other _ isNum J₁ J₂ k x p.2 (by rw [hl]; exact hun p (List.mem_append_left _ hp))
  have h₂ : J₂.flatMap (fun kv => visitJob (headerCx lower W proj) isNum (J₁ ++ (k, x) :: J₂) kv.2) =
      J₂.flatMap (fun kv => visitJob (headerCx lower W proj) isNum (J₁ ++ J₂) kv.2) :=
    List.flatMap_congr fun p hp => visitJob_other _ isNum J₁ J₂ k x p.2 (by rw [hl]; exact hun p (List.mem_append_right _ hp))
  refine ⟨?_, ?_⟩
  · rw [rule_eq, List.flatMap_append]
  · rw [rule_eq, List.flatMap_append, List.flatMap_cons, h₁, h₂]

/-- the same for a workflow without `workflow_call` outputs: nothing but the new block -/
theorem rule_add_job' (lower : String → String) (isNum : IsNumber) (proj : ProjView) (W : Workflow)
    (J₁ J₂ : List (String × Job)) (k : String) (x : Job)
    (hun : ∀ p ∈ J₁ ++ J₂, ∀ id ∈ p.2.needs.getD [], lower id.value ≠ k) (hout : NoCallOutputs W) :
    rule lower isNum (withJobs W (J₁ ++ J₂)) proj =
        exprHeader lower W proj ++ (J₁.flatMap (fun kv => visitJob (headerCx lower W proj) isNum (J₁ ++ J₂) kv.2) ++
               J₂.flatMap (fun kv => visitJob (headerCx lower W proj) isNum (J₁ ++ J₂) kv.2)) ∧
    rule lower isNum (withJobs W (J₁ ++ (k, x) :: J₂)) proj =
        exprHeader lower W proj ++ (J₁.flatMap (fun kv => visitJob (headerCx lower W proj) isNum (J₁ ++ J₂) kv.2) ++
               (visitJob (headerCx lower W proj) isNum (J₁ ++ (k, x) :: J₂) x ++
               J₂.flatMap (fun kv => visitJob (headerCx lower W proj) isNum (J₁ ++ J₂) kv.2))) := by
  obtain ⟨a, b⟩ := rule_add_job lower isNum proj W J₁ J₂ k x hun
  rw [a, b, exprOutputs_nil lower W _ proj hout, exprOutputs_nil lower W _ proj hout, List.append_nil, List.append_nil]
  exact ⟨rfl, rfl⟩

/-- **the expression rule, one more job, in the document.** A pair with a new folded id is inserted anywhere into the
`jobs:` mapping of a workflow file and no other job of the file names the new id in `needs:`. Then the rule's diagnostics
on the bigger file are those on the smaller file with the new job's block inserted at the new job's place (and the
`workflow_call` outputs, if the workflow declares any, checked again with the bigger `jobs` context). -/
theorem expr_add_job_document (cfg : Cfg) (isNum : IsNumber) (proj : ProjView) (mW : MapCtx) (tag : String) (l c : Nat)
    (pre post : List (Node × Node)) (kn vn : Node)
    (hW : mW.Keyed cfg "jobs") (hfresh : ∀ q ∈ pre ++ post, keyId cfg false q.1 ≠ keyId cfg false kn)
    (hun : ∀ j ∈ Rules.jobsOf (parse cfg (jobsDoc mW tag l c (pre ++ post))).1, ∀ n ∈ j.needs.getD [],
      cfg.lower n.value ≠ keyId cfg false kn) :
    ∃ (W : Workflow) (B₁ B₂ : List RuleExpr.Diag),
      rule cfg.lower isNum (parse cfg (jobsDoc mW tag l c (pre ++ post))).1 proj =
        exprHeader cfg.lower W proj ++ (B₁ ++ B₂) ++
          exprOutputs cfg.lower W (jobsOfPairs cfg pre [] ++ jobsOfPairs cfg post (seenAfter cfg false pre [])) proj ∧
      rule cfg.lower isNum (parse cfg (jobsDoc mW tag l c (pre ++ (kn, vn) :: post))).1 proj =
        exprHeader cfg.lower W proj ++
          (B₁ ++ (visitJob (headerCx cfg.lower W proj) isNum
            (jobsOfPairs cfg pre [] ++ jobEntry cfg (kn, vn) :: jobsOfPairs cfg post (seenAfter cfg false pre []))
            (jobOfPair cfg (kn, vn)).1 ++ B₂)) ++
          exprOutputs cfg.lower W (jobsOfPairs cfg pre [] ++ jobEntry cfg (kn, vn) :: jobsOfPairs cfg post (seenAfter cfg false pre [])) proj := by
  obtain ⟨W, e0, e1⟩ := document_add_job_ast cfg mW tag l c pre post kn vn hW hfresh
  have hun' : ∀ p ∈ jobsOfPairs cfg pre [] ++ jobsOfPairs cfg post (seenAfter cfg false pre []),
      ∀ id ∈ p.2.needs.getD [], cfg.lower id.value ≠ keyId cfg false kn := by
    intro p hp n hn
    refine hun p.2 ?_ n hn
    rw [e0]
    simp only [Rules.jobsOf, Option.getD_some]
    exact List.mem_map.2 ⟨p, hp, rfl⟩
  obtain ⟨a, b⟩ := rule_add_job cfg.lower isNum proj W _ _ (keyId cfg false kn) (jobOfPair cfg (kn, vn)).1 hun'
  exact ⟨W, _, _, by rw [e0]; exact a, by rw [e1]; exact b⟩

end Expr

/-! ## 4. put together: `lint` of the document -/

section Lint
open AL.Rules AL.C09A AL.C18P

variable (cfg : Cfg) (isNum urlOk : String → Bool) (lc : LabelCfg)

/-- **one more job, the whole linter** (parser + all the AST-only rules + the sort). A pair `(kn, vn)` with a new folded id
is inserted anywhere into the (non-empty) `jobs:` mapping of a workflow file; no other job names the new id in `needs:`;
job-needs reports no cycle before or after. Then the diagnostics of the bigger file are, as a multiset, those of the
smaller file plus the NEW JOB'S OWN: the syntax diagnostics of the pair, its `needs-duplicate` / `needs-undefined`
reports, and `perJob` of the new job. Every diagnostic about the header or about another job is reported before iff it
is reported after, the same number of times. -/
theorem lint_add_job (mW : MapCtx) (tag : String) (l c : Nat) (pre post : List (Node × Node)) (kn vn : Node)
    (hW : mW.Keyed cfg "jobs") (hfresh : ∀ q ∈ pre ++ post, keyId cfg false q.1 ≠ keyId cfg false kn) (hne : pre ++ post ≠ [])
    (hun : ∀ j ∈ jobsOf (parse cfg (jobsDoc mW tag l c (pre ++ post))).1, ∀ n ∈ j.needs.getD [], cfg.lower n.value ≠ keyId cfg false kn)
    (hc' : NoCyclicReport cfg.lower (parse cfg (jobsDoc mW tag l c (pre ++ (kn, vn) :: post))).1)
    (hc : NoCyclicReport cfg.lower (parse cfg (jobsDoc mW tag l c (pre ++ post))).1) :
    (lint cfg isNum urlOk (jobsDoc mW tag l c (pre ++ (kn, vn) :: post)) lc).Perm
      (lint cfg isNum urlOk (jobsDoc mW tag l c (pre ++ post)) lc ++
        (((parseString kn false).2 ++ (jobOfPair cfg (kn, vn)).2).map ofPErr ++
         ((needsDup cfg.lower (jobOfPair cfg (kn, vn)).1 ++
            needsUndef cfg.lower (idsOf cfg.lower ((parse cfg (jobsDoc mW tag l c (pre ++ (kn, vn) :: post))).1.jobs.getD [])) (jobOfPair cfg (kn, vn)).1) ++
          perJob cfg.lower urlOk (jobOfPair cfg (kn, vn)).1 lc))) := by
  obtain ⟨W, e0, e1, hp⟩ := document_add_job cfg mW tag l c pre post kn vn hW hfresh hne
  have hid : cfg.lower (jobOfPair cfg (kn, vn)).1.id.value = keyId cfg false kn := by
    simp only [jobOfPair, AL.C08P.parseJob_id, keyId, Bool.false_eq_true, ↓reduceIte]
  have hnd := parsed_idsOf_nodup cfg _ W _ e1
  have hun' : Unneeded cfg.lower (cfg.lower (jobOfPair cfg (kn, vn)).1.id.value)
      (jobsOfPairs cfg pre [] ++ jobsOfPairs cfg post (seenAfter cfg false pre [])) := by
    intro p hp' n hn
    rw [hid]
    refine hun p.2 ?_ n hn
    rw [e0]
    simp only [jobsOf, Option.getD_some]
    exact List.mem_map.2 ⟨p, hp', rfl⟩
  have hr := rules_add_unneeded_job cfg.lower isNum urlOk lc W _ _ (keyId cfg false kn) (jobOfPair cfg (kn, vn)).1 hnd hun'
    (e1 ▸ hc') (e0 ▸ hc)
  have hr' : (rules cfg.lower isNum urlOk (parse cfg (jobsDoc mW tag l c (pre ++ (kn, vn) :: post))).1 lc).Perm
      (rules cfg.lower isNum urlOk (parse cfg (jobsDoc mW tag l c (pre ++ post))).1 lc ++
        ((needsDup cfg.lower (jobOfPair cfg (kn, vn)).1 ++
            needsUndef cfg.lower (idsOf cfg.lower ((parse cfg (jobsDoc mW tag l c (pre ++ (kn, vn) :: post))).1.jobs.getD [])) (jobOfPair cfg (kn, vn)).1) ++
          perJob cfg.lower urlOk (jobOfPair cfg (kn, vn)).1 lc)) := by
    rw [e1, e0]; exact hr
  have L1 := lint_perm cfg isNum urlOk lc (jobsDoc mW tag l c (pre ++ (kn, vn) :: post))
  have L0 := lint_perm cfg isNum urlOk lc (jobsDoc mW tag l c (pre ++ post))
  have hp2 := hp.map ofPErr
  rw [List.perm_iff_count] at L1 L0 hr' hp2 ⊢
  intro a
  have h1 := L1 a; have h2 := L0 a; have h3 := hr' a; have h4 := hp2 a
  simp only [List.count_append, List.map_append] at h1 h2 h3 h4 ⊢
  omega

/-- the same with ONE hypothesis about cycles: the needs graph of the bigger file is acyclic -/
theorem lint_add_job_acyclic (mW : MapCtx) (tag : String) (l c : Nat) (pre post : List (Node × Node)) (kn vn : Node)
    (hW : mW.Keyed cfg "jobs") (hfresh : ∀ q ∈ pre ++ post, keyId cfg false q.1 ≠ keyId cfg false kn) (hne : pre ++ post ≠ [])
    (hun : ∀ j ∈ jobsOf (parse cfg (jobsDoc mW tag l c (pre ++ post))).1, ∀ n ∈ j.needs.getD [], cfg.lower n.value ≠ keyId cfg false kn)
    (hac : ¬ AL.Spec.Cyclic (graphOf cfg.lower (jobsIn (parse cfg (jobsDoc mW tag l c (pre ++ (kn, vn) :: post))).1))) :
    (lint cfg isNum urlOk (jobsDoc mW tag l c (pre ++ (kn, vn) :: post)) lc).Perm
      (lint cfg isNum urlOk (jobsDoc mW tag l c (pre ++ post)) lc ++
        (((parseString kn false).2 ++ (jobOfPair cfg (kn, vn)).2).map ofPErr ++
         ((needsDup cfg.lower (jobOfPair cfg (kn, vn)).1 ++
            needsUndef cfg.lower (idsOf cfg.lower ((parse cfg (jobsDoc mW tag l c (pre ++ (kn, vn) :: post))).1.jobs.getD [])) (jobOfPair cfg (kn, vn)).1) ++
          perJob cfg.lower urlOk (jobOfPair cfg (kn, vn)).1 lc))) := by
  obtain ⟨W, e0, e1⟩ := document_add_job_ast cfg mW tag l c pre post kn vn hW hfresh
  have hnd := parsed_idsOf_nodup cfg _ W _ e1
  obtain ⟨h1, h0⟩ := noCyclic_of_acyclic_bigger cfg.lower W _ _ (keyId cfg false kn) (jobOfPair cfg (kn, vn)).1 hnd (e1 ▸ hac)
  exact lint_add_job cfg isNum urlOk lc mW tag l c pre post kn vn hW hfresh hne hun (e1 ▸ h1) (e0 ▸ h0)

/-- **two adjacent jobs swapped, the whole linter**: the diagnostics of the two files are the same multiset (the sort at
the end of `Linter.check` then orders them by position). Job-needs must report no cycle in either file: which of several
cycles it reports depends on the order of the jobs (`swap_changes_reported_cycle`). -/
theorem lint_swap_jobs (mW : MapCtx) (tag : String) (l c : Nat) (pre post : List (Node × Node)) (k₁ v₁ k₂ v₂ : Node)
    (hW : mW.Keyed cfg "jobs")
    (h₁ : ∀ q ∈ pre ++ post, keyId cfg false q.1 ≠ keyId cfg false k₁)
    (h₂ : ∀ q ∈ pre ++ post, keyId cfg false q.1 ≠ keyId cfg false k₂)
    (h₁₂ : keyId cfg false k₁ ≠ keyId cfg false k₂)
    (hc : NoCyclicReport cfg.lower (parse cfg (jobsDoc mW tag l c (pre ++ (k₁, v₁) :: (k₂, v₂) :: post))).1)
    (hc' : NoCyclicReport cfg.lower (parse cfg (jobsDoc mW tag l c (pre ++ (k₂, v₂) :: (k₁, v₁) :: post))).1) :
    (lint cfg isNum urlOk (jobsDoc mW tag l c (pre ++ (k₂, v₂) :: (k₁, v₁) :: post)) lc).Perm
      (lint cfg isNum urlOk (jobsDoc mW tag l c (pre ++ (k₁, v₁) :: (k₂, v₂) :: post)) lc) := by
  obtain ⟨W, e1, e2, hp⟩ := document_swap_jobs cfg mW tag l c pre post k₁ v₁ k₂ v₂ hW h₁ h₂ h₁₂
  have hnd := parsed_idsOf_nodup cfg _ W _ e1
  have hperm : (jobsOfPairs cfg pre [] ++ jobEntry cfg (k₁, v₁) :: jobEntry cfg (k₂, v₂) :: jobsOfPairs cfg post (seenAfter cfg false pre [])).Perm
      (jobsOfPairs cfg pre [] ++ jobEntry cfg (k₂, v₂) :: jobEntry cfg (k₁, v₁) :: jobsOfPairs cfg post (seenAfter cfg false pre [])) :=
    List.Perm.append_left _ (List.Perm.swap _ _ _)
  have hr := rules_reorder cfg.lower isNum urlOk lc W _ _ hperm hnd (e1 ▸ hc) (e2 ▸ hc')
  have hr' : (rules cfg.lower isNum urlOk (parse cfg (jobsDoc mW tag l c (pre ++ (k₁, v₁) :: (k₂, v₂) :: post))).1 lc).Perm
      (rules cfg.lower isNum urlOk (parse cfg (jobsDoc mW tag l c (pre ++ (k₂, v₂) :: (k₁, v₁) :: post))).1 lc) := by
    rw [e1, e2]; exact hr
  refine (lint_perm cfg isNum urlOk lc _).trans (List.Perm.trans ?_ (lint_perm cfg isNum urlOk lc _).symm)
  exact (hp.map ofPErr).append hr'.symm

end Lint

/-! ## 5. steps -/

section Steps

/-- **`parseSteps` is per step**: the steps are the elements parsed one by one, the diagnostics are concatenated -/
theorem stepsOf_eq_map (cfg : Cfg) : ∀ cs : List Node,
    stepsOf cfg cs = (cs.map (fun c => (parseStep cfg c).1), cs.flatMap (fun c => (parseStep cfg c).2))
  | [] => rfl
  | c :: cs => by simp [stepsOf, stepsOf_eq_map cfg cs]

theorem stepsOf_append (cfg : Cfg) (a b : List Node) :
    stepsOf cfg (a ++ b) = ((stepsOf cfg a).1 ++ (stepsOf cfg b).1, (stepsOf cfg a).2 ++ (stepsOf cfg b).2) := by
  simp [stepsOf_eq_map]

/-- `jobs:` looks at the value of one job's key (the first with its folded id) only through `parseJob` -/
theorem parseJobs_split (cfg : Cfg) (mJ : MapCtx) (hJ : mJ.Free cfg) :
    ∃ (J₁ J₂ : List (String × Job)) (A B : List PErr), ∀ v,
      parseJobs cfg (mJ.at v) =
        (J₁ ++ (keyId cfg false mJ.key, (parseJob cfg (parseString mJ.key false).1 v).1) :: J₂,
         A ++ ((parseJob cfg (parseString mJ.key false).1 v).2 ++ B)) := by
  have hS : lookupSeen (keyId cfg false mJ.key) (seenAfter cfg false mJ.pre []) = none :=
    (lookupSeen_seenAfter_none cfg false _ mJ.pre []).2 ⟨rfl, hJ⟩
  refine ⟨(mapKVs (fun kv => parseJob cfg kv.key kv.val) (mappingLoop cfg (sectionWhat "jobs") false mJ.pre []).1).1,
    (mapKVs (fun kv => parseJob cfg kv.key kv.val) (mappingLoop cfg (sectionWhat "jobs") false mJ.post
      (seenAfter cfg false mJ.pre [] ++ [(keyId cfg false mJ.key, (parseString mJ.key false).1.pos)])).1).1,
    (mappingLoop cfg (sectionWhat "jobs") false mJ.pre []).2 ++ ((parseString mJ.key false).2 ++
      (mappingLoop cfg (sectionWhat "jobs") false mJ.post
        (seenAfter cfg false mJ.pre [] ++ [(keyId cfg false mJ.key, (parseString mJ.key false).1.pos)])).2) ++
      (mapKVs (fun kv => parseJob cfg kv.key kv.val) (mappingLoop cfg (sectionWhat "jobs") false mJ.pre []).1).2,
    (mapKVs (fun kv => parseJob cfg kv.key kv.val) (mappingLoop cfg (sectionWhat "jobs") false mJ.post
      (seenAfter cfg false mJ.pre [] ++ [(keyId cfg false mJ.key, (parseString mJ.key false).1.pos)])).1).2, ?_⟩
  intro v
  have hm : mappingLoop cfg (sectionWhat "jobs") false (mJ.pre ++ (mJ.key, v) :: mJ.post) [] =
      ((mappingLoop cfg (sectionWhat "jobs") false mJ.pre []).1 ++ ⟨keyId cfg false mJ.key, (parseString mJ.key false).1, v⟩ ::
        (mappingLoop cfg (sectionWhat "jobs") false mJ.post
          (seenAfter cfg false mJ.pre [] ++ [(keyId cfg false mJ.key, (parseString mJ.key false).1.pos)])).1,
       (mappingLoop cfg (sectionWhat "jobs") false mJ.pre []).2 ++ ((parseString mJ.key false).2 ++
        (mappingLoop cfg (sectionWhat "jobs") false mJ.post
          (seenAfter cfg false mJ.pre [] ++ [(keyId cfg false mJ.key, (parseString mJ.key false).1.pos)])).2)) := by
    rw [mappingLoop_append, mappingLoop_cons, hS]
  simp only [MapCtx.at, parseJobs, parseSectionMapping, parseMapping_mapNode, hm, mapKVs_eq_map, List.map_append, List.map_cons,
    List.flatMap_append, List.flatMap_cons, List.append_assoc]
  simp

/-- a job looks at its (non-empty) `steps:` sequence only through `stepsOf`: the job is one fixed job with `Steps` set to
the parsed steps, the diagnostics are those of the steps between two fixed lists -/
theorem parseJob_steps_split (cfg : Cfg) (jid : Str) (mK : MapCtx) (hK : mK.Keyed cfg "steps") (tag : String) (l c : Nat) (c0 : Node) :
    ∃ (Jb : Job) (A B : List PErr), ∀ t : List Node,
      parseJob cfg jid (mK.at (seqNode tag l c (c0 :: t))) =
        ({ Jb with steps := some (stepsOf cfg (c0 :: t)).1 }, A ++ ((stepsOf cfg (c0 :: t)).2 ++ B)) := by
  obtain ⟨Jb, A, B, h⟩ := Sect.split (jobSect cfg jid) cfg (jobWhat jid.value) true mK (fun t => seqNode tag l c (c0 :: t))
    (fun t => stepsOf cfg (c0 :: t))
    (fun b st => { st with job := { st.job with steps := some b } })
    (fun st => { st with stepsOnlyKey := some (parseString mK.key false).1 })
    (fun b J => { J with steps := some b })
    (fun st => jobFinish jid { st with job := { st.job with steps := some [] } })
    hK.first'
    (by intro s t; rw [hK.id]; simp only [jobSect, jobKey, parseSteps_seqNode])
    (by
      intro b s kv hkv
      rw [hK.id] at hkv
      simp only [jobSect, jobKey]
      split <;> first | rfl | (rename_i h; exact absurd h hkv) | (split <;> first | rfl | (split <;> rfl)))
    (by
      intro b s
      simp only [jobSect, jobFinish]
      split
      · split <;> rfl
      · rfl)
  exact ⟨Jb, A, B, fun t => h t⟩

/-- a workflow file with the path `jobs:` → one job → `steps:` → a sequence of step nodes -/
def stepsDoc (mW mJ mK : MapCtx) (tag : String) (l c : Nat) (steps : List Node) : Node :=
  docNode (mW.at (mJ.at (mK.at (seqNode tag l c steps))))

/-- **the document as a function of one job's steps.** Whatever the (non-empty) list of step nodes of that job: the AST is
one fixed workflow, with one fixed job at a fixed place, with `Steps` set to the steps parsed one by one; the parser's
diagnostics are those of the steps, in order, between two fixed lists. -/
theorem document_steps_split (cfg : Cfg) (mW mJ mK : MapCtx) (tag : String) (l c : Nat) (c0 : Node)
    (hW : mW.Keyed cfg "jobs") (hJ : mJ.Free cfg) (hK : mK.Keyed cfg "steps") :
    ∃ (W : Workflow) (J₁ J₂ : List (String × Job)) (Jb : Job) (A B : List PErr), ∀ t : List Node,
      parse cfg (stepsDoc mW mJ mK tag l c (c0 :: t)) =
        (withJobs W (J₁ ++ (keyId cfg false mJ.key, { Jb with steps := some (stepsOf cfg (c0 :: t)).1 }) :: J₂),
         A ++ ((stepsOf cfg (c0 :: t)).2 ++ B)) := by
  obtain ⟨W, A₁, B₁, h₁⟩ := parse_jobs_split cfg mW hW
  obtain ⟨J₁, J₂, A₂, B₂, h₂⟩ := parseJobs_split cfg mJ hJ
  obtain ⟨Jb, A₃, B₃, h₃⟩ := parseJob_steps_split cfg (parseString mJ.key false).1 mK hK tag l c c0
  refine ⟨W, J₁, J₂, Jb, A₁ ++ (A₂ ++ A₃), B₃ ++ (B₂ ++ B₁), fun t => ?_⟩
  simp only [stepsDoc, h₁, h₂, h₃, List.append_assoc]

/-- **one more step at the end of a job, in the document**: the AST changes by exactly that step at the end of that job's
`Steps`; the parser's diagnostics are the old ones with `(parseStep cfg s).2` inserted after those of the earlier steps.
Nothing about an earlier step, about the job's other keys, about another job or about the header changes. -/
theorem document_append_step (cfg : Cfg) (mW mJ mK : MapCtx) (tag : String) (l c : Nat) (c0 : Node) (t : List Node) (s : Node)
    (hW : mW.Keyed cfg "jobs") (hJ : mJ.Free cfg) (hK : mK.Keyed cfg "steps") :
    ∃ (W : Workflow) (J₁ J₂ : List (String × Job)) (Jb : Job) (A B : List PErr),
      parse cfg (stepsDoc mW mJ mK tag l c (c0 :: t)) =
        (withJobs W (J₁ ++ (keyId cfg false mJ.key, { Jb with steps := some (stepsOf cfg (c0 :: t)).1 }) :: J₂),
         A ++ ((stepsOf cfg (c0 :: t)).2 ++ B)) ∧
      parse cfg (stepsDoc mW mJ mK tag l c (c0 :: (t ++ [s]))) =
        (withJobs W (J₁ ++ (keyId cfg false mJ.key, { Jb with steps := some ((stepsOf cfg (c0 :: t)).1 ++ [(parseStep cfg s).1]) }) :: J₂),
         A ++ (((stepsOf cfg (c0 :: t)).2 ++ (parseStep cfg s).2) ++ B)) := by
  obtain ⟨W, J₁, J₂, Jb, A, B, h⟩ := document_steps_split cfg mW mJ mK tag l c c0 hW hJ hK
  refine ⟨W, J₁, J₂, Jb, A, B, h t, ?_⟩
  rw [h (t ++ [s]), ← List.cons_append, stepsOf_append]
  simp [stepsOf]

/-! ### the expression rule and the steps -/

section ExprSteps
open AL.RuleExpr AL.C09E AL.C05E

/-- **the block of a job, one more step at the end**: the part before the steps and the diagnostics of the earlier steps
are literally the same; the new step is checked under the scope the earlier steps leave; only `VisitJobPost`
(`environment`, `outputs`) is redone, under the scope that now includes the new step -/
theorem visitJob_append_step (cx0 : Cx) (isNum : IsNumber) (jobs : List (String × Job)) (Jb : Job) (S : List Step) (st : Step) :
    visitJob cx0 isNum jobs { Jb with steps := some S } =
      jobHead cx0 isNum jobs Jb ++ (visitSteps (stepsCx cx0 isNum jobs Jb) S).2 ++
        jobPost (visitSteps (stepsCx cx0 isNum jobs Jb) S).1 Jb ∧
    visitJob cx0 isNum jobs { Jb with steps := some (S ++ [st]) } =
      jobHead cx0 isNum jobs Jb ++ ((visitSteps (stepsCx cx0 isNum jobs Jb) S).2 ++
        (visitStep (visitSteps (stepsCx cx0 isNum jobs Jb) S).1 st).2) ++
        jobPost (visitStep (visitSteps (stepsCx cx0 isNum jobs Jb) S).1 st).1 Jb := by
  refine ⟨rfl, ?_⟩
  rw [visitJob_eq]
  have e : ({ Jb with steps := some (S ++ [st]) } : Job).steps.getD [] = S ++ [st] := rfl
  obtain ⟨h1, h2⟩ := visitSteps_prefix (stepsCx cx0 isNum jobs Jb) S [st]
  rw [e]
  have e1 : stepsCx cx0 isNum jobs { Jb with steps := some (S ++ [st]) } = stepsCx cx0 isNum jobs Jb := rfl
  have e2 : jobHead cx0 isNum jobs { Jb with steps := some (S ++ [st]) } = jobHead cx0 isNum jobs Jb := rfl
  rw [e1, e2, h1, h2]
  simp only [visitSteps, List.append_nil]
  rfl

/-- **the blocks of all jobs are blind to the steps of another job** -/
theorem visitJob_steps_elsewhere (cx : Cx) (isNum : IsNumber) (J₁ J₂ : List (String × Job)) (k : String) (Jb : Job)
    (S S' : Option (List Step)) (n : Job) :
    visitJob cx isNum (J₁ ++ (k, { Jb with steps := S }) :: J₂) n = visitJob cx isNum (J₁ ++ (k, { Jb with steps := S' }) :: J₂) n :=
  job_depends_on_needed_only cx isNum _ _ n (fun _ _ => lookupJob_replace _ k { Jb with steps := S } { Jb with steps := S' } J₂ rfl J₁)

/-- **the whole expression rule, one more step at the end of one job.** Header, the blocks of all other jobs, the part of
this job's block before its steps, the diagnostics of its EARLIER STEPS and the `workflow_call` outputs are literally the
same lists; the new step's diagnostics follow those of the earlier steps; `VisitJobPost` of this job is redone. -/
theorem rule_append_step (lower : String → String) (isNum : IsNumber) (proj : ProjView) (W : Workflow)
    (J₁ J₂ : List (String × Job)) (k : String) (Jb : Job) (S : List Step) (st : Step) :
    rule lower isNum (withJobs W (J₁ ++ (k, { Jb with steps := some S }) :: J₂)) proj =
      exprHeader lower W proj ++
      (J₁.flatMap (fun kv => visitJob (headerCx lower W proj) isNum (J₁ ++ (k, { Jb with steps := some S }) :: J₂) kv.2) ++
       ((jobHead (headerCx lower W proj) isNum (J₁ ++ (k, { Jb with steps := some S }) :: J₂) Jb ++
          (visitSteps (stepsCx (headerCx lower W proj) isNum (J₁ ++ (k, { Jb with steps := some S }) :: J₂) Jb) S).2 ++
          jobPost (visitSteps (stepsCx (headerCx lower W proj) isNum (J₁ ++ (k, { Jb with steps := some S }) :: J₂) Jb) S).1 Jb) ++
        J₂.flatMap (fun kv => visitJob (headerCx lower W proj) isNum (J₁ ++ (k, { Jb with steps := some S }) :: J₂) kv.2))) ++
      exprOutputs lower W (J₁ ++ (k, { Jb with steps := some S }) :: J₂) proj ∧
    rule lower isNum (withJobs W (J₁ ++ (k, { Jb with steps := some (S ++ [st]) }) :: J₂)) proj =
      exprHeader lower W proj ++
      (J₁.flatMap (fun kv => visitJob (headerCx lower W proj) isNum (J₁ ++ (k, { Jb with steps := some S }) :: J₂) kv.2) ++
       ((jobHead (headerCx lower W proj) isNum (J₁ ++ (k, { Jb with steps := some S }) :: J₂) Jb ++
          ((visitSteps (stepsCx (headerCx lower W proj) isNum (J₁ ++ (k, { Jb with steps := some S }) :: J₂) Jb) S).2 ++
           (visitStep (visitSteps (stepsCx (headerCx lower W proj) isNum (J₁ ++ (k, { Jb with steps := some S }) :: J₂) Jb) S).1 st).2) ++
          jobPost (visitStep (visitSteps (stepsCx (headerCx lower W proj) isNum (J₁ ++ (k, { Jb with steps := some S }) :: J₂) Jb) S).1 st).1 Jb) ++
        J₂.flatMap (fun kv => visitJob (headerCx lower W proj) isNum (J₁ ++ (k, { Jb with steps := some S }) :: J₂) kv.2))) ++
      exprOutputs lower W (J₁ ++ (k, { Jb with steps := some S }) :: J₂) proj := by
  constructor
  · rw [rule_eq, List.flatMap_append, List.flatMap_cons, (visitJob_append_step _ isNum _ Jb S st).1]
  · rw [rule_eq, List.flatMap_append, List.flatMap_cons, (visitJob_append_step _ isNum _ Jb S st).2,
      exprOutputs_steps lower W proj J₁ J₂ k Jb (some (S ++ [st])) (some S)]
    have e1 : stepsCx (headerCx lower W proj) isNum (J₁ ++ (k, { Jb with steps := some (S ++ [st]) }) :: J₂) Jb =
        stepsCx (headerCx lower W proj) isNum (J₁ ++ (k, { Jb with steps := some S }) :: J₂) Jb := by
      simp only [stepsCx, needsTy_steps _ _ J₁ J₂ k Jb (some (S ++ [st])) (some S)]
    have e2 : jobHead (headerCx lower W proj) isNum (J₁ ++ (k, { Jb with steps := some (S ++ [st]) }) :: J₂) Jb =
        jobHead (headerCx lower W proj) isNum (J₁ ++ (k, { Jb with steps := some S }) :: J₂) Jb := by
      simp only [jobHead, needsTy_steps _ _ J₁ J₂ k Jb (some (S ++ [st])) (some S)]
    have h₁ : J₁.flatMap (fun kv => visitJob (headerCx lower W proj) isNum (J₁ ++ (k, { Jb with steps := some (S ++ [st]) }) :: J₂) kv.2) =
        J₁.flatMap (fun kv => visitJob (headerCx lower W proj) isNum (J₁ ++ (k, { Jb with steps := some S }) :: J₂) kv.2) :=
      List.flatMap_congr fun p _ => visitJob_steps_elsewhere _ isNum J₁ J₂ k Jb _ _ p.2
    have h₂ : J₂.flatMap (fun kv => visitJob (headerCx lower W proj) isNum (J₁ ++ (k, { Jb with steps := some (S ++ [st]) }) :: J₂) kv.2) =
        J₂.flatMap (fun kv => visitJob (headerCx lower W proj) isNum (J₁ ++ (k, { Jb with steps := some S }) :: J₂) kv.2) :=
      List.flatMap_congr fun p _ => visitJob_steps_elsewhere _ isNum J₁ J₂ k Jb _ _ p.2
    rw [e1, e2, h₁, h₂]

/-- **the expression rule, one more step, in the document.** A step node `s` is appended to the (non-empty) `steps:`
sequence of one job of a workflow file. The rule's diagnostics on the two files have the shape
`P ++ E ++ post ++ T` and `P ++ (E ++ new) ++ post' ++ T`: the same prefix `P` (header, earlier jobs, this job before its
steps), the same diagnostics `E` of the EARLIER STEPS (`visitSteps` from a fixed scope `cS` over the earlier steps), then
the new step checked under the scope the earlier steps leave, then this job's `VisitJobPost` (redone), then the same
tail `T` (later jobs, `workflow_call` outputs). -/
theorem expr_append_step_document (cfg : Cfg) (isNum : IsNumber) (proj : ProjView) (mW mJ mK : MapCtx) (tag : String) (l c : Nat)
    (c0 : Node) (t : List Node) (s : Node)
    (hW : mW.Keyed cfg "jobs") (hJ : mJ.Free cfg) (hK : mK.Keyed cfg "steps") :
    ∃ (P T : List RuleExpr.Diag) (cS : Cx) (Jb : Job),
      rule cfg.lower isNum (parse cfg (stepsDoc mW mJ mK tag l c (c0 :: t))).1 proj =
        P ++ (visitSteps cS (stepsOf cfg (c0 :: t)).1).2 ++ jobPost (visitSteps cS (stepsOf cfg (c0 :: t)).1).1 Jb ++ T ∧
      rule cfg.lower isNum (parse cfg (stepsDoc mW mJ mK tag l c (c0 :: (t ++ [s])))).1 proj =
        P ++ ((visitSteps cS (stepsOf cfg (c0 :: t)).1).2 ++
              (visitStep (visitSteps cS (stepsOf cfg (c0 :: t)).1).1 (parseStep cfg s).1).2) ++
          jobPost (visitStep (visitSteps cS (stepsOf cfg (c0 :: t)).1).1 (parseStep cfg s).1).1 Jb ++ T := by
  obtain ⟨W, J₁, J₂, Jb, A, B, e0, e1⟩ := document_append_step cfg mW mJ mK tag l c c0 t s hW hJ hK
  obtain ⟨a, b⟩ := rule_append_step cfg.lower isNum proj W J₁ J₂ (keyId cfg false mJ.key) Jb (stepsOf cfg (c0 :: t)).1 (parseStep cfg s).1
  have e0' := congrArg Prod.fst e0
  have e1' := congrArg Prod.fst e1
  simp only at e0' e1'
  rw [e0', e1', a, b]
  generalize J₁ ++ (keyId cfg false mJ.key, ({ Jb with steps := some (stepsOf cfg (c0 :: t)).1 } : Job)) :: J₂ = js
  refine ⟨exprHeader cfg.lower W proj ++ (J₁.flatMap (fun kv => visitJob (headerCx cfg.lower W proj) isNum js kv.2) ++
      jobHead (headerCx cfg.lower W proj) isNum js Jb),
    J₂.flatMap (fun kv => visitJob (headerCx cfg.lower W proj) isNum js kv.2) ++ exprOutputs cfg.lower W js proj,
    stepsCx (headerCx cfg.lower W proj) isNum js Jb, Jb, ?_, ?_⟩ <;> simp only [List.append_assoc]

end ExprSteps

/-! ### the AST-only rules and the steps -/

section RulesSteps
open AL.Rules AL.C09A AL.C18P

/-- **the per-job block of the AST-only rules, one more step at the end**: up to order, the old block plus what the rules
report about the new step alone (`stepOwn`: shell-name under the job's platform, action, env-var, id — against the ids
of the earlier steps —, deprecated-commands, if-cond). Nothing about an earlier step changes. -/
theorem perJob_append_step (lower : String → String) (urlOk : String → Bool) (lc : LabelCfg) (Jb : Job) (S : List Step) (st : Step) :
    (perJob lower urlOk { Jb with steps := some (S ++ [st]) } lc).Perm
      (perJob lower urlOk { Jb with steps := some S } lc ++ stepOwn lower urlOk Jb S st) := by
  have e : ∀ X : List Step, Rules.stepsOf ({ Jb with steps := some X } : Job) = X := fun _ => rfl
  have hs : ∀ X : List Step, shellNameJob lower ({ Jb with steps := some X } : Job) =
      (match Jb.runsOn with | some _ => checkShellName lower (jobPlatform lower Jb) (defaultsShell Jb.defaults) | none => []) ++
      X.flatMap (shellStep lower (jobPlatform lower Jb)) := fun _ => rfl
  have hd : ∀ X : List Step, deprecatedJob ({ Jb with steps := some X } : Job) = X.flatMap deprecatedStep := fun _ => rfl
  rw [List.perm_iff_count]
  intro a
  simp only [perJob, stepOwn, hs, hd, e, envVarJob, idJob, ifCondJob, idSteps_append, List.flatMap_append, List.flatMap_cons,
    List.flatMap_nil, List.append_nil, List.count_append]
  have m1 : matrixJob ({ Jb with steps := some (S ++ [st]) } : Job) = matrixJob ({ Jb with steps := some S } : Job) := rfl
  have m2 : credentialsJob ({ Jb with steps := some (S ++ [st]) } : Job) = credentialsJob ({ Jb with steps := some S } : Job) := rfl
  have m3 : runnerLabelJob lower ({ Jb with steps := some (S ++ [st]) } : Job) lc = runnerLabelJob lower ({ Jb with steps := some S } : Job) lc := rfl
  have m4 : workflowCallJob ({ Jb with steps := some (S ++ [st]) } : Job) = workflowCallJob ({ Jb with steps := some S } : Job) := rfl
  rw [m1, m2, m3, m4]
  omega


/-- job-needs does not look at the steps -/
theorem ruleJobNeeds_steps (lower : String → String) (W : Workflow) (J₁ J₂ : List (String × Job)) (k : String) (Jb : Job)
    (S S' : Option (List Step)) :
    ruleJobNeeds lower (withJobs W (J₁ ++ (k, { Jb with steps := S }) :: J₂)) =
      ruleJobNeeds lower (withJobs W (J₁ ++ (k, { Jb with steps := S' }) :: J₂)) := by
  simp only [ruleJobNeeds, jobsOf, Option.getD_some, List.map_append, List.map_cons]
  rfl

/-- **all the AST-only rules, one more step at the end of one job** — every workflow, no side condition: the diagnostics
are, as a multiset, the old ones plus `stepOwn` of the new step -/
theorem rules_append_step (lower : String → String) (isNum urlOk : String → Bool) (lc : LabelCfg) (W : Workflow)
    (J₁ J₂ : List (String × Job)) (k : String) (Jb : Job) (S : List Step) (st : Step) :
    (rules lower isNum urlOk (withJobs W (J₁ ++ (k, { Jb with steps := some (S ++ [st]) }) :: J₂)) lc).Perm
      (rules lower isNum urlOk (withJobs W (J₁ ++ (k, { Jb with steps := some S }) :: J₂)) lc ++ stepOwn lower urlOk Jb S st) := by
  have h1 := rules_per_job lower isNum urlOk (withJobs W (J₁ ++ (k, { Jb with steps := some (S ++ [st]) }) :: J₂)) lc
  have h2 := rules_per_job lower isNum urlOk (withJobs W (J₁ ++ (k, { Jb with steps := some S }) :: J₂)) lc
  have h3 := perJob_append_step lower urlOk lc Jb S st
  rw [ruleJobNeeds_steps lower W J₁ J₂ k Jb (some (S ++ [st])) (some S),
    header_withJobs lower isNum lc W _ (J₁ ++ (k, { Jb with steps := some S }) :: J₂)] at h1
  simp only [jobsOf, Option.getD_some, List.map_append, List.map_cons, List.flatMap_append, List.flatMap_cons] at h1 h2
  rw [List.perm_iff_count] at h1 h2 h3 ⊢
  intro a
  have := h1 a; have := h2 a; have := h3 a
  simp only [List.count_append] at *
  omega

/-- **one more step, the whole linter** (parser + all the AST-only rules + the sort) — every workflow file with a job
with a non-empty `steps:` sequence, NO side condition: appending the step node `s` adds to the diagnostics of the file
exactly the new step's own — its syntax diagnostics `(parseStep cfg s).2` and `stepOwn` of the parsed step — as a
multiset. No diagnostic about an earlier step, the job, another job or the header appears, disappears or changes. -/
theorem lint_append_step (cfg : Cfg) (isNum urlOk : String → Bool) (lc : LabelCfg) (mW mJ mK : MapCtx) (tag : String) (l c : Nat)
    (c0 : Node) (t : List Node) (s : Node)
    (hW : mW.Keyed cfg "jobs") (hJ : mJ.Free cfg) (hK : mK.Keyed cfg "steps") :
    ∃ Jb : Job,
      (keyId cfg false mJ.key, { Jb with steps := some (stepsOf cfg (c0 :: t)).1 }) ∈
        (parse cfg (stepsDoc mW mJ mK tag l c (c0 :: t))).1.jobs.getD [] ∧
      (lint cfg isNum urlOk (stepsDoc mW mJ mK tag l c (c0 :: (t ++ [s]))) lc).Perm
        (lint cfg isNum urlOk (stepsDoc mW mJ mK tag l c (c0 :: t)) lc ++
          ((parseStep cfg s).2.map ofPErr ++ stepOwn cfg.lower urlOk Jb (stepsOf cfg (c0 :: t)).1 (parseStep cfg s).1)) := by
  obtain ⟨W, J₁, J₂, Jb, A, B, e0, e1⟩ := document_append_step cfg mW mJ mK tag l c c0 t s hW hJ hK
  refine ⟨Jb, by rw [e0]; simp, ?_⟩
  have L1 := lint_perm cfg isNum urlOk lc (stepsDoc mW mJ mK tag l c (c0 :: (t ++ [s])))
  have L0 := lint_perm cfg isNum urlOk lc (stepsDoc mW mJ mK tag l c (c0 :: t))
  have hr := rules_append_step cfg.lower isNum urlOk lc W J₁ J₂ (keyId cfg false mJ.key) Jb (stepsOf cfg (c0 :: t)).1 (parseStep cfg s).1
  rw [e1] at L1
  rw [e0] at L0
  simp only at L1 L0
  rw [List.perm_iff_count] at L1 L0 hr ⊢
  intro a
  have h1 := L1 a; have h2 := L0 a; have h3 := hr a
  simp only [List.count_append, List.map_append] at h1 h2 h3 ⊢
  omega

end RulesSteps

end Steps

/-! ## examples (the hypotheses are satisfiable) and witnesses (what is FALSE of the model) -/

section Examples
open AL.Rules AL.C09A

/-- `{runs-on: ubuntu-latest, needs: [...], steps: [{run: x}]}` on line `l` -/
def jobV (l : Nat) (needs : List String) : Node :=
  mapNode "!!map" l 5 ([(sc "runs-on" l 5, sc "ubuntu-latest" l 14)] ++
    (if needs.isEmpty then [] else [(sc "needs" l 30, seqNode "!!seq" l 37 (needs.map fun n => sc n l 38))]) ++
    [(sc "steps" l 50, seqNode "!!seq" l 57 [mapNode "!!map" l 59 [(sc "run" l 59, sc "x" l 64)]])])

/-- the pair `id: {…}` of the `jobs:` mapping, on line `l` -/
def jp (id : String) (l : Nat) (needs : List String) : Node × Node := (sc id l 3, jobV l needs)

/-- `on: push` / `jobs:` with the given pairs -/
def xDoc (ps : List (Node × Node)) : Node := jobsDoc exRoot "!!map" 3 3 ps

def isNumX : String → Bool := fun _ => false
def urlOkX : String → Bool := fun _ => true

theorem exRoot_jobs : exRoot.Keyed exCfg "jobs" := ⟨goodKey_of_scalar _ rfl (by decide), rfl, by decide⟩

/-- jobs `a`, `b` (needs a), `c`: acyclic, nothing undefined -/
def pA := jp "a" 3 []
def pB := jp "b" 4 ["a"]
def pC := jp "c" 5 []

/-! ### 1 -/

example := parseJobs_distinct exCfg "!!map" 3 3 [pA, pB, pC] (by decide)
example := parseJobs_insert exCfg "!!map" 3 3 [pA] [pC] pB.1 pB.2 (by decide)
example := parseJobs_insert_perm exCfg "!!map" 3 3 [pA] [pC] pB.1 pB.2 (by decide) (by simp)
example := parse_jobs_split exCfg exRoot exRoot_jobs
example := document_add_job_ast exCfg exRoot "!!map" 3 3 [pA] [pC] pB.1 pB.2 exRoot_jobs (by decide)
example := document_add_job_diags exCfg exRoot "!!map" 3 3 [pA] [pC] pB.1 pB.2 exRoot_jobs (by decide) (by simp)
example := document_add_job exCfg exRoot "!!map" 3 3 [pA] [pC] pB.1 pB.2 exRoot_jobs (by decide) (by simp)
example := parseJobs_swap exCfg "!!map" 3 3 [pA] [] pB.1 pB.2 pC.1 pC.2 (by decide) (by decide) (by decide)
example := document_swap_jobs exCfg exRoot "!!map" 3 3 [pA] [] pB.1 pB.2 pC.1 pC.2 exRoot_jobs (by decide) (by decide) (by decide)

/-- the file with `a`, `b`, `c` is clean for the parser; the three jobs come out in source order -/
example : (parse exCfg (xDoc [pA, pB, pC])).2 = [] ∧
    ((parse exCfg (xDoc [pA, pB, pC])).1.jobs.getD []).map (·.1) = ["a", "b", "c"] := by decide +kernel

/-- a syntax error inside job `b` (`bogus:`) is reported once and leaves the parse of `a` and `c` alone -/
example :
    (parse exCfg (xDoc [pA, (sc "b" 4 3, mapNode "!!map" 4 5 [(sc "bogus" 4 5, sc "x" 4 12)]), pC])).2.map (·.code) =
      ["unexpected-key", "job-no-steps", "job-no-runs-on"] ∧
    ((parse exCfg (xDoc [pA, (sc "b" 4 3, mapNode "!!map" 4 5 [(sc "bogus" 4 5, sc "x" 4 12)]), pC])).1.jobs.getD []).map (·.1) =
      ["a", "b", "c"] := by decide +kernel

/-! ### 2, 4: job-needs on the three files used below -/

theorem needs_abc : ruleJobNeeds exCfg.lower (parse exCfg (xDoc [pA, pB, pC])).1 = [] :=
  ruleJobNeeds_of _ _ [] [⟨"a", ⟨3, 3⟩, []⟩, ⟨"b", ⟨4, 3⟩, [0]⟩, ⟨"c", ⟨5, 3⟩, []⟩] [0, 1, 2] none rfl rfl rfl rfl
    (by open AL.Needs in cycle_eval)

theorem needs_ac : ruleJobNeeds exCfg.lower (parse exCfg (xDoc [pA, pC])).1 = [] :=
  ruleJobNeeds_of _ _ [] [⟨"a", ⟨3, 3⟩, []⟩, ⟨"c", ⟨5, 3⟩, []⟩] [0, 1] none rfl rfl rfl rfl
    (by open AL.Needs in cycle_eval)

theorem needs_acb : ruleJobNeeds exCfg.lower (parse exCfg (xDoc [pA, pC, pB])).1 = [] :=
  ruleJobNeeds_of _ _ [] [⟨"a", ⟨3, 3⟩, []⟩, ⟨"c", ⟨5, 3⟩, []⟩, ⟨"b", ⟨4, 3⟩, [0]⟩] [0, 1, 2] none rfl rfl rfl rfl
    (by open AL.Needs in cycle_eval)

theorem noCyc_of_nil {lower : String → String} {w : Workflow} (h : ruleJobNeeds lower w = []) : NoCyclicReport lower w := by
  intro d hd; rw [h] at hd; cases hd

/-- acyclicity as the reason for `NoCyclicReport` -/
example : NoCyclicReport exCfg.lower (parse exCfg (xDoc [pA, pB, pC])).1 :=
  noCyclic_of_acyclic _ _ (by
    intro h
    obtain ⟨d, hd, _⟩ := C18P.rule_cyclic_some exCfg.lower _ (by rw [needs_abc]; simp) h
    rw [needs_abc] at hd
    cases hd)

/-- `lint_add_job` on a concrete file: job `b` (needs `a`) inserted between `a` and `c` -/
example := lint_add_job exCfg isNumX urlOkX {} exRoot "!!map" 3 3 [pA] [pC] pB.1 pB.2 exRoot_jobs (by decide) (by simp)
  (by decide +kernel) (noCyc_of_nil needs_abc) (noCyc_of_nil needs_ac)

theorem acyclic_abc : ¬ AL.Spec.Cyclic (C18P.graphOf exCfg.lower (C18P.jobsIn (parse exCfg (xDoc [pA, pB, pC])).1)) := by
  intro h
  obtain ⟨d, hd, _⟩ := C18P.rule_cyclic_some exCfg.lower _ (by rw [needs_abc]; simp) h
  rw [needs_abc] at hd
  cases hd

example := lint_add_job_acyclic exCfg isNumX urlOkX {} exRoot "!!map" 3 3 [pA] [pC] pB.1 pB.2 exRoot_jobs (by decide) (by simp)
  (by decide +kernel) acyclic_abc

/-- `lint_swap_jobs` on a concrete file: `b` and `c` swapped -/
example := lint_swap_jobs exCfg isNumX urlOkX {} exRoot "!!map" 3 3 [pA] [] pB.1 pB.2 pC.1 pC.2 exRoot_jobs
  (by decide) (by decide) (by decide) (noCyc_of_nil needs_abc) (noCyc_of_nil needs_acb)

/-- the AST-level statements on the jobs of these files (the header `W` is irrelevant: take the empty workflow) -/
def eA := jobEntry exCfg pA
def eB := jobEntry exCfg pB
def eC := jobEntry exCfg pC

theorem needs_ast_abc : ruleJobNeeds exCfg.lower (withJobs {} ([eA] ++ eB :: [eC])) = [] := needs_abc
theorem needs_ast_ac : ruleJobNeeds exCfg.lower (withJobs {} ([eA] ++ [eC])) = [] := needs_ac
theorem needs_ast_acb : ruleJobNeeds exCfg.lower (withJobs {} [eA, eC, eB]) = [] := needs_acb

theorem ids_abc : (idsOf exCfg.lower ([eA] ++ eB :: [eC])).Nodup := by decide +kernel
theorem unneeded_b : Unneeded exCfg.lower (exCfg.lower eB.2.id.value) ([eA] ++ [eC]) := by
  intro p hp n hn
  revert n
  revert p
  decide +kernel

example := rules_add_job exCfg.lower isNumX urlOkX {} {} [eA] [eC] eB.1 eB.2 []
  (by rw [needs_ast_abc, needs_ast_ac]; exact List.Perm.refl _)
example := ruleJobNeeds_per_job exCfg.lower {} ([eA] ++ eB :: [eC]) ids_abc (noCyc_of_nil needs_ast_abc)
example := needs_add_job exCfg.lower {} [eA] [eC] eB.1 eB.2 ids_abc unneeded_b (noCyc_of_nil needs_ast_abc) (noCyc_of_nil needs_ast_ac)
example := needs_add_job_general exCfg.lower {} [eA] [eC] eB.1 eB.2 ids_abc (noCyc_of_nil needs_ast_abc) (noCyc_of_nil needs_ast_ac)
example := needs_add_job_quiet exCfg.lower {} [eA] [eC] eB.1 eB.2 ids_abc unneeded_b (by decide +kernel)
  (noCyc_of_nil needs_ast_abc) (noCyc_of_nil needs_ast_ac)
example := rules_add_unneeded_job exCfg.lower isNumX urlOkX {} {} [eA] [eC] eB.1 eB.2 ids_abc unneeded_b
  (noCyc_of_nil needs_ast_abc) (noCyc_of_nil needs_ast_ac)
example := noCyclic_of_acyclic_bigger exCfg.lower {} [eA] [eC] eB.1 eB.2 ids_abc acyclic_abc
example := rules_reorder exCfg.lower isNumX urlOkX {} {} ([eA] ++ eB :: [eC]) [eA, eC, eB]
  (List.Perm.cons _ (List.Perm.swap _ _ _)) ids_abc (noCyc_of_nil needs_ast_abc) (noCyc_of_nil needs_ast_acb)

/-! ### 3 -/

example := visitJob_other { lower := exCfg.lower } isNumX [eA] [eC] eB.1 eB.2 eC.2 (by decide +kernel)
example := rule_add_job exCfg.lower isNumX {} {} [eA] [eC] eB.1 eB.2 (by decide +kernel)
example := rule_add_job' exCfg.lower isNumX {} {} [eA] [eC] eB.1 eB.2 (by decide +kernel) rfl
example := expr_add_job_document exCfg isNumX {} exRoot "!!map" 3 3 [pA] [pC] pB.1 pB.2 exRoot_jobs (by decide) (by decide +kernel)

/-! ### 5 -/

/-- the job `build` with the steps `run: x`, `run: y` and the new step `uses: actions/checkout@v4` -/
def xJobs : MapCtx := ⟨"!!map", 3, 3, [], sc "build" 3 3, []⟩
def xJob : MapCtx := ⟨"!!map", 4, 5, [(sc "runs-on" 4 5, sc "ubuntu-latest" 4 14)], sc "steps" 5 5, []⟩
def st0 : Node := mapNode "!!map" 6 9 [(sc "run" 6 9, sc "x" 6 14)]
def st1 : Node := mapNode "!!map" 7 9 [(sc "run" 7 9, sc "y" 7 14)]
def st2 : Node := mapNode "!!map" 8 9 [(sc "uses" 8 9, sc "actions/checkout@v4" 8 15)]

theorem xJobs_free : xJobs.Free exCfg := by decide
theorem xJob_steps : xJob.Keyed exCfg "steps" := ⟨goodKey_of_scalar _ rfl (by decide), rfl, by decide⟩

example := parseJobs_split exCfg xJobs xJobs_free
example := parseJob_steps_split exCfg ⟨"build", false, ⟨3, 3⟩⟩ xJob xJob_steps "!!seq" 6 7 st0
example := document_steps_split exCfg exRoot xJobs xJob "!!seq" 6 7 st0 exRoot_jobs xJobs_free xJob_steps
example := document_append_step exCfg exRoot xJobs xJob "!!seq" 6 7 st0 [st1] st2 exRoot_jobs xJobs_free xJob_steps
example := expr_append_step_document exCfg isNumX {} exRoot xJobs xJob "!!seq" 6 7 st0 [st1] st2 exRoot_jobs xJobs_free xJob_steps
example := lint_append_step exCfg isNumX urlOkX {} exRoot xJobs xJob "!!seq" 6 7 st0 [st1] st2 exRoot_jobs xJobs_free xJob_steps

/-- a broken third step (`bogus:` only) is reported three times over and leaves the earlier steps alone -/
example :
    (parse exCfg (stepsDoc exRoot xJobs xJob "!!seq" 6 7 [st0, st1])).2 = [] ∧
    (parse exCfg (stepsDoc exRoot xJobs xJob "!!seq" 6 7 ([st0, st1] ++ [mapNode "!!map" 8 9 [(sc "bogus" 8 9, sc "z" 8 16)]]))).2.map (·.code) =
      ["unexpected-key", "step-no-exec"] := by decide +kernel

/-! ### witnesses: where "jobs are checked independently" is FALSE of the model — all three in job-needs

  job-needs reports (i) nothing about cycles as soon as ANY job has an undefined `needs:` entry, and (ii) only the FIRST
  cycle the depth-first search meets (rule_job_needs.go: `if !valid { return nil }`; "Only the first cycle can be
  detected"). Hence the side conditions `NoCyclicReport` of `lint_add_job` / `lint_swap_jobs` cannot be dropped. -/

/-- jobs `a ⇄ b`: one `needs-cyclic` report -/
theorem needs_cyc_ab : ruleJobNeeds exCfg.lower (parse exCfg (xDoc [jp "a" 3 ["b"], jp "b" 4 ["a"]])).1 =
    [⟨⟨3, 3⟩, "job-needs", "needs-cyclic", ["a,b,a"]⟩] :=
  ruleJobNeeds_of _ _ [] [⟨"a", ⟨3, 3⟩, [1]⟩, ⟨"b", ⟨4, 3⟩, [0]⟩] [0, 1] (some ⟨⟨3, 3⟩, ["a", "b", "a"]⟩) rfl rfl rfl rfl
    (by open AL.Needs in cycle_eval)

/-- **an error in one job hides a diagnostic about other jobs.** The file with the jobs `a ⇄ b` gets the `needs-cyclic`
report. Append a job `c` that nobody needs and that names neither `a` nor `b` — but a job `zz` that does not exist: the
whole output of the linter is the one `needs-undefined` report about `c`; the cycle between `a` and `b` is no longer
reported. -/
theorem undefined_need_hides_cycle :
    (⟨⟨3, 3⟩, "job-needs", "needs-cyclic", ["a,b,a"]⟩ : Diag) ∈ lint exCfg isNumX urlOkX (xDoc [jp "a" 3 ["b"], jp "b" 4 ["a"]]) ∧
    lint exCfg isNumX urlOkX (xDoc ([jp "a" 3 ["b"], jp "b" 4 ["a"]] ++ [jp "c" 5 ["zz"]])) =
      [⟨⟨5, 3⟩, "job-needs", "needs-undefined", ["c", "zz"]⟩] := by
  refine ⟨needs_mem_lint exCfg isNumX urlOkX {} _ _ (by rw [needs_cyc_ab]; simp), by decide +kernel⟩

/-- **an unrelated job changes what is reported about other jobs.** Jobs `a ⇄ b` and `c ⇄ d`: the cycle `a,b,a` is
reported. Put a job `x` in front that nobody needs and that needs the existing job `c`: now the cycle `c,d,c` is reported
and `a,b,a` is not. -/
theorem unrelated_job_changes_reported_cycle :
    ruleJobNeeds exCfg.lower (parse exCfg (xDoc [jp "a" 4 ["b"], jp "b" 5 ["a"], jp "c" 6 ["d"], jp "d" 7 ["c"]])).1 =
      [⟨⟨4, 3⟩, "job-needs", "needs-cyclic", ["a,b,a"]⟩] ∧
    ruleJobNeeds exCfg.lower (parse exCfg (xDoc ([] ++ jp "x" 3 ["c"] :: [jp "a" 4 ["b"], jp "b" 5 ["a"], jp "c" 6 ["d"], jp "d" 7 ["c"]]))).1 =
      [⟨⟨6, 3⟩, "job-needs", "needs-cyclic", ["c,d,c"]⟩] :=
  ⟨ruleJobNeeds_of _ _ [] [⟨"a", ⟨4, 3⟩, [1]⟩, ⟨"b", ⟨5, 3⟩, [0]⟩, ⟨"c", ⟨6, 3⟩, [3]⟩, ⟨"d", ⟨7, 3⟩, [2]⟩] [0, 1, 2, 3]
      (some ⟨⟨4, 3⟩, ["a", "b", "a"]⟩) rfl rfl rfl rfl (by open AL.Needs in cycle_eval),
   ruleJobNeeds_of _ _ [] [⟨"x", ⟨3, 3⟩, [3]⟩, ⟨"a", ⟨4, 3⟩, [2]⟩, ⟨"b", ⟨5, 3⟩, [1]⟩, ⟨"c", ⟨6, 3⟩, [4]⟩, ⟨"d", ⟨7, 3⟩, [3]⟩]
      [0, 1, 2, 3, 4] (some ⟨⟨6, 3⟩, ["c", "d", "c"]⟩) rfl rfl rfl rfl (by open AL.Needs in cycle_eval)⟩

/-- **reordering two jobs changes what is reported**: with the jobs in the order `a, c, b, d` (`a ⇄ b`, `c ⇄ d`) the cycle
`a,b,a` is reported, with `c, a, b, d` the cycle `c,d,c` -/
theorem swap_changes_reported_cycle :
    ruleJobNeeds exCfg.lower (parse exCfg (xDoc ([] ++ jp "a" 3 ["b"] :: jp "c" 4 ["d"] :: [jp "b" 5 ["a"], jp "d" 6 ["c"]]))).1 =
      [⟨⟨3, 3⟩, "job-needs", "needs-cyclic", ["a,b,a"]⟩] ∧
    ruleJobNeeds exCfg.lower (parse exCfg (xDoc ([] ++ jp "c" 4 ["d"] :: jp "a" 3 ["b"] :: [jp "b" 5 ["a"], jp "d" 6 ["c"]]))).1 =
      [⟨⟨4, 3⟩, "job-needs", "needs-cyclic", ["c,d,c"]⟩] :=
  ⟨ruleJobNeeds_of _ _ [] [⟨"a", ⟨3, 3⟩, [2]⟩, ⟨"c", ⟨4, 3⟩, [3]⟩, ⟨"b", ⟨5, 3⟩, [0]⟩, ⟨"d", ⟨6, 3⟩, [1]⟩] [0, 1, 2, 3]
      (some ⟨⟨3, 3⟩, ["a", "b", "a"]⟩) rfl rfl rfl rfl (by open AL.Needs in cycle_eval),
   ruleJobNeeds_of _ _ [] [⟨"c", ⟨4, 3⟩, [3]⟩, ⟨"a", ⟨3, 3⟩, [2]⟩, ⟨"b", ⟨5, 3⟩, [1]⟩, ⟨"d", ⟨6, 3⟩, [0]⟩] [0, 1, 2, 3]
      (some ⟨⟨4, 3⟩, ["c", "d", "c"]⟩) rfl rfl rfl rfl (by open AL.Needs in cycle_eval)⟩

end Examples

end AL.C09D
