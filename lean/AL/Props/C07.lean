import AL.Model.Positions
import AL.Props.C04Lex
import AL.Lemmas.Positions
/-
  C07 — diagnostics point at the exact source position.
  The token positions inside an expression are those of the lexer model (C04Lex: `lex_positions`,
  `lex_offsets`, `lex_tiles`); this file adds the arithmetic that maps them into the file.
-/
namespace AL.C07
open AL.Positions AL.Proc

/-- (a) the offsets handed to the expression checker are exactly the positions right after a `${{`: the
three bytes before each returned offset are `${{`. -/
def offsets_after_marker_statement : Prop :=
  ∀ (consume : List Nat → Nat) (s : List Nat) (o : Nat),
    o ∈ exprOffsets consume s.length s 0 → 3 ≤ o ∧ (s.drop (o - 3)).take 3 = open3

/-- (b) offsets are strictly increasing: every placeholder is attributed to its own position, text and
placeholders before it shift the report by exactly their length. -/
def offsets_increasing_statement : Prop :=
  ∀ (consume : List Nat → Nat) (s : List Nat), List.Pairwise (· < ·) (exprOffsets consume s.length s 0)

/-- (c) THE PROPERTY (one-line case): for a token at column `t+1` of the expression (one-line ASCII: column =
byte offset + 1, line 1 — C04Lex.lex_positions) the reported position is (L, C + q + exprOff + t): the
exact column of the token in the source line when the scalar starts at column C. -/
def exact_column_statement : Prop :=
  ∀ (L C exprOff t : Nat) (quoted : Bool),
    reported L C quoted exprOff 1 (t + 1) = ⟨L, C + (if quoted then 1 else 0) + exprOff + t⟩

/-- (d) shift invariance: inserting k characters before the scalar on its line, or k lines above it, moves
the report by exactly k. -/
def shift_statement : Prop :=
  ∀ (L C exprOff tl tc k : Nat) (quoted : Bool), 1 ≤ tl → 1 ≤ tc →
    reported L (C + k) quoted exprOff tl tc = ⟨(reported L C quoted exprOff tl tc).line, (reported L C quoted exprOff tl tc).col + k⟩ ∧
    reported (L + k) C quoted exprOff tl tc = ⟨(reported L C quoted exprOff tl tc).line + k, (reported L C quoted exprOff tl tc).col⟩

/-- (e) prefixing the scalar's text with k bytes that contain no `${{` shifts every expression offset by k. -/
def prefix_shift_statement : Prop :=
  ∀ (consume : List Nat → Nat) (pre s : List Nat), indexOf open3 (pre ++ s) 0 = (indexOf open3 s 0).map (· + pre.length) →
    exprOffsets consume (pre ++ s).length (pre ++ s) 0 = (exprOffsets consume s.length s 0).map (· + pre.length)

/-- (f) glob columns: a glob error at pattern column c ≥ 1 is reported at C + q + c − 1, i.e. on the c-th
character of the pattern. -/
def glob_column_statement : Prop :=
  ∀ (C c : Nat) (quoted : Bool), 1 ≤ c → globCol C quoted c = C + (if quoted then 1 else 0) + c - 1

/-! ### Proofs (helper lemmas: AL/Lemmas/Positions.lean) -/

/-- concrete data for the examples: the bytes of `echo ${{ a }} x ${{ b.c }}` … -/
def exBytes : List Nat := "echo ${{ a }} x ${{ b.c }}".toList.map (·.toNat)

/-- … and a `consume` that returns the distance to just after the next `}}` (0 when there is none) -/
def exConsume (s : List Nat) : Nat :=
  match indexOf close2 s 0 with
  | some k => k + 2
  | none => 0

/-- the two expressions start at bytes 8 and 19 -/
example : exprOffsets exConsume exBytes.length exBytes 0 = [8, 19] := by decide +kernel

theorem offsets_after_marker : offsets_after_marker_statement := by
  intro consume s o h
  have := exprOffsets_mem consume s.length s 0 o h
  simpa using this

example : ∀ o ∈ exprOffsets exConsume exBytes.length exBytes 0,
    3 ≤ o ∧ (exBytes.drop (o - 3)).take 3 = open3 := by decide +kernel

theorem offsets_increasing : offsets_increasing_statement :=
  fun consume s => exprOffsets_pairwise consume s.length s 0

example : List.Pairwise (· < ·) (exprOffsets exConsume exBytes.length exBytes 0) := by decide +kernel

theorem exact_column : exact_column_statement := by
  intro L C exprOff t quoted
  simp only [reported, convert]
  congr 1 <;> omega

/-- `key: "x ${{ a.b }}"` with the scalar (the quote) at line 7, column 6: expression at byte 5 of the
text, token `b` at expression column 4 → reported at column 6 + 1 + 5 + 3 = 15 -/
example : reported 7 6 true 5 1 (3 + 1) = ⟨7, 15⟩ := by decide

theorem shift : shift_statement := by
  intro L C exprOff tl tc k quoted _ _
  refine ⟨?_, ?_⟩ <;> simp only [reported, convert] <;> congr 1 <;> omega

example : reported 7 (6 + 4) true 5 2 4 = ⟨(reported 7 6 true 5 2 4).line, (reported 7 6 true 5 2 4).col + 4⟩ ∧
    reported (7 + 4) 6 true 5 2 4 = ⟨(reported 7 6 true 5 2 4).line + 4, (reported 7 6 true 5 2 4).col⟩ := by
  decide

theorem prefix_shift : prefix_shift_statement :=
  fun consume pre s h => exprOffsets_prefix consume pre s h

/-- prefixing `echo ${{ a }} x ${{ b.c }}` with the 5 bytes of `run: ` -/
example :
    let pre := "run: ".toList.map (·.toNat)
    indexOf open3 (pre ++ exBytes) 0 = (indexOf open3 exBytes 0).map (· + pre.length) ∧
    exprOffsets exConsume (pre ++ exBytes).length (pre ++ exBytes) 0 = [13, 24] ∧
    (exprOffsets exConsume exBytes.length exBytes 0).map (· + pre.length) = [13, 24] := by
  decide +kernel

theorem glob_column : glob_column_statement := by
  intro C c quoted hc
  have h : c ≠ 0 := by omega
  simp only [globCol]
  rw [if_pos h]
  omega

example : globCol 10 true 3 = 13 ∧ globCol 10 false 1 = 10 := by decide

end AL.C07
