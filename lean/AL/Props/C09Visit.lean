import AL.Model.Visit
import AL.Lemmas.Visit
/-
  C09 / C05 (workflow level) — statements about the model of RuleExpression's scope bookkeeping (AL/Model/Visit.lean).
  Statements; proved theorems are added below by name.
-/
namespace AL.Props.C09Visit
open AL AL.Sema AL.Visit

def propsOf : Ty → List (String × Ty)
  | .obj ps _ => ps
  | _ => []

/-- (a) whatever state a job starts from, it leaves the initial state behind (`VisitJobPost` resets) -/
def job_resets_statement : Prop :=
  ∀ (lower : String → String) (hdr : Header) (jobs : List JobM) (st : St) (j : JobM),
    (runJob lower hdr jobs st j).1 = St.init

/-- (b) no state leaks between jobs: linting a list of jobs gives, job by job, what each job gives when it is
visited first — so adding, removing or reordering other jobs only moves a job's block of diagnostics -/
def jobs_independent_statement : Prop :=
  ∀ (lower : String → String) (hdr : Header) (jobs : List JobM) (js : List JobM),
    (runJobs lower hdr jobs St.init js).2 = js.flatMap (fun j => (runJob lower hdr jobs St.init j).2)

/-- (c) a job's diagnostics depend on the other jobs only through the jobs it needs directly -/
def job_depends_on_needed_only_statement : Prop :=
  ∀ (lower : String → String) (hdr : Header) (jobs jobs' : List JobM) (j : JobM),
    (∀ n ∈ j.needs, lookupJob (lower n) jobs = lookupJob (lower n) jobs') →
    (runJob lower hdr jobs St.init j).2 = (runJob lower hdr jobs' St.init j).2

/-- the `steps` object in effect after the steps `ss` -/
def stepsAfter (lower : String → String) (t : Ty) (ss : List StepM) : Ty := ss.foldl (addStep lower) t

/-- (d) the strings of a step are checked under the `steps` object built from the steps BEFORE it (its own id
and later ids are not in scope), and steps that follow do not change what was reported for it -/
def steps_scope_statement : Prop :=
  ∀ (lower : String → String) (hdr : Header) (st : St) (t : Ty) (pre post : List StepM) (s : StepM),
    (runSteps lower hdr { st with stepsTy := some t } (pre ++ s :: post)).2 =
      (runSteps lower hdr { st with stepsTy := some t } pre).2 ++
      s.probes.map (checkProbe lower hdr none { st with stepsTy := some (stepsAfter lower t pre) }) ++
      (runSteps lower hdr { st with stepsTy := some (stepsAfter lower t (pre ++ [s])) } post).2

/-- (e) which ids are in `steps` after the steps `ss` (started from the empty strict object): exactly the
lower-cased ids of `ss` -/
def steps_ids_statement : Prop :=
  ∀ (lower : String → String) (ss : List StepM) (x : String),
    (Ty.lookup x (propsOf (stepsAfter lower emptyStrict ss))).isSome = true ↔
      ∃ s ∈ ss, ∃ id, s.id = some id ∧ lower id = x

/-- (f) `steps` stays a strict object (undefined ids are reported) unless some earlier id contains a placeholder -/
def steps_strict_statement : Prop :=
  ∀ (lower : String → String) (ss : List StepM),
    (∀ s ∈ ss, s.id ≠ none → s.idExpr = false) →
    ∃ ps, stepsAfter lower emptyStrict ss = .obj ps none

/-- (g) `needs` contains exactly the directly needed jobs that exist, except the job itself -/
def needs_exact_statement : Prop :=
  ∀ (lower : String → String) (jobs : List JobM) (self : String) (needs : List String) (i : String),
    (Ty.lookup i (propsOf (needsTyOf lower jobs self needs))).isSome = true ↔
      (i ∈ needs.map lower ∧ i ≠ self ∧ (lookupJob i jobs).isSome = true)

/-- (h) … each with `outputs` = the outputs that job declares (or its reusable workflow's) and `result` -/
def needs_entry_statement : Prop :=
  ∀ (lower : String → String) (jobs : List JobM) (self : String) (needs : List String) (i : String) (t : Ty),
    Ty.lookup i (propsOf (needsTyOf lower jobs self needs)) = some t →
      ∃ j, lookupJob i jobs = some j ∧ t = .obj [("outputs", jobOutputsTy j), ("result", .string)] none

/-! ### proofs (helper lemmas: AL/Lemmas/Visit.lean) — all eight statements hold as stated -/

theorem job_resets : job_resets_statement := by
  intro lower hdr jobs st j
  exact runJob_fst lower hdr jobs st j

theorem jobs_independent : jobs_independent_statement := by
  intro lower hdr jobs js
  exact runJobs_snd_init lower hdr jobs js

theorem job_depends_on_needed_only : job_depends_on_needed_only_statement := by
  intro lower hdr jobs jobs' j h
  rw [runJob_congr_needs lower hdr jobs jobs' St.init j (needsTyOf_congr lower jobs jobs' j.id j.needs h)]

theorem steps_scope : steps_scope_statement := by
  intro lower hdr st t pre post s
  rw [runSteps_append_snd, runSteps_fst, runSteps_cons]
  simp only [stepsAfter, Option.map_some, List.foldl_append, List.foldl_cons, List.foldl_nil,
    List.append_assoc]

theorem steps_ids : steps_ids_statement := by
  intro lower ss x
  obtain ⟨ps', m', he, hiff⟩ := stepsFold_isSome lower x ss [] none
  have he' : stepsAfter lower emptyStrict ss = .obj ps' m' := he
  rw [he']
  simp only [propsOf]
  rw [hiff]
  simp [Ty.lookup]

theorem steps_strict : steps_strict_statement := by
  intro lower ss h
  exact stepsFold_strict lower ss [] h

theorem needs_exact : needs_exact_statement := by
  intro lower jobs self needs i
  rw [needsTyOf_eq]
  simp only [propsOf]
  rw [needsFold_isSome]
  simp [Ty.lookup]

theorem needs_entry : needs_entry_statement := by
  intro lower jobs self needs i t h
  rw [needsTyOf_eq] at h
  simp only [propsOf] at h
  exact needsFold_ok lower jobs self needs [] (by intro i t h; simp [Ty.lookup] at h) i t h

/-! ### non-vacuity: the statements say something on concrete data -/

private def stepA : StepM := ⟨some "A", false, .any, []⟩
private def stepB : StepM := ⟨some "b", false, .string, []⟩
private def stepX : StepM := ⟨some "x", true, .any, []⟩
private def stepN : StepM := ⟨none, false, .any, []⟩

private def stepTy (o : Ty) : Ty := .obj [("conclusion", .string), ("outcome", .string), ("outputs", o)] none

/-- two steps `A`, `b` (with `lower := id`): exactly those two keys, in key order, strict -/
example : stepsAfter id emptyStrict [stepA, stepB] = .obj [("A", stepTy .any), ("b", stepTy .string)] none := by
  rfl
/-- keys come out sorted whatever the step order; a step without id adds nothing -/
example : stepsAfter id emptyStrict [stepB, stepN, stepA] = .obj [("A", stepTy .any), ("b", stepTy .string)] none := by
  rfl
example : (Ty.lookup "A" (propsOf (stepsAfter id emptyStrict [stepA, stepB]))).isSome = true := by decide
example : (Ty.lookup "a" (propsOf (stepsAfter id emptyStrict [stepA, stepB]))).isSome = false := by decide
/-- a lower-casing function that maps both ids to one key: one entry, the later step's -/
example : stepsAfter (fun _ => "k") emptyStrict [stepA, stepB] = .obj [("k", stepTy .string)] none := by
  rfl
/-- an id with a placeholder loosens the object (so the hypothesis of `steps_strict` is needed) -/
example : stepsAfter id emptyStrict [stepA, stepX] = .obj [("A", stepTy .any), ("x", stepTy .any)] (some .any) := by
  rfl
example : ¬ ∃ ps, stepsAfter id emptyStrict [stepA, stepX] = .obj ps none := by
  rintro ⟨ps, h⟩
  have h' : stepsAfter id emptyStrict [stepA, stepX] = .obj [("A", stepTy .any), ("x", stepTy .any)] (some .any) := by
    rfl
  rw [h'] at h
  cases h

private def jobB : JobM := ⟨"build", [], ["art", "ver"], none, none, [], [], []⟩
private def jobL : JobM := ⟨"lint", [], [], some (.obj [("ok", .bool)] none), none, [], [], []⟩
private def jobD : JobM := ⟨"deploy", ["build", "lint", "nosuch", "deploy", "build"], [], none, none, [], [], []⟩

/-- `needs` of `deploy`: the two existing jobs, not the unknown one, not itself, no duplicate -/
example : needsTyOf id [jobB, jobL, jobD] "deploy" jobD.needs =
    .obj [("build", .obj [("outputs", .obj [("art", .string), ("ver", .string)] none), ("result", .string)] none),
          ("lint", .obj [("outputs", .obj [("ok", .bool)] none), ("result", .string)] none)] none := by
  rfl
example : (Ty.lookup "nosuch" (propsOf (needsTyOf id [jobB, jobL, jobD] "deploy" jobD.needs))).isSome = false := by
  decide
example : (Ty.lookup "deploy" (propsOf (needsTyOf id [jobB, jobL, jobD] "deploy" jobD.needs))).isSome = false := by
  decide

/-- the state is reset by a job; the output of two jobs is the concatenation of the single-job outputs -/
example : (runJob id ⟨none, none, none⟩ [jobB, jobD] ⟨some .any, some .any, some .any⟩ jobD).1 = St.init := rfl
example : (runJobs id ⟨none, none, none⟩ [jobB, jobD] St.init [jobB, jobD]).2 = [] := rfl

end AL.Props.C09Visit
