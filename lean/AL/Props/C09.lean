import AL.Model.Sema
import AL.Gen.RuleState
/-
  C09 — jobs, steps and expressions are checked independently (no state leaks).
  (a) expression level: the model of the checker is a pure function of (environment, expression); the
      one place where the Go code mutated shared type information (`ty.Deref = true` on the array type
      stored in the matrix context) was repaired, and the tie (differential + composition oracle) checks
      that the Go checker behaves like the pure model, whatever was checked before.
  (b) rule level: every piece of per-job rule state is reset when the job is left — a fact about
      rule_*.go that is REGENERATED from the source and re-checked on every run.
-/
namespace AL.C09
open AL AL.Sema

/-- per-job state that is deliberately NOT reset in VisitJobPost, with the reason -/
def jobStateExempt : List (String × String) := [
  -- the needs graph is accumulated over all jobs and evaluated in VisitWorkflowPost (a fresh rule per file)
  ("RuleJobNeeds", "nodes"),
  -- assigned AND reset inside VisitJobPre itself (line "rule.compats = nil // reset")
  ("RuleRunnerLabel", "compats")
]

/-- workflow-level state that lives as long as the rule instance (one instance per file, linter.go) -/
def workflowStateExempt : List (String × String) := [
  ("RuleExpression", "dispatchInputsTy"), ("RuleExpression", "inputsTy"), ("RuleExpression", "secretsTy"),
  ("RuleWorkflowCall", "workflowCallEventPos")
]

def assignedIn (rule method field : String) : Bool :=
  AL.Gen.ruleState.any fun r => r.1 = rule && r.2.1 = method && r.2.2 = field

/-- (b1) every receiver field assigned while a job is visited (VisitJobPre, VisitStep) is assigned again in
VisitJobPost of the same rule, or is a documented exemption. -/
def job_state_reset_check : Bool :=
  AL.Gen.ruleState.all fun r =>
    !(r.2.1 = "VisitJobPre" || r.2.1 = "VisitStep") || assignedIn r.1 "VisitJobPost" r.2.2 || jobStateExempt.contains (r.1, r.2.2)

theorem job_state_reset : job_state_reset_check = true := by decide +kernel

/-- (b2) every field assigned in VisitWorkflowPre is assigned again in VisitWorkflowPost, or is a documented
exemption. -/
def workflow_state_reset_check : Bool :=
  AL.Gen.ruleState.all fun r =>
    !(r.2.1 = "VisitWorkflowPre") || assignedIn r.1 "VisitWorkflowPost" r.2.2 || workflowStateExempt.contains (r.1, r.2.2)

theorem workflow_state_reset : workflow_state_reset_check = true := by decide +kernel

/-- (b3) the exemption lists are not stale -/
def exemptions_live_check : Bool :=
  jobStateExempt.all (fun e => AL.Gen.ruleState.any fun r => r.1 = e.1 && r.2.2 = e.2) &&
  workflowStateExempt.all (fun e => AL.Gen.ruleState.any fun r => r.1 = e.1 && r.2.2 = e.2)

theorem exemptions_live : exemptions_live_check = true := by decide +kernel

/-- checking a list of expressions one after the other under the same environment -/
def checkAll (Γ : Env) : List E → List R
  | [] => []
  | e :: es => check Γ e :: checkAll Γ es

/-- (a) expression level, in the model: how an expression is typed and diagnosed does not depend on which
expressions were checked before it, nor on how many times it was checked. -/
theorem later_expression_unaffected (Γ : Env) (pre post : List E) (e : E) :
    (checkAll Γ (pre ++ e :: post))[pre.length]? = some (check Γ e) := by
  induction pre with
  | nil => simp [checkAll]
  | cons p ps ih => simpa [checkAll] using ih

end AL.C09
