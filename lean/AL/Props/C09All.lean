import AL.Model.Rules
/-
  C09 on AL.Rules (every rule but expression / shellcheck / pyflakes; tied by `lintwf`): apart from job-needs — whose
  subject is the relation between jobs — every rule's diagnostics are, up to order, a workflow-level part plus, for each
  job, a function of THAT JOB ALONE: the per-job state of rule_id (`seen`), rule_shell_name (`platform`),
  rule_runner_label (`compats`) never reaches another job, and no rule's finding in one job changes what is reported in
  another.
-/
namespace AL.C09A
open AL.Rules AL.Yaml AL.Ast

def deprecatedJob (j : Job) : List Diag :=
  (AL.Rules.stepsOf j).flatMap fun st =>
    match st.exec with
    | .run e =>
      (match e.run with
       | some r => (findDeprecated (r.value.length + 1) r.value.toList).map fun cmd => ⟨r.pos, "deprecated-commands", "deprecated-command", [cmd]⟩
       | none => [])
    | _ => []

def ifCondJob (j : Job) : List Diag := checkIfCond j.cond ++ (AL.Rules.stepsOf j).flatMap fun st => checkIfCond st.cond

/-- everything the eleven per-job rules report about one job -/
def perJob (lower : String → String) (urlOk : String → Bool) (j : Job) (lc : LabelCfg := {}) : List Diag :=
  matrixJob j ++ credentialsJob j ++ shellNameJob lower j ++ runnerLabelJob lower j lc ++
  (AL.Rules.stepsOf j).flatMap (actionStep urlOk) ++ envVarJob j ++ idJob lower j ++ checkPermissions j.permissions ++
  workflowCallJob j ++ deprecatedJob j ++ ifCondJob j

/-- the workflow-level diagnostics: the workflow's default shell, `on:` (the CRON check of `schedule` included), `env:`, the
filter patterns, `permissions:` -/
def header (lower : String → String) (isNum : String → Bool) (w : Workflow) (lc : LabelCfg := {}) : List Diag :=
  checkShellName lower .any (defaultsShell w.defaults) ++ ruleEvents lower isNum w lc ++ checkEnv w.env ++ ruleGlob w ++
  checkPermissions w.permissions

theorem count_per_job (lower : String → String) (urlOk : String → Bool) (a : Diag) (js : List Job) (lc : LabelCfg := {}) :
    List.count a (js.flatMap matrixJob) + List.count a (js.flatMap credentialsJob) + List.count a (js.flatMap (shellNameJob lower)) +
    List.count a (js.flatMap (fun j => runnerLabelJob lower j lc)) + List.count a (js.flatMap fun j => (AL.Rules.stepsOf j).flatMap (actionStep urlOk)) +
    List.count a (js.flatMap envVarJob) + List.count a (js.flatMap (idJob lower)) +
    List.count a (js.flatMap fun j => checkPermissions j.permissions) + List.count a (js.flatMap workflowCallJob) +
    List.count a (js.flatMap deprecatedJob) + List.count a (js.flatMap ifCondJob) =
    List.count a (js.flatMap (fun j => perJob lower urlOk j lc)) := by
  induction js with
  | nil => simp
  | cons j rest ih =>
    simp only [List.flatMap_cons, List.count_append, perJob] at ih ⊢
    omega

/-- **all rules but job-needs are per job**: `rules` = job-needs + the workflow-level part + one block per job that is a
function of that job alone (up to the order the sort at the end of `Linter.check` fixes anyway) -/
theorem rules_per_job (lower : String → String) (isNum urlOk : String → Bool) (w : Workflow) (lc : LabelCfg := {}) :
    (rules lower isNum urlOk w lc).Perm
      (ruleJobNeeds lower w ++ (header lower isNum w lc ++ (jobsOf w).flatMap (fun j => perJob lower urlOk j lc))) := by
  rw [List.perm_iff_count]
  intro a
  have h := count_per_job lower urlOk a (jobsOf w) lc
  have e1 : ruleDeprecatedCommands w = (jobsOf w).flatMap deprecatedJob := rfl
  have e2 : ruleIfCond w = (jobsOf w).flatMap ifCondJob := rfl
  simp only [rules, e1, e2, ruleMatrix, ruleCredentials, ruleShellName, ruleRunnerLabel, ruleAction, ruleEnvVar, ruleId, rulePermissions,
    ruleWorkflowCall, header, List.count_append] at h ⊢
  omega

/-- reordering the jobs only reorders the diagnostics of these rules -/
theorem reorder_jobs (lower : String → String) (urlOk : String → Bool) (js js' : List Job) (h : js.Perm js') (lc : LabelCfg := {}) :
    (js.flatMap (fun j => perJob lower urlOk j lc)).Perm (js'.flatMap (fun j => perJob lower urlOk j lc)) := List.Perm.flatMap_right _ h

end AL.C09A
