import AL.Model.Sema
import AL.Lemmas.SemaScope
/-
  C05 — references to steps/needs/matrix/inputs/secrets/jobs resolve by scope (expression level).
  The rule-level construction of the scope types (which steps precede, which jobs are needed …) is
  exercised on the implementation; these statements say what a given scope type means to the checker.
-/
namespace AL.C05
open AL AL.Sema

def undefinedProp (name : String) (r : R) : Prop := ∃ args, (⟨"prop-undefined", name :: args⟩ : SemaErr) ∈ r.errs

/-- (a) a strict scope object reports a reference iff the name is not one of its properties: `ctx.name`
with `ctx : {p₁ … pₙ}` (strict) is undefined ⇔ `name ∉ {p₁ … pₙ}`. -/
def strict_scope_exact_statement : Prop :=
  ∀ (Γ : Env) (ctx name : String) (ps : List (String × Ty)),
    Ty.lookup ctx Γ.vars = some (.obj ps none) → Γ.availCtx.contains (Γ.lower ctx) = true →
    (undefinedProp name (check Γ (.objDeref (.var ctx) name)) ↔ Ty.lookup name ps = none)

/-- (b) where the defining section is an expression the scope object is open (loose or `any`): nothing
is reported for any name. -/
def open_scope_silent_statement : Prop :=
  ∀ (Γ : Env) (ctx name : String) (t : Ty),
    Ty.lookup ctx Γ.vars = some t → Γ.availCtx.contains (Γ.lower ctx) = true →
    (t = .any ∨ ∃ ps mt, t = .obj ps (some mt)) → ctx ≠ "vars" →
    (check Γ (.objDeref (.var ctx) name)).errs = []

/-- (c) the same through index syntax: `ctx['Name']` behaves like `ctx.name` (folded). -/
def index_same_as_deref_statement : Prop :=
  ∀ (Γ : Env) (ctx name : String) (ps : List (String × Ty)),
    (∀ s, Γ.lower (Γ.lower s) = Γ.lower s) →
    Ty.lookup ctx Γ.vars = some (.obj ps none) → Γ.availCtx.contains (Γ.lower ctx) = true →
    (undefinedProp name (check Γ (.index (.var ctx) (.str name))) ↔ Ty.lookup (Γ.lower name) ps = none)

/-- (d) two levels (`needs.<job>.outputs.<name>`, `steps.<id>.outputs.<name>`): with
`ctx : {j : {outputs : {o₁ … }}}` strict at every level, `ctx.j.outputs.o` is undefined ⇔ o is not declared. -/
def nested_scope_exact_statement : Prop :=
  ∀ (Γ : Env) (ctx j o : String) (ps js os : List (String × Ty)),
    Ty.lookup ctx Γ.vars = some (.obj ps none) → Γ.availCtx.contains (Γ.lower ctx) = true →
    Ty.lookup j ps = some (.obj js none) → Ty.lookup "outputs" js = some (.obj os none) →
    ((check Γ (.objDeref (.objDeref (.objDeref (.var ctx) j) "outputs") o)).errs ≠ [] ↔ Ty.lookup o os = none)

/-! ### proofs -/

theorem strict_scope_exact : strict_scope_exact_statement := by
  intro Γ ctx name ps hl ha
  obtain ⟨_, he⟩ := check_ctx_prop Γ ctx name _ hl ha
  unfold undefinedProp
  rw [he]
  cases h : Ty.lookup name ps with
  | none =>
    rw [objDerefTy_strict_none Γ _ name ps h]
    exact ⟨fun _ => rfl, fun _ => ⟨[tyStr (.obj ps none)], List.mem_singleton.2 rfl⟩⟩
  | some pt =>
    rw [objDerefTy_strict_some Γ _ name ps pt h]
    exact ⟨fun ⟨_, hm⟩ => by simp [err] at hm, fun h' => nomatch h'⟩

theorem open_scope_silent : open_scope_silent_statement := by
  intro Γ ctx name t hl ha ht hctx
  obtain ⟨_, he⟩ := check_ctx_prop Γ ctx name _ hl ha
  rw [he]
  simp only [hctx, decide_false]
  rcases ht with rfl | ⟨ps, mt, rfl⟩
  · rfl
  · simp only [objDerefTy]
    cases Ty.lookup name ps <;> rfl

theorem index_same_as_deref : index_same_as_deref_statement := by
  intro Γ ctx name ps _ hl ha
  obtain ⟨_, he⟩ := check_ctx_index Γ ctx name _ hl ha
  unfold undefinedProp
  rw [he]
  cases h : Ty.lookup (Γ.lower name) ps with
  | none =>
    simp only [indexTy, h]
    exact ⟨fun _ => trivial, fun _ => ⟨[tyStr (.obj ps none)], List.mem_singleton.2 rfl⟩⟩
  | some pt =>
    simp only [indexTy, h]
    exact ⟨fun ⟨_, hm⟩ => by simp [err] at hm, fun h' => nomatch h'⟩

theorem nested_scope_exact : nested_scope_exact_statement := by
  intro Γ ctx j o ps js os hl ha hj ho
  obtain ⟨t1, e1⟩ := check_ctx_prop Γ ctx j _ hl ha
  rw [objDerefTy_strict_some Γ _ j ps _ hj] at t1 e1
  obtain ⟨t2, e2⟩ := check_prop_of Γ (.objDeref (.var ctx) j) "outputs" _ rfl t1 e1
  rw [objDerefTy_strict_some Γ _ "outputs" js _ ho] at t2 e2
  obtain ⟨_, e3⟩ := check_prop_of Γ (.objDeref (.objDeref (.var ctx) j) "outputs") o _ rfl t2 e2
  rw [e3]
  cases h : Ty.lookup o os with
  | none => rw [objDerefTy_strict_none Γ _ o os h]; simp
  | some pt => rw [objDerefTy_strict_some Γ _ o os pt h]; simp

/-! ### concrete instances -/

/-- `steps : {build: {outputs: {digest: string}}}` strict, `needs : {string => any}` open, `vars` open -/
def exΓ : Env :=
  { vars := [("needs", .obj [] (some .any)),
             ("steps", .obj [("build", .obj [("outputs", .obj [("digest", .string)] none)] none)] none),
             ("vars", .obj [] (some .string))],
    funcs := [], specialFuncs := [], availCtx := ["needs", "steps", "vars"], availSpecial := [],
    configVars := some ["known"], lower := id, fromJson := fun _ => .otherErr }

/-- (a) `steps.test` is reported, `steps.build` is not -/
example : undefinedProp "test" (check exΓ (.objDeref (.var "steps") "test")) ∧
    ¬ undefinedProp "build" (check exΓ (.objDeref (.var "steps") "build")) :=
  ⟨(strict_scope_exact exΓ "steps" "test" _ rfl rfl).2 rfl,
   fun h => nomatch (strict_scope_exact exΓ "steps" "build" _ rfl rfl).1 h⟩

/-- (b) `needs.anything` is silent; the side condition `ctx ≠ "vars"` is necessary: `vars.unknown` is
reported by the configuration-variable check although `vars` is an open object. -/
example : (check exΓ (.objDeref (.var "needs") "anything")).errs = [] :=
  open_scope_silent exΓ "needs" "anything" _ rfl rfl (Or.inr ⟨_, _, rfl⟩) (by decide)

example : (check exΓ (.objDeref (.var "vars") "unknown")).errs = [err "cfgvar-undefined" ["unknown"]] := by
  rw [(check_ctx_prop exΓ "vars" "unknown" _ rfl rfl).2]
  decide +kernel

/-- (c) `steps['build']` is fine, `steps['test']` is reported -/
example : undefinedProp "test" (check exΓ (.index (.var "steps") (.str "test"))) ∧
    ¬ undefinedProp "build" (check exΓ (.index (.var "steps") (.str "build"))) :=
  ⟨(index_same_as_deref exΓ "steps" "test" _ (fun _ => rfl) rfl rfl).2 rfl,
   fun h => nomatch (index_same_as_deref exΓ "steps" "build" _ (fun _ => rfl) rfl rfl).1 h⟩

/-- (d) `steps.build.outputs.digest` is accepted, `steps.build.outputs.sha` is reported -/
example : (check exΓ (.objDeref (.objDeref (.objDeref (.var "steps") "build") "outputs") "digest")).errs = [] ∧
    (check exΓ (.objDeref (.objDeref (.objDeref (.var "steps") "build") "outputs") "sha")).errs ≠ [] :=
  ⟨Decidable.byContradiction (fun h =>
      nomatch ((nested_scope_exact exΓ "steps" "build" "digest" _ _ _ rfl rfl rfl rfl).1 h)),
   (nested_scope_exact exΓ "steps" "build" "sha" _ _ _ rfl rfl rfl rfl).2 rfl⟩

end AL.C05
