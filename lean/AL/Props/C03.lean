import AL.Model.Facts
import AL.Spec.Syntax
import AL.Gen.Syntax
/-
  C03 — every ${{ }} placeholder in a workflow is checked.
  The theorems below are re-checked against the REGENERATED facts (AL/Gen/Syntax.lean) on every run:
  a new AST field that holds user text but is not handed to a `check…` method, a `check…` call that
  disappears, or a `case "key"` that stores its value into a field of another key (the `volumes` →
  `Ports` defect) makes one of them fail.
-/
namespace AL.C03
open AL.Facts AL.Spec.Syntax

/-- (struct, field) pairs that some `rule.check…(x.Field, …)` call of rule_expression.go receives -/
def checkedLeaves : List (String × String) := AL.Gen.exprCheckSites.map fun s => (s.2.1, s.2.2.1)

/-- (a) coverage: every AST field that holds user text is checked or is a documented exemption. -/
def coverage_check : Bool :=
  AL.Gen.astLeaves.all fun l => checkedLeaves.contains (l.1, l.2.1) || exemptLeaves.contains (l.1, l.2.1)

theorem coverage : coverage_check = true := by decide +kernel

/-- (b) and no exemption is stale or shadows a checked field. -/
def exemptions_check : Bool :=
  exemptLeaves.all fun e => (AL.Gen.astLeaves.any fun l => (l.1, l.2.1) = e) && !checkedLeaves.contains e

theorem exemptions_exact : exemptions_check = true := by decide +kernel

/-- (c) routing: every `case "key"` of the parser stores into a field (or local) named after the key,
or is a documented exception. This is the fact that separates `case "volumes": ret.Volumes = …` from
`case "volumes": ret.Ports = …`. -/
def routing_check : Bool :=
  AL.Gen.parseCases.all fun c =>
    c.2.1 = "" || keyMatchesSomeField c.2.1 c.2.2 || renamedCases.contains (c.1, c.2.1)

theorem routing : routing_check = true := by decide +kernel

end AL.C03
