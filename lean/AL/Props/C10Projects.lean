import AL.Model.Projects
import AL.Lemmas.Projects
/-
  C10 — "a file is always attributed to the repository that actually contains it", for every argument order: in the
  model of `Projects.At` the answer for a path is the innermost repository root above it, and it does not depend on
  which paths were looked up before (the cache only avoids loading a project twice).
  Statements; proved theorems are added below by name.
-/
namespace AL.Props.C10Projects
open AL.Projects

/-- (a) what is found is a repository root and a prefix of the path -/
def found_is_root_above_statement : Prop :=
  ∀ (isRoot : List String → Bool) (p r : List String), findRoot isRoot p = some r →
    isRoot r = true ∧ r.isPrefixOf p = true

/-- (b) … the innermost one: no longer prefix of the path is a repository root -/
def found_is_innermost_statement : Prop :=
  ∀ (isRoot : List String → Bool) (p r r' : List String), findRoot isRoot p = some r →
    r'.isPrefixOf p = true → isRoot r' = true → r'.length ≤ r.length

/-- (c) nothing is found only if no directory above the path is a repository root -/
def none_iff_statement : Prop :=
  ∀ (isRoot : List String → Bool) (p : List String),
    findRoot isRoot p = none ↔ ∀ r, r.isPrefixOf p = true → isRoot r = false

/-- (d) history independence: the answer of `At` (`lookup`) is `findRoot`, whatever the cache holds -/
def at_history_independent_statement : Prop :=
  ∀ (isRoot : List String → Bool) (known : Known) (p : List String), (lookup isRoot known p).1 = findRoot isRoot p

/-- (e) hence a sequence of lookups gives, path by path, the same answers in every order and from every cache -/
def atAll_pointwise_statement : Prop :=
  ∀ (isRoot : List String → Bool) (known : Known) (ps : List (List String)),
    (atAll isRoot known ps).1 = ps.map (findRoot isRoot)

/-- (f) the cache never holds a root twice (a project is loaded once) -/
def cache_nodup_statement : Prop :=
  ∀ (isRoot : List String → Bool) (known : Known) (ps : List (List String)), known.Nodup →
    (atAll isRoot known ps).2.Nodup

/-! ### Proofs (all six statements hold as stated; helper lemmas in `AL/Lemmas/Projects.lean`) -/

theorem found_is_root_above : found_is_root_above_statement := by
  intro isRoot p r h
  obtain ⟨h1, h2⟩ := findRoot_some isRoot p r h
  exact ⟨h1, List.isPrefixOf_iff_prefix.mpr h2⟩

theorem found_is_innermost : found_is_innermost_statement := by
  intro isRoot p r r' h hp hr
  exact findRoot_innermost isRoot p r r' h (List.isPrefixOf_iff_prefix.mp hp) hr

theorem none_iff : none_iff_statement := by
  intro isRoot p
  rw [findRoot_none]
  constructor
  · intro h r hr
    exact h r (List.isPrefixOf_iff_prefix.mp hr)
  · intro h r hr
    exact h r (List.isPrefixOf_iff_prefix.mpr hr)

theorem at_history_independent : at_history_independent_statement :=
  fun isRoot known p => lookup_fst isRoot known p

theorem atAll_pointwise : atAll_pointwise_statement :=
  fun isRoot known ps => atAll_fst isRoot ps known

theorem cache_nodup : cache_nodup_statement :=
  fun isRoot known ps hk => atAll_nodup isRoot ps known hk

/-! ### Non-vacuity: nested repositories, both argument orders -/

/-- an outer repository `x/outer` with a vendored inner repository `x/outer/vendor/inner` -/
def exRoot : List String → Bool :=
  fun d => d == ["x", "outer"] || d == ["x", "outer", "vendor", "inner"]

def exInnerFile : List String := ["x", "outer", "vendor", "inner", ".github", "workflows", "w.yml"]
def exOuterFile : List String := ["x", "outer", ".github", "workflows", "w.yml"]

example : findRoot exRoot exInnerFile = some ["x", "outer", "vendor", "inner"] := by decide
example : findRoot exRoot exOuterFile = some ["x", "outer"] := by decide
example : findRoot exRoot ["y", "z"] = none := by decide

/-- both orders give the same answer for each file (and the inner file is never attributed to the outer project,
even when the outer project is already in the cache) -/
example :
    (atAll exRoot [] [exInnerFile, exOuterFile]).1 = [some ["x", "outer", "vendor", "inner"], some ["x", "outer"]] ∧
    (atAll exRoot [] [exOuterFile, exInnerFile]).1 = [some ["x", "outer"], some ["x", "outer", "vendor", "inner"]] := by
  decide

example :
    (atAll exRoot [] [exOuterFile, exInnerFile, exOuterFile]).2 = [["x", "outer"], ["x", "outer", "vendor", "inner"]] := by
  decide

end AL.Props.C10Projects
