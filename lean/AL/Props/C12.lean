import AL.Model.Facts
import AL.Model.Sema
import AL.Gen.Availability
import AL.Gen.Builtins
import AL.Lemmas.SemaAvail
/-
  C12 — context and special-function availability follows GitHub's table exactly.
  Table facts are re-checked against the regenerated tables on every run; the checker-level statement
  is about the Sema model.
-/
namespace AL.C12
open AL AL.Sema

/-- (a) the Go switch (`WorkflowKeyAvailability`) equals GitHub's table as vendored in the repository
(scripts/generate-availability/testdata/ok.md), row by row: keys, contexts, special functions. -/
theorem code_eq_docs : AL.Gen.availabilityCode = AL.Gen.availabilityDocs := by decide +kernel

/-- (b) a key that is not in the table allows nothing. -/
theorem unknown_key_allows_nothing : AL.Gen.availabilityUnknown = ([], []) := by decide +kernel

/-- (c) `SpecialFunctionNames` is the transpose of the table's third column. -/
def special_transpose_check : Bool :=
  AL.Gen.specialFuncKeys.all (fun fk =>
    AL.Gen.availabilityCode.all (fun row => fk.2.contains row.1 == row.2.2.contains fk.1)) &&
  AL.Gen.availabilityCode.all (fun row => row.2.2.all (fun f => AL.Gen.specialFuncs.contains f))

theorem special_transpose : special_transpose_check = true := by decide +kernel

/-- (d) every context name of the table is a built-in context, and all names are lower-case (the
checker compares `strings.ToLower(name)` with the table entries). -/
def table_names_check : Bool :=
  AL.Gen.availabilityCode.all (fun row =>
    row.2.1.all (fun c => (AL.Gen.globalVars.any (·.1 = c) || c = "jobs") && AL.Facts.lowerAscii c = c) &&
    row.2.2.all (fun f => AL.Facts.lowerAscii f = f && AL.Gen.funcSigs.any (·.1 = f)))

theorem table_names : table_names_check = true := by decide +kernel

/-- variables the checker visits (arguments of an undefined function are not visited) -/
def visitedVars (Γ : Env) : E → List String
  | .var n => [n]
  | .objDeref r _ => visitedVars Γ r
  | .arrDeref r => visitedVars Γ r
  | .index r i => visitedVars Γ i ++ visitedVars Γ r
  | .not e => visitedVars Γ e
  | .cmp _ l r => visitedVars Γ l ++ visitedVars Γ r
  | .logical _ l r => visitedVars Γ l ++ visitedVars Γ r
  | .call c args => if (lookupFuncs (Γ.lower c) Γ.funcs).isSome then visitedVarsList Γ args else []
  | _ => []
where
  visitedVarsList (Γ : Env) : List E → List String
    | [] => []
    | e :: es => visitedVars Γ e ++ visitedVarsList Γ es

/-- (e) THE PROPERTY at checker level: a context is reported as not allowed iff it is a defined context
occurring anywhere in the expression whose (folded) name is not in the available list — regardless of
where in the expression it occurs and of letter case. -/
def not_allowed_iff_statement : Prop :=
  ∀ (Γ : Env) (e : E) (n : String),
    (⟨"context-not-allowed", [n]⟩ : SemaErr) ∈ (check Γ e).errs ↔
      (n ∈ visitedVars Γ e ∧ (Ty.lookup n Γ.vars).isSome ∧ Γ.availCtx.contains (Γ.lower n) = false)

/-- called function names the checker visits -/
def visitedCalls (Γ : Env) : E → List String
  | .objDeref r _ => visitedCalls Γ r
  | .arrDeref r => visitedCalls Γ r
  | .index r i => visitedCalls Γ i ++ visitedCalls Γ r
  | .not e => visitedCalls Γ e
  | .cmp _ l r => visitedCalls Γ l ++ visitedCalls Γ r
  | .logical _ l r => visitedCalls Γ l ++ visitedCalls Γ r
  | .call c args => if (lookupFuncs (Γ.lower c) Γ.funcs).isSome then c :: visitedCallsList Γ args else []
  | _ => []
where
  visitedCallsList (Γ : Env) : List E → List String
    | [] => []
    | e :: es => visitedCalls Γ e ++ visitedCallsList Γ es

/-- (f) special functions: a call is reported as not allowed only if it is a special function outside
the available list; and every visited call of a special function outside the list whose signature
matches is reported. (Soundness direction stated for all calls.) -/
def special_not_allowed_sound_statement : Prop :=
  ∀ (Γ : Env) (e : E) (c : String),
    (⟨"special-func-not-allowed", [c]⟩ : SemaErr) ∈ (check Γ e).errs →
      c ∈ visitedCalls Γ e ∧ Γ.specialFuncs.contains (Γ.lower c) = true ∧ Γ.availSpecial.contains (Γ.lower c) = false

/-! ### proofs of (e) and (f) -/

mutual
theorem src_ctx_iff (Γ : Env) (n : String) : ∀ e : E,
    (⟨"context-not-allowed", [n]⟩ : SemaErr) ∈ srcErrs Γ "context-not-allowed" e ↔
      (n ∈ visitedVars Γ e ∧ (Ty.lookup n Γ.vars).isSome = true ∧ Γ.availCtx.contains (Γ.lower n) = false)
  | .null | .bool | .num | .str _ => by simp [srcErrs, visitedVars]
  | .var m => by
    rw [srcErrs, mem_var_errs_ctx]; simp [visitedVars]
  | .objDeref r _ => by rw [srcErrs, visitedVars]; exact src_ctx_iff Γ n r
  | .arrDeref r => by rw [srcErrs, visitedVars]; exact src_ctx_iff Γ n r
  | .not e => by rw [srcErrs, visitedVars]; exact src_ctx_iff Γ n e
  | .index r i => by
    rw [srcErrs, visitedVars, List.mem_append, List.mem_append, src_ctx_iff Γ n r, src_ctx_iff Γ n i]
    constructor
    · rintro (⟨h, h'⟩ | ⟨h, h'⟩)
      · exact ⟨Or.inl h, h'⟩
      · exact ⟨Or.inr h, h'⟩
    · rintro ⟨h | h, h'⟩
      · exact Or.inl ⟨h, h'⟩
      · exact Or.inr ⟨h, h'⟩
  | .cmp _ l r => by
    rw [srcErrs, visitedVars, List.mem_append, List.mem_append, src_ctx_iff Γ n l, src_ctx_iff Γ n r]
    constructor
    · rintro (⟨h, h'⟩ | ⟨h, h'⟩)
      · exact ⟨Or.inl h, h'⟩
      · exact ⟨Or.inr h, h'⟩
    · rintro ⟨h | h, h'⟩
      · exact Or.inl ⟨h, h'⟩
      · exact Or.inr ⟨h, h'⟩
  | .logical _ l r => by
    rw [srcErrs, visitedVars, List.mem_append, List.mem_append, src_ctx_iff Γ n l, src_ctx_iff Γ n r]
    constructor
    · rintro (⟨h, h'⟩ | ⟨h, h'⟩)
      · exact ⟨Or.inl h, h'⟩
      · exact ⟨Or.inr h, h'⟩
    · rintro ⟨h | h, h'⟩
      · exact Or.inl ⟨h, h'⟩
      · exact Or.inr ⟨h, h'⟩
  | .call c args => by
    rw [srcErrs, visitedVars]
    cases lookupFuncs (Γ.lower c) Γ.funcs with
    | none => simp
    | some sigs =>
      simp only [keep_resolveCall_ctx, List.append_nil, Option.isSome_some, if_true]
      exact src_ctx_list_iff Γ n args
theorem src_ctx_list_iff (Γ : Env) (n : String) : ∀ es : List E,
    (⟨"context-not-allowed", [n]⟩ : SemaErr) ∈ srcErrsList Γ "context-not-allowed" es ↔
      (n ∈ visitedVars.visitedVarsList Γ es ∧ (Ty.lookup n Γ.vars).isSome = true ∧
        Γ.availCtx.contains (Γ.lower n) = false)
  | [] => by simp [srcErrsList, visitedVars.visitedVarsList]
  | e :: es => by
    rw [srcErrsList, visitedVars.visitedVarsList, List.mem_append, List.mem_append, src_ctx_iff Γ n e,
      src_ctx_list_iff Γ n es]
    constructor
    · rintro (⟨h, h'⟩ | ⟨h, h'⟩)
      · exact ⟨Or.inl h, h'⟩
      · exact ⟨Or.inr h, h'⟩
    · rintro ⟨h | h, h'⟩
      · exact Or.inl ⟨h, h'⟩
      · exact Or.inr ⟨h, h'⟩
end

theorem not_allowed_iff : not_allowed_iff_statement := by
  intro Γ e n
  rw [mem_errs_iff Γ e _ (show "context-not-allowed" ∉ localCodes by decide)]
  exact src_ctx_iff Γ n e

mutual
theorem src_special (Γ : Env) (c : String) : ∀ e : E,
    (⟨"special-func-not-allowed", [c]⟩ : SemaErr) ∈ srcErrs Γ "special-func-not-allowed" e →
      c ∈ visitedCalls Γ e ∧ Γ.specialFuncs.contains (Γ.lower c) = true ∧
        Γ.availSpecial.contains (Γ.lower c) = false
  | .null | .bool | .num | .str _ => by simp [srcErrs]
  | .var m => by rw [srcErrs, keep_var_special]; intro h; cases h
  | .objDeref r _ => by rw [srcErrs, visitedCalls]; exact src_special Γ c r
  | .arrDeref r => by rw [srcErrs, visitedCalls]; exact src_special Γ c r
  | .not e => by rw [srcErrs, visitedCalls]; exact src_special Γ c e
  | .index r i => by
    rw [srcErrs, visitedCalls, List.mem_append, List.mem_append]
    rintro (h | h)
    · exact ⟨Or.inl (src_special Γ c i h).1, (src_special Γ c i h).2⟩
    · exact ⟨Or.inr (src_special Γ c r h).1, (src_special Γ c r h).2⟩
  | .cmp _ l r => by
    rw [srcErrs, visitedCalls, List.mem_append, List.mem_append]
    rintro (h | h)
    · exact ⟨Or.inl (src_special Γ c l h).1, (src_special Γ c l h).2⟩
    · exact ⟨Or.inr (src_special Γ c r h).1, (src_special Γ c r h).2⟩
  | .logical _ l r => by
    rw [srcErrs, visitedCalls, List.mem_append, List.mem_append]
    rintro (h | h)
    · exact ⟨Or.inl (src_special Γ c l h).1, (src_special Γ c l h).2⟩
    · exact ⟨Or.inr (src_special Γ c r h).1, (src_special Γ c r h).2⟩
  | .call c' args => by
    rw [srcErrs, visitedCalls]
    cases lookupFuncs (Γ.lower c') Γ.funcs with
    | none => intro h; cases h
    | some sigs =>
      simp only [Option.isSome_some, if_true, List.mem_append, List.mem_cons]
      rintro (h | h)
      · exact ⟨Or.inr (src_special_list Γ c args h).1, (src_special_list Γ c args h).2⟩
      · obtain ⟨h1, h2⟩ := mem_keep_resolveCall_special Γ c' sigs _ _ _ h
        simp only [err, SemaErr.mk.injEq, true_and, List.cons.injEq, and_true] at h1
        subst h1
        exact ⟨Or.inl rfl, h2⟩
theorem src_special_list (Γ : Env) (c : String) : ∀ es : List E,
    (⟨"special-func-not-allowed", [c]⟩ : SemaErr) ∈ srcErrsList Γ "special-func-not-allowed" es →
      c ∈ visitedCalls.visitedCallsList Γ es ∧ Γ.specialFuncs.contains (Γ.lower c) = true ∧
        Γ.availSpecial.contains (Γ.lower c) = false
  | [] => by simp [srcErrsList]
  | e :: es => by
    rw [srcErrsList, visitedCalls.visitedCallsList, List.mem_append, List.mem_append]
    rintro (h | h)
    · exact ⟨Or.inl (src_special Γ c e h).1, (src_special Γ c e h).2⟩
    · exact ⟨Or.inr (src_special_list Γ c es h).1, (src_special_list Γ c es h).2⟩
end

theorem special_not_allowed_sound : special_not_allowed_sound_statement := by
  intro Γ e c h
  rw [mem_errs_iff Γ e _ (show "special-func-not-allowed" ∉ localCodes by decide)] at h
  exact src_special Γ c e h

/-! ### concrete instances -/

/-- the environment of `jobs.<job_id>.steps.run`-like key where `matrix` is available but `secrets` is
not, and where `hashFiles` is special and unavailable; names are folded with `lowerAscii` -/
def exΓ : Env :=
  { vars := [("matrix", .obj [] (some .any)), ("secrets", .obj [] (some .string))],
    funcs := AL.Gen.funcSigs, specialFuncs := AL.Gen.specialFuncs,
    availCtx := ["matrix"], availSpecial := [], configVars := none,
    lower := AL.Facts.lowerAscii, fromJson := fun _ => .otherErr }

/-- `!(matrix.os == 'x' && contains(secrets.token, 'y'))`: `secrets` is reported although it sits inside
a call, under `&&` (narrowing) and under `!`; `matrix` is not reported -/
def exE : E :=
  .not (.logical .and (.cmp .eq (.objDeref (.var "matrix") "os") (.str "x"))
    (.call "contains" [.objDeref (.var "secrets") "token", .str "y"]))

example : (⟨"context-not-allowed", ["secrets"]⟩ : SemaErr) ∈ (check exΓ exE).errs ∧
    (⟨"context-not-allowed", ["matrix"]⟩ : SemaErr) ∉ (check exΓ exE).errs := by
  have hv : visitedVars exΓ exE = ["matrix", "secrets"] := by decide +kernel
  constructor
  · exact (not_allowed_iff exΓ exE "secrets").2 ⟨by rw [hv]; decide, by decide +kernel, by decide +kernel⟩
  · intro h
    have := ((not_allowed_iff exΓ exE "matrix").1 h).2.2
    revert this
    decide +kernel

/-- `hashFiles('x') == HashFiles('y')` where it is not available: a reported name is a visited callee
that is special and unavailable -/
example (c : String)
    (h : (⟨"special-func-not-allowed", [c]⟩ : SemaErr) ∈
      (check exΓ (.cmp .eq (.call "hashFiles" [.str "x"]) (.call "HashFiles" [.str "y"]))).errs) :
    c = "hashFiles" ∨ c = "HashFiles" := by
  have h1 := (special_not_allowed_sound exΓ _ c h).1
  have hv : visitedCalls exΓ (.cmp .eq (.call "hashFiles" [.str "x"]) (.call "HashFiles" [.str "y"]))
      = ["hashFiles", "HashFiles"] := by decide +kernel
  rw [hv] at h1
  simpa using h1

end AL.C12
