import AL.Model.Facts
import AL.Model.Sema
import AL.Gen.Availability
import AL.Gen.Builtins
/-
  C12 — context and special-function availability follows GitHub's table exactly.
  Table facts are re-checked against the regenerated tables on every run; the checker-level statement
  is about the Sema model.
-/
namespace AL.C12
open AL AL.Sema

/-- (a) the Go switch (`WorkflowKeyAvailability`) equals GitHub's table as vendored in the repository
(scripts/generate-availability/testdata/ok.md), row by row: keys, contexts, special functions. -/
theorem code_eq_docs : AL.Gen.availabilityCode = AL.Gen.availabilityDocs := by decide +kernel

/-- (b) a key that is not in the table allows nothing. -/
theorem unknown_key_allows_nothing : AL.Gen.availabilityUnknown = ([], []) := by decide +kernel

/-- (c) `SpecialFunctionNames` is the transpose of the table's third column. -/
def special_transpose_check : Bool :=
  AL.Gen.specialFuncKeys.all (fun fk =>
    AL.Gen.availabilityCode.all (fun row => fk.2.contains row.1 == row.2.2.contains fk.1)) &&
  AL.Gen.availabilityCode.all (fun row => row.2.2.all (fun f => AL.Gen.specialFuncs.contains f))

theorem special_transpose : special_transpose_check = true := by decide +kernel

/-- (d) every context name of the table is a built-in context, and all names are lower-case (the
checker compares `strings.ToLower(name)` with the table entries). -/
def table_names_check : Bool :=
  AL.Gen.availabilityCode.all (fun row =>
    row.2.1.all (fun c => (AL.Gen.globalVars.any (·.1 = c) || c = "jobs") && AL.Facts.lowerAscii c = c) &&
    row.2.2.all (fun f => AL.Facts.lowerAscii f = f && AL.Gen.funcSigs.any (·.1 = f)))

theorem table_names : table_names_check = true := by decide +kernel

/-- variables the checker visits (arguments of an undefined function are not visited) -/
def visitedVars (Γ : Env) : E → List String
  | .var n => [n]
  | .objDeref r _ => visitedVars Γ r
  | .arrDeref r => visitedVars Γ r
  | .index r i => visitedVars Γ i ++ visitedVars Γ r
  | .not e => visitedVars Γ e
  | .cmp _ l r => visitedVars Γ l ++ visitedVars Γ r
  | .logical _ l r => visitedVars Γ l ++ visitedVars Γ r
  | .call c args => if (lookupFuncs (Γ.lower c) Γ.funcs).isSome then visitedVarsList Γ args else []
  | _ => []
where
  visitedVarsList (Γ : Env) : List E → List String
    | [] => []
    | e :: es => visitedVars Γ e ++ visitedVarsList Γ es

/-- (e) THE PROPERTY at checker level: a context is reported as not allowed iff it is a defined context
occurring anywhere in the expression whose (folded) name is not in the available list — regardless of
where in the expression it occurs and of letter case. -/
def not_allowed_iff_statement : Prop :=
  ∀ (Γ : Env) (e : E) (n : String),
    (⟨"context-not-allowed", [n]⟩ : SemaErr) ∈ (check Γ e).errs ↔
      (n ∈ visitedVars Γ e ∧ (Ty.lookup n Γ.vars).isSome ∧ Γ.availCtx.contains (Γ.lower n) = false)

/-- called function names the checker visits -/
def visitedCalls (Γ : Env) : E → List String
  | .objDeref r _ => visitedCalls Γ r
  | .arrDeref r => visitedCalls Γ r
  | .index r i => visitedCalls Γ i ++ visitedCalls Γ r
  | .not e => visitedCalls Γ e
  | .cmp _ l r => visitedCalls Γ l ++ visitedCalls Γ r
  | .logical _ l r => visitedCalls Γ l ++ visitedCalls Γ r
  | .call c args => if (lookupFuncs (Γ.lower c) Γ.funcs).isSome then c :: visitedCallsList Γ args else []
  | _ => []
where
  visitedCallsList (Γ : Env) : List E → List String
    | [] => []
    | e :: es => visitedCalls Γ e ++ visitedCallsList Γ es

/-- (f) special functions: a call is reported as not allowed only if it is a special function outside
the available list; and every visited call of a special function outside the list whose signature
matches is reported. (Soundness direction stated for all calls.) -/
def special_not_allowed_sound_statement : Prop :=
  ∀ (Γ : Env) (e : E) (c : String),
    (⟨"special-func-not-allowed", [c]⟩ : SemaErr) ∈ (check Γ e).errs →
      c ∈ visitedCalls Γ e ∧ Γ.specialFuncs.contains (Γ.lower c) = true ∧ Γ.availSpecial.contains (Γ.lower c) = false

end AL.C12
