import AL.Model.ProjCall
import AL.Model.ProjAction
import AL.Props.C10Meta
/-
  C14 for a job that calls a LOCAL reusable workflow, over the whole-file model of the project case (AL.ProjCall):
  which entries of `with:` are reported as undefined, which declared inputs are reported as required — as iff statements
  about `checkLocal`, the function `wcJob` runs once `FindMetadata` has produced the interface. The interface itself is
  AL.CallMeta's (`required` = `required: true` and no default; AL.Props.C10Meta: the same whether it was decoded from
  the file or taken from the AST).
-/

namespace AL.C14P
open AL AL.Ast AL.CallMeta AL.ProjCall

theorem mem_sortStrings (l : List String) (x : String) : x ∈ AL.PW.sortStrings l ↔ x ∈ l := by
  have ins : ∀ (s : String) (l : List String) (x : String), x ∈ AL.PW.insertSorted s l ↔ x = s ∨ x ∈ l := by
    intro s l
    induction l with
    | nil => intro x; simp [AL.PW.insertSorted]
    | cons y ys ih =>
      intro x
      simp only [AL.PW.insertSorted]
      split
      · simp
      · simp only [List.mem_cons, ih]
        constructor
        · rintro (h | h | h)
          · exact Or.inr (Or.inl h)
          · exact Or.inl h
          · exact Or.inr (Or.inr h)
        · rintro (h | h | h)
          · exact Or.inr (Or.inl h)
          · exact Or.inl h
          · exact Or.inr (Or.inr h)
  induction l with
  | nil => simp [AL.PW.sortStrings]
  | cons y ys ih =>
    simp only [AL.PW.sortStrings, List.foldr_cons] at ih ⊢
    simp [ins, ih]

/-- **C14, inputs of a local reusable workflow — undefined**: an entry of `with:` is reported (at its key, naming the
called workflow) iff the interface does not declare it -/
theorem undefined_input_iff (m : Meta) (c : WorkflowCall) (u : Str) (kv : String × CallArg) (hk : kv ∈ c.inputs.getD []) :
    (∃ d ∈ checkLocal m c u, d.code = "input-undefined" ∧ d.pos = kv.2.name.pos ∧ d.args.head? = some kv.2.name.value) ↔
    (kv.1 ∉ keysOf m.inputs ∨ ∃ kv' ∈ c.inputs.getD [], kv'.1 ∉ keysOf m.inputs ∧ kv'.2.name.pos = kv.2.name.pos ∧ kv'.2.name.value = kv.2.name.value) := by
  constructor
  · rintro ⟨d, hd, hc, hp, ha⟩
    simp only [checkLocal, List.mem_append, List.mem_flatMap] at hd
    rcases hd with ((⟨n, _, hn⟩ | ⟨kv', hkv', hd'⟩) | hs)
    · exfalso
      split at hn
      · split at hn
        · simp only [List.mem_singleton] at hn; rw [hn] at hc; simp at hc
        · simp at hn
      · simp at hn
    · split at hd'
      · simp at hd'
      · rename_i hnot
        simp only [List.mem_singleton] at hd'
        subst hd'
        refine Or.inr ⟨kv', hkv', ?_, hp, ?_⟩
        · simpa using hnot
        · simpa using ha
    · exfalso
      split at hs
      · simp at hs
      · simp only [List.mem_append, List.mem_flatMap] at hs
        rcases hs with ⟨n, _, hn⟩ | ⟨kv', _, hd'⟩
        · split at hn
          · split at hn
            · simp only [List.mem_singleton] at hn; rw [hn] at hc; simp at hc
            · simp at hn
          · simp at hn
        · split at hd'
          · simp at hd'
          · simp only [List.mem_singleton] at hd'; rw [hd'] at hc; simp at hc
  · intro h
    have key : ∀ kv' ∈ c.inputs.getD [], kv'.1 ∉ keysOf m.inputs →
        (⟨kv'.2.name.pos, "workflow-call", "input-undefined",
          [kv'.2.name.value, u.value] ++ AL.PW.sortStrings (m.inputs.map (·.2.name))⟩ : AL.Rules.Diag) ∈ checkLocal m c u := by
      intro kv' hkv' hnot
      simp only [checkLocal, List.mem_append, List.mem_flatMap]
      refine Or.inl (Or.inr ⟨kv', hkv', ?_⟩)
      have : (keysOf m.inputs).contains kv'.1 = false := by simpa using hnot
      simp [this, hnot]
    rcases h with h | ⟨kv', hkv', hnot, hp, hv⟩
    · exact ⟨_, key kv hk h, rfl, rfl, rfl⟩
    · exact ⟨_, key kv' hkv' hnot, rfl, hp, by simp [hv]⟩

/-- **C14, inputs of a local reusable workflow — missing**: a declared input is reported as required (at `uses:`) iff it
is required (`required: true` and no default, AL.CallMeta) and `with:` does not supply it -/
theorem required_input_iff (m : Meta) (c : WorkflowCall) (u : Str) (n : String) (i : CallMeta.Input)
    (hfirst : m.inputs.find? (·.1 = n) = some (n, i)) :
    (⟨u.pos, "workflow-call", "input-required", [i.name, u.value]⟩ : AL.Rules.Diag) ∈ checkLocal m c u ↔
    (i.required = true ∧ n ∉ keysOf (c.inputs.getD [])) ∨
    (∃ n' i', m.inputs.find? (·.1 = n') = some (n', i') ∧ i'.name = i.name ∧ i'.required = true ∧ n' ∉ keysOf (c.inputs.getD [])) := by
  have hmem : n ∈ keysOf m.inputs := by
    have := List.mem_of_find?_eq_some hfirst
    simp only [keysOf, List.mem_map]
    exact ⟨_, this, rfl⟩
  constructor
  · intro hd
    simp only [checkLocal, List.mem_append, List.mem_flatMap] at hd
    rcases hd with ((⟨n', hn', hd'⟩ | ⟨kv', _, hd'⟩) | hs)
    · right
      split at hd'
      · rename_i e i' he
        split at hd'
        · rename_i hreq
          simp only [List.mem_singleton, AL.Rules.Diag.mk.injEq, List.cons.injEq, and_true, true_and] at hd'
          have hfe : e = n' := by
            have := List.find?_some he
            simpa using this
          subst hfe
          have hreq' : i'.required = true ∧ e ∉ keysOf (c.inputs.getD []) := by simpa using hreq
          exact ⟨e, i', he, hd'.symm, hreq'.1, hreq'.2⟩
        · simp at hd'
      · simp at hd'
    · exfalso
      split at hd'
      · simp at hd'
      · simp at hd'
    · exfalso
      split at hs
      · simp at hs
      · simp only [List.mem_append, List.mem_flatMap] at hs
        rcases hs with ⟨n', _, hn⟩ | ⟨kv', _, hd'⟩
        · split at hn
          · split at hn
            · simp at hn
            · simp at hn
          · simp at hn
        · split at hd'
          · simp at hd'
          · simp at hd'
  · intro h
    have key : ∀ n' i', m.inputs.find? (·.1 = n') = some (n', i') → i'.required = true → n' ∉ keysOf (c.inputs.getD []) →
        (⟨u.pos, "workflow-call", "input-required", [i'.name, u.value]⟩ : AL.Rules.Diag) ∈ checkLocal m c u := by
      intro n' i' hf hr hn
      simp only [checkLocal, List.mem_append, List.mem_flatMap]
      refine Or.inl (Or.inl ⟨n', ?_, ?_⟩)
      · rw [mem_sortStrings]
        have := List.mem_of_find?_eq_some hf
        simp only [keysOf, List.mem_map]
        exact ⟨_, this, rfl⟩
      · have hc : (keysOf (c.inputs.getD [])).contains n' = false := by simpa using hn
        simp [hf, hr, hc, hn]
    rcases h with ⟨hr, hn⟩ | ⟨n', i', hf, hname, hr, hn⟩
    · exact key n i hfirst hr hn
    · have := key n' i' hf hr hn
      rw [hname] at this
      exact this

/-- `secrets: inherit`: no secret is checked -/
theorem inherit_checks_no_secret (m : Meta) (c : WorkflowCall) (u : Str) (h : c.inheritSecrets = true) :
    ∀ d ∈ checkLocal m c u, d.code ≠ "secret-required" ∧ d.code ≠ "secret-undefined" := by
  intro d hd
  simp only [checkLocal, h, if_true, List.append_nil, List.mem_append, List.mem_flatMap] at hd
  rcases hd with ⟨n, _, hn⟩ | ⟨kv', _, hd'⟩
  · split at hn
    · split at hn
      · simp only [List.mem_singleton] at hn; rw [hn]; exact ⟨by simp, by simp⟩
      · simp at hn
    · simp at hn
  · split at hd'
    · simp at hd'
    · simp only [List.mem_singleton] at hd'; rw [hd']; exact ⟨by simp, by simp⟩

/-- **C14, secrets — missing** (without `secrets: inherit`): a declared secret is reported as required iff it is
`required: true` and `secrets:` does not supply it -/
theorem required_secret_iff (m : Meta) (c : WorkflowCall) (u : Str) (n : String) (sdecl : CallMeta.Secret)
    (hinh : c.inheritSecrets = false) (hfirst : m.secrets.find? (·.1 = n) = some (n, sdecl)) :
    (⟨u.pos, "workflow-call", "secret-required", [sdecl.name, u.value]⟩ : AL.Rules.Diag) ∈ checkLocal m c u ↔
    (sdecl.required = true ∧ n ∉ keysOf (c.secrets.getD [])) ∨
    (∃ n' s', m.secrets.find? (·.1 = n') = some (n', s') ∧ s'.name = sdecl.name ∧ s'.required = true ∧ n' ∉ keysOf (c.secrets.getD [])) := by
  constructor
  · intro hd
    simp only [checkLocal, hinh, Bool.false_eq_true, if_false, List.mem_append, List.mem_flatMap] at hd
    rcases hd with ((⟨n', _, hd'⟩ | ⟨kv', _, hd'⟩) | (⟨n', _, hd'⟩ | ⟨kv', _, hd'⟩))
    · exfalso
      split at hd'
      · split at hd'
        · simp at hd'
        · simp at hd'
      · simp at hd'
    · exfalso
      split at hd'
      · simp at hd'
      · simp at hd'
    · right
      split at hd'
      · rename_i e s' he
        split at hd'
        · rename_i hreq
          simp only [List.mem_singleton, AL.Rules.Diag.mk.injEq, List.cons.injEq, and_true, true_and] at hd'
          have hfe : e = n' := by
            have := List.find?_some he
            simpa using this
          subst hfe
          have hreq' : s'.required = true ∧ e ∉ keysOf (c.secrets.getD []) := by simpa using hreq
          exact ⟨e, s', he, hd'.symm, hreq'.1, hreq'.2⟩
        · simp at hd'
      · simp at hd'
    · exfalso
      split at hd'
      · simp at hd'
      · simp at hd'
  · intro h
    have key : ∀ n' s', m.secrets.find? (·.1 = n') = some (n', s') → s'.required = true → n' ∉ keysOf (c.secrets.getD []) →
        (⟨u.pos, "workflow-call", "secret-required", [s'.name, u.value]⟩ : AL.Rules.Diag) ∈ checkLocal m c u := by
      intro n' s' hf hr hn
      simp only [checkLocal, hinh, Bool.false_eq_true, if_false, List.mem_append, List.mem_flatMap]
      refine Or.inr (Or.inl ⟨n', ?_, ?_⟩)
      · rw [mem_sortStrings]
        have := List.mem_of_find?_eq_some hf
        simp only [keysOf, List.mem_map]
        exact ⟨_, this, rfl⟩
      · have hc : (keysOf (c.secrets.getD [])).contains n' = false := by simpa using hn
        simp [hf, hr, hc, hn]
    rcases h with ⟨hr, hn⟩ | ⟨n', s', hf, hname, hr, hn⟩
    · exact key n sdecl hfirst hr hn
    · have := key n' s' hf hr hn
      rw [hname] at this
      exact this

/-- **C14, typed inputs**: a `with:` entry is reported by the expression rule iff the called workflow declares that input
with a type other than `any` and the type of the supplied value — by spelling for a literal, the placeholder's type when
the value is one placeholder, else string — cannot be assigned to it -/
theorem typed_input_reported_iff (cx : AL.RuleExpr.Cx) (u : Str) (kv : String × CallArg) (ts : List AL.Ty) :
    AL.RuleExpr.typedInput cx u kv ts ≠ [] ↔
    ∃ ins e, cx.job.inputs = some ins ∧ ins.find? (·.1 = kv.1) = some e ∧ e.2.2.isAny = false ∧
      AL.Ty.assignable e.2.2 (AL.RuleExpr.suppliedTy cx kv.2.value ts) = false := by
  simp only [AL.RuleExpr.typedInput]
  cases hin : cx.job.inputs with
  | none => simp
  | some ins =>
    simp only
    cases hf : ins.find? (·.1 = kv.1) with
    | none =>
      simp only [ne_eq, not_true_eq_false, false_iff, not_exists, not_and]
      intro ins' e' hi he
      cases hi; rw [hf] at he; cases he
    | some e =>
      obtain ⟨k, name, decl⟩ := e
      simp only [hf]
      by_cases hany : decl.isAny = true
      · simp only [hany, if_true, ne_eq, not_true_eq_false, false_iff, not_exists, not_and]
        intro ins' e' hi he hn
        cases hi; rw [hf] at he; cases he
        simp [hany] at hn
      · by_cases has : AL.Ty.assignable decl (AL.RuleExpr.suppliedTy cx kv.2.value ts) = true
        · simp only [hany, has, Bool.false_eq_true, if_false, if_true, ne_eq, not_true_eq_false, false_iff, not_exists, not_and]
          intro ins' e' hi he _ hn
          cases hi; rw [hf] at he; cases he
          simp [has] at hn
        · simp only [hany, has, Bool.false_eq_true, if_false, ne_eq, List.cons_ne_nil, not_false_eq_true, true_iff]
          exact ⟨ins, (k, name, decl), rfl, hf, by simpa using hany, by simpa using has⟩

/-! ### a step that uses a LOCAL action (AL.ProjAction.inputDiags = `checkAction` with the metadata of `action.yml`) -/

/-- **C14, local action — undefined input**: an entry of `with:` is reported at its key iff the action's metadata does not
declare an input with that (lower-case) id -/
theorem local_action_undefined_input_iff (m : AL.ProjAction.ActionMeta) (spec : String) (e : ExecAction) (pos : AL.ProjAction.Pos)
    (kv : String × Ast.Input) (hk : kv ∈ e.inputs.getD []) :
    (∃ d ∈ AL.ProjAction.inputDiags m spec e pos, d.code = "local-input-undefined" ∧ d.pos = kv.2.name.pos ∧ d.args.head? = some kv.2.name.value) ↔
    (m.inputs.any (·.1 = kv.1) = false ∨
      ∃ kv' ∈ e.inputs.getD [], m.inputs.any (·.1 = kv'.1) = false ∧ kv'.2.name.pos = kv.2.name.pos ∧ kv'.2.name.value = kv.2.name.value) := by
  constructor
  · rintro ⟨d, hd, hc, hp, ha⟩
    simp only [AL.ProjAction.inputDiags, List.mem_append, List.mem_flatMap] at hd
    rcases hd with ⟨kv', hkv', hd'⟩ | ⟨id, _, hd'⟩
    · split at hd'
      · simp at hd'
      · rename_i hnot
        simp only [List.mem_singleton] at hd'
        subst hd'
        exact Or.inr ⟨kv', hkv', (Bool.not_eq_true _).mp hnot, hp, by simpa using ha⟩
    · exfalso
      split at hd'
      · split at hd'
        · simp at hd'
        · simp only [List.mem_singleton] at hd'; rw [hd'] at hc; simp at hc
      · simp at hd'
  · intro h
    have key : ∀ kv' ∈ e.inputs.getD [], m.inputs.any (·.1 = kv'.1) = false →
        (⟨kv'.2.name.pos, "action", "local-input-undefined",
          [kv'.2.name.value, m.name, spec] ++ AL.PW.sortStrings (m.inputs.map (·.2.1))⟩ : AL.Rules.Diag) ∈
          AL.ProjAction.inputDiags m spec e pos := by
      intro kv' hkv' hnot
      simp only [AL.ProjAction.inputDiags, List.mem_append, List.mem_flatMap]
      exact Or.inl ⟨kv', hkv', by simp [hnot]⟩
    rcases h with h | ⟨kv', hkv', hnot, hp, hv⟩
    · exact ⟨_, key kv hk h, rfl, rfl, rfl⟩
    · exact ⟨_, key kv' hkv' hnot, rfl, hp, by simp [hv]⟩

/-- **C14, local action — missing input**: a declared input is reported as missing (at `uses:`) iff the metadata marks it
required (`required: true` and no default, action_metadata.go) and `with:` does not supply it -/
theorem local_action_missing_input_iff (m : AL.ProjAction.ActionMeta) (spec : String) (e : ExecAction) (pos : AL.ProjAction.Pos)
    (id name : String) (hfirst : m.inputs.find? (·.1 = id) = some (id, name, true)) :
    (∃ d ∈ AL.ProjAction.inputDiags m spec e pos, d.code = "local-input-missing" ∧ d.args.head? = some name) ↔
    ((e.inputs.getD []).any (·.1 = id) = false ∨
      ∃ id', m.inputs.find? (·.1 = id') = some (id', name, true) ∧ (e.inputs.getD []).any (·.1 = id') = false) := by
  constructor
  · rintro ⟨d, hd, hc, ha⟩
    simp only [AL.ProjAction.inputDiags, List.mem_append, List.mem_flatMap] at hd
    rcases hd with ⟨kv', _, hd'⟩ | ⟨id', _, hd'⟩
    · exfalso
      split at hd'
      · simp at hd'
      · simp only [List.mem_singleton] at hd'; rw [hd'] at hc; simp at hc
    · right
      split at hd'
      · rename_i k nm hf
        split at hd'
        · simp at hd'
        · rename_i hg
          simp only [List.mem_singleton] at hd'
          subst hd'
          have hk : k = id' := by
            have := List.find?_some hf
            simpa using this
          subst hk
          have hnm : nm = name := by simpa using ha
          subst hnm
          exact ⟨k, hf, (Bool.not_eq_true _).mp hg⟩
      · simp at hd'
  · intro h
    have key : ∀ id', m.inputs.find? (·.1 = id') = some (id', name, true) → (e.inputs.getD []).any (·.1 = id') = false →
        ∃ d ∈ AL.ProjAction.inputDiags m spec e pos, d.code = "local-input-missing" ∧ d.args.head? = some name := by
      intro id' hf hg
      refine ⟨⟨pos, "action", "local-input-missing", [name, m.name, spec] ++ AL.PW.sortStrings ((m.inputs.filter (·.2.2)).map (·.2.1))⟩, ?_, rfl, rfl⟩
      simp only [AL.ProjAction.inputDiags, List.mem_append, List.mem_flatMap]
      refine Or.inr ⟨id', ?_, ?_⟩
      · rw [mem_sortStrings]
        have := List.mem_of_find?_eq_some hf
        simp only [List.mem_map]
        exact ⟨_, this, rfl⟩
      · simp [hf, hg]
    rcases h with h | ⟨id', hf, hg⟩
    · exact key id hfirst h
    · exact key id' hf hg

/-! ### from the called workflow's FILE to the caller's diagnostics -/

/-- what is on disk, when the files of the repository are given as document nodes: reading = looking the node up,
decoding = AL.CallMeta.fromDoc -/
def diskOfDocs (cfg : AL.PW.Cfg) (files : String → Option AL.Yaml.Node) (spec : String) : OnDisk :=
  match files spec with
  | none => .missing
  | some doc =>
    match AL.CallMeta.fromDoc cfg doc with
    | .ok m => .ok m
    | .error _ => .broken

/-- a called workflow the parser accepts (hypotheses of AL.Props.C10Meta.document_interface_agrees_checked) is on disk
with exactly the interface its AST has -/
theorem wellformed_callee_on_disk (cfg : AL.PW.Cfg) (files : String → Option AL.Yaml.Node) (spec : String) (doc : AL.Yaml.Node)
    (m : Meta) (hf : files spec = some doc) (hlow : cfg.lower "workflow_call" = "workflow_call")
    (hh : AL.CallMeta.docHypB cfg doc = true) (hc : (AL.PW.parse cfg doc).2 = []) (hm : AL.CallMeta.fromDocAst cfg doc = some m) :
    diskOfDocs cfg files spec = .ok m := by
  simp [diskOfDocs, hf, AL.C10M.document_interface_agrees_checked cfg doc hlow hh hc m hm]

/-- **C14 end to end for a local reusable workflow**: the first job (nothing cached yet) that calls, in the local format, a
workflow whose file the parser accepts gets exactly `checkLocal` of the interface the callee's AST declares — so the iff
theorems above speak about the callee's `inputs:` / `secrets:` as written in its file -/
theorem first_call_checks_declared_interface (cfg : AL.PW.Cfg) (files : String → Option AL.Yaml.Node) (doc : AL.Yaml.Node)
    (m : Meta) (call : WorkflowCall) (u : Str) (j : Job)
    (hj : j.workflowCall = some call) (hu : call.uses = some u)
    (hne : (u.value = "" || AL.Rules.containsExpr u) = false) (hloc : AL.Rules.isLocalCallFormat u.value = true)
    (hskip : skipped { disk := diskOfDocs cfg files } u.value = false)
    (hf : files u.value = some doc) (hlow : cfg.lower "workflow_call" = "workflow_call")
    (hh : AL.CallMeta.docHypB cfg doc = true) (hc : (AL.PW.parse cfg doc).2 = []) (hm : AL.CallMeta.fromDocAst cfg doc = some m) :
    (wcJob { disk := diskOfDocs cfg files } [] j).2 = checkLocal m call u := by
  have hd := wellformed_callee_on_disk cfg files u.value doc m hf hlow hh hc hm
  simp [wcJob, hj, hu, wcUses, hne, hloc, find, answer, hskip, cacheGet, diskAnswer, hd, wcFound]

end AL.C14P
