import AL.Lemmas.CallMetaSync
/-
  C10, mechanism "interface of a reusable workflow derived either by parseReusableWorkflowMetadata (file) or
  WriteWorkflowCallEvent (AST); both must agree" — as a theorem about the two Lean models (AL.CallMeta.fromYaml,
  AL.PW.parseWorkflowCallEvent + AL.CallMeta.fromAst), for every `workflow_call:` node.

  The proof did not close on the pinned tree: `default: null` was a default for the parser and none for the metadata
  reader (repaired in /repo, 6770443). What remains outside the theorem is stated as hypotheses: `NoPlaceholderRequired`
  (its failure is the recorded finding callee-required-placeholder, shown below as a counterexample) and `SaneTo 3`
  (yaml.v3's guarantees; no alias, no !!binary).
-/
namespace AL.C10M
open AL.Yaml AL.Ast AL.PW AL.CallMeta

/-- no `required:` of an input or secret is a `${{ }}` placeholder (a `!!str` scalar): the recorded finding
`callee-required-placeholder` is exactly the failure of this hypothesis -/
def NoPlaceholderRequired (n : Node) : Prop :=
  ∀ sec ∈ pairs n.content, ∀ ent ∈ pairs sec.2.content, ∀ a ∈ pairs ent.2.content,
    a.1.value = "required" → a.2.tag ≠ "!!str"

/-- **C10, "both derivations of a reusable workflow's interface must agree"**: for every `workflow_call:` section the
parser accepts without a diagnostic, decoding the same node the way `parseReusableWorkflowMetadata` does succeeds and
yields exactly the interface `WriteWorkflowCallEvent` builds from the AST — same keys in the same order, same names,
same required flags, same types. -/
theorem interface_agrees (cfg : Cfg) (pos : Pos) (n : Node) (hs : SaneTo 3 n) (hnp : NoPlaceholderRequired n)
    (hc : (parseWorkflowCallEvent cfg pos n).2 = []) :
    ∃ i s o, (parseWorkflowCallEvent cfg pos n).1 = .call i s o pos ∧ fromYaml cfg n = .ok (fromAst i s o) := by
  simp only [parseWorkflowCallEvent, parseSectionMapping] at hc ⊢
  obtain ⟨hm, hl⟩ := nil_of_append_nil hc
  obtain ⟨hkind, hm1, hm2⟩ := parseMapping_clean cfg _ n true hm
  rw [hm1] at hl ⊢
  refine ⟨_, _, _, rfl, ?_⟩
  have hsn : Sane n := hs.sane
  have hsync := struct_sync cfg (sectionWhat "workflow_call") ["inputs", "outputs", "secrets"]
    ["inputs", "outputs", "secrets"] (callEventKey cfg) (setMeta cfg) EvRel EvP
    (by intro a ha; simp only [List.mem_cons, List.not_mem_nil, or_false] at ha
        rcases ha with rfl | rfl | rfl <;> simp [nullWords])
    (event_step cfg) (pairs n.content) [] [] {} {} hm2 hl
    (by intro q hq
        have := hs.2 q hq
        exact ⟨this.1.sane, this.2, fun e he => hnp q hq e he⟩)
    (by simp) (by simp [EvRel, fromAst])
  obtain ⟨sy', hdec, seen', hr⟩ := hsync
  have hnd := (clean_noDup cfg _ (pairs n.content) [] hm2).1
  simp only [EvRel] at hr
  rw [← hr]
  rcases hkind with hn | hmap
  · obtain ⟨hk, ht⟩ := null_tag n hn
    have hp := pairs_of_null n hsn hn
    rw [hp] at hdec
    simp only [structLoop] at hdec
    simp [fromYaml, structDecode, hk, ht, ← hdec]
  · simp [fromYaml, structDecode, hmap, hnd, hdec]

/-! ### the hypotheses as a computable test (what the harness evaluates on every generated tree) -/

theorem saneNodeB_sound (n : Node) (h : saneNodeB n = true) : Sane n := by
  simp only [saneNodeB, Bool.and_eq_true, Bool.or_eq_true, bne_iff_ne, ne_eq, beq_iff_eq,
    List.isEmpty_iff, List.contains_iff_mem] at h
  obtain ⟨⟨⟨⟨⟨h1, h2⟩, h3⟩, h4⟩, h5⟩, h6⟩ := h
  exact ⟨h1, h2, fun hk => h3.resolve_left (fun c => c hk), fun hk => h4.resolve_left hk,
    fun ht => h5.resolve_left (fun c => c ht), fun ht => h6.resolve_left (fun c => c ht)⟩

theorem saneB_sound : ∀ (d : Nat) (n : Node), saneB d n = true → SaneTo d n := by
  intro d
  induction d with
  | zero => intro n h; exact saneNodeB_sound n h
  | succ d ih =>
    intro n h
    simp only [saneB, Bool.and_eq_true, List.all_eq_true] at h
    exact ⟨saneNodeB_sound n h.1, fun q hq => ⟨ih _ (h.2 q hq).1, ih _ (h.2 q hq).2⟩⟩

theorem noPlaceholderB_sound (n : Node) (h : noPlaceholderB n = true) : NoPlaceholderRequired n := by
  intro sec hsec ent hent a ha hreq
  simp only [noPlaceholderB, List.all_eq_true, Bool.or_eq_true, bne_iff_ne, ne_eq] at h
  exact (h sec hsec ent hent a ha).resolve_left (fun c => c hreq)

/-- the theorem with its hypotheses in the form the driver evaluates -/
theorem interface_agrees_checked (cfg : Cfg) (pos : Pos) (n : Node) (h1 : saneB 3 n = true) (h2 : noPlaceholderB n = true)
    (hc : (parseWorkflowCallEvent cfg pos n).2 = []) :
    ∃ i s o, (parseWorkflowCallEvent cfg pos n).1 = .call i s o pos ∧ fromYaml cfg n = .ok (fromAst i s o) :=
  interface_agrees cfg pos n (saneB_sound 3 n h1) (noPlaceholderB_sound n h2) hc

/-! ### from the `workflow_call:` node to the value of `on:` -/

theorem fromEvents_append_none (a b : List Event) (h : fromEvents a = none) : fromEvents (a ++ b) = fromEvents b := by
  induction a with
  | nil => rfl
  | cons e rest ih =>
    simp only [fromEvents] at h
    simp only [List.cons_append, fromEvents]
    cases he : fromEvent e with
    | some m => simp [he] at h
    | none => simp only [he] at h ⊢; exact ih h

theorem fromEvents_append_some (a b : List Event) (m : Meta) (h : fromEvents a = some m) : fromEvents (a ++ b) = some m := by
  induction a with
  | nil => simp [fromEvents] at h
  | cons e rest ih =>
    simp only [fromEvents] at h
    simp only [List.cons_append, fromEvents]
    cases he : fromEvent e with
    | some m' => simp only [he] at h ⊢; exact h
    | none => simp only [he] at h ⊢; exact ih h

/-- one iteration of the loop over the keys of `on:` appends at most one event; it is a `workflow_call` event only for
the key `workflow_call` -/
theorem eventOfKey_shape (cfg : Cfg) (st : List Event) (kv : KV) :
    ∃ es, (eventOfKey cfg st kv).1 = st ++ es ∧
      (kv.id = "workflow_call" → es = [(parseWorkflowCallEvent cfg kv.key.pos kv.val).1] ∧
        (eventOfKey cfg st kv).2 = (parseWorkflowCallEvent cfg kv.key.pos kv.val).2) ∧
      (kv.id ≠ "workflow_call" → fromEvents es = none) := by
  simp only [eventOfKey]
  split
  · -- schedule
    rename_i heq
    have hne : kv.id ≠ "workflow_call" := by rw [heq]; decide
    cases h : (parseScheduleEvent cfg kv.key.pos kv.val).1 with
    | none => exact ⟨[], by simp, fun e => absurd e hne, fun _ => rfl⟩
    | some ev =>
      refine ⟨[ev], by simp, fun e => absurd e hne, fun _ => ?_⟩
      simp only [parseScheduleEvent] at h
      split at h
      · simp at h
      · simp only [Option.some.injEq] at h; subst h; rfl
  · rename_i heq
    have hne : kv.id ≠ "workflow_call" := by rw [heq]; decide
    exact ⟨[_], rfl, fun e => absurd e hne, fun _ => rfl⟩
  · rename_i heq
    have hne : kv.id ≠ "workflow_call" := by rw [heq]; decide
    exact ⟨[_], rfl, fun e => absurd e hne, fun _ => rfl⟩
  · rename_i heq
    exact ⟨[_], rfl, fun _ => ⟨rfl, rfl⟩, fun h => absurd heq h⟩
  · rename_i h1 h2 h3 h4
    exact ⟨[_], rfl, fun e => absurd e h4, fun _ => rfl⟩

theorem fromEvents_loop_some (cfg : Cfg) (kvs : List KV) : ∀ (st : List Event) (m : Meta),
    fromEvents st = some m → fromEvents (loop (eventOfKey cfg) st kvs).1 = some m := by
  induction kvs with
  | nil => intro st m h; exact h
  | cons kv rest ih =>
    intro st m h
    rw [loop_cons]
    obtain ⟨es, he, _, _⟩ := eventOfKey_shape cfg st kv
    exact ih _ m (by rw [he]; exact fromEvents_append_some st es m h)

/-- a key of `on:` that is `workflow_call` up to letter case is spelled exactly so -/
def ExactCallKey (cfg : Cfg) (l : List (Node × Node)) : Prop :=
  ∀ q ∈ l, cfg.lower q.1.value = "workflow_call" → q.1.value = "workflow_call"

theorem events_sync (cfg : Cfg) (what : String) (hlow : cfg.lower "workflow_call" = "workflow_call") :
    ∀ (l : List (Node × Node)) (seen : List (String × Pos)) (st : List Event),
    (mappingLoop cfg what true l seen).2 = [] →
    (loop (eventOfKey cfg) st (mappingLoop cfg what true l seen).1).2 = [] →
    fromEvents st = none → ExactCallKey cfg l →
    (∀ q ∈ l, q.1.value = "workflow_call" → saneB 3 q.2 = true ∧ noPlaceholderB q.2 = true) →
    ∀ m, fromEvents (loop (eventOfKey cfg) st (mappingLoop cfg what true l seen).1).1 = some m →
      ∃ v, findCallKey cfg l = some v ∧ fromYaml cfg v = .ok m := by
  intro l
  induction l with
  | nil =>
    intro seen st _ _ hst _ _ m hm
    simp only [mappingLoop, loop_nil] at hm
    rw [hst] at hm; cases hm
  | cons q rest ih =>
    obtain ⟨k, v⟩ := q
    intro seen st hml hl hst hx hs m hm
    obtain ⟨_, _, _, hkvs, hr⟩ := mappingLoop_clean_cons cfg what true k v rest seen hml
    simp only [idOf, if_true] at hkvs hr
    rw [hkvs, loop_cons] at hl hm
    obtain ⟨hl1, hl2⟩ := nil_of_append_nil hl
    obtain ⟨es, he, hcall, hother⟩ := eventOfKey_shape cfg st ⟨k.value, newString k, v⟩
    by_cases hk : k.value = "workflow_call"
    · obtain ⟨hes, herr⟩ := hcall hk
      have hclean : (parseWorkflowCallEvent cfg (newString k).pos v).2 = [] := by rw [← herr]; exact hl1
      obtain ⟨hsane, hnp⟩ := hs (k, v) (by simp) hk
      obtain ⟨i, s, o, hev, hy⟩ := interface_agrees_checked cfg (newString k).pos v hsane hnp hclean
      have hst' : fromEvents (eventOfKey cfg st ⟨k.value, newString k, v⟩).1 = some (fromAst i s o) := by
        rw [he, fromEvents_append_none st es hst, hes]
        simp only [fromEvents]
        rw [hev]; rfl
      rw [fromEvents_loop_some cfg _ _ _ hst'] at hm
      cases hm
      refine ⟨v, ?_, hy⟩
      simp [findCallKey, hk, hlow]
    · have hst' : fromEvents (eventOfKey cfg st ⟨k.value, newString k, v⟩).1 = none := by
        rw [he, fromEvents_append_none st es hst]; exact hother hk
      have hnl : cfg.lower k.value ≠ "workflow_call" := fun e => hk (hx (k, v) (by simp) e)
      obtain ⟨v', hf, hy⟩ := ih _ _ hr hl2 hst' (fun q hq => hx q (List.mem_cons_of_mem _ hq))
        (fun q hq => hs q (List.mem_cons_of_mem _ hq)) m hm
      exact ⟨v', by simp [findCallKey, hnl, hf], hy⟩

/-- **the two derivations agree on the value of `on:`** (mapping form): if the parser accepts `on:` without a diagnostic
and the AST has a `workflow_call` event, reading `on:` the way the metadata reader does succeeds with the same interface -/
theorem on_interface_agrees (cfg : Cfg) (pos : Pos) (on : Node) (hk : on.kind = .mapping)
    (hlow : cfg.lower "workflow_call" = "workflow_call")
    (hc : (parseEvents cfg pos on).2 = [])
    (hx : ExactCallKey cfg (pairs on.content))
    (hs : ∀ q ∈ pairs on.content, q.1.value = "workflow_call" → saneB 3 q.2 = true ∧ noPlaceholderB q.2 = true)
    (m : Meta) (hm : fromEvents ((parseEvents cfg pos on).1.getD []) = some m) :
    fromOn cfg on = .ok m := by
  simp only [parseEvents, hk, parseSectionMapping] at hc hm
  obtain ⟨hc1, hc2⟩ := nil_of_append_nil hc
  have hnn : on.isNull = false := by simp [Node.isNull, hk]
  simp only [parseMapping, hnn, hk] at hc1 hc2 hm
  simp only [Bool.not_false, Bool.true_and, ne_eq, not_true_eq_false, decide_false, Bool.false_eq_true, if_false,
    Bool.and_false] at hc1 hc2 hm
  obtain ⟨hc1a, _⟩ := nil_of_append_nil hc1
  simp only [Option.getD_some] at hm
  obtain ⟨v, hf, hy⟩ := events_sync cfg _ hlow (pairs on.content) [] [] hc1a hc2 rfl hx hs m hm
  simp [fromOn, hk, hf, hy]


/-! ### the scalar and sequence forms of `on:` -/

theorem eventsOfSeq_call : ∀ (l : List Node) (m : Meta), (eventsOfSeq l).2 = [] → fromEvents (eventsOfSeq l).1 = some m →
    m = {} ∧ ∃ c ∈ l, c.value = "workflow_call" := by
  intro l
  induction l with
  | nil => intro m _ h; simp [eventsOfSeq, fromEvents] at h
  | cons c cs ih =>
    intro m hc hm
    simp only [eventsOfSeq] at hc hm
    split at hc
    · simp at hc
    · simp at hc
    · rename_i heq
      simp only [heq] at hm
      obtain ⟨_, h2⟩ := nil_of_append_nil hc
      simp only [fromEvents, fromEvent] at hm
      obtain ⟨hm1, c', hc', hv⟩ := ih m h2 hm
      exact ⟨hm1, c', List.mem_cons_of_mem _ hc', hv⟩
    · rename_i heq
      simp only [heq] at hm
      obtain ⟨h1, _⟩ := nil_of_append_nil hc
      obtain ⟨_, _, hs⟩ := parseString_clean c h1
      simp only [fromEvents, fromEvent, Option.some.injEq] at hm
      rw [hs] at heq
      exact ⟨by rw [← hm]; rfl, c, by simp, heq⟩
    · rename_i h1 h2 h3 h4
      obtain ⟨_, hc2⟩ := nil_of_append_nil hc
      have : fromEvents (eventsOfSeq cs).1 = some m := by
        revert hm
        split <;> simp_all [fromEvents, fromEvent]
      obtain ⟨hm1, c', hc', hv⟩ := ih m hc2 this
      exact ⟨hm1, c', List.mem_cons_of_mem _ hc', hv⟩

/-- what is asked of the value of `on:` when it is a mapping -/
def OnOk (cfg : Cfg) (on : Node) : Prop :=
  ExactCallKey cfg (pairs on.content) ∧
  ∀ q ∈ pairs on.content, q.1.value = "workflow_call" → saneB 3 q.2 = true ∧ noPlaceholderB q.2 = true

/-- all three forms of `on:` -/
theorem on_interface_agrees' (cfg : Cfg) (pos : Pos) (on : Node)
    (hlow : cfg.lower "workflow_call" = "workflow_call")
    (hc : (parseEvents cfg pos on).2 = []) (hok : OnOk cfg on)
    (m : Meta) (hm : fromEvents ((parseEvents cfg pos on).1.getD []) = some m) :
    fromOn cfg on = .ok m := by
  cases hk : on.kind with
  | mapping => exact on_interface_agrees cfg pos on hk hlow hc hok.1 hok.2 m hm
  | scalar =>
    simp only [parseEvents, hk] at hm
    by_cases hv : on.value = "workflow_call"
    · simp only [hv, Option.getD_some, fromEvents, fromEvent, Option.some.injEq] at hm
      simp only [fromOn, hk, hv, hlow, if_true]
      rw [← hm]; rfl
    · exfalso
      revert hm
      split
      · simp [fromEvents, fromEvent]
      · simp [fromEvents, fromEvent]
      · simp [fromEvents, fromEvent]
      · rename_i heq; exact absurd heq hv
      · split <;> simp [fromEvents, fromEvent]
  | sequence =>
    simp only [parseEvents, hk] at hm hc
    obtain ⟨_, hc2⟩ := nil_of_append_nil hc
    simp only [Option.getD_some] at hm
    obtain ⟨hm1, c, hcm, hv⟩ := eventsOfSeq_call on.content m hc2 hm
    have : (on.content.any fun c => cfg.lower c.value = "workflow_call") = true := by
      rw [List.any_eq_true]
      exact ⟨c, hcm, by simp [hv, hlow]⟩
    simp [fromOn, hk, this, hm1]
  | document => simp [parseEvents, hk, fromEvents] at hm
  | alias => simp [parseEvents, hk, fromEvents] at hm


/-! ### the whole document -/

def setOn (st : Option Node) (name : String) (v : Node) : D (Option Node) :=
  if name = "on" then .ok (some v) else .ok st

def DocRel (cfg : Cfg) (_seen : List (String × Pos)) (w : Workflow) (sy : Option Node) : Prop :=
  match sy with
  | none => w.on = none
  | some on => ∃ pos, w.on = (parseEvents cfg pos on).1 ∧ (parseEvents cfg pos on).2 = [] ∧ OnOk cfg on

theorem doc_step (cfg : Cfg) (seen : List (String × Pos)) (w : Workflow) (sy : Option Node) (k v : Node)
    (hrel : DocRel cfg seen w sy) (_hk : k.kind = .scalar) (_hls : lookupSeen k.value seen = none)
    (hp : k.value = "on" → OnOk cfg v)
    (hc : (workflowKey cfg w ⟨k.value, newString k, v⟩).2 = []) :
    k.value ∈ workflowKeys ∧
    (k.value ∈ ["on"] → ∃ sy', setOn sy k.value v = .ok sy' ∧
        DocRel cfg (seen ++ [(k.value, k.pos)]) (workflowKey cfg w ⟨k.value, newString k, v⟩).1 sy') ∧
    (k.value ∉ ["on"] → DocRel cfg (seen ++ [(k.value, k.pos)]) (workflowKey cfg w ⟨k.value, newString k, v⟩).1 sy) := by
  by_cases hon : k.value = "on"
  · simp only [workflowKey, hon] at hc ⊢
    refine ⟨by simp [workflowKeys], fun _ => ⟨some v, by simp [setOn], ?_⟩, fun h => absurd (by simp) h⟩
    exact ⟨_, rfl, hc, hp hon⟩
  · have keep : (workflowKey cfg w ⟨k.value, newString k, v⟩).1.on = w.on := by
      simp only [workflowKey]
      split <;> first | rfl | (rename_i heq; exact absurd heq hon)
    have hmem : k.value ∈ workflowKeys := by
      by_cases hmem : k.value ∈ workflowKeys
      · exact hmem
      · exfalso
        simp only [workflowKeys, List.mem_cons, List.not_mem_nil, or_false, not_or] at hmem
        obtain ⟨h1, h2, h3, h4, h5, h6, h7, h8⟩ := hmem
        simp only [workflowKey] at hc
        simp at hc
    refine ⟨hmem, fun h => absurd (by simpa using h) hon, fun _ => ?_⟩
    cases sy with
    | none => simp only [DocRel] at hrel ⊢; rw [keep]; exact hrel
    | some on =>
      simp only [DocRel] at hrel ⊢
      obtain ⟨pos, h1, h2, h3⟩ := hrel
      exact ⟨pos, by rw [keep]; exact h1, h2, h3⟩

theorem fixDocPos_content (doc : Node) : (fixDocPos doc).content = doc.content := by
  cases doc; rfl

/-- **C10, the two derivations of a reusable workflow's interface, for a whole file**: if the parser accepts the document
without a diagnostic and its AST has a `workflow_call` event — so that linting this file stores the interface built from
the AST — then reading the same document the way `parseReusableWorkflowMetadata` does succeeds and yields the same
interface. Hypotheses besides yaml.v3's guarantees: a key of `on:` that is `workflow_call` up to letter case is spelled
exactly so, and no `required:` in the section is a string. -/
theorem document_interface_agrees (cfg : Cfg) (doc root : Node) (rest : List Node) (hd : doc.content = root :: rest)
    (hlow : cfg.lower "workflow_call" = "workflow_call")
    (hc : (parse cfg doc).2 = [])
    (hkeys : ∀ q ∈ pairs root.content, saneNodeB q.1 = true)
    (hon : ∀ q ∈ pairs root.content, q.1.value = "on" → OnOk cfg q.2)
    (m : Meta) (hm : fromDocAst cfg doc = some m) :
    fromDoc cfg doc = .ok m := by
  have hfix : (fixDocPos doc).content = root :: rest := by rw [fixDocPos_content, hd]
  simp only [fromDocAst, parse, hfix] at hm
  simp only [parse, hfix] at hc
  obtain ⟨hc12, _⟩ := nil_of_append_nil hc
  obtain ⟨hc12, _⟩ := nil_of_append_nil hc12
  obtain ⟨hpm, hl⟩ := nil_of_append_nil hc12
  -- the root is a mapping
  have hmap : root.kind = .mapping := by
    simp only [parseMapping] at hpm
    by_cases hn : root.isNull = true
    · simp [hn] at hpm
    · by_cases hk : root.kind = .mapping
      · exact hk
      · simp [hn, hk] at hpm
  have hnn : root.isNull = false := by simp [Node.isNull, hmap]
  have hm1 : (parseMapping cfg "workflow" root false true).1 = (mappingLoop cfg "workflow" true (pairs root.content) []).1 := by
    simp [parseMapping, hnn, hmap]
  have hm2 : (mappingLoop cfg "workflow" true (pairs root.content) []).2 = [] := by
    simp only [parseMapping, hnn, hmap] at hpm
    simp only [Bool.not_false, Bool.true_and, ne_eq, not_true_eq_false, decide_false, Bool.false_eq_true, if_false,
      Bool.and_false] at hpm
    exact (nil_of_append_nil hpm).1
  rw [hm1] at hl hm
  have hsync := struct_sync cfg "workflow" ["on"] workflowKeys (workflowKey cfg) setOn (DocRel cfg) (fun k v => k.value = "on" → OnOk cfg v)
    (by intro a ha
        simp only [workflowKeys, List.mem_cons, List.not_mem_nil, or_false] at ha
        rcases ha with rfl | rfl | rfl | rfl | rfl | rfl | rfl | rfl <;> simp [nullWords])
    (doc_step cfg) (pairs root.content) [] [] {} none hm2 hl
    (fun q hq => ⟨saneNodeB_sound _ (hkeys q hq), hon q hq⟩) (by simp) (by simp [DocRel])
  obtain ⟨sy', hdec, seen', hrel⟩ := hsync
  have hnd := (clean_noDup cfg _ (pairs root.content) [] hm2).1
  have hdecode : structDecode ["on"] setOn none root = .ok sy' := by
    simp [structDecode, hmap, hnd, hdec]
  cases sy' with
  | none =>
    simp only [DocRel] at hrel
    rw [hrel] at hm
    simp [fromEvents] at hm
  | some on =>
    simp only [DocRel] at hrel
    obtain ⟨pos, h1, h2, h3⟩ := hrel
    rw [h1] at hm
    have hfd : fromDoc cfg doc = fromOn cfg on := by
      simp only [fromDoc, hd]
      have : (fun (st : Option Node) name v => if name = "on" then Except.ok (some v) else Except.ok st) = setOn := rfl
      rw [this, hdecode]
    rw [hfd]
    exact on_interface_agrees' cfg pos on hlow h2 h3 m hm


/-! ### the hypotheses of the document-level theorem as a computable test -/

theorem onOkB_sound (cfg : Cfg) (on : Node) (h : onOkB cfg on = true) : OnOk cfg on := by
  simp only [onOkB, List.all_eq_true, Bool.and_eq_true, Bool.or_eq_true, bne_iff_ne, ne_eq, beq_iff_eq] at h
  refine ⟨fun q hq hl => (h q hq).1.resolve_left (fun c => c hl), fun q hq hv => ?_⟩
  exact (h q hq).2.resolve_left (fun c => c hv)

theorem document_interface_agrees_checked (cfg : Cfg) (doc : Node)
    (hlow : cfg.lower "workflow_call" = "workflow_call") (hh : docHypB cfg doc = true)
    (hc : (parse cfg doc).2 = []) (m : Meta) (hm : fromDocAst cfg doc = some m) :
    fromDoc cfg doc = .ok m := by
  cases hd : doc.content with
  | nil => simp [docHypB, hd] at hh
  | cons root rest =>
    simp only [docHypB, hd, List.all_eq_true, Bool.and_eq_true, Bool.or_eq_true, bne_iff_ne, ne_eq] at hh
    exact document_interface_agrees cfg doc root rest hd hlow hc (fun q hq => (hh q hq).1)
      (fun q hq hv => onOkB_sound cfg _ ((hh q hq).2.resolve_left (fun c => c hv))) m hm


/-! ### the hypotheses are satisfiable, the conclusion is not trivial -/

def sc (tag value : String) (line col : Nat) : Node := .mk .scalar tag value false line col []
def mp (line col : Nat) (cs : List Node) : Node := .mk .mapping "!!map" "" false line col cs

/-- `{inputs: {Name: {type: number, required: TRUE, default: ~}, b: {required: true, type: string}}, secrets: {tok: {required: true}}, outputs: {O: {value: x}}}` -/
def exampleCall : Node :=
  mp 3 5 [sc "!!str" "inputs" 3 5, mp 4 7
    [sc "!!str" "Name" 4 7, mp 5 9 [sc "!!str" "type" 5 9, sc "!!str" "number" 5 15, sc "!!str" "required" 6 9, sc "!!bool" "TRUE" 6 19,
      sc "!!str" "default" 7 9, sc "!!null" "~" 7 18],
     sc "!!str" "b" 8 7, mp 9 9 [sc "!!str" "required" 9 9, sc "!!bool" "true" 9 19, sc "!!str" "type" 10 9, sc "!!str" "string" 10 15]],
   sc "!!str" "secrets" 11 5, mp 12 7 [sc "!!str" "tok" 12 7, mp 13 9 [sc "!!str" "required" 13 9, sc "!!bool" "true" 13 19]],
   sc "!!str" "outputs" 14 5, mp 15 7 [sc "!!str" "O" 15 7, mp 16 9 [sc "!!str" "value" 16 9, sc "!!str" "x" 16 16]]]

def exCfg : Cfg := { lower := asciiLower, atoi := fun _ => none, parseFloat := fun _ => .err }

example : (parseWorkflowCallEvent exCfg ⟨2, 3⟩ exampleCall).2 = [] := by decide +kernel
example : saneB 3 exampleCall = true ∧ noPlaceholderB exampleCall = true := by decide +kernel

example : (fromYaml exCfg exampleCall).toOption = some
    { inputs := [("name", ⟨"Name", true, .number⟩), ("b", ⟨"b", true, .string⟩)],
      outputs := [("o", "O")], secrets := [("tok", ⟨"tok", true⟩)] } := by decide +kernel

/-- the recorded finding as a counterexample: with `required: ${{ inputs.x }}` the parser has no diagnostic and the
interface from the AST says "not required", the metadata reader fails -/
def placeholderCall : Node :=
  mp 3 5 [sc "!!str" "inputs" 3 5, mp 4 7
    [sc "!!str" "a" 4 7, mp 5 9 [sc "!!str" "type" 5 9, sc "!!str" "string" 5 15,
      sc "!!str" "required" 6 9, sc "!!str" "${{ inputs.x }}" 6 19]]]

def isDecodeError {α : Type} : D α → Bool
  | .error .decode => true
  | _ => false

theorem placeholder_counterexample :
    (parseWorkflowCallEvent exCfg ⟨2, 3⟩ placeholderCall).2 = [] ∧
    fromEvent (parseWorkflowCallEvent exCfg ⟨2, 3⟩ placeholderCall).1 =
      some { inputs := [("a", ⟨"a", false, .string⟩)] } ∧
    isDecodeError (fromYaml exCfg placeholderCall) = true := by decide +kernel

end AL.C10M
