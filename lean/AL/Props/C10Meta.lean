import AL.Lemmas.CallMetaSync
/-
  C10, mechanism "interface of a reusable workflow derived either by parseReusableWorkflowMetadata (file) or
  WriteWorkflowCallEvent (AST); both must agree" — as a theorem about the two Lean models (AL.CallMeta.fromYaml,
  AL.PW.parseWorkflowCallEvent + AL.CallMeta.fromAst), for every `workflow_call:` node.

  The proof did not close on the pinned tree: `default: null` was a default for the parser and none for the metadata
  reader (repaired in /repo, 6770443). What remains outside the theorem is stated as hypotheses: `NoPlaceholderRequired`
  (its failure is the recorded finding callee-required-placeholder, shown below as a counterexample) and `SaneTo 3`
  (yaml.v3's guarantees; no alias, no !!binary).
-/
namespace AL.C10M
open AL.Yaml AL.Ast AL.PW AL.CallMeta

/-- no `required:` of an input or secret is a `${{ }}` placeholder (a `!!str` scalar): the recorded finding
`callee-required-placeholder` is exactly the failure of this hypothesis -/
def NoPlaceholderRequired (n : Node) : Prop :=
  ∀ sec ∈ pairs n.content, ∀ ent ∈ pairs sec.2.content, ∀ a ∈ pairs ent.2.content,
    a.1.value = "required" → a.2.tag ≠ "!!str"

/-- **C10, "both derivations of a reusable workflow's interface must agree"**: for every `workflow_call:` section the
parser accepts without a diagnostic, decoding the same node the way `parseReusableWorkflowMetadata` does succeeds and
yields exactly the interface `WriteWorkflowCallEvent` builds from the AST — same keys in the same order, same names,
same required flags, same types. -/
theorem interface_agrees (cfg : Cfg) (pos : Pos) (n : Node) (hs : SaneTo 3 n) (hnp : NoPlaceholderRequired n)
    (hc : (parseWorkflowCallEvent cfg pos n).2 = []) :
    ∃ i s o, (parseWorkflowCallEvent cfg pos n).1 = .call i s o pos ∧ fromYaml cfg n = .ok (fromAst i s o) := by
  simp only [parseWorkflowCallEvent, parseSectionMapping] at hc ⊢
  obtain ⟨hm, hl⟩ := nil_of_append_nil hc
  obtain ⟨hkind, hm1, hm2⟩ := parseMapping_clean cfg _ n true hm
  rw [hm1] at hl ⊢
  refine ⟨_, _, _, rfl, ?_⟩
  have hsn : Sane n := hs.sane
  have hsync := struct_sync cfg (sectionWhat "workflow_call") ["inputs", "outputs", "secrets"]
    ["inputs", "outputs", "secrets"] (callEventKey cfg) (setMeta cfg) EvRel EvP
    (by intro a ha; simp only [List.mem_cons, List.not_mem_nil, or_false] at ha
        rcases ha with rfl | rfl | rfl <;> simp [nullWords])
    (event_step cfg) (pairs n.content) [] [] {} {} hm2 hl
    (by intro q hq
        have := hs.2 q hq
        exact ⟨this.1.sane, this.2, fun e he => hnp q hq e he⟩)
    (by simp) (by simp [EvRel, fromAst])
  obtain ⟨sy', hdec, seen', hr⟩ := hsync
  have hnd := (clean_noDup cfg _ (pairs n.content) [] hm2).1
  simp only [EvRel] at hr
  rw [← hr]
  rcases hkind with hn | hmap
  · obtain ⟨hk, ht⟩ := null_tag n hn
    have hp := pairs_of_null n hsn hn
    rw [hp] at hdec
    simp only [structLoop] at hdec
    simp [fromYaml, structDecode, hk, ht, ← hdec]
  · simp [fromYaml, structDecode, hmap, hnd, hdec]

/-! ### the hypotheses as a computable test (what the harness evaluates on every generated tree) -/

theorem saneNodeB_sound (n : Node) (h : saneNodeB n = true) : Sane n := by
  simp only [saneNodeB, Bool.and_eq_true, Bool.or_eq_true, bne_iff_ne, ne_eq, beq_iff_eq,
    List.isEmpty_iff, List.contains_iff_mem] at h
  obtain ⟨⟨⟨⟨⟨h1, h2⟩, h3⟩, h4⟩, h5⟩, h6⟩ := h
  exact ⟨h1, h2, fun hk => h3.resolve_left (fun c => c hk), fun hk => h4.resolve_left hk,
    fun ht => h5.resolve_left (fun c => c ht), fun ht => h6.resolve_left (fun c => c ht)⟩

theorem saneB_sound : ∀ (d : Nat) (n : Node), saneB d n = true → SaneTo d n := by
  intro d
  induction d with
  | zero => intro n h; exact saneNodeB_sound n h
  | succ d ih =>
    intro n h
    simp only [saneB, Bool.and_eq_true, List.all_eq_true] at h
    exact ⟨saneNodeB_sound n h.1, fun q hq => ⟨ih _ (h.2 q hq).1, ih _ (h.2 q hq).2⟩⟩

theorem noPlaceholderB_sound (n : Node) (h : noPlaceholderB n = true) : NoPlaceholderRequired n := by
  intro sec hsec ent hent a ha hreq
  simp only [noPlaceholderB, List.all_eq_true, Bool.or_eq_true, bne_iff_ne, ne_eq] at h
  exact (h sec hsec ent hent a ha).resolve_left (fun c => c hreq)

/-- the theorem with its hypotheses in the form the driver evaluates -/
theorem interface_agrees_checked (cfg : Cfg) (pos : Pos) (n : Node) (h1 : saneB 3 n = true) (h2 : noPlaceholderB n = true)
    (hc : (parseWorkflowCallEvent cfg pos n).2 = []) :
    ∃ i s o, (parseWorkflowCallEvent cfg pos n).1 = .call i s o pos ∧ fromYaml cfg n = .ok (fromAst i s o) :=
  interface_agrees cfg pos n (saneB_sound 3 n h1) (noPlaceholderB_sound n h2) hc

/-! ### the hypotheses are satisfiable, the conclusion is not trivial -/

def sc (tag value : String) (line col : Nat) : Node := .mk .scalar tag value false line col []
def mp (line col : Nat) (cs : List Node) : Node := .mk .mapping "!!map" "" false line col cs

/-- `{inputs: {Name: {type: number, required: TRUE, default: ~}, b: {required: true, type: string}}, secrets: {tok: {required: true}}, outputs: {O: {value: x}}}` -/
def exampleCall : Node :=
  mp 3 5 [sc "!!str" "inputs" 3 5, mp 4 7
    [sc "!!str" "Name" 4 7, mp 5 9 [sc "!!str" "type" 5 9, sc "!!str" "number" 5 15, sc "!!str" "required" 6 9, sc "!!bool" "TRUE" 6 19,
      sc "!!str" "default" 7 9, sc "!!null" "~" 7 18],
     sc "!!str" "b" 8 7, mp 9 9 [sc "!!str" "required" 9 9, sc "!!bool" "true" 9 19, sc "!!str" "type" 10 9, sc "!!str" "string" 10 15]],
   sc "!!str" "secrets" 11 5, mp 12 7 [sc "!!str" "tok" 12 7, mp 13 9 [sc "!!str" "required" 13 9, sc "!!bool" "true" 13 19]],
   sc "!!str" "outputs" 14 5, mp 15 7 [sc "!!str" "O" 15 7, mp 16 9 [sc "!!str" "value" 16 9, sc "!!str" "x" 16 16]]]

def exCfg : Cfg := { lower := asciiLower, atoi := fun _ => none, parseFloat := fun _ => .err }

example : (parseWorkflowCallEvent exCfg ⟨2, 3⟩ exampleCall).2 = [] := by decide +kernel
example : saneB 3 exampleCall = true ∧ noPlaceholderB exampleCall = true := by decide +kernel

example : (fromYaml exCfg exampleCall).toOption = some
    { inputs := [("name", ⟨"Name", true, .number⟩), ("b", ⟨"b", true, .string⟩)],
      outputs := [("o", "O")], secrets := [("tok", ⟨"tok", true⟩)] } := by decide +kernel

/-- the recorded finding as a counterexample: with `required: ${{ inputs.x }}` the parser has no diagnostic and the
interface from the AST says "not required", the metadata reader fails -/
def placeholderCall : Node :=
  mp 3 5 [sc "!!str" "inputs" 3 5, mp 4 7
    [sc "!!str" "a" 4 7, mp 5 9 [sc "!!str" "type" 5 9, sc "!!str" "string" 5 15,
      sc "!!str" "required" 6 9, sc "!!str" "${{ inputs.x }}" 6 19]]]

def isDecodeError {α : Type} : D α → Bool
  | .error .decode => true
  | _ => false

theorem placeholder_counterexample :
    (parseWorkflowCallEvent exCfg ⟨2, 3⟩ placeholderCall).2 = [] ∧
    fromEvent (parseWorkflowCallEvent exCfg ⟨2, 3⟩ placeholderCall).1 =
      some { inputs := [("a", ⟨"a", false, .string⟩)] } ∧
    isDecodeError (fromYaml exCfg placeholderCall) = true := by decide +kernel

end AL.C10M
