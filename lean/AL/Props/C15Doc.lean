import AL.Model.Ignore
import AL.Props.C15
import AL.Props.C15Config
/-
  C15 — the ignore filter, from the configuration DOCUMENT and the command line to the reported diagnostics.

  `AL.Ignore` is the concrete `ignored` predicate `Linter.check` builds (`-ignore` patterns, `Config.PathConfigs`,
  `Linter.filterErrors`); `AL.C15` has the properties of the tail of `check` for an abstract predicate; `AL.ConfigDecode` is
  `ParseConfig` on the yaml.Node tree of actionlint.yaml.

  §1  the filter: a diagnostic is dropped iff a `-ignore` pattern matches its message or a pattern of SOME entry of `paths`
      whose glob matches the path does (all matching entries contribute); nothing else is dropped, the order is kept, the
      early return of `filterErrors` cannot be observed, the order in which Go ranges over the `paths` map cannot be
      observed; more patterns drop more.
  §2  the document: the `paths` of an accepted configuration are exactly what a reader without error paths (`docPaths`) finds
      in the node tree; every pattern / glob it finds was validated — an invalid one is an error of `ParseConfig`.
  §3  the working directory: inside a project the whole tail is the same from every directory (up to the display path
      written into `file`); OUTSIDE every project with `-config-file` it is not (`no_project_cwd_dependent`).
  §4  exit status.
  §5  a concrete configuration document.
-/
namespace AL.C15D
open AL.Lint AL.Ignore AL.ConfigDecode AL.Yaml
open AL.CallMeta (D E decStr structLoop structDecode viaUnmarshaler isMerge hasDupKey)

/-! ## §1 the filter -/

/-- some pattern of the list matches the message -/
def AnyMatch (reMatch : String → String → Bool) (pats : List String) (msg : String) : Prop :=
  ∃ p ∈ pats, reMatch p msg = true

/-- THE CONDITION: a `-ignore` pattern matches, or a pattern of an entry of `paths` whose glob matches `relPath` does -/
def Matches (reMatch globMatch : String → String → Bool) (cli : List String) (paths : List (String × List String))
    (relPath msg : String) : Prop :=
  AnyMatch reMatch cli msg ∨ ∃ e ∈ paths, globMatch e.1 relPath = true ∧ AnyMatch reMatch e.2 msg

theorem patsMatch_iff (reMatch : String → String → Bool) (pats : List String) (msg : String) :
    patsMatch reMatch pats msg = true ↔ AnyMatch reMatch pats msg := by
  simp only [patsMatch, List.any_eq_true, AnyMatch]

/-- `ignoredBy` spelled out -/
theorem ignoredBy_iff (reMatch : String → String → Bool) (cli : List String) (pcs : List (List String)) (d : D) :
    ignoredBy reMatch cli pcs d = true ↔ AnyMatch reMatch cli d.msg ∨ ∃ ps ∈ pcs, AnyMatch reMatch ps d.msg := by
  simp only [ignoredBy, Bool.or_eq_true, patsMatch_iff, List.any_eq_true]

/-- `PathConfigs` returns the `ignore:` list of an entry iff the entry's glob matches: ALL matching entries, nothing else -/
theorem mem_pathConfigs (globMatch : String → String → Bool) (cfg : Config) (relPath : String) (ps : List String) :
    ps ∈ pathConfigs globMatch cfg relPath ↔ ∃ e ∈ cfg.paths, globMatch e.1 relPath = true ∧ e.2 = ps := by
  simp only [pathConfigs, List.mem_map, List.mem_filter]
  constructor
  · rintro ⟨e, ⟨he, hg⟩, rfl⟩; exact ⟨e, he, hg, rfl⟩
  · rintro ⟨e, he, hg, rfl⟩; exact ⟨e, ⟨he, hg⟩, rfl⟩

/-- the concrete predicate of `check` in terms of the command line and the configuration -/
theorem ignored_iff (reMatch globMatch : String → String → Bool) (cli : List String) (cfg : Config) (relPath : String)
    (d : D) :
    ignoredBy reMatch cli (pathConfigs globMatch cfg relPath) d = true ↔
      Matches reMatch globMatch cli cfg.paths relPath d.msg := by
  rw [ignoredBy_iff]
  unfold Matches
  constructor
  · rintro (h | ⟨ps, hps, hm⟩)
    · exact .inl h
    · obtain ⟨e, he, hg, rfl⟩ := (mem_pathConfigs globMatch cfg relPath ps).1 hps
      exact .inr ⟨e, he, hg, hm⟩
  · rintro (h | ⟨e, he, hg, hm⟩)
    · exact .inl h
    · exact .inr ⟨e.2, (mem_pathConfigs globMatch cfg relPath e.2).2 ⟨e, he, hg, rfl⟩, hm⟩

/-- the decision looks at the message only -/
theorem ignoredBy_msg (reMatch : String → String → Bool) (cli : List String) (pcs : List (List String)) (d d' : D)
    (h : d.msg = d'.msg) : ignoredBy reMatch cli pcs d = ignoredBy reMatch cli pcs d' := by
  simp only [ignoredBy, h]

/-- in particular not at the file (the hypothesis of `AL.C15.filter_exact`) -/
theorem ignoredBy_file (reMatch : String → String → Bool) (cli : List String) (pcs : List (List String)) (d : D)
    (f : String) : ignoredBy reMatch cli pcs { d with file := f } = ignoredBy reMatch cli pcs d := rfl

/-- the early return of `filterErrors` (no `-ignore` pattern and no matching entry) is not observable: `filterErrors` is
the plain filter `AL.Lint.filterErrors` with the predicate `ignoredBy` -/
theorem filterErrs_eq (reMatch : String → String → Bool) (cli : List String) (pcs : List (List String)) (errs : List D) :
    filterErrs reMatch cli pcs errs = filterErrors (ignoredBy reMatch cli pcs) errs := by
  unfold filterErrs filterErrors
  split
  · rename_i h
    simp only [Bool.and_eq_true, List.isEmpty_iff] at h
    obtain ⟨rfl, rfl⟩ := h
    exact (List.filter_eq_self.2 (by intro d _; simp [ignoredBy, patsMatch])).symm
  · rfl

/-- the tail as written (nil-able configuration, early return) is the tail `lintTail` / `checkTail` -/
theorem lintTailOpt_some (reMatch globMatch : String → String → Bool) (cli : List String) (cfg : Config)
    (relPath path : String) (raw : List D) :
    lintTailOpt reMatch globMatch cli (some cfg) relPath path raw = lintTail reMatch globMatch cli cfg relPath path raw := by
  simp only [lintTailOpt, lintTail, checkTail, pathConfigsOpt, filterErrs_eq]

/-- without a configuration only the `-ignore` patterns count -/
theorem lintTailOpt_none (reMatch globMatch : String → String → Bool) (cli : List String) (relPath path : String)
    (raw : List D) :
    lintTailOpt reMatch globMatch cli none relPath path raw = checkTail (ignoredBy reMatch cli []) path raw := by
  simp only [lintTailOpt, checkTail, pathConfigsOpt, filterErrs_eq]

/-- a nil configuration is a configuration without `paths` -/
theorem lintTailOpt_none_eq_empty (reMatch globMatch : String → String → Bool) (cli : List String) (relPath path : String)
    (raw : List D) :
    lintTailOpt reMatch globMatch cli none relPath path raw = lintTail reMatch globMatch cli {} relPath path raw := by
  rw [lintTailOpt_none]; rfl

/-- membership in the output of `checkTail` -/
theorem mem_checkTail (ignored : D → Bool) (path : String) (raw : List D) (x : D) :
    x ∈ checkTail ignored path raw ↔ ∃ d ∈ raw, ignored d = false ∧ x = { d with file := path } := by
  unfold checkTail
  rw [(stableSort_perm _).mem_iff]
  simp only [filterErrors, List.mem_map, List.mem_filter, Bool.not_eq_true']
  constructor
  · rintro ⟨d, ⟨hd, hi⟩, rfl⟩; exact ⟨d, hd, hi, rfl⟩
  · rintro ⟨d, hd, hi, rfl⟩; exact ⟨d, ⟨hd, hi⟩, rfl⟩

/-- what is reported: exactly the raw diagnostics (labelled with the file) whose message meets no applicable pattern -/
theorem mem_lintTail (reMatch globMatch : String → String → Bool) (cli : List String) (cfg : Config)
    (relPath path : String) (raw : List D) (x : D) :
    x ∈ lintTail reMatch globMatch cli cfg relPath path raw ↔
      ∃ d ∈ raw, ¬ Matches reMatch globMatch cli cfg.paths relPath d.msg ∧ x = { d with file := path } := by
  unfold lintTail
  rw [mem_checkTail]
  constructor
  · rintro ⟨d, hd, hi, rfl⟩
    refine ⟨d, hd, ?_, rfl⟩
    rw [← ignored_iff, hi]; simp
  · rintro ⟨d, hd, hi, rfl⟩
    refine ⟨d, hd, ?_, rfl⟩
    rw [← ignored_iff] at hi
    simpa using hi

/-- (a) THE PROPERTY: a diagnostic found by the parser or the rules is missing from the output iff a `-ignore` pattern
matches its message or a pattern of an entry of `paths` whose glob matches the path does -/
theorem dropped_iff (reMatch globMatch : String → String → Bool) (cli : List String) (cfg : Config)
    (relPath path : String) (raw : List D) (d : D) (hd : d ∈ raw) :
    { d with file := path } ∉ lintTail reMatch globMatch cli cfg relPath path raw ↔
      Matches reMatch globMatch cli cfg.paths relPath d.msg := by
  rw [mem_lintTail]
  constructor
  · intro h
    apply Classical.byContradiction
    intro hn
    exact h ⟨d, hd, hn, rfl⟩
  · rintro hm ⟨d', _, hn, he⟩
    have : d.msg = d'.msg := by injection he
    rw [this] at hm
    exact hn hm

/-- nothing is invented: every reported diagnostic is a raw one with the file set -/
theorem reported_is_raw (reMatch globMatch : String → String → Bool) (cli : List String) (cfg : Config)
    (relPath path : String) (raw : List D) (x : D) (hx : x ∈ lintTail reMatch globMatch cli cfg relPath path raw) :
    ∃ d ∈ raw, x = { d with file := path } := by
  obtain ⟨d, hd, _, he⟩ := (mem_lintTail ..).1 hx
  exact ⟨d, hd, he⟩

/-- (a) order: the output is the unfiltered, sorted list with the matching diagnostics removed — the order of the rest is
unchanged (`AL.C15.filter_exact` with the concrete predicate, which needs no hypothesis any more) -/
theorem kept_order (reMatch globMatch : String → String → Bool) (cli : List String) (cfg : Config)
    (relPath path : String) (raw : List D) :
    lintTail reMatch globMatch cli cfg relPath path raw =
      (checkTail (fun _ => false) path raw).filter
        (fun d => !ignoredBy reMatch cli (pathConfigs globMatch cfg relPath) d) :=
  AL.C15.filter_exact _ path raw (fun _ _ => rfl)

theorem kept_sublist (reMatch globMatch : String → String → Bool) (cli : List String) (cfg : Config)
    (relPath path : String) (raw : List D) :
    List.Sublist (lintTail reMatch globMatch cli cfg relPath path raw) (checkTail (fun _ => false) path raw) := by
  rw [kept_order]; exact List.filter_sublist

/-- before the sort: what `filterErrors` returns is a sublist of what it was given -/
theorem filterErrs_sublist (reMatch : String → String → Bool) (cli : List String) (pcs : List (List String))
    (errs : List D) : List.Sublist (filterErrs reMatch cli pcs errs) errs := by
  rw [filterErrs_eq]; exact List.filter_sublist

/-- no applicable pattern, no drop: without `-ignore` and with every matching entry's `ignore:` empty the output is the
unfiltered one -/
theorem no_patterns_no_drop (reMatch globMatch : String → String → Bool) (cfg : Config) (relPath path : String)
    (raw : List D) (h : ∀ e ∈ cfg.paths, globMatch e.1 relPath = true → e.2 = []) :
    lintTail reMatch globMatch [] cfg relPath path raw = checkTail (fun _ => false) path raw := by
  rw [kept_order]
  apply List.filter_eq_self.2
  intro d _
  have : ¬ (ignoredBy reMatch [] (pathConfigs globMatch cfg relPath) d = true) := by
    rw [ignored_iff]
    rintro (⟨p, hp, _⟩ | ⟨e, he, hg, p, hp, _⟩)
    · cases hp
    · rw [h e he hg] at hp; cases hp
  simpa using this

/-- … in particular when no glob matches the file, and when there is no configuration at all -/
theorem no_glob_no_drop (reMatch globMatch : String → String → Bool) (cfg : Config) (relPath path : String)
    (raw : List D) (h : ∀ e ∈ cfg.paths, globMatch e.1 relPath = false) :
    lintTail reMatch globMatch [] cfg relPath path raw = checkTail (fun _ => false) path raw :=
  no_patterns_no_drop reMatch globMatch cfg relPath path raw (fun e he hg => by rw [h e he] at hg; cases hg)

theorem no_config_no_drop (reMatch globMatch : String → String → Bool) (relPath path : String) (raw : List D) :
    lintTailOpt reMatch globMatch [] none relPath path raw = checkTail (fun _ => false) path raw := by
  rw [lintTailOpt_none_eq_empty]
  exact no_patterns_no_drop reMatch globMatch {} relPath path raw (fun e he => by cases he)

/-- a pattern that matches nothing changes nothing … -/
theorem Matches_mono {reMatch globMatch : String → String → Bool} {cli cli' : List String}
    {paths paths' : List (String × List String)} {relPath msg : String}
    (hc : ∀ p ∈ cli, p ∈ cli') (hp : ∀ e ∈ paths, ∃ e' ∈ paths', e'.1 = e.1 ∧ ∀ p ∈ e.2, p ∈ e'.2)
    (h : Matches reMatch globMatch cli paths relPath msg) : Matches reMatch globMatch cli' paths' relPath msg := by
  rcases h with ⟨p, hp', hm⟩ | ⟨e, he, hg, p, hp', hm⟩
  · exact .inl ⟨p, hc p hp', hm⟩
  · obtain ⟨e', he', h1, h2⟩ := hp e he
    exact .inr ⟨e', he', by rw [h1]; exact hg, p, h2 p hp', hm⟩

/-- monotone in the pattern sets: with more `-ignore` patterns, more entries or more patterns in an entry, the output is
the old output with some more diagnostics removed (never a new or a re-ordered one) -/
theorem more_patterns_drop_more (reMatch globMatch : String → String → Bool) (cli cli' : List String)
    (cfg cfg' : Config) (relPath path : String) (raw : List D)
    (hc : ∀ p ∈ cli, p ∈ cli')
    (hp : ∀ e ∈ cfg.paths, ∃ e' ∈ cfg'.paths, e'.1 = e.1 ∧ ∀ p ∈ e.2, p ∈ e'.2) :
    lintTail reMatch globMatch cli' cfg' relPath path raw =
      (lintTail reMatch globMatch cli cfg relPath path raw).filter
        (fun d => !ignoredBy reMatch cli' (pathConfigs globMatch cfg' relPath) d) := by
  rw [kept_order, kept_order, List.filter_filter]
  apply List.filter_congr
  intro d _
  cases h : ignoredBy reMatch cli (pathConfigs globMatch cfg relPath) d
  · simp
  · have := Matches_mono hc hp ((ignored_iff ..).1 h)
    rw [← ignored_iff] at this
    simp [this]

theorem more_patterns_sublist (reMatch globMatch : String → String → Bool) (cli cli' : List String)
    (cfg cfg' : Config) (relPath path : String) (raw : List D)
    (hc : ∀ p ∈ cli, p ∈ cli')
    (hp : ∀ e ∈ cfg.paths, ∃ e' ∈ cfg'.paths, e'.1 = e.1 ∧ ∀ p ∈ e.2, p ∈ e'.2) :
    List.Sublist (lintTail reMatch globMatch cli' cfg' relPath path raw)
      (lintTail reMatch globMatch cli cfg relPath path raw) := by
  rw [more_patterns_drop_more reMatch globMatch cli cli' cfg cfg' relPath path raw hc hp]
  exact List.filter_sublist

/-- the result only depends on the SETS of patterns: two command lines / configurations with the same applicable patterns
(as sets) give the same output. `Config.PathConfigs` ranges over a Go map in an unspecified order — that order, the order
of the `-ignore` flags and the order inside an `ignore:` list cannot be observed -/
theorem same_patterns_same_output (reMatch globMatch : String → String → Bool) (cli cli' : List String)
    (cfg cfg' : Config) (relPath path : String) (raw : List D)
    (hc : ∀ p, p ∈ cli ↔ p ∈ cli')
    (hp : ∀ e ∈ cfg.paths, ∃ e' ∈ cfg'.paths, e'.1 = e.1 ∧ ∀ p ∈ e.2, p ∈ e'.2)
    (hp' : ∀ e ∈ cfg'.paths, ∃ e' ∈ cfg.paths, e'.1 = e.1 ∧ ∀ p ∈ e.2, p ∈ e'.2) :
    lintTail reMatch globMatch cli cfg relPath path raw = lintTail reMatch globMatch cli' cfg' relPath path raw := by
  rw [kept_order, kept_order]
  apply List.filter_congr
  intro d _
  have : ignoredBy reMatch cli (pathConfigs globMatch cfg relPath) d = true ↔
      ignoredBy reMatch cli' (pathConfigs globMatch cfg' relPath) d = true := by
    rw [ignored_iff, ignored_iff]
    exact ⟨Matches_mono (fun p h => (hc p).1 h) hp, Matches_mono (fun p h => (hc p).2 h) hp'⟩
  cases h1 : ignoredBy reMatch cli (pathConfigs globMatch cfg relPath) d <;>
    cases h2 : ignoredBy reMatch cli' (pathConfigs globMatch cfg' relPath) d <;> simp_all

/-- the order in which the matching entries are returned (a Go map range) is irrelevant -/
theorem ignoredBy_perm (reMatch : String → String → Bool) (cli : List String) (pcs pcs' : List (List String))
    (h : pcs.Perm pcs') (d : D) : ignoredBy reMatch cli pcs d = ignoredBy reMatch cli pcs' d := by
  have : ignoredBy reMatch cli pcs d = true ↔ ignoredBy reMatch cli pcs' d = true := by
    rw [ignoredBy_iff, ignoredBy_iff]
    constructor
    · rintro (h1 | ⟨ps, hps, hm⟩)
      · exact .inl h1
      · exact .inr ⟨ps, h.mem_iff.1 hps, hm⟩
    · rintro (h1 | ⟨ps, hps, hm⟩)
      · exact .inl h1
      · exact .inr ⟨ps, h.mem_iff.2 hps, hm⟩
  cases h1 : ignoredBy reMatch cli pcs d <;> cases h2 : ignoredBy reMatch cli pcs' d <;> simp_all

theorem paths_perm (reMatch globMatch : String → String → Bool) (cli : List String) (cfg cfg' : Config)
    (relPath path : String) (raw : List D) (h : cfg.paths.Perm cfg'.paths) :
    lintTail reMatch globMatch cli cfg relPath path raw = lintTail reMatch globMatch cli cfg' relPath path raw :=
  same_patterns_same_output reMatch globMatch cli cli cfg cfg' relPath path raw (fun _ => Iff.rfl)
    (fun e he => ⟨e, h.mem_iff.1 he, rfl, fun _ hp => hp⟩) (fun e he => ⟨e, h.mem_iff.2 he, rfl, fun _ hp => hp⟩)

/-! ## §2 from the configuration document -/

/-- the string a mapping key decodes to (yaml.v3, target type `string`): a null key gives "" -/
def keyName (k : Node) : String := if k.tag = "!!null" then "" else k.value

/-- the value of the first scalar key spelled `name` in a list of key/value pairs -/
def lookup (name : String) : List (Node × Node) → Option Node
  | [] => none
  | (k, v) :: rest => if k.kind = .scalar ∧ keyName k = name then some v else lookup name rest

/-- the value under the key `name` of a mapping node -/
def fieldOf (name : String) (n : Node) : Option Node :=
  if n.kind = .mapping then lookup name (pairs n.content) else none

/-- the scalars of the `ignore:` list of one entry of `paths:` (the `Value` of every item of the sequence) -/
def ignoreOf (entry : Node) : List String :=
  match fieldOf "ignore" entry with
  | none => []
  | some ig => if ig.kind = .sequence then ig.content.map (·.value) else []

/-- the entries of the `paths:` mapping: key ↦ the scalars of its `ignore:`; an entry under a null key does not exist -/
def entriesOf (pn : Node) : List (String × List String) :=
  if pn.kind = .mapping then
    ((pairs pn.content).filter fun q => !q.1.isNull).map fun q => (q.1.value, ignoreOf q.2)
  else []

/-- DOCUMENT-SIDE READER: what is written under `paths:` in actionlint.yaml — no validation, no error path -/
def docPaths (doc : Node) : List (String × List String) :=
  match doc.content with
  | [] => []
  | root :: _ =>
    match fieldOf "paths" root with
    | none => []
    | some pn => entriesOf pn

theorem decStr_ok {k : Node} {s : String} (h : decStr k = .ok s) : k.kind = .scalar ∧ keyName k = s := by
  unfold decStr at h
  split at h
  · cases h
  · rename_i hk
    refine ⟨hk, ?_⟩
    unfold keyName
    split at h
    · rename_i ht; simp only [Except.ok.injEq] at h; simp [ht, h]
    · split at h
      · cases h
      · rename_i ht _; simp only [Except.ok.injEq] at h; simp [ht, h]
  · cases h

/-- yaml.v3's struct decoding, one field at a time: after a successful `structLoop` the component `proj` of the state is
what the setter made of the value of the first key spelled `f` (relation `R`), and untouched if there is no such key.
(A second key spelled `f` is an error, so "first" is "only".) -/
theorem structLoop_field {σ β : Type} (fields : List String) (set : σ → String → Node → D σ) (f : String)
    (proj : σ → β) (R : Node → β → Prop) (hf : f ∈ fields)
    (hother : ∀ st name v st', set st name v = .ok st' → name ≠ f → proj st' = proj st)
    (hset : ∀ st v st', set st f v = .ok st' → R v (proj st')) :
    ∀ (l : List (Node × Node)) (done : List String) (st st' : σ), structLoop fields set l done st = .ok st' →
      (match lookup f l with
        | none => proj st' = proj st
        | some v => R v (proj st')) ∧ (f ∈ done → lookup f l = none)
  | [], _, st, st', h => by
    simp only [structLoop, Except.ok.injEq] at h
    subst h
    exact ⟨rfl, fun _ => rfl⟩
  | (k, v) :: rest, done, st, st', h => by
    simp only [structLoop] at h
    split at h
    · cases h
    · split at h
      · cases h
      · rename_i name hname
        obtain ⟨hk, hkn⟩ := decStr_ok hname
        split at h
        · rename_i hin
          split at h
          · cases h
          · rename_i hnd
            split at h
            · cases h
            · rename_i st1 hs
              obtain ⟨ih1, ih2⟩ := structLoop_field fields set f proj R hf hother hset rest (name :: done) st1 st' h
              by_cases hnf : name = f
              · subst hnf
                have hnone := ih2 (List.mem_cons_self ..)
                rw [hnone] at ih1
                have hl : lookup name ((k, v) :: rest) = some v := by simp [lookup, hk, hkn]
                rw [hl]
                refine ⟨?_, fun hd => absurd hd hnd⟩
                simp only at ih1 ⊢
                rw [ih1]; exact hset _ _ _ hs
              · have hl : lookup f ((k, v) :: rest) = lookup f rest := by
                  simp [lookup, hkn, hnf]
                rw [hl]
                refine ⟨?_, fun hd => ih2 (List.mem_cons_of_mem _ hd)⟩
                have h1 := hother _ _ _ _ hs hnf
                revert ih1
                cases lookup f rest with
                | none => simp only; intro ih1; rw [ih1, h1]
                | some v' => exact id
        · rename_i hnin
          have hnf : name ≠ f := fun e => hnin (e ▸ hf)
          have hl : lookup f ((k, v) :: rest) = lookup f rest := by
            simp [lookup, hkn, hnf]
          rw [hl]
          exact structLoop_field fields set f proj R hf hother hset rest done st st' h

/-- the same for a whole node (`d.mappingStruct`): a null node leaves the zero value -/
theorem structDecode_field {σ β : Type} (fields : List String) (set : σ → String → Node → D σ) (f : String)
    (proj : σ → β) (R : Node → β → Prop) (hf : f ∈ fields)
    (hother : ∀ st name v st', set st name v = .ok st' → name ≠ f → proj st' = proj st)
    (hset : ∀ st v st', set st f v = .ok st' → R v (proj st'))
    (init : σ) (n : Node) (st' : σ) (h : structDecode fields set init n = .ok st') :
    match fieldOf f n with
    | none => proj st' = proj init
    | some v => R v (proj st') := by
  simp only [structDecode] at h
  unfold fieldOf
  split at h
  · cases h
  · rename_i hk
    split at h
    · cases h
    · simp only [hk, if_true]
      exact (structLoop_field fields set f proj R hf hother hset _ _ init st' h).1
  · rename_i hk
    split at h
    · simp only [Except.ok.injEq] at h; subst h; simp [hk]
    · cases h
  · cases h

/-- every pattern was accepted by `regexp.Compile` -/
def PatsOk (regexOk : String → Bool) (ps : List String) : Prop := ∀ p ∈ ps, regexOk p = true

theorem patternsOf_ok (regexOk : String → Bool) : ∀ (l : List Node) (r : List String),
    patternsOf regexOk l = .ok r → r = l.map (·.value) ∧ PatsOk regexOk r
  | [], r, h => by
    simp only [patternsOf, Except.ok.injEq] at h
    subst h; exact ⟨rfl, fun _ hp => by cases hp⟩
  | p :: ps, r, h => by
    simp only [patternsOf] at h
    split at h
    · cases h
    · split at h
      · cases h
      · rename_i hre
        cases hrest : patternsOf regexOk ps with
        | error e => simp [hrest, Except.map] at h
        | ok r' =>
          simp only [hrest, Except.map, Except.ok.injEq] at h
          subst h
          obtain ⟨h1, h2⟩ := patternsOf_ok regexOk ps r' hrest
          refine ⟨by rw [h1]; rfl, ?_⟩
          intro q hq
          rcases List.mem_cons.1 hq with rfl | hq
          · simpa using hre
          · exact h2 q hq

/-- what the `ignore` field of an entry holds after decoding its value node `v` -/
def IgnoreRel (regexOk : String → Bool) (v : Node) (r : List String) : Prop :=
  r = (if v.kind = .sequence then v.content.map (·.value) else []) ∧ PatsOk regexOk r

theorem ignoreField_ok (regexOk : String → Bool) (v : Node) (r : List String)
    (h : viaUnmarshaler (decIgnore regexOk) v = .ok r) : IgnoreRel regexOk v r := by
  unfold viaUnmarshaler at h
  split at h
  · rename_i hnull
    simp only [Except.ok.injEq] at h
    subst h
    have hk : v.kind = .scalar := by
      simp only [Node.isNull, Bool.and_eq_true, decide_eq_true_eq] at hnull; exact hnull.1
    exact ⟨by simp [hk], fun _ hp => by cases hp⟩
  · unfold decIgnore at h
    split at h
    · cases h
    · rename_i hk
      obtain ⟨h1, h2⟩ := patternsOf_ok regexOk _ r h
      exact ⟨by simp [hk, h1], h2⟩
    · cases h

theorem setPath_other (regexOk : String → Bool) (st : List String) (name : String) (v : Node) (st' : List String)
    (h : setPath regexOk st name v = .ok st') (hn : name ≠ "ignore") : st' = st := by
  unfold setPath at h
  split at h
  · exact absurd rfl hn
  · simp only [Except.ok.injEq] at h; exact h.symm

/-- one entry of `paths:`: the decoded patterns are the scalars of its `ignore:` list, all valid -/
theorem entry_ok (regexOk : String → Bool) (v : Node) (pats : List String)
    (h : structDecode ["ignore"] (setPath regexOk) [] v = .ok pats) : pats = ignoreOf v ∧ PatsOk regexOk pats := by
  have := structDecode_field ["ignore"] (setPath regexOk) "ignore" id (IgnoreRel regexOk) (by simp)
    (fun st name v st' h hn => setPath_other regexOk st name v st' h hn)
    (fun st v st' h => ignoreField_ok regexOk v st' (by simpa [setPath] using h)) [] v pats h
  unfold ignoreOf
  revert this
  cases fieldOf "ignore" v with
  | none => simp only [id]; intro h; subst h; exact ⟨rfl, fun _ hp => by cases hp⟩
  | some ig => simp only [id]; intro h; exact ⟨h.1, h.2⟩

/-- the entries written in a list of key/value pairs -/
def entriesOfPairs (l : List (Node × Node)) : List (String × List String) :=
  (l.filter fun q => !q.1.isNull).map fun q => (q.1.value, ignoreOf q.2)

theorem pathsLoop_ok (regexOk : String → Bool) : ∀ (l : List (Node × Node)) (r : List (String × List String)),
    pathsLoop regexOk l = .ok r → r = entriesOfPairs l ∧ ∀ e ∈ r, PatsOk regexOk e.2
  | [], r, h => by
    simp only [pathsLoop, Except.ok.injEq] at h
    subst h; exact ⟨rfl, fun _ he => by cases he⟩
  | (k, v) :: rest, r, h => by
    simp only [pathsLoop] at h
    split at h
    · cases h
    · split at h
      · rename_i hnull
        obtain ⟨h1, h2⟩ := pathsLoop_ok regexOk rest r h
        refine ⟨?_, h2⟩
        rw [h1]; simp [entriesOfPairs, hnull]
      · rename_i hnn
        split at h
        · cases h
        · rename_i key hkey
          split at h
          · cases h
          · rename_i pats hpats
            cases hrest : pathsLoop regexOk rest with
            | error e => simp [hrest, Except.map] at h
            | ok r' =>
              simp only [hrest, Except.map, Except.ok.injEq] at h
              subst h
              obtain ⟨h1, h2⟩ := pathsLoop_ok regexOk rest r' hrest
              obtain ⟨e1, e2⟩ := entry_ok regexOk v pats hpats
              obtain ⟨hk, hkn⟩ := decStr_ok hkey
              have hval : k.value = key := by
                unfold keyName at hkn
                have : k.tag ≠ "!!null" := by
                  intro ht; apply hnn; simp [Node.isNull, hk, ht]
                simpa [this] using hkn
              refine ⟨?_, ?_⟩
              · have : (!k.isNull) = true := by simpa using hnn
                simp only [entriesOfPairs, List.filter_cons, this, if_true, List.map_cons, hval, ← e1]
                rw [h1]; rfl
              · intro e he
                rcases List.mem_cons.1 he with rfl | he
                · exact e2
                · exact h2 e he

theorem pathsLoop_keys_scalar (regexOk : String → Bool) : ∀ (l : List (Node × Node)) (r : List (String × List String)),
    pathsLoop regexOk l = .ok r → ∀ q ∈ l, q.1.kind = .scalar
  | [], _, _ => fun _ hq => by cases hq
  | (k, v) :: rest, r, h => by
    simp only [pathsLoop] at h
    split at h
    · cases h
    · split at h
      · rename_i hnull
        intro q hq
        rcases List.mem_cons.1 hq with rfl | hq
        · simp only [Node.isNull, Bool.and_eq_true, decide_eq_true_eq] at hnull; exact hnull.1
        · exact pathsLoop_keys_scalar regexOk rest r h q hq
      · split at h
        · cases h
        · rename_i key hkey
          split at h
          · cases h
          · cases hrest : pathsLoop regexOk rest with
            | error e => simp [hrest, Except.map] at h
            | ok r' =>
              intro q hq
              rcases List.mem_cons.1 hq with rfl | hq
              · exact (decStr_ok hkey).1
              · exact pathsLoop_keys_scalar regexOk rest r' hrest q hq

/-- `uniqueKeys` on scalar keys: the spellings are pairwise distinct -/
theorem nodup_of_noDupKey : ∀ (l : List (Node × Node)), hasDupKey l = false → (∀ q ∈ l, q.1.kind = .scalar) →
    (l.map (·.1.value)).Nodup
  | [], _, _ => List.nodup_nil
  | (k, v) :: rest, h, hs => by
    simp only [hasDupKey, Bool.or_eq_false_iff] at h
    rw [List.map_cons, List.nodup_cons]
    refine ⟨?_, nodup_of_noDupKey rest h.2 (fun q hq => hs q (List.mem_cons_of_mem _ hq))⟩
    intro hmem
    obtain ⟨q, hq, he⟩ := List.mem_map.1 hmem
    have hany : rest.any (fun q => decide (q.1.kind = k.kind) && decide (q.1.value = k.value)) = true := by
      apply List.any_eq_true.2
      refine ⟨q, hq, ?_⟩
      have h1 := hs q (List.mem_cons_of_mem _ hq)
      have h2 := hs (k, v) (List.mem_cons_self ..)
      simp only at h2
      simp [h1, h2, he]
    rw [hany] at h
    exact absurd h.1 (by simp)

theorem entriesOfPairs_keys (l : List (Node × Node)) :
    (entriesOfPairs l).map (·.1) = (l.filter fun q => !q.1.isNull).map (·.1.value) := by
  simp [entriesOfPairs, List.map_map, Function.comp]

/-- what the `paths` field holds after decoding its value node -/
def PathsRel (regexOk : String → Bool) (v : Node) (r : List (String × List String)) : Prop :=
  r = entriesOf v ∧ (∀ e ∈ r, PatsOk regexOk e.2) ∧ (r.map (·.1)).Nodup

theorem decPaths_ok (regexOk : String → Bool) (v : Node) (r : List (String × List String))
    (h : decPaths regexOk v = .ok r) : PathsRel regexOk v r := by
  unfold decPaths at h
  unfold PathsRel entriesOf
  split at h
  · cases h
  · rename_i hk
    split at h
    · cases h
    · rename_i hdup
      obtain ⟨h1, h2⟩ := pathsLoop_ok regexOk _ r h
      refine ⟨by simp only [hk, if_true]; exact h1, h2, ?_⟩
      rw [h1, entriesOfPairs_keys]
      have hnd := nodup_of_noDupKey _ (by simpa using hdup) (pathsLoop_keys_scalar regexOk _ r h)
      exact (List.filter_sublist.map _).nodup hnd
  · rename_i hk
    split at h
    · simp only [Except.ok.injEq] at h; subst h
      exact ⟨by simp [hk], (fun _ he => by cases he), by simp⟩
    · cases h
  · cases h

theorem setConfig_other (regexOk : String → Bool) (st : Config) (name : String) (v : Node) (st' : Config)
    (h : setConfig regexOk st name v = .ok st') (hn : name ≠ "paths") : st'.paths = st.paths := by
  unfold setConfig at h
  split at h
  · cases hd : structDecode ["labels"] setRunner [] v with
    | error e => simp [hd, Except.map] at h
    | ok l => simp only [hd, Except.map, Except.ok.injEq] at h; subst h; rfl
  · cases hd : decStrSlice v with
    | error e => simp [hd, Except.map] at h
    | ok l => simp only [hd, Except.map, Except.ok.injEq] at h; subst h; rfl
  · exact absurd rfl hn
  · simp only [Except.ok.injEq] at h; subst h; rfl

theorem setConfig_paths (regexOk : String → Bool) (st : Config) (v : Node) (st' : Config)
    (h : setConfig regexOk st "paths" v = .ok st') : PathsRel regexOk v st'.paths := by
  simp only [setConfig] at h
  cases hd : decPaths regexOk v with
  | error e => simp [hd, Except.map] at h
  | ok r =>
    simp only [hd, Except.map, Except.ok.injEq] at h; subst h
    exact decPaths_ok regexOk v r hd

/-- (b) THE DOCUMENT: the `paths` of a configuration `ParseConfig` accepts are exactly the entries written under `paths:`
in the document — key by key, pattern by pattern, in the written order -/
theorem parseConfig_paths (regexOk globOk : String → Bool) (doc : Node) (cfg : Config)
    (h : parseConfig regexOk globOk doc = .ok cfg) : cfg.paths = docPaths doc := by
  unfold parseConfig at h
  unfold docPaths
  split at h
  · rename_i hc
    simp only [Except.ok.injEq] at h; subst h; simp [hc]
  · rename_i root rest hc
    simp only [hc]
    split at h
    · cases h
    · rename_i c hdec
      split at h
      · simp only [Except.ok.injEq] at h; subst h
        have := structDecode_field ["self-hosted-runner", "config-variables", "paths"] (setConfig regexOk) "paths"
          Config.paths (PathsRel regexOk) (by simp)
          (fun st name v st' h hn => setConfig_other regexOk st name v st' h hn)
          (fun st v st' h => setConfig_paths regexOk st v st' h) {} root c hdec
        revert this
        cases fieldOf "paths" root with
        | none => simp only; intro h; exact h
        | some pn => simp only; intro h; exact h.1
      · cases h

/-- (b) every glob and every regular expression written under `paths:` of an accepted document was validated
(`doublestar.ValidatePattern`, `regexp.Compile`) -/
theorem parseConfig_validated (regexOk globOk : String → Bool) (doc : Node) (cfg : Config)
    (h : parseConfig regexOk globOk doc = .ok cfg) :
    ∀ e ∈ docPaths doc, globOk e.1 = true ∧ ∀ p ∈ e.2, regexOk p = true := by
  have hp := parseConfig_paths regexOk globOk doc cfg h
  rw [← hp]
  intro e he
  refine ⟨AL.C15C.accepted_config_has_valid_globs regexOk globOk doc cfg h e he, ?_⟩
  unfold parseConfig at h
  split at h
  · simp only [Except.ok.injEq] at h; subst h; cases he
  · rename_i root rest hc
    split at h
    · cases h
    · rename_i c hdec
      split at h
      · simp only [Except.ok.injEq] at h; subst h
        have := structDecode_field ["self-hosted-runner", "config-variables", "paths"] (setConfig regexOk) "paths"
          Config.paths (fun _ r => ∀ e ∈ r, PatsOk regexOk e.2) (by simp)
          (fun st name v st' h hn => setConfig_other regexOk st name v st' h hn)
          (fun st v st' h => (setConfig_paths regexOk st v st' h).2.1) {} root c hdec
        revert this
        cases fieldOf "paths" root with
        | none => simp only; intro h'; rw [h'] at he; cases he
        | some pn => simp only; intro h'; exact h' e he
      · cases h

/-- the keys of `paths:` of an accepted document are pairwise distinct (yaml.v3 rejects a repeated key): the association
list `cfg.paths` IS the Go map `Config.Paths` -/
theorem parseConfig_keys_nodup (regexOk globOk : String → Bool) (doc : Node) (cfg : Config)
    (h : parseConfig regexOk globOk doc = .ok cfg) : (cfg.paths.map (·.1)).Nodup := by
  unfold parseConfig at h
  split at h
  · simp only [Except.ok.injEq] at h; subst h; exact List.nodup_nil
  · rename_i root rest hc
    split at h
    · cases h
    · rename_i c hdec
      split at h
      · simp only [Except.ok.injEq] at h; subst h
        have := structDecode_field ["self-hosted-runner", "config-variables", "paths"] (setConfig regexOk) "paths"
          Config.paths (fun _ r => (r.map (·.1)).Nodup) (by simp)
          (fun st name v st' h hn => setConfig_other regexOk st name v st' h hn)
          (fun st v st' h => (setConfig_paths regexOk st v st' h).2.2) {} root c hdec
        revert this
        cases fieldOf "paths" root with
        | none => simp only; intro h'; rw [h']; exact List.nodup_nil
        | some pn => simp only; exact id
      · cases h

/-- an invalid regular expression written in an `ignore:` list is an ERROR of `ParseConfig` — never a silently ignored
pattern, never a configuration that drops something else -/
theorem invalid_regex_is_error (regexOk globOk : String → Bool) (doc : Node) (e : String × List String) (p : String)
    (he : e ∈ docPaths doc) (hp : p ∈ e.2) (hbad : regexOk p = false) :
    ∃ err, parseConfig regexOk globOk doc = .error err := by
  cases h : parseConfig regexOk globOk doc with
  | error err => exact ⟨err, rfl⟩
  | ok cfg =>
    have := (parseConfig_validated regexOk globOk doc cfg h e he).2 p hp
    rw [hbad] at this; cases this

/-- an invalid glob written as a key of `paths:` is an error of `ParseConfig` -/
theorem invalid_glob_is_error (regexOk globOk : String → Bool) (doc : Node) (e : String × List String)
    (he : e ∈ docPaths doc) (hbad : globOk e.1 = false) :
    ∃ err, parseConfig regexOk globOk doc = .error err := by
  cases h : parseConfig regexOk globOk doc with
  | error err => exact ⟨err, rfl⟩
  | ok cfg =>
    have := (parseConfig_validated regexOk globOk doc cfg h e he).1
    rw [hbad] at this; cases this

/-- (a)+(b) THE PROPERTY ON THE DOCUMENT: with the configuration read from `doc`, a diagnostic is dropped iff a `-ignore`
pattern matches its message, or a pattern written in the `ignore:` list of an entry of `paths:` whose key matches the path
does -/
theorem dropped_iff_doc (regexOk globOk : String → Bool) (reMatch globMatch : String → String → Bool)
    (cli : List String) (doc : Node) (cfg : Config) (h : parseConfig regexOk globOk doc = .ok cfg)
    (relPath path : String) (raw : List D) (d : D) (hd : d ∈ raw) :
    { d with file := path } ∉ lintTail reMatch globMatch cli cfg relPath path raw ↔
      Matches reMatch globMatch cli (docPaths doc) relPath d.msg := by
  rw [dropped_iff reMatch globMatch cli cfg relPath path raw d hd, parseConfig_paths regexOk globOk doc cfg h]

/-- … and what is reported, on the document -/
theorem mem_lintTail_doc (regexOk globOk : String → Bool) (reMatch globMatch : String → String → Bool)
    (cli : List String) (doc : Node) (cfg : Config) (h : parseConfig regexOk globOk doc = .ok cfg)
    (relPath path : String) (raw : List D) (x : D) :
    x ∈ lintTail reMatch globMatch cli cfg relPath path raw ↔
      ∃ d ∈ raw, ¬ Matches reMatch globMatch cli (docPaths doc) relPath d.msg ∧ x = { d with file := path } := by
  rw [mem_lintTail, parseConfig_paths regexOk globOk doc cfg h]

/-- a document without a `paths:` key (or an empty document) filters nothing beyond the `-ignore` patterns -/
theorem no_paths_key_no_drop (regexOk globOk : String → Bool) (reMatch globMatch : String → String → Bool)
    (doc : Node) (cfg : Config) (h : parseConfig regexOk globOk doc = .ok cfg) (hnp : docPaths doc = [])
    (relPath path : String) (raw : List D) :
    lintTail reMatch globMatch [] cfg relPath path raw = checkTail (fun _ => false) path raw := by
  apply no_patterns_no_drop
  rw [parseConfig_paths regexOk globOk doc cfg h, hnp]
  intro e he; cases he

/-! ## §3 the working directory -/

/-- `err.Filepath = path` -/
def setFile (f : String) (d : D) : D := { d with file := f }

theorem less_setFile (f : String) (x y : D) (h : x.file = y.file) : less (setFile f x) (setFile f y) = less x y := by
  by_cases hl : x.line = y.line <;> simp [less, setFile, h, hl]
  exact decide_eq_decide.2 Iff.rfl

theorem insertStable_setFile (f : String) (x : D) : ∀ (acc : List D), (∀ y ∈ acc, y.file = x.file) →
    insertStable (setFile f x) (acc.map (setFile f)) = (insertStable x acc).map (setFile f)
  | [], _ => rfl
  | y :: ys, h => by
    have hy : x.file = y.file := (h y (List.mem_cons_self ..)).symm
    simp only [List.map_cons, insertStable, less_setFile f x y hy]
    split
    · rfl
    · simp only [List.map_cons]
      rw [insertStable_setFile f x ys (fun z hz => h z (List.mem_cons_of_mem _ hz))]

theorem foldl_ins_setFile (f b : String) : ∀ (l acc : List D), (∀ y ∈ acc, y.file = b) → (∀ y ∈ l, y.file = b) →
    (l.map (setFile f)).foldl ins (acc.map (setFile f)) = (l.foldl ins acc).map (setFile f)
  | [], _, _, _ => rfl
  | x :: xs, acc, ha, hl => by
    have hx : x.file = b := hl x (List.mem_cons_self ..)
    simp only [List.map_cons, List.foldl_cons, ins]
    rw [insertStable_setFile f x acc (fun y hy => by rw [ha y hy, hx])]
    apply foldl_ins_setFile f b xs
    · intro y hy
      rcases mem_insertStable.1 hy with rfl | hy
      · exact hx
      · exact ha y hy
    · exact fun y hy => hl y (List.mem_cons_of_mem _ hy)

/-- relabelling a one-file list commutes with the stable sort -/
theorem stableSort_setFile (f b : String) (l : List D) (hl : ∀ y ∈ l, y.file = b) :
    stableSort (l.map (setFile f)) = (stableSort l).map (setFile f) :=
  foldl_ins_setFile f b l [] (fun _ h => by cases h) hl

/-- the display path only labels: with another label the output is the same list, relabelled -/
theorem lintTailOpt_label (reMatch globMatch : String → String → Bool) (cli : List String) (cfg : Option Config)
    (relPath path path' : String) (raw : List D) :
    lintTailOpt reMatch globMatch cli cfg relPath path' raw =
      (lintTailOpt reMatch globMatch cli cfg relPath path raw).map (setFile path') := by
  unfold lintTailOpt
  rw [← stableSort_setFile path' path _ (by
    intro y hy
    obtain ⟨d, _, rfl⟩ := List.mem_map.1 hy
    rfl)]
  rw [List.map_map]
  rfl

/-- inside a project the path the globs are matched against is the same from every working directory and for every
spelling of the file (`AL.C15.cwd_independent`) -/
theorem matchedPath_cwd_independent (cwd cwd' : FPath) (pr : Project) (p p' : FPath)
    (hc : AL.C15.CleanAbs cwd) (hc' : AL.C15.CleanAbs cwd') (hr : AL.C15.CleanAbs pr.root)
    (hp : AL.C15.Clean p) (hp' : AL.C15.Clean p') (heq : absOf cwd p = absOf cwd' p') :
    matchedPath cwd (some pr) (displayPath cwd p) = matchedPath cwd' (some pr) (displayPath cwd' p') :=
  AL.C15.cwd_independent cwd cwd' pr.root p p' hc hc' hr hp hp' heq

/-- … and it is the path relative to the repository root: `root / matched path` is the file, without any `..` -/
theorem matchedPath_root_relative (cwd : FPath) (pr : Project) (p : FPath)
    (hc : AL.C15.CleanAbs cwd) (hr : AL.C15.CleanAbs pr.root) (hp : AL.C15.Clean p)
    (hk : knows pr.root (absOf cwd p) = true) :
    join pr.root (matchedPath cwd (some pr) (displayPath cwd p)) = absOf cwd p ∧
      ∀ c ∈ (matchedPath cwd (some pr) (displayPath cwd p)).comps, c ≠ ".." :=
  AL.C15.root_relative cwd pr.root p hc hr hp hk

/-- (c) what `filterErrors` keeps of the diagnostics of a file of a project does not depend on the working directory
actionlint is started from, nor on how the file is spelled on the command line -/
theorem filtered_cwd_independent (reMatch globMatch : String → String → Bool) (cli : List String)
    (dflt : Option Config) (cwd cwd' : FPath) (pr : Project) (p p' : FPath) (raw : List D)
    (hc : AL.C15.CleanAbs cwd) (hc' : AL.C15.CleanAbs cwd') (hr : AL.C15.CleanAbs pr.root)
    (hp : AL.C15.Clean p) (hp' : AL.C15.Clean p') (heq : absOf cwd p = absOf cwd' p') :
    filterErrs reMatch cli
        (pathConfigsOpt globMatch (activeConfig dflt (some pr))
          (matchedPath cwd (some pr) (displayPath cwd p)).toString) raw =
      filterErrs reMatch cli
        (pathConfigsOpt globMatch (activeConfig dflt (some pr))
          (matchedPath cwd' (some pr) (displayPath cwd' p')).toString) raw := by
  rw [matchedPath_cwd_independent cwd cwd' pr p p' hc hc' hr hp hp' heq]

/-- (c) END TO END: the whole tail of `check` — filter, label, sort — for a file of a project gives, started from `cwd'`
with the spelling `p'`, the list it gives from `cwd` with the spelling `p`, relabelled with the new display path: the
same diagnostics are dropped, the same are reported, in the same order -/
theorem tail_cwd_independent (reMatch globMatch : String → String → Bool) (cli : List String)
    (dflt : Option Config) (cwd cwd' : FPath) (pr : Project) (p p' : FPath) (raw : List D)
    (hc : AL.C15.CleanAbs cwd) (hc' : AL.C15.CleanAbs cwd') (hr : AL.C15.CleanAbs pr.root)
    (hp : AL.C15.Clean p) (hp' : AL.C15.Clean p') (heq : absOf cwd p = absOf cwd' p') :
    lintTailAt reMatch globMatch cli dflt cwd' (some pr) p' raw =
      (lintTailAt reMatch globMatch cli dflt cwd (some pr) p raw).map (setFile (displayPath cwd' p').toString) := by
  unfold lintTailAt
  rw [matchedPath_cwd_independent cwd cwd' pr p p' hc hc' hr hp hp' heq]
  exact lintTailOpt_label ..

/-- … so the number of reported diagnostics, hence the exit status, is the same -/
theorem status_cwd_independent (reMatch globMatch : String → String → Bool) (cli : List String)
    (dflt : Option Config) (cwd cwd' : FPath) (pr : Project) (p p' : FPath) (raw : List D)
    (hc : AL.C15.CleanAbs cwd) (hc' : AL.C15.CleanAbs cwd') (hr : AL.C15.CleanAbs pr.root)
    (hp : AL.C15.Clean p) (hp' : AL.C15.Clean p') (heq : absOf cwd p = absOf cwd' p') :
    statusOf (lintTailAt reMatch globMatch cli dflt cwd' (some pr) p' raw) =
      statusOf (lintTailAt reMatch globMatch cli dflt cwd (some pr) p raw) := by
  rw [tail_cwd_independent reMatch globMatch cli dflt cwd cwd' pr p p' raw hc hc' hr hp hp' heq]
  simp [statusOf]

/-- `check` at a file of a project, in terms of §1: the configuration is the `-config-file` one or else the project's, the
path is the root-relative one -/
theorem lintTailAt_project (reMatch globMatch : String → String → Bool) (cli : List String) (dflt : Option Config)
    (cwd : FPath) (pr : Project) (p : FPath) (raw : List D) (cfg : Config)
    (hcfg : activeConfig dflt (some pr) = some cfg) :
    lintTailAt reMatch globMatch cli dflt cwd (some pr) p raw =
      lintTail reMatch globMatch cli cfg (pathFromProjectRoot cwd pr.root (displayPath cwd p)).toString
        (displayPath cwd p).toString raw := by
  unfold lintTailAt
  rw [hcfg, lintTailOpt_some]
  rfl

/-- `-config-file` wins over the project's configuration file; without it the project's file is used -/
theorem activeConfig_default (c : Config) (proj : Option Project) : activeConfig (some c) proj = some c := rfl
theorem activeConfig_project (pr : Project) : activeConfig none (some pr) = pr.config := rfl
theorem activeConfig_nothing : activeConfig none none = none := rfl

/-! ### outside every project -/

/-- for a file outside every project (`project == nil`) the globs of a `-config-file` configuration are matched against
the DISPLAY path — the path relative to the working directory -/
theorem matchedPath_no_project (cwd disp : FPath) : matchedPath cwd none disp = disp := rfl

/-! ## §4 exit status -/

/-- the number of reported diagnostics is the number of raw diagnostics that meet no applicable pattern -/
theorem lintTail_length (reMatch globMatch : String → String → Bool) (cli : List String) (cfg : Config)
    (relPath path : String) (raw : List D) :
    (lintTail reMatch globMatch cli cfg relPath path raw).length =
      (raw.filter fun d => !ignoredBy reMatch cli (pathConfigs globMatch cfg relPath) d).length := by
  unfold lintTail checkTail filterErrors
  rw [(stableSort_perm _).length_eq, List.length_map]

/-- (d) exit status 0 iff nothing is left: every raw diagnostic met an applicable pattern (in particular when there was
none at all) -/
theorem status_zero_iff (reMatch globMatch : String → String → Bool) (cli : List String) (cfg : Config)
    (relPath path : String) (raw : List D) :
    statusOf (lintTail reMatch globMatch cli cfg relPath path raw) = 0 ↔
      ∀ d ∈ raw, Matches reMatch globMatch cli cfg.paths relPath d.msg := by
  unfold statusOf
  rw [AL.C15.exit_status.2.1, List.length_eq_zero_iff, List.eq_nil_iff_forall_not_mem]
  constructor
  · intro h d hd
    exact (dropped_iff reMatch globMatch cli cfg relPath path raw d hd).1 (h _)
  · intro h x hx
    obtain ⟨d, hd, hn, _⟩ := (mem_lintTail ..).1 hx
    exact hn (h d hd)

/-- (d) exit status 1 iff some raw diagnostic met no applicable pattern -/
theorem status_one_iff (reMatch globMatch : String → String → Bool) (cli : List String) (cfg : Config)
    (relPath path : String) (raw : List D) :
    statusOf (lintTail reMatch globMatch cli cfg relPath path raw) = 1 ↔
      ∃ d ∈ raw, ¬ Matches reMatch globMatch cli cfg.paths relPath d.msg := by
  unfold statusOf
  rw [AL.C15.exit_status.1]
  constructor
  · intro h
    cases hl : lintTail reMatch globMatch cli cfg relPath path raw with
    | nil => rw [hl] at h; simp at h
    | cons x xs =>
      have hx : x ∈ lintTail reMatch globMatch cli cfg relPath path raw := by rw [hl]; exact List.mem_cons_self ..
      obtain ⟨d, hd, hn, _⟩ := (mem_lintTail ..).1 hx
      exact ⟨d, hd, hn⟩
  · rintro ⟨d, hd, hn⟩
    have : { d with file := path } ∈ lintTail reMatch globMatch cli cfg relPath path raw :=
      (mem_lintTail ..).2 ⟨d, hd, hn, rfl⟩
    exact List.length_pos_of_mem this

/-- the status after a run that reached the end is 0 or 1, never anything else -/
theorem status_zero_or_one (out : List D) : statusOf out = 0 ∨ statusOf out = 1 := by
  simp only [statusOf, exitStatus]
  split <;> simp

/-- nothing found, nothing to drop: status 0 -/
theorem status_nothing (reMatch globMatch : String → String → Bool) (cli : List String) (cfg : Config)
    (relPath path : String) : statusOf (lintTail reMatch globMatch cli cfg relPath path []) = 0 :=
  (status_zero_iff ..).2 (fun _ h => by cases h)

/-- (d) on the document -/
theorem status_zero_iff_doc (regexOk globOk : String → Bool) (reMatch globMatch : String → String → Bool)
    (cli : List String) (doc : Node) (cfg : Config) (h : parseConfig regexOk globOk doc = .ok cfg)
    (relPath path : String) (raw : List D) :
    statusOf (lintTail reMatch globMatch cli cfg relPath path raw) = 0 ↔
      ∀ d ∈ raw, Matches reMatch globMatch cli (docPaths doc) relPath d.msg := by
  rw [status_zero_iff, parseConfig_paths regexOk globOk doc cfg h]

/-! ### the `-ignore` flags are validated, too -/

/-- an invalid `-ignore` pattern is a fatal error (exit status 3) — never a silently ignored pattern -/
theorem invalid_cli_is_fatal (regexOk : String → Bool) (cli : List String) (run : List String → List D) (p : String)
    (hp : p ∈ cli) (hbad : regexOk p = false) : mainStatus regexOk cli run = 3 := by
  unfold mainStatus compileCli
  have : cli.all regexOk = false := by
    apply Bool.eq_false_iff.2
    intro h
    rw [List.all_eq_true] at h
    rw [h p hp] at hbad; cases hbad
  simp [this, exitStatus]

/-- with valid flags the run sees exactly the patterns given, and the status is 0 or 1 -/
theorem valid_cli_status (regexOk : String → Bool) (cli : List String) (run : List String → List D)
    (h : ∀ p ∈ cli, regexOk p = true) : mainStatus regexOk cli run = statusOf (run cli) := by
  unfold mainStatus compileCli
  have : cli.all regexOk = true := List.all_eq_true.2 h
  simp [this]

/-! ### an observation: the empty pattern -/

/-- if the empty regular expression matches every message (it does: Go's `regexp.MustCompile("").MatchString(s)` is true
for every `s`), an entry with a matching glob and "" among its patterns drops EVERYTHING of the file -/
theorem empty_pattern_drops_all (reMatch globMatch : String → String → Bool) (hempty : ∀ m, reMatch "" m = true)
    (cli : List String) (cfg : Config) (relPath path : String) (raw : List D) (e : String × List String)
    (he : e ∈ cfg.paths) (hg : globMatch e.1 relPath = true) (hp : "" ∈ e.2) :
    lintTail reMatch globMatch cli cfg relPath path raw = [] := by
  rw [List.eq_nil_iff_forall_not_mem]
  intro x hx
  obtain ⟨d, _, hn, _⟩ := (mem_lintTail ..).1 hx
  exact hn (.inr ⟨e, he, hg, "", hp, hempty _⟩)

/-! ## §5 a concrete configuration document

```yaml
self-hosted-runner:
  labels: [gpu]
paths:
  .github/workflows/**/*.yml:
    ignore: [shellcheck, SC2086]
  other/**:
    ignore: [".*"]
  "**/a.yml":
    ignore: [deprecated]
```
The regular-expression engine and doublestar are parameters of the model; the instance uses finite tables. -/

def sc (v : String) : Node := .mk .scalar "!!str" v false 1 1 []
def mp (l : List Node) : Node := .mk .mapping "!!map" "" false 1 1 l
def sq (l : List Node) : Node := .mk .sequence "!!seq" "" false 1 1 l

def exEntry : Node := mp [sc "ignore", sq [sc "shellcheck", sc "SC2086"]]
def exPathsNode : Node := mp [
  sc ".github/workflows/**/*.yml", exEntry,
  sc "other/**", mp [sc "ignore", sq [sc ".*"]],
  sc "**/a.yml", mp [sc "ignore", sq [sc "deprecated"]]]
def exRootNode : Node := mp [sc "self-hosted-runner", mp [sc "labels", sq [sc "gpu"]], sc "paths", exPathsNode]
def exDoc : Node := .mk .document "" "" false 1 1 [exRootNode]

/-- `regexp.Compile` rejects `(`, `doublestar.ValidatePattern` rejects `[` -/
def exRegexOk (r : String) : Bool := r != "("
def exGlobOk (g : String) : Bool := g != "["

def exCfg : Config :=
  { labels := ["gpu"]
    paths := [(".github/workflows/**/*.yml", ["shellcheck", "SC2086"]), ("other/**", [".*"]),
              ("**/a.yml", ["deprecated"])] }

theorem exDoc_parses : parseConfig exRegexOk exGlobOk exDoc = .ok exCfg := by rfl

def m1 : String := "shellcheck reported issue in this script: SC2086"
def m2 : String := "workflow command \"set-output\" was deprecated"
def m3 : String := "property \"x\" is not defined"
def m4 : String := "unexpected key \"foo\""
def m5 : String := "invalid job ID"

/-- the match table: which (unanchored) pattern matches which of the five messages; `.*` matches all -/
def exRe (p m : String) : Bool :=
  [("shellcheck", m1), ("SC2086", m1), ("deprecated", m2), ("not defined", m3)].contains (p, m) || p == ".*"

/-- the glob table -/
def exGlob (g path : String) : Bool :=
  [(".github/workflows/**/*.yml", ".github/workflows/a.yml"), ("**/a.yml", ".github/workflows/a.yml"),
   ("**/a.yml", "a.yml"), ("other/**", "other/b.yml"), ("sub/*.yml", "sub/a.yml")].contains (g, path)

/-- `-ignore 'not defined'` -/
def exCli : List String := ["not defined"]

def d1 : D := ⟨"", 2, 1, m1, "shellcheck"⟩
def d2 : D := ⟨"", 9, 9, m2, "deprecated-commands"⟩
def d3 : D := ⟨"", 1, 1, m3, "expression"⟩
def d4 : D := ⟨"", 5, 3, m4, "syntax-check"⟩
def d5 : D := ⟨"", 3, 3, m5, "id"⟩
/-- what the parser and the rules found, in the order they were appended -/
def exRaw : List D := [d4, d1, d2, d3, d5]

def exRelS : String := ".github/workflows/a.yml"

/-- the document reader on the instance -/
example : docPaths exDoc = exCfg.paths := by decide +kernel
example : docPaths exDoc = exCfg.paths := (parseConfig_paths exRegexOk exGlobOk exDoc exCfg exDoc_parses).symm

/-- two entries match `.github/workflows/a.yml` — BOTH contribute; `other/**` does not match -/
example : pathConfigs exGlob exCfg exRelS = [["shellcheck", "SC2086"], ["deprecated"]] := by decide +kernel

/-- THE INSTANCE: `d1` falls to the first entry, `d2` to the third (second entry matching the same file), `d3` to the
command line; `d4`, `d5` stay, sorted by position; the `.*` of the non-matching `other/**` does not apply -/
example : lintTail exRe exGlob exCli exCfg exRelS "w.yml" exRaw =
    [⟨"w.yml", 3, 3, m5, "id"⟩, ⟨"w.yml", 5, 3, m4, "syntax-check"⟩] := by decide +kernel
/-- without `-ignore`, `d3` stays too -/
example : lintTail exRe exGlob [] exCfg exRelS "w.yml" exRaw =
    [⟨"w.yml", 1, 1, m3, "expression"⟩, ⟨"w.yml", 3, 3, m5, "id"⟩, ⟨"w.yml", 5, 3, m4, "syntax-check"⟩] := by
  decide +kernel
/-- a file under `other/`: `.*` drops everything, status 0 -/
example : lintTail exRe exGlob [] exCfg "other/b.yml" "w.yml" exRaw = [] := by decide +kernel
example : statusOf (lintTail exRe exGlob [] exCfg "other/b.yml" "w.yml" exRaw) = 0 := by decide +kernel
/-- a file no glob matches: nothing is dropped, status 1 -/
example : lintTail exRe exGlob [] exCfg "elsewhere/c.yml" "w.yml" exRaw =
    checkTail (fun _ => false) "w.yml" exRaw := by decide +kernel
example : statusOf (lintTail exRe exGlob [] exCfg "elsewhere/c.yml" "w.yml" exRaw) = 1 := by decide +kernel
/-- the unfiltered, sorted list the output is a sublist of -/
example : checkTail (fun _ => false) "w.yml" exRaw =
    [⟨"w.yml", 1, 1, m3, "expression"⟩, ⟨"w.yml", 2, 1, m1, "shellcheck"⟩, ⟨"w.yml", 3, 3, m5, "id"⟩,
     ⟨"w.yml", 5, 3, m4, "syntax-check"⟩, ⟨"w.yml", 9, 9, m2, "deprecated-commands"⟩] := by decide +kernel

/-- the project of `AL.C15`'s examples (`/home/u/repo`) with this configuration -/
def exProject : Project := { root := AL.C15.exRoot, config := some exCfg }

/-- end to end from `/home/u/repo/sub` with the spelling `../.github/workflows/a.yml` … -/
example : lintTailAt exRe exGlob exCli none AL.C15.exCwd (some exProject) AL.C15.exP1 exRaw =
    [⟨"../.github/workflows/a.yml", 3, 3, m5, "id"⟩, ⟨"../.github/workflows/a.yml", 5, 3, m4, "syntax-check"⟩] := by
  decide +kernel
/-- … and from the repository root with `.github/workflows/a.yml`: the same diagnostics, labelled with that path -/
example : lintTailAt exRe exGlob exCli none AL.C15.exRoot (some exProject) AL.C15.exRel exRaw =
    [⟨".github/workflows/a.yml", 3, 3, m5, "id"⟩, ⟨".github/workflows/a.yml", 5, 3, m4, "syntax-check"⟩] := by
  decide +kernel

/-! ### invalid patterns in the document -/

def exBadRegexDoc : Node := .mk .document "" "" false 1 1
  [mp [sc "paths", mp [sc "**", mp [sc "ignore", sq [sc "fine", sc "("]]]]]
def exBadGlobDoc : Node := .mk .document "" "" false 1 1
  [mp [sc "paths", mp [sc "[", mp [sc "ignore", sq [sc "fine"]]]]]

example : docPaths exBadRegexDoc = [("**", ["fine", "("])] := by decide +kernel
example : parseConfig exRegexOk exGlobOk exBadRegexDoc = .error .decode := by rfl
example : ∃ err, parseConfig exRegexOk exGlobOk exBadRegexDoc = .error err :=
  invalid_regex_is_error exRegexOk exGlobOk exBadRegexDoc ("**", ["fine", "("]) "(" (by decide +kernel)
    (by decide +kernel) (by decide +kernel)
example : parseConfig exRegexOk exGlobOk exBadGlobDoc = .error .decode := by rfl
example : ∃ err, parseConfig exRegexOk exGlobOk exBadGlobDoc = .error err :=
  invalid_glob_is_error exRegexOk exGlobOk exBadGlobDoc ("[", ["fine"]) (by decide +kernel) (by decide +kernel)

/-! ### OBSERVATION 1 (reproduced with the Go code): an item of `ignore:` that is not a scalar, or is empty, is the
pattern "" — which matches every message

`IgnorePatterns.UnmarshalYAML` compiles `p.Value` of every item without looking at `p.Kind`; the `Value` of a sequence or
mapping node, and of an empty item (`- ` with nothing behind it), is "". `regexp.Compile("")` succeeds. So

```yaml
paths:
  "**":
    ignore: [[oops]]        # or:  - {a: b}   or an empty `-`
```
is accepted and silently drops EVERY diagnostic of every file. -/

def exNestedDoc : Node := .mk .document "" "" false 1 1
  [mp [sc "paths", mp [sc "**", mp [sc "ignore", sq [sq [sc "oops"]]]]]]
def exNestedCfg : Config := { paths := [("**", [""])] }

theorem nonscalar_item_is_empty_pattern : parseConfig exRegexOk exGlobOk exNestedDoc = .ok exNestedCfg := by rfl

/-- … with any engine in which "" matches everything and any glob matcher in which `**` matches the path -/
theorem nonscalar_item_drops_all (reMatch globMatch : String → String → Bool) (hempty : ∀ m, reMatch "" m = true)
    (relPath path : String) (hg : globMatch "**" relPath = true) (raw : List D) :
    lintTail reMatch globMatch [] exNestedCfg relPath path raw = [] :=
  empty_pattern_drops_all reMatch globMatch hempty [] exNestedCfg relPath path raw ("**", [""])
    (List.mem_cons_self ..) hg (List.mem_cons_self ..)

example : lintTail (fun p _ => p == "") (fun g _ => g == "**") [] exNestedCfg exRelS "w.yml" exRaw = [] :=
  nonscalar_item_drops_all _ _ (fun _ => rfl) exRelS "w.yml" rfl exRaw
example : lintTail (fun p _ => p == "") (fun g _ => g == "**") [] exNestedCfg exRelS "w.yml" exRaw = [] := by
  decide +kernel

/-! ### OBSERVATION 2: an entry of `paths:` under a null key does not exist — its patterns are not even validated -/

def exNullKeyDoc : Node := .mk .document "" "" false 1 1
  [mp [sc "paths", mp [.mk .scalar "!!null" "~" false 1 1 [], mp [sc "ignore", sq [sc "("]]]]]

theorem null_key_entry_vanishes : parseConfig exRegexOk exGlobOk exNullKeyDoc = .ok {} := by rfl
example : docPaths exNullKeyDoc = [] := by decide +kernel

/-! ### FINDING (reproduced with the Go code): outside every project the result DEPENDS on the working directory

With `-config-file` and a workflow file that belongs to no project (`project == nil`: no `.github/workflows` directory
above it), `pathFromProjectRoot` returns the display path — the path relative to the working directory — and the globs of
`paths:` are matched against THAT. The same file with the same configuration is filtered from one directory and not from
another; the exit status differs. ("results do not depend on the cwd" holds inside a project only: `tail_cwd_independent`.) -/

def exCfgSub : Config := { paths := [("sub/*.yml", [".*"])] }
def exHome : FPath := ⟨true, ["home", "u"]⟩
def exHomeSub : FPath := ⟨true, ["home", "u", "sub"]⟩
def exSubA : FPath := ⟨false, ["sub", "a.yml"]⟩
def exA : FPath := ⟨false, ["a.yml"]⟩

/-- a decidable form of `AL.C15.Clean` -/
theorem clean_check (p : FPath) (h1 : ∀ c ∈ p.comps, c ≠ "" ∧ c ≠ ".") (h2 : p.abs = true → ∀ c ∈ p.comps, c ≠ "..")
    (h3 : ∀ j, j < p.comps.length → ∀ i, i < j → p.comps[j]? = some ".." → p.comps[i]? = some "..") :
    AL.C15.Clean p := by
  refine ⟨h1, h2, ?_⟩
  intro i j hij hj
  have hlt : j < p.comps.length := by
    rcases Nat.lt_or_ge j p.comps.length with h' | h'
    · exact h'
    · rw [List.getElem?_eq_none h'] at hj; cases hj
  exact h3 j hlt i hij hj

example : AL.C15.Clean exSubA := clean_check _ (by decide) (by decide) (by decide)

/-- from `/home/u` the file `sub/a.yml` is displayed as `sub/a.yml`: the glob `sub/*.yml` applies, everything is dropped;
from `/home/u/sub` the same file is displayed as `a.yml`: the glob does not apply, everything is reported -/
theorem no_project_cwd_dependent :
    AL.C15.CleanAbs exHome ∧ AL.C15.CleanAbs exHomeSub ∧ AL.C15.Clean exSubA ∧ AL.C15.Clean exA ∧
    absOf exHome exSubA = absOf exHomeSub exA ∧
    lintTailAt exRe exGlob [] (some exCfgSub) exHome none exSubA exRaw = [] ∧
    (lintTailAt exRe exGlob [] (some exCfgSub) exHomeSub none exA exRaw).length = 5 ∧
    statusOf (lintTailAt exRe exGlob [] (some exCfgSub) exHome none exSubA exRaw) = 0 ∧
    statusOf (lintTailAt exRe exGlob [] (some exCfgSub) exHomeSub none exA exRaw) = 1 := by
  refine ⟨by unfold AL.C15.CleanAbs; decide, by unfold AL.C15.CleanAbs; decide,
    clean_check _ (by decide) (by decide) (by decide), clean_check _ (by decide) (by decide) (by decide),
    by decide +kernel, by decide +kernel, by decide +kernel, by decide +kernel, by decide +kernel⟩

/-- so (c) cannot be stated without the project: the end-to-end statement with `project == nil` is false -/
theorem cwd_independence_fails_without_project :
    ¬ ∀ (reMatch globMatch : String → String → Bool) (cli : List String) (dflt : Option Config) (cwd cwd' p p' : FPath)
        (raw : List D), AL.C15.CleanAbs cwd → AL.C15.CleanAbs cwd' → AL.C15.Clean p → AL.C15.Clean p' →
        absOf cwd p = absOf cwd' p' →
        statusOf (lintTailAt reMatch globMatch cli dflt cwd' none p' raw) =
          statusOf (lintTailAt reMatch globMatch cli dflt cwd none p raw) := by
  intro h
  obtain ⟨h1, h2, h3, h4, h5, _, _, h8, h9⟩ := no_project_cwd_dependent
  have := h exRe exGlob [] (some exCfgSub) exHome exHomeSub exSubA exA exRaw h1 h2 h3 h4 h5
  rw [h8, h9] at this
  cases this

/-- inside a project the same two invocations agree: with the project `/home/u` the matched path is `sub/a.yml` from both
directories -/
example : lintTailAt exRe exGlob [] (some exCfgSub) exHome (some ⟨exHome, none⟩) exSubA exRaw = [] ∧
    lintTailAt exRe exGlob [] (some exCfgSub) exHomeSub (some ⟨exHome, none⟩) exA exRaw = [] := by decide +kernel

/-! ## §6 the theorems on the instance (hypotheses discharged by evaluation) -/

section instances

/-! §1 -/
example : ignoredBy exRe exCli [["x"]] d3 = ignoredBy exRe exCli [["x"]] { d3 with line := 77, kind := "other" } :=
  ignoredBy_msg exRe exCli [["x"]] _ _ rfl

example : d1 ∈ exRaw := by decide +kernel
example : Matches exRe exGlob exCli exCfg.paths exRelS d1.msg := by unfold Matches AnyMatch; decide +kernel
example : { d1 with file := "w.yml" } ∉ lintTail exRe exGlob exCli exCfg exRelS "w.yml" exRaw :=
  (dropped_iff exRe exGlob exCli exCfg exRelS "w.yml" exRaw d1 (by decide +kernel)).2
    (by unfold Matches AnyMatch; decide +kernel)
example : ¬ Matches exRe exGlob exCli exCfg.paths exRelS d4.msg := by unfold Matches AnyMatch; decide +kernel
example : ¬ ({ d4 with file := "w.yml" } ∉ lintTail exRe exGlob exCli exCfg exRelS "w.yml" exRaw) := by
  rw [dropped_iff exRe exGlob exCli exCfg exRelS "w.yml" exRaw d4 (by decide +kernel)]
  unfold Matches AnyMatch; decide +kernel

example : ∃ d ∈ exRaw, (⟨"w.yml", 3, 3, m5, "id"⟩ : D) = { d with file := "w.yml" } :=
  reported_is_raw exRe exGlob exCli exCfg exRelS "w.yml" exRaw _ (by decide +kernel)

/-- a configuration whose only matching entry has an empty `ignore:` -/
def exCfgEmpty : Config := { paths := [("**/a.yml", []), ("other/**", [".*"])] }
example : lintTail exRe exGlob [] exCfgEmpty exRelS "w.yml" exRaw = checkTail (fun _ => false) "w.yml" exRaw :=
  no_patterns_no_drop exRe exGlob exCfgEmpty exRelS "w.yml" exRaw (by decide +kernel)
example : lintTail exRe exGlob [] exCfg "elsewhere/c.yml" "w.yml" exRaw = checkTail (fun _ => false) "w.yml" exRaw :=
  no_glob_no_drop exRe exGlob exCfg "elsewhere/c.yml" "w.yml" exRaw (by decide +kernel)

/-- fewer patterns: no `-ignore`, the first entry without `SC2086`, no third entry -/
def exCfgLess : Config := { paths := [(".github/workflows/**/*.yml", ["shellcheck"]), ("other/**", [".*"])] }
theorem exLess_sub : ∀ e ∈ exCfgLess.paths, ∃ e' ∈ exCfg.paths, e'.1 = e.1 ∧ ∀ p ∈ e.2, p ∈ e'.2 := by decide +kernel

example : Matches exRe exGlob exCli exCfg.paths exRelS m1 :=
  Matches_mono (cli := []) (paths := exCfgLess.paths) (fun _ h => by cases h) exLess_sub
    (by unfold Matches AnyMatch; decide +kernel)
example : lintTail exRe exGlob exCli exCfg exRelS "w.yml" exRaw =
    (lintTail exRe exGlob [] exCfgLess exRelS "w.yml" exRaw).filter
      (fun d => !ignoredBy exRe exCli (pathConfigs exGlob exCfg exRelS) d) :=
  more_patterns_drop_more exRe exGlob [] exCli exCfgLess exCfg exRelS "w.yml" exRaw (fun _ h => by cases h) exLess_sub
example : lintTail exRe exGlob [] exCfgLess exRelS "w.yml" exRaw =
    [⟨"w.yml", 1, 1, m3, "expression"⟩, ⟨"w.yml", 3, 3, m5, "id"⟩, ⟨"w.yml", 5, 3, m4, "syntax-check"⟩,
     ⟨"w.yml", 9, 9, m2, "deprecated-commands"⟩] := by decide +kernel
example : List.Sublist (lintTail exRe exGlob exCli exCfg exRelS "w.yml" exRaw)
    (lintTail exRe exGlob [] exCfgLess exRelS "w.yml" exRaw) :=
  more_patterns_sublist exRe exGlob [] exCli exCfgLess exCfg exRelS "w.yml" exRaw (fun _ h => by cases h) exLess_sub

/-- the same patterns in another order (entries, patterns inside an entry, a repeated flag) -/
def exCfgShuffled : Config :=
  { paths := [("**/a.yml", ["deprecated"]), ("other/**", [".*"]),
              (".github/workflows/**/*.yml", ["SC2086", "shellcheck"])] }
example : lintTail exRe exGlob exCli exCfg exRelS "w.yml" exRaw =
    lintTail exRe exGlob ["not defined", "not defined"] exCfgShuffled exRelS "w.yml" exRaw :=
  same_patterns_same_output exRe exGlob exCli _ exCfg exCfgShuffled exRelS "w.yml" exRaw
    (by intro p; simp [exCli]) (by decide +kernel) (by decide +kernel)

example : ignoredBy exRe exCli [["shellcheck", "SC2086"], ["deprecated"]] d2 =
    ignoredBy exRe exCli [["deprecated"], ["shellcheck", "SC2086"]] d2 :=
  ignoredBy_perm exRe exCli _ _ (List.Perm.swap ..) d2

def exCfgSwapped : Config :=
  { paths := [("other/**", [".*"]), (".github/workflows/**/*.yml", ["shellcheck", "SC2086"]),
              ("**/a.yml", ["deprecated"])] }
example : lintTail exRe exGlob exCli exCfg exRelS "w.yml" exRaw =
    lintTail exRe exGlob exCli exCfgSwapped exRelS "w.yml" exRaw :=
  paths_perm exRe exGlob exCli exCfg exCfgSwapped exRelS "w.yml" exRaw (List.Perm.swap ..)

/-! §2 -/
example : (sc "paths").kind = .scalar ∧ keyName (sc "paths") = "paths" := decStr_ok (k := sc "paths") rfl

/-- a toy struct with one counted field `a` -/
def exSet (st : Nat) (name : String) (_ : Node) : D Nat := if name = "a" then .ok (st + 2) else .ok st
theorem exSet_other : ∀ (st : Nat) (name : String) (v : Node) (st' : Nat), exSet st name v = .ok st' → name ≠ "a" →
    id st' = id st := by
  intro st name v st' h hn
  simp only [exSet, hn, if_false, Except.ok.injEq] at h
  exact h.symm
theorem exSet_a : ∀ (st : Nat) (v : Node) (st' : Nat), exSet st "a" v = .ok st' → (fun (_ : Node) (b : Nat) => b ≥ 2) v (id st') := by
  intro st v st' h
  simp only [exSet, if_true, Except.ok.injEq] at h
  simp only [id]; omega
def exToy : Node := mp [sc "b", sc "1", sc "a", sc "2"]
example (st' : Nat) (h : structLoop ["a"] exSet (pairs exToy.content) [] 0 = .ok st') :
    (match lookup "a" (pairs exToy.content) with
      | none => id st' = id 0
      | some v => (fun (_ : Node) (b : Nat) => b ≥ 2) v (id st')) ∧ ("a" ∈ ([] : List String) → lookup "a" (pairs exToy.content) = none) :=
  structLoop_field ["a"] exSet "a" id (fun _ b => b ≥ 2) (by simp) exSet_other exSet_a _ _ 0 st' h
example : structLoop ["a"] exSet (pairs exToy.content) [] 0 = .ok 2 := by rfl
example (st' : Nat) (h : structDecode ["a"] exSet 0 exToy = .ok st') :
    match fieldOf "a" exToy with
    | none => id st' = id 0
    | some v => (fun (_ : Node) (b : Nat) => b ≥ 2) v (id st') :=
  structDecode_field ["a"] exSet "a" id (fun _ b => b ≥ 2) (by simp) exSet_other exSet_a 0 exToy st' h
example : structDecode ["a"] exSet 0 exToy = .ok 2 := by rfl

example : ["shellcheck", "SC2086"] = [sc "shellcheck", sc "SC2086"].map (·.value) ∧
    PatsOk exRegexOk ["shellcheck", "SC2086"] :=
  patternsOf_ok exRegexOk [sc "shellcheck", sc "SC2086"] _ rfl
example : IgnoreRel exRegexOk (sq [sc "shellcheck", sc "SC2086"]) ["shellcheck", "SC2086"] :=
  ignoreField_ok exRegexOk _ _ rfl
example : (["kept"] : List String) = ["kept"] :=
  setPath_other exRegexOk ["kept"] "other" (sc "x") ["kept"] rfl (by decide)
example : ["shellcheck", "SC2086"] = ignoreOf exEntry ∧ PatsOk exRegexOk ["shellcheck", "SC2086"] :=
  entry_ok exRegexOk exEntry _ rfl
example : exCfg.paths = entriesOfPairs (pairs exPathsNode.content) ∧ ∀ e ∈ exCfg.paths, PatsOk exRegexOk e.2 :=
  pathsLoop_ok exRegexOk (pairs exPathsNode.content) exCfg.paths rfl
example : ∀ q ∈ pairs exPathsNode.content, q.1.kind = .scalar :=
  pathsLoop_keys_scalar exRegexOk (pairs exPathsNode.content) exCfg.paths rfl
example : ((pairs exPathsNode.content).map (·.1.value)).Nodup :=
  nodup_of_noDupKey (pairs exPathsNode.content) (by decide +kernel) (by decide +kernel)
example : PathsRel exRegexOk exPathsNode exCfg.paths := decPaths_ok exRegexOk exPathsNode exCfg.paths rfl
example : ({ labels := ["gpu"] } : Config).paths = ({} : Config).paths :=
  setConfig_other exRegexOk {} "self-hosted-runner" (mp [sc "labels", sq [sc "gpu"]]) { labels := ["gpu"] } rfl
    (by decide)
example : PathsRel exRegexOk exPathsNode exCfg.paths :=
  setConfig_paths exRegexOk { labels := ["gpu"] } exPathsNode exCfg rfl
example : ∀ e ∈ docPaths exDoc, exGlobOk e.1 = true ∧ ∀ p ∈ e.2, exRegexOk p = true :=
  parseConfig_validated exRegexOk exGlobOk exDoc exCfg exDoc_parses
example : (exCfg.paths.map (·.1)).Nodup := parseConfig_keys_nodup exRegexOk exGlobOk exDoc exCfg exDoc_parses
/-- a repeated key of `paths:` is an error -/
example : parseConfig exRegexOk exGlobOk (.mk .document "" "" false 1 1
    [mp [sc "paths", mp [sc "**", mp [], sc "**", mp []]]]) = .error .decode := by rfl

example : { d2 with file := "w.yml" } ∉ lintTail exRe exGlob exCli exCfg exRelS "w.yml" exRaw ↔
    Matches exRe exGlob exCli (docPaths exDoc) exRelS d2.msg :=
  dropped_iff_doc exRegexOk exGlobOk exRe exGlob exCli exDoc exCfg exDoc_parses exRelS "w.yml" exRaw d2
    (by decide +kernel)
example : Matches exRe exGlob exCli (docPaths exDoc) exRelS d2.msg := by unfold Matches AnyMatch; decide +kernel
example : (⟨"w.yml", 5, 3, m4, "syntax-check"⟩ : D) ∈ lintTail exRe exGlob exCli exCfg exRelS "w.yml" exRaw ↔
    ∃ d ∈ exRaw, ¬ Matches exRe exGlob exCli (docPaths exDoc) exRelS d.msg ∧
      (⟨"w.yml", 5, 3, m4, "syntax-check"⟩ : D) = { d with file := "w.yml" } :=
  mem_lintTail_doc exRegexOk exGlobOk exRe exGlob exCli exDoc exCfg exDoc_parses exRelS "w.yml" exRaw _

/-- a document with `self-hosted-runner:` only -/
def exNoPathsDoc : Node := .mk .document "" "" false 1 1 [mp [sc "self-hosted-runner", mp [sc "labels", sq [sc "gpu"]]]]
example : lintTail exRe exGlob [] { labels := ["gpu"] } exRelS "w.yml" exRaw = checkTail (fun _ => false) "w.yml" exRaw :=
  no_paths_key_no_drop exRegexOk exGlobOk exRe exGlob exNoPathsDoc { labels := ["gpu"] } rfl (by decide +kernel)
    exRelS "w.yml" exRaw

/-! §3 -/
example : less (setFile "x" d1) (setFile "x" d5) = less d1 d5 := less_setFile "x" d1 d5 rfl
example : insertStable (setFile "x" d1) ([d3, d5].map (setFile "x")) = (insertStable d1 [d3, d5]).map (setFile "x") :=
  insertStable_setFile "x" d1 [d3, d5] (by decide +kernel)
example : ([d4, d1].map (setFile "x")).foldl ins ([d3].map (setFile "x")) = ([d4, d1].foldl ins [d3]).map (setFile "x") :=
  foldl_ins_setFile "x" "" [d4, d1] [d3] (by decide +kernel) (by decide +kernel)
example : stableSort (exRaw.map (setFile "x")) = (stableSort exRaw).map (setFile "x") :=
  stableSort_setFile "x" "" exRaw (by decide +kernel)

theorem exCwd_clean : AL.C15.CleanAbs AL.C15.exCwd := by unfold AL.C15.CleanAbs; decide
theorem exRoot_clean : AL.C15.CleanAbs AL.C15.exRoot := by unfold AL.C15.CleanAbs; decide
theorem exP1_clean : AL.C15.Clean AL.C15.exP1 := clean_check _ (by decide) (by decide) (by decide)
theorem exRel_clean : AL.C15.Clean AL.C15.exRel := clean_check _ (by decide) (by decide) (by decide)
theorem exP2_clean : AL.C15.Clean AL.C15.exP2 := clean_check _ (by decide) (by decide) (by decide)
theorem exAbs_eq : absOf AL.C15.exCwd AL.C15.exP1 = absOf AL.C15.exRoot AL.C15.exRel := by decide +kernel

example : matchedPath AL.C15.exCwd (some exProject) (displayPath AL.C15.exCwd AL.C15.exP1) =
    matchedPath AL.C15.exRoot (some exProject) (displayPath AL.C15.exRoot AL.C15.exRel) :=
  matchedPath_cwd_independent _ _ exProject _ _ exCwd_clean exRoot_clean exRoot_clean exP1_clean exRel_clean exAbs_eq
example : (matchedPath AL.C15.exCwd (some exProject) (displayPath AL.C15.exCwd AL.C15.exP1)).toString = exRelS := by
  decide +kernel
example : join exProject.root (matchedPath AL.C15.exCwd (some exProject) (displayPath AL.C15.exCwd AL.C15.exP1)) =
      absOf AL.C15.exCwd AL.C15.exP1 ∧
    ∀ c ∈ (matchedPath AL.C15.exCwd (some exProject) (displayPath AL.C15.exCwd AL.C15.exP1)).comps, c ≠ ".." :=
  matchedPath_root_relative _ exProject _ exCwd_clean exRoot_clean exP1_clean (by decide +kernel)
example : filterErrs exRe exCli (pathConfigsOpt exGlob (activeConfig none (some exProject))
      (matchedPath AL.C15.exCwd (some exProject) (displayPath AL.C15.exCwd AL.C15.exP1)).toString) exRaw =
    filterErrs exRe exCli (pathConfigsOpt exGlob (activeConfig none (some exProject))
      (matchedPath AL.C15.exRoot (some exProject) (displayPath AL.C15.exRoot AL.C15.exRel)).toString) exRaw :=
  filtered_cwd_independent exRe exGlob exCli none _ _ exProject _ _ exRaw exCwd_clean exRoot_clean exRoot_clean
    exP1_clean exRel_clean exAbs_eq
example : lintTailAt exRe exGlob exCli none AL.C15.exRoot (some exProject) AL.C15.exRel exRaw =
    (lintTailAt exRe exGlob exCli none AL.C15.exCwd (some exProject) AL.C15.exP1 exRaw).map
      (setFile (displayPath AL.C15.exRoot AL.C15.exRel).toString) :=
  tail_cwd_independent exRe exGlob exCli none _ _ exProject _ _ exRaw exCwd_clean exRoot_clean exRoot_clean
    exP1_clean exRel_clean exAbs_eq
example : statusOf (lintTailAt exRe exGlob exCli none AL.C15.exRoot (some exProject) AL.C15.exRel exRaw) =
    statusOf (lintTailAt exRe exGlob exCli none AL.C15.exCwd (some exProject) AL.C15.exP1 exRaw) :=
  status_cwd_independent exRe exGlob exCli none _ _ exProject _ _ exRaw exCwd_clean exRoot_clean exRoot_clean
    exP1_clean exRel_clean exAbs_eq
/-- the absolute spelling from the sub-directory, too -/
example : lintTailAt exRe exGlob exCli none AL.C15.exCwd (some exProject) AL.C15.exP2 exRaw =
    (lintTailAt exRe exGlob exCli none AL.C15.exCwd (some exProject) AL.C15.exP1 exRaw).map
      (setFile (displayPath AL.C15.exCwd AL.C15.exP2).toString) :=
  tail_cwd_independent exRe exGlob exCli none _ _ exProject _ _ exRaw exCwd_clean exCwd_clean exRoot_clean
    exP1_clean exP2_clean (by decide +kernel)
example : lintTailAt exRe exGlob exCli none AL.C15.exCwd (some exProject) AL.C15.exP1 exRaw =
    lintTail exRe exGlob exCli exCfg
      (pathFromProjectRoot AL.C15.exCwd exProject.root (displayPath AL.C15.exCwd AL.C15.exP1)).toString
      (displayPath AL.C15.exCwd AL.C15.exP1).toString exRaw :=
  lintTailAt_project exRe exGlob exCli none _ exProject _ exRaw exCfg rfl
/-- `-config-file` beats the project's file: with `exCfgSub` nothing of `a.yml` is dropped but what `-ignore` drops -/
example : (lintTailAt exRe exGlob exCli (some exCfgSub) AL.C15.exCwd (some exProject) AL.C15.exP1 exRaw).length = 4 := by
  decide +kernel

/-! §4 -/
example : statusOf (lintTail exRe exGlob [] exCfg "other/b.yml" "w.yml" exRaw) = 0 :=
  (status_zero_iff exRe exGlob [] exCfg "other/b.yml" "w.yml" exRaw).2 (by unfold Matches AnyMatch; decide +kernel)
example : statusOf (lintTail exRe exGlob exCli exCfg exRelS "w.yml" exRaw) = 1 :=
  (status_one_iff exRe exGlob exCli exCfg exRelS "w.yml" exRaw).2 ⟨d4, by decide +kernel, by unfold Matches AnyMatch; decide +kernel⟩
example : statusOf (lintTail exRe exGlob [] exCfg "other/b.yml" "w.yml" exRaw) = 0 :=
  (status_zero_iff_doc exRegexOk exGlobOk exRe exGlob [] exDoc exCfg exDoc_parses "other/b.yml" "w.yml" exRaw).2
    (by unfold Matches AnyMatch; decide +kernel)
example : lintTail (fun p _ => p == "") exGlob [] { paths := [("**/a.yml", ["x", ""])] } exRelS "w.yml" exRaw = [] :=
  empty_pattern_drops_all _ exGlob (fun _ => rfl) [] _ exRelS "w.yml" exRaw ("**/a.yml", ["x", ""])
    (List.mem_cons_self ..) (by decide +kernel) (by decide +kernel)

example : mainStatus exRegexOk ["fine", "("] (fun c => lintTail exRe exGlob c exCfg exRelS "w.yml" exRaw) = 3 :=
  invalid_cli_is_fatal exRegexOk _ _ "(" (by decide +kernel) (by decide +kernel)
example : mainStatus exRegexOk exCli (fun c => lintTail exRe exGlob c exCfg exRelS "w.yml" exRaw) =
    statusOf (lintTail exRe exGlob exCli exCfg exRelS "w.yml" exRaw) :=
  valid_cli_status exRegexOk exCli _ (by decide +kernel)
example : mainStatus exRegexOk exCli (fun c => lintTail exRe exGlob c exCfg exRelS "w.yml" exRaw) = 1 := by decide +kernel

end instances

end AL.C15D
