import AL.Props.C14Calls
import AL.Props.C14Rules
import AL.Props.C14Proj
import AL.Props.C14Decode
/-
  C14 — the distinctness hypothesis of `missing_exact` (and of `nothing_else`, `decl_order_irrelevant`, `inherit`; the
  `find? … = some …` hypotheses of C14Proj) holds for every interface the linter can obtain:

  * reusable workflows — `AL.CallMeta.fromAst` (from the AST, `WriteWorkflowCallEvent`) and `AL.CallMeta.fromYaml` /
    `fromOn` / `fromDoc` (from the file, the `UnmarshalYAML` methods): the ids of inputs, secrets and outputs are pairwise
    distinct, whatever the input (`put` is `m[k] = v`);
  * local actions — `AL.ActionDecode.fromDoc`: an id given twice is a decoding error, so a successful result has distinct
    ids;
  * bundled actions — the regenerated table `AL.Gen.popularChunks`: checked entry by entry by the kernel.

  Hence "a declared required input is reported iff it is not supplied" holds for them with NO hypothesis.
-/
namespace AL.C14W
open AL.Calls AL.C14

/-! ## association lists with distinct keys -/

theorem put_keys {α : Type} (m : List (String × α)) (k : String) (v : α) :
    (AL.CallMeta.put m k v).map (·.1) = if k ∈ m.map (·.1) then m.map (·.1) else m.map (·.1) ++ [k] := by
  unfold AL.CallMeta.put
  by_cases h : m.any (·.1 = k) = true
  · have hk : k ∈ m.map (·.1) := by
      obtain ⟨x, hx, he⟩ := List.any_eq_true.1 h
      exact List.mem_map.2 ⟨x, hx, by simpa using he⟩
    simp only [h, if_true, hk, List.map_map]
    apply List.map_congr_left
    intro e _
    simp only [Function.comp]
    split
    · rename_i he; exact he.symm
    · rfl
  · have hk : k ∉ m.map (·.1) := by
      intro hk
      obtain ⟨x, hx, he⟩ := List.mem_map.1 hk
      exact h (List.any_eq_true.2 ⟨x, hx, by simpa using he⟩)
    simp [h, hk]

/-- `m[k] = v` keeps the keys pairwise distinct -/
theorem put_nodup {α : Type} (m : List (String × α)) (k : String) (v : α) (h : (m.map (·.1)).Nodup) :
    ((AL.CallMeta.put m k v).map (·.1)).Nodup := by
  rw [put_keys]
  split
  · exact h
  · rename_i hk
    rw [List.nodup_append]
    exact ⟨h, by simp, fun a ha b hb => by simp at hb; subst hb; exact fun e => hk (e ▸ ha)⟩

theorem foldl_put_nodup {α β : Type} (key : β → String) (val : β → α) (l : List β) (m : List (String × α))
    (h : (m.map (·.1)).Nodup) : ((l.foldl (fun m x => AL.CallMeta.put m (key x) (val x)) m).map (·.1)).Nodup := by
  induction l generalizing m with
  | nil => exact h
  | cons x rest ih => exact ih _ (put_nodup m _ _ h)

/-- with distinct keys, "the first entry under `k`" is "the entry under `k`" -/
theorem find_iff_mem {α : Type} (m : List (String × α)) (h : (m.map (·.1)).Nodup) (k : String) (v : α) :
    m.find? (·.1 = k) = some (k, v) ↔ (k, v) ∈ m := by
  constructor
  · exact List.mem_of_find?_eq_some
  · intro hm
    induction m with
    | nil => cases hm
    | cons x rest ih =>
      simp only [List.map_cons, List.nodup_cons] at h
      rw [List.find?_cons]
      rcases List.mem_cons.1 hm with rfl | hm
      · simp
      · have : x.1 ≠ k := fun e => h.1 (e ▸ List.mem_map.2 ⟨(k, v), hm, rfl⟩)
        simp only [this, decide_false]
        exact ih h.2 hm

/-! ## reusable workflows: `AL.CallMeta` -/

section CallMeta
open AL.CallMeta AL.Yaml AL.PW AL.Ast

/-- the three Go maps of `ReusableWorkflowMetadata` have pairwise distinct keys -/
def MetaDistinct (m : Meta) : Prop :=
  (m.inputs.map (·.1)).Nodup ∧ (m.outputs.map (·.1)).Nodup ∧ (m.secrets.map (·.1)).Nodup

/-- the interface derived from the AST (`WriteWorkflowCallEvent`), for every AST -/
theorem fromAst_distinct (i : Option (List CallInput)) (s : Option (List (String × CallSecret)))
    (o : Option (List (String × CallOutput))) : MetaDistinct (fromAst i s o) :=
  ⟨foldl_put_nodup (fun x : CallInput => x.id) inputOfAst _ [] (by simp),
   foldl_put_nodup (fun x : String × CallOutput => x.1) (fun x => x.2.name.value) _ [] (by simp),
   foldl_put_nodup (fun x : String × CallSecret => x.1) (fun x => (⟨x.2.name.value, boolOf x.2.required⟩ : Secret)) _ [] (by simp)⟩

theorem fromEvents_distinct : ∀ (es : List Event) (m : Meta), fromEvents es = some m → MetaDistinct m
  | [], m, h => by cases h
  | e :: rest, m, h => by
    simp only [fromEvents] at h
    cases he : fromEvent e with
    | none => rw [he] at h; exact fromEvents_distinct rest m h
    | some m' =>
      rw [he] at h
      simp only [Option.some.injEq] at h
      subst h
      cases e with
      | call i s o p =>
        simp only [fromEvent, Option.some.injEq] at he
        subst he
        exact fromAst_distinct _ _ _
      | _ => simp [fromEvent] at he

/-- the linted file's own interface (what `VisitWorkflowPre` writes to the cache) -/
theorem fromDocAst_distinct (cfg : Cfg) (doc : Node) (m : Meta) (h : fromDocAst cfg doc = some m) : MetaDistinct m :=
  fromEvents_distinct _ m h

/-- an invariant of the state is kept by yaml.v3's struct decoding if every field setter keeps it -/
theorem structLoop_inv {σ : Type} (P : σ → Prop) (fields : List String) (set : σ → String → Node → D σ)
    (hset : ∀ st name v st', P st → set st name v = .ok st' → P st') :
    ∀ (l : List (Node × Node)) (done : List String) (st st' : σ), P st → structLoop fields set l done st = .ok st' → P st'
  | [], _, st, st', h0, h => by
    simp only [structLoop, Except.ok.injEq] at h
    subst h; exact h0
  | (k, v) :: rest, done, st, st', h0, h => by
    simp only [structLoop] at h
    split at h
    · cases h
    · split at h
      · cases h
      · split at h
        · split at h
          · cases h
          · split at h
            · cases h
            · rename_i st1 hs
              exact structLoop_inv P fields set hset rest _ st1 st' (hset _ _ _ _ h0 hs) h
        · exact structLoop_inv P fields set hset rest _ st st' h0 h

theorem structDecode_inv {σ : Type} (P : σ → Prop) (fields : List String) (set : σ → String → Node → D σ)
    (hset : ∀ st name v st', P st → set st name v = .ok st' → P st') (init : σ) (h0 : P init) (n : Node) (st' : σ)
    (h : structDecode fields set init n = .ok st') : P st' := by
  simp only [structDecode] at h
  split at h
  · cases h
  · split at h
    · cases h
    · exact structLoop_inv P fields set hset _ _ init st' h0 h
  · split at h
    · simp only [Except.ok.injEq] at h; subst h; exact h0
    · cases h
  · cases h

theorem decInputsLoop_nodup (cfg : Cfg) : ∀ (l : List (Node × Node)) (m res : List (String × CallMeta.Input)),
    (m.map (·.1)).Nodup → CallMeta.decInputsLoop cfg l m = .ok res → (res.map (·.1)).Nodup
  | [], m, res, h0, h => by simp only [CallMeta.decInputsLoop, Except.ok.injEq] at h; subst h; exact h0
  | (k, v) :: rest, m, res, h0, h => by
    simp only [CallMeta.decInputsLoop] at h
    split at h
    · cases h
    · exact decInputsLoop_nodup cfg rest _ res (put_nodup m _ _ h0) h

theorem decSecretsLoop_nodup (cfg : Cfg) : ∀ (l : List (Node × Node)) (m res : List (String × Secret)),
    (m.map (·.1)).Nodup → decSecretsLoop cfg l m = .ok res → (res.map (·.1)).Nodup
  | [], m, res, h0, h => by simp only [decSecretsLoop, Except.ok.injEq] at h; subst h; exact h0
  | (k, v) :: rest, m, res, h0, h => by
    simp only [decSecretsLoop] at h
    split at h
    · cases h
    · exact decSecretsLoop_nodup cfg rest _ res (put_nodup m _ _ h0) h

theorem viaUnmarshaler_nodup {α : Type} (dec : Node → D (List (String × α)))
    (hdec : ∀ n res, dec n = .ok res → (res.map (·.1)).Nodup) (n : Node) (res : List (String × α))
    (h : viaUnmarshaler dec n = .ok res) : (res.map (·.1)).Nodup := by
  simp only [viaUnmarshaler] at h
  split at h
  · simp only [Except.ok.injEq] at h; subst h; simp
  · exact hdec n res h

theorem decInputs_nodup (cfg : Cfg) (n : Node) (res : List (String × CallMeta.Input)) (h : CallMeta.decInputs cfg n = .ok res) :
    (res.map (·.1)).Nodup := by
  simp only [CallMeta.decInputs] at h
  split at h
  · cases h
  · exact decInputsLoop_nodup cfg _ [] res (by simp) h
  · cases h

theorem decSecrets_nodup (cfg : Cfg) (n : Node) (res : List (String × Secret)) (h : decSecrets cfg n = .ok res) :
    (res.map (·.1)).Nodup := by
  simp only [decSecrets] at h
  split at h
  · cases h
  · exact decSecretsLoop_nodup cfg _ [] res (by simp) h
  · cases h

theorem decOutputs_nodup (cfg : Cfg) (n : Node) (res : List (String × String)) (h : CallMeta.decOutputs cfg n = .ok res) :
    (res.map (·.1)).Nodup := by
  simp only [CallMeta.decOutputs] at h
  split at h
  · cases h
  · simp only [Except.ok.injEq] at h
    subst h
    exact foldl_put_nodup (fun kv : Node × Node => cfg.lower kv.1.value) (fun kv => kv.1.value) _ [] (by simp)
  · cases h

theorem map_ok {α β : Type} {f : α → β} {x : D α} {y : β} (h : x.map f = .ok y) : ∃ a, x = .ok a ∧ y = f a := by
  cases x with
  | error e => cases h
  | ok a => simp only [Except.map, Except.ok.injEq] at h; exact ⟨a, rfl, h.symm⟩

theorem setMeta_distinct (cfg : Cfg) (st : Meta) (name : String) (v : Node) (st' : Meta) (h0 : MetaDistinct st)
    (h : CallMeta.setMeta cfg st name v = .ok st') : MetaDistinct st' := by
  simp only [CallMeta.setMeta] at h
  split at h
  · obtain ⟨a, ha, rfl⟩ := map_ok h
    exact ⟨viaUnmarshaler_nodup _ (decInputs_nodup cfg) v a ha, h0.2.1, h0.2.2⟩
  · obtain ⟨a, ha, rfl⟩ := map_ok h
    exact ⟨h0.1, viaUnmarshaler_nodup _ (decOutputs_nodup cfg) v a ha, h0.2.2⟩
  · obtain ⟨a, ha, rfl⟩ := map_ok h
    exact ⟨h0.1, h0.2.1, viaUnmarshaler_nodup _ (decSecrets_nodup cfg) v a ha⟩
  · simp only [Except.ok.injEq] at h; subst h; exact h0

/-- **the interface decoded from the `workflow_call:` node of the called file** -/
theorem fromYaml_distinct (cfg : Cfg) (n : Node) (m : Meta) (h : fromYaml cfg n = .ok m) : MetaDistinct m :=
  structDecode_inv MetaDistinct _ _ (fun st name v st' => setMeta_distinct cfg st name v st') {}
    ⟨by simp, by simp, by simp⟩ n m h

theorem fromOn_distinct (cfg : Cfg) (on : Node) (m : Meta) (h : fromOn cfg on = .ok m) : MetaDistinct m := by
  have hempty : MetaDistinct {} := ⟨by simp, by simp, by simp⟩
  simp only [fromOn] at h
  split at h
  · split at h
    · exact fromYaml_distinct cfg _ m h
    · cases h
  · split at h
    · simp only [Except.ok.injEq] at h; subst h; exact hempty
    · cases h
  · split at h
    · simp only [Except.ok.injEq] at h; subst h; exact hempty
    · cases h
  · cases h

/-- **`parseReusableWorkflowMetadata` on the document of the called file** -/
theorem fromDoc_distinct (cfg : Cfg) (doc : Node) (m : Meta) (h : CallMeta.fromDoc cfg doc = .ok m) : MetaDistinct m := by
  simp only [CallMeta.fromDoc] at h
  split at h
  · cases h
  · split at h
    · cases h
    · cases h
    · exact fromOn_distinct cfg _ m h

end CallMeta

/-! ## local actions: `AL.ActionDecode` -/

section ActionDecode
open AL.ActionDecode AL.Yaml AL.PW
open AL.CallMeta (D structDecode viaUnmarshaler)

/-- `ActionMetadataInputs.UnmarshalYAML`: an id given twice is an error, so a result has distinct ids -/
theorem action_decInputs_nodup (cfg : Cfg) (n : Node) (res : List (String × String × Bool))
    (h : ActionDecode.decInputs cfg n = .ok res) : (res.map (·.1)).Nodup := by
  simp only [ActionDecode.decInputs] at h
  split at h
  · cases h
  · exact (AL.C14D.decInputsLoop_spec cfg _ [] res h).2 (by simp)
  · cases h

theorem decOutputsLoop_nodup (cfg : Cfg) : ∀ (l : List (Node × Node)) (m res : List (String × String)),
    (m.map (·.1)).Nodup → decOutputsLoop cfg l m = .ok res → (res.map (·.1)).Nodup
  | [], m, res, h0, h => by simp only [decOutputsLoop, Except.ok.injEq] at h; subst h; exact h0
  | (k, v) :: rest, m, res, h0, h => by
    simp only [decOutputsLoop] at h
    split at h
    · cases h
    · rename_i hdup
      refine decOutputsLoop_nodup cfg rest _ res ?_ h
      simp only [List.map_append, List.map_cons, List.map_nil]
      rw [List.nodup_append]
      refine ⟨h0, by simp, ?_⟩
      intro a ha b hb
      simp only [List.mem_singleton] at hb
      subst hb
      intro hab
      subst hab
      apply hdup
      rw [List.any_eq_true]
      obtain ⟨x, hx, hxe⟩ := List.mem_map.mp ha
      exact ⟨x, hx, by simp [hxe]⟩

theorem action_decOutputs_nodup (cfg : Cfg) (n : Node) (res : List (String × String))
    (h : ActionDecode.decOutputs cfg n = .ok res) : (res.map (·.1)).Nodup := by
  simp only [ActionDecode.decOutputs] at h
  split at h
  · cases h
  · exact decOutputsLoop_nodup cfg _ [] res (by simp) h
  · cases h

def DecodedDistinct (d : Decoded) : Prop := (d.inputs.map (·.1)).Nodup ∧ (d.outputs.map (·.1)).Nodup

theorem action_setMeta_distinct (cfg : Cfg) (st : Decoded) (name : String) (v : Node) (st' : Decoded)
    (h0 : DecodedDistinct st) (h : ActionDecode.setMeta cfg st name v = .ok st') : DecodedDistinct st' := by
  simp only [ActionDecode.setMeta] at h
  split at h
  · obtain ⟨a, _, rfl⟩ := map_ok h; exact h0
  · obtain ⟨a, _, rfl⟩ := map_ok h; exact h0
  · obtain ⟨a, ha, rfl⟩ := map_ok h
    exact ⟨viaUnmarshaler_nodup _ (action_decInputs_nodup cfg) v a ha, h0.2⟩
  · obtain ⟨a, ha, rfl⟩ := map_ok h
    exact ⟨h0.1, viaUnmarshaler_nodup _ (action_decOutputs_nodup cfg) v a ha⟩
  · obtain ⟨a, _, rfl⟩ := map_ok h; exact h0
  · obtain ⟨a, _, rfl⟩ := map_ok h; exact h0
  · simp only [Except.ok.injEq] at h; subst h; exact h0

/-- **the metadata decoded from `action.yml`** has distinct input ids and distinct output ids -/
theorem action_fromDoc_distinct (cfg : Cfg) (doc : Node) (d : Decoded) (h : ActionDecode.fromDoc cfg doc = .ok d) :
    DecodedDistinct d := by
  have hempty : DecodedDistinct {} := ⟨by simp, by simp⟩
  simp only [ActionDecode.fromDoc] at h
  split at h
  · simp only [Except.ok.injEq] at h; subst h; exact hempty
  · exact structDecode_inv DecodedDistinct _ _ (fun st name v st' => action_setMeta_distinct cfg st name v st') {}
      hempty _ d h

end ActionDecode

/-! ## bundled actions: the regenerated table `AL.Gen.popularChunks` (checked by the kernel, chunk by chunk) -/

section Popular
open AL.Gen

/-- the input ids and the output ids of every entry of a chunk are pairwise distinct -/
def chunkOk (ch : List (String × List (String × String × Bool) × List (String × String) × Bool × Bool)) : Prop :=
  ∀ e ∈ ch, (e.2.1.map (·.1)).Nodup ∧ (e.2.2.1.map (·.1)).Nodup

theorem popular_0_ok : chunkOk popular_0 := by unfold chunkOk; decide +kernel
theorem popular_1_ok : chunkOk popular_1 := by unfold chunkOk; decide +kernel
theorem popular_2_ok : chunkOk popular_2 := by unfold chunkOk; decide +kernel
theorem popular_3_ok : chunkOk popular_3 := by unfold chunkOk; decide +kernel
theorem popular_4_ok : chunkOk popular_4 := by unfold chunkOk; decide +kernel
theorem popular_5_ok : chunkOk popular_5 := by unfold chunkOk; decide +kernel
theorem popular_6_ok : chunkOk popular_6 := by unfold chunkOk; decide +kernel
theorem popular_7_ok : chunkOk popular_7 := by unfold chunkOk; decide +kernel

theorem popularChunks_ok : ∀ ch ∈ popularChunks, chunkOk ch := by
  intro ch h
  simp only [popularChunks, List.mem_cons, List.not_mem_nil, or_false] at h
  rcases h with rfl | rfl | rfl | rfl | rfl | rfl | rfl | rfl
  · exact popular_0_ok
  · exact popular_1_ok
  · exact popular_2_ok
  · exact popular_3_ok
  · exact popular_4_ok
  · exact popular_5_ok
  · exact popular_6_ok
  · exact popular_7_ok

/-- **the interface `checkRepoAction` looks up for a bundled action has distinct input ids** -/
theorem popularEntry_distinct (spec : String) (ins : List (String × String × Bool)) (skip : Bool)
    (h : AL.Rules.popularEntry spec = some (ins, skip)) : (ins.map (·.1)).Nodup := by
  simp only [AL.Rules.popularEntry] at h
  split at h
  · rename_i sp ins' outs sk x hf
    simp only [Option.some.injEq, Prod.mk.injEq] at h
    obtain ⟨rfl, rfl⟩ := h
    obtain ⟨ch, hch, hfind⟩ := List.exists_of_findSome?_eq_some hf
    exact (popularChunks_ok ch hch _ (List.mem_of_find?_eq_some hfind)).1
  · cases h

end Popular

/-! ## the interfaces the linter can obtain -/

/-- an interface of a reusable workflow as `RuleWorkflowCall` gets it: from an AST, or decoded from the called file -/
inductive CallObtained (cfg : AL.PW.Cfg) : AL.CallMeta.Meta → Prop
  | ast (i : Option (List AL.Ast.CallInput)) (s : Option (List (String × AL.Ast.CallSecret)))
      (o : Option (List (String × AL.Ast.CallOutput))) : CallObtained cfg (AL.CallMeta.fromAst i s o)
  | docAst (doc : AL.Yaml.Node) (m : AL.CallMeta.Meta) (h : AL.CallMeta.fromDocAst cfg doc = some m) : CallObtained cfg m
  | yaml (n : AL.Yaml.Node) (m : AL.CallMeta.Meta) (h : AL.CallMeta.fromYaml cfg n = .ok m) : CallObtained cfg m
  | doc (doc : AL.Yaml.Node) (m : AL.CallMeta.Meta) (h : AL.CallMeta.fromDoc cfg doc = .ok m) : CallObtained cfg m

theorem CallObtained.distinct {cfg : AL.PW.Cfg} {m : AL.CallMeta.Meta} (h : CallObtained cfg m) : MetaDistinct m := by
  cases h with
  | ast i s o => exact fromAst_distinct i s o
  | docAst doc m h => exact fromDocAst_distinct cfg doc m h
  | yaml n m h => exact fromYaml_distinct cfg n m h
  | doc doc m h => exact fromDoc_distinct cfg doc m h

/-- the declared inputs of an action as `RuleAction` gets them: decoded from a local `action.yml`, or from the bundled table -/
inductive ActionObtained : List (String × String × Bool) → Prop
  | local_ (cfg : AL.PW.Cfg) (doc : AL.Yaml.Node) (d : AL.ActionDecode.Decoded)
      (h : AL.ActionDecode.fromDoc cfg doc = .ok d) : ActionObtained d.inputs
  | popular (spec : String) (ins : List (String × String × Bool)) (skip : Bool)
      (h : AL.Rules.popularEntry spec = some (ins, skip)) : ActionObtained ins

theorem ActionObtained.distinct {ins : List (String × String × Bool)} (h : ActionObtained ins) : (ins.map (·.1)).Nodup := by
  cases h with
  | local_ cfg doc d h => exact (action_fromDoc_distinct cfg doc d h).1
  | popular spec ins skip h => exact popularEntry_distinct spec ins skip h

/-! ## C14 on `AL.Calls` (`checkAction` / `checkCall`) without the distinctness hypothesis -/

def declsOfAction (ins : List (String × String × Bool)) : List Decl := ins.map fun e => ⟨e.1, e.2.1, e.2.2⟩
def declsOfInputs (ins : List (String × AL.CallMeta.Input)) : List Decl := ins.map fun e => ⟨e.1, e.2.name, e.2.required⟩
def declsOfSecrets (ss : List (String × AL.CallMeta.Secret)) : List Decl := ss.map fun e => ⟨e.1, e.2.name, e.2.required⟩

theorem distinct_declsOfAction {ins : List (String × String × Bool)} (h : (ins.map (·.1)).Nodup) :
    Distinct (declsOfAction ins) := by
  simpa [Distinct, declsOfAction, Function.comp_def] using h
theorem distinct_declsOfInputs {ins : List (String × AL.CallMeta.Input)} (h : (ins.map (·.1)).Nodup) :
    Distinct (declsOfInputs ins) := by
  simpa [Distinct, declsOfInputs, Function.comp_def] using h
theorem distinct_declsOfSecrets {ss : List (String × AL.CallMeta.Secret)} (h : (ss.map (·.1)).Nodup) :
    Distinct (declsOfSecrets ss) := by
  simpa [Distinct, declsOfSecrets, Function.comp_def] using h

/-- **C14 (b) for every action interface the linter can obtain**: a required input is reported as missing iff it is not
supplied -/
theorem action_missing_exact (ins : List (String × String × Bool)) (h : ActionObtained ins) (supplied : List String) (n : String) :
    Diag.missingInput n ∈ checkAction (declsOfAction ins) supplied ↔
      ∃ e ∈ ins, e.2.1 = n ∧ e.2.2 = true ∧ e.1 ∉ supplied := by
  rw [missing_exact _ supplied n (distinct_declsOfAction h.distinct)]
  simp only [declsOfAction, List.mem_map]
  constructor
  · rintro ⟨d, ⟨e, he, rfl⟩, h1, h2, h3⟩; exact ⟨e, he, h1, h2, h3⟩
  · rintro ⟨e, he, h1, h2, h3⟩; exact ⟨_, ⟨e, he, rfl⟩, h1, h2, h3⟩

/-- **C14 (d)**: the storage order of the declarations (a Go map) is irrelevant -/
theorem action_decl_order_irrelevant (ins : List (String × String × Bool)) (h : ActionObtained ins) (d₂ : List Decl)
    (supplied : List String) (hp : (declsOfAction ins).Perm d₂) :
    checkAction (declsOfAction ins) supplied = checkAction d₂ supplied :=
  decl_order_irrelevant _ d₂ supplied (distinct_declsOfAction h.distinct) hp

/-- **C14 (e)** for every reusable-workflow interface the linter can obtain: secrets are checked like inputs unless
`secrets: inherit` -/
theorem call_missing_secret_exact (cfg : AL.PW.Cfg) (m : AL.CallMeta.Meta) (h : CallObtained cfg m) (w s : List String) (n : String) :
    Diag.missingSecret n ∈ checkCall (declsOfInputs m.inputs) (declsOfSecrets m.secrets) w s false ↔
      ∃ e ∈ m.secrets, e.2.name = n ∧ e.2.required = true ∧ e.1 ∉ s := by
  rw [(inherit (declsOfInputs m.inputs) (declsOfSecrets m.secrets) w s).2.1 n (distinct_declsOfSecrets h.distinct.2.2)]
  simp only [declsOfSecrets, List.mem_map]
  constructor
  · rintro ⟨d, ⟨e, he, rfl⟩, h1, h2, h3⟩; exact ⟨e, he, h1, h2, h3⟩
  · rintro ⟨e, he, h1, h2, h3⟩; exact ⟨_, ⟨e, he, rfl⟩, h1, h2, h3⟩

/-- … and the required inputs of a call (the same statement for `checkCall`, which C14Calls leaves implicit) -/
theorem call_missing_input_exact (cfg : AL.PW.Cfg) (m : AL.CallMeta.Meta) (h : CallObtained cfg m) (w s : List String)
    (inh : Bool) (n : String) :
    Diag.missingInput n ∈ checkCall (declsOfInputs m.inputs) (declsOfSecrets m.secrets) w s inh ↔
      ∃ e ∈ m.inputs, e.2.name = n ∧ e.2.required = true ∧ e.1 ∉ w := by
  have hd := distinct_declsOfInputs h.distinct.1
  rw [checkCall_eq]
  have key : Diag.missingInput n ∈ missingOf .missingInput (declsOfInputs m.inputs) w ↔
      ∃ e ∈ m.inputs, e.2.name = n ∧ e.2.required = true ∧ e.1 ∉ w := by
    rw [mem_missingOf_iff inj_missingInput hd]
    simp only [declsOfInputs, List.mem_map]
    constructor
    · rintro ⟨d, ⟨e, he, rfl⟩, h1, h2, h3⟩; exact ⟨e, he, h1, h2, h3⟩
    · rintro ⟨e, he, h1, h2, h3⟩; exact ⟨_, ⟨e, he, rfl⟩, h1, h2, h3⟩
  rw [← key]
  simp only [List.mem_append]
  constructor
  · rintro ((h1 | h1) | h1)
    · exact h1
    · obtain ⟨k, he⟩ := mem_undefinedOf_elim h1; cases he
    · split at h1
      · cases h1
      · rcases List.mem_append.1 h1 with h1 | h1
        · obtain ⟨d, _, he, _⟩ := mem_missingOf_elim h1; cases he
        · obtain ⟨k, he⟩ := mem_undefinedOf_elim h1; cases he
  · exact fun h1 => Or.inl (Or.inl h1)

/-! ## C14 on the whole-file models (`checkLocal`, `inputDiags`, `checkActionInputs`), membership instead of "first entry" -/

section Proj
open AL.Ast AL.CallMeta AL.ProjCall

/-- **a declared input of a called local workflow is reported as required iff it is required and not supplied** — for
every interface the linter can obtain; `(n, i) ∈ m.inputs` replaces the `find? … = some …` hypothesis of
`AL.C14P.required_input_iff`. -/
theorem required_input_mem_iff (cfg : AL.PW.Cfg) (m : Meta) (hm : CallObtained cfg m) (c : WorkflowCall) (u : Str) (name : String) :
    (⟨u.pos, "workflow-call", "input-required", [name, u.value]⟩ : AL.Rules.Diag) ∈ checkLocal m c u ↔
      ∃ n i, (n, i) ∈ m.inputs ∧ i.name = name ∧ i.required = true ∧ n ∉ keysOf (c.inputs.getD []) := by
  have hd := hm.distinct.1
  constructor
  · intro h
    simp only [checkLocal, List.mem_append, List.mem_flatMap] at h
    rcases h with ((⟨n', _, hd'⟩ | ⟨kv', _, hd'⟩) | hs)
    · split at hd'
      · rename_i e i' he
        split at hd'
        · rename_i hreq
          simp only [List.mem_singleton, AL.Rules.Diag.mk.injEq, List.cons.injEq, and_true, true_and] at hd'
          have hreq' : i'.required = true ∧ n' ∉ keysOf (c.inputs.getD []) := by simpa using hreq
          have hfe : e = n' := by simpa using List.find?_some he
          subst hfe
          exact ⟨e, i', List.mem_of_find?_eq_some he, hd'.symm, hreq'.1, hreq'.2⟩
        · simp at hd'
      · simp at hd'
    · exfalso
      split at hd'
      · simp at hd'
      · simp at hd'
    · exfalso
      split at hs
      · simp at hs
      · simp only [List.mem_append, List.mem_flatMap] at hs
        rcases hs with ⟨n', _, hn⟩ | ⟨kv', _, hd'⟩
        · split at hn
          · split at hn
            · simp at hn
            · simp at hn
          · simp at hn
        · split at hd'
          · simp at hd'
          · simp at hd'
  · rintro ⟨n, i, hmem, hname, hr, hn⟩
    have := (AL.C14P.required_input_iff m c u n i ((find_iff_mem m.inputs hd n i).2 hmem)).2 (Or.inl ⟨hr, hn⟩)
    rw [hname] at this
    exact this

/-- the same for secrets (without `secrets: inherit`) -/
theorem required_secret_mem_iff (cfg : AL.PW.Cfg) (m : Meta) (hm : CallObtained cfg m) (c : WorkflowCall) (u : Str) (name : String)
    (hinh : c.inheritSecrets = false) :
    (⟨u.pos, "workflow-call", "secret-required", [name, u.value]⟩ : AL.Rules.Diag) ∈ checkLocal m c u ↔
      ∃ n s, (n, s) ∈ m.secrets ∧ s.name = name ∧ s.required = true ∧ n ∉ keysOf (c.secrets.getD []) := by
  have hd := hm.distinct.2.2
  constructor
  · intro h
    simp only [checkLocal, hinh, Bool.false_eq_true, if_false, List.mem_append, List.mem_flatMap] at h
    rcases h with ((⟨n', _, hd'⟩ | ⟨kv', _, hd'⟩) | (⟨n', _, hd'⟩ | ⟨kv', _, hd'⟩))
    · exfalso
      split at hd'
      · split at hd'
        · simp at hd'
        · simp at hd'
      · simp at hd'
    · exfalso
      split at hd'
      · simp at hd'
      · simp at hd'
    · split at hd'
      · rename_i e s' he
        split at hd'
        · rename_i hreq
          simp only [List.mem_singleton, AL.Rules.Diag.mk.injEq, List.cons.injEq, and_true, true_and] at hd'
          have hreq' : s'.required = true ∧ n' ∉ keysOf (c.secrets.getD []) := by simpa using hreq
          have hfe : e = n' := by simpa using List.find?_some he
          subst hfe
          exact ⟨e, s', List.mem_of_find?_eq_some he, hd'.symm, hreq'.1, hreq'.2⟩
        · simp at hd'
      · simp at hd'
    · exfalso
      split at hd'
      · simp at hd'
      · simp at hd'
  · rintro ⟨n, sd, hmem, hname, hr, hn⟩
    have := (AL.C14P.required_secret_iff m c u n sd hinh ((find_iff_mem m.secrets hd n sd).2 hmem)).2 (Or.inl ⟨hr, hn⟩)
    rw [hname] at this
    exact this

/-- **a declared input of a local action is reported as missing iff it is required and not supplied** — for the metadata
decoded from `action.yml` (any `ActionMeta` carrying the decoded inputs) -/
theorem local_action_missing_mem_iff (m : AL.ProjAction.ActionMeta) (hm : ActionObtained m.inputs) (spec : String)
    (e : ExecAction) (pos : AL.ProjAction.Pos) (name : String) :
    (∃ d ∈ AL.ProjAction.inputDiags m spec e pos, d.code = "local-input-missing" ∧ d.args.head? = some name) ↔
      ∃ id, (id, name, true) ∈ m.inputs ∧ (e.inputs.getD []).any (·.1 = id) = false := by
  have hd := hm.distinct
  constructor
  · rintro ⟨d, hdm, hc, ha⟩
    simp only [AL.ProjAction.inputDiags, List.mem_append, List.mem_flatMap] at hdm
    rcases hdm with ⟨kv', _, hd'⟩ | ⟨id', _, hd'⟩
    · exfalso
      split at hd'
      · simp at hd'
      · simp only [List.mem_singleton] at hd'; rw [hd'] at hc; simp at hc
    · split at hd'
      · rename_i k nm hf
        split at hd'
        · simp at hd'
        · rename_i hg
          simp only [List.mem_singleton] at hd'
          subst hd'
          have hk : k = id' := by simpa using List.find?_some hf
          subst hk
          have hnm : nm = name := by simpa using ha
          subst hnm
          exact ⟨k, List.mem_of_find?_eq_some hf, (Bool.not_eq_true _).mp hg⟩
      · simp at hd'
  · rintro ⟨id, hmem, hg⟩
    exact (AL.C14P.local_action_missing_input_iff m spec e pos id name
      ((find_iff_mem m.inputs hd id (name, true)).2 hmem)).2 (Or.inl hg)

/-- **bundled actions (`checkActionInputs`)**: a declared required input that is not supplied IS reported (the converse of
`AL.C14R.missing_only`; needs distinct ids, which the table has) -/
theorem missing_reported (spec : String) (declared : List (String × String × Bool)) (hdecl : ActionObtained declared)
    (e : ExecAction) (usesPos : AL.Rules.Pos) (x : String × String × Bool) (hx : x ∈ declared) (hr : x.2.2 = true)
    (hs : ∀ kv ∈ e.inputs.getD [], kv.1 ≠ x.1) :
    (⟨usesPos, "action", "input-missing", [x.2.1, spec]⟩ : AL.Rules.Diag) ∈ AL.Rules.checkActionInputs spec declared e usesPos := by
  obtain ⟨id, name, req⟩ := x
  simp only at hr hs
  subst hr
  have hf := (find_iff_mem declared hdecl.distinct id (name, true)).2 hx
  simp only [AL.Rules.checkActionInputs, List.mem_append, List.mem_flatMap]
  refine Or.inr ⟨id, ?_, ?_⟩
  · have : ∀ (l : List (String × String × Bool)) (y : String),
        y ∈ l.foldr (fun d acc => AL.PW.insertSorted d.1 acc) [] ↔ y ∈ l.map (·.1) := by
      intro l y
      have := AL.C14P.mem_sortStrings (l.map (·.1)) y
      simpa [AL.PW.sortStrings, List.foldr_map] using this
    exact (this declared id).2 (List.mem_map.2 ⟨_, hx, rfl⟩)
  · have hany : (e.inputs.getD []).any (fun kv => decide (kv.1 = id)) = false := by
      rw [List.any_eq_false]; intro kv hk; simpa using hs kv hk
    simp [hf, hany]

/-- **C14 (b) on `checkActionInputs`**, iff, no hypothesis on the table -/
theorem action_inputs_missing_iff (spec : String) (declared : List (String × String × Bool)) (hdecl : ActionObtained declared)
    (e : ExecAction) (usesPos : AL.Rules.Pos) (name : String) :
    (⟨usesPos, "action", "input-missing", [name, spec]⟩ : AL.Rules.Diag) ∈ AL.Rules.checkActionInputs spec declared e usesPos ↔
      ∃ x ∈ declared, x.2.1 = name ∧ x.2.2 = true ∧ ∀ kv ∈ e.inputs.getD [], kv.1 ≠ x.1 := by
  constructor
  · intro h
    obtain ⟨x, hx, hr, hs, _, ha⟩ := AL.C14R.missing_only spec declared e usesPos _ h rfl
    simp only [List.cons.injEq, and_true] at ha
    exact ⟨x, hx, ha.symm, hr, hs⟩
  · rintro ⟨x, hx, rfl, hr, hs⟩
    exact missing_reported spec declared hdecl e usesPos x hx hr hs

end Proj

/-! ## examples -/

section Examples
open AL.PW AL.Yaml AL.Ast

def exCfg : Cfg := ⟨asciiLower, fun _ => none, fun _ => .err⟩
def sc (v : String) (l c : Nat) : Node := .mk .scalar "!!str" v false l c []
def bl (v : String) (l c : Nat) : Node := .mk .scalar "!!bool" v false l c []
def mp (l c : Nat) (cs : List Node) : Node := .mk .mapping "!!map" "" false l c cs

/-- `workflow_call: { inputs: { Env: {required: true}, env: {default: x}, Tag: {required: true, type: string} },
secrets: { TOKEN: {required: true} } }` — `Env` and `env` are one id: the later entry replaces the earlier one -/
def exCallNode : Node :=
  mp 3 5 [sc "inputs" 3 5, mp 4 7 [sc "Env" 4 7, mp 5 9 [sc "required" 5 9, bl "true" 5 19],
                                   sc "env" 6 7, mp 7 9 [sc "default" 7 9, sc "x" 7 18],
                                   sc "Tag" 8 7, mp 9 9 [sc "required" 9 9, bl "true" 9 19, sc "type" 9 25, sc "string" 9 31]],
          sc "secrets" 10 5, mp 11 7 [sc "TOKEN" 11 7, mp 12 9 [sc "required" 12 9, bl "true" 12 19]]]
def exMeta : AL.CallMeta.Meta :=
  { inputs := [("env", ⟨"env", false, .any⟩), ("tag", ⟨"Tag", true, .string⟩)], secrets := [("token", ⟨"TOKEN", true⟩)] }
theorem exMeta_yaml : AL.CallMeta.fromYaml exCfg exCallNode = .ok exMeta := by rfl
theorem exMeta_obtained : CallObtained exCfg exMeta := .yaml exCallNode exMeta exMeta_yaml

/-- `action.yml`: `inputs: { Token: {required: true}, depth: {default: "1"} }` -/
def exActionDoc : Node :=
  .mk .document "" "" false 1 1 [mp 1 1 [sc "name" 1 1, sc "act" 1 7,
    sc "inputs" 2 1, mp 3 3 [sc "Token" 3 3, mp 4 5 [sc "required" 4 5, bl "true" 4 15],
                             sc "depth" 5 3, mp 6 5 [sc "default" 6 5, sc "1" 6 14]]]]
/-- `inputs: { Token: {}, token: {} }`: the same id twice -/
def exActionDup : Node :=
  .mk .document "" "" false 1 1 [mp 1 1 [sc "inputs" 2 1, mp 3 3 [sc "Token" 3 3, mp 4 5 [], sc "token" 5 3, mp 6 5 []]]]
def exIns : List (String × String × Bool) := [("token", "Token", true), ("depth", "depth", false)]
theorem exAction_decoded : ∃ d, AL.ActionDecode.fromDoc exCfg exActionDoc = .ok d ∧ d.inputs = exIns :=
  ⟨_, rfl, rfl⟩
theorem exIns_obtained : ActionObtained exIns := by
  obtain ⟨d, h, e⟩ := exAction_decoded
  exact e ▸ .local_ exCfg exActionDoc d h
/-- an id given twice never gets through the decoder -/
example : AL.ActionDecode.fromDoc exCfg exActionDup = .error .decode := by rfl
def exCacheIns : List (String × String × Bool) :=
  [("enablecrossosarchive", "enableCrossOsArchive", false), ("fail-on-cache-miss", "fail-on-cache-miss", false),
   ("key", "key", true), ("lookup-only", "lookup-only", false), ("path", "path", true),
   ("restore-keys", "restore-keys", false), ("save-always", "save-always", false),
   ("upload-chunk-size", "upload-chunk-size", false)]
theorem exCache : AL.Rules.popularEntry "actions/cache@v4" = some (exCacheIns, false) := by decide +kernel
theorem exCache_obtained : ActionObtained exCacheIns := .popular _ _ _ exCache

example : (AL.CallMeta.put [("a", 1), ("b", 2)] "b" 3).map (·.1) = ["a", "b"] ∧
    (AL.CallMeta.put [("a", 1), ("b", 2)] "c" 3).map (·.1) = ["a", "b", "c"] := by
  constructor <;> simp [put_keys]
example : ((AL.CallMeta.put [("a", 1), ("b", 2)] "b" 3).map (·.1)).Nodup := put_nodup _ _ _ (by decide)
example : ((["B", "a", "b"].foldl (fun m x => AL.CallMeta.put m (asciiLower x) x) []).map (·.1)).Nodup :=
  foldl_put_nodup asciiLower id _ [] (by simp)
example : [("a", 1), ("b", 2)].find? (·.1 = "b") = some ("b", 2) ↔ ("b", 2) ∈ [("a", 1), ("b", 2)] :=
  find_iff_mem _ (by decide) _ _
/-- without distinct keys the two notions differ -/
example : ("a", 2) ∈ [("a", 1), ("a", 2)] ∧ [("a", 1), ("a", 2)].find? (·.1 = "a") ≠ some ("a", 2) := by decide

example : MetaDistinct exMeta := exMeta_obtained.distinct
example : MetaDistinct (AL.CallMeta.fromAst (some [{ name := ⟨"A", false, ⟨1, 1⟩⟩, id := "a" }, { name := ⟨"a", false, ⟨2, 1⟩⟩, id := "a" }]) none none) :=
  fromAst_distinct _ _ _
example : (AL.CallMeta.fromAst (some [{ name := ⟨"A", false, ⟨1, 1⟩⟩, id := "a" }, { name := ⟨"a", false, ⟨2, 1⟩⟩, id := "a" }]) none none).inputs =
    [("a", ⟨"a", false, .any⟩)] := by decide +kernel
example (m : AL.CallMeta.Meta) (h : AL.CallMeta.fromEvents [.call none none none ⟨1, 1⟩] = some m) : MetaDistinct m :=
  fromEvents_distinct _ m h
example (m : AL.CallMeta.Meta) (h : AL.CallMeta.fromDocAst exCfg exActionDoc = some m) : MetaDistinct m :=
  fromDocAst_distinct _ _ m h
example : MetaDistinct exMeta := fromYaml_distinct exCfg exCallNode exMeta exMeta_yaml
example (m : AL.CallMeta.Meta) (h : AL.CallMeta.fromOn exCfg (mp 2 3 [sc "workflow_call" 2 3, exCallNode]) = .ok m) : MetaDistinct m :=
  fromOn_distinct _ _ m h
example : AL.CallMeta.fromOn exCfg (mp 2 3 [sc "workflow_call" 2 3, exCallNode]) = .ok exMeta := by rfl
example (m : AL.CallMeta.Meta) (h : AL.CallMeta.fromDoc exCfg exActionDoc = .ok m) : MetaDistinct m := fromDoc_distinct _ _ m h
example (res : List (String × AL.CallMeta.Input)) (h : AL.CallMeta.decInputs exCfg exCallNode = .ok res) : (res.map (·.1)).Nodup :=
  decInputs_nodup _ _ res h
example (res : List (String × AL.CallMeta.Secret)) (h : AL.CallMeta.decSecrets exCfg exCallNode = .ok res) : (res.map (·.1)).Nodup :=
  decSecrets_nodup _ _ res h
example (res : List (String × String)) (h : AL.CallMeta.decOutputs exCfg exCallNode = .ok res) : (res.map (·.1)).Nodup :=
  decOutputs_nodup _ _ res h
example (res : List (String × AL.CallMeta.Input)) (h : AL.CallMeta.decInputsLoop exCfg (pairs exCallNode.content) [] = .ok res) :
    (res.map (·.1)).Nodup := decInputsLoop_nodup _ _ [] res (by simp) h
example (res : List (String × AL.CallMeta.Secret)) (h : AL.CallMeta.decSecretsLoop exCfg (pairs exCallNode.content) [] = .ok res) :
    (res.map (·.1)).Nodup := decSecretsLoop_nodup _ _ [] res (by simp) h
example (res : List (String × String)) (h : AL.CallMeta.viaUnmarshaler (AL.CallMeta.decOutputs exCfg) exCallNode = .ok res) :
    (res.map (·.1)).Nodup := viaUnmarshaler_nodup _ (decOutputs_nodup exCfg) _ res h
example (st' : AL.CallMeta.Meta) (h : AL.CallMeta.setMeta exCfg {} "inputs" exCallNode = .ok st') : MetaDistinct st' :=
  setMeta_distinct _ _ _ _ st' ⟨by simp, by simp, by simp⟩ h
example (y : Nat) (h : (Except.ok 1 : AL.CallMeta.D Nat).map (· + 1) = .ok y) : ∃ a, (Except.ok 1 : AL.CallMeta.D Nat) = .ok a ∧ y = a + 1 :=
  map_ok h
example (st' : Nat) (h : AL.CallMeta.structDecode ["a"] (fun st _ _ => .ok (st + 2)) 0 exCallNode = .ok st') : st' % 2 = 0 :=
  structDecode_inv (fun n => n % 2 = 0) _ _ (fun st _ _ st' h0 h => by simp only [Except.ok.injEq] at h; omega) 0 rfl _ st' h
example (st' : Nat) (h : AL.CallMeta.structLoop ["a"] (fun st _ _ => .ok (st + 2)) (pairs exCallNode.content) [] 0 = .ok st') : st' % 2 = 0 :=
  structLoop_inv (fun n => n % 2 = 0) _ _ (fun st _ _ st' h0 h => by simp only [Except.ok.injEq] at h; omega) _ _ 0 st' rfl h

example : (exIns.map (·.1)).Nodup := exIns_obtained.distinct
example (res : List (String × String × Bool)) (h : AL.ActionDecode.decInputs exCfg exCallNode = .ok res) : (res.map (·.1)).Nodup :=
  action_decInputs_nodup _ _ res h
example (res : List (String × String)) (h : AL.ActionDecode.decOutputs exCfg exCallNode = .ok res) : (res.map (·.1)).Nodup :=
  action_decOutputs_nodup _ _ res h
example (res : List (String × String)) (h : AL.ActionDecode.decOutputsLoop exCfg (pairs exCallNode.content) [] = .ok res) :
    (res.map (·.1)).Nodup := decOutputsLoop_nodup _ _ [] res (by simp) h
example (d : AL.ActionDecode.Decoded) (h : AL.ActionDecode.fromDoc exCfg exActionDoc = .ok d) : DecodedDistinct d :=
  action_fromDoc_distinct _ _ d h
example (st' : AL.ActionDecode.Decoded) (h : AL.ActionDecode.setMeta exCfg {} "inputs" exCallNode = .ok st') : DecodedDistinct st' :=
  action_setMeta_distinct _ _ _ _ st' ⟨by simp, by simp⟩ h
example : (exCacheIns.map (·.1)).Nodup := popularEntry_distinct _ _ _ exCache
example : chunkOk AL.Gen.popular_0 := popularChunks_ok _ (by simp [AL.Gen.popularChunks])

example : Distinct (declsOfAction exIns) := distinct_declsOfAction exIns_obtained.distinct
example : Distinct (declsOfInputs exMeta.inputs) := distinct_declsOfInputs exMeta_obtained.distinct.1
example : Distinct (declsOfSecrets exMeta.secrets) := distinct_declsOfSecrets exMeta_obtained.distinct.2.2
/-- `with: { depth: 2 }` on the local action: `Token` is reported as missing -/
example : checkAction (declsOfAction exIns) ["depth"] = [.missingInput "Token"] := by decide
example : Diag.missingInput "Token" ∈ checkAction (declsOfAction exIns) ["depth"] :=
  (action_missing_exact exIns exIns_obtained ["depth"] "Token").2 ⟨("token", "Token", true), by simp [exIns], rfl, rfl, by decide⟩
example : Diag.missingInput "path" ∈ checkAction (declsOfAction exCacheIns) ["key"] :=
  (action_missing_exact exCacheIns exCache_obtained ["key"] "path").2 ⟨("path", "path", true), by simp [exCacheIns], rfl, rfl, by decide⟩
example : checkAction (declsOfAction exIns) ["depth"] = checkAction (declsOfAction exIns).reverse ["depth"] :=
  action_decl_order_irrelevant exIns exIns_obtained _ _ (List.reverse_perm _).symm
example : Diag.missingSecret "TOKEN" ∈ checkCall (declsOfInputs exMeta.inputs) (declsOfSecrets exMeta.secrets) ["tag"] [] false :=
  (call_missing_secret_exact exCfg exMeta exMeta_obtained ["tag"] [] "TOKEN").2 ⟨("token", ⟨"TOKEN", true⟩), by simp [exMeta], rfl, rfl, by simp⟩
example : Diag.missingInput "Tag" ∈ checkCall (declsOfInputs exMeta.inputs) (declsOfSecrets exMeta.secrets) [] [] true :=
  (call_missing_input_exact exCfg exMeta exMeta_obtained [] [] true "Tag").2 ⟨("tag", ⟨"Tag", true, .string⟩), by simp [exMeta], rfl, rfl, by simp⟩

/-- a job `uses: ./.github/workflows/w.yml` with `with: { env: x }`: `Tag` is reported as required -/
def exCall : WorkflowCall := { uses := some ⟨"./w.yml", false, ⟨9, 5⟩⟩, inputs := some [("env", ⟨⟨"env", false, ⟨10, 7⟩⟩, ⟨"x", false, ⟨10, 12⟩⟩⟩)] }
example : (⟨⟨9, 5⟩, "workflow-call", "input-required", ["Tag", "./w.yml"]⟩ : AL.Rules.Diag) ∈
    AL.ProjCall.checkLocal exMeta exCall ⟨"./w.yml", false, ⟨9, 5⟩⟩ :=
  (required_input_mem_iff exCfg exMeta exMeta_obtained exCall ⟨"./w.yml", false, ⟨9, 5⟩⟩ "Tag").2
    ⟨"tag", ⟨"Tag", true, .string⟩, by simp [exMeta], rfl, rfl, by decide⟩
example : (⟨⟨9, 5⟩, "workflow-call", "secret-required", ["TOKEN", "./w.yml"]⟩ : AL.Rules.Diag) ∈
    AL.ProjCall.checkLocal exMeta exCall ⟨"./w.yml", false, ⟨9, 5⟩⟩ :=
  (required_secret_mem_iff exCfg exMeta exMeta_obtained exCall ⟨"./w.yml", false, ⟨9, 5⟩⟩ "TOKEN" rfl).2
    ⟨"token", ⟨"TOKEN", true⟩, by simp [exMeta], rfl, rfl, by decide⟩
def exExec : ExecAction := { uses := some ⟨"./act", false, ⟨5, 9⟩⟩, inputs := some [("depth", ⟨⟨"depth", false, ⟨6, 11⟩⟩, ⟨"2", false, ⟨6, 18⟩⟩⟩)] }
example : ∃ d ∈ AL.ProjAction.inputDiags { inputs := exIns } "./act" exExec ⟨5, 9⟩, d.code = "local-input-missing" ∧ d.args.head? = some "Token" :=
  (local_action_missing_mem_iff { inputs := exIns } exIns_obtained "./act" exExec ⟨5, 9⟩ "Token").2 ⟨"token", by simp [exIns], by decide⟩
example : (⟨⟨5, 9⟩, "action", "input-missing", ["path", "actions/cache@v4"]⟩ : AL.Rules.Diag) ∈
    AL.Rules.checkActionInputs "actions/cache@v4" exCacheIns exExec ⟨5, 9⟩ :=
  missing_reported _ exCacheIns exCache_obtained exExec ⟨5, 9⟩ ("path", "path", true) (by simp [exCacheIns]) rfl (by decide)
example : (⟨⟨5, 9⟩, "action", "input-missing", ["key", "actions/cache@v4"]⟩ : AL.Rules.Diag) ∈
    AL.Rules.checkActionInputs "actions/cache@v4" exCacheIns exExec ⟨5, 9⟩ :=
  (action_inputs_missing_iff _ exCacheIns exCache_obtained exExec ⟨5, 9⟩ "key").2 ⟨("key", "key", true), by simp [exCacheIns], rfl, rfl, by decide⟩

/-! ### an observation (not a violation of C14): which of two entries with the same id wins

Both derivations give distinct ids, but for a called workflow that declares `Env` and `env` they pick DIFFERENT entries:
the parser keeps the first (`parseMapping` drops the repetition — and reports `key-duplicated` in the called file), the
`UnmarshalYAML` method keeps the last (`m[id] = …`). A caller that does not pass `env` is told "input Env is required" when
the called file was linted earlier in the same run (interface from the AST), and nothing when the interface is read from the
file. The agreement theorem AL.C10M.document_interface_agrees_checked excludes the case by `(parse cfg doc).2 = []`. -/

def exCalleeDoc : Node :=
  .mk .document "" "" false 1 1 [mp 1 1 [sc "on" 1 1, mp 2 3 [sc "workflow_call" 2 3, mp 3 5 [sc "inputs" 3 5,
      mp 4 7 [sc "Env" 4 7, mp 5 9 [sc "required" 5 9, bl "true" 5 19, sc "type" 5 25, sc "string" 5 31],
              sc "env" 6 7, mp 7 9 [sc "type" 7 9, sc "string" 7 15]]]],
    sc "jobs" 8 1, mp 9 3 [sc "j" 9 3, mp 10 5 [sc "runs-on" 10 5, sc "u" 10 14, sc "steps" 11 5,
      .mk .sequence "!!seq" "" false 12 5 [mp 12 7 [sc "run" 12 7, sc "x" 12 12]]]]]]

theorem same_id_twice_first_vs_last :
    AL.CallMeta.fromDoc exCfg exCalleeDoc = .ok { inputs := [("env", ⟨"env", false, .string⟩)] } ∧
    AL.CallMeta.fromDocAst exCfg exCalleeDoc = some { inputs := [("env", ⟨"Env", true, .string⟩)] } ∧
    (parse exCfg exCalleeDoc).2 =
      [⟨⟨6, 7⟩, "key-duplicated", ["env", "«inputs» section", "line:4,col:7", ". note that this key is case insensitive"]⟩] :=
  ⟨by rfl, by decide +kernel, by decide +kernel⟩

end Examples

end AL.C14W
