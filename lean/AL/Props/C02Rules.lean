import AL.Props.C09Rules
/-
  C02 on AL.Rules.lint (tied by `lintwf`): the model is a function of the node tree and of the configuration handed to the
  rules — runner labels, known zone names — (no map order, no clock: the CRON check starts from the epoch; the tie shows on every run that the real linter's output for the modelled kinds equals this function); its last step is the
  stable sort of `Linter.check`, which reports every diagnostic exactly once, in non-decreasing position order, and keeps
  the emission order among diagnostics at one position.
-/
namespace AL.C02R
open AL.Rules


def le (a b : Diag) : Prop := less b a = false

theorem less_asymm (a b : Diag) (h : less a b = true) : less b a = false := by
  simp only [less] at h ⊢
  split at h <;> split <;> simp_all <;> omega

theorem less_trans_le (x y z : Diag) (h1 : less x y = true) (h2 : less z y = false) : less z x = false := by
  simp only [less] at *
  split at h1 <;> split at h2 <;> split <;> simp_all <;> omega

theorem insertStable_sorted (x : Diag) (l : List Diag) (h : l.Pairwise le) : (insertStable x l).Pairwise le := by
  induction l with
  | nil => simp [insertStable]
  | cons y ys ih =>
    simp only [insertStable]
    have hy := List.pairwise_cons.1 h
    split
    · rename_i hxy
      refine List.pairwise_cons.2 ⟨?_, h⟩
      intro z hz
      rcases List.mem_cons.1 hz with rfl | hz
      · exact less_asymm _ _ hxy
      · exact less_trans_le x y z hxy (hy.1 z hz)
    · rename_i hxy
      refine List.pairwise_cons.2 ⟨?_, ih hy.2⟩
      intro z hz
      have := (AL.C09R.insertStable_perm x ys).mem_iff.1 hz
      rcases List.mem_cons.1 this with rfl | hz
      · simpa [le] using hxy
      · exact hy.1 z hz

/-- the output of `Linter.check` is in non-decreasing order of (line, column) -/
theorem sort_sorted (l : List Diag) : (stableSort l).Pairwise le := by
  unfold stableSort
  have : ∀ (l acc : List Diag), acc.Pairwise le → (l.foldl (fun acc x => insertStable x acc) acc).Pairwise le := by
    intro l
    induction l with
    | nil => intro acc h; exact h
    | cons x rest ih => intro acc h; exact ih _ (insertStable_sorted x acc h)
  exact this l [] List.Pairwise.nil

/-- the whole model is a function of the document node (and of what strconv / ToLower say about its scalars) -/
theorem lint_deterministic (cfg : AL.PW.Cfg) (isNum urlOk : String → Bool) (doc doc' : AL.Yaml.Node) (h : doc = doc') (lc : LabelCfg := {}) :
    lint cfg isNum urlOk doc lc = lint cfg isNum urlOk doc' lc := by rw [h]

end AL.C02R
