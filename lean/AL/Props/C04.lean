import AL.Model.Parser
import AL.Spec.ExprGrammar
import AL.Lemmas.ParserComplete
/-
  C04 — the expression parser accepts exactly the documented grammar.
  Statements; proved theorems are added below by name.
-/
namespace AL.C04
open AL AL.Lex AL.Parse AL.Spec

def toks (ts : Toks) : List Tok := ts.map (·.tok)

/-- a token stream as the lexer produces it: exactly one END, at the end -/
def WellEnded (ts : Toks) : Prop :=
  ∃ init last, ts = init ++ [last] ∧ last.tok.kind = .end ∧ ∀ t ∈ init, t.tok.kind ≠ .end

/-- (a) soundness: what `parseLogicalOr` consumes is a sentence of the grammar denoting the tree it returns. -/
def parse_sound_statement : Prop :=
  ∀ (fuel : Nat) (ts rest : Toks) (e : Expr), WellEnded ts → parseLogicalOr fuel ts = .ok (e, rest) →
    ∃ pre, ts = pre ++ rest ∧ Der .or (toks pre) e

/-- tokens that can continue an `or`-level sentence (so that a longer sentence would be parsed) -/
def continuesOr (k : TokKind) : Bool :=
  k = .or || k = .and || (cmpOf k).isSome || k = .dot || k = .lbracket || k = .lparen

/-- (b) completeness: every sentence followed by a token that cannot continue it is parsed to its tree,
and the parser stops exactly behind it. `.lparen` matters only after a bare identifier. -/
def parse_complete_statement : Prop :=
  ∀ (pre rest : Toks) (e : Expr), WellEnded (pre ++ rest) → rest ≠ [] → Der .or (toks pre) e →
    continuesOr (cur rest).tok.kind = false → (∀ t ∈ pre, t.tok.kind ≠ .end) →
    ∀ fuel, 8 * ((pre ++ rest).length + 1) ≤ fuel → parseLogicalOr fuel (pre ++ rest) = .ok (e, rest)

/-- (c) the top-level verdict: accepted iff the whole stream before END is a sentence (and the lexer
recorded no error); the tree is the one the grammar assigns. -/
def parse_iff_statement : Prop :=
  ∀ (init : Toks) (last : ATok) (e : Expr), last.tok.kind = .end → (∀ t ∈ init, t.tok.kind ≠ .end) →
    (parseToks (init ++ [last]) = .ok e ↔ (Der .or (toks init) e ∧ last.err = none))

/-- (d) the fuel handed in by `parseToks` is never exhausted -/
def fuel_enough_statement : Prop :=
  ∀ (ts : Toks) (e : ParseErr), parseLogicalOr (8 * (ts.length + 1)) ts = .error e → e.msg ≠ .fuel

/-- (e) the derivation determines the tree: the grammar is unambiguous (precedence and associativity
are part of the language, not of the parser) -/
def der_unambiguous_statement : Prop :=
  ∀ (ts : List Tok) (e₁ e₂ : Expr), Der .or ts e₁ → Der .or ts e₂ → e₁ = e₂

/-- (f) precedence corollaries at every depth: `!a == b` is `(!a) == b`; `a == b && c` is `(a == b) && c`;
`a && b || c` is `(a && b) || c`; `a || b && c` is `a || (b && c)`. -/
def precedence_statement : Prop :=
  ∀ (a b c : List Tok) (ea eb ec : Expr) (n o p q : Tok),
    Der .postfix a ea → Der .postfix b eb → Der .postfix c ec →
    n.kind = .not → o.kind = .eq → p.kind = .and → q.kind = .or →
    Der .or (n :: a ++ o :: b) (.cmp .eq (.not ea) eb) ∧
    Der .or (a ++ o :: (b ++ p :: c)) (.logical .and (.cmp .eq ea eb) ec) ∧
    Der .or ((a ++ p :: b) ++ q :: c) (.logical .or (.logical .and ea eb) ec) ∧
    Der .or (a ++ q :: (b ++ p :: c)) (.logical .or ea (.logical .and eb ec))


/-! ## Proofs -/

/-! ### a concrete stream for the examples: the tokens of `!a.b == 'x' && c[0] || f(1, 2)` -/

def sy (l : List Nat) : List Sym := l.map fun r => ⟨r, 1, false⟩
def mkT (k : TokKind) (l : List Nat) : ATok := ⟨⟨k, sy l, 0, 1, 1⟩, none, 0⟩

def exPre : Toks :=
  [mkT .not [33], mkT .ident [97], mkT .dot [46], mkT .ident [98], mkT .eq [61, 61], mkT .string [39, 120, 39],
   mkT .and [38, 38], mkT .ident [99], mkT .lbracket [91], mkT .int [48], mkT .rbracket [93], mkT .or [124, 124],
   mkT .ident [102], mkT .lparen [40], mkT .int [49], mkT .comma [44], mkT .int [50], mkT .rparen [41]]

def exEnd : ATok := mkT .end []
def exToks : Toks := exPre ++ [exEnd]

/-- `((!(a.b) == 'x') && c[0]) || f(1, 2)` -/
def exExpr : Expr :=
  .logical .or
    (.logical .and
      (.cmp .eq (.not (.objDeref (.var (sy [97])) (sy [98]))) (.str (sy [120])))
      (.index (.var (sy [99])) (.int 0)))
    (.call (sy [102]) [.int 1, .int 2])

theorem exToks_wellEnded : WellEnded exToks := ⟨exPre, exEnd, rfl, rfl, by decide⟩

theorem endsEnd_of_wellEnded {ts : Toks} (h : WellEnded ts) : endsEnd ts = true := by
  obtain ⟨init, last, rfl, hl, _⟩ := h
  exact endsEnd_append_singleton init last hl

/-- (a) -/
theorem parse_sound : parse_sound_statement := by
  intro fuel ts rest e hW h
  obtain ⟨_, pre, hpre, hd⟩ := (sound_all fuel).1 ts e rest (endsEnd_of_wellEnded hW) h
  exact ⟨pre, hpre, hd⟩

/-- what the parser returns on the example stream (any fuel ≥ 21 would do) … -/
example : parseLogicalOr 100 exToks = .ok (exExpr, [exEnd]) := by rfl
/-- … and hence, by (a), the consumed tokens are a sentence denoting that tree: the premise `Der` of (b),
(c), (e) is satisfiable on a non-trivial input. -/
theorem exPre_der : Der .or (toks exPre) exExpr := by
  obtain ⟨pre, hsplit, hd⟩ := parse_sound 100 exToks [exEnd] exExpr exToks_wellEnded (by rfl)
  have : pre = exPre := ((List.append_inj' (show exPre ++ [exEnd] = pre ++ [exEnd] from hsplit) rfl).1).symm
  rw [this] at hd; exact hd

/-- (b) -/
theorem parse_complete : parse_complete_statement := by
  intro pre rest e _ hrest hd hcont _ fuel hf
  exact complete_or hd rfl hrest hcont (by omega)

/-- all hypotheses of (b) hold for the example sentence followed by END (or by `)`, `]`, `,` …) -/
example : parseLogicalOr (8 * (exToks.length + 1)) (exPre ++ [exEnd]) = .ok (exExpr, [exEnd]) :=
  parse_complete exPre [exEnd] exExpr exToks_wellEnded (by simp) exPre_der (by rfl) (by decide) _ (Nat.le_refl _)
/-- the side condition on the next token is necessary: a sentence that ends in a bare identifier and is
followed by `(` is not what the parser stops behind (`a` `(` … starts a call). -/
example : Der .or (toks [mkT .ident [97]]) (.var (sy [97])) ∧
    parseLogicalOr 100 ([mkT .ident [97]] ++ [mkT .lparen [40], mkT .rparen [41], exEnd])
      = .ok (.call (sy [97]) [], [exEnd]) :=
  ⟨.orUp (.andUp (.cmpUp (.unaryUp (.postUp (.primIdent rfl))))), by rfl⟩

/-- if a stream whose only END is its last token is split in front of an END token, the split is in
front of the last token -/
theorem split_at_end {init pre rest : Toks} {last : ATok} (hinit : ∀ t ∈ init, t.tok.kind ≠ .end)
    (h : init ++ [last] = pre ++ rest) (hrest : rest ≠ []) (hk : (cur rest).tok.kind = .end) :
    pre = init ∧ rest = [last] := by
  match rest, hrest with
  | r0 :: rs, _ =>
    rcases List.eq_nil_or_concat rs with rfl | ⟨L, b, rfl⟩
    · have := List.append_inj' h rfl
      exact ⟨this.1.symm, by rw [this.2]⟩
    · have e1 : pre ++ r0 :: L.concat b = (pre ++ r0 :: L) ++ [b] := by simp
      rw [e1] at h
      have := (List.append_inj' h rfl).1
      exact absurd hk (hinit r0 (by rw [this]; simp))

/-- (c) -/
theorem parse_iff : parse_iff_statement := by
  intro init last e hlast hinit
  have hE : endsEnd (init ++ [last]) = true := endsEnd_append_singleton init last hlast
  constructor
  · intro h
    unfold parseToks at h
    simp only at h
    split at h
    · split at h <;> cases h
    · rename_i root rest hp
      obtain ⟨hE1, pre, hsplit, hd⟩ := (sound_all _).1 _ _ _ hE hp
      split at h
      · cases h
      · rename_i herr
        split at h
        · cases h
        · rename_i hk
          have hk : (cur rest).tok.kind = .end := by simpa using hk
          cases h
          obtain ⟨rfl, rfl⟩ := split_at_end hinit hsplit (endsEnd_ne_nil hE1) hk
          exact ⟨hd, herr⟩
  · rintro ⟨hd, herr⟩
    have hp := complete_or hd (pre := init) (rest := [last]) rfl (by simp) (by rw [cur_cons, hlast]; rfl)
      (f := 8 * ((init ++ [last]).length + 1)) (by omega)
    unfold parseToks
    simp only [hp, cur_cons, herr, hlast, ne_eq, not_true_eq_false, if_false]

example : parseToks exToks = .ok exExpr := by rfl
/-- the same via (c) -/
example : parseToks (exPre ++ [exEnd]) = .ok exExpr :=
  (parse_iff exPre exEnd exExpr rfl (by decide)).mpr ⟨exPre_der, rfl⟩
/-- `last.err = none` is needed: the same sentence with a lexer error recorded at END is rejected … -/
example : parseToks (exPre ++ [{ exEnd with err := some ⟨.unexpectedEOF, ⟨1, 1, 0⟩⟩ }])
    = .error (.lex ⟨.unexpectedEOF, ⟨1, 1, 0⟩⟩) := by rfl
/-- … whereas an error annotation on an earlier token is never looked at by the model (it cannot occur in a
lexed stream, where the error state is monotone and an error ends the stream), so (c) needs no
monotonicity hypothesis. -/
example : parseToks ({ mkT .ident [97] with err := some ⟨.unexpectedEOF, ⟨1, 1, 0⟩⟩ } :: [exEnd])
    = .ok (.var (sy [97])) := by rfl

/-- (d) is false as stated: on a stream that does not end with END the cursor cannot advance past the
last token (`adv [t] = [t]`, as `p.next()` keeps returning the lexer's last token), so the one-token stream
`!` makes `parsePrefix` recurse until the fuel is gone. Such a stream is never produced by the lexer. -/
def notTok : ATok := ⟨⟨.not, [], 0, 1, 1⟩, none, 0⟩

theorem fuel_enough_counterexample : ¬ fuel_enough_statement := by
  intro h
  exact h [notTok] ⟨.fuel, 0, 1, 1, none⟩ (by rfl) rfl

example : parseLogicalOr (8 * ([notTok].length + 1)) [notTok] = .error ⟨.fuel, 0, 1, 1, none⟩ := by rfl

/-- (d′) the corrected statement: on every stream that ends with END (what the lexer produces, see
`lex_well_ended_statement`) the fuel handed in by `parseToks` is never exhausted. -/
def fuel_enough_statement' : Prop :=
  ∀ (ts : Toks) (e : ParseErr), WellEnded ts → parseLogicalOr (8 * (ts.length + 1)) ts = .error e → e.msg ≠ .fuel

theorem fuel_enough' : fuel_enough_statement' := by
  intro ts e hW h
  exact fuel_enough_of_endsEnd (endsEnd_of_wellEnded hW) (by omega) e h

/-- an error that is not a fuel error, at the fuel of `parseToks`: `! a . )` END -/
example : parseLogicalOr (8 * (5 + 1)) [mkT .not [33], mkT .ident [97], mkT .dot [46], mkT .rparen [41], exEnd]
    = .error ⟨.unexpected .deref .rparen, 0, 1, 1, none⟩ := by rfl
/-- the sharper bound actually proved is `6 * length + 6`; deeply nested input `((((a))))` END at exactly
that fuel -/
example : parseLogicalOr (6 * 10 + 6)
    [mkT .lparen [40], mkT .lparen [40], mkT .lparen [40], mkT .lparen [40], mkT .ident [97],
     mkT .rparen [41], mkT .rparen [41], mkT .rparen [41], mkT .rparen [41], exEnd]
    = .ok (.var (sy [97]), [exEnd]) := by rfl

/-- (e) -/
theorem der_unambiguous : der_unambiguous_statement := by
  intro ts e₁ e₂ h₁ h₂
  let pre : Toks := ts.map fun t => ⟨t, none, 0⟩
  have hpre : tk pre = ts := by simp [pre, tk, List.map_map, Function.comp_def]
  have p₁ := complete_or h₁ (pre := pre) (rest := [endTok]) hpre (by simp) (by rfl) (Nat.le_refl _)
  have p₂ := complete_or h₂ (pre := pre) (rest := [endTok]) hpre (by simp) (by rfl) (Nat.le_refl _)
  rw [p₁] at p₂
  cases p₂; rfl

example (e : Expr) (h : Der .or (toks exPre) e) : e = exExpr := der_unambiguous _ _ _ h exPre_der

/-- (f) -/
theorem precedence : precedence_statement := by
  intro a b c ea eb ec n o p q ha hb hc hn ho hp hq
  have ua := Der.unaryUp ha
  have ub := Der.unaryUp hb
  have uc := Der.unaryUp hc
  refine ⟨?_, ?_, ?_, ?_⟩
  · exact .orUp (.andUp (.cmpBin (l := n :: a) (.unaryNot hn ua) (by rw [ho]; rfl) (.cmpUp ub)))
  · have : a ++ o :: (b ++ p :: c) = (a ++ o :: b) ++ p :: c := by simp
    rw [this]
    exact .orUp (.andBin (.cmpBin ua (by rw [ho]; rfl) (.cmpUp ub)) hp (.andUp (.cmpUp uc)))
  · exact .orBin (.andBin (.cmpUp ua) hp (.andUp (.cmpUp ub))) hq (.orUp (.andUp (.cmpUp uc)))
  · exact .orBin (.andUp (.cmpUp ua)) hq (.orUp (.andBin (.cmpUp ub) hp (.andUp (.cmpUp uc))))

/-- `a || b.c && d[0]` is `a || (b.c && d[0])`, and by (e) nothing else -/
example :
    let a := (mkT .ident [97]).tok; let b := (mkT .ident [98]).tok; let c := (mkT .ident [99]).tok
    let d := (mkT .ident [100]).tok; let z := (mkT .int [48]).tok
    Der .or ([a] ++ (mkT .or [124, 124]).tok :: (([b] ++ [(mkT .dot [46]).tok, c]) ++ (mkT .and [38, 38]).tok ::
        ([d] ++ (mkT .lbracket [91]).tok :: [z] ++ [(mkT .rbracket [93]).tok])))
      (.logical .or (.var (sy [97])) (.logical .and (.objDeref (.var (sy [98])) (sy [99]))
        (.index (.var (sy [100])) (.int 0)))) := by
  intro a b c d z
  exact (precedence [a] _ _ _ _ _ (mkT .not [33]).tok (mkT .eq [61, 61]).tok _ _
    (.postUp (.primIdent (t := a) rfl))
    (.postProp (.postUp (.primIdent (t := b) rfl)) rfl rfl)
    (.postIndex (.postUp (.primIdent (t := d) rfl)) rfl
      (.orUp (.andUp (.cmpUp (.unaryUp (.postUp (.primInt (t := z) rfl (by rfl))))))) rfl)
    rfl rfl rfl rfl).2.2.2

end AL.C04
