import AL.Model.Parser
import AL.Spec.ExprGrammar
/-
  C04 — the expression parser accepts exactly the documented grammar.
  Statements; proved theorems are added below by name.
-/
namespace AL.C04
open AL AL.Lex AL.Parse AL.Spec

def toks (ts : Toks) : List Tok := ts.map (·.tok)

/-- a token stream as the lexer produces it: exactly one END, at the end -/
def WellEnded (ts : Toks) : Prop :=
  ∃ init last, ts = init ++ [last] ∧ last.tok.kind = .end ∧ ∀ t ∈ init, t.tok.kind ≠ .end

/-- (a) soundness: what `parseLogicalOr` consumes is a sentence of the grammar denoting the tree it returns. -/
def parse_sound_statement : Prop :=
  ∀ (fuel : Nat) (ts rest : Toks) (e : Expr), WellEnded ts → parseLogicalOr fuel ts = .ok (e, rest) →
    ∃ pre, ts = pre ++ rest ∧ Der .or (toks pre) e

/-- tokens that can continue an `or`-level sentence (so that a longer sentence would be parsed) -/
def continuesOr (k : TokKind) : Bool :=
  k = .or || k = .and || (cmpOf k).isSome || k = .dot || k = .lbracket || k = .lparen

/-- (b) completeness: every sentence followed by a token that cannot continue it is parsed to its tree,
and the parser stops exactly behind it. `.lparen` matters only after a bare identifier. -/
def parse_complete_statement : Prop :=
  ∀ (pre rest : Toks) (e : Expr), WellEnded (pre ++ rest) → rest ≠ [] → Der .or (toks pre) e →
    continuesOr (cur rest).tok.kind = false → (∀ t ∈ pre, t.tok.kind ≠ .end) →
    ∀ fuel, 8 * ((pre ++ rest).length + 1) ≤ fuel → parseLogicalOr fuel (pre ++ rest) = .ok (e, rest)

/-- (c) the top-level verdict: accepted iff the whole stream before END is a sentence (and the lexer
recorded no error); the tree is the one the grammar assigns. -/
def parse_iff_statement : Prop :=
  ∀ (init : Toks) (last : ATok) (e : Expr), last.tok.kind = .end → (∀ t ∈ init, t.tok.kind ≠ .end) →
    (parseToks (init ++ [last]) = .ok e ↔ (Der .or (toks init) e ∧ last.err = none))

/-- (d) the fuel handed in by `parseToks` is never exhausted -/
def fuel_enough_statement : Prop :=
  ∀ (ts : Toks) (e : ParseErr), parseLogicalOr (8 * (ts.length + 1)) ts = .error e → e.msg ≠ .fuel

/-- (e) the derivation determines the tree: the grammar is unambiguous (precedence and associativity
are part of the language, not of the parser) -/
def der_unambiguous_statement : Prop :=
  ∀ (ts : List Tok) (e₁ e₂ : Expr), Der .or ts e₁ → Der .or ts e₂ → e₁ = e₂

/-- (f) precedence corollaries at every depth: `!a == b` is `(!a) == b`; `a == b && c` is `(a == b) && c`;
`a && b || c` is `(a && b) || c`; `a || b && c` is `a || (b && c)`. -/
def precedence_statement : Prop :=
  ∀ (a b c : List Tok) (ea eb ec : Expr) (n o p q : Tok),
    Der .postfix a ea → Der .postfix b eb → Der .postfix c ec →
    n.kind = .not → o.kind = .eq → p.kind = .and → q.kind = .or →
    Der .or (n :: a ++ o :: b) (.cmp .eq (.not ea) eb) ∧
    Der .or (a ++ o :: (b ++ p :: c)) (.logical .and (.cmp .eq ea eb) ec) ∧
    Der .or ((a ++ p :: b) ++ q :: c) (.logical .or (.logical .and ea eb) ec) ∧
    Der .or (a ++ q :: (b ++ p :: c)) (.logical .or ea (.logical .and eb ec))

end AL.C04
