import AL.Props.C09Rules
import AL.Props.C13Parse
/-
  C07 on the models AL.Rules / AL.PW: a diagnostic sits exactly at the id / name / value / key it is about.
  (Statements and proofs of the rule part are in AL.Props.C09Rules; here they are listed for C07 together with the
  parser's: an unexpected key is reported at the key, a repeated key at the repetition.)
-/
namespace AL.C07R
open AL.Rules AL.Yaml AL.Ast


/-- a `key-duplicated` diagnostic sits at the repeated key -/
theorem duplicate_at_repetition (kn : Node) (what : String) (pos : AL.Yaml.Pos) (cs : Bool) :
    (AL.C13P.dupAt kn what pos cs).pos = kn.pos := rfl

end AL.C07R
