import AL.Props.C09Rules
import AL.Props.C13Parse
/-
  C07 on the models AL.Rules / AL.PW: a diagnostic sits exactly at the id / name / value / key it is about.
  (Statements and proofs of the rule part are in AL.Props.C09Rules; here they are listed for C07 together with the
  parser's: an unexpected key is reported at the key, a repeated key at the repetition.)
-/
namespace AL.C07R
open AL.Rules AL.Yaml AL.Ast


/-- a `key-duplicated` diagnostic sits at the repeated key -/
theorem duplicate_at_repetition (kn : Node) (what : String) (pos : AL.Yaml.Pos) (cs : Bool) :
    (AL.C13P.dupAt kn what pos cs).pos = kn.pos := rfl

end AL.C07R

namespace AL.C07M
open AL.Rules AL.Yaml AL.Ast

/-- shell-name: at the `shell:` value -/
theorem checkShellName_pos (lower : String → String) (pf : Platform) (node : Option Str) :
    ∀ d ∈ checkShellName lower pf node, ∃ n, node = some n ∧ d.pos = n.pos := by
  intro d h
  simp only [checkShellName] at h
  split at h
  · cases h
  · rename_i n
    split at h
    · cases h
    · split at h
      · cases h
      · split at h
        · cases h
        · simp only [List.mem_singleton] at h; subst h; exact ⟨n, rfl, rfl⟩

/-- runner-label, unknown label: at the label (also when it comes out of a matrix row: at the row's value) -/
theorem knownLoop_pos (lc : LabelCfg) (label : Str) : ∀ (ks : List String) (ds : List Diag),
    knownLoop lc label ks = some ds → ∀ d ∈ ds, d.pos = label.pos := by
  intro ks
  induction ks with
  | nil => intro ds h; simp [knownLoop] at h
  | cons k rest ih =>
    intro ds h d hd
    simp only [knownLoop] at h
    split at h
    · simp only [Option.some.injEq] at h; subst h
      simp only [List.mem_singleton] at hd; subst hd; rfl
    · simp only [Option.some.injEq] at h; subst h; cases hd
    · exact ih ds h d hd

/-- also with the labels of a configuration file (a malformed pattern is reported at the label it was tried on) -/
theorem verifyRunnerLabel_pos (lower : String → String) (label : Str) (lc : LabelCfg := {}) :
    ∀ d ∈ (verifyRunnerLabel lower label lc).2, d.pos = label.pos := by
  intro d h
  simp only [verifyRunnerLabel] at h
  split at h
  · cases h
  · split at h
    · cases h
    · split at h
      · rename_i ds hk
        exact knownLoop_pos lc label _ ds hk d h
      · simp only [List.mem_singleton] at h; subst h; rfl

/-- runner-label, conflict: at the later label, naming the earlier one and its position -/
theorem conflictDiag_pos (label found : Str) : (conflictDiag label found).pos = label.pos ∧
    (conflictDiag label found).args = [label.value, found.value, AL.PW.posString found.pos] := ⟨rfl, rfl⟩

/-- action: at `uses:` or at the name of the offending input -/
theorem checkActionInputs_pos (spec : String) (declared : List (String × String × Bool)) (e : ExecAction) (usesPos : AL.Rules.Pos) :
    ∀ d ∈ checkActionInputs spec declared e usesPos, d.pos = usesPos ∨ ∃ kv ∈ e.inputs.getD [], d.pos = kv.2.name.pos := by
  intro d h
  simp only [checkActionInputs, List.mem_append, List.mem_flatMap] at h
  rcases h with ⟨kv, hk, hd⟩ | ⟨id, _, hd⟩
  · split at hd
    · cases hd
    · simp only [List.mem_singleton] at hd; subst hd; exact Or.inr ⟨kv, hk, rfl⟩
  · split at hd
    · split at hd
      · cases hd
      · simp only [List.mem_singleton] at hd; subst hd; exact Or.inl rfl
    · cases hd

/-- workflow-call: at the `uses:` value -/
theorem workflowCallJob_pos (j : Job) :
    ∀ d ∈ workflowCallJob j, ∃ c u, j.workflowCall = some c ∧ c.uses = some u ∧ d.pos = u.pos := by
  intro d h
  simp only [workflowCallJob] at h
  split at h
  · cases h
  · rename_i c hc
    split at h
    · cases h
    · rename_i u hu
      split at h
      · cases h
      · split at h
        · cases h
        · split at h
          · cases h
          · simp only [List.mem_singleton] at h; subst h; exact ⟨c, u, hc, hu, rfl⟩

/-- deprecated-commands: at the `run:` value -/
theorem deprecated_pos (w : Workflow) : ∀ d ∈ ruleDeprecatedCommands w,
    ∃ j ∈ jobsOf w, ∃ st ∈ AL.Rules.stepsOf j, ∃ e r, st.exec = .run e ∧ e.run = some r ∧ d.pos = r.pos := by
  intro d h
  simp only [ruleDeprecatedCommands, List.mem_flatMap] at h
  obtain ⟨j, hj, st, hst, hd⟩ := h
  split at hd
  · rename_i e he
    split at hd
    · rename_i r hr
      simp only [List.mem_map] at hd
      obtain ⟨_, _, rfl⟩ := hd
      exact ⟨j, hj, st, hst, e, r, he, hr, rfl⟩
    · cases hd
  · cases hd

end AL.C07M
