import AL.Model.Print
import AL.Props.C16
import AL.Props.C16Indicator
import AL.Props.C16Messages
/-
  C16 — the default and -oneline output AS A WHOLE (model AL.Print of `Error.PrettyPrint` without colours and of
  `Linter.printErrors`): one header line per diagnostic, in order, nothing lost, nothing added; the block structure of the
  default mode; the snippet is the referenced source line with the caret under the reported column; rendering is total; the
  problem matcher applied to the header lines of the output gives the diagnostics back.

  Main results (namespace AL.C16P; `sw`, `rw` = go-runewidth's StringWidth / RuneWidth, parameters as in AL.Render.indicator):
    (a) oneline_lines, oneline_lines_escaped, oneline_count, oneline_line, oneline_text; oneline_raw_linefeed (hypothesis needed)
    (b) block_shape, block_length, default_blocks, default_headers, default_count, blocksOf_flatten, default_headers_filter;
        gutterRow_not_matched, indicatorRow_not_matched, rows_start; snippetRow_can_match (a source row CAN be matched),
        default_all_lines (pattern on every line = diagnostics + phantoms), default_all_lines_clean
    (c) prettyPrint_snippet, snippet_faithful, caret_under_column, caret_under_column_ascii, indicatorRow_col_zero
    (d) prettyPrint_total, snippet_omitted_iff, getLine_none_iff, no_source, line_zero, line_beyond, col_beyond, shown_in_range
    (e) oneline_roundtrip, oneline_roundtrip_filterMap, default_roundtrip
    multi-file runs: printWorkspaces_eq_printAll, printWorkspaces_exists_srcOf, workspaces_oneline_lines, workspaces_default_headers

  NOTE (differs from the informal description "header + zero or two further lines"): `PrettyPrint` writes THREE lines under the
  header of a diagnostic with a snippet — an empty gutter line `   |`, then `N | <source line>`, then `   | <indicator>`.
-/
namespace AL.C16P
open AL.Render AL.Print

/-! ### the source line as text -/

theorem decodeUtf8_nil : AL.decodeUtf8 [] = [] := by
  rw [AL.decodeUtf8]; simp [AL.decodeOne]

theorem decodeUtf8_step {bs : List Nat} {s : AL.Sym} {rest : List Nat} (h : AL.decodeOne bs = some (s, rest)) :
    AL.decodeUtf8 bs = s :: AL.decodeUtf8 rest := by
  rw [AL.decodeUtf8]
  split
  · rename_i h'; rw [h] at h'; cases h'
  · rename_i s' rest' h'
    rw [h] at h'
    simp only [Option.some.injEq, Prod.mk.injEq] at h'
    obtain ⟨rfl, rfl⟩ := h'
    rfl

theorem decodeOne_inv {bs : List Nat} {s : AL.Sym} {rest : List Nat} (h : AL.decodeOne bs = some (s, rest)) :
    (∀ x ∈ rest, x ∈ bs) ∧ (s.r = 10 → 10 ∈ bs) := by
  unfold AL.decodeOne at h
  split at h
  · simp at h
  · rename_i b0 r0
    simp only at h
    repeat' split at h
    all_goals (simp only [Option.some.injEq, Prod.mk.injEq] at h; obtain ⟨rfl, rfl⟩ := h)
    all_goals (refine ⟨fun x hx => by simp_all, fun h10 => ?_⟩)
    all_goals (dsimp only at h10; try simp only [Bool.and_eq_true, decide_eq_true_eq, AL.isCont] at *)
    all_goals first | (exfalso; omega) | (subst h10; exact List.mem_cons_self)

theorem toNat_ofNat (r : Nat) : (Char.ofNat r).toNat = r ∨ (Char.ofNat r).toNat = 0 := by
  generalize hc : Char.ofNat r = c
  unfold Char.ofNat at hc
  split at hc
  · left; subst hc
    simp [Char.ofNatAux, Char.toNat]
  · right; subst hc; rfl

theorem ofNat_eq_lf {r : Nat} (h : Char.ofNat r = '\n') : r = 10 := by
  have h1 : (Char.ofNat r).toNat = 10 := by rw [h]; rfl
  rcases toNat_ofNat r with h2 | h2 <;> omega

theorem decodeUtf8_no_lf : ∀ (n : Nat) (bs : List Nat), bs.length ≤ n → 10 ∉ bs → ∀ s ∈ AL.decodeUtf8 bs, s.r ≠ 10
  | 0, bs, hn, _, s, hs => by
    have : bs = [] := List.length_eq_zero_iff.mp (by omega)
    subst this; rw [decodeUtf8_nil] at hs; simp at hs
  | n + 1, bs, hn, h10, s, hs => by
    cases hd : AL.decodeOne bs with
    | none =>
      have : AL.decodeUtf8 bs = [] := by
        rw [AL.decodeUtf8]; split
        · rfl
        · rename_i h'; rw [hd] at h'; cases h'
      rw [this] at hs; simp at hs
    | some p =>
      obtain ⟨s0, rest⟩ := p
      rw [decodeUtf8_step hd] at hs
      have hinv := decodeOne_inv hd
      have hlen := AL.decodeOne_shorter hd
      simp only [List.mem_cons] at hs
      rcases hs with rfl | hs
      · exact fun h => h10 (hinv.2 h)
      · exact decodeUtf8_no_lf n rest (by omega) (fun h => h10 (hinv.1 _ h)) s hs

/-- a source line without a line feed byte is shown as text without a line feed -/
theorem text_no_lf {l : List Nat} (h : 10 ∉ l) : '\n' ∉ text l := by
  intro hm
  simp only [text, List.mem_map] at hm
  obtain ⟨s, hs, he⟩ := hm
  exact decodeUtf8_no_lf l.length l (Nat.le_refl _) h s hs (ofNat_eq_lf he)
/-! ### `lines` -/

theorem linesAux_line : ∀ (l cur rest : List Char), '\n' ∉ l →
    linesAux cur (l ++ '\n' :: rest) = (cur ++ l) :: linesAux [] rest
  | [], cur, rest, _ => by simp [linesAux]
  | c :: l, cur, rest, h => by
    have hc : c ≠ '\n' := fun e => h (by simp [e])
    have hl : '\n' ∉ l := fun e => h (List.mem_cons_of_mem _ e)
    simp only [List.cons_append, linesAux, hc, if_false]
    rw [linesAux_line l (cur ++ [c]) rest hl]
    simp

/-- a piece of text without a line feed, followed by a line feed, is one line -/
theorem lines_line (l rest : List Char) (h : '\n' ∉ l) : lines (l ++ '\n' :: rest) = l :: lines rest := by
  unfold lines; rw [linesAux_line l [] rest h]; rfl

theorem lines_nil : lines [] = [] := rfl

/-- `unlines`: every line followed by a line feed -/
def unlines (ls : List (List Char)) : List Char := ls.flatMap (· ++ ['\n'])

theorem unlines_cons (l : List Char) (ls : List (List Char)) : unlines (l :: ls) = l ++ '\n' :: unlines ls := by
  simp [unlines]

theorem unlines_append (a b : List (List Char)) : unlines (a ++ b) = unlines a ++ unlines b := by
  simp [unlines]

/-- reading back what was written line by line gives the lines — when no line contains a line feed -/
theorem lines_unlines : ∀ (ls : List (List Char)), (∀ l ∈ ls, '\n' ∉ l) → lines (unlines ls) = ls
  | [], _ => rfl
  | l :: ls, h => by
    rw [unlines_cons, lines_line _ _ (h l (by simp)), lines_unlines ls (fun x hx => h x (by simp [hx]))]

/-- and the condition is necessary: a line feed inside a "line" makes two lines of it -/
theorem lines_unlines_lf (a b : List Char) (ha : '\n' ∉ a) (hb : '\n' ∉ b) :
    lines (unlines [a ++ '\n' :: b]) = [a, b] := by
  rw [unlines_cons, List.append_assoc, List.cons_append, lines_line _ _ ha, lines_line _ _ hb]; rfl

/-! ### the rows of a block -/

/-- what one diagnostic contributes, as a list of lines -/
def blockLines (oneline : Bool) (sw : List Nat → Nat) (rw : Nat → Nat) (src : List Nat) (d : Diag) : List (List Char) :=
  header d ::
    match snippetLine (if oneline then [] else src) d.line d.col with
    | none => []
    | some l => [gutterRow d.line, snippetRow d.line l, indicatorRow sw rw d.line l d.col]

theorem prettyPrint_eq_unlines (oneline : Bool) (sw : List Nat → Nat) (rw : Nat → Nat) (src : List Nat) (d : Diag) :
    prettyPrint oneline sw rw src d = unlines (blockLines oneline sw rw src d) := by
  unfold prettyPrint ppError blockLines
  cases snippetLine (if oneline then [] else src) d.line d.col <;> simp [unlines]

theorem snippetLine_nil (line col : Nat) : snippetLine [] line col = none := by simp [snippetLine]

theorem natChars_no_lf (n : Nat) : '\n' ∉ natChars n := AL.C16M.natChars_no_linebreak n '\n' (Or.inl rfl)

theorem indent_no_lf (n : Nat) : '\n' ∉ indent n := by
  intro h; have := List.eq_of_mem_replicate h; revert this; decide

theorem gutterRow_no_lf (n : Nat) : '\n' ∉ gutterRow n := by
  have h1 := indent_no_lf n
  have c1 : '\n' ≠ '|' := by decide
  simp [gutterRow, h1, c1]

theorem snippetLine_mem {src : List Nat} {line col : Nat} {l : List Nat} (h : snippetLine src line col = some l) :
    l ∈ splitLines src := by
  have := AL.C16.snippet src line col
  rw [h] at this
  exact List.mem_of_getElem? this.2.1

theorem snippetRow_no_lf {src : List Nat} {line col : Nat} {l : List Nat} (h : snippetLine src line col = some l) :
    '\n' ∉ snippetRow line l := by
  have h1 := natChars_no_lf line
  have h2 := text_no_lf ((AL.C16.split_lines src).1 l (snippetLine_mem h))
  have c1 : '\n' ≠ '|' := by decide
  have c2 : '\n' ≠ ' ' := by decide
  simp [snippetRow, lnum, h1, h2, c1, c2]

theorem indicator_no_lf (sw : List Nat → Nat) (rw : Nat → Nat) (l : List Nat) (col : Nat) : '\n' ∉ indicator sw rw l col := by
  unfold indicator
  split
  · simp
  · intro h
    simp only [List.mem_append, List.mem_replicate, List.mem_cons, List.not_mem_nil, or_false] at h
    rcases h with (h | h) | h
    · have := h.2; revert this; decide
    · revert h; decide
    · have := h.2; revert this; decide

theorem indicatorRow_no_lf (sw : List Nat → Nat) (rw : Nat → Nat) (line : Nat) (l : List Nat) (col : Nat) :
    '\n' ∉ indicatorRow sw rw line l col := by
  have h1 := indent_no_lf line
  have h2 := indicator_no_lf sw rw l col
  have c1 : '\n' ≠ '|' := by decide
  have c2 : '\n' ≠ ' ' := by decide
  simp [indicatorRow, h1, h2, c1, c2]

theorem blockLines_no_lf (oneline : Bool) (sw : List Nat → Nat) (rw : Nat → Nat) (src : List Nat) (d : Diag)
    (hd : '\n' ∉ header d) : ∀ l ∈ blockLines oneline sw rw src d, '\n' ∉ l := by
  intro l hl
  unfold blockLines at hl
  cases hs : snippetLine (if oneline then [] else src) d.line d.col with
  | none => rw [hs] at hl; simp only [List.mem_singleton] at hl; subst hl; exact hd
  | some sl =>
    rw [hs] at hl
    simp only [List.mem_cons, List.not_mem_nil, or_false] at hl
    rcases hl with rfl | rfl | rfl | rfl
    · exact hd
    · exact gutterRow_no_lf _
    · exact snippetRow_no_lf hs
    · exact indicatorRow_no_lf _ _ _ _ _

/-! ### the whole output as lines -/

/-- the lines of a run: the blocks of the diagnostics one after the other -/
def allLines (oneline : Bool) (sw : List Nat → Nat) (rw : Nat → Nat) (srcOf : List Char → List Nat) (ds : List Diag) :
    List (List Char) :=
  ds.flatMap fun d => blockLines oneline sw rw (srcOf d.file) d

theorem printAll_eq_unlines (oneline : Bool) (sw : List Nat → Nat) (rw : Nat → Nat) (srcOf : List Char → List Nat) :
    ∀ ds : List Diag, printAll oneline sw rw srcOf ds = unlines (allLines oneline sw rw srcOf ds)
  | [] => rfl
  | d :: ds => by
    have ih := printAll_eq_unlines oneline sw rw srcOf ds
    unfold printAll allLines at ih ⊢
    simp only [List.flatMap_cons]
    rw [unlines_append, ih, prettyPrint_eq_unlines]

/-- the header contains a line feed only if the file name, the message or the kind does -/
theorem header_no_lf_iff (d : Diag) : '\n' ∉ header d ↔ '\n' ∉ d.file ∧ '\n' ∉ d.msg ∧ '\n' ∉ d.kind := by
  have n1 := natChars_no_lf d.line
  have n2 := natChars_no_lf d.col
  have c1 : '\n' ≠ ':' := by decide
  have c2 : '\n' ≠ ' ' := by decide
  have c3 : '\n' ≠ '[' := by decide
  have c4 : '\n' ≠ ']' := by decide
  simp [header, n1, n2, c1, c2, c3, c4]

/-- the condition of the task: the message went through `lineBreakEscaper` (as every real message does: C16Messages),
file name and kind contain no line feed -/
structure Escaped (d : Diag) : Prop where
  msg : ∃ m, d.msg = AL.Msg.escape m
  file : '\n' ∉ d.file
  kind : '\n' ∉ d.kind

theorem Escaped.header_no_lf {d : Diag} (h : Escaped d) : '\n' ∉ header d := by
  rw [header_no_lf_iff]
  obtain ⟨m, hm⟩ := h.msg
  exact ⟨h.file, by rw [hm]; exact (AL.C16M.escape_no_linebreak m).1, h.kind⟩

/-- the lines of the output are the lines of the blocks: nothing is merged, nothing is split -/
theorem lines_printAll (oneline : Bool) (sw : List Nat → Nat) (rw : Nat → Nat) (srcOf : List Char → List Nat) (ds : List Diag)
    (h : ∀ d ∈ ds, '\n' ∉ header d) :
    lines (printAll oneline sw rw srcOf ds) = allLines oneline sw rw srcOf ds := by
  rw [printAll_eq_unlines]
  apply lines_unlines
  intro l hl
  simp only [allLines, List.mem_flatMap] at hl
  obtain ⟨d, hd, hl⟩ := hl
  exact blockLines_no_lf oneline sw rw _ d (h d hd) l hl

/-! ### (a) -oneline -/

theorem blockLines_oneline (sw : List Nat → Nat) (rw : Nat → Nat) (src : List Nat) (d : Diag) :
    blockLines true sw rw src d = [header d] := by
  simp [blockLines, snippetLine_nil]

theorem allLines_oneline (sw : List Nat → Nat) (rw : Nat → Nat) (srcOf : List Char → List Nat) :
    ∀ ds : List Diag, allLines true sw rw srcOf ds = ds.map header
  | [] => rfl
  | d :: ds => by
    have ih := allLines_oneline sw rw srcOf ds
    unfold allLines at ih ⊢
    rw [List.flatMap_cons, ih, blockLines_oneline]; rfl

/-- **(a)** -oneline: the lines of the output are exactly the headers of the diagnostics, in order — nothing lost, nothing
added. Weakest hypothesis: no header contains a line feed. -/
theorem oneline_lines (sw : List Nat → Nat) (rw : Nat → Nat) (srcOf : List Char → List Nat) (ds : List Diag)
    (h : ∀ d ∈ ds, '\n' ∉ header d) :
    lines (printAll true sw rw srcOf ds) = ds.map header := by
  rw [lines_printAll true sw rw srcOf ds h, allLines_oneline]

/-- (a) for escaped messages -/
theorem oneline_lines_escaped (sw : List Nat → Nat) (rw : Nat → Nat) (srcOf : List Char → List Nat) (ds : List Diag)
    (h : ∀ d ∈ ds, Escaped d) :
    lines (printAll true sw rw srcOf ds) = ds.map header :=
  oneline_lines sw rw srcOf ds fun d hd => (h d hd).header_no_lf

/-- (a) as many lines as diagnostics -/
theorem oneline_count (sw : List Nat → Nat) (rw : Nat → Nat) (srcOf : List Char → List Nat) (ds : List Diag)
    (h : ∀ d ∈ ds, Escaped d) :
    (lines (printAll true sw rw srcOf ds)).length = ds.length := by
  rw [oneline_lines_escaped sw rw srcOf ds h, List.length_map]

/-- (a) line `i` is the header of diagnostic `i` -/
theorem oneline_line (sw : List Nat → Nat) (rw : Nat → Nat) (srcOf : List Char → List Nat) (ds : List Diag)
    (h : ∀ d ∈ ds, Escaped d) (i : Nat) :
    (lines (printAll true sw rw srcOf ds))[i]? = ds[i]?.map header := by
  rw [oneline_lines_escaped sw rw srcOf ds h, List.getElem?_map]

/-- (a) the text itself: every header followed by one line feed, nothing else (no hypothesis) -/
theorem oneline_text (sw : List Nat → Nat) (rw : Nat → Nat) (srcOf : List Char → List Nat) (ds : List Diag) :
    printAll true sw rw srcOf ds = unlines (ds.map header) := by
  rw [printAll_eq_unlines, allLines_oneline]

/-- (a) the hypothesis is needed: ONE diagnostic whose message contains a raw line feed is read back as TWO lines,
neither of which is its header -/
theorem oneline_raw_linefeed (sw : List Nat → Nat) (rw : Nat → Nat) (srcOf : List Char → List Nat) :
    lines (printAll true sw rw srcOf [⟨['f'], 1, 1, ['a', '\n', 'b'], ['k']⟩]) = ["f:1:1: a".toList, "b [k]".toList] := by
  rw [oneline_text]
  decide

/-! ### (b) default mode: blocks -/

/-- a block is the header alone, or the header and exactly three rows: gutter, source line, indicator
(the rows exist only in default mode and only when the snippet guard of `PrettyPrint` lets them through) -/
theorem block_shape (oneline : Bool) (sw : List Nat → Nat) (rw : Nat → Nat) (src : List Nat) (d : Diag) :
    (blockLines oneline sw rw src d = [header d] ∧ (oneline = true ∨ snippetLine src d.line d.col = none)) ∨
    (∃ l, oneline = false ∧ snippetLine src d.line d.col = some l ∧
      blockLines oneline sw rw src d = [header d, gutterRow d.line, snippetRow d.line l, indicatorRow sw rw d.line l d.col]) := by
  cases oneline with
  | true => exact Or.inl ⟨blockLines_oneline sw rw src d, Or.inl rfl⟩
  | false =>
    cases hs : snippetLine src d.line d.col with
    | none => exact Or.inl ⟨by simp [blockLines, hs], Or.inr rfl⟩
    | some l => exact Or.inr ⟨l, rfl, rfl, by simp [blockLines, hs]⟩

/-- a block has ONE line or FOUR — never three: the informal "header plus snippet and indicator" forgets the empty gutter line
`   |` that `PrettyPrint` writes first (`gray.Fprintf(w, "%s|\n", indent)`) -/
theorem block_length (oneline : Bool) (sw : List Nat → Nat) (rw : Nat → Nat) (src : List Nat) (d : Diag) :
    (blockLines oneline sw rw src d).length = 1 ∨ (blockLines oneline sw rw src d).length = 4 := by
  rcases block_shape oneline sw rw src d with ⟨hb, _⟩ | ⟨l, _, _, hb⟩ <;> rw [hb] <;> simp

theorem blockLines_ne_nil (oneline : Bool) (sw : List Nat → Nat) (rw : Nat → Nat) (src : List Nat) (d : Diag) :
    ∃ t, blockLines oneline sw rw src d = header d :: t := ⟨_, rfl⟩

theorem lnum_length (n : Nat) : (lnum n).length = (natChars n).length + 3 := by simp [lnum]

theorem indent_length (n : Nat) : (indent n).length = (natChars n).length + 1 := by
  simp [indent, lnum]

theorem isGutter_gutterRow (n : Nat) : isGutter (gutterRow n) = true := by
  simp [isGutter, gutterRow, indent]

theorem colon_mem_header (d : Diag) : ':' ∈ header d := by simp [header]

theorem isGutter_no_colon {l : List Char} (h : isGutter l = true) : ':' ∉ l := by
  simp only [isGutter, beq_iff_eq] at h
  rw [h]
  intro hm
  simp only [List.mem_append, List.mem_replicate, List.mem_cons, List.not_mem_nil, or_false] at hm
  rcases hm with hm | hm
  · have := hm.2; revert this; decide
  · revert hm; decide

/-- a header is never a gutter line: it contains `:` -/
theorem isGutter_header (d : Diag) : isGutter (header d) = false := by
  cases h : isGutter (header d) with
  | false => rfl
  | true => exact absurd (colon_mem_header d) (isGutter_no_colon h)

theorem allLines_cons (oneline : Bool) (sw : List Nat → Nat) (rw : Nat → Nat) (srcOf : List Char → List Nat) (d : Diag)
    (ds : List Diag) :
    allLines oneline sw rw srcOf (d :: ds) = blockLines oneline sw rw (srcOf d.file) d ++ allLines oneline sw rw srcOf ds := by
  simp [allLines]

theorem allLines_head (oneline : Bool) (sw : List Nat → Nat) (rw : Nat → Nat) (srcOf : List Char → List Nat) (ds : List Diag) :
    allLines oneline sw rw srcOf ds = [] ∨ ∃ d t, allLines oneline sw rw srcOf ds = header d :: t := by
  cases ds with
  | nil => exact Or.inl rfl
  | cons d ds => exact Or.inr ⟨d, _, by rw [allLines_cons]; rfl⟩

/-- the reader `blocksOf` cuts the lines of a run into the blocks of its diagnostics -/
theorem blocksOf_allLines (oneline : Bool) (sw : List Nat → Nat) (rw : Nat → Nat) (srcOf : List Char → List Nat) :
    ∀ ds : List Diag, blocksOf (allLines oneline sw rw srcOf ds) = ds.map fun d => blockLines oneline sw rw (srcOf d.file) d
  | [] => by simp [allLines, blocksOf]
  | d :: ds => by
    have ih := blocksOf_allLines oneline sw rw srcOf ds
    rw [allLines_cons, List.map_cons]
    rcases block_shape oneline sw rw (srcOf d.file) d with ⟨hb, _⟩ | ⟨l, _, _, hb⟩
    · rw [hb]
      rcases allLines_head oneline sw rw srcOf ds with hn | ⟨d', t, ht⟩
      · rw [hn] at ih ⊢
        cases ds with
        | nil => simp [blocksOf]
        | cons d2 ds2 => rw [allLines_cons] at hn; simp [blockLines] at hn
      · rw [ht] at ih ⊢
        simp only [List.cons_append, List.nil_append]
        rw [blocksOf, isGutter_header]
        simp only [Bool.false_eq_true, if_false]
        rw [ih]
    · rw [hb]
      simp only [List.cons_append, List.nil_append]
      rw [blocksOf, isGutter_gutterRow]
      simp only [if_true, List.take_succ_cons, List.take_zero, List.drop_succ_cons, List.drop_zero]
      rw [ih]

/-- the reader `headersOf` finds the header of every block -/
theorem headersOf_allLines (oneline : Bool) (sw : List Nat → Nat) (rw : Nat → Nat) (srcOf : List Char → List Nat) :
    ∀ ds : List Diag, headersOf (allLines oneline sw rw srcOf ds) = ds.map header
  | [] => by simp [allLines, headersOf]
  | d :: ds => by
    have ih := headersOf_allLines oneline sw rw srcOf ds
    rw [allLines_cons, List.map_cons]
    rcases block_shape oneline sw rw (srcOf d.file) d with ⟨hb, _⟩ | ⟨l, _, _, hb⟩
    · rw [hb]
      rcases allLines_head oneline sw rw srcOf ds with hn | ⟨d', t, ht⟩
      · rw [hn] at ih ⊢
        cases ds with
        | nil => simp [headersOf]
        | cons d2 ds2 => rw [allLines_cons] at hn; simp [blockLines] at hn
      · rw [ht] at ih ⊢
        simp only [List.cons_append, List.nil_append]
        rw [headersOf, isGutter_header]
        simp only [Bool.false_eq_true, if_false]
        rw [ih]
    · rw [hb]
      simp only [List.cons_append, List.nil_append]
      rw [headersOf, isGutter_gutterRow]
      simp only [if_true, List.drop_succ_cons, List.drop_zero]
      rw [ih]

/-- the reader loses nothing, whatever it is given: its blocks joined are the lines it read -/
theorem blocksOf_flatten : ∀ (n : Nat) (L : List (List Char)), L.length ≤ n → (blocksOf L).flatten = L
  | _, [], _ => by simp [blocksOf]
  | _, [h], _ => by simp [blocksOf]
  | 0, _ :: _ :: _, hn => by simp at hn
  | n + 1, h :: g :: rest, hn => by
    rw [blocksOf]
    split
    · simp only [List.flatten_cons, List.cons_append]
      rw [blocksOf_flatten n (rest.drop 2) (by simp only [List.length_drop, List.length_cons] at hn ⊢; omega)]
      simp
    · simp only [List.flatten_cons, List.cons_append, List.nil_append]
      rw [blocksOf_flatten n (g :: rest) (by simp only [List.length_cons] at hn ⊢; omega)]

/-- **(b)** default mode: the output, read line by line, splits into one block per diagnostic, in order; the reader needs
nothing but the text (a gutter line `   |` after a header announces two more rows) -/
theorem default_blocks (sw : List Nat → Nat) (rw : Nat → Nat) (srcOf : List Char → List Nat) (ds : List Diag)
    (h : ∀ d ∈ ds, '\n' ∉ header d) :
    blocksOf (lines (printAll false sw rw srcOf ds)) = ds.map fun d => blockLines false sw rw (srcOf d.file) d := by
  rw [lines_printAll false sw rw srcOf ds h, blocksOf_allLines]

/-- **(b)** default mode: the header lines of the output, in order, are the headers of the diagnostics -/
theorem default_headers (sw : List Nat → Nat) (rw : Nat → Nat) (srcOf : List Char → List Nat) (ds : List Diag)
    (h : ∀ d ∈ ds, '\n' ∉ header d) :
    headersOf (lines (printAll false sw rw srcOf ds)) = ds.map header := by
  rw [lines_printAll false sw rw srcOf ds h, headersOf_allLines]

theorem default_headers_escaped (sw : List Nat → Nat) (rw : Nat → Nat) (srcOf : List Char → List Nat) (ds : List Diag)
    (h : ∀ d ∈ ds, Escaped d) :
    headersOf (lines (printAll false sw rw srcOf ds)) = ds.map header :=
  default_headers sw rw srcOf ds fun d hd => (h d hd).header_no_lf

theorem default_blocks_escaped (sw : List Nat → Nat) (rw : Nat → Nat) (srcOf : List Char → List Nat) (ds : List Diag)
    (h : ∀ d ∈ ds, Escaped d) :
    blocksOf (lines (printAll false sw rw srcOf ds)) = ds.map fun d => blockLines false sw rw (srcOf d.file) d :=
  default_blocks sw rw srcOf ds fun d hd => (h d hd).header_no_lf

/-- (b) as many blocks as diagnostics; between 1 and 4 lines each -/
theorem default_count (sw : List Nat → Nat) (rw : Nat → Nat) (srcOf : List Char → List Nat) (ds : List Diag)
    (h : ∀ d ∈ ds, Escaped d) :
    (blocksOf (lines (printAll false sw rw srcOf ds))).length = ds.length ∧
    ∀ b ∈ blocksOf (lines (printAll false sw rw srcOf ds)), b.length = 1 ∨ b.length = 4 := by
  rw [default_blocks_escaped sw rw srcOf ds h]
  refine ⟨by simp, fun b hb => ?_⟩
  simp only [List.mem_map] at hb
  obtain ⟨d, _, rfl⟩ := hb
  rcases block_shape false sw rw (srcOf d.file) d with ⟨hb, _⟩ | ⟨l, _, _, hb⟩ <;> rw [hb] <;> simp

/-! ### (b) can a row be mistaken for a header? -/

theorem matchTail_some_colon {s : List Char} {x : Nat × Nat × List Char × List Char} (h : matchTail s = some x) :
    ∃ r, s = ':' :: r := by
  unfold matchTail at h
  split at h
  · exact ⟨_, rfl⟩
  · cases h

/-- what the problem matcher accepts contains a `:` -/
theorem matcher_some_colon {l : List Char} {d : Diag} (h : matcher l = some d) : ':' ∈ l := by
  unfold matcher at h
  cases hm : matchFile [] l with
  | none => rw [hm] at h; cases h
  | some y =>
    obtain ⟨f, x⟩ := y
    obtain ⟨pre, rest, hs, _, _, _, ht, _⟩ := matchFile_some l [] f x hm
    obtain ⟨r, hr⟩ := matchTail_some_colon ht
    rw [hs, hr]; simp

theorem matcher_none_of_no_colon {l : List Char} (h : ':' ∉ l) : matcher l = none := by
  cases hm : matcher l with
  | none => rfl
  | some d => exact absurd (matcher_some_colon hm) h

theorem indent_no_colon (n : Nat) : ':' ∉ indent n := by
  intro h; have := List.eq_of_mem_replicate h; revert this; decide

/-- the gutter line is never taken for a diagnostic by the problem matcher -/
theorem gutterRow_not_matched (n : Nat) : matcher (gutterRow n) = none :=
  matcher_none_of_no_colon (isGutter_no_colon (isGutter_gutterRow n))

theorem indicator_no_colon (sw : List Nat → Nat) (rw : Nat → Nat) (l : List Nat) (col : Nat) : ':' ∉ indicator sw rw l col := by
  unfold indicator
  split
  · simp
  · intro h
    simp only [List.mem_append, List.mem_replicate, List.mem_cons, List.not_mem_nil, or_false] at h
    rcases h with (h | h) | h
    · have := h.2; revert this; decide
    · revert h; decide
    · have := h.2; revert this; decide

/-- the indicator line is never taken for a diagnostic by the problem matcher -/
theorem indicatorRow_not_matched (sw : List Nat → Nat) (rw : Nat → Nat) (line : Nat) (l : List Nat) (col : Nat) :
    matcher (indicatorRow sw rw line l col) = none := by
  apply matcher_none_of_no_colon
  have h1 := indent_no_colon line
  have h2 := indicator_no_colon sw rw l col
  have c1 : ':' ≠ '|' := by decide
  have c2 : ':' ≠ ' ' := by decide
  simp [indicatorRow, h1, h2, c1, c2]

/-- does the line start like a row under a header: with a blank (gutter, indicator) or a digit (`N | source`)? -/
def rowStart : List Char → Bool
  | c :: _ => c == ' ' || isDigit c
  | [] => false

theorem natChars_head (n : Nat) : ∃ c t, natChars n = c :: t ∧ isDigit c = true := by
  cases h : natChars n with
  | nil => exact absurd h (natChars_ne_nil n)
  | cons c t => exact ⟨c, t, rfl, natChars_isDigit n c (by rw [h]; simp)⟩

theorem indent_head (n : Nat) : ∃ t, indent n = ' ' :: t := by
  have h := indent_length n
  unfold indent at h ⊢
  rw [List.length_replicate] at h
  rw [h]
  exact ⟨_, List.replicate_succ⟩

/-- every row of a block other than the header starts with a blank or with a digit -/
theorem rows_start (sw : List Nat → Nat) (rw : Nat → Nat) (line : Nat) (l : List Nat) (col : Nat) :
    rowStart (gutterRow line) = true ∧ rowStart (snippetRow line l) = true ∧ rowStart (indicatorRow sw rw line l col) = true := by
  obtain ⟨t, ht⟩ := indent_head line
  obtain ⟨c, t', hc, hd⟩ := natChars_head line
  refine ⟨?_, ?_, ?_⟩
  · simp [gutterRow, ht, rowStart]
  · simp [snippetRow, lnum, hc, rowStart, hd]
  · simp [indicatorRow, ht, rowStart]

/-- a header starts like a row only when the file name does -/
theorem rowStart_header (d : Diag) : rowStart (header d) = rowStart d.file := by
  cases hf : d.file with
  | nil => simp [header, hf, rowStart]; decide
  | cons c t => simp [header, hf, rowStart]

/-- **(b)** with file names that do not start with a blank or a digit (`.github/workflows/…`, `<stdin>`, any path that does
not begin with a digit) the headers are simply the lines that do not start with a blank or a digit -/
theorem default_headers_filter (sw : List Nat → Nat) (rw : Nat → Nat) (srcOf : List Char → List Nat) (ds : List Diag)
    (h : ∀ d ∈ ds, '\n' ∉ header d) (hf : ∀ d ∈ ds, rowStart d.file = false) :
    (lines (printAll false sw rw srcOf ds)).filter (fun l => !rowStart l) = ds.map header := by
  rw [lines_printAll false sw rw srcOf ds h]
  clear h
  induction ds with
  | nil => rfl
  | cons d ds ih =>
    rw [allLines_cons, List.filter_append, ih (fun x hx => hf x (by simp [hx])), List.map_cons]
    have hh : rowStart (header d) = false := by rw [rowStart_header]; exact hf d (by simp)
    rcases block_shape false sw rw (srcOf d.file) d with ⟨hb, _⟩ | ⟨l, _, _, hb⟩
    · rw [hb]; simp [hh]
    · obtain ⟨h1, h2, h3⟩ := rows_start sw rw d.line l d.col
      rw [hb]; simp [hh, h1, h2, h3]

/-- … and the condition on the file name is needed for THAT reader: a file called `1.yml` has a header that starts with a digit -/
theorem default_headers_filter_needs_file (sw : List Nat → Nat) (rw : Nat → Nat) :
    (lines (printAll false sw rw (fun _ => []) [⟨"1.yml".toList, 1, 1, ['m'], ['k']⟩])).filter (fun l => !rowStart l) = [] := by
  rw [lines_printAll _ _ _ _ _ (by decide)]
  simp only [allLines, List.flatMap_cons, List.flatMap_nil, blockLines, Bool.false_eq_true, if_false, snippetLine_nil,
    List.append_nil]
  decide

/-- the line under the gutter line — the SOURCE line — CAN look like a diagnostic: nothing in `N | <source>` stops the
problem matcher (its file group is `.+?`). Witness: line 1 of the source is `a.yml:1:2: m [k]`; the row
`1 | a.yml:1:2: m [k]` is parsed as file `1 | a.yml`, line 1, column 2, message `m`, kind `k`. So a consumer that applies the
pattern to EVERY line of the default output reports phantom diagnostics for such sources; `headersOf` / -oneline do not. -/
theorem snippetRow_can_match :
    let src := "a.yml:1:2: m [k]\n".toList.map Char.toNat
    ∃ l, snippetLine src 1 1 = some l ∧
      snippetRow 1 l = "1 | a.yml:1:2: m [k]".toList ∧
      matcher (snippetRow 1 l) = some ⟨"1 | a.yml".toList, 1, 2, ['m'], ['k']⟩ := by
  intro src
  refine ⟨"a.yml:1:2: m [k]".toList.map Char.toNat, by decide +kernel, by decide +kernel, ?_⟩
  have e : snippetRow 1 ("a.yml:1:2: m [k]".toList.map Char.toNat) = header ⟨"1 | a.yml".toList, 1, 2, ['m'], ['k']⟩ := by
    decide +kernel
  rw [e]
  exact AL.C16.roundtrip _ (AL.C16.faithful_of_check (by decide))

/-! ### (c) the snippet is the referenced source line, the caret stands under the reported column -/

/-- the text of a diagnostic with a snippet: header, gutter line, `N | source line`, `  | indicator` -/
theorem prettyPrint_snippet (sw : List Nat → Nat) (rw : Nat → Nat) (src : List Nat) (d : Diag) (l : List Nat)
    (h : snippetLine src d.line d.col = some l) :
    prettyPrint false sw rw src d =
      header d ++ '\n' :: (gutterRow d.line ++ '\n' :: (snippetRow d.line l ++ '\n' ::
        (indicatorRow sw rw d.line l d.col ++ ['\n']))) := by
  simp [prettyPrint, ppError, h]

/-- **(c)** the line shown is line `d.line` of the source (as `bufio.Scanner` counts lines), preceded by its number -/
theorem snippet_faithful (src : List Nat) (d : Diag) (l : List Nat) (h : snippetLine src d.line d.col = some l) :
    d.line ≥ 1 ∧ (splitLines src)[d.line - 1]? = some l ∧ d.col - 1 ≤ l.length ∧ l.length < maxToken ∧
    snippetRow d.line l = natChars d.line ++ [' ', '|', ' '] ++ text l := by
  have := AL.C16.snippet src d.line d.col
  rw [h] at this
  exact ⟨this.1, this.2.1, this.2.2.1, this.2.2.2, rfl⟩

/-- the source row and the indicator row have the same margin: `N | ` is as long as `  | ` -/
theorem margin_length (n : Nat) : (indent n ++ ['|', ' ']).length = (lnum n).length := by
  rw [List.length_append, indent_length, lnum_length]; rfl

theorem snippetRow_at (line : Nat) (l : List Nat) (i : Nat) :
    (snippetRow line l)[(lnum line).length + i]? = (text l)[i]? := by
  unfold snippetRow
  rw [List.getElem?_append_right (by omega)]
  congr 1; omega

theorem indicatorRow_at (sw : List Nat → Nat) (rw : Nat → Nat) (line : Nat) (l : List Nat) (col : Nat) (i : Nat) :
    (indicatorRow sw rw line l col)[(lnum line).length + i]? = (indicator sw rw l col)[i]? := by
  unfold indicatorRow
  rw [← margin_length, List.getElem?_append_right (by omega)]
  congr 1; omega

/-- **(c)** for a column ≥ 1 the indicator row has its caret at the margin plus the display width of the text before the
column — the position at which the source row shows the character of that column; blanks before it, `~` after it, one caret -/
theorem caret_under_column (sw : List Nat → Nat) (rw : Nat → Nat) (line : Nat) (l : List Nat) (col : Nat) (h : 0 < col) :
    let row := indicatorRow sw rw line l col
    let g := (lnum line).length
    let w := sw (l.take (col - 1))
    row[g + w]? = some '^' ∧ (∀ i, i < w → row[g + i]? = some ' ') ∧
      (∀ i, w < i → g + i < row.length → row[g + i]? = some '~') ∧ row.count '^' = 1 := by
  intro row g w
  obtain ⟨h1, h2, h3⟩ := AL.C16I.caret_position sw rw l col h
  refine ⟨?_, ?_, ?_, ?_⟩
  · show (indicatorRow sw rw line l col)[(lnum line).length + w]? = _
    rw [indicatorRow_at]; exact h1
  · intro i hi
    show (indicatorRow sw rw line l col)[(lnum line).length + i]? = _
    rw [indicatorRow_at]; exact h2 i hi
  · intro i hi hlen
    show (indicatorRow sw rw line l col)[(lnum line).length + i]? = _
    rw [indicatorRow_at]
    apply h3 i hi
    have : row.length = (lnum line).length + (indicator sw rw l col).length := by
      show (indicatorRow sw rw line l col).length = _
      unfold indicatorRow
      rw [List.length_append, margin_length]
    omega
  · show (indicatorRow sw rw line l col).count '^' = 1
    unfold indicatorRow
    rw [List.count_append, List.count_append, AL.C16I.one_caret sw rw l col h]
    have : (indent line).count '^' = 0 := by
      unfold indent; rw [List.count_replicate]; simp
    rw [this]; rfl

/-- column 0 (no column): the snippet is still shown, the indicator row is the bare margin -/
theorem indicatorRow_col_zero (sw : List Nat → Nat) (rw : Nat → Nat) (line : Nat) (l : List Nat) :
    indicatorRow sw rw line l 0 = indent line ++ ['|', ' '] := by
  simp [indicatorRow, AL.C16I.no_indicator_without_column]

/-- an ASCII line is shown byte for byte -/
theorem text_ascii : ∀ (l : List Nat), (∀ b ∈ l, b < 128) → text l = l.map Char.ofNat
  | [], _ => by simp [text, decodeUtf8_nil]
  | b :: l, h => by
    have hb : b < 128 := h b (by simp)
    have hd : AL.decodeOne (b :: l) = some ({ r := b, w := 1 }, l) := by simp [AL.decodeOne, hb]
    have ih := text_ascii l (fun x hx => h x (by simp [hx]))
    unfold text at ih ⊢
    rw [decodeUtf8_step hd, List.map_cons, ih]; rfl

/-- **(c)**, ASCII reading: when the width of the bytes before the column is their number (true of ASCII text in
go-runewidth) the caret is at margin + col − 1, and the source row shows the `col`-th byte of the line exactly there -/
theorem caret_under_column_ascii (sw : List Nat → Nat) (rw : Nat → Nat) (line : Nat) (l : List Nat) (col : Nat) (h : 0 < col)
    (hw : sw (l.take (col - 1)) = col - 1) (ha : ∀ b ∈ l, b < 128) :
    (indicatorRow sw rw line l col)[(lnum line).length + (col - 1)]? = some '^' ∧
    (snippetRow line l)[(lnum line).length + (col - 1)]? = l[col - 1]?.map Char.ofNat := by
  have := (caret_under_column sw rw line l col h).1
  simp only [hw] at this
  refine ⟨this, ?_⟩
  rw [snippetRow_at, text_ascii l ha, List.getElem?_map]

/-! ### (d) totality: every (source, line, column) -/

/-- **(d)** `prettyPrint` is a total function; for EVERY source, line and column (0 and beyond the end included) it writes the
header line, and then either nothing more or the three rows of the snippet -/
theorem prettyPrint_total (oneline : Bool) (sw : List Nat → Nat) (rw : Nat → Nat) (src : List Nat) (d : Diag) :
    (prettyPrint oneline sw rw src d = header d ++ ['\n'] ∧ (oneline = true ∨ snippetLine src d.line d.col = none)) ∨
    (∃ l, oneline = false ∧ snippetLine src d.line d.col = some l ∧
      prettyPrint oneline sw rw src d =
        header d ++ '\n' :: (gutterRow d.line ++ '\n' :: (snippetRow d.line l ++ '\n' ::
          (indicatorRow sw rw d.line l d.col ++ ['\n'])))) := by
  cases oneline with
  | true => exact Or.inl ⟨by simp [prettyPrint, ppError, snippetLine_nil], Or.inl rfl⟩
  | false =>
    cases hs : snippetLine src d.line d.col with
    | none => exact Or.inl ⟨by simp [prettyPrint, ppError, hs], Or.inr rfl⟩
    | some l => exact Or.inr ⟨l, rfl, rfl, prettyPrint_snippet sw rw src d l hs⟩

/-- -oneline never shows a snippet -/
theorem prettyPrint_oneline (sw : List Nat → Nat) (rw : Nat → Nat) (src : List Nat) (d : Diag) :
    prettyPrint true sw rw src d = header d ++ ['\n'] := by
  simp [prettyPrint, ppError, snippetLine_nil]

/-- when `getLine` finds no line: line 0, a line beyond the last one, or a line at / after one that exceeds the scanner's
token limit (the scan stops there) -/
theorem getLine_none_iff (src : List Nat) (n : Nat) :
    getLine src n = none ↔
      n = 0 ∨ (∃ l ∈ (splitLines src).take n, maxToken ≤ l.length) ∨ (splitLines src).length < n := by
  unfold getLine
  by_cases hn : n = 0
  · simp [hn]
  · simp only [hn, if_false, false_or]
    by_cases ha : ((splitLines src).take n).any (fun l => l.length ≥ maxToken) = true
    · simp only [ha, if_true, true_iff]
      left
      simp only [List.any_eq_true, decide_eq_true_eq] at ha
      exact ha
    · simp only [ha, Bool.false_eq_true, if_false]
      rw [List.getElem?_eq_none_iff]
      constructor
      · intro h; right; omega
      · rintro (h | h)
        · exfalso; apply ha
          simp only [List.any_eq_true, decide_eq_true_eq]
          exact h
        · omega

/-- **(d)** exactly when the snippet is omitted (default mode) -/
theorem snippet_omitted_iff (src : List Nat) (line col : Nat) :
    snippetLine src line col = none ↔
      src = [] ∨ line = 0 ∨ getLine src line = none ∨ ∃ l, getLine src line = some l ∧ l.length < col - 1 := by
  unfold snippetLine
  by_cases h1 : src = []
  · simp [h1]
  · by_cases h2 : line = 0
    · simp [h2]
    · have hg : (src.isEmpty || decide (line = 0)) = false := by simp [h1, h2]
      rw [hg]
      simp only [Bool.false_eq_true, if_false]
      cases hgl : getLine src line with
      | none => simp
      | some l =>
        by_cases hc : l.length < col - 1
        · simp only [hc, if_true, true_iff]
          exact Or.inr (Or.inr (Or.inr ⟨l, rfl, hc⟩))
        · simp only [hc, if_false, reduceCtorEq, false_iff]
          rintro (h | h | h | ⟨l', hl', hlt⟩)
          · exact h1 h
          · exact h2 h
          · cases h
          · cases hl'; exact hc hlt

/-- (d) no source (stdin that is empty, `-oneline`): header only -/
theorem no_source (sw : List Nat → Nat) (rw : Nat → Nat) (oneline : Bool) (d : Diag) :
    prettyPrint oneline sw rw [] d = header d ++ ['\n'] := by
  cases oneline <;> simp [prettyPrint, ppError, snippetLine_nil]

/-- (d) line 0 (a diagnostic without a position, e.g. a YAML syntax error whose line is unknown): header only -/
theorem line_zero (sw : List Nat → Nat) (rw : Nat → Nat) (oneline : Bool) (src : List Nat) (d : Diag) (h : d.line = 0) :
    prettyPrint oneline sw rw src d = header d ++ ['\n'] := by
  rcases prettyPrint_total oneline sw rw src d with ⟨hp, _⟩ | ⟨l, _, hs, _⟩
  · exact hp
  · have := (snippet_omitted_iff src d.line d.col).mpr (Or.inr (Or.inl h))
    rw [this] at hs; cases hs

/-- (d) a line beyond the end of the source: header only -/
theorem line_beyond (sw : List Nat → Nat) (rw : Nat → Nat) (oneline : Bool) (src : List Nat) (d : Diag)
    (h : (splitLines src).length < d.line) :
    prettyPrint oneline sw rw src d = header d ++ ['\n'] := by
  rcases prettyPrint_total oneline sw rw src d with ⟨hp, _⟩ | ⟨l, _, hs, _⟩
  · exact hp
  · have := (snippet_omitted_iff src d.line d.col).mpr
      (Or.inr (Or.inr (Or.inl ((getLine_none_iff src d.line).mpr (Or.inr (Or.inr h))))))
    rw [this] at hs; cases hs

/-- (d) a column more than one past the end of the line: header only (`line[start:]` is never evaluated) -/
theorem col_beyond (sw : List Nat → Nat) (rw : Nat → Nat) (oneline : Bool) (src : List Nat) (d : Diag) (l : List Nat)
    (hl : getLine src d.line = some l) (h : l.length + 1 < d.col) :
    prettyPrint oneline sw rw src d = header d ++ ['\n'] := by
  rcases prettyPrint_total oneline sw rw src d with ⟨hp, _⟩ | ⟨l', _, hs, _⟩
  · exact hp
  · have := (snippet_omitted_iff src d.line d.col).mpr (Or.inr (Or.inr (Or.inr ⟨l, hl, by omega⟩)))
    rw [this] at hs; cases hs

/-- (d) whenever a snippet IS shown the indicator never reads outside the line: `col - 1 ≤ len(line)` -/
theorem shown_in_range (src : List Nat) (line col : Nat) (l : List Nat) (h : snippetLine src line col = some l) :
    col - 1 ≤ l.length ∧ 1 ≤ line ∧ line ≤ (splitLines src).length := by
  have := AL.C16.snippet src line col
  rw [h] at this
  obtain ⟨h1, h2, h3, _⟩ := this
  have := (List.getElem?_eq_some_iff.mp h2).1
  exact ⟨h3, h1, by omega⟩

/-! ### (e) the problem matcher on the header lines gives the diagnostics back -/

theorem dot_ne_lf {c : Char} (h : dot c = true) : c ≠ '\n' := by
  rintro rfl; revert h; decide

theorem faithful_header_no_lf {d : Diag} (h : AL.C16.Faithful d) : '\n' ∉ header d := by
  rw [header_no_lf_iff]
  exact ⟨fun hm => dot_ne_lf (h.file.2.1 _ hm) rfl, fun hm => dot_ne_lf (h.msgOneLine _ hm) rfl,
    fun hm => dot_ne_lf (h.kindOneLine _ hm) rfl⟩

theorem map_matcher_headers : ∀ (ds : List Diag), (∀ d ∈ ds, AL.C16.Faithful d) → (ds.map header).map matcher = ds.map some
  | [], _ => rfl
  | d :: ds, h => by
    simp only [List.map_cons]
    rw [AL.C16.roundtrip d (h d (by simp)), map_matcher_headers ds (fun x hx => h x (by simp [hx]))]

/-- **(e)** -oneline: the shipped pattern applied to every line of the output gives back exactly the diagnostics, in order -/
theorem oneline_roundtrip (sw : List Nat → Nat) (rw : Nat → Nat) (srcOf : List Char → List Nat) (ds : List Diag)
    (h : ∀ d ∈ ds, AL.C16.Faithful d) :
    (lines (printAll true sw rw srcOf ds)).map matcher = ds.map some := by
  rw [oneline_lines sw rw srcOf ds (fun d hd => faithful_header_no_lf (h d hd)), map_matcher_headers ds h]

theorem filterMap_matcher_headers : ∀ (ds : List Diag), (∀ d ∈ ds, AL.C16.Faithful d) → (ds.map header).filterMap matcher = ds
  | [], _ => rfl
  | d :: ds, h => by
    rw [List.map_cons, List.filterMap_cons, AL.C16.roundtrip d (h d (by simp))]
    simp only
    rw [filterMap_matcher_headers ds (fun x hx => h x (by simp [hx]))]

/-- (e) -oneline, as a parser: collecting what the pattern matches gives the list of diagnostics -/
theorem oneline_roundtrip_filterMap (sw : List Nat → Nat) (rw : Nat → Nat) (srcOf : List Char → List Nat) (ds : List Diag)
    (h : ∀ d ∈ ds, AL.C16.Faithful d) :
    (lines (printAll true sw rw srcOf ds)).filterMap matcher = ds := by
  rw [oneline_lines sw rw srcOf ds (fun d hd => faithful_header_no_lf (h d hd)), filterMap_matcher_headers ds h]

/-- **(e)** default mode: the pattern applied to the header lines of the output gives back exactly the diagnostics, in order -/
theorem default_roundtrip (sw : List Nat → Nat) (rw : Nat → Nat) (srcOf : List Char → List Nat) (ds : List Diag)
    (h : ∀ d ∈ ds, AL.C16.Faithful d) :
    (headersOf (lines (printAll false sw rw srcOf ds))).map matcher = ds.map some := by
  rw [default_headers sw rw srcOf ds (fun d hd => faithful_header_no_lf (h d hd)), map_matcher_headers ds h]

/-! ### applying the pattern to EVERY line of the default output -/

theorem matchTail_some_last {s : List Char} {x : Nat × Nat × List Char × List Char} (h : matchTail s = some x) :
    ∃ t, s = t ++ [']'] := by
  unfold matchTail at h
  split at h
  · rename_i r1
    have e1 := takeDigits_append_eq r1
    generalize takeDigits r1 = p1 at h e1
    obtain ⟨l, r2⟩ := p1
    simp only at h e1
    split at h
    · cases h
    · split at h
      · rename_i r3
        have e2 := takeDigits_append_eq r3
        generalize takeDigits r3 = p2 at h e2
        obtain ⟨c, r4⟩ := p2
        simp only at h e2
        split at h
        · cases h
        · split at h
          · rename_i r5
            cases hm : matchMsg [] r5 with
            | none => rw [hm] at h; cases h
            | some mk =>
              obtain ⟨m, k⟩ := mk
              obtain ⟨m', _, _, _, hs, _⟩ := matchMsg_some r5 [] m k hm
              refine ⟨':' :: (l ++ ':' :: (c ++ ':' :: ' ' :: (m' ++ ' ' :: '[' :: k))), ?_⟩
              rw [← e1, ← e2, hs]; simp
          · cases h
      · cases h
  · cases h

/-- what the problem matcher accepts ends with `]` -/
theorem matcher_some_last {l : List Char} {d : Diag} (h : matcher l = some d) : ∃ t, l = t ++ [']'] := by
  unfold matcher at h
  cases hm : matchFile [] l with
  | none => rw [hm] at h; cases h
  | some y =>
    obtain ⟨f, x⟩ := y
    obtain ⟨pre, rest, hs, _, _, _, ht, _⟩ := matchFile_some l [] f x hm
    obtain ⟨t, hr⟩ := matchTail_some_last ht
    exact ⟨pre ++ t, by rw [hs, hr]; simp⟩

/-- the phantom diagnostic a source row yields when the pattern is applied to it -/
def phantom (src : List Nat) (d : Diag) : List Diag :=
  match snippetLine src d.line d.col with
  | none => []
  | some l => (matcher (snippetRow d.line l)).toList

/-- **(b)/(e)** default mode, pattern applied to EVERY line (what the GitHub problem matcher does): every diagnostic is found, in
order; gutter and indicator rows are never matched; the only extra matches are the phantoms of source rows that look like headers,
each directly after its own diagnostic -/
theorem default_all_lines (sw : List Nat → Nat) (rw : Nat → Nat) (srcOf : List Char → List Nat) (ds : List Diag)
    (h : ∀ d ∈ ds, AL.C16.Faithful d) :
    (lines (printAll false sw rw srcOf ds)).filterMap matcher = ds.flatMap fun d => d :: phantom (srcOf d.file) d := by
  rw [lines_printAll false sw rw srcOf ds (fun d hd => faithful_header_no_lf (h d hd))]
  induction ds with
  | nil => rfl
  | cons d ds ih =>
    rw [allLines_cons, List.filterMap_append, ih (fun x hx => h x (by simp [hx])), List.flatMap_cons]
    congr 1
    have hr := AL.C16.roundtrip d (h d (by simp))
    rcases block_shape false sw rw (srcOf d.file) d with ⟨hb, hn⟩ | ⟨l, _, hs, hb⟩
    · rcases hn with hn | hn
      · cases hn
      · rw [hb]; simp [phantom, hn, hr]
    · rw [hb]
      simp only [List.filterMap_cons, hr, gutterRow_not_matched, indicatorRow_not_matched, List.filterMap_nil, phantom, hs]
      cases matcher (snippetRow d.line l) <;> rfl

/-- no phantom when the source line does not end with `]` (the pattern ends with `\]$`) -/
theorem phantom_nil_of_last (src : List Nat) (d : Diag)
    (h : ∀ l, snippetLine src d.line d.col = some l → ∀ t, text l ≠ t ++ [']']) : phantom src d = [] := by
  unfold phantom
  cases hs : snippetLine src d.line d.col with
  | none => rfl
  | some l =>
    cases hm : matcher (snippetRow d.line l) with
    | none => simp [hm]
    | some d' =>
      exfalso
      obtain ⟨t, ht⟩ := matcher_some_last hm
      unfold snippetRow at ht
      rcases List.eq_nil_or_concat (text l) with hn | ⟨t', c, hc⟩
      · rw [hn, List.append_nil] at ht
        have : (lnum d.line).getLast? = (t ++ [']']).getLast? := by rw [ht]
        simp [lnum] at this
      · rw [List.concat_eq_append] at hc
        rw [hc] at ht
        have : (lnum d.line ++ (t' ++ [c])).getLast? = (t ++ [']']).getLast? := by rw [ht]
        rw [← List.append_assoc] at this
        simp only [List.getLast?_append, List.getLast?_singleton, Option.some_or, Option.some.injEq] at this
        subst this
        exact h l hs t' hc

/-- … so for sources none of whose referenced lines end with `]` the pattern applied to every line of the default output gives
back exactly the diagnostics -/
theorem default_all_lines_clean (sw : List Nat → Nat) (rw : Nat → Nat) (srcOf : List Char → List Nat) (ds : List Diag)
    (h : ∀ d ∈ ds, AL.C16.Faithful d)
    (hsrc : ∀ d ∈ ds, ∀ l, snippetLine (srcOf d.file) d.line d.col = some l → ∀ t, text l ≠ t ++ [']']) :
    (lines (printAll false sw rw srcOf ds)).filterMap matcher = ds := by
  rw [default_all_lines sw rw srcOf ds h]
  clear h
  induction ds with
  | nil => rfl
  | cons d ds ih =>
    rw [List.flatMap_cons, phantom_nil_of_last _ d (hsrc d (by simp)), ih (fun x hx => hsrc x (by simp [hx]))]
    rfl

/-! ### which source goes with which diagnostic -/

/-- `Lint` / `LintFile` / `LintStdin`: one `printErrors` with the content of the one file -/
theorem printErrors_eq_printAll (oneline : Bool) (sw : List Nat → Nat) (rw : Nat → Nat) (src : List Nat) (ds : List Diag) :
    printErrors oneline sw rw src ds = printAll oneline sw rw (fun _ => src) ds := rfl

/-- `LintFiles`: one `printErrors` per file, in the order of the files, each with its own content — the same text as
`printAll` over the concatenated error lists when `srcOf` maps the file name of every error to the content of its file
(`check` stamps every error of a file with that file's path) -/
theorem printWorkspaces_eq_printAll (oneline : Bool) (sw : List Nat → Nat) (rw : Nat → Nat) (srcOf : List Char → List Nat) :
    ∀ (ws : List (List Nat × List Diag)), (∀ w ∈ ws, ∀ d ∈ w.2, srcOf d.file = w.1) →
      printWorkspaces oneline sw rw ws = printAll oneline sw rw srcOf (ws.flatMap (·.2))
  | [], _ => rfl
  | w :: ws, h => by
    have ih := printWorkspaces_eq_printAll oneline sw rw srcOf ws (fun x hx => h x (by simp [hx]))
    unfold printWorkspaces printAll at ih ⊢
    rw [List.flatMap_cons, List.flatMap_cons, List.flatMap_append, ih]
    congr 1
    have hw : ∀ (es : List Diag), (∀ d ∈ es, srcOf d.file = w.1) →
        printErrors oneline sw rw w.1 es = es.flatMap fun d => prettyPrint oneline sw rw (srcOf d.file) d := by
      intro es
      induction es with
      | nil => intro _; rfl
      | cons e es ihe =>
        intro he
        unfold printErrors at ihe ⊢
        rw [List.flatMap_cons, List.flatMap_cons, ihe (fun x hx => he x (by simp [hx])), he e (by simp)]
    exact hw w.2 (h w (by simp))

/-- so everything above holds for a multi-file run: e.g. -oneline -/
theorem workspaces_oneline_lines (sw : List Nat → Nat) (rw : Nat → Nat) (ws : List (List Nat × List Diag))
    (h : ∀ w ∈ ws, ∀ d ∈ w.2, '\n' ∉ header d) :
    lines (printWorkspaces true sw rw ws) = (ws.flatMap (·.2)).map header := by
  have e : printWorkspaces true sw rw ws = unlines ((ws.flatMap (·.2)).map header) := by
    induction ws with
    | nil => rfl
    | cons w ws ih =>
      unfold printWorkspaces at ih ⊢
      rw [List.flatMap_cons, ih (fun x hx => h x (by simp [hx])), List.flatMap_cons, List.map_append, unlines_append,
        printErrors_eq_printAll, oneline_text]
  rw [e]
  apply lines_unlines
  intro l hl
  simp only [List.mem_map, List.mem_flatMap] at hl
  obtain ⟨d, ⟨w, hw, hd⟩, rfl⟩ := hl
  exact h w hw d hd

/-- a consistent assignment of contents to file names exists when every error carries the path of its file and equal paths
have equal contents; then the multi-file output IS `printAll` over the concatenated error lists -/
theorem printWorkspaces_exists_srcOf (oneline : Bool) (sw : List Nat → Nat) (rw : Nat → Nat)
    (ws : List (List Char × List Nat × List Diag))
    (hpath : ∀ w ∈ ws, ∀ d ∈ w.2.2, d.file = w.1)
    (hfun : ∀ w ∈ ws, ∀ w' ∈ ws, w.1 = w'.1 → w.2.1 = w'.2.1) :
    ∃ srcOf : List Char → List Nat,
      printWorkspaces oneline sw rw (ws.map (·.2)) = printAll oneline sw rw srcOf (ws.flatMap (·.2.2)) := by
  refine ⟨fun f => match ws.find? (fun w => w.1 == f) with | some w => w.2.1 | none => [], ?_⟩
  have := printWorkspaces_eq_printAll oneline sw rw
    (fun f => match ws.find? (fun w => w.1 == f) with | some w => w.2.1 | none => []) (ws.map (·.2)) ?_
  · rw [this]; congr 1
    simp [List.flatMap_map]
  · intro w hw d hd
    simp only [List.mem_map] at hw
    obtain ⟨w0, hw0, rfl⟩ := hw
    have hf := hpath w0 hw0 d hd
    show (match ws.find? (fun w => w.1 == d.file) with | some w => w.2.1 | none => []) = w0.2.1
    cases hfind : ws.find? (fun w => w.1 == d.file) with
    | none =>
      have := List.find?_eq_none.mp hfind w0 hw0
      simp [hf] at this
    | some w1 =>
      have h1 := List.mem_of_find?_eq_some hfind
      have h2 := List.find?_some hfind
      simp only [beq_iff_eq] at h2
      exact hfun w1 h1 w0 hw0 (by rw [h2, hf])

/-- … so the default mode of a multi-file run has the same block structure -/
theorem workspaces_default_headers (sw : List Nat → Nat) (rw : Nat → Nat) (ws : List (List Char × List Nat × List Diag))
    (hpath : ∀ w ∈ ws, ∀ d ∈ w.2.2, d.file = w.1)
    (hfun : ∀ w ∈ ws, ∀ w' ∈ ws, w.1 = w'.1 → w.2.1 = w'.2.1)
    (h : ∀ w ∈ ws, ∀ d ∈ w.2.2, '\n' ∉ header d) :
    headersOf (lines (printWorkspaces false sw rw (ws.map (·.2)))) = (ws.flatMap (·.2.2)).map header := by
  obtain ⟨srcOf, e⟩ := printWorkspaces_exists_srcOf false sw rw ws hpath hfun
  rw [e]
  apply default_headers
  intro d hd
  simp only [List.mem_flatMap] at hd
  obtain ⟨w, hw, hd⟩ := hd
  exact h w hw d hd

/-! ### a concrete run (instances of every theorem above that has hypotheses) -/

/-- the workflow -/
def exSrc : List Nat := "on: push\njobs:\n  test:\n    runs-on: ${{ foo }}\n    steps: []\n".toList.map Char.toNat
/-- go-runewidth on ASCII: one column per byte -/
def exSw (l : List Nat) : Nat := l.length
def exRw (_ : Nat) : Nat := 1
/-- a diagnostic with a snippet; its message echoes user text with a line break and went through the escaper -/
def exD1 : Diag := ⟨"a.yml".toList, 4, 18, AL.Msg.escape "undefined variable \"foo\nbar\"".toList, "expression".toList⟩
/-- one without a position, one pointing beyond the end of the file, one with column 0 -/
def exD2 : Diag := ⟨"a.yml".toList, 0, 0, AL.Msg.escape "could not parse".toList, "syntax-check".toList⟩
def exD3 : Diag := ⟨"a.yml".toList, 9, 1, AL.Msg.escape "beyond".toList, "k".toList⟩
def exD4 : Diag := ⟨"a.yml".toList, 2, 0, AL.Msg.escape "no column".toList, "k".toList⟩
def exDs : List Diag := [exD1, exD2, exD3, exD4]
def exLine4 : List Nat := "    runs-on: ${{ foo }}".toList.map Char.toNat
def exLine2 : List Nat := "jobs:".toList.map Char.toNat
def exSrcOf (_ : List Char) : List Nat := exSrc

theorem exEscaped : ∀ d ∈ exDs, Escaped d := by
  intro d hd
  simp only [exDs, List.mem_cons, List.not_mem_nil, or_false] at hd
  rcases hd with rfl | rfl | rfl | rfl
  · exact ⟨⟨_, rfl⟩, by decide, by decide⟩
  · exact ⟨⟨_, rfl⟩, by decide, by decide⟩
  · exact ⟨⟨_, rfl⟩, by decide, by decide⟩
  · exact ⟨⟨_, rfl⟩, by decide, by decide⟩

theorem exFaithful : ∀ d ∈ exDs, AL.C16.Faithful d := by
  intro d hd
  simp only [exDs, List.mem_cons, List.not_mem_nil, or_false] at hd
  rcases hd with rfl | rfl | rfl | rfl <;> exact AL.C16.faithful_of_check (by decide +kernel)

/-- the whole default output -/
example : printAll false exSw exRw exSrcOf exDs =
    ("a.yml:4:18: undefined variable \"foo\\nbar\" [expression]\n" ++
     "  |\n" ++
     "4 |     runs-on: ${{ foo }}\n" ++
     "  |                  ^~~\n" ++
     "a.yml:0:0: could not parse [syntax-check]\n" ++
     "a.yml:9:1: beyond [k]\n" ++
     "a.yml:2:0: no column [k]\n" ++
     "  |\n" ++
     "2 | jobs:\n" ++
     "  | \n").toList := by decide +kernel

/-- the whole -oneline output -/
example : printAll true exSw exRw exSrcOf exDs =
    ("a.yml:4:18: undefined variable \"foo\\nbar\" [expression]\n" ++
     "a.yml:0:0: could not parse [syntax-check]\n" ++
     "a.yml:9:1: beyond [k]\n" ++
     "a.yml:2:0: no column [k]\n").toList := by decide +kernel

example : '\n' ∉ text [32, 0xC3, 0xA9, 0xFF] := text_no_lf (by decide)
example : lines ("ab".toList ++ '\n' :: "c\n".toList) = "ab".toList :: lines "c\n".toList := lines_line _ _ (by decide)
example : lines (unlines ["a".toList, [], "b c".toList]) = ["a".toList, [], "b c".toList] := lines_unlines _ (by decide)
example : lines (unlines [['a'] ++ '\n' :: ['b']]) = [['a'], ['b']] := lines_unlines_lf _ _ (by decide) (by decide)
example : [32, 32, 116, 101, 115, 116, 58] ∈ splitLines exSrc := snippetLine_mem (col := 3) (line := 3) (by decide +kernel)
example : '\n' ∉ snippetRow 3 [32, 32, 116, 101, 115, 116, 58] :=
  snippetRow_no_lf (src := exSrc) (col := 3) (by decide +kernel)
example : ∀ l ∈ blockLines false exSw exRw exSrc exD1, '\n' ∉ l :=
  blockLines_no_lf _ _ _ _ _ ((exEscaped exD1 (by simp [exDs])).header_no_lf)
example : '\n' ∉ header exD1 := (exEscaped exD1 (by simp [exDs])).header_no_lf
example : lines (printAll false exSw exRw exSrcOf exDs) = allLines false exSw exRw exSrcOf exDs :=
  lines_printAll _ _ _ _ _ fun d hd => (exEscaped d hd).header_no_lf

/-- (a) -/
example : lines (printAll true exSw exRw exSrcOf exDs) = exDs.map header :=
  oneline_lines _ _ _ _ fun d hd => (exEscaped d hd).header_no_lf
example : lines (printAll true exSw exRw exSrcOf exDs) = exDs.map header := oneline_lines_escaped _ _ _ _ exEscaped
example : (lines (printAll true exSw exRw exSrcOf exDs)).length = 4 := oneline_count _ _ _ _ exEscaped
example : (lines (printAll true exSw exRw exSrcOf exDs))[2]? = some (header exD3) := oneline_line _ _ _ _ exEscaped 2

/-- (b) -/
example : blocksOf (lines (printAll false exSw exRw exSrcOf exDs)) = exDs.map fun d => blockLines false exSw exRw exSrc d :=
  default_blocks_escaped _ _ _ _ exEscaped
example : blocksOf (lines (printAll false exSw exRw exSrcOf exDs)) = exDs.map fun d => blockLines false exSw exRw exSrc d :=
  default_blocks _ _ _ _ fun d hd => (exEscaped d hd).header_no_lf
example : headersOf (lines (printAll false exSw exRw exSrcOf exDs)) = exDs.map header := default_headers_escaped _ _ _ _ exEscaped
example : headersOf (lines (printAll false exSw exRw exSrcOf exDs)) = exDs.map header :=
  default_headers _ _ _ _ fun d hd => (exEscaped d hd).header_no_lf
example : (blocksOf (lines (printAll false exSw exRw exSrcOf exDs))).length = 4 := (default_count _ _ _ _ exEscaped).1
example : (blocksOf (lines (printAll false exSw exRw exSrcOf exDs))).map List.length = [4, 1, 1, 4] := by
  rw [default_blocks_escaped _ _ _ _ exEscaped]; decide +kernel
example : (blocksOf ["x".toList, "  |".toList, "y".toList]).flatten = ["x".toList, "  |".toList, "y".toList] :=
  blocksOf_flatten 3 _ (by decide)
example : ':' ∉ "   |".toList := isGutter_no_colon (by decide)
example : ':' ∈ "a:1:2: m [k]".toList := matcher_some_colon (d := ⟨['a'], 1, 2, ['m'], ['k']⟩)
  (AL.C16.roundtrip ⟨['a'], 1, 2, ['m'], ['k']⟩ (AL.C16.faithful_of_check (by decide)))
example : matcher "  | ^~~".toList = none := matcher_none_of_no_colon (by decide)
example : (lines (printAll false exSw exRw exSrcOf exDs)).filter (fun l => !rowStart l) = exDs.map header :=
  default_headers_filter _ _ _ _ (fun d hd => (exEscaped d hd).header_no_lf) (by decide)

/-- (c) -/
example : prettyPrint false exSw exRw exSrc exD1 =
    header exD1 ++ '\n' :: (gutterRow 4 ++ '\n' :: (snippetRow 4 exLine4 ++ '\n' ::
      (indicatorRow exSw exRw 4 exLine4 18 ++ ['\n']))) :=
  prettyPrint_snippet _ _ _ _ _ (by decide +kernel)
example : (splitLines exSrc)[4 - 1]? = some exLine4 :=
  (snippet_faithful exSrc exD1 _ (by decide +kernel)).2.1
example : (indicatorRow exSw exRw 4 exLine4 18)[4 + 17]? = some '^' :=
  (caret_under_column exSw exRw 4 exLine4 18 (by decide)).1
example : (snippetRow 4 exLine4)[4 + 17]? = some 'f' :=
  (caret_under_column_ascii exSw exRw 4 exLine4 18 (by decide) (by decide) (by decide)).2
example : text [97, 98] = ['a', 'b'] := text_ascii _ (by decide)

/-- (d) -/
example : prettyPrint false exSw exRw exSrc exD2 = header exD2 ++ ['\n'] := line_zero _ _ _ _ _ rfl
example : prettyPrint false exSw exRw exSrc exD3 = header exD3 ++ ['\n'] := line_beyond _ _ _ _ _ (by decide +kernel)
example : prettyPrint false exSw exRw exSrc ⟨['f'], 2, 8, ['m'], ['k']⟩ = "f:2:8: m [k]\n".toList :=
  col_beyond _ _ _ _ _ exLine2 (by decide +kernel) (by decide)
example : 6 - 1 ≤ exLine2.length := (shown_in_range exSrc 2 6 exLine2 (by decide +kernel)).1

/-- (e) -/
example : (lines (printAll true exSw exRw exSrcOf exDs)).map matcher = exDs.map some := oneline_roundtrip _ _ _ _ exFaithful
example : (lines (printAll true exSw exRw exSrcOf exDs)).filterMap matcher = exDs := oneline_roundtrip_filterMap _ _ _ _ exFaithful
example : (headersOf (lines (printAll false exSw exRw exSrcOf exDs))).map matcher = exDs.map some :=
  default_roundtrip _ _ _ _ exFaithful
example : '\n' ∉ header exD1 := faithful_header_no_lf (exFaithful exD1 (by simp [exDs]))
example : (lines (printAll false exSw exRw exSrcOf exDs)).filterMap matcher =
    exDs.flatMap fun d => d :: phantom exSrc d := default_all_lines _ _ _ _ exFaithful
example : (lines (printAll false exSw exRw exSrcOf exDs)).filterMap matcher = exDs :=
  default_all_lines_clean _ _ _ _ exFaithful (by
    intro d hd l hl t
    simp only [exDs, List.mem_cons, List.not_mem_nil, or_false] at hd
    rcases hd with rfl | rfl | rfl | rfl
    · have : snippetLine exSrc 4 18 = some exLine4 := by decide +kernel
      have e : l = exLine4 := by
        have h' : snippetLine exSrc 4 18 = some l := hl
        rw [this] at h'; exact (Option.some.inj h').symm
      subst e
      intro h
      have := congrArg List.getLast? h
      rw [List.getLast?_append] at this
      revert this; simp; decide +kernel
    · have : snippetLine exSrc 0 0 = none := by decide +kernel
      have h' : snippetLine exSrc 0 0 = some l := hl
      rw [this] at h'; cases h'
    · have : snippetLine exSrc 9 1 = none := by decide +kernel
      have h' : snippetLine exSrc 9 1 = some l := hl
      rw [this] at h'; cases h'
    · have : snippetLine exSrc 2 0 = some exLine2 := by decide +kernel
      have e : l = exLine2 := by
        have h' : snippetLine exSrc 2 0 = some l := hl
        rw [this] at h'; exact (Option.some.inj h').symm
      subst e
      intro h
      have := congrArg List.getLast? h
      rw [List.getLast?_append] at this
      revert this; simp; decide +kernel)

/-- two files -/
def exWs : List (List Char × List Nat × List Diag) :=
  [("a.yml".toList, exSrc, [exD1, exD2]), ("b.yml".toList, "on: push\n".toList.map Char.toNat, [⟨"b.yml".toList, 1, 1, ['m'], ['k']⟩])]

example : headersOf (lines (printWorkspaces false exSw exRw (exWs.map (·.2)))) = (exWs.flatMap (·.2.2)).map header :=
  workspaces_default_headers _ _ _ (by decide) (by decide) (by decide +kernel)
example : lines (printWorkspaces true exSw exRw (exWs.map (·.2))) = ((exWs.map (·.2)).flatMap (·.2)).map header :=
  workspaces_oneline_lines _ _ _ (by decide +kernel)
example : printWorkspaces false exSw exRw [(exSrc, exDs)] = printAll false exSw exRw exSrcOf ([(exSrc, exDs)].flatMap (·.2)) :=
  printWorkspaces_eq_printAll _ _ _ _ _ (by intro w hw d _; simp at hw; subst hw; rfl)

end AL.C16P
