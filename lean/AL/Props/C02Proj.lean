import AL.Props.C02Rules
import AL.Model.ProjLint
/-
  C02 for a file linted inside a project: the whole model (parser, AST rules, local workflows and local actions with their
  caches) is a function of the document node and of what is on disk; its output is in non-decreasing position order and
  contains exactly the diagnostics of its parts, each once.
-/
namespace AL.C02P
open AL AL.Rules

/-- the output for a file inside a project is in non-decreasing order of (line, column) -/
theorem projLint_sorted (cfg : AL.PW.Cfg) (isNum urlOk : String → Bool) (env : AL.ProjLint.Env) (doc : AL.Yaml.Node) :
    (AL.ProjLint.lint cfg isNum urlOk env doc).Pairwise AL.C02R.le := by
  simp only [AL.ProjLint.lint]
  exact AL.C02R.sort_sorted _

/-- … and is a rearrangement of: the parser's diagnostics, the AST rules', what rule workflow-call adds for local callees,
what rule action adds for local actions — nothing dropped, nothing reported twice by the sort -/
theorem projLint_perm (cfg : AL.PW.Cfg) (isNum urlOk : String → Bool) (env : AL.ProjLint.Env) (doc : AL.Yaml.Node) :
    (AL.ProjLint.lint cfg isNum urlOk env doc).Perm
      ((AL.PW.parse cfg doc).2.map ofPErr ++ rules cfg.lower isNum urlOk (AL.PW.parse cfg doc).1 env.labels ++
        AL.ProjCall.wcRule env.calls cfg.lower (AL.PW.parse cfg doc).1 ++
        (AL.ProjAction.simulate env.actions (AL.PW.parse cfg doc).1).action) := by
  simp only [AL.ProjLint.lint]
  exact AL.C09R.stableSort_perm _

/-- without a project nothing is added: no look-up answers, no diagnostic of rule workflow-call beyond the format check,
none for local actions -/
theorem no_project_adds_nothing_wc (lower : String → String) (w : AL.Ast.Workflow) :
    AL.ProjCall.wcRule { hasProject := false } lower w = [] := by
  have hfind : ∀ (c : AL.ProjCall.Cache) (s : String), (AL.ProjCall.find { hasProject := false } c s).2 = .nothing ∧
      (AL.ProjCall.find { hasProject := false } c s).1 = c := by
    intro c s
    simp [AL.ProjCall.find, AL.ProjCall.answer, AL.ProjCall.remember, AL.ProjCall.skipped]
  have hwc : ∀ (c : AL.ProjCall.Cache) (j : AL.Ast.Job), (AL.ProjCall.wcJob { hasProject := false } c j).2 = [] := by
    intro c j
    simp only [AL.ProjCall.wcJob]
    split
    · rfl
    · split
      · rfl
      · simp only [AL.ProjCall.wcUses]
        split
        · rfl
        · split
          · simp [(hfind c _).1, AL.ProjCall.wcFound]
          · split <;> rfl
  simp only [AL.ProjCall.wcRule, AL.ProjCall.simulate]
  generalize AL.ProjCall.initialCache { hasProject := false } w = c0
  generalize hj : w.jobs.getD [] = jobs
  have : ∀ (l : List (String × AL.Ast.Job)) (c : AL.ProjCall.Cache),
      (AL.ProjCall.simulateJobs { hasProject := false } lower jobs l c).flatMap (·.2.wc) = [] := by
    intro l
    induction l with
    | nil => intro c; rfl
    | cons e rest ih =>
      intro c
      obtain ⟨_, j⟩ := e
      simp only [AL.ProjCall.simulateJobs, List.flatMap_cons, hwc, List.nil_append]
      exact ih _
  exact this jobs c0

end AL.C02P
