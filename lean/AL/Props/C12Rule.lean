import AL.Props.C03Rule
import AL.Lemmas.SemaScope
/-
  C12 on the model of rule_expression.go (AL.RuleExpr, tied by `exprwf`): the KEYED refinement of C03's coverage theorem.

    every value string of the AST (`AL.C03R.valueStrs`) is checked UNDER THE WORKFLOW KEY THAT BELONGS TO ITS POSITION —
    `keyedStrs w` pairs every value string with the key GitHub's context-availability table assigns to its position
    (`""` where the table has no row: no context and no special function is available there) — :
    if every check of its text under that key yields a diagnostic (`BadUnder key`), the rule reports a diagnostic located
    at that string (`every_position_checked_under_its_key`).

  The key selects the row of the availability table (`AL.Visit.availability`, equal to the documentation's table by
  `AL.C12.code_eq_docs`), so "secrets is not available in a job's `if:`" is, through this theorem, a statement about
  EVERY job `if:` of EVERY workflow, and likewise for every other position.

  `BadUnder` quantifies over every scope `cx`, the case-folding function `cx.lower` included. The rule never changes
  `cx.lower`, so the theorem is proved in the sharper form `BadUnderL lower` (only scopes whose folding function is the
  rule's); `BadUnder key v → BadUnderL lower key v`.
-/
namespace AL.C12R
open AL AL.Ast AL.Sema AL.RuleExpr AL.C03R

/-- a text every check of which UNDER THE KEY `key` yields a diagnostic, whatever the scope -/
structure BadUnder (key : String) (v : String) : Prop where
  tmpl : ∀ cx u, (checkExprsIn cx key u v).2 ≠ []
  cond : ∀ cx, (checkOne cx key false (bytesOf v ++ [125, 125])).2 ≠ []

/-- the same, for the scopes that fold names with `lower` (the rule is run with ONE folding function) -/
structure BadUnderL (lower : String → String) (key : String) (v : String) : Prop where
  tmpl : ∀ (cx : Cx) u, cx.lower = lower → (checkExprsIn cx key u v).2 ≠ []
  cond : ∀ (cx : Cx), cx.lower = lower → (checkOne cx key false (bytesOf v ++ [125, 125])).2 ≠ []

theorem BadUnder.toL {key v : String} (h : BadUnder key v) (lower : String → String) : BadUnderL lower key v :=
  ⟨fun cx u _ => h.tmpl cx u, fun cx _ => h.cond cx⟩

/-- C03's hypothesis is the conjunction over all keys -/
theorem malformed_badUnder {v : String} (h : Malformed v) (key : String) : BadUnder key v :=
  ⟨fun cx u => h.tmpl cx key u, fun cx => h.cond cx key⟩

theorem malformed_iff (v : String) : Malformed v ↔ ∀ key, BadUnder key v :=
  ⟨malformed_badUnder, fun h => ⟨fun cx key u => (h key).tmpl cx u, fun cx key => (h key).cond cx⟩⟩

variable {lower : String → String}

/-! ### the checkers that pass ONE key on -/

theorem checkStrU_badK (cx : Cx) (hcx : cx.lower = lower) (u : Bool) (s : Str) (key : String)
    (h : BadUnderL lower key s.value) : Reported (checkStrU cx u (some s) key).2 s := by
  simp only [checkStrU]
  have := h.tmpl cx u hcx
  split
  · rename_i es heq
    rw [heq] at this
    exact at_nonempty s es this
  · rename_i ts es heq
    rw [heq] at this
    exact at_nonempty s _ (by simp; intro h; exact absurd h this)

theorem checkString_badK (cx : Cx) (hcx : cx.lower = lower) (s : Str) (key : String) (h : BadUnderL lower key s.value) :
    Reported (checkString cx (some s) key) s := checkStrU_badK cx hcx false s key h
theorem checkScriptString_badK (cx : Cx) (hcx : cx.lower = lower) (s : Str) (key : String) (h : BadUnderL lower key s.value) :
    Reported (checkScriptString cx (some s) key) s := checkStrU_badK cx hcx true s key h

theorem checkStrings_badK (cx : Cx) (hcx : cx.lower = lower) (ss : List Str) (key : String) (s : Str) (hm : s ∈ ss)
    (h : BadUnderL lower key s.value) : Reported (checkStrings cx (some ss) key) s := by
  obtain ⟨d, hd, e⟩ := checkString_badK cx hcx s key h
  exact ⟨d, by simp only [checkStrings, Option.getD_some, List.mem_flatMap]; exact ⟨s, hm, hd⟩, e⟩

theorem checkOneExpression_badK (cx : Cx) (hcx : cx.lower = lower) (s : Str) (what key : String)
    (h : BadUnderL lower key s.value) : Reported (checkOneExpression cx (some s) what key).2 s := by
  simp only [checkOneExpression]
  have := h.tmpl cx false hcx
  generalize checkExprsIn cx key false s.value = r at this ⊢
  obtain ⟨ts, es⟩ := r
  simp only at this
  rcases ts with _ | (_ | ⟨t, _ | ⟨t2, rest⟩⟩)
  · exact at_nonempty s es this
  · exact at_nonempty s _ (by simp)
  · exact at_nonempty s es this
  · exact at_nonempty s _ (by simp)

theorem checkBool_badK (cx : Cx) (hcx : cx.lower = lower) (b : Option BoolV) (key : String) (s : Str) (hm : s ∈ boolStrs b)
    (h : BadUnderL lower key s.value) : Reported (checkBool cx b key) s := by
  cases b with
  | none => simp [boolStrs] at hm
  | some b =>
    have he := mem_toList (by simpa [boolStrs] using hm)
    simp only [checkBool, he]
    have := checkOneExpression_badK cx hcx s "bool value" key h
    split <;> first | exact this | exact this.left

theorem checkNumberExpression_badK (cx : Cx) (hcx : cx.lower = lower) (s : Str) (what key : String)
    (h : BadUnderL lower key s.value) : Reported (checkNumberExpression cx (some s) what key).2 s :=
  mustBe_bad _ _ _ s _ (checkOneExpression_badK cx hcx s what key h)
theorem checkObjectExpression_badK (cx : Cx) (hcx : cx.lower = lower) (s : Str) (what key : String)
    (h : BadUnderL lower key s.value) : Reported (checkObjectExpression cx (some s) what key).2 s :=
  mustBe_bad _ _ _ s _ (checkOneExpression_badK cx hcx s what key h)
theorem checkArrayExpression_badK (cx : Cx) (hcx : cx.lower = lower) (s : Str) (what key : String)
    (h : BadUnderL lower key s.value) : Reported (checkArrayExpression cx (some s) what key).2 s :=
  mustBe_bad _ _ _ s _ (checkOneExpression_badK cx hcx s what key h)

theorem checkInt_badK (cx : Cx) (hcx : cx.lower = lower) (i : Option IntV) (key : String) (s : Str) (hm : s ∈ intStrs i)
    (h : BadUnderL lower key s.value) : Reported (checkInt cx i key) s := by
  cases i with
  | none => simp [intStrs] at hm
  | some i =>
    have he := mem_toList (by simpa [intStrs] using hm)
    simp only [checkInt, he]
    exact checkNumberExpression_badK cx hcx s _ key h

theorem checkFloat_badK (cx : Cx) (hcx : cx.lower = lower) (f : Option FloatV) (key : String) (s : Str) (hm : s ∈ floatStrs f)
    (h : BadUnderL lower key s.value) : Reported (checkFloat cx f key) s := by
  cases f with
  | none => simp [floatStrs] at hm
  | some f =>
    have he := mem_toList (by simpa [floatStrs] using hm)
    simp only [checkFloat, he]
    exact checkNumberExpression_badK cx hcx s _ key h

theorem checkString_opt_badK (cx : Cx) (hcx : cx.lower = lower) (o : Option Str) (key : String) (s : Str) (hm : s ∈ o.toList)
    (h : BadUnderL lower key s.value) : Reported (checkString cx o key) s := by
  rw [mem_toList hm]; exact checkString_badK cx hcx s key h

theorem checkStrings_opt_badK (cx : Cx) (hcx : cx.lower = lower) (o : Option (List Str)) (key : String) (s : Str)
    (hm : s ∈ o.getD []) (h : BadUnderL lower key s.value) : Reported (checkStrings cx o key) s := by
  cases o with
  | none => simp at hm
  | some ss => exact checkStrings_badK cx hcx ss key s (by simpa using hm) h

theorem checkEnv_badK (cx : Cx) (hcx : cx.lower = lower) (e : Option Ast.Env) (key : String) (s : Str) (hm : s ∈ envStrs e)
    (h : BadUnderL lower key s.value) : Reported (RuleExpr.checkEnv cx e key) s := by
  cases e with
  | none => simp [envStrs] at hm
  | some e =>
    simp only [envStrs] at hm
    simp only [RuleExpr.checkEnv]
    cases hv : e.vars with
    | some vars =>
      simp only [hv, List.mem_map] at hm
      obtain ⟨kv, hk, rfl⟩ := hm
      exact flatMap_reported vars _ kv hk _ (checkString_badK cx hcx kv.2.value key h).right
    | none =>
      simp only [hv] at hm
      rw [mem_toList hm]
      exact checkObjectExpression_badK cx hcx s "env" key h

theorem checkConcurrency_badK (cx : Cx) (hcx : cx.lower = lower) (c : Option Concurrency) (key : String) (s : Str)
    (hm : s ∈ concurrencyStrs c) (h : BadUnderL lower key s.value) : Reported (checkConcurrency cx c key) s := by
  cases c with
  | none => simp [concurrencyStrs] at hm
  | some c =>
    simp only [concurrencyStrs, List.mem_append] at hm
    simp only [checkConcurrency]
    rcases hm with hm | hm
    · exact (checkString_opt_badK cx hcx _ _ s hm h).left
    · exact (checkBool_badK cx hcx _ _ s hm h).right

theorem checkDefaults_badK (cx : Cx) (hcx : cx.lower = lower) (d : Option Defaults) (key : String) (s : Str)
    (hm : s ∈ defaultsStrs d) (h : BadUnderL lower key s.value) : Reported (checkDefaults cx d key) s := by
  cases d with
  | none => simp [defaultsStrs] at hm
  | some d =>
    simp only [defaultsStrs] at hm
    simp only [checkDefaults]
    cases hr : d.run with
    | none => simp [hr] at hm
    | some r =>
      simp only [hr, List.mem_append] at hm
      rcases hm with hm | hm
      · exact (checkString_opt_badK cx hcx _ _ s hm h).left
      · exact (checkString_opt_badK cx hcx _ _ s hm h).right

theorem checkIfCondition_badK (cx : Cx) (hcx : cx.lower = lower) (o : Option Str) (key : String) (s : Str) (hm : s ∈ o.toList)
    (h : BadUnderL lower key s.value) : Reported (checkIfCondition cx o key) s := by
  rw [mem_toList hm]
  simp only [checkIfCondition]
  split
  · have := checkStrU_badK cx hcx false s key h
    split
    · split
      · exact this.left
      · exact this
    · exact this
  · have hc := h.cond cx hcx
    have hs := checkOne_some_nil cx key false (bytesOf s.value ++ [125, 125])
    cases hr : checkOne cx key false (bytesOf s.value ++ [125, 125]) with
    | mk t es =>
      rw [hr] at hc hs
      cases t with
      | none => exact at_nonempty s es hc
      | some p => exact absurd (hs p rfl) hc

/-! ### the matrix: everything under `jobs.<job_id>.strategy` -/

theorem rawStringTy_badK (cx : Cx) (hcx : cx.lower = lower) (isNum : IsNumber) (v : String) (p : RuleExpr.Pos)
    (h : BadUnderL lower "jobs.<job_id>.strategy" v) : Reported (rawStringTy cx isNum v p).2 ⟨v, false, p⟩ := by
  have hne := h.tmpl cx false hcx
  have : Reported (at_ ⟨v, false, p⟩ (checkExprsIn cx "jobs.<job_id>.strategy" false v).2) ⟨v, false, p⟩ :=
    at_nonempty _ _ hne
  simp only [rawStringTy]
  split
  · split <;> exact this
  · split
    · exact this
    · split
      · exact this
      · split <;> exact this

mutual
theorem rawTy_badK (cx : Cx) (hcx : cx.lower = lower) (isNum : IsNumber) (s : Str)
    (h : BadUnderL lower "jobs.<job_id>.strategy" s.value) :
    ∀ (v : AL.Matrix.Raw), s ∈ rawStrs v → Reported (rawTy cx isNum v).2 s
  | .str v p, hm => by
    simp only [rawStrs, List.mem_singleton] at hm
    subst hm
    simp only [rawTy]
    exact rawStringTy_badK cx hcx isNum v p h
  | .arr es _, hm => by
    rw [rawStrs] at hm
    cases es with
    | nil => simp [rawStrsL] at hm
    | cons e rest =>
      simp only [rawStrsL, List.mem_append] at hm
      simp only [rawTy]
      rcases hm with hm | hm
      · exact (rawTy_badK cx hcx isNum s h e hm).left
      · exact (rawFold_badK cx hcx isNum s h _ rest hm).right
  | .obj ps _, hm => by
    rw [rawStrs] at hm
    simp only [rawTy]
    exact rawProps_badK cx hcx isNum s h ps hm
theorem rawFold_badK (cx : Cx) (hcx : cx.lower = lower) (isNum : IsNumber) (s : Str)
    (h : BadUnderL lower "jobs.<job_id>.strategy" s.value) :
    ∀ (acc : Ty) (vs : List AL.Matrix.Raw), s ∈ rawStrsL vs → Reported (rawFold cx isNum acc vs).2 s
  | _, [], hm => by simp [rawStrsL] at hm
  | acc, v :: vs, hm => by
    simp only [rawStrsL, List.mem_append] at hm
    rw [rawFold]
    rcases hm with hm | hm
    · exact (rawTy_badK cx hcx isNum s h v hm).left
    · exact (rawFold_badK cx hcx isNum s h _ vs hm).right
theorem rawProps_badK (cx : Cx) (hcx : cx.lower = lower) (isNum : IsNumber) (s : Str)
    (h : BadUnderL lower "jobs.<job_id>.strategy" s.value) :
    ∀ (ps : List (String × AL.Matrix.Raw)), s ∈ rawStrsP ps → Reported (RuleExpr.rawProps cx isNum ps).2 s
  | [], hm => by simp [rawStrsP] at hm
  | (k, v) :: ps, hm => by
    simp only [rawStrsP, List.mem_append] at hm
    rw [RuleExpr.rawProps]
    rcases hm with hm | hm
    · exact (rawTy_badK cx hcx isNum s h v hm).left
    · exact (rawProps_badK cx hcx isNum s h ps hm).right
end

theorem rowTy_badK (cx : Cx) (hcx : cx.lower = lower) (isNum : IsNumber) (r : MatrixRow) (s : Str) (hm : s ∈ rowStrs r)
    (h : BadUnderL lower "jobs.<job_id>.strategy" s.value) : Reported (rowTy cx isNum r).2 s := by
  simp only [rowStrs] at hm
  simp only [rowTy]
  cases he : r.expr with
  | some e =>
    simp only [he, List.mem_singleton] at hm
    subst hm
    exact checkArrayExpression_badK cx hcx s _ _ h
  | none =>
    simp only [he] at hm
    cases hv : r.values.getD [] with
    | nil => simp [hv, rawStrsL] at hm
    | cons v vs =>
      simp only [hv, rawStrsL, List.mem_append] at hm
      simp only
      rcases hm with hm | hm
      · exact (rawTy_badK cx hcx isNum s h v hm).left
      · exact (rawFold_badK cx hcx isNum s h _ vs hm).right

theorem excludeDiags_badK (cx : Cx) (hcx : cx.lower = lower) (isNum : IsNumber) (ex : Option MatrixCombinations) (s : Str)
    (hm : s ∈ combosStrs ex) (h : BadUnderL lower "jobs.<job_id>.strategy" s.value) :
    Reported (excludeDiags cx isNum ex) s := by
  cases ex with
  | none => simp [combosStrs] at hm
  | some ex =>
    simp only [combosStrs] at hm
    simp only [excludeDiags]
    cases he : ex.expr with
    | some e =>
      simp only [he, List.mem_singleton] at hm
      subst hm
      have := checkArrayExpression_badK cx hcx s "exclude" "jobs.<job_id>.strategy" h
      simp only
      split
      · split
        · exact this
        · exact this.left
      · exact this
    | none =>
      simp only [he, List.mem_flatMap] at hm
      obtain ⟨c, hc, hs⟩ := hm
      refine flatMap_reported _ _ c hc s ?_
      simp only [comboStrs] at hs
      cases hce : c.expr with
      | some e =>
        simp only [hce, List.mem_singleton] at hs
        subst hs
        exact checkObjectExpression_badK cx hcx s _ _ h
      | none =>
        simp only [hce, List.mem_flatMap] at hs
        obtain ⟨kv, hk, hv⟩ := hs
        exact flatMap_reported _ _ kv hk s (rawTy_badK cx hcx isNum s h _ hv)

theorem includeCombo_badK (cx : Cx) (hcx : cx.lower = lower) (isNum : IsNumber) (acc : Ty × List Diag) (c : MatrixCombination)
    (s : Str) (hm : s ∈ comboStrs c) (h : BadUnderL lower "jobs.<job_id>.strategy" s.value) :
    Reported (includeCombo cx isNum acc c).2 s := by
  simp only [comboStrs] at hm
  simp only [includeCombo]
  cases he : c.expr with
  | some e =>
    simp only [he, List.mem_singleton] at hm
    subst hm
    have := checkOneExpression_badK cx hcx s "matrix combination at element of include section" "jobs.<job_id>.strategy" h
    simp only
    split <;> exact this.right
  | none =>
    simp only [he, List.mem_flatMap] at hm
    obtain ⟨kv, hk, hv⟩ := hm
    simp only
    refine foldl_reported _ s ?_ _ kv hk ?_ acc
    · intro a x d hd; split <;> simp [hd]
    · intro a
      have := rawTy_badK cx hcx isNum s h _ hv
      split <;> exact this.right

theorem checkMatrix_badK (cx : Cx) (hcx : cx.lower = lower) (isNum : IsNumber) (m : Matrix) (s : Str) (hm : s ∈ matrixStrs m)
    (h : BadUnderL lower "jobs.<job_id>.strategy" s.value) : Reported (checkMatrix cx isNum m).2 s := by
  simp only [matrixStrs] at hm
  simp only [checkMatrix]
  cases he : m.expr with
  | some e =>
    simp only [he, List.mem_singleton] at hm
    subst hm
    have := checkObjectExpression_badK cx hcx s "matrix" "jobs.<job_id>.strategy" h
    simp only [matrixExprTy]
    split <;> exact this
  | none =>
    simp only [he, List.mem_append] at hm
    simp only
    have hrows : s ∈ (m.rows.getD []).flatMap (fun kv => rowStrs kv.2) →
        Reported ((m.rows.getD []).foldl (fun (acc : List (String × Ty) × List Diag) kv =>
          (Ty.setProp kv.1 (rowTy cx isNum kv.2).1 acc.1, acc.2 ++ (rowTy cx isNum kv.2).2)) ([], [])).2 s := by
      intro hr
      obtain ⟨kv, hk, hv⟩ := List.mem_flatMap.1 hr
      refine foldl_reported _ s ?_ _ kv hk ?_ _
      · intro a x d hd; simp [hd]
      · intro a; exact (rowTy_badK cx hcx isNum kv.2 s hv h).right
    cases hi : m.incl with
    | none =>
      simp only [hi, combosStrs, List.mem_nil_iff, or_false] at hm
      simp only
      rcases hm with hm | hm
      · exact (excludeDiags_badK cx hcx isNum _ s hm h).left
      · exact (hrows hm).right
    | some inc =>
      simp only [hi] at hm ⊢
      cases hie : inc.expr with
      | some e =>
        simp only
        rcases hm with (hm | hm) | hm
        · exact Reported.left (Reported.left (excludeDiags_badK cx hcx isNum _ s hm h))
        · exact Reported.left (Reported.right (hrows hm))
        · simp only [combosStrs, hie, List.mem_singleton] at hm
          subst hm
          exact Reported.right (checkOneExpression_badK cx hcx s "include" "jobs.<job_id>.strategy" h)
      | none =>
        simp only
        rcases hm with (hm | hm) | hm
        · exact Reported.left (Reported.left (excludeDiags_badK cx hcx isNum _ s hm h))
        · exact Reported.left (Reported.right (hrows hm))
        · simp only [combosStrs, hie, List.mem_flatMap] at hm
          obtain ⟨c, hc, hs⟩ := hm
          refine Reported.right ?_
          exact foldl_reported _ s (fun a x d hd => includeCombo_keep cx isNum a x d hd) _ c hc
            (fun a => includeCombo_badK cx hcx isNum a c s hs h) _

theorem jobMatrix_badK (cx : Cx) (hcx : cx.lower = lower) (isNum : IsNumber) (n : Job) (s : Str) (hm : s ∈ matrixOfStrs n)
    (h : BadUnderL lower "jobs.<job_id>.strategy" s.value) : Reported (jobMatrix cx isNum n).2 s := by
  simp only [matrixOfStrs] at hm
  simp only [jobMatrix]
  cases hs : n.strategy with
  | none => simp [hs] at hm
  | some st =>
    simp only [hs] at hm
    simp only
    cases hmx : st.matrix with
    | none => simp [hmx] at hm
    | some m =>
      simp only [hmx] at hm
      exact checkMatrix_badK cx hcx isNum m s hm h

/-! ### the keyed enumeration — position by position, from the documentation's table

`tag key l`: the strings `l` sit at a position whose key is `key`. The strings themselves are those of `AL.C03R`
(`keyedStrs_fst`); what is new is the second component. -/

def tag (key : String) (l : List Str) : List (Str × String) := l.map fun s => (s, key)

theorem mem_tag {key k : String} {l : List Str} {s : Str} : (s, k) ∈ tag key l ↔ s ∈ l ∧ k = key := by
  simp only [tag, List.mem_map, Prod.mk.injEq]
  constructor
  · rintro ⟨a, ha, rfl, rfl⟩; exact ⟨ha, rfl⟩
  · rintro ⟨ha, rfl⟩; exact ⟨s, ha, rfl, rfl⟩

@[simp] theorem tag_fst (key : String) (l : List Str) : (tag key l).map Prod.fst = l := by
  simp [tag, Function.comp_def]

/-- a container: `image`, `ports`, `volumes`, `options` have the key of the section, `credentials` and `env` their own rows -/
def containerKStrs (c : Option Container) (kImage kCred kEnv kOther : String) : List (Str × String) :=
  match c with
  | none => []
  | some c =>
    tag kImage c.image.toList ++
    (match c.credentials with | some cr => tag kCred (cr.username.toList ++ cr.password.toList) | none => []) ++
    tag kEnv (envStrs c.env) ++ tag kOther (c.ports.getD []) ++ tag kOther (c.volumes.getD []) ++ tag kOther c.options.toList

def execKStrs : Exec → List (Str × String)
  | .run r =>
    tag "jobs.<job_id>.steps.run" r.run.toList ++ tag "" r.shell.toList ++
    tag "jobs.<job_id>.steps.working-directory" r.workingDirectory.toList
  | .action a =>
    tag "" a.uses.toList ++ tag "jobs.<job_id>.steps.with" ((a.inputs.getD []).map (·.2.value)) ++
    tag "jobs.<job_id>.steps.with" a.entrypoint.toList ++ tag "jobs.<job_id>.steps.with" a.args.toList
  | .none => []

def stepKStrs (st : Step) : List (Str × String) :=
  tag "jobs.<job_id>.steps.name" st.name.toList ++ tag "jobs.<job_id>.steps.if" st.cond.toList ++ execKStrs st.exec ++
  tag "jobs.<job_id>.steps.env" (envStrs st.env) ++
  tag "jobs.<job_id>.steps.continue-on-error" (boolStrs st.continueOnError) ++
  tag "jobs.<job_id>.steps.timeout-minutes" (floatStrs st.timeoutMinutes)

def servicesKStrs (s : Option Services) : List (Str × String) :=
  match s with
  | none => []
  | some s =>
    tag "jobs.<job_id>.services" s.expr.toList ++
    (s.value.getD []).flatMap fun kv =>
      containerKStrs (some kv.2.container) "jobs.<job_id>.services" "jobs.<job_id>.services.<service_id>.credentials"
        "jobs.<job_id>.services.<service_id>.env.<env_id>" "jobs.<job_id>.services"

def callKStrs (c : Option WorkflowCall) : List (Str × String) :=
  match c with
  | none => []
  | some c => match c.uses with
    | none => []
    | some u =>
      tag "" [u] ++ tag "jobs.<job_id>.with.<with_id>" ((c.inputs.getD []).map (·.2.value)) ++
      tag "jobs.<job_id>.secrets.<secrets_id>" ((c.secrets.getD []).map (·.2.value))

def jobPreKStrs (n : Job) : List (Str × String) :=
  tag "jobs.<job_id>.name" n.name.toList ++ tag "" (n.needs.getD []) ++ tag "jobs.<job_id>.runs-on" (runnerStrs n.runsOn) ++
  tag "jobs.<job_id>.concurrency" (concurrencyStrs n.concurrency) ++ tag "jobs.<job_id>.env" (envStrs n.env) ++
  tag "jobs.<job_id>.defaults.run" (defaultsStrs n.defaults) ++ tag "jobs.<job_id>.if" n.cond.toList ++
  tag "jobs.<job_id>.strategy" (strategyStrs n.strategy) ++
  tag "jobs.<job_id>.continue-on-error" (boolStrs n.continueOnError) ++
  tag "jobs.<job_id>.timeout-minutes" (floatStrs n.timeoutMinutes) ++
  -- the documentation's key of `image` is `jobs.<job_id>.container.image`: see the block at the end of the file
  containerKStrs n.container "jobs.<job_id>.container" "jobs.<job_id>.container.credentials"
    "jobs.<job_id>.container.env.<env_id>" "jobs.<job_id>.container" ++
  servicesKStrs n.services ++ callKStrs n.workflowCall

def jobPostKStrs (n : Job) : List (Str × String) :=
  (match n.environment with
   | some e => tag "jobs.<job_id>.environment" e.name.toList ++ tag "jobs.<job_id>.environment.url" e.url.toList
   | none => []) ++
  tag "jobs.<job_id>.outputs.<output_id>" ((n.outputs.getD []).map (·.2.value))

/-- every value string of a job with its key (the matrix, whatever its shape, is under `jobs.<job_id>.strategy`) -/
def jobKStrs (n : Job) : List (Str × String) :=
  tag "jobs.<job_id>.strategy" (matrixOfStrs n) ++ jobPreKStrs n ++ (n.steps.getD []).flatMap stepKStrs ++ jobPostKStrs n

def callInputKStrs (i : Ast.CallInput) : List (Str × String) :=
  tag "" i.description.toList ++ tag "" (boolStrs i.required) ++
  tag "on.workflow_call.inputs.<inputs_id>.default" i.dflt.toList

/-- `on:` — the table has two rows for it, both under `workflow_call` (the second one, the output values, is listed
by `keyedStrs`); everything else is checked without a key -/
def eventKStrs : Ast.Event → List (Str × String)
  | .webhook e => tag "" (eventStrs (.webhook e))
  | .schedule cron p => tag "" (eventStrs (.schedule cron p))
  | .dispatch inputs p => tag "" (eventStrs (.dispatch inputs p))
  | .repoDispatch types p => tag "" (eventStrs (.repoDispatch types p))
  | .call inputs secrets outputs _ =>
    (inputs.getD []).flatMap callInputKStrs ++
    tag "" ((secrets.getD []).flatMap fun kv => kv.2.description.toList ++ boolStrs kv.2.required) ++
    tag "" ((outputs.getD []).flatMap fun kv => kv.2.description.toList)

/-- **every value string of the workflow with the key of its position** (`""` where the table has no row for it) -/
def keyedStrs (w : Workflow) : List (Str × String) :=
  tag "" w.name.toList ++ (w.on.getD []).flatMap eventKStrs ++
  (tag "run-name" w.runName.toList ++ tag "env" (envStrs w.env) ++ tag "" (defaultsStrs w.defaults) ++
    tag "concurrency" (concurrencyStrs w.concurrency)) ++
  (w.jobs.getD []).flatMap (fun kv => jobKStrs kv.2) ++
  tag "on.workflow_call.outputs.<output_id>.value" (outValueStrs w)

/-! #### the keyed enumeration lists exactly the strings of `AL.C03R.valueStrs`, in the same order -/

theorem flatMap_fst {α : Type} (l : List α) (f : α → List (Str × String)) (g : α → List Str)
    (h : ∀ a, (f a).map Prod.fst = g a) : (l.flatMap f).map Prod.fst = l.flatMap g := by
  induction l with
  | nil => rfl
  | cons a rest ih => simp only [List.flatMap_cons, List.map_append, h, ih]

theorem containerKStrs_fst (c : Option Container) (k1 k2 k3 k4 : String) :
    (containerKStrs c k1 k2 k3 k4).map Prod.fst = containerStrs c := by
  cases c with
  | none => rfl
  | some c =>
    simp only [containerKStrs, containerStrs, List.map_append, tag_fst]
    cases c.credentials <;> simp only [tag_fst, List.map_nil]

theorem execKStrs_fst (e : Exec) : (execKStrs e).map Prod.fst = execStrs e := by
  cases e <;> simp only [execKStrs, execStrs, List.map_append, tag_fst, List.map_nil]

theorem stepKStrs_fst (st : Step) : (stepKStrs st).map Prod.fst = stepStrs st := by
  simp only [stepKStrs, stepStrs, List.map_append, tag_fst, execKStrs_fst]

theorem servicesKStrs_fst (s : Option Services) : (servicesKStrs s).map Prod.fst = servicesStrs s := by
  cases s with
  | none => rfl
  | some s =>
    simp only [servicesKStrs, servicesStrs, List.map_append, tag_fst]
    congr 1
    exact flatMap_fst _ _ _ (fun kv => containerKStrs_fst _ _ _ _ _)

theorem callKStrs_fst (c : Option WorkflowCall) : (callKStrs c).map Prod.fst = callStrs c := by
  cases c with
  | none => rfl
  | some c =>
    simp only [callKStrs, callStrs]
    cases c.uses <;> simp only [List.map_append, tag_fst, List.map_nil]

theorem jobPreKStrs_fst (n : Job) : (jobPreKStrs n).map Prod.fst = jobPreStrs n := by
  simp only [jobPreKStrs, jobPreStrs, List.map_append, tag_fst, containerKStrs_fst, servicesKStrs_fst, callKStrs_fst]

theorem jobPostKStrs_fst (n : Job) : (jobPostKStrs n).map Prod.fst = jobPostStrs n := by
  simp only [jobPostKStrs, jobPostStrs, List.map_append, tag_fst]
  cases n.environment <;> simp only [List.map_append, tag_fst, List.map_nil]

theorem jobKStrs_fst (n : Job) : (jobKStrs n).map Prod.fst = jobStrs n := by
  simp only [jobKStrs, jobStrs, List.map_append, tag_fst, jobPreKStrs_fst, jobPostKStrs_fst]
  rw [flatMap_fst _ _ stepStrs stepKStrs_fst]

theorem callInputKStrs_fst (i : Ast.CallInput) : (callInputKStrs i).map Prod.fst = callInputStrs i := by
  simp only [callInputKStrs, callInputStrs, List.map_append, tag_fst]

theorem eventKStrs_fst (e : Ast.Event) : (eventKStrs e).map Prod.fst = eventStrs e := by
  cases e with
  | call inputs secrets outputs p =>
    simp only [eventKStrs, eventStrs, List.map_append, tag_fst]
    rw [flatMap_fst _ _ callInputStrs callInputKStrs_fst]
  | _ => simp only [eventKStrs, tag_fst]

/-- the first components of `keyedStrs` ARE `valueStrs`: no string of C03's enumeration is missing, none is added -/
theorem keyedStrs_fst (w : Workflow) : (keyedStrs w).map Prod.fst = valueStrs w := by
  simp only [keyedStrs, valueStrs, List.map_append, tag_fst]
  rw [flatMap_fst _ _ eventStrs eventKStrs_fst, flatMap_fst _ _ (fun kv => jobStrs kv.2) (fun kv => jobKStrs_fst kv.2)]

theorem every_value_keyed (w : Workflow) (s : Str) (hm : s ∈ valueStrs w) : ∃ key, (s, key) ∈ keyedStrs w := by
  rw [← keyedStrs_fst] at hm
  obtain ⟨⟨s', k⟩, hp, rfl⟩ := List.mem_map.1 hm
  exact ⟨k, hp⟩

theorem keyed_is_value (w : Workflow) (s : Str) (key : String) (hm : (s, key) ∈ keyedStrs w) : s ∈ valueStrs w := by
  rw [← keyedStrs_fst]
  exact List.mem_map.2 ⟨(s, key), hm, rfl⟩

/-! ### containers, steps, jobs -/

theorem checkContainer_badK (cx : Cx) (hcx : cx.lower = lower) (c : Option Container) (key pre kCred kEnv : String)
    (hc : (if pre ≠ "" then key ++ "." ++ pre else key) ++ ".credentials" = kCred)
    (he : (if pre ≠ "" then key ++ "." ++ pre else key) ++ ".env.<env_id>" = kEnv)
    (s : Str) (k : String) (hm : (s, k) ∈ containerKStrs c key kCred kEnv key) (h : BadUnderL lower k s.value) :
    Reported (checkContainer cx c key pre) s := by
  cases c with
  | none => simp [containerKStrs] at hm
  | some c =>
    simp only [containerKStrs, List.mem_append] at hm
    simp only [checkContainer, hc, he]
    rcases hm with ((((hm | hm) | hm) | hm) | hm) | hm
    · replace hm := mem_tag.1 hm; obtain ⟨hm, rfl⟩ := hm
      exact (checkString_opt_badK cx hcx _ _ s hm h).left.left.left.left.left
    · refine Reported.left (Reported.left (Reported.left (Reported.left (Reported.right ?_))))
      cases hcr : c.credentials with
      | none => simp [hcr] at hm
      | some cr =>
        simp only [hcr] at hm
        replace hm := mem_tag.1 hm; obtain ⟨hm, rfl⟩ := hm
        rcases List.mem_append.1 hm with hm | hm
        · exact (checkString_opt_badK cx hcx _ _ s hm h).left
        · exact (checkString_opt_badK cx hcx _ _ s hm h).right
    · replace hm := mem_tag.1 hm; obtain ⟨hm, rfl⟩ := hm
      exact Reported.left (Reported.left (Reported.left (Reported.right (checkEnv_badK cx hcx _ _ s hm h))))
    · replace hm := mem_tag.1 hm; obtain ⟨hm, rfl⟩ := hm
      exact Reported.left (Reported.left (Reported.right (checkStrings_opt_badK cx hcx _ _ s hm h)))
    · replace hm := mem_tag.1 hm; obtain ⟨hm, rfl⟩ := hm
      exact Reported.left (Reported.right (checkStrings_opt_badK cx hcx _ _ s hm h))
    · replace hm := mem_tag.1 hm; obtain ⟨hm, rfl⟩ := hm
      exact Reported.right (checkString_opt_badK cx hcx _ _ s hm h)

theorem stepExec_badK (cx : Cx) (hcx : cx.lower = lower) (e : Exec) (s : Str) (k : String) (hm : (s, k) ∈ execKStrs e)
    (h : BadUnderL lower k s.value) : Reported (stepExec cx e).1 s := by
  cases e with
  | none => simp [execKStrs] at hm
  | run e =>
    simp only [execKStrs, List.mem_append] at hm
    simp only [stepExec]
    rcases hm with (hm | hm) | hm
    · replace hm := mem_tag.1 hm; obtain ⟨hm, rfl⟩ := hm
      rw [mem_toList hm]; exact (checkScriptString_badK cx hcx s _ h).left.left
    · replace hm := mem_tag.1 hm; obtain ⟨hm, rfl⟩ := hm
      exact (checkString_opt_badK cx hcx _ _ s hm h).right.left
    · replace hm := mem_tag.1 hm; obtain ⟨hm, rfl⟩ := hm
      exact (checkString_opt_badK cx hcx _ _ s hm h).right
  | action e =>
    simp only [execKStrs, List.mem_append] at hm
    simp only [stepExec]
    rcases hm with ((hm | hm) | hm) | hm
    · replace hm := mem_tag.1 hm; obtain ⟨hm, rfl⟩ := hm
      exact (checkString_opt_badK cx hcx _ _ s hm h).left.left.left
    · replace hm := mem_tag.1 hm; obtain ⟨hm, rfl⟩ := hm
      obtain ⟨kv, hk, rfl⟩ := List.mem_map.1 hm
      refine Reported.left (Reported.left (Reported.right ?_))
      refine flatMap_reported _ _ kv hk _ ?_
      exact ite_reported _ _ _ _ (checkScriptString_badK cx hcx _ _ h) (checkString_badK cx hcx _ _ h)
    · replace hm := mem_tag.1 hm; obtain ⟨hm, rfl⟩ := hm
      exact (checkString_opt_badK cx hcx _ _ s hm h).right.left
    · replace hm := mem_tag.1 hm; obtain ⟨hm, rfl⟩ := hm
      exact (checkString_opt_badK cx hcx _ _ s hm h).right

theorem stepDiags_badK (cx : Cx) (hcx : cx.lower = lower) (n : Step) (s : Str) (k : String) (hm : (s, k) ∈ stepKStrs n)
    (h : BadUnderL lower k s.value) : Reported (stepDiags cx n) s := by
  simp only [stepKStrs, List.mem_append] at hm
  simp only [stepDiags]
  rcases hm with ((((hm | hm) | hm) | hm) | hm) | hm
  · replace hm := mem_tag.1 hm; obtain ⟨hm, rfl⟩ := hm
    exact (checkString_opt_badK cx hcx _ _ s hm h).left.left.left.left.left
  · replace hm := mem_tag.1 hm; obtain ⟨hm, rfl⟩ := hm
    exact (checkIfCondition_badK cx hcx _ _ s hm h).right.left.left.left.left
  · exact (stepExec_badK cx hcx _ s k hm h).right.left.left.left
  · replace hm := mem_tag.1 hm; obtain ⟨hm, rfl⟩ := hm
    exact (checkEnv_badK cx hcx _ _ s hm h).right.left.left
  · replace hm := mem_tag.1 hm; obtain ⟨hm, rfl⟩ := hm
    exact (checkBool_badK cx hcx _ _ s hm h).right.left
  · replace hm := mem_tag.1 hm; obtain ⟨hm, rfl⟩ := hm
    exact (checkFloat_badK cx hcx _ _ s hm h).right

theorem visitStep_lower (cx : Cx) (n : Step) : (visitStep cx n).1.lower = cx.lower := by
  simp only [visitStep]
  split <;> rfl

theorem visitSteps_lower : ∀ (steps : List Step) (cx : Cx), (visitSteps cx steps).1.lower = cx.lower
  | [], _ => rfl
  | st :: rest, cx => by
    simp only [visitSteps]
    rw [visitSteps_lower rest, visitStep_lower]

theorem visitStep_badK (cx : Cx) (hcx : cx.lower = lower) (n : Step) (s : Str) (k : String) (hm : (s, k) ∈ stepKStrs n)
    (h : BadUnderL lower k s.value) : Reported (visitStep cx n).2 s := by
  simp only [visitStep]
  split
  · exact stepDiags_badK cx hcx n s k hm h
  · exact (stepDiags_badK cx hcx n s k hm h).left

theorem visitSteps_badK (s : Str) (k : String) (h : BadUnderL lower k s.value) : ∀ (steps : List Step) (cx : Cx),
    cx.lower = lower → (s, k) ∈ steps.flatMap stepKStrs → Reported (visitSteps cx steps).2 s
  | [], _, _, hm => by simp at hm
  | st :: rest, cx, hcx, hm => by
    simp only [List.flatMap_cons, List.mem_append] at hm
    simp only [visitSteps]
    rcases hm with hm | hm
    · exact (visitStep_badK cx hcx st s k hm h).left
    · exact (visitSteps_badK s k h rest _ ((visitStep_lower cx st).trans hcx) hm).right

theorem runsOnDiags_badK (cx : Cx) (hcx : cx.lower = lower) (r : Option Runner) (s : Str) (hm : s ∈ runnerStrs r)
    (h : BadUnderL lower "jobs.<job_id>.runs-on" s.value) : Reported (runsOnDiags cx r) s := by
  cases r with
  | none => simp [runnerStrs] at hm
  | some r =>
    simp only [runnerStrs, List.mem_append] at hm
    simp only [runsOnDiags]
    rcases hm with hm | hm
    · refine Reported.left ?_
      cases he : r.labelsExpr with
      | some e =>
        simp only [he, List.mem_singleton] at hm
        subst hm
        have := checkOneExpression_badK cx hcx s "runner label at \"runs-on\" section" "jobs.<job_id>.runs-on" h
        simp only
        split <;> first | exact this | exact this.left
      | none =>
        simp only [he] at hm
        simp only
        cases hl : r.labels with
        | none => simp [hl] at hm
        | some ls => exact flatMap_reported _ _ s (by simpa [hl] using hm) s (checkString_badK cx hcx s _ h)
    · exact (checkString_opt_badK cx hcx _ _ s hm h).right

theorem strategyDiags_badK (cx : Cx) (hcx : cx.lower = lower) (st : Option Strategy) (s : Str) (hm : s ∈ strategyStrs st)
    (h : BadUnderL lower "jobs.<job_id>.strategy" s.value) : Reported (strategyDiags cx st) s := by
  cases st with
  | none => simp [strategyStrs] at hm
  | some st =>
    simp only [strategyStrs, List.mem_append] at hm
    simp only [strategyDiags]
    rcases hm with hm | hm
    · exact (checkBool_badK cx hcx _ _ s hm h).left
    · exact (checkInt_badK cx hcx _ _ s hm h).right

theorem servicesDiags_badK (cx : Cx) (hcx : cx.lower = lower) (sv : Option Services) (s : Str) (k : String)
    (hm : (s, k) ∈ servicesKStrs sv) (h : BadUnderL lower k s.value) : Reported (servicesDiags cx sv) s := by
  cases sv with
  | none => simp [servicesKStrs] at hm
  | some sv =>
    simp only [servicesKStrs, List.mem_append, List.mem_flatMap] at hm
    simp only [servicesDiags]
    rcases hm with hm | ⟨kv, hk, hv⟩
    · replace hm := mem_tag.1 hm; obtain ⟨hm, rfl⟩ := hm
      rw [mem_toList hm]; exact (checkObjectExpression_badK cx hcx s _ _ h).left
    · exact Reported.right (flatMap_reported _ _ kv hk s
        (checkContainer_badK cx hcx _ "jobs.<job_id>.services" "<service_id>" _ _ (by decide) (by decide) s k hv h))

theorem checkWorkflowCall_badK (cx : Cx) (hcx : cx.lower = lower) (c : Option WorkflowCall) (s : Str) (k : String)
    (hm : (s, k) ∈ callKStrs c) (h : BadUnderL lower k s.value) : Reported (RuleExpr.checkWorkflowCall cx c) s := by
  cases c with
  | none => simp [callKStrs] at hm
  | some c =>
    simp only [callKStrs] at hm
    simp only [RuleExpr.checkWorkflowCall]
    cases hu : c.uses with
    | none => simp [hu] at hm
    | some u =>
      simp only [hu, List.mem_append] at hm
      simp only
      rcases hm with (hm | hm) | hm
      · replace hm := mem_tag.1 hm; obtain ⟨hm, rfl⟩ := hm
        have hu := List.mem_singleton.1 hm
        subst hu
        exact (checkString_badK cx hcx _ _ h).left.left
      · replace hm := mem_tag.1 hm; obtain ⟨hm, rfl⟩ := hm
        obtain ⟨kv, hk, rfl⟩ := List.mem_map.1 hm
        exact Reported.left (Reported.right (flatMap_reported _ _ kv hk _ (checkStrU_badK cx hcx false _ _ h).left))
      · replace hm := mem_tag.1 hm; obtain ⟨hm, rfl⟩ := hm
        obtain ⟨kv, hk, rfl⟩ := List.mem_map.1 hm
        exact Reported.right (flatMap_reported _ _ kv hk _ (checkString_badK cx hcx _ _ h))

theorem jobPre_badK (cx : Cx) (hcx : cx.lower = lower) (n : Job) (s : Str) (k : String) (hm : (s, k) ∈ jobPreKStrs n)
    (h : BadUnderL lower k s.value) : Reported (jobPre cx n) s := by
  simp only [jobPreKStrs, List.mem_append] at hm
  simp only [jobPre]
  rcases hm with (((((((((((hm | hm) | hm) | hm) | hm) | hm) | hm) | hm) | hm) | hm) | hm) | hm) | hm
  · replace hm := mem_tag.1 hm; obtain ⟨hm, rfl⟩ := hm
    exact (checkString_opt_badK cx hcx _ _ s hm h).left.left.left.left.left.left.left.left.left.left.left.left
  · replace hm := mem_tag.1 hm; obtain ⟨hm, rfl⟩ := hm
    exact (checkStrings_opt_badK cx hcx _ _ s hm h).right.left.left.left.left.left.left.left.left.left.left.left
  · replace hm := mem_tag.1 hm; obtain ⟨hm, rfl⟩ := hm
    exact (runsOnDiags_badK cx hcx _ s hm h).right.left.left.left.left.left.left.left.left.left.left
  · replace hm := mem_tag.1 hm; obtain ⟨hm, rfl⟩ := hm
    exact (checkConcurrency_badK cx hcx _ _ s hm h).right.left.left.left.left.left.left.left.left.left
  · replace hm := mem_tag.1 hm; obtain ⟨hm, rfl⟩ := hm
    exact (checkEnv_badK cx hcx _ _ s hm h).right.left.left.left.left.left.left.left.left
  · replace hm := mem_tag.1 hm; obtain ⟨hm, rfl⟩ := hm
    exact (checkDefaults_badK cx hcx _ _ s hm h).right.left.left.left.left.left.left.left
  · replace hm := mem_tag.1 hm; obtain ⟨hm, rfl⟩ := hm
    exact (checkIfCondition_badK cx hcx _ _ s hm h).right.left.left.left.left.left.left
  · replace hm := mem_tag.1 hm; obtain ⟨hm, rfl⟩ := hm
    exact (strategyDiags_badK cx hcx _ s hm h).right.left.left.left.left.left
  · replace hm := mem_tag.1 hm; obtain ⟨hm, rfl⟩ := hm
    exact (checkBool_badK cx hcx _ _ s hm h).right.left.left.left.left
  · replace hm := mem_tag.1 hm; obtain ⟨hm, rfl⟩ := hm
    exact (checkFloat_badK cx hcx _ _ s hm h).right.left.left.left
  · exact (checkContainer_badK cx hcx _ "jobs.<job_id>.container" "" _ _ (by decide) (by decide) s k hm h).right.left.left
  · exact (servicesDiags_badK cx hcx _ s k hm h).right.left
  · exact (checkWorkflowCall_badK cx hcx _ s k hm h).right

theorem jobPost_badK (cx : Cx) (hcx : cx.lower = lower) (n : Job) (s : Str) (k : String) (hm : (s, k) ∈ jobPostKStrs n)
    (h : BadUnderL lower k s.value) : Reported (jobPost cx n) s := by
  simp only [jobPostKStrs, List.mem_append] at hm
  simp only [jobPost]
  rcases hm with hm | hm
  · refine Reported.left ?_
    cases he : n.environment with
    | none => simp [he] at hm
    | some e =>
      simp only [he, List.mem_append] at hm
      simp only
      rcases hm with hm | hm
      · replace hm := mem_tag.1 hm; obtain ⟨hm, rfl⟩ := hm
        exact (checkString_opt_badK cx hcx _ _ s hm h).left
      · replace hm := mem_tag.1 hm; obtain ⟨hm, rfl⟩ := hm
        exact (checkString_opt_badK cx hcx _ _ s hm h).right
  · replace hm := mem_tag.1 hm; obtain ⟨hm, rfl⟩ := hm
    obtain ⟨kv, hk, rfl⟩ := List.mem_map.1 hm
    exact Reported.right (flatMap_reported _ _ kv hk _ (checkString_badK cx hcx _ _ h))

/-- **every value string of a job is checked under the key of its position**, whatever the scope in effect, the other
jobs and the job's position -/
theorem visitJob_badK (cx : Cx) (hcx : cx.lower = lower) (isNum : IsNumber) (jobs : List (String × Job)) (n : Job) (s : Str)
    (k : String) (hm : (s, k) ∈ jobKStrs n) (h : BadUnderL lower k s.value) : Reported (visitJob cx isNum jobs n) s := by
  simp only [jobKStrs, List.mem_append] at hm
  simp only [visitJob]
  rcases hm with ((hm | hm) | hm) | hm
  · replace hm := mem_tag.1 hm; obtain ⟨hm, rfl⟩ := hm
    refine (jobMatrix_badK _ ?_ isNum n s hm h).left.left.left
    exact hcx
  · refine (jobPre_badK _ ?_ n s k hm h).right.left.left
    split <;> exact hcx
  · refine (visitSteps_badK s k h _ _ ?_ hm).right.left
    split <;> exact hcx
  · refine (jobPost_badK _ ?_ n s k hm h).right
    rw [visitSteps_lower]
    split <;> exact hcx

/-! ### events and the workflow -/

theorem filter_badK (cx : Cx) (hcx : cx.lower = lower) (f : Option Filter) (s : Str) (hm : s ∈ filterStrs f)
    (h : BadUnderL lower "" s.value) : Reported (filterDiags cx f) s := by
  cases f with
  | none => simp [filterStrs] at hm
  | some f => exact checkStrings_opt_badK cx hcx _ _ s (by simpa [filterStrs] using hm) h

theorem webhookDiags_badK (cx : Cx) (hcx : cx.lower = lower) (e : WebhookEvent) (s : Str) (hm : s ∈ eventStrs (.webhook e))
    (h : BadUnderL lower "" s.value) : Reported (webhookDiags cx e) s := by
  simp only [eventStrs, List.mem_append] at hm
  simp only [webhookDiags]
  rcases hm with ((((((hm | hm) | hm) | hm) | hm) | hm) | hm) | hm
  · exact (checkStrings_opt_badK cx hcx _ _ s hm h).left.left.left.left.left.left.left
  · exact (filter_badK cx hcx _ s hm h).right.left.left.left.left.left.left
  · exact (filter_badK cx hcx _ s hm h).right.left.left.left.left.left
  · exact (filter_badK cx hcx _ s hm h).right.left.left.left.left
  · exact (filter_badK cx hcx _ s hm h).right.left.left.left
  · exact (filter_badK cx hcx _ s hm h).right.left.left
  · exact (filter_badK cx hcx _ s hm h).right.left
  · exact (checkStrings_opt_badK cx hcx _ _ s hm h).right

theorem callInputs_badK (cx : Cx) (hcx : cx.lower = lower) (s : Str) (k : String) (h : BadUnderL lower k s.value) :
    ∀ (ins : List Ast.CallInput) (acc : List (String × Ty)),
      (s, k) ∈ ins.flatMap callInputKStrs → Reported (callInputs cx acc ins).2 s
  | [], _, hm => by simp at hm
  | i :: rest, acc, hm => by
    simp only [List.flatMap_cons, List.mem_append] at hm
    simp only [callInputs]
    rcases hm with hm | hm
    · simp only [callInputKStrs, List.mem_append] at hm
      rcases hm with (hm | hm) | hm
      · replace hm := mem_tag.1 hm; obtain ⟨hm, rfl⟩ := hm
        refine (checkString_opt_badK _ ?_ _ _ s hm h).left.left.left.left
        exact hcx
      · replace hm := mem_tag.1 hm; obtain ⟨hm, rfl⟩ := hm
        refine (checkBool_badK _ ?_ _ _ s hm h).right.left.left.left
        exact hcx
      · replace hm := mem_tag.1 hm; obtain ⟨hm, rfl⟩ := hm
        rw [mem_toList hm]
        refine (checkStrU_badK _ ?_ false s _ h).right.left.left
        exact hcx
    · exact (callInputs_badK cx hcx s k h rest _ hm).right

theorem visitEvent_lower (cx : Cx) (e : Ast.Event) : (visitEvent cx e).1.lower = cx.lower := by
  cases e with
  | call inputs secrets outputs pos =>
    simp only [visitEvent]
    split <;> rfl
  | _ => rfl

theorem visitEvents_lower : ∀ (es : List Ast.Event) (cx : Cx), (visitEvents cx es).1.lower = cx.lower
  | [], _ => rfl
  | e :: rest, cx => by
    simp only [visitEvents]
    rw [visitEvents_lower rest, visitEvent_lower]

theorem visitEvent_badK (cx : Cx) (hcx : cx.lower = lower) (e : Ast.Event) (s : Str) (k : String) (hm : (s, k) ∈ eventKStrs e)
    (h : BadUnderL lower k s.value) : Reported (visitEvent cx e).2 s := by
  cases e with
  | webhook e =>
    replace hm := mem_tag.1 (by simpa only [eventKStrs] using hm); obtain ⟨hm, rfl⟩ := hm
    exact webhookDiags_badK cx hcx e s hm h
  | schedule cron pos =>
    replace hm := mem_tag.1 (by simpa only [eventKStrs] using hm); obtain ⟨hm, rfl⟩ := hm
    simp only [eventStrs] at hm
    simp only [visitEvent]
    exact checkStrings_badK cx hcx cron "" s hm h
  | dispatch inputs pos =>
    replace hm := mem_tag.1 (by simpa only [eventKStrs] using hm); obtain ⟨hm, rfl⟩ := hm
    simp only [eventStrs, List.mem_flatMap, List.mem_append] at hm
    simp only [visitEvent]
    obtain ⟨kv, hk, hv⟩ := hm
    refine flatMap_reported _ _ kv hk s ?_
    simp only [dispatchInputDiags]
    rcases hv with ((hv | hv) | hv) | hv
    · exact (checkString_opt_badK cx hcx _ _ s hv h).left.left.left
    · exact (checkString_opt_badK cx hcx _ _ s hv h).right.left.left
    · exact (checkBool_badK cx hcx _ _ s hv h).right.left
    · exact (checkStrings_opt_badK cx hcx _ _ s hv h).right
  | repoDispatch types pos =>
    replace hm := mem_tag.1 (by simpa only [eventKStrs] using hm); obtain ⟨hm, rfl⟩ := hm
    simp only [eventStrs] at hm
    simp only [visitEvent]
    exact checkStrings_opt_badK cx hcx _ _ s hm h
  | call inputs secrets outputs pos =>
    simp only [eventKStrs, List.mem_append] at hm
    simp only [visitEvent]
    rcases hm with (hm | hm) | hm
    · refine (callInputs_badK _ ?_ s k h _ _ hm).left.left
      exact hcx
    · refine Reported.left (Reported.right ?_)
      replace hm := mem_tag.1 hm; obtain ⟨hm, rfl⟩ := hm
      simp only [List.mem_flatMap, List.mem_append] at hm
      obtain ⟨kv, hk, hv⟩ := hm
      refine flatMap_reported _ _ kv hk s ?_
      simp only [callSecretDiags]
      rcases hv with hv | hv
      · refine (checkString_opt_badK _ ?_ _ _ s hv h).left
        exact hcx
      · refine (checkBool_badK _ ?_ _ _ s hv h).right
        exact hcx
    · refine Reported.right ?_
      replace hm := mem_tag.1 hm; obtain ⟨hm, rfl⟩ := hm
      simp only [List.mem_flatMap] at hm
      obtain ⟨kv, hk, hv⟩ := hm
      refine flatMap_reported _ _ kv hk s (checkString_opt_badK _ ?_ _ _ s hv h)
      split <;> exact hcx

theorem visitEvents_badK (s : Str) (k : String) (h : BadUnderL lower k s.value) : ∀ (es : List Ast.Event) (cx : Cx),
    cx.lower = lower → (s, k) ∈ es.flatMap eventKStrs → Reported (visitEvents cx es).2 s
  | [], _, _, hm => by simp at hm
  | e :: rest, cx, hcx, hm => by
    simp only [List.flatMap_cons, List.mem_append] at hm
    simp only [visitEvents]
    rcases hm with hm | hm
    · exact (visitEvent_badK cx hcx e s k hm h).left
    · exact (visitEvents_badK s k h rest _ ((visitEvent_lower cx e).trans hcx) hm).right

/-- **C12, rule half (sharp form).** For every workflow AST, whatever the project's view: a value string whose text
yields a diagnostic in every check under THE KEY OF ITS POSITION — in the scopes that fold names as the rule does —
gets a diagnostic of the expression rule located at that string. -/
theorem every_position_checked_under_its_key_L (lower : String → String) (isNum : IsNumber) (w : Workflow) (proj : ProjView)
    (s : Str) (key : String) (hm : (s, key) ∈ keyedStrs w) (h : BadUnderL lower key s.value) :
    Reported (rule lower isNum w proj) s := by
  simp only [keyedStrs, List.mem_append] at hm
  simp only [rule]
  have hev : (visitEvents { lower := lower, proj := proj } (w.on.getD [])).1.lower = lower := visitEvents_lower _ _
  rcases hm with (((hm | hm) | hm) | hm) | hm
  · replace hm := mem_tag.1 hm; obtain ⟨hm, rfl⟩ := hm
    exact (checkString_opt_badK _ rfl _ _ s hm h).left.left.left.left
  · exact (visitEvents_badK s key h _ _ rfl hm).right.left.left.left
  · refine Reported.left (Reported.left (Reported.right ?_))
    rcases hm with ((hm | hm) | hm) | hm
    · replace hm := mem_tag.1 hm; obtain ⟨hm, rfl⟩ := hm
      exact (checkString_opt_badK _ hev _ _ s hm h).left.left.left
    · replace hm := mem_tag.1 hm; obtain ⟨hm, rfl⟩ := hm
      exact (checkEnv_badK _ hev _ _ s hm h).right.left.left
    · replace hm := mem_tag.1 hm; obtain ⟨hm, rfl⟩ := hm
      exact (checkDefaults_badK _ hev _ _ s hm h).right.left
    · replace hm := mem_tag.1 hm; obtain ⟨hm, rfl⟩ := hm
      exact (checkConcurrency_badK _ hev _ _ s hm h).right
  · refine Reported.left (Reported.right ?_)
    obtain ⟨kv, hk, hv⟩ := List.mem_flatMap.1 hm
    exact flatMap_reported _ _ kv hk s (visitJob_badK _ hev isNum _ kv.2 s key hv h)
  · refine Reported.right ?_
    replace hm := mem_tag.1 hm; obtain ⟨hm, rfl⟩ := hm
    simp only [outValueStrs] at hm
    cases hf : findCallOutputs (w.on.getD []) with
    | none => simp [hf] at hm
    | some outs =>
      simp only [hf] at hm
      simp only
      split at hm
      · cases hm
      · rename_i hc
        rw [if_neg hc]
        obtain ⟨kv, hk, hv⟩ := List.mem_flatMap.1 hm
        refine flatMap_reported _ _ kv hk s (checkString_opt_badK _ ?_ _ _ s hv h)
        exact hev

/-- **C12, rule half.** Every value string of the workflow is checked under the workflow key of its position: if every
check of its text under that key yields a diagnostic, the rule reports one located at that string — in every section,
at every nesting depth, whatever else the workflow contains. -/
theorem every_position_checked_under_its_key (lower : String → String) (isNum : IsNumber) (w : Workflow) (s : Str)
    (key : String) (hm : (s, key) ∈ keyedStrs w) (h : BadUnder key s.value) : Reported (rule lower isNum w) s :=
  every_position_checked_under_its_key_L lower isNum w {} s key hm (h.toL lower)

/-- C03's theorem is the special case "bad under every key" -/
theorem every_placeholder_checked' (lower : String → String) (isNum : IsNumber) (w : Workflow) (s : Str)
    (hm : s ∈ valueStrs w) (h : Malformed s.value) : Reported (rule lower isNum w) s := by
  obtain ⟨key, hk⟩ := every_value_keyed w s hm
  exact every_position_checked_under_its_key lower isNum w s key hk (malformed_badUnder h key)


/-! ### the hypothesis is satisfiable, and it depends on the key -/

/-- the text after a `${{` lexes (offset `off`) and parses to the bare variable `a` -/
def parsesVar (rest : List Nat) (a : String) (off : Nat) : Bool :=
  match AL.Lex.lexExpression (decodeUtf8 rest), AL.Parse.parseToks (AL.Lex.tokens (decodeUtf8 rest)) with
  | .ok (_, o), .ok (.var m) => decide (symsToString m = a) && decide (o = off)
  | _, _ => false

/-- the text after a `${{` lexes (offset `off`) and parses to `a.b` -/
def parsesProp (rest : List Nat) (a b : String) (off : Nat) : Bool :=
  match AL.Lex.lexExpression (decodeUtf8 rest), AL.Parse.parseToks (AL.Lex.tokens (decodeUtf8 rest)) with
  | .ok (_, o), .ok (.objDeref (.var m) q) => decide (symsToString m = a) && decide (symsToString q = b) && decide (o = off)
  | _, _ => false

theorem checkOne_of_parsesVar (cx : Cx) (key : String) (u : Bool) (rest : List Nat) (a : String) (off : Nat)
    (h : parsesVar rest a off = true) :
    ∃ m, symsToString m = a ∧ checkOne cx key u rest = checkParsed cx key u (.var m) off := by
  unfold parsesVar at h
  split at h
  · rename_i ts o m h1 h2
    simp only [Bool.and_eq_true, decide_eq_true_eq] at h
    refine ⟨m, h.1, ?_⟩
    unfold checkOne
    simp only [h1, h2, h.2]
  · cases h

theorem checkOne_of_parsesProp (cx : Cx) (key : String) (u : Bool) (rest : List Nat) (a b : String) (off : Nat)
    (h : parsesProp rest a b off = true) :
    ∃ m q, symsToString m = a ∧ symsToString q = b ∧
      checkOne cx key u rest = checkParsed cx key u (.objDeref (.var m) q) off := by
  unfold parsesProp at h
  split at h
  · rename_i ts o m q h1 h2
    simp only [Bool.and_eq_true, decide_eq_true_eq] at h
    refine ⟨m, q, h.1.1, h.1.2, ?_⟩
    unfold checkOne
    simp only [h1, h2, h.2]
  · cases h

/-- the environment an expression is checked in -/
abbrev envOf (cx : Cx) (key : String) : Sema.Env :=
  { AL.Visit.mkEnv cx.lower cx.hdr cx.jobsTy cx.st key with configVars := cx.proj.configVars }

theorem ite_errs_ne {α : Type} (errs : List SemaErr) (a : α) (h : errs ≠ []) :
    (if errs.isEmpty then (some a, ([] : List SemaErr)) else (none, errs)).2 ≠ [] := by
  cases errs with
  | nil => exact absurd rfl h
  | cons e es => simp

theorem checkParsed_bad (cx : Cx) (key : String) (u : Bool) (pe : AL.Parse.Expr) (off : Nat)
    (h : (check (envOf cx key) (toE cx.lower pe)).errs ≠ []) : (checkParsed cx key u pe off).2 ≠ [] := by
  unfold checkParsed
  exact ite_errs_ne _ _ (fun h0 => h (List.append_eq_nil_iff.1 h0).1)

theorem checkParsed_ok (cx : Cx) (key : String) (pe : AL.Parse.Expr) (off : Nat)
    (h : (check (envOf cx key) (toE cx.lower pe)).errs = []) :
    checkParsed cx key false pe off = (some ((check (envOf cx key) (toE cx.lower pe)).ty, off), []) := by
  unfold checkParsed
  simp [h]

theorem var_not_available (Γ : Sema.Env) (name : String) (h : Γ.availCtx.contains (Γ.lower name) = false) :
    (check Γ (.var name)).errs ≠ [] := by
  rw [check_var]
  simp only [wrap_errs]
  split
  · simp
  · rw [h]; simp

theorem prop_not_available (Γ : Sema.Env) (name p : String) (h : Γ.availCtx.contains (Γ.lower name) = false) :
    (check Γ (.objDeref (.var name) p)).errs ≠ [] := by
  rw [check_objDeref]
  simp only [wrap_errs]
  intro h0
  exact var_not_available Γ name h (List.append_eq_nil_iff.1 h0).1

theorem var_ok (Γ : Sema.Env) (name : String) (hd : (Ty.lookup name Γ.vars).isSome = true)
    (h : Γ.availCtx.contains (Γ.lower name) = true) : (check Γ (.var name)).errs = [] := by
  rw [check_var]
  simp only [wrap_errs]
  split
  · rename_i hn; rw [hn] at hd; cases hd
  · rw [h]; rfl

theorem prop_ok (Γ : Sema.Env) (ctx name : String) (ha : Γ.availCtx.contains (Γ.lower ctx) = true)
    (h : (match Ty.lookup ctx Γ.vars with
      | some t => (objDerefTy Γ (decide (ctx = "vars")) name t).2.isEmpty
      | none => false) = true) : (check Γ (.objDeref (.var ctx) name)).errs = [] := by
  split at h
  · rename_i t ht
    rw [(check_ctx_prop Γ ctx name t ht ha).2]
    exact List.isEmpty_iff.1 h
  · cases h

theorem scan_first_bad (cx : Cx) (key : String) (u : Bool) (fuel : Nat) (s : List Nat) (ts : List Ty) (idx : Nat)
    (hi : AL.Proc.indexOf AL.Proc.open3 s 0 = some idx) (hb : (checkOne cx key u (s.drop (idx + 3))).2 ≠ []) :
    (scan cx key u (fuel + 1) s ts).2 ≠ [] := by
  rw [scan]
  simp only [hi]
  split
  · rename_i errs heq
    rw [heq] at hb
    exact hb
  · rename_i ty off es heq
    have := checkOne_some_nil cx key u (s.drop (idx + 3)) (ty, off) (by rw [heq])
    exact absurd this hb

/-- the first placeholder of the text has a diagnostic ⇒ so has the text -/
theorem checkExprsIn_first_bad (cx : Cx) (key : String) (u : Bool) (v : String) (b : List Nat) (hb : bytesOf v = b)
    (idx : Nat) (hi : AL.Proc.indexOf AL.Proc.open3 b 0 = some idx)
    (hbad : (checkOne cx key u (b.drop (idx + 3))).2 ≠ []) : (checkExprsIn cx key u v).2 ≠ [] := by
  simp only [checkExprsIn, hb]
  cases b with
  | nil => simp [AL.Proc.indexOf, AL.Proc.open3] at hi
  | cons x xs => exact scan_first_bad cx key u _ _ _ idx hi hbad

theorem scan_none (cx : Cx) (key : String) (u : Bool) (fuel : Nat) (s : List Nat) (ts : List Ty)
    (hi : AL.Proc.indexOf AL.Proc.open3 s 0 = none) : (scan cx key u fuel s ts).2 = [] := by
  cases fuel with
  | zero => rfl
  | succ f => rw [scan]; simp only [hi]

/-- a text with ONE placeholder that checks without a diagnostic -/
theorem checkExprsIn_single_ok (cx : Cx) (key : String) (u : Bool) (v : String) (b : List Nat) (hb : bytesOf v = b)
    (f : Nat) (hl : b.length = f + 1) (idx : Nat) (hi : AL.Proc.indexOf AL.Proc.open3 b 0 = some idx) (t : Ty) (off : Nat)
    (h1 : checkOne cx key u (b.drop (idx + 3)) = (some (t, off), []))
    (hrest : AL.Proc.indexOf AL.Proc.open3 ((b.drop (idx + 3)).drop off) 0 = none) :
    (checkExprsIn cx key u v).2 = [] := by
  simp only [checkExprsIn, hb, hl]
  rw [scan]
  simp only [hi, h1]
  split
  · rfl
  · exact scan_none cx key u _ _ _ hrest

/-- `${{ github }}` and `${{ secrets.x }}` as bytes -/
def bGithub : List Nat := [36, 123, 123, 32, 103, 105, 116, 104, 117, 98, 32, 125, 125]
def bSecrets : List Nat := [36, 123, 123, 32, 115, 101, 99, 114, 101, 116, 115, 46, 120, 32, 125, 125]

theorem bytes_github : bytesOf "${{ github }}" = bGithub := by decide +kernel
theorem bytes_secrets : bytesOf "${{ secrets.x }}" = bSecrets := by decide +kernel
theorem parses_github : parsesVar (bGithub.drop (0 + 3)) "github" 10 = true := by decide +kernel
theorem parses_secrets : parsesProp (bSecrets.drop (0 + 3)) "secrets" "x" 13 = true := by decide +kernel

/-- as a bare `if:` condition both texts are a syntax error (`$`) -/
theorem lex_github_cond :
    (match AL.Lex.lexExpression (decodeUtf8 (bGithub ++ [125, 125])) with | .ok _ => true | .error _ => false) = false := by
  decide +kernel
theorem lex_secrets_cond :
    (match AL.Lex.lexExpression (decodeUtf8 (bSecrets ++ [125, 125])) with | .ok _ => true | .error _ => false) = false := by
  decide +kernel

/-- a text `${{ a }}` in a position whose row does not list (the folded) `a` -/
theorem var_text_bad (cx : Cx) (key : String) (u : Bool) (v : String) (b : List Nat) (hb : bytesOf v = b)
    (hi : AL.Proc.indexOf AL.Proc.open3 b 0 = some 0) (a : String) (off : Nat) (hp : parsesVar (b.drop (0 + 3)) a off = true)
    (hav : (AL.Visit.availability key).1.contains (cx.lower (cx.lower a)) = false) : (checkExprsIn cx key u v).2 ≠ [] := by
  refine checkExprsIn_first_bad cx key u v b hb 0 hi ?_
  obtain ⟨m, hm, he⟩ := checkOne_of_parsesVar cx key u _ a off hp
  rw [he]
  apply checkParsed_bad
  simp only [toE, hm]
  exact var_not_available _ _ hav

/-- a text `${{ a.b }}` in a position whose row does not list (the folded) `a` -/
theorem prop_text_bad (cx : Cx) (key : String) (u : Bool) (v : String) (b : List Nat) (hb : bytesOf v = b)
    (hi : AL.Proc.indexOf AL.Proc.open3 b 0 = some 0) (a p : String) (off : Nat)
    (hp : parsesProp (b.drop (0 + 3)) a p off = true)
    (hav : (AL.Visit.availability key).1.contains (cx.lower (cx.lower a)) = false) : (checkExprsIn cx key u v).2 ≠ [] := by
  refine checkExprsIn_first_bad cx key u v b hb 0 hi ?_
  obtain ⟨m, q, hm, hq, he⟩ := checkOne_of_parsesProp cx key u _ a p off hp
  rw [he]
  apply checkParsed_bad
  simp only [toE, hm, hq]
  exact prop_not_available _ _ _ hav

/-- a text `${{ a }}` (nothing after it) where `a` is defined and listed -/
theorem var_text_ok (cx : Cx) (key : String) (v : String) (b : List Nat) (hb : bytesOf v = b) (f : Nat) (hl : b.length = f + 1)
    (hi : AL.Proc.indexOf AL.Proc.open3 b 0 = some 0) (a a' : String) (off : Nat)
    (hp : parsesVar (b.drop (0 + 3)) a off = true) (ha : cx.lower a = a')
    (hd : (Ty.lookup a' (envOf cx key).vars).isSome = true)
    (hav : (envOf cx key).availCtx.contains ((envOf cx key).lower a') = true)
    (hrest : AL.Proc.indexOf AL.Proc.open3 ((b.drop (0 + 3)).drop off) 0 = none) : (checkExprsIn cx key false v).2 = [] := by
  obtain ⟨m, hm, he⟩ := checkOne_of_parsesVar cx key false _ a off hp
  have hc : (check (envOf cx key) (toE cx.lower (.var m))).errs = [] := by
    simp only [toE, hm, ha]
    exact var_ok _ _ hd hav
  exact checkExprsIn_single_ok cx key false v b hb f hl 0 hi _ off (he.trans (checkParsed_ok cx key _ off hc)) hrest

/-- a text `${{ a.p }}` (nothing after it) where `a` is defined and listed and has the property -/
theorem prop_text_ok (cx : Cx) (key : String) (v : String) (b : List Nat) (hb : bytesOf v = b) (f : Nat) (hl : b.length = f + 1)
    (hi : AL.Proc.indexOf AL.Proc.open3 b 0 = some 0) (a p a' p' : String) (off : Nat)
    (hp : parsesProp (b.drop (0 + 3)) a p off = true) (ha : cx.lower a = a') (hpp : cx.lower p = p')
    (hav : (envOf cx key).availCtx.contains ((envOf cx key).lower a') = true)
    (hd : (match Ty.lookup a' (envOf cx key).vars with
      | some t => (objDerefTy (envOf cx key) (decide (a' = "vars")) p' t).2.isEmpty
      | none => false) = true)
    (hrest : AL.Proc.indexOf AL.Proc.open3 ((b.drop (0 + 3)).drop off) 0 = none) : (checkExprsIn cx key false v).2 = [] := by
  obtain ⟨m, q, hm, hq, he⟩ := checkOne_of_parsesProp cx key false _ a p off hp
  have hc : (check (envOf cx key) (toE cx.lower (.objDeref (.var m) q))).errs = [] := by
    simp only [toE, hm, hq, ha, hpp]
    exact prop_ok _ _ _ hav hd
  exact checkExprsIn_single_ok cx key false v b hb f hl 0 hi _ off (he.trans (checkParsed_ok cx key _ off hc)) hrest

/-- **the key matters (1), for every scope.** Where no key is passed no context is available: `${{ github }}` has a
diagnostic in every check without a key, whatever the scope and the folding function … -/
theorem github_bad_without_key : BadUnder "" "${{ github }}" := by
  constructor
  · intro cx u
    exact var_text_bad cx "" u _ bGithub bytes_github (by decide) "github" 10 parses_github (by simp [AL.Visit.availability])
  · intro cx
    rw [bytes_github, checkOne_of_lex_error cx "" false _ lex_github_cond]
    simp

/-- … and under `run-name`, whose row lists `github`, it has none: `BadUnder` is not `Malformed` -/
theorem github_ok_in_run_name : (checkExprsIn { lower := id } "run-name" false "${{ github }}").2 = [] :=
  var_text_ok { lower := id } "run-name" _ bGithub bytes_github 12 rfl (by decide) "github" "github" 10 parses_github rfl
    (by decide +kernel) (by decide +kernel) (by decide)

theorem github_not_bad_in_run_name : ¬ BadUnder "run-name" "${{ github }}" :=
  fun h => h.tmpl { lower := id } false github_ok_in_run_name

theorem github_not_malformed : ¬ Malformed "${{ github }}" :=
  fun h => github_not_bad_in_run_name (malformed_badUnder h _)

/-- **the key matters (2).** `secrets` is not available under `key`, names are folded by a function that leaves
`secrets` alone (as `strings.ToLower` does): `${{ secrets.x }}` has a diagnostic in every check under `key` -/
theorem secrets_bad_where_unavailable (lower : String → String) (hl : lower "secrets" = "secrets") (key : String)
    (hk : (AL.Visit.availability key).1.contains "secrets" = false) : BadUnderL lower key "${{ secrets.x }}" := by
  constructor
  · intro cx u hcx
    exact prop_text_bad cx key u _ bSecrets bytes_secrets (by decide) "secrets" "x" 13 parses_secrets
      (by rw [hcx, hl, hl]; exact hk)
  · intro cx _
    rw [bytes_secrets, checkOne_of_lex_error cx key false _ lex_secrets_cond]
    simp

/-- `secrets` is not available for a job's `if:` -/
theorem secrets_bad_in_job_if (lower : String → String) (hl : lower "secrets" = "secrets") :
    BadUnderL lower "jobs.<job_id>.if" "${{ secrets.x }}" :=
  secrets_bad_where_unavailable lower hl _ (by decide +kernel)

/-- … but it is for a step's `run:` -/
theorem secrets_ok_in_step_run : (checkExprsIn { lower := id } "jobs.<job_id>.steps.run" false "${{ secrets.x }}").2 = [] :=
  prop_text_ok { lower := id } "jobs.<job_id>.steps.run" _ bSecrets bytes_secrets 15 rfl (by decide) "secrets" "x" "secrets" "x" 13
    parses_secrets rfl rfl (by decide +kernel) (by decide +kernel) (by decide)

theorem secrets_not_bad_in_step_run : ¬ BadUnder "jobs.<job_id>.steps.run" "${{ secrets.x }}" :=
  fun h => h.tmpl { lower := id } false secrets_ok_in_step_run

/-- a folding function that does NOT leave `secrets` alone -/
def perverse (s : String) : String := if s = "secrets" then "vars" else s

/-- why (2) is stated with `BadUnderL`: the model's folding function is a parameter, and one that turns `secrets` into
`vars` makes the text fine under a job's `if:` — the unrestricted `BadUnder "jobs.<job_id>.if" "${{ secrets.x }}"` is FALSE -/
theorem secrets_job_if_needs_the_folding : ¬ BadUnder "jobs.<job_id>.if" "${{ secrets.x }}" :=
  fun h => h.tmpl { lower := perverse } false
    (prop_text_ok { lower := perverse } "jobs.<job_id>.if" _ bSecrets bytes_secrets 15 rfl (by decide) "secrets" "x" "vars" "x" 13
      parses_secrets (by decide) (by decide) (by decide +kernel) (by decide +kernel) (by decide))

/-! ### every key of the enumeration is a row of the table (or no key) -/

/-- no key, or a key of `WorkflowKeyAvailability` (= the documentation's table, `AL.C12.code_eq_docs`) -/
def docKeys : List String := "" :: AL.Gen.availabilityCode.map (·.1)

theorem snd_of_mem_tag {key : String} {l : List Str} {p : Str × String} (h : p ∈ tag key l) : p.2 = key := by
  obtain ⟨a, _, rfl⟩ := List.mem_map.1 h
  rfl

theorem containerKStrs_keys (c : Option Container) (k1 k2 k3 k4 : String) (h1 : k1 ∈ docKeys) (h2 : k2 ∈ docKeys)
    (h3 : k3 ∈ docKeys) (h4 : k4 ∈ docKeys) : ∀ p ∈ containerKStrs c k1 k2 k3 k4, p.2 ∈ docKeys := by
  intro p hp
  cases c with
  | none => simp [containerKStrs] at hp
  | some c =>
    simp only [containerKStrs, List.mem_append] at hp
    rcases hp with ((((hp | hp) | hp) | hp) | hp) | hp
    · rw [snd_of_mem_tag hp]; exact h1
    · cases hc : c.credentials with
      | none => simp [hc] at hp
      | some cr => rw [hc] at hp; rw [snd_of_mem_tag hp]; exact h2
    · rw [snd_of_mem_tag hp]; exact h3
    · rw [snd_of_mem_tag hp]; exact h4
    · rw [snd_of_mem_tag hp]; exact h4
    · rw [snd_of_mem_tag hp]; exact h4

theorem execKStrs_keys (e : Exec) : ∀ p ∈ execKStrs e, p.2 ∈ docKeys := by
  intro p hp
  cases e with
  | none => simp [execKStrs] at hp
  | run e =>
    simp only [execKStrs, List.mem_append] at hp
    rcases hp with (hp | hp) | hp <;> (rw [snd_of_mem_tag hp]; decide)
  | action e =>
    simp only [execKStrs, List.mem_append] at hp
    rcases hp with ((hp | hp) | hp) | hp <;> (rw [snd_of_mem_tag hp]; decide)

theorem stepKStrs_keys (st : Step) : ∀ p ∈ stepKStrs st, p.2 ∈ docKeys := by
  intro p hp
  simp only [stepKStrs, List.mem_append] at hp
  rcases hp with ((((hp | hp) | hp) | hp) | hp) | hp <;>
    first | exact execKStrs_keys _ p hp | (rw [snd_of_mem_tag hp]; decide)

theorem servicesKStrs_keys (s : Option Services) : ∀ p ∈ servicesKStrs s, p.2 ∈ docKeys := by
  intro p hp
  cases s with
  | none => simp [servicesKStrs] at hp
  | some s =>
    simp only [servicesKStrs, List.mem_append, List.mem_flatMap] at hp
    rcases hp with hp | ⟨kv, _, hp⟩
    · rw [snd_of_mem_tag hp]; decide
    · exact containerKStrs_keys _ _ _ _ _ (by decide) (by decide) (by decide) (by decide) p hp

theorem callKStrs_keys (c : Option WorkflowCall) : ∀ p ∈ callKStrs c, p.2 ∈ docKeys := by
  intro p hp
  cases c with
  | none => simp [callKStrs] at hp
  | some c =>
    simp only [callKStrs] at hp
    cases hu : c.uses with
    | none => simp [hu] at hp
    | some u =>
      simp only [hu, List.mem_append] at hp
      rcases hp with (hp | hp) | hp <;> (rw [snd_of_mem_tag hp]; decide)

theorem jobKStrs_keys (n : Job) : ∀ p ∈ jobKStrs n, p.2 ∈ docKeys := by
  intro p hp
  simp only [jobKStrs, List.mem_append, List.mem_flatMap] at hp
  rcases hp with ((hp | hp) | ⟨st, _, hp⟩) | hp
  · rw [snd_of_mem_tag hp]; decide
  · simp only [jobPreKStrs, List.mem_append] at hp
    rcases hp with (((((((((((hp | hp) | hp) | hp) | hp) | hp) | hp) | hp) | hp) | hp) | hp) | hp) | hp <;>
      first
      | exact containerKStrs_keys _ _ _ _ _ (by decide) (by decide) (by decide) (by decide) p hp
      | exact servicesKStrs_keys _ p hp
      | exact callKStrs_keys _ p hp
      | (rw [snd_of_mem_tag hp]; decide)
  · exact stepKStrs_keys st p hp
  · simp only [jobPostKStrs, List.mem_append] at hp
    rcases hp with hp | hp
    · cases he : n.environment with
      | none => simp [he] at hp
      | some e =>
        simp only [he, List.mem_append] at hp
        rcases hp with hp | hp <;> (rw [snd_of_mem_tag hp]; decide)
    · rw [snd_of_mem_tag hp]; decide

theorem eventKStrs_keys (e : Ast.Event) : ∀ p ∈ eventKStrs e, p.2 ∈ docKeys := by
  intro p hp
  cases e with
  | call inputs secrets outputs pos =>
    simp only [eventKStrs, List.mem_append, List.mem_flatMap] at hp
    rcases hp with (⟨i, _, hp⟩ | hp) | hp
    · simp only [callInputKStrs, List.mem_append] at hp
      rcases hp with (hp | hp) | hp <;> (rw [snd_of_mem_tag hp]; decide)
    · rw [snd_of_mem_tag hp]; decide
    · rw [snd_of_mem_tag hp]; decide
  | _ =>
    simp only [eventKStrs] at hp
    rw [snd_of_mem_tag hp]; decide

/-- no key of the enumeration is misspelt: each is `""` or a case label of `WorkflowKeyAvailability` -/
theorem keyedStrs_keys (w : Workflow) : ∀ p ∈ keyedStrs w, p.2 ∈ docKeys := by
  intro p hp
  simp only [keyedStrs, List.mem_append, List.mem_flatMap] at hp
  rcases hp with (((hp | ⟨e, _, hp⟩) | hp) | ⟨kv, _, hp⟩) | hp
  · rw [snd_of_mem_tag hp]; decide
  · exact eventKStrs_keys e p hp
  · rcases hp with ((hp | hp) | hp) | hp <;> (rw [snd_of_mem_tag hp]; decide)
  · exact jobKStrs_keys kv.2 p hp
  · rw [snd_of_mem_tag hp]; decide

/-! ### two keys with the same row are interchangeable -/

section congr
variable {k1 k2 : String} (hk : AL.Visit.availability k1 = AL.Visit.availability k2)
include hk

theorem mkEnv_congr (l : String → String) (hdr : AL.Visit.Header) (j : Option Ty) (st : AL.Visit.St) :
    AL.Visit.mkEnv l hdr j st k1 = AL.Visit.mkEnv l hdr j st k2 := by
  unfold AL.Visit.mkEnv
  rw [hk]

theorem checkParsed_congr (cx : Cx) (u : Bool) (pe : AL.Parse.Expr) (off : Nat) :
    checkParsed cx k1 u pe off = checkParsed cx k2 u pe off := by
  unfold checkParsed
  rw [mkEnv_congr hk]

theorem checkOne_congr (cx : Cx) (u : Bool) (rest : List Nat) : checkOne cx k1 u rest = checkOne cx k2 u rest := by
  simp only [checkOne, checkParsed_congr hk]

theorem scan_congr (cx : Cx) (u : Bool) : ∀ (fuel : Nat) (s : List Nat) (ts : List Ty),
    scan cx k1 u fuel s ts = scan cx k2 u fuel s ts
  | 0, _, _ => rfl
  | fuel + 1, s, ts => by
    rw [scan, scan]
    simp only [checkOne_congr hk, scan_congr cx u fuel]

theorem checkExprsIn_congr (cx : Cx) (u : Bool) (v : String) : checkExprsIn cx k1 u v = checkExprsIn cx k2 u v := by
  simp only [checkExprsIn, scan_congr hk]

theorem badUnderL_congr (lower : String → String) (v : String) (h : BadUnderL lower k1 v) : BadUnderL lower k2 v :=
  ⟨fun cx u hcx => by rw [← checkExprsIn_congr hk]; exact h.tmpl cx u hcx,
   fun cx hcx => by rw [← checkOne_congr hk]; exact h.cond cx hcx⟩

end congr

/-! ### on whole workflows -/

theorem job_keyed {w : Workflow} {id : String} {j : Job} (hj : (id, j) ∈ w.jobs.getD []) {p : Str × String}
    (h : p ∈ jobKStrs j) : p ∈ keyedStrs w := by
  simp only [keyedStrs, List.mem_append]
  exact Or.inl (Or.inr (List.mem_flatMap.2 ⟨(id, j), hj, h⟩))

/-- in EVERY workflow, under every project view: a job whose `if:` is `${{ secrets.x }}` gets a diagnostic at that
scalar (`secrets` is not in the row of `jobs.<job_id>.if`) — whatever else the workflow contains -/
theorem job_if_secrets_reported (lower : String → String) (hl : lower "secrets" = "secrets") (isNum : IsNumber) (w : Workflow)
    (proj : ProjView) (id : String) (j : Job) (hj : (id, j) ∈ w.jobs.getD []) (q : Bool) (p : RuleExpr.Pos)
    (hc : j.cond = some ⟨"${{ secrets.x }}", q, p⟩) : ∃ d ∈ rule lower isNum w proj, d.site = p :=
  every_position_checked_under_its_key_L lower isNum w proj ⟨"${{ secrets.x }}", q, p⟩ "jobs.<job_id>.if"
    (job_keyed hj (by simp [jobKStrs, jobPreKStrs, mem_tag, hc])) (secrets_bad_in_job_if lower hl)

/-- the workflow's `name:` is checked without a key: no context at all is available there -/
theorem name_github_reported (lower : String → String) (isNum : IsNumber) (w : Workflow) (q : Bool) (p : RuleExpr.Pos)
    (hn : w.name = some ⟨"${{ github }}", q, p⟩) : ∃ d ∈ rule lower isNum w, d.site = p :=
  every_position_checked_under_its_key lower isNum w ⟨"${{ github }}", q, p⟩ ""
    (by simp [keyedStrs, mem_tag, hn]) github_bad_without_key

/-! ### positions whose key differs from the documentation

ONE position: **`jobs.<job_id>.container.image`** — the `image:` key of a job's `container:` mapping. (The scalar form
`container: <image>`, whose documented key is `jobs.<job_id>.container`, is stored by the parser in the same field
`Container.Image`, parse.go:934/939, so the AST — and the rule — cannot tell the two forms apart.)

  * GitHub's table has a row of its own for it, `jobs.<job_id>.container.image`, and `WorkflowKeyAvailability` has the
    case label; the harness table (go/corr/c12.go) expects that key.
  * `checkContainer` (rule_expression.go:484) checks `c.Image` with the key of the SECTION,
    `rule.checkString(c.Image, workflowKey)` = `jobs.<job_id>.container`; the label `jobs.<job_id>.container.image` is
    never passed by the rule. The model (tied to the Go code by `exprwf`) does the same and `keyedStrs` lists the key
    really used.
  * It is a difference of name only: the two rows are equal (`container_image_row`: github, inputs, matrix, needs,
    strategy, vars; no special function), two keys with the same row give the same checks (`checkExprsIn_congr`), and so
    the theorem holds for that position under the documented key too (`container_image_checked_under_documented_key`).
    It would become a defect the day GitHub's table makes the two rows differ.

Every other position has the documented key. For the record, the positions that are checked WITHOUT a key (no context
and no special function available; the table has no row for them, go/corr/c12.go says `""` as well): `name`,
everything under `on:` except `workflow_call.inputs.<id>.default` and `workflow_call.outputs.<id>.value`, the workflow's
`defaults.run.*`, a job's `needs` and `uses`, a step's `shell`, `uses` (and `id`, which is not a value string here).
A service's `image`/`ports`/`volumes`/`options` have the key `jobs.<job_id>.services`, as the table has no finer row. -/

theorem container_image_row :
    AL.Visit.availability "jobs.<job_id>.container.image" = AL.Visit.availability "jobs.<job_id>.container" := by
  decide +kernel

theorem container_image_checked_under_documented_key (lower : String → String) (isNum : IsNumber) (w : Workflow)
    (proj : ProjView) (id : String) (j : Job) (hj : (id, j) ∈ w.jobs.getD []) (c : Container) (hc : j.container = some c)
    (s : Str) (hs : c.image = some s) (h : BadUnderL lower "jobs.<job_id>.container.image" s.value) :
    Reported (rule lower isNum w proj) s :=
  every_position_checked_under_its_key_L lower isNum w proj s "jobs.<job_id>.container"
    (job_keyed hj (by simp [jobKStrs, jobPreKStrs, containerKStrs, mem_tag, hc, hs]))
    (badUnderL_congr container_image_row lower _ h)

end AL.C12R
