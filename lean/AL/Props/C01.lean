import AL.Gen.Panics
import AL.Props.C04
import AL.Props.C04Lex
import AL.Props.C17
import AL.Props.C18
import AL.Props.C20
/-
  C01 — no input makes actionlint panic, crash or hang.
  Lean cannot observe a Go panic. What it carries is the REASON the code does not panic or hang:
  (a) every explicit `panic("unreachable")` sits in the default branch of a switch whose cases cover
      every value that can reach it — a fact regenerated from the source with go/types;
  (b) every loop of the modelled algorithms terminates: the model functions are total Lean definitions
      (no `partial`, no fuel that can run out — see the theorems re-exported below).
  Runtime residue (named in the evidence): nil dereferences outside these sites, yaml.v3 internals, the
  Go runtime, memory exhaustion — exercised by the crash search of the harness, not proved.
-/
namespace AL.C01

def strip (s : String) : String := if s.toList.head? = some '*' then String.ofList (s.toList.drop 1) else s

/-- panic sites whose universe of reaching values is not a Go type of this package, with the reason why the
switch is nevertheless exhaustive -/
def panicLedger : List (String × String × String) := [
  ("expr_type.go", "typeOfJSONValue", "encoding/json decodes into `any` only as bool, float64, string, []any, map[string]any, nil"),
  ("parse.go", "nodeKindName", "yaml.v3 has exactly the five node kinds listed; the zero kind of an empty document is handled by the caller before"),
  ("rule_deprecated_commands.go", "VisitStep", "the switch is over the index of a capture group of a fixed regular expression with four alternatives")
]

/-- (a1) every switch that ends in `default: panic(…)` and whose universe is known (implementers of the
switched interface / constants of the switched type, computed by go/types) lists every member. -/
def switches_exhaustive_check : Bool :=
  AL.Gen.panicSites.all fun s =>
    let univ := s.2.2.2.2
    let cases := s.2.2.2.1.map strip
    univ.isEmpty || univ = ["<any: values produced by a third-party decoder>"] ||
      univ.all fun u => cases.contains (strip u)

theorem switches_exhaustive : switches_exhaustive_check = true := by decide +kernel

/-- (a2) every other explicit panic is in the ledger (a new `panic(` is an open obligation). -/
def panics_in_ledger_check : Bool :=
  AL.Gen.panicSites.all fun s =>
    let univ := s.2.2.2.2
    (!univ.isEmpty && univ ≠ ["<any: values produced by a third-party decoder>"] && s.2.2.1 ≠ "other") ||
      panicLedger.any fun l => l.1 = s.1 && l.2.1 = s.2.1

theorem panics_in_ledger : panics_in_ledger_check = true := by decide +kernel

/-! (b) termination facts proved for the models (re-exported so that the C01 audit lists them):
  * glob validator: every `validateNext` call consumes input — `AL.C17.step_consumes`
  * lexer: the token stream always ends with END within the fuel — `AL.C04.lex_well_ended`
  * parser: the fuel handed in by `parseToks` is never exhausted — `AL.C04.fuel_enough'`
  * needs DFS: the answer never depends on fuel — `AL.C18.fuel_irrelevant`; a cyclic graph always yields a
    diagnostic and the printing loop returns to its start — `AL.C18.cyclic_some`, `AL.C18.printed_is_cycle`
  * sanitize: length preserved, hence the loop ends within `src.length` steps — `AL.C20.sanitize_length`
  * process protocol: no deadlock with ≥ 1 permit — `AL.C20.progress` -/

end AL.C01
